import HgVerif.Lemmas.SlotsSet
import HgVerif.Lemmas.SlotsDict
import HgVerif.Lemmas.SlotsDictV
import HgVerif.Lemmas.SlotsDictPre
import HgVerif.Lemmas.SlotsWin
import HgVerif.Lemmas.SlotsFixed
/-!
# C05 — collection deltas are coherent with collection values at every tick

Property theorems only (helpers live in `Lemmas/Slots*.lean`).  The model is `Model/Slots.lean`
(KeySlotStore, TSSSlotStorage, TSDSlotStorage, SizeTSWindowStorage and their mutation / output views).
"Ghost" = the value at the start of the current delta window, carried next to the model state by
`GSet/GDict/GDictV/GWin`; erasing it gives the plain model run (`*.run_x`, `GWin.run_w`).

TSS (`TSS<Int>`)
* `tss_inv_reachable`      : for EVERY operation sequence (any times, also decreasing ones) the reached state
                             satisfies `TSS.Inv` relative to the ghost; `tss_slot_inv_reachable` is the slot-level
                             part (ceiling): no two constructed slots hold equal keys; the free list holds only
                             free slots, once each, so a pending-erase slot is never handed out before
                             `erase_pending`; free slots carry no delta bit.
* `tss_delta_canonical`    : `added = value \ V0`, `removed = V0 \ value` — the delta is a function of the two
                             values alone, so mutations that cancel within the window leave no trace;
  `tss_delta_coherent`     : **delta_coherent**: `value = (V0 \ removed) ∪ added`, `added ∩ removed = ∅`,
                             `added ⊆ value`, `removed ∩ value = ∅`, `removed ⊆ V0`.
* `tss_add_remove_no_trace`, `tss_remove_add_no_trace` : the two cancel patterns, explicitly.
* `tss_times`, `tss_ghost_is_cycle_start`, `tss_window_is_cycle` : with non-decreasing times a delta window is
                             one engine cycle: `V0` is the value at the previous tick and the output view at
                             the cycle's time shows exactly the raw bits.
* `tss_ghost_eq_fold`, `tss_value_eq_fold` : from empty, the value equals the fold of all deltas.

TSD (`TSD<Int, TS<Int>>`; value = live keys whose child has a value)
* `tsd_inv_reachable`, `tsd_slot_inv_reachable`, `tsd_delta_canonical`, `tsd_delta_coherent`,
  `tsd_set_erase_no_trace`, `tsd_erase_set_no_trace`, `tsd_times`, `tsd_window_is_cycle`, `tsd_ghost_eq_fold`,
  `tsd_value_eq_fold`      : the same, at key level (floor).
* `tsd_modified_subset_value`, `tsd_removed_readable` (ceiling).
* value level: `tsd_value_delta_coherent : TSDValueDeltaCoherent` — the FULL statement (value' = previous value
  with removed keys dropped and modified items written) for every history with non-decreasing times, for the
  code WITH the repair of F-C05-1 (`restore_modified_mark`, `fixes/c05_f1.patch`); built on
  `tsd_vinv_reachable`, `tsd_vghost_is_cycle_start`, `tsd_value_delta_mem`.
  `tsd_value_delta_incoherent_prefix` documents on the pre-fix copy (`Lemmas/SlotsDictPre.lean`) why the repair
  was needed.  `tsd_value_delta_partial` (modified items ⊆ value) holds unconditionally.
  `TSDKeySetCoherent` / `tsd_keyset_incoherent`: the `key_set()` projection is not coherent when a key is
  created without a value (known finding F-C05-2, not repaired).

fixed TSL / TSB (ceiling; `TSL<TS<Int>, n>` driven, TSB shares `ts_data_fixed_structured_ops.cpp`)
* `fixed_cycle_coherent`   : after the child writes of one cycle the children whose time equals the parent's
                             (`modified_items()`, the delta map) are exactly the children written in the cycle,
                             all other children keep value and time; `fixed_wf_reachable` gives its hypotheses
                             for every run with increasing cycle times.

tick TSW (`TSW<Int>`, period N, min_period m)
* `window_last_n`          : after ANY operation sequence the window holds exactly the last `min(k, N)` accepted
                             pushes, in order, with their times; `size = min(k, N)`;
                             `all_valid ↔ ticked ∧ min(k, N) ≥ m`; `full ↔ k ≥ N`.
* `window_evicted`         : a push onto a full window evicts the `(k+1-N)`-th accepted push.
-/
namespace HgVerif.Slots
local notation "Time" => Nat

/-! ## TSS -/

/-- the delta bits are a function of the value and the window-start value alone -/
theorem tss_delta_canonical {x : TSS} {V0 : List Key} (h : x.Inv V0) (k : Key) :
    (k ∈ addedKeysRaw x.keys.slots ↔ k ∈ x.value ∧ k ∉ V0) ∧
    (k ∈ removedKeysRaw x.keys.slots ↔ k ∈ V0 ∧ k ∉ x.value) := by
  simp only [TSS.value, mem_addedKeysRaw, mem_removedKeysRaw, mem_liveKeys]
  constructor
  · constructor
    · rintro ⟨i, ha, hk⟩
      obtain ⟨_, o2, _, _, _⟩ := h.slot i
      exact ⟨⟨i, (o2 ha).1, hk⟩, by rw [← hk]; exact (o2 ha).2⟩
    · rintro ⟨⟨i, hl, hk⟩, hnv⟩
      obtain ⟨_, _, _, o4, _⟩ := h.slot i
      refine ⟨i, ?_, hk⟩
      cases ha : (sget x.keys.slots i).added with
      | true => rfl
      | false => exact absurd (hk ▸ o4 hl ha) hnv
  · constructor
    · rintro ⟨i, hr, hk⟩
      obtain ⟨_, _, o3, _, _⟩ := h.slot i
      refine ⟨by rw [← hk]; exact (o3 hr).2, ?_⟩
      rintro ⟨j, hl, hkj⟩
      have : i = j := h.wf.uniq i j (by rw [(o3 hr).1]; decide) (by rw [hl]; decide) (by rw [hk, hkj])
      subst this
      rw [(o3 hr).1] at hl; cases hl
    · rintro ⟨hv, hnl⟩
      obtain ⟨i, hs, hk⟩ := h.cover k hv
      obtain ⟨_, _, _, _, o5⟩ := h.slot i
      refine ⟨i, ?_, hk⟩
      have hp : (sget x.keys.slots i).st = .pending := by
        cases hst : (sget x.keys.slots i).st with
        | free => exact absurd hst hs
        | live => exact absurd ⟨i, hst, hk⟩ hnl
        | pending => rfl
      cases hr : (sget x.keys.slots i).removed with
      | true => rfl
      | false => exact absurd hv (hk ▸ o5 hp hr)

/-- **delta_coherent (TSS)**: with `V0` the value at the start of the window (cycle):
    `value = (V0 \ removed) ∪ added`, `added ∩ removed = ∅`, `added ⊆ value`, `removed ∩ value = ∅`,
    `removed ⊆ V0`. -/
theorem tss_delta_coherent {x : TSS} {V0 : List Key} (h : x.Inv V0) :
    (∀ k, k ∈ x.value ↔ (k ∈ V0 ∧ k ∉ removedKeysRaw x.keys.slots) ∨ k ∈ addedKeysRaw x.keys.slots) ∧
    (∀ k, ¬ (k ∈ addedKeysRaw x.keys.slots ∧ k ∈ removedKeysRaw x.keys.slots)) ∧
    (∀ k, k ∈ addedKeysRaw x.keys.slots → k ∈ x.value) ∧
    (∀ k, k ∈ removedKeysRaw x.keys.slots → k ∉ x.value) ∧
    (∀ k, k ∈ removedKeysRaw x.keys.slots → k ∈ V0) := by
  refine ⟨?_, ?_, ?_, ?_, ?_⟩
  · intro k
    obtain ⟨ha, hr⟩ := tss_delta_canonical h k
    rw [ha, hr]
    by_cases hv : k ∈ V0 <;> by_cases hx : k ∈ x.value <;> simp [hv, hx]
  · intro k
    obtain ⟨ha, hr⟩ := tss_delta_canonical h k
    rw [ha, hr]
    rintro ⟨⟨h1, _⟩, _, h2⟩; exact h2 h1
  · intro k hk; exact ((tss_delta_canonical h k).1.mp hk).1
  · intro k hk; exact ((tss_delta_canonical h k).2.mp hk).2
  · intro k hk; exact ((tss_delta_canonical h k).2.mp hk).1

/-- ghost-extended state: the model state, the value at the start of the current delta window, and the
    deltas of all completed windows (oldest first) -/
structure GSet where
  x : TSS := {}
  v0 : List Key := []
  hist : List (List Key × List Key) := []

def GSet.step (g : GSet) (o : SetOp) : GSet :=
  { x := g.x.step o
    v0 := g.x.ghost g.v0 o.time
    hist := if o.time ≤ g.x.deltaTime then g.hist
            else g.hist ++ [(addedKeysRaw g.x.keys.slots, removedKeysRaw g.x.keys.slots)] }

def GSet.run (ops : List SetOp) : GSet := ops.foldl GSet.step {}

/-- erasing the ghost gives the plain run of the model -/
theorem GSet.run_x (ops : List SetOp) : (GSet.run ops).x = TSS.run {} ops := by
  have : ∀ (g : GSet), (ops.foldl GSet.step g).x = TSS.run g.x ops := by
    induction ops with
    | nil => intro g; rfl
    | cons o rest ih => intro g; simp only [List.foldl_cons, TSS.run]; exact ih _
  exact this {}

theorem GSet.run_snoc (ops : List SetOp) (o : SetOp) : GSet.run (ops ++ [o]) = (GSet.run ops).step o := by
  simp [GSet.run, List.foldl_append]

/-- **tss_inv_reachable**: every reachable state satisfies the invariant relative to the ghost -/
theorem tss_inv_reachable (ops : List SetOp) : (GSet.run ops).x.Inv (GSet.run ops).v0 := by
  have : ∀ (g : GSet), g.x.Inv g.v0 → (ops.foldl GSet.step g).x.Inv (ops.foldl GSet.step g).v0 := by
    induction ops with
    | nil => intro g h; exact h
    | cons o rest ih =>
      intro g h
      simp only [List.foldl_cons]
      exact ih _ (TSS.step_inv h o).1
  exact this {} TSS.Inv_empty

/-- **slot_inv (ceiling)**: in every reachable TSS state no two constructed (live or pending-erase) slots
    hold equal keys, the free list holds only free slots without repetition (so a pending-erase slot is
    never reused before `erase_pending`), every pending-erase slot is queued for erase, and a free slot
    carries no delta bit. -/
theorem tss_slot_inv_reachable (ops : List SetOp) :
    let s := (TSS.run {} ops).keys
    (∀ i j, (sget s.slots i).st ≠ .free → (sget s.slots j).st ≠ .free →
      (sget s.slots i).key = (sget s.slots j).key → i = j) ∧
    (∀ i ∈ s.free, i < s.slots.length ∧ (sget s.slots i).st = .free) ∧ s.free.Nodup ∧
    (∀ i, (sget s.slots i).st = .pending → i ∈ s.pend) ∧
    (∀ i, (sget s.slots i).st = .free → (sget s.slots i).added = false ∧ (sget s.slots i).removed = false) := by
  have h := tss_inv_reachable ops
  rw [GSet.run_x] at h
  exact ⟨h.wf.uniq, h.wf.free_ok, h.wf.free_nodup, h.wf.pend_mem, fun i => (h.slot i).1⟩

/-- add-then-remove of an absent key inside one cycle leaves no trace in value or delta -/
theorem tss_add_remove_no_trace {x : TSS} {V0 : List Key} (h : x.Inv V0) {t : Time} (ht : t ≤ x.deltaTime)
    {k : Key} (hk : k ∉ x.value) :
    let x' := ((x.add t k).1.remove t k).1
    x'.Inv V0 ∧ ∀ k', (k' ∈ x'.value ↔ k' ∈ x.value) ∧
      (k' ∈ addedKeysRaw x'.keys.slots ↔ k' ∈ addedKeysRaw x.keys.slots) ∧
      (k' ∈ removedKeysRaw x'.keys.slots ↔ k' ∈ removedKeysRaw x.keys.slots) := by
  intro x'
  have h1 := TSS.add_inv h t k
  rw [TSS.ghost_of_le ht] at h1
  have h2 := TSS.remove_inv h1.1 t k
  rw [TSS.ghost_of_le (by rw [h1.2.1]; omega)] at h2
  have hv : ∀ k', k' ∈ x'.value ↔ k' ∈ x.value := by
    intro k'
    show k' ∈ ((x.add t k).1.remove t k).1.value ↔ _
    rw [TSS.value_remove h1.1, TSS.value_add h]
    constructor
    · rintro ⟨hne, rfl | hx⟩
      · exact absurd rfl hne
      · exact hx
    · intro hx; exact ⟨fun e => hk (e ▸ hx), Or.inr hx⟩
  refine ⟨h2.1, fun k' => ⟨hv k', ?_, ?_⟩⟩
  · rw [(tss_delta_canonical h2.1 k').1, (tss_delta_canonical h k').1, hv k']
  · rw [(tss_delta_canonical h2.1 k').2, (tss_delta_canonical h k').2, hv k']

/-- remove-then-add of a present key inside one cycle leaves no trace in value or delta -/
theorem tss_remove_add_no_trace {x : TSS} {V0 : List Key} (h : x.Inv V0) {t : Time} (ht : t ≤ x.deltaTime)
    {k : Key} (hk : k ∈ x.value) :
    let x' := ((x.remove t k).1.add t k).1
    x'.Inv V0 ∧ ∀ k', (k' ∈ x'.value ↔ k' ∈ x.value) ∧
      (k' ∈ addedKeysRaw x'.keys.slots ↔ k' ∈ addedKeysRaw x.keys.slots) ∧
      (k' ∈ removedKeysRaw x'.keys.slots ↔ k' ∈ removedKeysRaw x.keys.slots) := by
  intro x'
  have h1 := TSS.remove_inv h t k
  rw [TSS.ghost_of_le ht] at h1
  have h2 := TSS.add_inv h1.1 t k
  rw [TSS.ghost_of_le (by rw [h1.2.1]; omega)] at h2
  have hv : ∀ k', k' ∈ x'.value ↔ k' ∈ x.value := by
    intro k'
    show k' ∈ ((x.remove t k).1.add t k).1.value ↔ _
    rw [TSS.value_add h1.1, TSS.value_remove h]
    constructor
    · rintro (rfl | ⟨_, hx⟩)
      · exact hk
      · exact hx
    · intro hx
      by_cases e : k' = k
      · exact Or.inl e
      · exact Or.inr ⟨e, hx⟩
  refine ⟨h2.1, fun k' => ⟨hv k', ?_, ?_⟩⟩
  · rw [(tss_delta_canonical h2.1 k').1, (tss_delta_canonical h k').1, hv k']
  · rw [(tss_delta_canonical h2.1 k').2, (tss_delta_canonical h k').2, hv k']


/-! ### cycles: with non-decreasing times a delta window is exactly one engine cycle -/

theorem snoc_ind {α : Type} {P : List α → Prop} (h0 : P []) (hs : ∀ l a, P l → P (l ++ [a])) (l : List α) : P l := by
  have : ∀ r : List α, P r.reverse := by
    intro r
    induction r with
    | nil => exact h0
    | cons a t ih => rw [List.reverse_cons]; exact hs _ _ ih
  simpa using this l.reverse

/-- latest evaluation time used by a history -/
def maxTime (ops : List SetOp) : Nat := ops.foldl (fun m o => max m o.time) 0

theorem maxTime_snoc (ops : List SetOp) (o : SetOp) : maxTime (ops ++ [o]) = max (maxTime ops) o.time := by
  simp [maxTime, List.foldl_append]

/-- in every reachable state `delta_time_` and `last_modified_time` are the latest time used -/
theorem tss_times (ops : List SetOp) :
    (GSet.run ops).x.deltaTime = maxTime ops ∧ (GSet.run ops).x.lmt = maxTime ops := by
  induction ops using snoc_ind with
  | h0 => exact ⟨rfl, rfl⟩
  | hs l o ih =>
    have h := TSS.step_inv (tss_inv_reachable l) o
    rw [GSet.run_snoc, maxTime_snoc]
    show ((GSet.run l).x.step o).deltaTime = _ ∧ ((GSet.run l).x.step o).lmt = _
    rw [h.2.1, h.2.2, ih.1, ih.2]
    exact ⟨rfl, rfl⟩

/-- evaluation times never decrease (the engine's clock) -/
def Nondecreasing (ops : List SetOp) : Prop := ops.Pairwise (fun a b => a.time ≤ b.time)

theorem maxTime_le_of_sorted {ops : List SetOp} {o : SetOp} (h : Nondecreasing (ops ++ [o])) :
    maxTime ops ≤ o.time := by
  have hall : ∀ a ∈ ops, a.time ≤ o.time := by
    intro a ha
    have := (List.pairwise_append.mp h).2.2 a ha o (by simp)
    exact this
  clear h
  induction ops using snoc_ind with
  | h0 => simp [maxTime]
  | hs l a ih =>
    rw [maxTime_snoc]
    have h1 := ih (fun b hb => hall b (by simp [hb]))
    have h2 := hall a (by simp)
    omega

/-- with non-decreasing times the ghost is the value reached by the operations of all earlier cycles -/
theorem tss_ghost_is_cycle_start (ops : List SetOp) (o : SetOp) (hs : Nondecreasing (ops ++ [o])) (h0 : o.time ≠ 0) :
    (GSet.run (ops ++ [o])).v0 = (TSS.run {} (ops.filter (fun a => a.time < o.time))).value := by
  induction ops using snoc_ind generalizing o with
  | h0 =>
    simp only [List.nil_append, GSet.run, List.foldl_cons, List.foldl_nil, GSet.step, TSS.ghost, List.filter_nil,
      TSS.run]
    have : ¬ o.time ≤ (({} : GSet).x).deltaTime := by
      show ¬ o.time ≤ 0
      omega
    simp [this]
  | hs l p ih =>
    have hsl : Nondecreasing (l ++ [p]) := (List.pairwise_append.mp hs).1
    have hpo : p.time ≤ o.time := (List.pairwise_append.mp hs).2.2 p (by simp) o (by simp)
    have hdt : (GSet.run (l ++ [p])).x.deltaTime = p.time := by
      rw [(tss_times (l ++ [p])).1, maxTime_snoc]
      have := maxTime_le_of_sorted hsl
      omega
    rw [GSet.run_snoc]
    show (GSet.run (l ++ [p])).x.ghost (GSet.run (l ++ [p])).v0 o.time = _
    unfold TSS.ghost
    rw [hdt]
    by_cases hle : o.time ≤ p.time
    · have heq : o.time = p.time := by omega
      simp only [hle, ↓reduceIte]
      rw [ih p hsl (by omega)]
      simp only [List.filter_append, List.filter_cons, List.filter_nil, heq, Nat.lt_irrefl, decide_false,
        Bool.false_eq_true, ↓reduceIte, List.append_nil]
    · simp only [hle, ↓reduceIte]
      rw [GSet.run_x]
      have hall : ∀ a ∈ l ++ [p], a.time < o.time := by
        intro a ha
        rcases List.mem_append.mp ha with ha | ha
        · have := (List.pairwise_append.mp hsl).2.2 a ha p (by simp)
          omega
        · simp at ha; subst ha; omega
      have : (l ++ [p]).filter (fun a => decide (a.time < o.time)) = l ++ [p] := by
        apply List.filter_eq_self.mpr
        intro a ha; simpa using hall a ha
      rw [this]

/-- **a delta window is a cycle**: after a history with non-decreasing times whose last operation is at
    `T ≠ MIN_DT`, the ghost is the value at the previous tick (the value reached by the operations of all
    earlier cycles, time `< T`), and the output view at `T` reports `modified` and shows the raw
    `added_/removed_` bits. -/
theorem tss_window_is_cycle (ops : List SetOp) (o : SetOp) (hs : Nondecreasing (ops ++ [o])) (h0 : o.time ≠ 0) :
    (GSet.run (ops ++ [o])).v0 = (TSS.run {} (ops.filter (fun a => a.time < o.time))).value ∧
    (TSS.run {} (ops ++ [o])).modifiedAt o.time = true ∧
    (TSS.run {} (ops ++ [o])).addedAt o.time = addedKeysRaw (TSS.run {} (ops ++ [o])).keys.slots ∧
    (TSS.run {} (ops ++ [o])).removedAt o.time = removedKeysRaw (TSS.run {} (ops ++ [o])).keys.slots := by
  have hmod : (TSS.run {} (ops ++ [o])).modifiedAt o.time = true := by
    rw [← GSet.run_x]
    have := (tss_times (ops ++ [o])).2
    rw [maxTime_snoc] at this
    have hle := maxTime_le_of_sorted hs
    simp only [TSS.modifiedAt, this]
    have : max (maxTime ops) o.time = o.time := by omega
    simp [this, h0]
  exact ⟨tss_ghost_is_cycle_start ops o hs h0, hmod, by simp [TSS.addedAt, hmod], by simp [TSS.removedAt, hmod]⟩

/-! ### from empty, the value is the fold of all deltas -/

/-- apply a delta `(added, removed)` to a value -/
def applyDelta (v : List Key) (d : List Key × List Key) : List Key :=
  v.filter (fun k => !d.2.contains k) ++ d.1

theorem mem_applyDelta (v : List Key) (d : List Key × List Key) (k : Key) :
    k ∈ applyDelta v d ↔ (k ∈ v ∧ k ∉ d.2) ∨ k ∈ d.1 := by
  simp [applyDelta]

def foldDeltas (hist : List (List Key × List Key)) : List Key := hist.foldl applyDelta []

/-- the ghost value is the fold of the deltas of all completed windows -/
theorem tss_ghost_eq_fold (ops : List SetOp) (k : Key) :
    k ∈ (GSet.run ops).v0 ↔ k ∈ foldDeltas (GSet.run ops).hist := by
  induction ops using snoc_ind generalizing k with
  | h0 => simp [GSet.run, foldDeltas]
  | hs l o ih =>
    rw [GSet.run_snoc]
    simp only [GSet.step, TSS.ghost]
    by_cases hle : o.time ≤ (GSet.run l).x.deltaTime
    · simp only [hle, ↓reduceIte]; exact ih k
    · simp only [hle, ↓reduceIte, foldDeltas, List.foldl_append, List.foldl_cons, List.foldl_nil]
      rw [mem_applyDelta]
      have hc := (tss_delta_coherent (tss_inv_reachable l)).1 k
      rw [hc, ih k]
      rfl

/-- **from empty the value equals the fold of all deltas**: the completed windows' deltas followed by the
    current window's delta reproduce the current value -/
theorem tss_value_eq_fold (ops : List SetOp) (k : Key) :
    k ∈ (TSS.run {} ops).value ↔
      k ∈ applyDelta (foldDeltas (GSet.run ops).hist)
        (addedKeysRaw (TSS.run {} ops).keys.slots, removedKeysRaw (TSS.run {} ops).keys.slots) := by
  rw [mem_applyDelta, ← tss_ghost_eq_fold, ← GSet.run_x]
  exact (tss_delta_coherent (tss_inv_reachable ops)).1 k


/-! ## TSD  (keys with a valid value; element `TS<Int>`) -/

/-- the structural delta bits are a function of the valid key set and its window-start value alone -/
theorem tsd_delta_canonical {x : TSD} {V0 : List Key} (h : x.Inv V0) (k : Key) :
    (k ∈ addedKeysRaw x.keys.slots ↔ k ∈ x.validKeys ∧ k ∉ V0) ∧
    (k ∈ removedKeysRaw x.keys.slots ↔ k ∈ V0 ∧ k ∉ x.validKeys) := by
  simp only [mem_addedKeysRaw, mem_removedKeysRaw, mem_validKeys]
  constructor
  · constructor
    · rintro ⟨i, ha, hk⟩
      obtain ⟨_, o2, _, o4, _⟩ := h.slot i
      have hp := (o4 ha).1
      exact ⟨⟨i, (o2 hp).1, (o2 hp).2, hk⟩, by rw [← hk]; exact (o4 ha).2⟩
    · rintro ⟨⟨i, hl, hc, hk⟩, hnv⟩
      obtain ⟨_, _, o3, _, _, o6, _⟩ := h.slot i
      refine ⟨i, ?_, hk⟩
      cases ha : (sget x.keys.slots i).added with
      | true => rfl
      | false => exact absurd (hk ▸ o6 (o3 hl hc) ha) hnv
  · constructor
    · rintro ⟨i, hr, hk⟩
      obtain ⟨_, _, _, _, o5, _⟩ := h.slot i
      refine ⟨by rw [← hk]; exact (o5 hr).2.1, ?_⟩
      rintro ⟨j, hl, _, hkj⟩
      have : i = j := h.wf.uniq i j (by rw [(o5 hr).1]; decide) (by rw [hl]; decide) (by rw [hk, hkj])
      subst this
      rw [(o5 hr).1] at hl; cases hl
    · rintro ⟨hv, hnl⟩
      obtain ⟨i, hs, hk⟩ := h.cover k hv
      obtain ⟨_, o2, _, _, _, _, o7, _⟩ := h.slot i
      refine ⟨i, ?_, hk⟩
      have hnp : (sget x.keys.slots i).published = false := by
        cases hp : (sget x.keys.slots i).published with
        | false => rfl
        | true => exact absurd ⟨i, (o2 hp).1, (o2 hp).2, hk⟩ hnl
      cases hr : (sget x.keys.slots i).removed with
      | true => rfl
      | false => exact absurd hv (hk ▸ o7 hs hnp hr)

/-- **delta_coherent (TSD, key level)**: with `V0` the valid keys at the start of the window (cycle):
    `keys = (V0 \ removed) ∪ added`, `added ∩ removed = ∅`, `added ⊆ keys`, `removed ∩ keys = ∅`,
    `removed ⊆ V0`. -/
theorem tsd_delta_coherent {x : TSD} {V0 : List Key} (h : x.Inv V0) :
    (∀ k, k ∈ x.validKeys ↔ (k ∈ V0 ∧ k ∉ removedKeysRaw x.keys.slots) ∨ k ∈ addedKeysRaw x.keys.slots) ∧
    (∀ k, ¬ (k ∈ addedKeysRaw x.keys.slots ∧ k ∈ removedKeysRaw x.keys.slots)) ∧
    (∀ k, k ∈ addedKeysRaw x.keys.slots → k ∈ x.validKeys) ∧
    (∀ k, k ∈ removedKeysRaw x.keys.slots → k ∉ x.validKeys) ∧
    (∀ k, k ∈ removedKeysRaw x.keys.slots → k ∈ V0) := by
  refine ⟨?_, ?_, ?_, ?_, ?_⟩
  · intro k
    obtain ⟨ha, hr⟩ := tsd_delta_canonical h k
    rw [ha, hr]
    by_cases hv : k ∈ V0 <;> by_cases hx : k ∈ x.validKeys <;> simp [hv, hx]
  · intro k
    obtain ⟨ha, hr⟩ := tsd_delta_canonical h k
    rw [ha, hr]
    rintro ⟨⟨h1, _⟩, _, h2⟩; exact h2 h1
  · intro k hk; exact ((tsd_delta_canonical h k).1.mp hk).1
  · intro k hk; exact ((tsd_delta_canonical h k).2.mp hk).2
  · intro k hk; exact ((tsd_delta_canonical h k).2.mp hk).1

/-- **modified keys ⊆ value' (ceiling)**: a key reported modified is a live key with a valid value -/
theorem tsd_modified_subset_value {x : TSD} {V0 : List Key} (h : x.Inv V0) (k : Key)
    (hk : k ∈ (modifiedItemsRaw x.keys.slots).map (·.1)) : k ∈ x.validKeys := by
  simp only [modifiedItemsRaw, List.map_map, List.mem_map, List.mem_filter, Function.comp_apply] at hk
  obtain ⟨s, ⟨hs, hp⟩, rfl⟩ := hk
  obtain ⟨i, _, rfl⟩ := exists_sget_of_mem hs
  simp only [Bool.and_eq_true, beq_iff_eq] at hp
  obtain ⟨_, o2, _, _, _, _, _, o8⟩ := h.slot i
  have hpub := o8 hp.2
  exact mem_validKeys.mpr ⟨i, (o2 hpub).1, (o2 hpub).2, rfl⟩

/-- **removed keys stay readable**: a slot reported removed is still constructed (pending erase, hence not in
    the free list and not reusable before `erase_pending`) and its child still holds its last value -/
theorem tsd_removed_readable {x : TSD} {V0 : List Key} (h : x.Inv V0) (i : Nat)
    (hr : (sget x.keys.slots i).removed = true) :
    (sget x.keys.slots i).st = .pending ∧ (sget x.keys.slots i).clmt ≠ 0 ∧ i ∉ x.keys.free := by
  obtain ⟨_, _, _, _, o5, _⟩ := h.slot i
  refine ⟨(o5 hr).1, (o5 hr).2.2, ?_⟩
  intro hf
  have := (h.wf.free_ok i hf).2
  rw [(o5 hr).1] at this; cases this

structure GDict where
  x : TSD := {}
  v0 : List Key := []
  hist : List (List Key × List Key) := []

def GDict.step (g : GDict) (o : DictOp) : GDict :=
  { x := g.x.step o
    v0 := g.x.ghost g.v0 o.time
    hist := if o.time ≤ g.x.deltaTime then g.hist
            else g.hist ++ [(addedKeysRaw g.x.keys.slots, removedKeysRaw g.x.keys.slots)] }

def GDict.run (ops : List DictOp) : GDict := ops.foldl GDict.step {}

theorem GDict.run_x (ops : List DictOp) : (GDict.run ops).x = TSD.run {} ops := by
  have : ∀ (g : GDict), (ops.foldl GDict.step g).x = TSD.run g.x ops := by
    induction ops with
    | nil => intro g; rfl
    | cons o rest ih => intro g; simp only [List.foldl_cons, TSD.run]; exact ih _
  exact this {}

theorem GDict.run_snoc (ops : List DictOp) (o : DictOp) : GDict.run (ops ++ [o]) = (GDict.run ops).step o := by
  simp [GDict.run, List.foldl_append]

/-- **tsd_inv_reachable**: every reachable TSD state satisfies the invariant relative to the ghost -/
theorem tsd_inv_reachable (ops : List DictOp) : (GDict.run ops).x.Inv (GDict.run ops).v0 := by
  have : ∀ (g : GDict), g.x.Inv g.v0 → (ops.foldl GDict.step g).x.Inv (ops.foldl GDict.step g).v0 := by
    induction ops with
    | nil => intro g h; exact h
    | cons o rest ih =>
      intro g h
      simp only [List.foldl_cons]
      exact ih _ (TSD.step_inv h o).1
  exact this {} TSD.Inv_empty

/-- **slot_inv (ceiling), TSD**: as for TSS, plus: only live slots with a valid child are published, a
    pending-erase or free slot is not, and modified bits sit on published slots only. -/
theorem tsd_slot_inv_reachable (ops : List DictOp) :
    let s := (TSD.run {} ops).keys
    (∀ i j, (sget s.slots i).st ≠ .free → (sget s.slots j).st ≠ .free →
      (sget s.slots i).key = (sget s.slots j).key → i = j) ∧
    (∀ i ∈ s.free, i < s.slots.length ∧ (sget s.slots i).st = .free) ∧ s.free.Nodup ∧
    (∀ i, (sget s.slots i).st = .pending → i ∈ s.pend) ∧
    (∀ i, (sget s.slots i).published = true ↔ ((sget s.slots i).st = .live ∧ (sget s.slots i).clmt ≠ 0)) ∧
    (∀ i, (sget s.slots i).modified = true → (sget s.slots i).published = true) := by
  have h := tsd_inv_reachable ops
  rw [GDict.run_x] at h
  refine ⟨h.wf.uniq, h.wf.free_ok, h.wf.free_nodup, h.wf.pend_mem, ?_, ?_⟩
  · intro i
    obtain ⟨_, o2, o3, _⟩ := h.slot i
    exact ⟨o2, fun hh => o3 hh.1 hh.2⟩
  · intro i
    obtain ⟨_, _, _, _, _, _, _, o8⟩ := h.slot i
    exact o8

/-- set-then-erase of a key without a value inside one cycle leaves no trace in the key set or its delta -/
theorem tsd_set_erase_no_trace {x : TSD} {V0 : List Key} (h : x.Inv V0) {t : Time} (h0 : t ≠ 0)
    (ht : t ≤ x.deltaTime) {k : Key} (v : Int) (hk : k ∉ x.validKeys) :
    let x' := ((x.set t k v).erase t k).1
    x'.Inv V0 ∧ ∀ k', (k' ∈ x'.validKeys ↔ k' ∈ x.validKeys) ∧
      (k' ∈ addedKeysRaw x'.keys.slots ↔ k' ∈ addedKeysRaw x.keys.slots) ∧
      (k' ∈ removedKeysRaw x'.keys.slots ↔ k' ∈ removedKeysRaw x.keys.slots) := by
  intro x'
  have h1 := TSD.set_inv h h0 k v
  rw [TSD.ghost_of_le ht] at h1
  have h2 := TSD.erase_inv h1.1 t k
  rw [TSD.ghost_of_le (by rw [h1.2]; omega)] at h2
  have hv : ∀ k', k' ∈ x'.validKeys ↔ k' ∈ x.validKeys := by
    intro k'
    show k' ∈ ((x.set t k v).erase t k).1.validKeys ↔ _
    rw [TSD.validKeys_erase h1.1, TSD.validKeys_set h h0]
    constructor
    · rintro ⟨hne, rfl | hx⟩
      · exact absurd rfl hne
      · exact hx
    · intro hx; exact ⟨fun e => hk (e ▸ hx), Or.inr hx⟩
  refine ⟨h2.1, fun k' => ⟨hv k', ?_, ?_⟩⟩
  · rw [(tsd_delta_canonical h2.1 k').1, (tsd_delta_canonical h k').1, hv k']
  · rw [(tsd_delta_canonical h2.1 k').2, (tsd_delta_canonical h k').2, hv k']

/-- erase-then-set of a valid key inside one cycle leaves no trace in the key set or its structural delta -/
theorem tsd_erase_set_no_trace {x : TSD} {V0 : List Key} (h : x.Inv V0) {t : Time} (h0 : t ≠ 0)
    (ht : t ≤ x.deltaTime) {k : Key} (v : Int) (hk : k ∈ x.validKeys) :
    let x' := (x.erase t k).1.set t k v
    x'.Inv V0 ∧ ∀ k', (k' ∈ x'.validKeys ↔ k' ∈ x.validKeys) ∧
      (k' ∈ addedKeysRaw x'.keys.slots ↔ k' ∈ addedKeysRaw x.keys.slots) ∧
      (k' ∈ removedKeysRaw x'.keys.slots ↔ k' ∈ removedKeysRaw x.keys.slots) := by
  intro x'
  have h1 := TSD.erase_inv h t k
  rw [TSD.ghost_of_le ht] at h1
  have h2 := TSD.set_inv h1.1 h0 k v
  rw [TSD.ghost_of_le (by rw [h1.2]; omega)] at h2
  have hv : ∀ k', k' ∈ x'.validKeys ↔ k' ∈ x.validKeys := by
    intro k'
    show k' ∈ ((x.erase t k).1.set t k v).validKeys ↔ _
    rw [TSD.validKeys_set h1.1 h0, TSD.validKeys_erase h]
    constructor
    · rintro (rfl | ⟨_, hx⟩)
      · exact hk
      · exact hx
    · intro hx
      by_cases e : k' = k
      · exact Or.inl e
      · exact Or.inr ⟨e, hx⟩
  refine ⟨h2.1, fun k' => ⟨hv k', ?_, ?_⟩⟩
  · rw [(tsd_delta_canonical h2.1 k').1, (tsd_delta_canonical h k').1, hv k']
  · rw [(tsd_delta_canonical h2.1 k').2, (tsd_delta_canonical h k').2, hv k']

def dmaxTime (ops : List DictOp) : Nat := ops.foldl (fun m o => max m o.time) 0

theorem dmaxTime_snoc (ops : List DictOp) (o : DictOp) : dmaxTime (ops ++ [o]) = max (dmaxTime ops) o.time := by
  simp [dmaxTime, List.foldl_append]

theorem tsd_times (ops : List DictOp) : (GDict.run ops).x.deltaTime = dmaxTime ops := by
  induction ops using snoc_ind with
  | h0 => rfl
  | hs l o ih =>
    have h := TSD.step_inv (tsd_inv_reachable l) o
    rw [GDict.run_snoc, dmaxTime_snoc]
    show ((GDict.run l).x.step o).deltaTime = _
    rw [h.2, ih]

def DNondecreasing (ops : List DictOp) : Prop := ops.Pairwise (fun a b => a.time ≤ b.time)

theorem dmaxTime_le_of_sorted {ops : List DictOp} {o : DictOp} (h : DNondecreasing (ops ++ [o])) :
    dmaxTime ops ≤ o.time := by
  have hall : ∀ a ∈ ops, a.time ≤ o.time := by
    intro a ha
    exact (List.pairwise_append.mp h).2.2 a ha o (by simp)
  clear h
  induction ops using snoc_ind with
  | h0 => simp [dmaxTime]
  | hs l a ih =>
    rw [dmaxTime_snoc]
    have h1 := ih (fun b hb => hall b (by simp [hb]))
    have h2 := hall a (by simp)
    omega

/-- **a delta window is a cycle (TSD)**: with non-decreasing times the ghost is the valid key set at the
    previous tick, and the output view at the cycle's time shows the raw structural bits -/
theorem tsd_window_is_cycle (ops : List DictOp) (o : DictOp) (hs : DNondecreasing (ops ++ [o])) (h0 : o.time ≠ 0) :
    (GDict.run (ops ++ [o])).v0 = (TSD.run {} (ops.filter (fun a => a.time < o.time))).validKeys ∧
    (TSD.run {} (ops ++ [o])).structAt o.time = true ∧
    (TSD.run {} (ops ++ [o])).addedAt o.time = addedKeysRaw (TSD.run {} (ops ++ [o])).keys.slots ∧
    (TSD.run {} (ops ++ [o])).removedAt o.time = removedKeysRaw (TSD.run {} (ops ++ [o])).keys.slots := by
  have hstruct : (TSD.run {} (ops ++ [o])).structAt o.time = true := by
    rw [← GDict.run_x]
    have := tsd_times (ops ++ [o])
    rw [dmaxTime_snoc] at this
    have hle := dmaxTime_le_of_sorted hs
    simp only [TSD.structAt, this]
    have : max (dmaxTime ops) o.time = o.time := by omega
    simp [this, h0]
  refine ⟨?_, hstruct, by simp [TSD.addedAt, hstruct], by simp [TSD.removedAt, hstruct]⟩
  clear hstruct
  induction ops using snoc_ind generalizing o with
  | h0 =>
    simp only [List.nil_append, GDict.run, List.foldl_cons, List.foldl_nil, GDict.step, TSD.ghost, List.filter_nil,
      TSD.run]
    have : ¬ o.time ≤ (({} : GDict).x).deltaTime := by
      show ¬ o.time ≤ 0
      omega
    simp [this]
  | hs l p ih =>
    have hsl : DNondecreasing (l ++ [p]) := (List.pairwise_append.mp hs).1
    have hpo : p.time ≤ o.time := (List.pairwise_append.mp hs).2.2 p (by simp) o (by simp)
    have hdt : (GDict.run (l ++ [p])).x.deltaTime = p.time := by
      rw [tsd_times (l ++ [p]), dmaxTime_snoc]
      have := dmaxTime_le_of_sorted hsl
      omega
    rw [GDict.run_snoc]
    show (GDict.run (l ++ [p])).x.ghost (GDict.run (l ++ [p])).v0 o.time = _
    unfold TSD.ghost
    rw [hdt]
    by_cases hle : o.time ≤ p.time
    · have heq : o.time = p.time := by omega
      simp only [hle, ↓reduceIte]
      rw [ih p hsl (by omega)]
      simp only [List.filter_append, List.filter_cons, List.filter_nil, heq, Nat.lt_irrefl, decide_false,
        Bool.false_eq_true, ↓reduceIte, List.append_nil]
    · simp only [hle, ↓reduceIte]
      rw [GDict.run_x]
      have hall : ∀ a ∈ l ++ [p], a.time < o.time := by
        intro a ha
        rcases List.mem_append.mp ha with ha | ha
        · have := (List.pairwise_append.mp hsl).2.2 a ha p (by simp)
          omega
        · simp at ha; subst ha; omega
      have : (l ++ [p]).filter (fun a => decide (a.time < o.time)) = l ++ [p] := by
        apply List.filter_eq_self.mpr
        intro a ha; simpa using hall a ha
      rw [this]

theorem tsd_ghost_eq_fold (ops : List DictOp) (k : Key) :
    k ∈ (GDict.run ops).v0 ↔ k ∈ foldDeltas (GDict.run ops).hist := by
  induction ops using snoc_ind generalizing k with
  | h0 => simp [GDict.run, foldDeltas]
  | hs l o ih =>
    rw [GDict.run_snoc]
    simp only [GDict.step, TSD.ghost]
    by_cases hle : o.time ≤ (GDict.run l).x.deltaTime
    · simp only [hle, ↓reduceIte]; exact ih k
    · simp only [hle, ↓reduceIte, foldDeltas, List.foldl_append, List.foldl_cons, List.foldl_nil]
      rw [mem_applyDelta]
      have hc := (tsd_delta_coherent (tsd_inv_reachable l)).1 k
      rw [hc, ih k]
      rfl

/-- **from empty the valid key set equals the fold of all structural deltas** -/
theorem tsd_value_eq_fold (ops : List DictOp) (k : Key) :
    k ∈ (TSD.run {} ops).validKeys ↔
      k ∈ applyDelta (foldDeltas (GDict.run ops).hist)
        (addedKeysRaw (TSD.run {} ops).keys.slots, removedKeysRaw (TSD.run {} ops).keys.slots) := by
  rw [mem_applyDelta, ← tsd_ghost_eq_fold, ← GDict.run_x]
  exact (tsd_delta_coherent (tsd_inv_reachable ops)).1 k

/-! ### TSD value level

The canonical TSD delta is `Bundle{removed : Set<K>, modified : Map<K, delta(V)>}` (`ts_delta.h`), i.e. what
`removed_keys()` and `modified_items()` show.  "The value observed at any tick equals the previous value
with that tick's delta applied" therefore reads as `TSDValueDeltaCoherent` below, and it is a THEOREM of the
code with the repair of finding F-C05-1 (`restore_modified_mark`, `fixes/c05_f1.patch`, modelled by
`dMarkBits`): `tsd_value_delta_coherent`, for every history with non-decreasing times.

Before the repair the statement was false (`tsd_value_delta_incoherent_prefix`, on the pre-fix copy of the
insert path in `Lemmas/SlotsDictPre.lean`): when a key whose child was written in this cycle was erased and
inserted again in the same cycle, the slot was resurrected (`reuse_existing_slot`), `remove_key` had cleared
its `modified_` bit, and the next child write was not the first of its evaluation time, so
`record_child_modified` was never called again: the key had a (new) value but was absent from
`modified_items()`. -/

def dictLookup (l : List (Key × Int)) (k : Key) : Option Int := (l.find? (fun p => p.1 == k)).map (·.2)

/-- previous value with the delta `(removed keys, modified items)` applied -/
def applyDictDelta (v : List (Key × Int)) (removed : List Key) (modified : List (Key × Int)) : List (Key × Int) :=
  modified ++ v.filter (fun p => !removed.contains p.1)

/-- FULL statement of the property for TSD values -/
def TSDValueDeltaCoherent : Prop :=
  ∀ (ops : List DictOp) (o : DictOp), DNondecreasing (ops ++ [o]) → o.time ≠ 0 →
    ∀ k, dictLookup (TSD.run {} (ops ++ [o])).validItems k =
      dictLookup (applyDictDelta (TSD.run {} (ops.filter (fun a => a.time < o.time))).validItems
        ((TSD.run {} (ops ++ [o])).removedAt o.time) ((TSD.run {} (ops ++ [o])).modifiedItemsAt o.time)) k

/-- the same statement about the insert path as it was BEFORE the repair (`Lemmas/SlotsDictPre.lean`) -/
def TSDValueDeltaCoherentPre : Prop :=
  ∀ (ops : List DictOp) (o : DictOp), DNondecreasing (ops ++ [o]) → o.time ≠ 0 →
    ∀ k, dictLookup (TSD.runPre {} (ops ++ [o])).validItems k =
      dictLookup (applyDictDelta (TSD.runPre {} (ops.filter (fun a => a.time < o.time))).validItems
        ((TSD.runPre {} (ops ++ [o])).removedAt o.time) ((TSD.runPre {} (ops ++ [o])).modifiedItemsAt o.time)) k

/-- why the repair was needed: kernel-checked counterexample for the pre-fix code (the same history failed on
    the real `TSOutput` before `fixes/c05_f1.patch`; it is now the regression case
    `corpus/C05/tsd_02_rewrite_after_erase.txt`): in one cycle `set 1 := 10; erase 1; set 1 := 12` ended with
    value `{1: 12}`, `added = {1}`, and an EMPTY modified map -/
theorem tsd_value_delta_incoherent_prefix : ¬ TSDValueDeltaCoherentPre := by
  intro h
  have := h [.set 1 1 10, .erase 1 1] (.set 1 1 12) (by simp [DNondecreasing, DictOp.time]) (by decide) 1
  revert this
  decide

/-- what does hold at value level in every reachable state (partial): the modified map only names keys of
    the value and carries their current values -/
theorem tsd_value_delta_partial (ops : List DictOp) (p : Key × Int)
    (hp : p ∈ modifiedItemsRaw (TSD.run {} ops).keys.slots) : p ∈ (TSD.run {} ops).validItems := by
  have h := tsd_inv_reachable ops
  rw [GDict.run_x] at h
  simp only [modifiedItemsRaw, List.mem_map, List.mem_filter] at hp
  obtain ⟨s, ⟨hs, hb⟩, rfl⟩ := hp
  obtain ⟨i, _, rfl⟩ := exists_sget_of_mem hs
  simp only [Bool.and_eq_true, beq_iff_eq] at hb
  obtain ⟨_, o2, _, _, _, _, _, o8⟩ := h.slot i
  have hpub := o8 hb.2
  simp only [TSD.validItems, List.mem_map, List.mem_filter]
  refine ⟨sget (TSD.run {} ops).keys.slots i, ⟨hs, ?_⟩, rfl⟩
  simp [Slot.member, (o2 hpub).1, (o2 hpub).2]

/-! #### the item ghost -/

structure GDictV where
  x : TSD := {}
  w0 : List (Key × Int) := []

def GDictV.step (g : GDictV) (o : DictOp) : GDictV := { x := g.x.step o, w0 := g.x.vghost g.w0 o.time }
def GDictV.run (ops : List DictOp) : GDictV := ops.foldl GDictV.step {}

theorem GDictV.run_x (ops : List DictOp) : (GDictV.run ops).x = TSD.run {} ops := by
  have : ∀ (g : GDictV), (ops.foldl GDictV.step g).x = TSD.run g.x ops := by
    induction ops with
    | nil => intro g; rfl
    | cons o rest ih => intro g; simp only [List.foldl_cons, TSD.run]; exact ih _
  exact this {}

/-- the key ghost of `GDict` is the key projection of the item ghost -/
theorem GDictV.run_keys (ops : List DictOp) :
    (GDictV.run ops).w0.map (·.1) = (GDict.run ops).v0 ∧ (GDictV.run ops).x = (GDict.run ops).x := by
  induction ops using snoc_ind with
  | h0 => exact ⟨rfl, rfl⟩
  | hs l o ih =>
    have e1 : GDictV.run (l ++ [o]) = (GDictV.run l).step o := by simp [GDictV.run, List.foldl_append]
    rw [e1, GDict.run_snoc]
    simp only [GDictV.step, GDict.step]
    rw [TSD.vghost_fst, ih.1, ih.2]
    exact ⟨rfl, rfl⟩

/-- every state reached by a history with non-decreasing times satisfies the value-level invariant relative
    to the item ghost -/
theorem tsd_vinv_reachable (ops : List DictOp) (hs : DNondecreasing ops) :
    (GDictV.run ops).x.VInv (GDictV.run ops).w0 := by
  induction ops using snoc_ind with
  | h0 => exact TSD.VInv_empty
  | hs l o ih =>
    have hsl : DNondecreasing l := (List.pairwise_append.mp hs).1
    have e1 : GDictV.run (l ++ [o]) = (GDictV.run l).step o := by simp [GDictV.run, List.foldl_append]
    rw [e1]
    apply TSD.step_vinv (ih hsl) o
    intro _
    rw [(GDictV.run_keys l).2, tsd_times l]
    exact dmaxTime_le_of_sorted hs

/-- with non-decreasing times the item ghost is the value (valid items) at the previous tick -/
theorem tsd_vghost_is_cycle_start (ops : List DictOp) (o : DictOp) (hs : DNondecreasing (ops ++ [o]))
    (h0 : o.time ≠ 0) :
    (GDictV.run (ops ++ [o])).w0 = (TSD.run {} (ops.filter (fun a => a.time < o.time))).validItems := by
  have hsnoc : ∀ (l : List DictOp) (a : DictOp), GDictV.run (l ++ [a]) = (GDictV.run l).step a := by
    intro l a; simp [GDictV.run, List.foldl_append]
  induction ops using snoc_ind generalizing o with
  | h0 =>
    simp only [List.nil_append, GDictV.run, List.foldl_cons, List.foldl_nil, GDictV.step, TSD.vghost, List.filter_nil,
      TSD.run]
    have : ¬ o.time ≤ (({} : GDictV).x).deltaTime := by
      show ¬ o.time ≤ 0
      omega
    simp [this]
  | hs l p ih =>
    have hsl : DNondecreasing (l ++ [p]) := (List.pairwise_append.mp hs).1
    have hpo : p.time ≤ o.time := (List.pairwise_append.mp hs).2.2 p (by simp) o (by simp)
    have hdt : (GDictV.run (l ++ [p])).x.deltaTime = p.time := by
      rw [(GDictV.run_keys (l ++ [p])).2, tsd_times (l ++ [p]), dmaxTime_snoc]
      have := dmaxTime_le_of_sorted hsl
      omega
    rw [hsnoc]
    show (GDictV.run (l ++ [p])).x.vghost (GDictV.run (l ++ [p])).w0 o.time = _
    unfold TSD.vghost
    rw [hdt]
    by_cases hle : o.time ≤ p.time
    · have heq : o.time = p.time := by omega
      simp only [hle, ↓reduceIte]
      rw [ih p hsl (by omega)]
      simp only [List.filter_append, List.filter_cons, List.filter_nil, heq, Nat.lt_irrefl, decide_false,
        Bool.false_eq_true, ↓reduceIte, List.append_nil]
    · simp only [hle, ↓reduceIte]
      rw [GDictV.run_x]
      have hall : ∀ a ∈ l ++ [p], a.time < o.time := by
        intro a ha
        rcases List.mem_append.mp ha with ha | ha
        · have := (List.pairwise_append.mp hsl).2.2 a ha p (by simp)
          omega
        · simp at ha; subst ha; omega
      have : (l ++ [p]).filter (fun a => decide (a.time < o.time)) = l ++ [p] := by
        apply List.filter_eq_self.mpr
        intro a ha; simpa using hall a ha
      rw [this]

/-- value' = previous value with the delta applied, in membership form: an item is in the value iff it is a
    modified item, or it was in the value at the start of the cycle and its key is neither removed nor
    modified -/
theorem tsd_value_delta_mem {x : TSD} {W0 : List (Key × Int)} (h : x.VInv W0) (p : Key × Int) :
    p ∈ x.validItems ↔
      p ∈ modifiedItemsRaw x.keys.slots ∨
      (p ∈ W0 ∧ p.1 ∉ removedKeysRaw x.keys.slots ∧ p.1 ∉ (modifiedItemsRaw x.keys.slots).map (·.1)) := by
  have hmodmem : ∀ q : Key × Int, q ∈ modifiedItemsRaw x.keys.slots ↔
      ∃ i, (sget x.keys.slots i).st = .live ∧ (sget x.keys.slots i).modified = true ∧
        (sget x.keys.slots i).key = q.1 ∧ (sget x.keys.slots i).cval = q.2 := by
    intro q
    simp only [modifiedItemsRaw, List.mem_map, List.mem_filter]
    constructor
    · rintro ⟨s, ⟨hs, hb⟩, rfl⟩
      obtain ⟨i, _, rfl⟩ := exists_sget_of_mem hs
      simp only [Bool.and_eq_true, beq_iff_eq] at hb
      exact ⟨i, hb.1, hb.2, rfl, rfl⟩
    · rintro ⟨i, hl, hm, hk, hv⟩
      have hi : i < x.keys.slots.length := lt_of_st_ne_free (by rw [hl]; decide)
      exact ⟨sget x.keys.slots i, ⟨sget_mem hi, by simp [hl, hm]⟩, Prod.ext hk hv⟩
  constructor
  · intro hp
    obtain ⟨i, hl, hc, hk, hv⟩ := mem_validItems.mp hp
    obtain ⟨_, _, o3, _⟩ := h.inv.slot i
    have hpub := o3 hl hc
    by_cases hm : (sget x.keys.slots i).modified = true
    · exact Or.inl ((hmodmem p).mpr ⟨i, hl, hm, hk, hv⟩)
    · right
      have hm' : (sget x.keys.slots i).modified = false := by simpa using hm
      have hw := (h.vslot i).1 hpub hm'
      have hpe : ((sget x.keys.slots i).key, (sget x.keys.slots i).cval) = p := Prod.ext hk hv
      refine ⟨hpe ▸ hw, ?_, ?_⟩
      · intro hr
        obtain ⟨j, hjr, hjk⟩ := mem_removedKeysRaw.mp hr
        obtain ⟨_, _, _, _, o5, _⟩ := h.inv.slot j
        have : j = i := h.inv.wf.uniq j i (by rw [(o5 hjr).1]; decide) (by rw [hl]; decide) (by rw [hjk, hk])
        subst this
        rw [(o5 hjr).1] at hl; cases hl
      · intro hmk
        obtain ⟨q, hq, hqk⟩ := List.mem_map.mp hmk
        obtain ⟨j, hjl, hjm, hjk, _⟩ := (hmodmem q).mp hq
        have : j = i := h.inv.wf.uniq j i (by rw [hjl]; decide) (by rw [hl]; decide) (by rw [hjk, hk, hqk])
        subst this
        exact hm hjm
  · rintro (hp | ⟨hw, hnr, hnm⟩)
    · obtain ⟨i, hl, hm, hk, hv⟩ := (hmodmem p).mp hp
      obtain ⟨_, o2, _, _, _, _, _, o8⟩ := h.inv.slot i
      exact mem_validItems.mpr ⟨i, hl, (o2 (o8 hm)).2, hk, hv⟩
    · -- the key was valid at the start of the cycle and is not removed: it is still valid
      have hkV : p.1 ∈ W0.map (·.1) := List.mem_map.mpr ⟨p, hw, rfl⟩
      have hvalid : p.1 ∈ x.validKeys := by
        have := (tsd_delta_canonical h.inv p.1).2
        by_cases hx : p.1 ∈ x.validKeys
        · exact hx
        · exact absurd (this.mpr ⟨hkV, hx⟩) hnr
      obtain ⟨i, hl, hc, hk⟩ := mem_validKeys.mp hvalid
      obtain ⟨_, _, o3, _⟩ := h.inv.slot i
      have hpub := o3 hl hc
      have hm' : (sget x.keys.slots i).modified = false := by
        cases hm : (sget x.keys.slots i).modified with
        | false => rfl
        | true =>
          exfalso; apply hnm
          exact List.mem_map.mpr ⟨((sget x.keys.slots i).key, (sget x.keys.slots i).cval),
            (hmodmem _).mpr ⟨i, hl, hm, rfl, rfl⟩, hk⟩
      have hw' := (h.vslot i).1 hpub hm'
      have : ((sget x.keys.slots i).key, (sget x.keys.slots i).cval) = p :=
        h.uniqW _ hw' _ hw hk
      exact mem_validItems.mpr ⟨i, hl, hc, hk, by rw [← this]⟩

/-! #### from membership to lookups -/

theorem dictLookup_some_iff {l : List (Key × Int)} (hu : ∀ p ∈ l, ∀ q ∈ l, p.1 = q.1 → p = q) (k : Key) (v : Int) :
    dictLookup l k = some v ↔ (k, v) ∈ l := by
  unfold dictLookup
  constructor
  · intro h
    cases hf : l.find? (fun p => p.1 == k) with
    | none => simp [hf] at h
    | some a =>
      simp only [hf, Option.map_some, Option.some.injEq] at h
      have hm := List.mem_of_find?_eq_some hf
      have hk : a.1 = k := by simpa using List.find?_some hf
      have : a = (k, v) := Prod.ext hk h
      exact this ▸ hm
  · intro hm
    cases hf : l.find? (fun p => p.1 == k) with
    | none =>
      have := List.find?_eq_none.mp hf (k, v) hm
      simp at this
    | some a =>
      have hma := List.mem_of_find?_eq_some hf
      have hk : a.1 = k := by simpa using List.find?_some hf
      have : a = (k, v) := hu a hma (k, v) hm hk
      simp [this]

theorem dictLookup_none_iff (l : List (Key × Int)) (k : Key) : dictLookup l k = none ↔ k ∉ l.map (·.1) := by
  unfold dictLookup
  simp only [Option.map_eq_none_iff, List.find?_eq_none, List.mem_map, not_exists, not_and]
  constructor
  · intro h p hp hk; exact absurd (by simpa using hk) (h p hp)
  · intro h p hp; simpa using h p hp

theorem dictLookup_append (a b : List (Key × Int)) (k : Key) :
    dictLookup (a ++ b) k = (dictLookup a k).or (dictLookup b k) := by
  unfold dictLookup
  rw [List.find?_append]
  cases a.find? (fun p => p.1 == k) <;> simp

/-- **value' = previous value with the delta applied (TSD)** — the full statement, for every history with
    non-decreasing times (code with the F-C05-1 repair) -/
theorem tsd_value_delta_coherent : TSDValueDeltaCoherent := by
  intro ops o hs h0 k
  have hsorted : DNondecreasing (ops ++ [o]) := hs
  have h := tsd_vinv_reachable (ops ++ [o]) hs
  have hw0 := tsd_vghost_is_cycle_start ops o hs h0
  obtain ⟨_, hstruct, _, hrem⟩ := tsd_window_is_cycle ops o hs h0
  rw [GDictV.run_x] at h
  rw [hw0] at h
  generalize hcur : TSD.run {} (ops ++ [o]) = cur at h hstruct hrem
  generalize hprev : (TSD.run {} (ops.filter (fun a => a.time < o.time))).validItems = W0 at h
  have hdt : cur.deltaTime = o.time := by
    have : (t : Nat) → cur.structAt t = true → cur.deltaTime = t := by
      intro t ht; simp only [TSD.structAt, Bool.and_eq_true, beq_iff_eq] at ht; exact ht.2
    exact this _ hstruct
  -- the modified items shown at `o.time` are the raw modified items
  have hmod : cur.modifiedItemsAt o.time = modifiedItemsRaw cur.keys.slots := by
    unfold TSD.modifiedItemsAt
    by_cases hm : cur.modifiedAt o.time = true
    · simp [hm]
    · simp only [hm, Bool.false_eq_true, ↓reduceIte]
      symm
      apply List.eq_nil_iff_forall_not_mem.mpr
      intro p hp
      simp only [modifiedItemsRaw, List.mem_map, List.mem_filter] at hp
      obtain ⟨s, ⟨hs', hb⟩, _⟩ := hp
      obtain ⟨i, _, rfl⟩ := exists_sget_of_mem hs'
      simp only [Bool.and_eq_true, beq_iff_eq] at hb
      obtain ⟨_, _, _, _, _, v6, v7⟩ := h.vslot i
      have h6 := v6 hb.2
      have h7 := v7 (by rw [hb.1]; decide)
      have hl := h.lmt_le
      apply hm
      simp only [TSD.modifiedAt, Bool.and_eq_true, bne_iff_ne, ne_eq, beq_iff_eq]
      exact ⟨h0, by omega⟩
  rw [hmod, hrem]
  -- uniqueness of keys in the three lists
  have hmodmem : ∀ q : Key × Int, q ∈ modifiedItemsRaw cur.keys.slots →
      ∃ i, (sget cur.keys.slots i).st = .live ∧ (sget cur.keys.slots i).key = q.1 ∧
        (sget cur.keys.slots i).cval = q.2 := by
    intro q hq
    simp only [modifiedItemsRaw, List.mem_map, List.mem_filter] at hq
    obtain ⟨s, ⟨hs', hb⟩, rfl⟩ := hq
    obtain ⟨i, _, rfl⟩ := exists_sget_of_mem hs'
    simp only [Bool.and_eq_true, beq_iff_eq] at hb
    exact ⟨i, hb.1, rfl, rfl⟩
  have huv : ∀ p ∈ cur.validItems, ∀ q ∈ cur.validItems, p.1 = q.1 → p = q := by
    intro p hp q hq hpq
    obtain ⟨i, hil, _, hik, hiv⟩ := mem_validItems.mp hp
    obtain ⟨j, hjl, _, hjk, hjv⟩ := mem_validItems.mp hq
    have : i = j := h.inv.wf.uniq i j (by rw [hil]; decide) (by rw [hjl]; decide) (by rw [hik, hjk, hpq])
    subst this
    exact Prod.ext hpq (by rw [← hiv, ← hjv])
  have hum : ∀ p ∈ modifiedItemsRaw cur.keys.slots, ∀ q ∈ modifiedItemsRaw cur.keys.slots, p.1 = q.1 → p = q := by
    intro p hp q hq hpq
    obtain ⟨i, hil, hik, hiv⟩ := hmodmem p hp
    obtain ⟨j, hjl, hjk, hjv⟩ := hmodmem q hq
    have : i = j := h.inv.wf.uniq i j (by rw [hil]; decide) (by rw [hjl]; decide) (by rw [hik, hjk, hpq])
    subst this
    exact Prod.ext hpq (by rw [← hiv, ← hjv])
  have huf : ∀ p ∈ W0.filter (fun p => !(removedKeysRaw cur.keys.slots).contains p.1),
      ∀ q ∈ W0.filter (fun p => !(removedKeysRaw cur.keys.slots).contains p.1), p.1 = q.1 → p = q := by
    intro p hp q hq hpq
    exact h.uniqW p (List.mem_filter.mp hp).1 q (List.mem_filter.mp hq).1 hpq
  apply Option.ext
  intro v
  unfold applyDictDelta
  rw [dictLookup_append]
  have hL : dictLookup cur.validItems k = some v ↔ (k, v) ∈ cur.validItems := dictLookup_some_iff huv k v
  have hM : dictLookup (modifiedItemsRaw cur.keys.slots) k = some v ↔ (k, v) ∈ modifiedItemsRaw cur.keys.slots :=
    dictLookup_some_iff hum k v
  have hF := dictLookup_some_iff huf k v
  have hN := dictLookup_none_iff (modifiedItemsRaw cur.keys.slots) k
  have hmain := tsd_value_delta_mem h (k, v)
  rw [hL, hmain]
  cases hlm : dictLookup (modifiedItemsRaw cur.keys.slots) k with
  | none =>
    have hnk := hN.mp hlm
    simp only [Option.none_or] at *
    rw [hF]
    simp only [List.mem_filter, Bool.not_eq_eq_eq_not, Bool.not_true, List.contains_eq_mem, decide_eq_false_iff_not]
    constructor
    · rintro (hm | ⟨hw, hr, _⟩)
      · exact absurd (List.mem_map.mpr ⟨(k, v), hm, rfl⟩) hnk
      · exact ⟨hw, hr⟩
    · rintro ⟨hw, hr⟩; exact Or.inr ⟨hw, hr, hnk⟩
  | some v' =>
    have hmv' : (k, v') ∈ modifiedItemsRaw cur.keys.slots := (dictLookup_some_iff hum k v').mp hlm
    simp only [Option.some_or, Option.some.injEq]
    constructor
    · rintro (hm | ⟨_, _, hnm⟩)
      · exact (congrArg Prod.snd (hum _ hmv' _ hm rfl) : v' = v)
      · exact absurd (List.mem_map.mpr ⟨(k, v'), hmv', rfl⟩) hnm
    · intro e; subst e; exact Or.inl hmv'

/-- the `key_set()` projection read as a TSS: value = live keys, delta gated by the key set's own
    `last_modified_time`.  FULL statement (does not hold, see below). -/
def TSDKeySetCoherent : Prop :=
  ∀ (ops : List DictOp) (o : DictOp), DNondecreasing (ops ++ [o]) → o.time ≠ 0 →
    let cur := TSD.run {} (ops ++ [o])
    let prev := TSD.run {} (ops.filter (fun a => a.time < o.time))
    let ticked := cur.keySetLmt == o.time
    ∀ k, k ∈ liveKeys cur.keys.slots ↔
      (k ∈ liveKeys prev.keys.slots ∧ ¬ (ticked ∧ k ∈ removedKeysRaw cur.keys.slots)) ∨
      (ticked ∧ k ∈ addedKeysRaw cur.keys.slots)

/-- kernel-checked counterexample (same on the real `TSOutput`, `corpus/C05/tsddefects_02_late.txt`): `at(k)` creates the key
    without a value: the key set ticks and contains `k`, but `k` is not reported added (and when the value
    arrives in a later cycle the dictionary reports `k` added while the key set does not tick). -/
theorem tsd_keyset_incoherent : ¬ TSDKeySetCoherent := by
  intro h
  have := (h [] (.at 1 2) (by simp [DNondecreasing]) (by decide) 2).mp (by decide)
  revert this
  decide

/-! ## tick-count TSW -/

/-- ghost-extended window: the model state and the list of accepted pushes `(value, time)` since the last
    clear (an operation refused with an error changes nothing) -/
structure GWin where
  w : Win
  acc : List (Int × Time)

def GWin.step (g : GWin) (o : WinOp) : GWin :=
  match g.w.step o with
  | .error _ => g
  | .ok w' =>
    { w := w'
      acc := match o with
        | .push t v => g.acc ++ [(v, t)]
        | .clear _ => []
        | .clearPush t v => [(v, t)] }

def GWin.run (period minPeriod : Nat) (ops : List WinOp) : GWin :=
  ops.foldl GWin.step ⟨Win.init period minPeriod, []⟩

/-- erasing the ghost gives the plain run of the model -/
theorem GWin.run_w (period minPeriod : Nat) (ops : List WinOp) :
    (GWin.run period minPeriod ops).w = ops.foldl Win.stepD (Win.init period minPeriod) := by
  have : ∀ g : GWin, (ops.foldl GWin.step g).w = ops.foldl Win.stepD g.w := by
    induction ops with
    | nil => intro g; rfl
    | cons o rest ih =>
      intro g
      simp only [List.foldl_cons]
      rw [ih]
      congr 1
      unfold GWin.step Win.stepD
      cases g.w.step o <;> rfl
  exact this _

/-- the refinement relation between ring buffer and pushed list -/
structure WinRel (g : GWin) (period minPeriod : Nat) : Prop where
  wf : g.w.WF
  items : g.w.items = lastN period g.acc
  period_eq : g.w.period = period
  min_eq : g.w.minPeriod = minPeriod

theorem WinRel.push {g : GWin} {p m : Nat} (h : WinRel g p m) (v : Int) (t : Time) (lmt' : Time) :
    WinRel ⟨{ (g.w.pushRaw v t) with lmt := lmt' }, g.acc ++ [(v, t)]⟩ p m ∧
    (p ≤ g.acc.length → (g.w.pushRaw v t).evicted = g.acc[g.acc.length - p]?.map (·.1) ∧
      (g.w.pushRaw v t).evictedTime = t) := by
  have hsz : g.w.size = min g.acc.length p := by
    have := congrArg List.length h.items
    simpa [Win.items, length_lastN] using this
  by_cases hlt : g.w.size < g.w.period
  · obtain ⟨h1, h2, _, _, h5, h6, _⟩ := Win.push_append h.wf hlt v t
    have hacc : g.acc.length < p := by rw [h.period_eq] at hlt; omega
    refine ⟨⟨?_, ?_, h5.trans h.period_eq, h6.trans h.min_eq⟩, fun hle => absurd hle (by omega)⟩
    · exact ⟨h1.len, h1.pos, h1.size_le, h1.head_lt, h1.head_zero⟩
    · show Win.items { (g.w.pushRaw v t) with lmt := lmt' } = _
      have : Win.items { (g.w.pushRaw v t) with lmt := lmt' } = (g.w.pushRaw v t).items := rfl
      rw [this, h2, h.items, lastN_snoc_lt _ hacc]
  · have hfull : g.w.size = g.w.period := by have := h.wf.size_le; omega
    obtain ⟨h1, h2, h3, h4, h5, h6, _⟩ := Win.push_full h.wf hfull v t
    have hacc : p ≤ g.acc.length := by rw [h.period_eq] at hfull; omega
    have hp : 0 < p := by rw [← h.period_eq]; exact h.wf.pos
    refine ⟨⟨?_, ?_, h5.trans h.period_eq, h6.trans h.min_eq⟩, fun _ => ⟨?_, h4⟩⟩
    · exact ⟨h1.len, h1.pos, h1.size_le, h1.head_lt, h1.head_zero⟩
    · show Win.items { (g.w.pushRaw v t) with lmt := lmt' } = _
      have : Win.items { (g.w.pushRaw v t) with lmt := lmt' } = (g.w.pushRaw v t).items := rfl
      rw [this, h2, h.items, lastN_snoc_ge _ hp hacc]
    · rw [h3, h.items, head?_lastN hacc hp]

theorem WinRel.clear {g : GWin} {p m : Nat} (h : WinRel g p m) (t : Time) (lmt' : Time) :
    WinRel ⟨{ (g.w.clearRaw t) with lmt := lmt' }, []⟩ p m := by
  obtain ⟨h1, h2, h3, h4⟩ := Win.clear_spec h.wf t
  refine ⟨⟨h1.len, h1.pos, h1.size_le, h1.head_lt, h1.head_zero⟩, ?_, h3.trans h.period_eq, h4.trans h.min_eq⟩
  show Win.items { (g.w.clearRaw t) with lmt := lmt' } = _
  have : Win.items { (g.w.clearRaw t) with lmt := lmt' } = (g.w.clearRaw t).items := rfl
  rw [this, h2]; simp [lastN]

theorem WinRel.step {g : GWin} {p m : Nat} (h : WinRel g p m) (o : WinOp) : WinRel (g.step o) p m := by
  unfold GWin.step Win.step
  cases o with
  | push t v =>
    simp only
    by_cases h0 : (t == 0) = true
    · simp only [h0, ↓reduceIte]; exact h
    · simp only [h0, Bool.false_eq_true, ↓reduceIte]
      by_cases h1 : (g.w.lmt == t) = true
      · simp only [h1, ↓reduceIte]; exact h
      · simp only [h1, Bool.false_eq_true, ↓reduceIte]
        exact (WinRel.push h v t _).1
  | clear t =>
    simp only
    by_cases h0 : (t == 0) = true
    · simp only [h0, ↓reduceIte]; exact h
    · simp only [h0, Bool.false_eq_true, ↓reduceIte]
      by_cases h1 : (g.w.lmt == t) = true
      · simp only [h1, ↓reduceIte]; exact h
      · simp only [h1, Bool.false_eq_true, ↓reduceIte]
        exact WinRel.clear h t _
  | clearPush t v =>
    simp only
    by_cases h0 : (t == 0) = true
    · simp only [h0, ↓reduceIte]; exact h
    · simp only [h0, Bool.false_eq_true, ↓reduceIte]
      by_cases h1 : (g.w.lmt == t) = true
      · simp only [h1, ↓reduceIte]; exact h
      · simp only [h1, Bool.false_eq_true, ↓reduceIte]
        have hc := WinRel.clear h t (recMod g.w.lmt t)
        have := (WinRel.push hc v t (recMod (recMod g.w.lmt t) t)).1
        simpa using this

/-- **window_last_n**: after ANY sequence of window operations (pushes, clears, refused second ticks, in any
    time order) on a tick window of period `N > 0`, with `acc` the `k` pushes accepted since the last
    clear: the window holds exactly the last `min(k, N)` of them, in order, with their times; its size is
    `min(k, N)`; and `all_valid ↔ ticked ∧ min(k, N) ≥ min_period`. -/
theorem window_last_n (N minPeriod : Nat) (hN : 0 < N) (ops : List WinOp) :
    let g := GWin.run N minPeriod ops
    g.w.values = (lastN N g.acc).map (·.1) ∧ g.w.times = (lastN N g.acc).map (·.2) ∧
    g.w.size = min g.acc.length N ∧
    (g.w.allValid = true ↔ (g.w.lmt ≠ 0 ∧ minPeriod ≤ min g.acc.length N)) ∧
    (g.w.full = true ↔ N ≤ g.acc.length) := by
  intro g
  have hrel : WinRel g N minPeriod := by
    have : ∀ (ops : List WinOp) (g0 : GWin), WinRel g0 N minPeriod → WinRel (ops.foldl GWin.step g0) N minPeriod := by
      intro ops
      induction ops with
      | nil => intro g0 h; exact h
      | cons o rest ih => intro g0 h; exact ih _ (WinRel.step h o)
    exact this ops _ ⟨Win.WF_init hN, by simp [Win.items_init, lastN], rfl, rfl⟩
  have hsz : g.w.size = min g.acc.length N := by
    have := congrArg List.length hrel.items
    simpa [Win.items, length_lastN] using this
  refine ⟨by rw [Win.values_eq, hrel.items], by rw [Win.times_eq, hrel.items], hsz, ?_, ?_⟩
  · simp only [Win.allValid, Bool.and_eq_true, bne_iff_ne, ne_eq, decide_eq_true_eq, hrel.min_eq, hsz]
  · simp only [Win.full, Bool.and_eq_true, bne_iff_ne, ne_eq, beq_iff_eq, hrel.period_eq, hsz]
    constructor
    · rintro ⟨_, h⟩; omega
    · intro h; exact ⟨by omega, by omega⟩

/-- **evicted element**: a push accepted when `k ≥ N` pushes are already held evicts exactly the
    `(k+1-N)`-th accepted push (index `k - N`, zero based) and stamps the eviction with the push time -/
theorem window_evicted (N minPeriod : Nat) (hN : 0 < N) (ops : List WinOp) (t : Time) (v : Int)
    (ht : t ≠ 0) (hfresh : (GWin.run N minPeriod ops).w.lmt ≠ t)
    (hfull : N ≤ (GWin.run N minPeriod ops).acc.length) :
    let g := GWin.run N minPeriod ops
    let g' := GWin.run N minPeriod (ops ++ [.push t v])
    g'.acc = g.acc ++ [(v, t)] ∧ g'.w.evicted = g.acc[g.acc.length - N]?.map (·.1) ∧ g'.w.evictedTime = t := by
  intro g g'
  have hrel : WinRel g N minPeriod := by
    have : ∀ (ops : List WinOp) (g0 : GWin), WinRel g0 N minPeriod → WinRel (ops.foldl GWin.step g0) N minPeriod := by
      intro ops
      induction ops with
      | nil => intro g0 h; exact h
      | cons o rest ih => intro g0 h; exact ih _ (WinRel.step h o)
    exact this ops _ ⟨Win.WF_init hN, by simp [Win.items_init, lastN], rfl, rfl⟩
  have hg' : g' = g.step (.push t v) := by
    show GWin.run N minPeriod (ops ++ [.push t v]) = _
    simp [GWin.run, List.foldl_append]; rfl
  have h0 : (t == 0) = false := by simpa using ht
  have h1 : (g.w.lmt == t) = false := by simpa using hfresh
  have hp := (WinRel.push hrel v t (recMod g.w.lmt t)).2 hfull
  rw [hg']
  unfold GWin.step Win.step
  simp only [h0, Bool.false_eq_true, ↓reduceIte, h1]
  exact ⟨trivial, hp.1, hp.2⟩


/-! ## fixed TSL / TSB (ceiling): the modified children are exactly the children written in the cycle -/

/-- all child writes of one engine cycle at time `T` -/
def Fixed.cycle (x : Fixed) (T : Time) (ws : List (Nat × Int)) : Fixed :=
  ws.foldl (fun y w => y.write w.1 T w.2) x

theorem fixed_cycle_aux (T : Time) (ws : List (Nat × Int)) : ∀ (x : Fixed), x.WF → x.lmt ≤ T →
    (∀ w ∈ ws, w.1 < x.kids.length) →
    (x.cycle T ws).kids.length = x.kids.length ∧ (x.cycle T ws).WF ∧ (ws ≠ [] → (x.cycle T ws).lmt = T) ∧
    (x.cycle T ws).lmt ≤ T ∧ x.lmt ≤ (x.cycle T ws).lmt ∧
    ∀ i, i < x.kids.length →
      (((x.cycle T ws).kids.getD i (0, 0)).2 = T ↔ ((x.kids.getD i (0, 0)).2 = T ∨ i ∈ ws.map (·.1))) ∧
      (i ∉ ws.map (·.1) → (x.cycle T ws).kids.getD i (0, 0) = x.kids.getD i (0, 0)) := by
  induction ws with
  | nil => intro x h hT _; simp [Fixed.cycle, h, hT]
  | cons w rest ih =>
    intro x h hT hidx
    have hw : w.1 < x.kids.length := hidx w (by simp)
    have he := Fixed.write_sorted h w.2 hw hT
    have hwf := Fixed.write_wf h w.2 hw hT
    have hlen : (x.write w.1 T w.2).kids.length = x.kids.length := by rw [he]; simp
    have hl1 : (x.write w.1 T w.2).lmt = T := by rw [he]
    obtain ⟨i1, i2, i3, i4, i5, i6⟩ := ih (x.write w.1 T w.2) hwf (by rw [hl1]; exact Nat.le_refl T)
      (by intro w' hw'; rw [hlen]; exact hidx w' (by simp [hw']))
    have hc : x.cycle T (w :: rest) = (x.write w.1 T w.2).cycle T rest := rfl
    rw [hc]
    refine ⟨by rw [i1, hlen], i2, fun _ => by omega, i4, by omega, ?_⟩
    intro i hi
    obtain ⟨j1, j2⟩ := i6 i (by rw [hlen]; exact hi)
    have hget : (x.write w.1 T w.2).kids.getD i (0, 0) = if w.1 = i then (w.2, T) else x.kids.getD i (0, 0) := by
      rw [he]
      simp only [List.getD_eq_getElem?_getD, List.getElem?_set]
      by_cases hwi : w.1 = i
      · subst hwi; simp [hw]
      · simp [hwi]
    constructor
    · rw [j1, hget]
      by_cases hwi : w.1 = i
      · simp [hwi]
      · have : ¬ i = w.1 := fun e => hwi e.symm
        simp [hwi, this]
    · intro hni
      simp only [List.map_cons, List.mem_cons, not_or] at hni
      rw [j2 hni.2, hget]
      have : ¬ w.1 = i := fun e => hni.1 e.symm
      simp [this]

/-- **fixed TSL / TSB: value' = value with the modified children replaced**.  After a cycle of child writes at
    a time `T` later than the last tick, the children whose time equals the parent's (what `modified_items()`
    and the delta map show) are exactly the children written in the cycle, every other child keeps its value
    and time, and the parent ticked at `T`. -/
theorem fixed_cycle_coherent (x : Fixed) (h : x.WF) (T : Time) (hT : x.lmt < T) (ws : List (Nat × Int))
    (hidx : ∀ w ∈ ws, w.1 < x.kids.length) (hne : ws ≠ []) :
    (x.cycle T ws).lmt = T ∧ (x.cycle T ws).kids.length = x.kids.length ∧ (x.cycle T ws).WF ∧
    ∀ i, i < x.kids.length →
      (((x.cycle T ws).kids.getD i (0, 0)).2 = (x.cycle T ws).lmt ↔ i ∈ ws.map (·.1)) ∧
      (i ∉ ws.map (·.1) → (x.cycle T ws).kids.getD i (0, 0) = x.kids.getD i (0, 0)) := by
  obtain ⟨a1, a2, a3, _, _, a6⟩ := fixed_cycle_aux T ws x h (by omega) hidx
  refine ⟨a3 hne, a1, a2, ?_⟩
  intro i hi
  obtain ⟨b1, b2⟩ := a6 i hi
  refine ⟨?_, b2⟩
  rw [a3 hne, b1]
  have hne' : (x.kids.getD i (0, 0)).2 ≠ T := by
    have hm : x.kids.getD i (0, 0) = x.kids[i] := by simp [List.getD, hi]
    have := h.le _ (hm ▸ List.getElem_mem hi)
    omega
  constructor
  · rintro (e | e)
    · exact absurd e hne'
    · exact e
  · exact Or.inr

/-- the hypotheses of `fixed_cycle_coherent` hold at the start of every cycle: states reached by cycles with
    increasing times are well formed, keep their size, and never tick later than the latest cycle -/
theorem fixed_wf_reachable (cycles : List (Time × List (Nat × Int))) : ∀ (x : Fixed) (b : Nat), x.WF →
    (∀ c ∈ cycles, ∀ w ∈ c.2, w.1 < x.kids.length) → cycles.Pairwise (fun a b => a.1 < b.1) →
    (∀ c ∈ cycles, x.lmt < c.1) → (∀ c ∈ cycles, c.1 ≤ b) → x.lmt ≤ b →
    (cycles.foldl (fun y c => y.cycle c.1 c.2) x).WF ∧
    (cycles.foldl (fun y c => y.cycle c.1 c.2) x).kids.length = x.kids.length ∧
    (cycles.foldl (fun y c => y.cycle c.1 c.2) x).lmt ≤ b := by
  induction cycles with
  | nil => intro x b h _ _ _ _ hb; exact ⟨h, rfl, hb⟩
  | cons c rest ih =>
    intro x b h hidx hs hlt hbb hb
    have hc := hlt c (by simp)
    obtain ⟨a1, a2, _, a4, _, _⟩ := fixed_cycle_aux c.1 c.2 x h (by omega) (hidx c (by simp))
    have hs' := List.pairwise_cons.mp hs
    obtain ⟨i1, i2, i3⟩ := ih (x.cycle c.1 c.2) b a2
      (fun c' hc' => by rw [a1]; exact hidx c' (by simp [hc'])) hs'.2
      (fun c' hc' => by have := hs'.1 c' hc'; omega)
      (fun c' hc' => hbb c' (by simp [hc'])) (by have := hbb c (by simp); omega)
    simp only [List.foldl_cons]
    exact ⟨i1, by rw [i2, a1], i3⟩

/-! ## non-vacuity: concrete non-trivial states meeting the hypotheses -/

/-- a reachable TSS state with a non-empty window-start value, an added and a removed key, a pending-erase
    slot and a resurrected one (6 is removed and re-added in cycle 2) -/
example :
    let g := GSet.run [.add 1 5, .add 1 6, .rem 2 5, .rem 2 6, .add 2 7, .add 2 6]
    g.v0 = [5, 6] ∧ g.x.value = [6, 7] ∧ addedKeysRaw g.x.keys.slots = [7] ∧ removedKeysRaw g.x.keys.slots = [5] ∧
    g.x.deltaTime = 2 ∧ (sget g.x.keys.slots 0).st = .pending := by decide

/-- hypotheses of `tss_add_remove_no_trace` / `tss_remove_add_no_trace` (state above, `t = 2`, keys 9 / 6) -/
example :
    let x := TSS.run {} [.add 1 5, .add 1 6, .rem 2 5]
    (2 ≤ x.deltaTime) ∧ (9 ∉ x.value) ∧ (6 ∈ x.value) := by decide

/-- hypotheses of `tss_window_is_cycle` -/
example : Nondecreasing ([.add 1 5, .add 1 6, .rem 2 5] ++ [SetOp.add 2 7]) ∧ (SetOp.add 2 7).time ≠ 0 := by
  simp [Nondecreasing, SetOp.time]

/-- slot reuse after the physical erase: key 8 lands in the slot key 5 occupied (capacity 8, free list LIFO) -/
example :
    let x := TSS.run {} [.add 1 5, .add 1 6, .rem 2 5, .add 3 8]
    (sget x.keys.slots 0).key = 8 ∧ (sget x.keys.slots 0).st = .live ∧ x.value = [8, 6] := by decide

/-- growth across the first capacity boundary (8 -> 16) keeps bits and keys -/
example :
    let x := TSS.run {} ((List.range 9).map fun i => SetOp.add 1 (Int.ofNat i))
    x.keys.slots.length = 16 ∧ x.value.length = 9 ∧ (addedKeysRaw x.keys.slots).length = 9 := by decide

/-- a reachable TSD state: key 1 valid from cycle 1, updated in cycle 2, key 2 erased, key 3 added -/
example :
    let g := GDict.run [.set 1 1 10, .set 1 2 20, .set 2 1 11, .erase 2 2, .set 2 3 30]
    g.v0 = [1, 2] ∧ g.x.validItems = [(1, 11), (3, 30)] ∧ addedKeysRaw g.x.keys.slots = [3] ∧
    removedKeysRaw g.x.keys.slots = [2] ∧ modifiedItemsRaw g.x.keys.slots = [(1, 11), (3, 30)] := by decide

/-- hypotheses of `tsd_set_erase_no_trace` / `tsd_erase_set_no_trace` -/
example :
    let x := TSD.run {} [.set 1 1 10, .set 1 2 20, .set 2 1 11]
    (2 ≤ x.deltaTime) ∧ (7 ∉ x.validKeys) ∧ (2 ∈ x.validKeys) := by decide

/-- hypotheses of `tsd_vinv_reachable` / `tsd_value_delta_coherent`: a sorted history ending with the
    rewrite-after-erase pattern; the rewritten key is a modified item -/
example :
    DNondecreasing ([.set 1 1 10, .set 1 2 20, .set 2 1 11, .erase 2 1] ++ [DictOp.set 2 1 13]) ∧
    (TSD.run {} [.set 1 1 10, .set 1 2 20, .set 2 1 11, .erase 2 1, .set 2 1 13]).modifiedItemsAt 2 = [(1, 13)] :=
  ⟨by simp [DNondecreasing, DictOp.time], by decide⟩

/-- a window of period 3 after 5 pushes and the hypotheses of `window_evicted` for a sixth -/
example :
    let g := GWin.run 3 2 [.push 1 10, .push 2 11, .push 3 12, .push 4 13, .push 5 14]
    g.w.values = [12, 13, 14] ∧ g.w.head = 2 ∧ g.w.evicted = some 11 ∧ g.w.lmt ≠ 6 ∧ 3 ≤ g.acc.length := by decide

end HgVerif.Slots
