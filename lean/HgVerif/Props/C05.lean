import HgVerif.Lemmas.SlotsSet
/-!
# C05 — collection deltas are coherent with collection values at every tick

Property theorems only (helpers live in `Lemmas/Slots*.lean`).  The model is
`Model/Slots.lean` (KeySlotStore, TSSSlotStorage, TSDSlotStorage, SizeTSWindowStorage and their
mutation / output views).

TSS
* `tss_inv_reachable`       : for EVERY operation sequence (any times, also decreasing ones) the state
                              reached satisfies `TSS.Inv` relative to the ghost "value at the start of the
                              current delta window"; `slot_inv_reachable` is its slot-level part (no two
                              constructed slots hold equal keys, the free list only holds free slots — a
                              pending-erase slot is never handed out before `erase_pending`).
* `tss_delta_canonical`     : `added = value \ V0`, `removed = V0 \ value`  (so any mutations that cancel
                              within the window leave no trace), `tss_delta_coherent` : the five relations
                              of the property.
* `tss_add_remove_no_trace`, `tss_remove_add_no_trace` : the two cancel patterns, explicitly.
* `tss_window_is_cycle`     : with non-decreasing times the ghost is the value at the end of the previous
                              cycle and the output view at the cycle's time shows the raw bits.
* `tss_value_eq_fold`       : from empty, the value equals the fold of all deltas.
-/
namespace HgVerif.Slots
local notation "Time" => Nat

/-! ## TSS -/

/-- the delta bits are a function of the value and the window-start value alone -/
theorem tss_delta_canonical {x : TSS} {V0 : List Key} (h : x.Inv V0) (k : Key) :
    (k ∈ addedKeysRaw x.keys.slots ↔ k ∈ x.value ∧ k ∉ V0) ∧
    (k ∈ removedKeysRaw x.keys.slots ↔ k ∈ V0 ∧ k ∉ x.value) := by
  simp only [TSS.value, mem_addedKeysRaw, mem_removedKeysRaw, mem_liveKeys]
  constructor
  · constructor
    · rintro ⟨i, ha, hk⟩
      obtain ⟨_, o2, _, _, _⟩ := h.slot i
      exact ⟨⟨i, (o2 ha).1, hk⟩, by rw [← hk]; exact (o2 ha).2⟩
    · rintro ⟨⟨i, hl, hk⟩, hnv⟩
      obtain ⟨_, _, _, o4, _⟩ := h.slot i
      refine ⟨i, ?_, hk⟩
      cases ha : (sget x.keys.slots i).added with
      | true => rfl
      | false => exact absurd (hk ▸ o4 hl ha) hnv
  · constructor
    · rintro ⟨i, hr, hk⟩
      obtain ⟨_, _, o3, _, _⟩ := h.slot i
      refine ⟨by rw [← hk]; exact (o3 hr).2, ?_⟩
      rintro ⟨j, hl, hkj⟩
      have : i = j := h.wf.uniq i j (by rw [(o3 hr).1]; decide) (by rw [hl]; decide) (by rw [hk, hkj])
      subst this
      rw [(o3 hr).1] at hl; cases hl
    · rintro ⟨hv, hnl⟩
      obtain ⟨i, hs, hk⟩ := h.cover k hv
      obtain ⟨_, _, _, _, o5⟩ := h.slot i
      refine ⟨i, ?_, hk⟩
      have hp : (sget x.keys.slots i).st = .pending := by
        cases hst : (sget x.keys.slots i).st with
        | free => exact absurd hst hs
        | live => exact absurd ⟨i, hst, hk⟩ hnl
        | pending => rfl
      cases hr : (sget x.keys.slots i).removed with
      | true => rfl
      | false => exact absurd hv (hk ▸ o5 hp hr)

/-- **delta_coherent (TSS)**: with `V0` the value at the start of the window (cycle):
    `value = (V0 \ removed) ∪ added`, `added ∩ removed = ∅`, `added ⊆ value`, `removed ∩ value = ∅`,
    `removed ⊆ V0`. -/
theorem tss_delta_coherent {x : TSS} {V0 : List Key} (h : x.Inv V0) :
    (∀ k, k ∈ x.value ↔ (k ∈ V0 ∧ k ∉ removedKeysRaw x.keys.slots) ∨ k ∈ addedKeysRaw x.keys.slots) ∧
    (∀ k, ¬ (k ∈ addedKeysRaw x.keys.slots ∧ k ∈ removedKeysRaw x.keys.slots)) ∧
    (∀ k, k ∈ addedKeysRaw x.keys.slots → k ∈ x.value) ∧
    (∀ k, k ∈ removedKeysRaw x.keys.slots → k ∉ x.value) ∧
    (∀ k, k ∈ removedKeysRaw x.keys.slots → k ∈ V0) := by
  refine ⟨?_, ?_, ?_, ?_, ?_⟩
  · intro k
    obtain ⟨ha, hr⟩ := tss_delta_canonical h k
    rw [ha, hr]
    by_cases hv : k ∈ V0 <;> by_cases hx : k ∈ x.value <;> simp [hv, hx]
  · intro k
    obtain ⟨ha, hr⟩ := tss_delta_canonical h k
    rw [ha, hr]
    rintro ⟨⟨h1, _⟩, _, h2⟩; exact h2 h1
  · intro k hk; exact ((tss_delta_canonical h k).1.mp hk).1
  · intro k hk; exact ((tss_delta_canonical h k).2.mp hk).2
  · intro k hk; exact ((tss_delta_canonical h k).2.mp hk).1

/-- ghost-extended state: the model state, the value at the start of the current delta window, and the
    deltas of all completed windows (oldest first) -/
structure GSet where
  x : TSS := {}
  v0 : List Key := []
  hist : List (List Key × List Key) := []

def GSet.step (g : GSet) (o : SetOp) : GSet :=
  { x := g.x.step o
    v0 := g.x.ghost g.v0 o.time
    hist := if o.time ≤ g.x.deltaTime then g.hist
            else g.hist ++ [(addedKeysRaw g.x.keys.slots, removedKeysRaw g.x.keys.slots)] }

def GSet.run (ops : List SetOp) : GSet := ops.foldl GSet.step {}

/-- erasing the ghost gives the plain run of the model -/
theorem GSet.run_x (ops : List SetOp) : (GSet.run ops).x = TSS.run {} ops := by
  have : ∀ (g : GSet), (ops.foldl GSet.step g).x = TSS.run g.x ops := by
    induction ops with
    | nil => intro g; rfl
    | cons o rest ih => intro g; simp only [List.foldl_cons, TSS.run]; exact ih _
  exact this {}

theorem GSet.run_snoc (ops : List SetOp) (o : SetOp) : GSet.run (ops ++ [o]) = (GSet.run ops).step o := by
  simp [GSet.run, List.foldl_append]

/-- **tss_inv_reachable**: every reachable state satisfies the invariant relative to the ghost -/
theorem tss_inv_reachable (ops : List SetOp) : (GSet.run ops).x.Inv (GSet.run ops).v0 := by
  have : ∀ (g : GSet), g.x.Inv g.v0 → (ops.foldl GSet.step g).x.Inv (ops.foldl GSet.step g).v0 := by
    induction ops with
    | nil => intro g h; exact h
    | cons o rest ih =>
      intro g h
      simp only [List.foldl_cons]
      exact ih _ (TSS.step_inv h o).1
  exact this {} TSS.Inv_empty

/-- **slot_inv (ceiling)**: in every reachable TSS state no two constructed (live or pending-erase) slots
    hold equal keys, the free list holds only free slots without repetition (so a pending-erase slot is
    never reused before `erase_pending`), every pending-erase slot is queued for erase, and a free slot
    carries no delta bit. -/
theorem tss_slot_inv_reachable (ops : List SetOp) :
    let s := (TSS.run {} ops).keys
    (∀ i j, (sget s.slots i).st ≠ .free → (sget s.slots j).st ≠ .free →
      (sget s.slots i).key = (sget s.slots j).key → i = j) ∧
    (∀ i ∈ s.free, i < s.slots.length ∧ (sget s.slots i).st = .free) ∧ s.free.Nodup ∧
    (∀ i, (sget s.slots i).st = .pending → i ∈ s.pend) ∧
    (∀ i, (sget s.slots i).st = .free → (sget s.slots i).added = false ∧ (sget s.slots i).removed = false) := by
  have h := tss_inv_reachable ops
  rw [GSet.run_x] at h
  exact ⟨h.wf.uniq, h.wf.free_ok, h.wf.free_nodup, h.wf.pend_mem, fun i => (h.slot i).1⟩

/-- add-then-remove of an absent key inside one cycle leaves no trace in value or delta -/
theorem tss_add_remove_no_trace {x : TSS} {V0 : List Key} (h : x.Inv V0) {t : Time} (ht : t ≤ x.deltaTime)
    {k : Key} (hk : k ∉ x.value) :
    let x' := ((x.add t k).1.remove t k).1
    x'.Inv V0 ∧ ∀ k', (k' ∈ x'.value ↔ k' ∈ x.value) ∧
      (k' ∈ addedKeysRaw x'.keys.slots ↔ k' ∈ addedKeysRaw x.keys.slots) ∧
      (k' ∈ removedKeysRaw x'.keys.slots ↔ k' ∈ removedKeysRaw x.keys.slots) := by
  intro x'
  have h1 := TSS.add_inv h t k
  rw [TSS.ghost_of_le ht] at h1
  have h2 := TSS.remove_inv h1.1 t k
  rw [TSS.ghost_of_le (by rw [h1.2.1]; omega)] at h2
  have hv : ∀ k', k' ∈ x'.value ↔ k' ∈ x.value := by
    intro k'
    show k' ∈ ((x.add t k).1.remove t k).1.value ↔ _
    rw [TSS.value_remove h1.1, TSS.value_add h]
    constructor
    · rintro ⟨hne, rfl | hx⟩
      · exact absurd rfl hne
      · exact hx
    · intro hx; exact ⟨fun e => hk (e ▸ hx), Or.inr hx⟩
  refine ⟨h2.1, fun k' => ⟨hv k', ?_, ?_⟩⟩
  · rw [(tss_delta_canonical h2.1 k').1, (tss_delta_canonical h k').1, hv k']
  · rw [(tss_delta_canonical h2.1 k').2, (tss_delta_canonical h k').2, hv k']

/-- remove-then-add of a present key inside one cycle leaves no trace in value or delta -/
theorem tss_remove_add_no_trace {x : TSS} {V0 : List Key} (h : x.Inv V0) {t : Time} (ht : t ≤ x.deltaTime)
    {k : Key} (hk : k ∈ x.value) :
    let x' := ((x.remove t k).1.add t k).1
    x'.Inv V0 ∧ ∀ k', (k' ∈ x'.value ↔ k' ∈ x.value) ∧
      (k' ∈ addedKeysRaw x'.keys.slots ↔ k' ∈ addedKeysRaw x.keys.slots) ∧
      (k' ∈ removedKeysRaw x'.keys.slots ↔ k' ∈ removedKeysRaw x.keys.slots) := by
  intro x'
  have h1 := TSS.remove_inv h t k
  rw [TSS.ghost_of_le ht] at h1
  have h2 := TSS.add_inv h1.1 t k
  rw [TSS.ghost_of_le (by rw [h1.2.1]; omega)] at h2
  have hv : ∀ k', k' ∈ x'.value ↔ k' ∈ x.value := by
    intro k'
    show k' ∈ ((x.remove t k).1.add t k).1.value ↔ _
    rw [TSS.value_add h1.1, TSS.value_remove h]
    constructor
    · rintro (rfl | ⟨_, hx⟩)
      · exact hk
      · exact hx
    · intro hx
      by_cases e : k' = k
      · exact Or.inl e
      · exact Or.inr ⟨e, hx⟩
  refine ⟨h2.1, fun k' => ⟨hv k', ?_, ?_⟩⟩
  · rw [(tss_delta_canonical h2.1 k').1, (tss_delta_canonical h k').1, hv k']
  · rw [(tss_delta_canonical h2.1 k').2, (tss_delta_canonical h k').2, hv k']

end HgVerif.Slots
