import HgVerif.Lemmas.SwitchColl
/-!
# C12 on collection outputs — the output of a `switch_` follows only the selected branch instance

Model: `Model/SwitchColl.lean` (the switch node of `src/hgraph/runtime/switch_node.cpp` on its ordinary
output path with a switch-owned `TSS<Int>` / `TSD<Int, TS<Int>>` output, the collection at the level of its
per-cycle added / removed / modified marks, branches as ARBITRARY functions from (state, key, x) to a new state
and a list of element operations).  The specification side is a finite map `M = Key → Option Val` with the
obvious meaning of the operations (`Op.sem`, `semOps`), and `SW.solo`: the fold of the operations the RUNNING
instance has published since its activation, applied to the EMPTY map — what that instance alone would have
produced in a collection of its own.

All statements are for every state type, every case table / default / reload flag, every branch behaviour
and every key / input history.

* `value_refines`        the collection refines the finite map: any operation list, and the reset.
* `marks_reachable`      in every reachable state the marks are a function of the value and the value at the
                         start of the delta window, the items have pairwise different keys, both stamps lie
                         before the next cycle, and a never-written output holds nothing.
* `cycle_delta_exact`    (collection level) a cycle that resets or not and then applies any operations either
                         leaves the collection untouched and reports no tick, or reports a tick whose added /
                         removed / modified marks are exactly `old value -> new value`.
* `output_is_selected_instance_alone`
                         after every history the output value equals `solo`: nothing an earlier instance
                         published survives; with no instance the output is empty.
* `run_delta_exact`      for every history and next cycle: no tick means the output is untouched; a tick reports
                         added = keys new to the value, removed = keys gone from it, every modified item is an
                         item of the new value, and every key whose value differs is added, removed or a
                         modified item.
* `activation_resets`    a key tick that activates (no instance yet, reload, or another key) leaves exactly what
                         the NEW instance publishes in its first evaluation from its initial state — whatever
                         branch the old instance ran, including the same one;
  `reload_same_key_resets`, `default_key_change_resets` are its two same-spec instances;
  `stale_elements_removed`: when the output has been written before (it is valid; `written_of_nonempty`: in
                         particular whenever it holds an element) the output ticks in that cycle and every key
                         of the old value that the new instance does not publish is reported removed;
  `unwritten_output_untouched`: when it has never been written the replacement does not touch it: it is the
                         never-written output with the new instance's first operations applied, and stays
                         never written (not valid, no tick) when that instance publishes nothing
                         (/repo 98c6672); `prefix_reset_validates_unwritten_output` is the kernel-checked
                         witness of what the rule before the repair did (`runPre`).
* `reactivation_ignores_history`
                         two runs that activate the same key holding the same `x` end the cycle with the same
                         instance state and the same output value.
* `same_key_tick_keeps`  without reload a tick of the active key is an ordinary evaluation cycle: same instance,
                         no reset, the published operations are appended.
* `segment_is_solo_run`  after an activating cycle followed by cycles that do not activate, the running instance
                         is the branch run alone from its initial state over those cycles (`soloRun`), and the
                         output value is the fold of ITS operations over the empty map.
-/
namespace HgVerif.SwitchColl

local notation "Time" => Nat
variable {σ : Type}

/-- what the running instance alone has published since it was activated, as a value -/
def SW.solo (s : SW σ) : M :=
  match s.active with
  | some a => semOps a.pub M.empty
  | none => M.empty

/-- what holds before the cycle at `now` in every reachable state -/
structure Inv (s : SW σ) (now : Time) : Prop where
  marks : ∃ V0, Marks s.out V0
  nodup : KeysNodup s.out
  lmt : s.out.lmt < now
  dt : s.out.deltaTime < now
  unwritten : s.out.lmt = 0 → s.out.items = []
  solo : look s.out.items = s.solo

/-! ## the collection -/

/-- **value_refines**: the collection is a finite map under the operations and under the reset (a never-written
    collection is empty -- `marks_reachable` -- and the reset leaves it alone) -/
theorem value_refines (c : Coll) (t : Time) (ops : List Op) :
    look (c.applyAll t ops).items = semOps ops (look c.items) ∧
    ((c.lmt = 0 → c.items = []) → look (c.reset t).items = M.empty) :=
  ⟨applyAll_look t ops c, reset_look c t⟩

/-- **cycle_delta_exact**: one cycle of the switch-owned output (a reset or not, then any operations), later
    than everything before it: no tick and nothing changed, or a tick with marks relative to the old value -/
theorem cycle_delta_exact {c : Coll} {V0 : M} (hm : Marks c V0) {t : Time} (hl : c.lmt < t) (hd : c.deltaTime < t)
    (r : Bool) (ops : List Op) :
    let c' := (if r then c.reset t else c).applyAll t ops
    (c'.modifiedAt t = false → c' = c) ∧ (c'.modifiedAt t = true → Marks c' (look c.items)) := by
  intro c'
  rcases Stepped.resetApply hm t r ops with h | ⟨f, hf⟩
  · have hc : c' = c := h
    refine ⟨fun _ => hc, fun hmod => ?_⟩
    have : c'.modifiedAt t = false := by rw [hc]; exact not_modifiedAt_of_lt hl
    rw [this] at hmod; cases hmod
  · obtain ⟨h1, h2⟩ := hf.view hl hd
    refine ⟨fun hmod => ?_, fun _ => h2⟩
    rw [h1] at hmod; cases hmod

/-! ## structure of one cycle -/

theorem holdX_out (s : SW σ) (x : Option Int) : (holdX s x).out = s.out := by cases x <;> rfl
theorem holdX_active (s : SW σ) (x : Option Int) : (holdX s x).active = s.active := by cases x <;> rfl
theorem holdX_dead (s : SW σ) (x : Option Int) : (holdX s x).dead = s.dead := by cases x <;> rfl
theorem holdX_nextGen (s : SW σ) (x : Option Int) : (holdX s x).nextGen = s.nextGen := by cases x <;> rfl
theorem holdX_xval (s : SW σ) (x : Option Int) : (holdX s x).xval = (match x with | some v => some v | none => s.xval) := by
  cases x <;> rfl
theorem holdX_solo (s : SW σ) (x : Option Int) : (holdX s x).solo = s.solo := by
  simp [SW.solo, holdX_active]

theorem activate_active (s : SW σ) (now : Time) (k : Int) (b : Branch σ) :
    (activate s now k b).1.active = some (newInst b k (s.nextGen + 1)) := by
  unfold activate; cases s.active <;> rfl

theorem activate_out (s : SW σ) (now : Time) (k : Int) (b : Branch σ) :
    (activate s now k b).1.out = if s.active.isSome then s.out.reset now else s.out := by
  unfold activate; cases s.active <;> rfl

theorem activate_xval (s : SW σ) (now : Time) (k : Int) (b : Branch σ) : (activate s now k b).1.xval = s.xval := by
  unfold activate; cases s.active <;> rfl

theorem activate_dead (s : SW σ) (now : Time) (k : Int) (b : Branch σ) : (activate s now k b).1.dead = s.dead := by
  unfold activate; cases s.active <;> rfl

theorem activate_nextGen (s : SW σ) (now : Time) (k : Int) (b : Branch σ) :
    (activate s now k b).1.nextGen = s.nextGen + 1 := by
  unfold activate; cases s.active <;> rfl

theorem instStep_pub (a : Active σ) (xv : Option Int) (xt kt : Bool) :
    (instStep a xv xt kt).1.pub = a.pub ++ (instStep a xv xt kt).2 := by
  unfold instStep; split <;> simp

theorem instStep_frame (a : Active σ) (xv : Option Int) (xt kt : Bool) :
    (instStep a xv xt kt).1.key = a.key ∧ (instStep a xv xt kt).1.br = a.br ∧ (instStep a xv xt kt).1.gen = a.gen ∧
    (instStep a xv xt kt).1.fresh = false := by
  unfold instStep; split <;> simp

theorem evalPhase_some {s : SW σ} {a : Active σ} (h : s.active = some a) (now : Time) (xt kt : Bool) :
    evalPhase s now xt kt =
      { s with active := some (instStep a s.xval xt kt).1, out := s.out.applyAll now (instStep a s.xval xt kt).2 } := by
  unfold evalPhase; rw [h]

theorem evalPhase_none {s : SW σ} (h : s.active = none) (now : Time) (xt kt : Bool) : evalPhase s now xt kt = s := by
  unfold evalPhase; rw [h]

/-- the ways a cycle of a node that has not failed can go -/
theorem cycle_cases (cfg : Cfg σ) (s : SW σ) (now : Time) (c : CycIn) (hd : s.dead = false) :
    ((c.key = none ∨ ∃ k, c.key = some k ∧ needsSwitch cfg (holdX s c.x) k = false) ∧
      cycle cfg s now c = ⟨evalPhase (holdX s c.x) now c.x.isSome c.key.isSome, [], false⟩) ∨
    (∃ k, c.key = some k ∧ needsSwitch cfg (holdX s c.x) k = true ∧ select cfg k = none ∧
      cycle cfg s now c = ⟨{ holdX s c.x with dead := true }, [], true⟩) ∨
    (∃ k b, c.key = some k ∧ needsSwitch cfg (holdX s c.x) k = true ∧ select cfg k = some b ∧
      cycle cfg s now c = ⟨evalPhase (activate (holdX s c.x) now k b).1 now c.x.isSome true,
                           (activate (holdX s c.x) now k b).2, false⟩) := by
  unfold cycle
  simp only [hd, Bool.false_eq_true, ↓reduceIte]
  cases hk : c.key with
  | none => left; exact ⟨Or.inl rfl, by simp [keyPhase]⟩
  | some k =>
    by_cases hn : needsSwitch cfg (holdX s c.x) k = true
    · cases hs : select cfg k with
      | none => right; left; exact ⟨k, rfl, hn, hs, by simp [keyPhase, hn, hs]⟩
      | some b => right; right; exact ⟨k, b, rfl, hn, hs, by simp [keyPhase, hn, hs]⟩
    · have hn' : needsSwitch cfg (holdX s c.x) k = false := by simpa using hn
      left; exact ⟨Or.inr ⟨k, rfl, hn'⟩, by simp [keyPhase, hn']⟩

/-- every cycle is: reset or not, then the operations of (at most) one evaluation; and `solo` moves with it -/
theorem cycle_form (cfg : Cfg σ) (s : SW σ) (now : Time) (c : CycIn) : ∃ (r : Bool) (ops : List Op),
    (cycle cfg s now c).sw.out = (if r then s.out.reset now else s.out).applyAll now ops ∧
    (cycle cfg s now c).sw.solo = semOps ops (if r then M.empty else s.solo) := by
  by_cases hd : s.dead = true
  · refine ⟨false, [], ?_, ?_⟩ <;> simp [cycle, hd, Coll.applyAll, semOps]
  · have hd' : s.dead = false := by simpa using hd
    rcases cycle_cases cfg s now c hd' with ⟨_, h⟩ | ⟨k, _, _, _, h⟩ | ⟨k, b, _, _, _, h⟩
    · rw [h]
      cases ha : s.active with
      | none =>
        refine ⟨false, [], ?_, ?_⟩
        · rw [evalPhase_none (by rw [holdX_active]; exact ha)]; simp [holdX_out, Coll.applyAll]
        · rw [evalPhase_none (by rw [holdX_active]; exact ha)]; simp [holdX_solo, semOps]
      | some a =>
        have ha' : (holdX s c.x).active = some a := by rw [holdX_active]; exact ha
        refine ⟨false, (instStep a (holdX s c.x).xval c.x.isSome c.key.isSome).2, ?_, ?_⟩
        · rw [evalPhase_some ha']; simp [holdX_out]
        · rw [evalPhase_some ha']
          simp only [SW.solo, ha, Bool.false_eq_true, ↓reduceIte]
          rw [instStep_pub, semOps_append]
    · rw [h]
      refine ⟨false, [], ?_, ?_⟩
      · simp [holdX_out, Coll.applyAll]
      · show SW.solo { holdX s c.x with dead := true } = _
        simp only [SW.solo, holdX_active, semOps, List.foldl_nil, Bool.false_eq_true, ↓reduceIte]
    · rw [h]
      have hact := activate_active (holdX s c.x) now k b
      refine ⟨s.active.isSome, (instStep (newInst b k ((holdX s c.x).nextGen + 1)) (activate (holdX s c.x) now k b).1.xval
        c.x.isSome true).2, ?_, ?_⟩
      · rw [evalPhase_some hact]
        simp only [activate_out, holdX_active, holdX_out]
      · rw [evalPhase_some hact]
        simp only [SW.solo]
        rw [instStep_pub]
        cases ha : s.active with
        | none => simp [newInst]
        | some a => simp [newInst]

theorem inv_of_form {s s' : SW σ} {now : Time} (h : Inv s now) (r : Bool) (ops : List Op)
    (hout : s'.out = (if r then s.out.reset now else s.out).applyAll now ops)
    (hsolo : s'.solo = semOps ops (if r then M.empty else s.solo)) : Inv s' (now + 1) := by
  obtain ⟨V0, hm⟩ := h.marks
  have hst := Stepped.resetApply hm now r ops
  rw [← hout] at hst
  refine ⟨?_, ?_, ?_, ?_, ?_, ?_⟩
  · rcases hst with e | ⟨f, hf⟩
    · exact ⟨V0, by rw [e]; exact hm⟩
    · exact ⟨_, hf.marks⟩
  · rw [hout]; exact resetApply_nodup h.nodup now r ops
  · rcases hst with e | ⟨f, hf⟩
    · rw [e]; have := h.lmt; omega
    · rw [hf.lmt]; have := h.lmt; omega
  · rcases hst with e | ⟨f, hf⟩
    · rw [e]; have := h.dt; omega
    · rw [hf.dt]; have := h.dt; omega
  · rcases hst with e | ⟨f, hf⟩
    · rw [e]; exact h.unwritten
    · intro h0; rw [hf.lmt] at h0; have := h.lmt; omega
  · rw [hout, applyAll_look, hsolo]
    cases r with
    | false => simp only [Bool.false_eq_true, ↓reduceIte]; rw [h.solo]
    | true => simp only [↓reduceIte]; rw [reset_look _ _ h.unwritten]

theorem cycle_inv (cfg : Cfg σ) {s : SW σ} {now : Time} (h : Inv s now) (c : CycIn) :
    Inv (cycle cfg s now c).sw (now + 1) := by
  obtain ⟨r, ops, h1, h2⟩ := cycle_form cfg s now c
  exact inv_of_form h r ops h1 h2

theorem Inv.init : Inv ({} : SW σ) 1 :=
  ⟨⟨M.empty, Marks.init⟩, by simp [KeysNodup], Nat.zero_lt_one, Nat.zero_lt_one, fun _ => rfl,
   by funext k; simp [look, SW.solo, M.empty]⟩

theorem runFrom_inv (cfg : Cfg σ) (hist : List CycIn) : ∀ (s : SW σ) (now : Time), Inv s now →
    Inv (runFrom cfg s now hist) (now + hist.length) := by
  induction hist with
  | nil => intro s now h; exact h
  | cons c rest ih =>
    intro s now h
    have := ih _ _ (cycle_inv cfg h c)
    simp only [runFrom, List.length_cons]
    have e : now + (rest.length + 1) = now + 1 + rest.length := by omega
    rw [e]; exact this

theorem run_inv (cfg : Cfg σ) (hist : List CycIn) : Inv (run cfg hist) (hist.length + 1) := by
  have := runFrom_inv cfg hist {} 1 Inv.init
  rw [Nat.add_comm] at this
  exact this

theorem runFrom_append (cfg : Cfg σ) (a b : List CycIn) : ∀ (s : SW σ) (now : Time),
    runFrom cfg s now (a ++ b) = runFrom cfg (runFrom cfg s now a) (now + a.length) b := by
  induction a with
  | nil => intro s now; rfl
  | cons c rest ih =>
    intro s now
    simp only [List.cons_append, runFrom, List.length_cons]
    rw [ih]
    have e : now + 1 + rest.length = now + (rest.length + 1) := by omega
    rw [e]

/-- the run of a history extended by one cycle -/
theorem run_snoc (cfg : Cfg σ) (pre : List CycIn) (c : CycIn) :
    run cfg (pre ++ [c]) = (cycle cfg (run cfg pre) (pre.length + 1) c).sw := by
  unfold run
  rw [runFrom_append]
  simp only [runFrom]
  rw [Nat.add_comm]

/-! ## the property -/

/-- **marks_reachable**: after every history the marks of the switch-owned output are a function of its value
    and of the value at the start of the current delta window, its items have pairwise different keys, its
    stamps lie before the next cycle, and an output that was never written (`lmt = MIN_DT`) holds nothing -/
theorem marks_reachable (cfg : Cfg σ) (hist : List CycIn) :
    (∃ V0, Marks (run cfg hist).out V0) ∧ KeysNodup (run cfg hist).out ∧
    (run cfg hist).out.lmt < hist.length + 1 ∧ (run cfg hist).out.deltaTime < hist.length + 1 ∧
    ((run cfg hist).out.lmt = 0 → (run cfg hist).out.items = []) :=
  ⟨(run_inv cfg hist).marks, (run_inv cfg hist).nodup, (run_inv cfg hist).lmt, (run_inv cfg hist).dt,
   (run_inv cfg hist).unwritten⟩

/-- **output_is_selected_instance_alone**: after every history the value of the switch output is what the running
    instance alone has published since its activation (folded over the EMPTY collection); with no instance it is
    empty.  Nothing published by an earlier instance survives, whichever branch it ran. -/
theorem output_is_selected_instance_alone (cfg : Cfg σ) (hist : List CycIn) :
    look (run cfg hist).out.items = (run cfg hist).solo :=
  (run_inv cfg hist).solo

/-- **run_delta_exact**: the delta the output reports in the cycle after any history is exactly
    `old value -> new value` -/
theorem run_delta_exact (cfg : Cfg σ) (pre : List CycIn) (c : CycIn) :
    let s := run cfg pre
    let s' := run cfg (pre ++ [c])
    let now := pre.length + 1
    let old := look s.out.items
    let new := look s'.out.items
    (s'.out.modifiedAt now = false → s'.out = s.out) ∧
    (s'.out.modifiedAt now = true →
      (∀ k, k ∈ s'.out.addedAt now ↔ (old k = none ∧ new k ≠ none)) ∧
      (∀ k, k ∈ s'.out.removedAt now ↔ (old k ≠ none ∧ new k = none)) ∧
      (∀ k v, (k, v) ∈ s'.out.modifiedItemsAt now → new k = some v) ∧
      (∀ k, new k ≠ old k → k ∈ s'.out.addedAt now ∨ k ∈ s'.out.removedAt now ∨
        ∃ v, (k, v) ∈ s'.out.modifiedItemsAt now)) := by
  intro s s' now old new
  have hinv := run_inv cfg pre
  obtain ⟨V0, hm⟩ := hinv.marks
  obtain ⟨r, ops, hout, _⟩ := cycle_form cfg s now c
  have hs' : s' = (cycle cfg s now c).sw := run_snoc cfg pre c
  have hex := cycle_delta_exact hm hinv.lmt hinv.dt r ops
  simp only at hex
  rw [← hout, ← hs'] at hex
  refine ⟨hex.1, fun hmod => ?_⟩
  have hmk := hex.2 hmod
  have hnd : KeysNodup s'.out := by
    have := (run_inv cfg (pre ++ [c])).nodup
    exact this
  refine ⟨?_, ?_, ?_, ?_⟩
  · intro k; simp only [Coll.addedAt, hmod, ↓reduceIte]; exact hmk.added k
  · intro k; simp only [Coll.removedAt, hmod, ↓reduceIte]; exact hmk.removed k
  · intro k v hkv
    simp only [Coll.modifiedItemsAt, hmod, ↓reduceIte, List.mem_filter] at hkv
    exact (mem_iff_look hnd k v).mp hkv.1
  · intro k hk
    rcases hmk.noSilent k hk with h1 | h1 | h1
    · left; simpa [Coll.addedAt, hmod] using h1
    · right; left; simpa [Coll.removedAt, hmod] using h1
    · right; right
      have hlive := hmk.modLive k h1
      cases hv : look s'.out.items k with
      | none => exact absurd hv hlive
      | some v =>
        refine ⟨v, ?_⟩
        simp only [Coll.modifiedItemsAt, hmod, ↓reduceIte, List.mem_filter, decide_eq_true_eq]
        exact ⟨(mem_iff_look hnd k v).mpr hv, h1⟩

/-- the first evaluation of a new instance of `b` for key `k` holding `xv` (`xt`: `x` ticked in that cycle) -/
def firstEval (b : Branch σ) (k : Int) (g : Nat) (xv : Option Int) (xt : Bool) : Active σ × List Op :=
  instStep (newInst b k g) xv xt true

theorem instDue_newInst (b : Branch σ) (k : Int) (g : Nat) (xvalid xt kt : Bool) :
    instDue (newInst b k g) xvalid xt kt = (b.unchecked || xvalid) := by
  simp [instDue, newInst]

/-- the ordinal of an instance does not enter its behaviour -/
theorem firstEval_gen_irrelevant (b : Branch σ) (k : Int) (g1 g2 : Nat) (xv : Option Int) (xt : Bool) :
    (firstEval b k g1 xv xt).1.st = (firstEval b k g2 xv xt).1.st ∧
    (firstEval b k g1 xv xt).2 = (firstEval b k g2 xv xt).2 ∧
    (firstEval b k g1 xv xt).1.key = (firstEval b k g2 xv xt).1.key ∧
    (firstEval b k g1 xv xt).1.pub = (firstEval b k g2 xv xt).1.pub := by
  unfold firstEval instStep
  rw [instDue_newInst, instDue_newInst]
  split <;> simp [newInst]

/-- **activation_resets**: in a reachable state that has not failed, a key tick that activates -- there is no
    instance yet, or `reload_on_ticked`, or the key differs from the active one -- ends the cycle with a NEW
    instance (next ordinal) that has run exactly its first evaluation from the branch's initial state, and the
    output value is what THAT evaluation published over the empty collection: nothing of the previous
    instance is left, whatever branch it was built from. -/
theorem activation_resets (cfg : Cfg σ) (pre : List CycIn) (c : CycIn) (k : Int) (b : Branch σ)
    (hd : (run cfg pre).dead = false) (hk : c.key = some k)
    (hn : needsSwitch cfg (holdX (run cfg pre) c.x) k = true) (hs : select cfg k = some b) :
    let s := run cfg pre
    let s' := run cfg (pre ++ [c])
    let fe := firstEval b k (s.nextGen + 1) (holdX s c.x).xval c.x.isSome
    s'.active = some fe.1 ∧ fe.1.pub = fe.2 ∧ look s'.out.items = semOps fe.2 M.empty := by
  intro s s' fe
  have hs' : s' = (cycle cfg s (pre.length + 1) c).sw := run_snoc cfg pre c
  rcases cycle_cases cfg s (pre.length + 1) c hd with ⟨h0, _⟩ | ⟨k', hk', _, hs0, _⟩ | ⟨k', b', hk', _, hs0, h⟩
  · rcases h0 with h0 | ⟨k', hk', hn'⟩
    · rw [hk] at h0; cases h0
    · rw [hk] at hk'; cases hk'; rw [hn] at hn'; cases hn'
  · rw [hk] at hk'; cases hk'; rw [hs] at hs0; cases hs0
  · rw [hk] at hk'; cases hk'; rw [hs] at hs0; cases hs0
    have hact := activate_active (holdX s c.x) (pre.length + 1) k b
    have hsw : s' = evalPhase (activate (holdX s c.x) (pre.length + 1) k b).1 (pre.length + 1) c.x.isSome true := by
      rw [hs', h]
    have hpub : fe.1.pub = fe.2 :=
      (instStep_pub (newInst b k (s.nextGen + 1)) (holdX s c.x).xval c.x.isSome true).trans (by simp [newInst]; rfl)
    refine ⟨?_, hpub, ?_⟩
    · rw [hsw, evalPhase_some hact]
      simp only [activate_xval, holdX_nextGen]
      rfl
    · have hsolo := (run_inv cfg (pre ++ [c])).solo
      show look s'.out.items = _
      rw [hsolo]
      have this' : (run cfg (pre ++ [c])).active = some fe.1 := by
        show s'.active = _
        rw [hsw, evalPhase_some hact]
        simp only [activate_xval, holdX_nextGen]
        rfl
      simp only [SW.solo, this', hpub]

/-- **reload_same_key_resets**: with `reload_on_ticked`, a tick of the UNCHANGED key re-instantiates the same
    branch and the output is reset to what the new instance alone publishes -/
theorem reload_same_key_resets (cfg : Cfg σ) (pre : List CycIn) (c : CycIn) (a : Active σ) (b : Branch σ)
    (hd : (run cfg pre).dead = false) (hr : cfg.reload = true) (ha : (run cfg pre).active = some a)
    (hk : c.key = some a.key) (hs : select cfg a.key = some b) :
    let s := run cfg pre
    let s' := run cfg (pre ++ [c])
    let fe := firstEval b a.key (s.nextGen + 1) (holdX s c.x).xval c.x.isSome
    s'.active = some fe.1 ∧ fe.1.pub = fe.2 ∧ look s'.out.items = semOps fe.2 M.empty := by
  apply activation_resets cfg pre c a.key b hd hk _ hs
  simp [needsSwitch, holdX_active, ha, hr]

/-- **default_key_change_resets**: two different keys that both match no case are both served by the default
    branch: the change between them builds a new instance of that same branch, and the output is reset -/
theorem default_key_change_resets (cfg : Cfg σ) (pre : List CycIn) (c : CycIn) (a : Active σ) (k : Int) (b : Branch σ)
    (hd : (run cfg pre).dead = false) (ha : (run cfg pre).active = some a) (hk : c.key = some k) (hne : a.key ≠ k)
    (hu1 : cfg.cases.find? (fun e => e.1 == a.key) = none) (hu2 : cfg.cases.find? (fun e => e.1 == k) = none)
    (hdf : cfg.dflt = some b) :
    let s := run cfg pre
    let s' := run cfg (pre ++ [c])
    let fe := firstEval b k (s.nextGen + 1) (holdX s c.x).xval c.x.isSome
    select cfg a.key = some b ∧ select cfg k = some b ∧
    s'.active = some fe.1 ∧ fe.1.pub = fe.2 ∧ look s'.out.items = semOps fe.2 M.empty := by
  have hs1 : select cfg a.key = some b := by simp [select, hu1, hdf]
  have hs2 : select cfg k = some b := by simp [select, hu2, hdf]
  refine ⟨hs1, hs2, ?_⟩
  apply activation_resets cfg pre c k b hd hk _ hs2
  simp [needsSwitch, holdX_active, ha, hne]

/-- the output after a cycle that replaces a running instance: the reset, then the new instance's first operations -/
theorem replace_out (cfg : Cfg σ) (pre : List CycIn) (c : CycIn) (a : Active σ) (k : Int) (b : Branch σ)
    (hd : (run cfg pre).dead = false) (ha : (run cfg pre).active = some a) (hk : c.key = some k)
    (hn : needsSwitch cfg (holdX (run cfg pre) c.x) k = true) (hs : select cfg k = some b) :
    (run cfg (pre ++ [c])).out = ((run cfg pre).out.reset (pre.length + 1)).applyAll (pre.length + 1)
      (firstEval b k ((run cfg pre).nextGen + 1) (holdX (run cfg pre) c.x).xval c.x.isSome).2 := by
  rw [run_snoc]
  rcases cycle_cases cfg (run cfg pre) (pre.length + 1) c hd with ⟨h0, _⟩ | ⟨k', hk', _, hs0, _⟩ | ⟨k', b', hk', _, hs0, h⟩
  · rcases h0 with h0 | ⟨k', hk', hn'⟩
    · rw [hk] at h0; cases h0
    · rw [hk] at hk'; cases hk'; rw [hn] at hn'; cases hn'
  · rw [hk] at hk'; cases hk'; rw [hs] at hs0; cases hs0
  · rw [hk] at hk'; cases hk'; rw [hs] at hs0; cases hs0
    rw [h, evalPhase_some (activate_active _ _ _ _)]
    simp only [activate_out, holdX_active, holdX_out, activate_xval, holdX_nextGen, ha, Option.isSome_some, ↓reduceIte]
    rfl

/-- **stale_elements_removed**: when an instance is replaced and the output has been written before (it is valid;
    in particular whenever it holds an element, `written_of_nonempty`), the output ticks in that cycle, and every
    key the old value held that the new instance does not publish in its first evaluation is reported removed
    (and only keys of the old value are) -/
theorem stale_elements_removed (cfg : Cfg σ) (pre : List CycIn) (c : CycIn) (a : Active σ) (k : Int) (b : Branch σ)
    (hd : (run cfg pre).dead = false) (ha : (run cfg pre).active = some a) (hk : c.key = some k)
    (hn : needsSwitch cfg (holdX (run cfg pre) c.x) k = true) (hs : select cfg k = some b)
    (hw : (run cfg pre).out.lmt ≠ 0) :
    let s := run cfg pre
    let s' := run cfg (pre ++ [c])
    let now := pre.length + 1
    let fe := firstEval b k (s.nextGen + 1) (holdX s c.x).xval c.x.isSome
    s'.out.modifiedAt now = true ∧
    (∀ j, j ∈ s'.out.removedAt now ↔ (look s.out.items j ≠ none ∧ semOps fe.2 M.empty j = none)) := by
  intro s s' now fe
  have hval := (activation_resets cfg pre c k b hd hk hn hs).2.2
  have hdelta := run_delta_exact cfg pre c
  simp only at hdelta hval
  have hmod : s'.out.modifiedAt now = true := by
    -- the reset of a written output is a mutation call at `now`
    have hinv := run_inv cfg pre
    obtain ⟨V0, hm⟩ := hinv.marks
    have hout := replace_out cfg pre c a k b hd ha hk hn hs
    have hst : Stepped s.out s'.out V0 now := by
      show Stepped (run cfg pre).out (run cfg (pre ++ [c])).out V0 (pre.length + 1)
      rw [hout]
      exact Stepped.applyAll (Or.inr ⟨_, reset_step hm _ hw⟩) hm _
    rcases hst with e | ⟨f, hf⟩
    · -- cannot be: the reset alone already stamps `now`
      exfalso
      have h1 : ((run cfg pre).out.reset (pre.length + 1)).lmt = max (run cfg pre).out.lmt (pre.length + 1) :=
        (reset_step hm _ hw).lmt
      have hst2 : Stepped ((run cfg pre).out.reset (pre.length + 1)) (run cfg (pre ++ [c])).out
          ((run cfg pre).out.ghost V0 (pre.length + 1)) (pre.length + 1) := by
        rw [hout]; exact Stepped.applyAll (Or.inl rfl) (reset_step hm _ hw).marks _
      have h2 : (run cfg (pre ++ [c])).out.lmt = max (run cfg pre).out.lmt (pre.length + 1) := by
        rcases hst2 with e2 | ⟨g, hg⟩
        · rw [e2, h1]
        · rw [hg.lmt, h1]; omega
      have h3 : (run cfg pre).out.lmt < pre.length + 1 := hinv.lmt
      have e' : (run cfg (pre ++ [c])).out = (run cfg pre).out := e
      rw [e'] at h2
      omega
    · exact (hf.view hinv.lmt hinv.dt).1
  refine ⟨hmod, ?_⟩
  intro j
  rw [((hdelta.2 hmod).2.1 j)]
  show (look s.out.items j ≠ none ∧ look s'.out.items j = none) ↔ _
  rw [hval]

/-- an output that holds an element has been written -/
theorem written_of_nonempty (cfg : Cfg σ) (pre : List CycIn) (j : Key)
    (h : look (run cfg pre).out.items j ≠ none) : (run cfg pre).out.lmt ≠ 0 := by
  intro h0
  rw [(run_inv cfg pre).unwritten h0] at h
  exact h rfl

/-- **unwritten_output_untouched**: replacing an instance while the output has never been written does not touch
    it: the output after the cycle is the never-written output with the new instance's first operations applied,
    and when that instance publishes nothing it is still never written -- not valid, no tick (the repair of
    /repo 98c6672; `prefix_reset_validates_unwritten_output` is what the rule before it did) -/
theorem unwritten_output_untouched (cfg : Cfg σ) (pre : List CycIn) (c : CycIn) (a : Active σ) (k : Int) (b : Branch σ)
    (hd : (run cfg pre).dead = false) (ha : (run cfg pre).active = some a) (hk : c.key = some k)
    (hn : needsSwitch cfg (holdX (run cfg pre) c.x) k = true) (hs : select cfg k = some b)
    (hu : (run cfg pre).out.lmt = 0) :
    let s := run cfg pre
    let s' := run cfg (pre ++ [c])
    let now := pre.length + 1
    let fe := firstEval b k (s.nextGen + 1) (holdX s c.x).xval c.x.isSome
    s'.out = s.out.applyAll now fe.2 ∧
    (fe.2 = [] → s'.out = s.out ∧ s'.out.valid = false ∧ s'.out.modifiedAt now = false) := by
  intro s s' now fe
  have hout := replace_out cfg pre c a k b hd ha hk hn hs
  rw [reset_unwritten _ hu] at hout
  refine ⟨hout, fun he => ?_⟩
  have he' : (firstEval b k ((run cfg pre).nextGen + 1) (holdX (run cfg pre) c.x).xval c.x.isSome).2 = [] := he
  rw [he'] at hout
  have e : (run cfg (pre ++ [c])).out = (run cfg pre).out := hout
  refine ⟨e, ?_, ?_⟩
  · show (run cfg (pre ++ [c])).out.valid = false
    rw [e]; simp [Coll.valid, hu]
  · show (run cfg (pre ++ [c])).out.modifiedAt (pre.length + 1) = false
    rw [e]; exact not_modifiedAt_of_lt (by rw [hu]; omega)

/-- **reactivation_ignores_history**: two histories whose runs have not failed, followed by a cycle that
    activates the same key in both while the same `x` is held: the cycle ends with the same instance state,
    the same published operations and the same output VALUE -- whatever the two outputs held before -/
theorem reactivation_ignores_history (cfg : Cfg σ) (pre1 pre2 : List CycIn) (c : CycIn) (k : Int) (b : Branch σ)
    (hd1 : (run cfg pre1).dead = false) (hd2 : (run cfg pre2).dead = false) (hk : c.key = some k)
    (hn1 : needsSwitch cfg (holdX (run cfg pre1) c.x) k = true)
    (hn2 : needsSwitch cfg (holdX (run cfg pre2) c.x) k = true)
    (hs : select cfg k = some b) (hx : (holdX (run cfg pre1) c.x).xval = (holdX (run cfg pre2) c.x).xval) :
    ∃ a1 a2, (run cfg (pre1 ++ [c])).active = some a1 ∧ (run cfg (pre2 ++ [c])).active = some a2 ∧
      a1.st = a2.st ∧ a1.pub = a2.pub ∧ a1.key = a2.key ∧
      look (run cfg (pre1 ++ [c])).out.items = look (run cfg (pre2 ++ [c])).out.items := by
  obtain ⟨h1a, h1b, h1c⟩ := activation_resets cfg pre1 c k b hd1 hk hn1 hs
  obtain ⟨h2a, h2b, h2c⟩ := activation_resets cfg pre2 c k b hd2 hk hn2 hs
  have hg := firstEval_gen_irrelevant b k ((run cfg pre1).nextGen + 1) ((run cfg pre2).nextGen + 1)
    (holdX (run cfg pre2) c.x).xval c.x.isSome
  rw [hx] at h1a h1b h1c
  refine ⟨_, _, h1a, h2a, hg.1, ?_, hg.2.2.1, ?_⟩
  · rw [h1b, h2b]; exact hg.2.1
  · rw [h1c, h2c, hg.2.1]

/-- **same_key_tick_keeps**: without `reload_on_ticked`, a tick of the active key does not replace the instance:
    the cycle is an ordinary evaluation cycle -- no lifecycle event, same instance ordinal, the output is NOT
    reset (the instance's operations of this cycle are applied to the value it had), and the published
    operations are appended -/
theorem same_key_tick_keeps (cfg : Cfg σ) (s : SW σ) (now : Time) (a : Active σ) (x : Option Int)
    (hd : s.dead = false) (hr : cfg.reload = false) (ha : s.active = some a) :
    let o := cycle cfg s now ⟨some a.key, x⟩
    let st := instStep a (holdX s x).xval x.isSome true
    o.events = [] ∧ o.err = false ∧ o.sw.active = some st.1 ∧ st.1.gen = a.gen ∧ st.1.pub = a.pub ++ st.2 ∧
    o.sw.out = s.out.applyAll now st.2 ∧ look o.sw.out.items = semOps st.2 (look s.out.items) := by
  intro o st
  have hn : needsSwitch cfg (holdX s x) a.key = false := by simp [needsSwitch, holdX_active, ha, hr]
  have ha' : (holdX s x).active = some a := by rw [holdX_active]; exact ha
  have ho : o = ⟨evalPhase (holdX s x) now x.isSome true, [], false⟩ := by
    show cycle cfg s now ⟨some a.key, x⟩ = _
    unfold cycle
    simp [hd, keyPhase, hn]
  have hout : o.sw.out = s.out.applyAll now st.2 := by
    rw [ho, evalPhase_some ha']; simp [holdX_out]; rfl
  refine ⟨by rw [ho], by rw [ho], ?_, (instStep_frame a _ _ _).2.2.1, instStep_pub a _ _ _, hout, ?_⟩
  · rw [ho, evalPhase_some ha']
  · rw [hout, applyAll_look]

/-- the branch `b` run ALONE for key `k`: from its initial state, over the cycles since (and including) its
    activation cycle, seeing only the held `x` and the ticks of `x` and of the key -/
def soloRun (a : Active σ) (xv : Option Int) : List CycIn → Active σ × Option Int
  | [] => (a, xv)
  | c :: rest =>
    let xv' := match c.x with | some v => some v | none => xv
    soloRun (instStep a xv' c.x.isSome c.key.isSome).1 xv' rest

/-- a cycle that does not activate: no key tick, or a tick of the active key without reload -/
def Quiet (cfg : Cfg σ) (k : Int) (c : CycIn) : Prop := c.key = none ∨ (c.key = some k ∧ cfg.reload = false)

theorem runFrom_quiet (cfg : Cfg σ) (post : List CycIn) : ∀ (s : SW σ) (now : Time) (a : Active σ),
    s.dead = false → s.active = some a → (∀ c ∈ post, Quiet cfg a.key c) →
    (runFrom cfg s now post).active = some (soloRun a s.xval post).1 ∧ (runFrom cfg s now post).dead = false := by
  induction post with
  | nil => intro s now a hd ha _; exact ⟨ha, hd⟩
  | cons c rest ih =>
    intro s now a hd ha hq
    have hqc := hq c (by simp)
    have ha' : (holdX s c.x).active = some a := by rw [holdX_active]; exact ha
    have hcyc : cycle cfg s now c = ⟨evalPhase (holdX s c.x) now c.x.isSome c.key.isSome, [], false⟩ := by
      rcases cycle_cases cfg s now c hd with ⟨_, h⟩ | ⟨k', hk', hn, _, _⟩ | ⟨k', b', hk', hn, _, _⟩
      · exact h
      · exfalso
        rcases hqc with h0 | ⟨h0, hr⟩
        · rw [hk'] at h0; cases h0
        · rw [hk'] at h0; cases h0
          simp [needsSwitch, ha', hr] at hn
      · exfalso
        rcases hqc with h0 | ⟨h0, hr⟩
        · rw [hk'] at h0; cases h0
        · rw [hk'] at h0; cases h0
          simp [needsSwitch, ha', hr] at hn
    simp only [runFrom, soloRun]
    rw [hcyc]
    have hact2 : (evalPhase (holdX s c.x) now c.x.isSome c.key.isSome).active =
        some (instStep a (holdX s c.x).xval c.x.isSome c.key.isSome).1 := by rw [evalPhase_some ha']
    have hx2 : (evalPhase (holdX s c.x) now c.x.isSome c.key.isSome).xval = (holdX s c.x).xval := by
      rw [evalPhase_some ha']
    have hd2 : (evalPhase (holdX s c.x) now c.x.isSome c.key.isSome).dead = false := by
      rw [evalPhase_some ha']; simp [holdX_dead, hd]
    have hk : (instStep a (holdX s c.x).xval c.x.isSome c.key.isSome).1.key = a.key := (instStep_frame a _ _ _).1
    have := ih _ (now + 1) _ hd2 hact2 (by intro c' hc'; rw [hk]; exact hq c' (by simp [hc']))
    rw [hx2, holdX_xval] at this
    exact this

/-- **segment_is_solo_run**: a history, then a cycle that activates branch `b` for key `k`, then any cycles that
    do not activate: the running instance is `b` run alone from its initial state over the cycles since its
    activation (seeing the `x` held at that time as sampled), and the output value is the fold of ITS
    operations over the empty collection.  The earlier history enters only through the held `x` and the
    ordinal of the instance. -/
theorem segment_is_solo_run (cfg : Cfg σ) (pre : List CycIn) (act : CycIn) (post : List CycIn) (k : Int) (b : Branch σ)
    (hd : (run cfg pre).dead = false) (hk : act.key = some k)
    (hn : needsSwitch cfg (holdX (run cfg pre) act.x) k = true) (hs : select cfg k = some b)
    (hq : ∀ c ∈ post, Quiet cfg k c) :
    let s := run cfg pre
    let fin := run cfg (pre ++ act :: post)
    let solo := (soloRun (newInst b k (s.nextGen + 1)) s.xval (act :: post)).1
    fin.active = some solo ∧ look fin.out.items = semOps solo.pub M.empty := by
  intro s fin solo
  obtain ⟨h1, _, _⟩ := activation_resets cfg pre act k b hd hk hn hs
  have hfin : fin = runFrom cfg (run cfg (pre ++ [act])) (pre.length + 1 + 1) post := by
    show run cfg (pre ++ act :: post) = _
    have : pre ++ act :: post = (pre ++ [act]) ++ post := by simp
    rw [this]
    unfold run
    rw [runFrom_append]
    simp only [List.length_append, List.length_cons, List.length_nil]
    have e : 1 + (pre.length + (0 + 1)) = pre.length + 1 + 1 := by omega
    rw [e]
  have hdead : (run cfg (pre ++ [act])).dead = false := by
    rw [run_snoc]
    rcases cycle_cases cfg s (pre.length + 1) act hd with ⟨h0, _⟩ | ⟨k', hk', _, hs0, _⟩ | ⟨k', b', hk', _, hs0, h⟩
    · rcases h0 with h0 | ⟨k', hk', hn'⟩
      · rw [hk] at h0; cases h0
      · rw [hk] at hk'; cases hk'; rw [hn] at hn'; cases hn'
    · rw [hk] at hk'; cases hk'; rw [hs] at hs0; cases hs0
    · rw [hk] at hk'; cases hk'; rw [hs] at hs0; cases hs0
      rw [h, evalPhase_some (activate_active _ _ _ _)]
      simp only [activate_dead, holdX_dead]
      exact hd
  have hxv : (run cfg (pre ++ [act])).xval = (holdX s act.x).xval := by
    rw [run_snoc]
    rcases cycle_cases cfg s (pre.length + 1) act hd with ⟨h0, _⟩ | ⟨k', hk', _, hs0, _⟩ | ⟨k', b', hk', _, hs0, h⟩
    · rcases h0 with h0 | ⟨k', hk', hn'⟩
      · rw [hk] at h0; cases h0
      · rw [hk] at hk'; cases hk'; rw [hn] at hn'; cases hn'
    · rw [hk] at hk'; cases hk'; rw [hs] at hs0; cases hs0
    · rw [hk] at hk'; cases hk'; rw [hs] at hs0; cases hs0
      rw [h, evalPhase_some (activate_active _ _ _ _)]
      simp [activate_xval]
  have hkey : (firstEval b k (s.nextGen + 1) (holdX s act.x).xval act.x.isSome).1.key = k := by
    simp only [firstEval]; rw [(instStep_frame _ _ _ _).1]; rfl
  obtain ⟨hact, _⟩ := runFrom_quiet cfg post (run cfg (pre ++ [act])) (pre.length + 1 + 1) _ hdead h1
    (by intro c hc; rw [hkey]; exact hq c hc)
  have hsolo : solo = (soloRun (firstEval b k (s.nextGen + 1) (holdX s act.x).xval act.x.isSome).1
      (run cfg (pre ++ [act])).xval post).1 := by
    show (soloRun (newInst b k (s.nextGen + 1)) s.xval (act :: post)).1 = _
    simp only [soloRun, firstEval, hk, Option.isSome_some]
    rw [hxv, holdX_xval]
  constructor
  · rw [hfin, hact, hsolo]
  · have := output_is_selected_instance_alone cfg (pre ++ act :: post)
    show look fin.out.items = _
    rw [this]
    have hfa : fin.active = some solo := by rw [hfin, hact, hsolo]
    simp only [SW.solo]
    show (match fin.active with | some a => semOps a.pub M.empty | none => M.empty) = _
    rw [hfa]

/-! ## non-vacuity: concrete runs in which the hypotheses above hold and the reset is visible -/

section Examples

/-- adds the input value as an element on every tick -/
def exAcc : Branch Unit :=
  { name := "acc", usesKey := false, unchecked := false, init := (), step := fun _ _ x => ((), [.put x 0]) }
/-- adds the negated input value -/
def exNeg : Branch Unit :=
  { name := "neg", usesKey := false, unchecked := false, init := (), step := fun _ _ x => ((), [.put (-x) 0]) }
/-- a counter: fresh state is visible in the values it writes -/
def exCnt : Branch Nat :=
  { name := "cnt", usesKey := false, unchecked := false, init := 0,
    step := fun n _ x => (n + 1, [.put x (Int.ofNat (n + 1))]) }

def exReload : Cfg Unit := { cases := [(1, exAcc), (2, exNeg)], dflt := none, reload := true }
def exDefault : Cfg Unit := { cases := [(9, exNeg)], dflt := some exAcc, reload := false }
def exPlain : Cfg Unit := { cases := [(1, exAcc), (2, exNeg)], dflt := none, reload := false }
def exDict : Cfg Nat := { cases := [(1, exCnt)], dflt := none, reload := true }

def exHist : List CycIn := [⟨some 1, some 1⟩, ⟨none, some 2⟩]

-- reload, key 1 _ 1 _ with x = 1 2 3 4 (scenario S1 of seeded/s76): {1} {1,2} {3} -[1,2] {3,4}
example : (run exReload exHist).out.items = [(2, 0), (1, 0)] := by rfl
example : (run exReload (exHist ++ [⟨some 1, some 3⟩])).out.items = [(3, 0)] := by rfl
example : (run exReload (exHist ++ [⟨some 1, some 3⟩])).out.removedAt 3 = [1, 2] := by rfl
example : (run exReload (exHist ++ [⟨some 1, some 3⟩])).out.addedAt 3 = [3] := by rfl
example : (run exReload (exHist ++ [⟨some 1, some 3⟩, ⟨none, some 4⟩])).out.items = [(4, 0), (3, 0)] := by rfl

-- the hypotheses of `reload_same_key_resets` / `stale_elements_removed` hold in that run
example : (run exReload exHist).dead = false ∧ exReload.reload = true ∧
    (run exReload exHist).active.map (·.key) = some 1 ∧
    needsSwitch exReload (holdX (run exReload exHist) (some 3)) 1 = true := by
  refine ⟨rfl, rfl, rfl, rfl⟩
example : select exReload 1 = some exAcc := rfl

-- default branch, unmatched keys 5 _ 6 _ (scenario S2): the second one is a new instance of the SAME branch
example : (run exDefault [⟨some 5, some 1⟩, ⟨none, some 2⟩, ⟨some 6, some 3⟩]).out.items = [(3, 0)] := by rfl
example : (run exDefault [⟨some 5, some 1⟩, ⟨none, some 2⟩, ⟨some 6, some 3⟩]).out.removedAt 3 = [1, 2] := by rfl
example : select exDefault 5 = some exAcc ∧ select exDefault 6 = some exAcc := ⟨rfl, rfl⟩
example : exDefault.cases.find? (fun e => e.1 == 5) = none ∧ exDefault.cases.find? (fun e => e.1 == 6) = none :=
  ⟨rfl, rfl⟩

-- the old and the new instance publish the same element: neither added nor removed
example : (run exReload [⟨some 1, some 1⟩, ⟨none, some 2⟩, ⟨some 1, none⟩]).out.items = [(2, 0)] := by rfl
example : (run exReload [⟨some 1, some 1⟩, ⟨none, some 2⟩, ⟨some 1, none⟩]).out.removedAt 3 = [1] := by rfl
example : (run exReload [⟨some 1, some 1⟩, ⟨none, some 2⟩, ⟨some 1, none⟩]).out.addedAt 3 = [] := by rfl

-- no reload: the same key again keeps the instance and its elements (`same_key_tick_keeps`), a -> b -> a resets
example : (run exPlain [⟨some 1, some 1⟩, ⟨some 1, some 2⟩, ⟨none, some 3⟩]).out.items = [(3, 0), (2, 0), (1, 0)] := by rfl
example : (run exPlain [⟨some 1, some 1⟩, ⟨some 1, some 2⟩]).active.map (·.gen) = some 1 := by rfl
example : (run exPlain [⟨some 1, some 1⟩, ⟨none, some 2⟩, ⟨some 2, some 3⟩, ⟨some 1, some 4⟩]).out.items = [(4, 0)] := by rfl
example : (run exPlain [⟨some 1, some 1⟩, ⟨none, some 2⟩, ⟨some 2, some 3⟩, ⟨some 1, some 4⟩]).out.removedAt 4 = [-3] := by rfl

-- a dictionary with a stateful branch: the new instance counts from 1 again; the re-written key is a modified item
example : (run exDict [⟨some 1, some 7⟩, ⟨none, some 8⟩, ⟨some 1, some 7⟩]).out.items = [(7, 1)] := by rfl
example : (run exDict [⟨some 1, some 7⟩, ⟨none, some 8⟩, ⟨some 1, some 7⟩]).out.modifiedItemsAt 3 = [(7, 1)] := by rfl
example : (run exDict [⟨some 1, some 7⟩, ⟨none, some 8⟩, ⟨some 1, some 7⟩]).out.addedAt 3 = [] := by rfl
example : (run exDict [⟨some 1, some 7⟩, ⟨none, some 8⟩, ⟨some 1, some 7⟩]).out.removedAt 3 = [8] := by rfl

/-- **prefix_reset_validates_unwritten_output** (regression witness, `cfg tss 1 - 1=acc / c k 1 / c k 1`): reload,
    the key ticks twice while `x` was never valid, so no instance ever publishes anything.  With the reset rule
    BEFORE /repo 98c6672 (`runPre`: `Coll.resetPre`, clear unconditionally) the replacement in cycle 2 stamps the
    output: it ticks and is valid (empty) although the running instance alone has published nothing.  With the
    repaired rule (`run`) the output is still never written. -/
theorem prefix_reset_validates_unwritten_output :
    let hist : List CycIn := [⟨some 1, none⟩, ⟨some 1, none⟩]
    (runPre exReload hist).active.map (·.pub) = some [] ∧
    (runPre exReload hist).out.valid = true ∧ (runPre exReload hist).out.modifiedAt 2 = true ∧
    (runPre exReload hist).out.items = [] ∧
    (run exReload hist).active.map (·.pub) = some [] ∧
    (run exReload hist).out.valid = false ∧ (run exReload hist).out.modifiedAt 2 = false :=
  ⟨rfl, rfl, rfl, rfl, rfl, rfl, rfl⟩

-- the two rules agree once the output has been written (scenario S1 again, under the pre-repair rule)
example : (runPre exReload (exHist ++ [⟨some 1, some 3⟩])).out.items = (run exReload (exHist ++ [⟨some 1, some 3⟩])).out.items := by rfl

-- the hypotheses of `unwritten_output_untouched` hold in the witness run
example : (run exReload [⟨some 1, none⟩]).dead = false ∧ (run exReload [⟨some 1, none⟩]).active.map (·.key) = some 1 ∧
    (run exReload [⟨some 1, none⟩]).out.lmt = 0 ∧
    (firstEval exAcc 1 2 (holdX (run exReload [⟨some 1, none⟩]) none).xval false).2 = [] := ⟨rfl, rfl, rfl, rfl⟩

-- an unmatched key without default kills the run
example : (run exPlain [⟨some 1, some 1⟩, ⟨some 7, none⟩]).dead = true := by rfl

-- a state whose marks are all non-empty satisfies `Marks` (window start {1, 2}: 1 removed, 3 added, 2 re-written)
example : ∃ (c : Coll) (V0 : M), Marks c V0 ∧ c.added = [3] ∧ c.removed = [1] ∧ c.modified = [3, 2] :=
  ⟨((((({} : Coll).put 1 1 10).put 1 2 20).del 2 1).put 2 2 21).put 2 3 30, _,
   (put_step (put_step (del_step (put_step (put_step Marks.init 1 1 10).marks 1 2 20).marks 2 1).marks 2 2 21).marks 2 3 30).marks,
   rfl, rfl, rfl⟩

end Examples

end HgVerif.SwitchColl
