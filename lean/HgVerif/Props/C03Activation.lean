import HgVerif.Props.C02
/-!
# C03 / C01 / C02 — activation: which nodes run in a cycle, exactly

`scanReqs` is the scan of `Model/Sched.lean` instrumented with the requests every evaluated node
issued (`scanReqs_evaluated`: it evaluates exactly the same nodes as `scanFrom`).  Under the caller
discipline `Disc`:

* `evaluated_iff_due_or_notified` — in a completed fresh cycle at `t`, node `j` is evaluated **iff**
  its slot was `t` when the cycle began (a wake-up it asked for itself: start schedule, scheduler
  event, feedback delivery, nested pull) **or** a node evaluated earlier in this cycle scheduled it
  for `t` (a notification from a producer that wrote).

With `Engine.notify_only_subscribers` (a write schedules exactly the started nodes actively
subscribed to the written output — passive inputs never subscribe) this is the engine-level half of
"user code runs exactly when an active input ticked or an own wake-up fell due"; the readiness half
is `Engine.user_code_gated` / `gate_closed_iff`.
-/
namespace HgVerif.Sched

/-- the scan, returning for every evaluated node the requests it issued -/
def scanR {σ : Type} (β : Beh σ) (t : Time) : Nat → Nat → G → σ → List (Nat × List Req)
  | 0, _, _, _ => []
  | fuel + 1, i, g, u =>
    let s := g.slots.getD i 0
    if s = t then
      let r := β.eval i t u
      let g' := r.reqs.foldl scheduleNode { g with cursor := i }
      (i, r.reqs) :: (if r.ok then scanR β t fuel (i + 1) g' r.st else [])
    else if s > t then scanR β t fuel (i + 1) { g with next := omin g.next s, cursor := i } u
    else scanR β t fuel (i + 1) { g with cursor := i } u

/-- `scanR` evaluates exactly the nodes `scanFrom` evaluates, in the same order -/
theorem scanR_evaluated {σ : Type} (β : Beh σ) (t : Time) (fuel i : Nat) (g : G) (u : σ) (ev : List Nat) :
    (scanFrom β t fuel i g u ev).evaluated = ev ++ (scanR β t fuel i g u).map (·.1) := by
  induction fuel generalizing i g u ev with
  | zero => simp [scanR, scanFrom]
  | succ fuel ih =>
    unfold scanR scanFrom
    simp only
    split
    · split
      · rw [ih]; simp
      · simp
    · split
      · exact ih _ _ _ _
      · exact ih _ _ _ _

theorem scanR_ge {σ : Type} (β : Beh σ) (t : Time) (fuel i : Nat) (g : G) (u : σ) :
    ∀ p ∈ scanR β t fuel i g u, i ≤ p.1 := by
  induction fuel generalizing i g u with
  | zero => simp [scanR]
  | succ fuel ih =>
    unfold scanR
    simp only
    intro p hp
    split at hp
    · simp only [List.mem_cons] at hp
      rcases hp with rfl | hp
      · exact Nat.le_refl _
      · split at hp
        · exact Nat.le_of_succ_le (ih _ _ _ p hp)
        · simp at hp
    · split at hp
      · exact Nat.le_of_succ_le (ih _ _ _ p hp)
      · exact Nat.le_of_succ_le (ih _ _ _ p hp)

/-- the slot of an unscanned node is `t` iff it was `t` before or one of the requests asked for it -/
theorem slot_after_requests {t : Time} {i j n : Nat} (reqs : List Req) {g : G} (hlen : g.slots.length = n)
    (hnow : g.now = t) (hij : i < j)
    (hd : ∀ r ∈ reqs, r.node < n ∧ ((r.time = t ∧ i < r.node) ∨ (t < r.time ∧ r.node ≤ i))) :
    slotOf (reqs.foldl scheduleNode g) j = t ↔ (slotOf g j = t ∨ ⟨j, t⟩ ∈ reqs) := by
  induction reqs generalizing g with
  | nil => simp
  | cons r rest ih =>
    have hr := hd r (by simp)
    have hrest : ∀ r' ∈ rest, r'.node < n ∧ ((r'.time = t ∧ i < r'.node) ∨ (t < r'.time ∧ r'.node ≤ i)) :=
      fun r' h' => hd r' (by simp [h'])
    rw [List.foldl_cons, ih (by rw [scheduleNode_length]; exact hlen) (by rw [scheduleNode_now]; exact hnow) hrest]
    rw [scheduleNode_slots g r j (by omega)]
    constructor
    · rintro (h | h)
      · by_cases hc : j = r.node ∧ accepts g r
        · rw [if_pos hc] at h
          right
          have : r = ⟨j, t⟩ := by cases r; simp_all
          rw [this]; simp
        · rw [if_neg hc] at h; exact Or.inl h
      · exact Or.inr (List.mem_cons_of_mem _ h)
    · rintro (h | h)
      · by_cases hc : j = r.node ∧ accepts g r
        · rw [if_pos hc]
          rcases hr.2 with ⟨ht, _⟩ | ⟨_, hle⟩
          · exact Or.inl ht
          · omega
        · rw [if_neg hc]; exact Or.inl h
      · simp only [List.mem_cons] at h
        rcases h with h | h
        · -- the request itself: `when = t = now` on an unscanned node is always accepted
          left
          have hnode : r.node = j := by rw [← h]
          have htime : r.time = t := by rw [← h]
          have hacc : accepts g r := by
            unfold accepts
            rw [hnow, htime]
            omega
          rw [if_pos ⟨hnode.symm, hacc⟩]; exact htime
        · exact Or.inr h

/-- whether the scan completes does not depend on the accumulator -/
theorem scanFrom_ok_acc {σ : Type} (β : Beh σ) (t : Time) (fuel k : Nat) (g : G) (u : σ) (ev : List Nat) :
    (scanFrom β t fuel k g u ev).ok = (scanFrom β t fuel k g u []).ok := by
  induction fuel generalizing k g u ev with
  | zero => rfl
  | succ f ihf =>
    unfold scanFrom; simp only
    split
    · split
      · rw [ihf _ _ _ (ev ++ [k]), ihf _ _ _ ([] ++ [k])]
      · rfl
    · split
      · exact ihf _ _ _ _
      · exact ihf _ _ _ _

/-- the activation rule, from scan position `i` on -/
theorem scanR_iff {σ : Type} (β : Beh σ) (n : Nat) (hβ : Disc β n) (t : Time) (fuel i : Nat) (g : G) (u : σ)
    (hfi : i + fuel = n) (hlen : g.slots.length = n) (hnow : g.now = t)
    (hok : (scanFrom β t fuel i g u []).ok = true) (j : Nat) (hij : i ≤ j) (hjn : j < n) :
    j ∈ (scanR β t fuel i g u).map (·.1) ↔
      (slotOf g j = t ∨ ∃ p ∈ scanR β t fuel i g u, p.1 < j ∧ ⟨j, t⟩ ∈ p.2) := by
  induction fuel generalizing i g u with
  | zero => omega
  | succ fuel ih =>
    have okmono := fun (ev : List Nat) (g' : G) (u' : σ) (k : Nat) => scanFrom_ok_acc β t fuel k g' u' ev
    rcases Nat.lt_trichotomy (slotOf g i) t with hsi | hsi | hsi
    · -- not due, in the past: skipped
      have hs' : g.slots.getD i 0 < t := hsi
      have e : scanR β t (fuel + 1) i g u = scanR β t fuel (i + 1) { g with cursor := i } u := by
        rw [scanR]; simp only
        rw [if_neg (by omega), if_neg (by omega)]
      rw [scanFrom_skip β t fuel i g u [] hsi] at hok
      rw [e]
      by_cases hji : j = i
      · subst hji
        constructor
        · intro h
          obtain ⟨p, hp, hpj⟩ := List.mem_map.mp h
          have := scanR_ge β t fuel (j + 1) _ u p hp
          omega
        · rintro (h | ⟨p, hp, hlt, _⟩)
          · omega
          · have := scanR_ge β t fuel (j + 1) _ u p hp; omega
      · exact ih (i + 1) _ u (by omega) hlen hnow hok (by omega)
    · cases hrok : (β.eval i t u).ok with
      | false => rw [scanFrom_eval_fail β t fuel i g u [] hsi hrok] at hok; cases hok
      | true =>
        have hs' : g.slots.getD i 0 = t := hsi
        have e : scanR β t (fuel + 1) i g u =
            (i, (β.eval i t u).reqs) ::
              scanR β t fuel (i + 1) ((β.eval i t u).reqs.foldl scheduleNode { g with cursor := i }) (β.eval i t u).st := by
          rw [scanR]; simp only [hs', ↓reduceIte, hrok]
        rw [scanFrom_eval_ok β t fuel i g u [] hsi hrok, okmono] at hok
        rw [e]
        by_cases hji : j = i
        · subst hji
          simp only [List.map_cons, List.mem_cons, true_or, true_iff]
          exact Or.inl hsi
        · have hlt : i < j := by omega
          have hlen' : ((β.eval i t u).reqs.foldl scheduleNode { g with cursor := i }).slots.length = n := by
            rw [foldl_scheduleNode_length]; exact hlen
          have hnow' : ((β.eval i t u).reqs.foldl scheduleNode { g with cursor := i }).now = t := by
            rw [foldl_scheduleNode_now]; exact hnow
          have hIH := ih (i + 1) _ (β.eval i t u).st (by omega) hlen' hnow' hok (by omega)
          have hslot := slot_after_requests (i := i) (j := j) (β.eval i t u).reqs (g := { g with cursor := i })
            hlen hnow hlt (hβ i (by omega) t u)
          simp only [List.map_cons, List.mem_cons]
          constructor
          · rintro (h | h)
            · exact absurd h hji
            · rcases hIH.mp h with h1 | ⟨p, hp, hpl, hpm⟩
              · rcases hslot.mp h1 with h2 | h2
                · exact Or.inl h2
                · exact Or.inr ⟨(i, (β.eval i t u).reqs), Or.inl rfl, hlt, h2⟩
              · exact Or.inr ⟨p, Or.inr hp, hpl, hpm⟩
          · rintro (h | ⟨p, hp, hpl, hpm⟩)
            · exact Or.inr (hIH.mpr (Or.inl (hslot.mpr (Or.inl h))))
            · rcases hp with rfl | hp
              · exact Or.inr (hIH.mpr (Or.inl (hslot.mpr (Or.inr hpm))))
              · exact Or.inr (hIH.mpr (Or.inr ⟨p, hp, hpl, hpm⟩))
    · -- scheduled for the future: folded into the cache, not evaluated
      have hs' : t < g.slots.getD i 0 := hsi
      have e : scanR β t (fuel + 1) i g u =
          scanR β t fuel (i + 1) { g with next := omin g.next (g.slots.getD i 0), cursor := i } u := by
        rw [scanR]; simp only
        rw [if_neg (by omega), if_pos (by omega)]
      rw [scanFrom_fold β t fuel i g u [] hsi] at hok
      rw [e]
      by_cases hji : j = i
      · subst hji
        constructor
        · intro h
          obtain ⟨p, hp, hpj⟩ := List.mem_map.mp h
          have := scanR_ge β t fuel (j + 1) _ u p hp
          omega
        · rintro (h | ⟨p, hp, hlt, _⟩)
          · omega
          · have := scanR_ge β t fuel (j + 1) _ u p hp; omega
      · exact ih (i + 1) _ u (by omega) hlen hnow hok (by omega)

/-- **who runs in a cycle**: in a completed fresh cycle at `t` node `j` is evaluated iff its slot
    was `t` when the cycle began or a node evaluated earlier in the cycle scheduled it for `t` -/
theorem evaluated_iff_due_or_notified {σ : Type} (fx : Bool) (β : Beh σ) (n : Nat) (hβ : Disc β n) (t : Time)
    (g : G) (u : σ) (hlen : g.slots.length = n) (hc : g.cursor = 0) (hok : (cycle fx β n t g u).ok = true)
    (j : Nat) (hjn : j < n) :
    j ∈ (cycle fx β n t g u).evaluated ↔
      (slotOf g j = t ∨
        ∃ p ∈ scanR β t n 0 { g with now := t, failed := false, next := none, cursor := 0 } u,
          p.1 < j ∧ ⟨j, t⟩ ∈ p.2) := by
  have hfresh : cycle fx β n t g u =
      scanFrom β t n 0 { g with now := t, failed := false, next := none, cursor := 0 } u [] := by
    cases fx <;> simp [cycle, resuming, hc]
  rw [hfresh] at hok ⊢
  rw [scanR_evaluated, List.nil_append]
  exact scanR_iff β n hβ t n 0 { g with now := t, failed := false, next := none, cursor := 0 } u (by omega) hlen rfl hok j
    (Nat.zero_le _) hjn

end HgVerif.Sched
