import HgVerif.Model.Capture
/-!
C09, captured boundary ports: every outer port a sub-graph body references gets its OWN boundary slot, and the child
input that names it is bound to exactly that outer output - so the nested wiring reads the same sources as the
inlined one.  For all reference lists (any number of producers, paths, kinds; repeated references allowed).
-/
namespace HgVerif.Capture

theorem sameSource_iff (a b : PortId) : sameSource a b = true ↔ a = b := by
  constructor
  · intro h
    unfold sameSource at h
    cases a; cases b
    simp only [bne_iff_ne, ne_eq] at h
    split at h
    · exact absurd h (by simp)
    · simp only [Bool.and_eq_true, beq_iff_eq] at h
      simp_all
  · intro h; subst h; simp [sameSource]

/-- the scan returns a slot that holds the very port asked for -/
theorem find_spec (tbl : List PortId) (p : PortId) (i : Nat) (h : find tbl p = some i) : tbl[i]? = some p := by
  induction tbl generalizing i with
  | nil => simp [find] at h
  | cons q r ih =>
    simp only [find] at h
    by_cases hs : sameSource q p = true
    · simp only [hs, if_true, Option.some.injEq] at h
      subst h
      simp [(sameSource_iff q p).1 hs]
    · rw [if_neg hs] at h
      cases hf : find r p with
      | none => simp [hf] at h
      | some j =>
        simp only [hf, Option.map_some, Option.some.injEq] at h
        subst h
        simpa using ih j hf

theorem find_of_mem (tbl : List PortId) (p : PortId) (h : p ∈ tbl) : ∃ i, find tbl p = some i := by
  induction tbl with
  | nil => simp at h
  | cons q r ih =>
    simp only [find]
    by_cases hs : sameSource q p = true
    · exact ⟨0, by simp [hs]⟩
    · have hne : q ≠ p := fun e => hs ((sameSource_iff q p).2 e)
      have hm : p ∈ r := by
        rcases List.mem_cons.1 h with e | e
        · exact absurd e.symm hne
        · exact e
      obtain ⟨j, hj⟩ := ih hm
      exact ⟨j + 1, by simp [hs, hj]⟩

theorem indexFor_keeps (tbl : List PortId) (p q : PortId) (h : q ∈ tbl) : q ∈ (indexFor tbl p).2 := by
  unfold indexFor
  cases find tbl p <;> simp [h]

theorem indexFor_adds (tbl : List PortId) (p : PortId) : p ∈ (indexFor tbl p).2 := by
  unfold indexFor
  cases h : find tbl p with
  | none => simp
  | some i =>
    have := find_spec tbl p i h
    simp only
    exact List.mem_of_getElem? this

theorem collect_mem_gen (refs tbl : List PortId) (q : PortId) (h : q ∈ tbl ∨ q ∈ refs) :
    q ∈ refs.foldl (fun t p => (indexFor t p).2) tbl := by
  induction refs generalizing tbl with
  | nil => simpa using h
  | cons p r ih =>
    simp only [List.foldl_cons]
    apply ih
    rcases h with h | h
    · exact Or.inl (indexFor_keeps tbl p q h)
    · rcases List.mem_cons.1 h with e | e
      · subst e; exact Or.inl (indexFor_adds tbl q)
      · exact Or.inr e

/-- every referenced port is in the table when collection is over -/
theorem collect_mem (refs : List PortId) (p : PortId) (h : p ∈ refs) : p ∈ collect refs :=
  collect_mem_gen refs [] p (Or.inr h)

/-- the frozen table never rejects a port that was referenced (the second resolution of an edge cannot throw) -/
theorem slotOf_isSome (refs : List PortId) (p : PortId) (h : p ∈ refs) : ∃ i, slotOf refs p = some i :=
  find_of_mem (collect refs) p (collect_mem refs p h)

/-- the second resolution leaves the table as it is -/
theorem indexFor_frozen_stable (refs : List PortId) (p : PortId) (h : p ∈ refs) :
    (indexFor (collect refs) p).2 = collect refs := by
  obtain ⟨i, hi⟩ := slotOf_isSome refs p h
  unfold indexFor
  simp only [slotOf, indexForFrozen] at hi
  simp [hi]

/-- **Each child input binds the outer output it names.** -/
theorem captured_binding_eq_outer_port (refs : List PortId) (p : PortId) (h : p ∈ refs) : boundTo refs p = some p := by
  obtain ⟨i, hi⟩ := slotOf_isSome refs p h
  unfold boundTo
  rw [hi]
  exact find_spec (collect refs) p i hi

/-- **Two captured ports share a boundary slot iff they are the same source** (node AND path AND kind AND schema) -
    the lemma a table keyed on the producing node falsifies. -/
theorem capture_slots_injective_on_ports (refs : List PortId) (p q : PortId) (hp : p ∈ refs) (_hq : q ∈ refs) :
    slotOf refs p = slotOf refs q ↔ p = q := by
  constructor
  · intro h
    obtain ⟨i, hi⟩ := slotOf_isSome refs p hp
    have hj : slotOf refs q = some i := by rw [← h, hi]
    have e1 := find_spec (collect refs) p i hi
    have e2 := find_spec (collect refs) q i hj
    rw [e1] at e2
    exact Option.some.inj e2
  · intro h; rw [h]

/-- the same at every nesting depth: a port referenced at each level reaches the innermost child unchanged -/
theorem captured_binding_through_levels (levels : List (List PortId)) (p : PortId) (h : ∀ refs ∈ levels, p ∈ refs) :
    boundThrough levels p = some p := by
  induction levels with
  | nil => rfl
  | cons refs outer ih =>
    simp only [boundThrough]
    rw [captured_binding_eq_outer_port refs p (h refs (by simp))]
    exact ih (fun r hr => h r (by simp [hr]))

/-! ### counter-witness: a table keyed on the producing node -/

/-- two fields of one outer bundle producer (node 7): `ask` = field 1, `bid` = field 0 -/
def ask : PortId := { node := 7, path := [1], kind := 0, schema := 1 }
def bid : PortId := { node := 7, path := [0], kind := 0, schema := 1 }

/-- With the node-keyed lookup the two DIFFERENT ports get the same slot and the child input that names `bid` is
    bound to `ask`; the scan as coded keeps them apart. -/
theorem node_keyed_table_aliases_ports :
    ask ≠ bid ∧
    findNode (collectNodeKeyed [ask, bid]) ask = findNode (collectNodeKeyed [ask, bid]) bid ∧
    boundToNodeKeyed [ask, bid] bid = some ask ∧
    slotOf [ask, bid] ask = some 0 ∧ slotOf [ask, bid] bid = some 1 ∧ boundTo [ask, bid] bid = some bid := by
  decide

/-! ### non-vacuity -/

-- a reference list with a repeated port, two ports of one node, a port of another node, and another output kind
def demoRefs : List PortId :=
  [ask, bid, ask, { node := 9, path := [], kind := 0, schema := 1 }, { node := 7, path := [1], kind := 1, schema := 2 }]

example : collect demoRefs = [ask, bid, { node := 9, path := [], kind := 0, schema := 1 }, { node := 7, path := [1], kind := 1, schema := 2 }] := by
  decide

example : slotOf demoRefs ask = some 0 ∧ slotOf demoRefs bid = some 1 ∧
    slotOf demoRefs { node := 7, path := [1], kind := 1, schema := 2 } = some 3 := by decide

example : boundThrough [demoRefs, [bid, ask]] bid = some bid := by decide

end HgVerif.Capture
