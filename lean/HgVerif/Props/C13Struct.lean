import HgVerif.Model.RefLinkStruct
import HgVerif.Props.C13Chain
/-!
# C13 — structured targets: every field of the consumer follows the current target

Model: `Model/RefLinkStruct.lean` - a reference to a whole bundle / fixed-list output is dereferenced by one
link per field; a (re)bind re-points ALL field links, valid or not (`selectS` = `retargetMap` over the flat
links of `Model/RefLink.lean`, flat target `i * nF + f` = field `f` of target `i`).  Everything below is for
ALL histories of selector ticks and field ticks (every `CycleIn` in every state satisfying the invariant,
which every reachable state does).

* `structured_subscription_inv` / `structured_subscription_exact` : in every reachable state the link of field
  `f` of every consumer is bound - and subscribed - to field `f` of the CURRENT target and to nothing else.
* `structured_fields_follow_target` : whatever a consumer reads in field `f` (validity, value) is field `f` of
  the target the reference designates after the cycle - after any retarget, whether or not that field of the
  new target ever ticked (the statement the seeded defect s59 breaks).
* `unselected_field_ticks_silent` : a cycle without retarget in which no field of the selected target ticks
  evaluates no consumer, whatever fields of other (formerly selected) targets tick.
* `field_tick_evaluates` : a tick of field `f` of the target designated after the cycle evaluates every consumer
  in that cycle, with field `f` valid and modified.  `first_field_tick_reaches_consumer` : in particular the FIRST
  tick of a field that had never ticked when the target was selected, with its value.
* `structured_retarget_samples` : a retarget evaluates every consumer for every field of the new target that is
  valid, with that field modified and the sampled value.
* `chain_struct_inv` / `chain_struct_equals_resolved` : a selection tree above a structured dereference is one
  structured reference to what the root designates (as `chain_equals_resolved`).
-/
namespace HgVerif.RefLink

/-! ## the re-bind loop -/

theorem retargetMap_cons (s : State) (g : Nat → Nat) (l : Nat) (ls : List Nat) :
    retargetMap s g (l :: ls) = retargetMap (retargetOne s l (g l)) g ls := rfl

theorem retargetMap_frame (g : Nat → Nat) (ls : List Nat) (s : State) :
    (retargetMap s g ls).shape = s.shape ∧ (retargetMap s g ls).nC = s.nC ∧ (retargetMap s g ls).nT = s.nT ∧
    (retargetMap s g ls).now = s.now ∧ (retargetMap s g ls).ref = s.ref ∧
    (retargetMap s g ls).refLmt = s.refLmt := by
  induction ls generalizing s with
  | nil => simp [retargetMap]
  | cons l ls ih =>
    rw [retargetMap_cons]
    have a := ih (retargetOne s l (g l))
    have b := retargetOne_frame s l (g l)
    grind

theorem retargetMap_data (g : Nat → Nat) (ls : List Nat) (s : State) (t : Nat) :
    ((retargetMap s g ls).targets t).data = (s.targets t).data := by
  induction ls generalizing s with
  | nil => simp [retargetMap]
  | cons l ls ih => rw [retargetMap_cons, ih, retargetOne_data]

theorem retargetMap_good (g : Nat → Nat) (ls : List Nat) (s : State) (h : ∀ c, Good s c) :
    ∀ c, Good (retargetMap s g ls) c := by
  induction ls generalizing s with
  | nil => simpa [retargetMap] using h
  | cons l ls ih => rw [retargetMap_cons]; exact ih _ (retargetOne_good s l (g l) h)

theorem retargetMap_link_notin (g : Nat → Nat) (ls : List Nat) (s : State) {c : Nat} (h : c ∉ ls) :
    (retargetMap s g ls).links c = s.links c := by
  induction ls generalizing s with
  | nil => simp [retargetMap]
  | cons l ls ih =>
    rw [retargetMap_cons, ih _ (by grind), retargetOne_link_other s (g l) (by grind)]

/-- the link of a field after the loop is what its own re-bind step made of it -/
theorem retargetMap_link_in (g : Nat → Nat) (ls : List Nat) (s : State) {c : Nat} (hn : ls.Nodup) (h : c ∈ ls) :
    (retargetMap s g ls).links c = (retargetOne s c (g c)).links c := by
  induction ls generalizing s with
  | nil => simp at h
  | cons l ls ih =>
    rw [retargetMap_cons]
    have hn' := List.nodup_cons.mp hn
    by_cases hc : c = l
    · subst hc
      rw [retargetMap_link_notin g ls _ hn'.1]
    · have hm : c ∈ ls := by grind
      rw [ih _ hn'.2 hm]
      have f := retargetOne_frame s l (g l)
      exact retargetOne_link_congr c (g c) (retargetOne_link_other s (g l) hc) f.1 f.2.2.2.1
        (fun t => retargetOne_data s l (g l) t)

theorem retargetMap_bound_in (g : Nat → Nat) (ls : List Nat) (s : State) {c : Nat} (hn : ls.Nodup) (h : c ∈ ls) :
    ((retargetMap s g ls).links c).bound = some (g c) := by
  rw [retargetMap_link_in g ls s hn h]; exact retargetOne_bound_self s c (g c)

theorem retargetMap_sched_mono (g : Nat → Nat) (ls : List Nat) (s : State) {c : Nat} (h : c ∈ s.sched) :
    c ∈ (retargetMap s g ls).sched := by
  induction ls generalizing s with
  | nil => simpa [retargetMap] using h
  | cons l ls ih => rw [retargetMap_cons]; exact ih _ (retargetOne_sched_mono s l (g l) h)

/-- a re-bind that publishes schedules the field link -/
theorem retargetMap_sched_in (g : Nat → Nat) (ls : List Nat) (s : State) {c : Nat} (hn : ls.Nodup) (h : c ∈ ls)
    (hb : (s.links c).bound ≠ some (g c)) (hp : publishes s c (g c) = true) : c ∈ (retargetMap s g ls).sched := by
  induction ls generalizing s with
  | nil => simp at h
  | cons l ls ih =>
    rw [retargetMap_cons]
    have hn' := List.nodup_cons.mp hn
    by_cases hc : c = l
    · subst hc
      exact retargetMap_sched_mono g ls _ ((retargetOne_sched s c (g c) c).mpr (Or.inr ⟨rfl, hb, hp⟩))
    · have hm : c ∈ ls := by grind
      have f := retargetOne_frame s l (g l)
      apply ih _ hn'.2 hm
      · rw [retargetOne_link_other s (g l) hc]; exact hb
      · rw [publishes_congr c (g c) (retargetOne_link_other s (g l) hc) f.1 (fun t => retargetOne_data s l (g l) t)]
        exact hp

/-! ## the invariant -/

/-- every field link is bound, and subscribed, to its own field of the current target -/
structure SInv (nF : Nat) (s : State) : Prop where
  good : ∀ l, Good s l
  bound : ∀ l, l < s.nC → (s.links l).bound = s.ref.map (fun i => fieldOf nF i l)
  bound_none : ∀ l, s.nC ≤ l → (s.links l).bound = none
  lmt_le : ∀ t, (s.targets t).lmt ≤ s.now
  shape : s.shape = .ts

theorem cycleMidS_eq (nF : Nat) (s : State) (inp : CycleIn) :
    cycleMidS nF s inp = selectS nF (afterTicks s inp) inp.sel := rfl

theorem selectS_cases (nF : Nat) (s : State) (sel : Option Nat) :
    (selectS nF s sel = s ∧ (sel = none ∨ sel = s.ref)) ∨
    (∃ i, sel = some i ∧ s.ref ≠ some i ∧
      selectS nF s sel = retargetMap { s with ref := some i, refLmt := s.now, sched := s.sched ++ s.resample }
        (fieldOf nF i) (List.range s.nC)) := by
  unfold selectS
  cases sel with
  | none => exact Or.inl ⟨rfl, Or.inl rfl⟩
  | some i =>
    by_cases h : s.ref = some i
    · exact Or.inl ⟨by simp [h], Or.inr h.symm⟩
    · exact Or.inr ⟨i, rfl, h, by simp [h]⟩

theorem selectS_data (nF : Nat) (s : State) (sel : Option Nat) (t : Nat) :
    ((selectS nF s sel).targets t).data = (s.targets t).data := by
  rcases selectS_cases nF s sel with ⟨h, _⟩ | ⟨i, _, _, h⟩
  · rw [h]
  · rw [h, retargetMap_data]

theorem selectS_frame (nF : Nat) (s : State) (sel : Option Nat) :
    (selectS nF s sel).shape = s.shape ∧ (selectS nF s sel).nC = s.nC ∧ (selectS nF s sel).nT = s.nT ∧
    (selectS nF s sel).now = s.now := by
  rcases selectS_cases nF s sel with ⟨h, _⟩ | ⟨i, _, _, h⟩
  · rw [h]; simp
  · have := retargetMap_frame (fieldOf nF i) (List.range s.nC)
      { s with ref := some i, refLmt := s.now, sched := s.sched ++ s.resample }
    rw [h]; simp at this; grind

theorem cycleMidS_frame (nF : Nat) (s : State) (inp : CycleIn) :
    (cycleMidS nF s inp).shape = s.shape ∧ (cycleMidS nF s inp).nC = s.nC ∧ (cycleMidS nF s inp).nT = s.nT ∧
    (cycleMidS nF s inp).now = s.now + 1 := by
  have a := selectS_frame nF (afterTicks s inp) inp.sel
  have b := afterTicks_frame s inp
  rw [cycleMidS_eq]; grind

theorem sinv_init (nF nCons nTg : Nat) (checked : Nat → Bool) (st rs : List Nat) :
    SInv nF (initS nF nCons nTg checked st rs) := by
  constructor <;> intros <;> simp [initS, init, Good]

theorem sinv_afterTicks {nF : Nat} {s : State} (h : SInv nF s) (inp : CycleIn) : SInv nF (afterTicks s inp) := by
  have f := afterTicks_frame s inp
  constructor
  · intro c t
    rw [afterTicks_subs, (afterTicks_link s inp c).1]; exact h.good c t
  · intro c hc
    rw [f.2.1] at hc
    rw [(afterTicks_link s inp c).1, f.2.2.2.2.1]; exact h.bound c hc
  · intro c hc
    rw [f.2.1] at hc
    rw [(afterTicks_link s inp c).1]; exact h.bound_none c hc
  · intro t
    have hl : (s.targets t).lmt ≤ s.now + 1 := Nat.le_succ_of_le (h.lmt_le t)
    rw [afterTicks_target, f.2.2.2.1]
    split
    · exact tickedTarget_lmt_le _ _ _ _ hl
    · exact hl
  · rw [f.1]; exact h.shape

theorem sinv_selectS {nF : Nat} {s : State} (h : SInv nF s) (sel : Option Nat) : SInv nF (selectS nF s sel) := by
  rcases selectS_cases nF s sel with ⟨e, _⟩ | ⟨i, _, _, e⟩
  · rw [e]; exact h
  · rw [e]
    let s0 : State := { s with ref := some i, refLmt := s.now, sched := s.sched ++ s.resample }
    have f := retargetMap_frame (fieldOf nF i) (List.range s.nC) s0
    have hg : ∀ c, Good s0 c := fun c t => h.good c t
    have hd : ∀ t, ((retargetMap s0 (fieldOf nF i) (List.range s.nC)).targets t).data = (s.targets t).data :=
      fun t => retargetMap_data _ _ s0 t
    constructor
    · exact retargetMap_good _ _ s0 hg
    · intro c hc
      have hc' : c < s.nC := by rw [f.2.1] at hc; exact hc
      rw [retargetMap_bound_in _ _ s0 List.nodup_range (List.mem_range.mpr hc'), f.2.2.2.2.1]
      rfl
    · intro c hc
      have hc' : s.nC ≤ c := by rw [f.2.1] at hc; exact hc
      rw [retargetMap_link_notin _ _ s0 (by simpa using hc')]
      exact h.bound_none c hc'
    · intro t
      rw [(Target.data_eq (hd t)).2.2.1, f.2.2.2.1]; exact h.lmt_le t
    · rw [f.1]; exact h.shape

theorem sinv_cycleMidS {nF : Nat} {s : State} (h : SInv nF s) (inp : CycleIn) : SInv nF (cycleMidS nF s inp) := by
  rw [cycleMidS_eq]; exact sinv_selectS (sinv_afterTicks h inp) inp.sel

theorem sinv_cycleS {nF : Nat} {s : State} (h : SInv nF s) (nCons : Nat) (inp : CycleIn) :
    SInv nF (cycleS nF nCons s inp).1 := by
  have m := sinv_cycleMidS h inp
  exact ⟨fun c t => m.good c t, m.bound, m.bound_none, m.lmt_le, m.shape⟩

/-- reachable states of `nCons` bundle consumers over `nTg` structured targets of `nF` fields -/
inductive SReach (nF nCons nTg : Nat) (checked : Nat → Bool) (st rs : List Nat) : State → Prop
  | init : SReach nF nCons nTg checked st rs (initS nF nCons nTg checked st rs)
  | step {s : State} (inp : CycleIn) : SReach nF nCons nTg checked st rs s →
      SReach nF nCons nTg checked st rs (cycleS nF nCons s inp).1

/-- **structured_subscription_inv**: the invariant holds in every reachable state, for every history. -/
theorem structured_subscription_inv {nF nCons nTg : Nat} {checked : Nat → Bool} {st rs : List Nat} {s : State}
    (h : SReach nF nCons nTg checked st rs s) : SInv nF s := by
  induction h with
  | init => exact sinv_init ..
  | step inp _ ih => exact sinv_cycleS ih nCons inp

theorem fieldOf_flat (nF i c f : Nat) (hf : f < nF) : fieldOf nF i (c * nF + f) = i * nF + f := by
  unfold fieldOf
  rw [Nat.add_comm (c * nF) f, Nat.add_mul_mod_self_right, Nat.mod_eq_of_lt hf]

/-- **structured_subscription_exact**: the link of field `f` of consumer `c` is subscribed to field `f` of the
current target and to no field of any former or unselected target. -/
theorem structured_subscription_exact {nF : Nat} {s : State} (h : SInv nF s) {c f : Nat} (hf : f < nF)
    (hl : c * nF + f < s.nC) (t : Nat) :
    (c * nF + f) ∈ (s.targets t).subs ↔ s.ref.map (fun i => i * nF + f) = some t := by
  rw [h.good (c * nF + f) t, h.bound _ hl]
  cases s.ref with
  | none => simp
  | some i => simp [fieldOf_flat nF i c f hf]

/-! ## observations -/

theorem mem_obsS {nF nCons : Nat} {s : State} {inp : CycleIn} {c : Nat} {sv : SView} :
    (c, sv) ∈ (cycleS nF nCons s inp).2 ↔
      c ∈ evaluatedS nF nCons (cycleMidS nF s inp) ∧ sv = viewS nF (cycleMidS nF s inp) c := by
  simp only [cycleS, List.mem_map]
  constructor
  · rintro ⟨c', hc, e⟩
    simp only [Prod.mk.injEq] at e
    obtain ⟨rfl, rfl⟩ := e
    exact ⟨hc, rfl⟩
  · rintro ⟨hc, rfl⟩
    exact ⟨c, hc, rfl⟩

theorem mem_evaluatedS {nF nCons : Nat} {s : State} {c : Nat} :
    c ∈ evaluatedS nF nCons s ↔ c < nCons ∧ (∃ f, f < nF ∧ (c * nF + f) ∈ s.sched) ∧
      ((s.links (c * nF)).checked = false ∨ (viewS nF s c).valid = true) := by
  simp [evaluatedS, schedS, List.mem_filter]

/-- field `f` of what consumer `c` reads is the view through its field link -/
theorem viewS_field (nF : Nat) (s : State) (c : Nat) {f : Nat} (hf : f < nF) :
    (viewS nF s c).fields[f]? = some (view s (c * nF + f)) := by
  simp [viewS, hf]

theorem viewS_valid_of_field (nF : Nat) (s : State) (c : Nat) {f : Nat} (hf : f < nF)
    (hv : (view s (c * nF + f)).valid = true) : (viewS nF s c).valid = true := by
  simp only [viewS, List.any_map, List.any_eq_true, List.mem_range]
  exact ⟨f, hf, hv⟩

/-- **structured_fields_follow_target**: at every evaluation, for every field `f`, validity and value the
consumer reads in field `f` are those of field `f` of the target the reference designates after the cycle
(and "not valid" while it designates none) - after any retarget, whether or not the new target's field `f`
has ever ticked. -/
theorem structured_fields_follow_target {nF nCons : Nat} {s : State} (h : SInv nF s) (inp : CycleIn)
    {c : Nat} {sv : SView} (hcv : (c, sv) ∈ (cycleS nF nCons s inp).2) {f : Nat} (hf : f < nF)
    (hl : c * nF + f < s.nC) :
    ∃ v, sv.fields[f]? = some v ∧
      match (cycleS nF nCons s inp).1.ref with
      | some i => v.valid = ((cycleS nF nCons s inp).1.targets (i * nF + f)).valid ∧
                  v.items = ((cycleS nF nCons s inp).1.targets (i * nF + f)).items
      | none => v.valid = false := by
  obtain ⟨_, rfl⟩ := mem_obsS.mp hcv
  have m := sinv_cycleMidS h inp
  have fm := cycleMidS_frame nF s inp
  have hb := m.bound (c * nF + f) (by rw [fm.2.1]; exact hl)
  refine ⟨view (cycleMidS nF s inp) (c * nF + f), viewS_field nF _ c hf, ?_⟩
  show match (cycleMidS nF s inp).ref with
    | some i => (view (cycleMidS nF s inp) (c * nF + f)).valid = ((cycleMidS nF s inp).targets (i * nF + f)).valid ∧
        (view (cycleMidS nF s inp) (c * nF + f)).items = ((cycleMidS nF s inp).targets (i * nF + f)).items
    | none => (view (cycleMidS nF s inp) (c * nF + f)).valid = false
  cases hr : (cycleMidS nF s inp).ref with
  | none =>
    rw [hr] at hb
    simp [view, hb]
  | some i =>
    rw [hr] at hb
    simp only [Option.map_some, fieldOf_flat nF i c f hf] at hb
    exact ⟨(view_of_bound hb).1, (view_of_bound hb).2.1⟩

/-- **unselected_field_ticks_silent**: in a cycle in which the reference is not retargeted and no field of the
selected target ticks, NO consumer is evaluated - whatever fields of other (unselected, formerly selected)
targets tick. -/
theorem unselected_field_ticks_silent {nF nCons : Nat} {s : State} (h : SInv nF s) (hs : s.sched = [])
    (inp : CycleIn) (hsel : inp.sel = none ∨ inp.sel = s.ref)
    (hq : ∀ i f, s.ref = some i → f < nF → inp.ticks (i * nF + f) = none) :
    (cycleS nF nCons s inp).2 = [] := by
  have f0 := afterTicks_frame s inp
  have hm : cycleMidS nF s inp = afterTicks s inp := by
    rw [cycleMidS_eq]
    rcases hsel with e | e
    · rw [e]; rfl
    · rw [e]
      cases hr : s.ref with
      | none => rfl
      | some i => simp [selectS, f0.2.2.2.2.1, hr]
  apply List.eq_nil_iff_forall_not_mem.mpr
  rintro ⟨c, sv⟩ hcv
  have hc := (mem_obsS.mp hcv).1
  rw [hm] at hc
  obtain ⟨_, ⟨f, hf, hsch⟩, _⟩ := mem_evaluatedS.mp hc
  rcases tickAll_sched_cause inp.ticks (List.range s.nT) _ hsch with h1 | ⟨t, _, d, hd, hsub⟩
  · simp [hs] at h1
  · have hb : (s.links (c * nF + f)).bound = some t := (h.good _ t).mp hsub
    by_cases hl : c * nF + f < s.nC
    · rw [h.bound _ hl] at hb
      cases hr : s.ref with
      | none => rw [hr] at hb; cases hb
      | some i =>
        rw [hr] at hb
        simp only [Option.map_some, fieldOf_flat nF i c f hf, Option.some.injEq] at hb
        rw [← hb, hq i f hr hf] at hd
        cases hd
    · rw [h.bound_none _ (Nat.le_of_not_lt hl)] at hb
      cases hb

/-- a field link that ends the producer / selection phase scheduled and bound to a valid field: its consumer
is evaluated and reads that field through the link -/
theorem obs_of_sched {nF nCons : Nat} {s : State} (inp : CycleIn) {c f t : Nat} (hc : c < nCons) (hf : f < nF)
    (hsch : (c * nF + f) ∈ (cycleMidS nF s inp).sched)
    (hb : ((cycleMidS nF s inp).links (c * nF + f)).bound = some t)
    (hv : ((cycleMidS nF s inp).targets t).valid = true) :
    (c, viewS nF (cycleMidS nF s inp) c) ∈ (cycleS nF nCons s inp).2 ∧
    (viewS nF (cycleMidS nF s inp) c).fields[f]? = some (view (cycleMidS nF s inp) (c * nF + f)) ∧
    (view (cycleMidS nF s inp) (c * nF + f)).valid = true ∧
    (view (cycleMidS nF s inp) (c * nF + f)).items = ((cycleMidS nF s inp).targets t).items := by
  have hvv : (view (cycleMidS nF s inp) (c * nF + f)).valid = true := by rw [(view_of_bound hb).1]; exact hv
  refine ⟨mem_obsS.mpr ⟨mem_evaluatedS.mpr ⟨hc, ⟨f, hf, hsch⟩, Or.inr (viewS_valid_of_field nF _ c hf hvv)⟩, rfl⟩,
    viewS_field nF _ c hf, hvv, (view_of_bound hb).2.1⟩

/-- a flat target stamped with the current time received an effective tick in this cycle -/
theorem ticked_of_lmtS {nF : Nat} {s : State} (h : SInv nF s) (inp : CycleIn) {t : Nat}
    (hl : ((cycleMidS nF s inp).targets t).lmt = s.now + 1) :
    t < s.nT ∧ ∃ d, inp.ticks t = some d ∧ (applyDelta s.shape (s.targets t) (s.now + 1) d).2 = true := by
  rw [cycleMidS_eq, (Target.data_eq (selectS_data _ _ _ t)).2.2.1, afterTicks_target] at hl
  have hlt : (s.targets t).lmt < s.now + 1 := by have := h.lmt_le t; omega
  by_cases ht : t < s.nT
  · rw [if_pos ht] at hl
    exact ⟨ht, (tickedTarget_lmt _ _ _ _ hlt).mp hl⟩
  · rw [if_neg ht] at hl; omega

/-- the per-link effect of a retarget to `i` -/
theorem retarget_linkS {nF : Nat} {s : State} (inp : CycleIn) {i l : Nat} (hsel : inp.sel = some i)
    (hne : s.ref ≠ some i) (hl : l < s.nC) :
    (cycleMidS nF s inp).links l = (retargetOne (afterTicks s inp) l (fieldOf nF i l)).links l ∧
    (publishes (afterTicks s inp) l (fieldOf nF i l) = true → (s.links l).bound ≠ some (fieldOf nF i l) →
      l ∈ (cycleMidS nF s inp).sched) := by
  have f := afterTicks_frame s inp
  have hne' : (afterTicks s inp).ref ≠ some i := by rw [f.2.2.2.2.1]; exact hne
  have e : cycleMidS nF s inp =
      retargetMap { afterTicks s inp with ref := some i, refLmt := (afterTicks s inp).now,
                                          sched := (afterTicks s inp).sched ++ (afterTicks s inp).resample }
        (fieldOf nF i) (List.range (afterTicks s inp).nC) := by
    rw [cycleMidS_eq, hsel]; simp [selectS, hne']
  have hmem : l ∈ List.range (afterTicks s inp).nC := by rw [f.2.1]; exact List.mem_range.mpr hl
  constructor
  · rw [e, retargetMap_link_in _ _ _ List.nodup_range hmem]
    exact retargetOne_link_congr l _ rfl rfl rfl (fun _ => rfl)
  · intro hp hb
    rw [e]
    refine retargetMap_sched_in _ _ _ List.nodup_range hmem ?_ hp
    show ((afterTicks s inp).links l).bound ≠ some (fieldOf nF i l)
    rw [(afterTicks_link s inp l).1]; exact hb

/-- a link bound to a field of another target than `i` is not bound to its field of `i` -/
theorem bound_ne_of_ref_ne {nF : Nat} {s : State} (h : SInv nF s) {i l : Nat} (hne : s.ref ≠ some i)
    (hl : l < s.nC) (hF : 0 < nF) : (s.links l).bound ≠ some (fieldOf nF i l) := by
  rw [h.bound l hl]
  cases hr : s.ref with
  | none => simp
  | some j =>
    have hji : j ≠ i := fun e => hne (by rw [hr, e])
    simp only [Option.map_some, ne_eq, Option.some.injEq, fieldOf]
    intro e
    have : j * nF = i * nF := by omega
    exact hji (Nat.eq_of_mul_eq_mul_right hF this)

/-- **structured_retarget_samples**: when the reference is retargeted to target `i`, every consumer is evaluated
in that cycle for every field `f` of `i` that is valid (it ticked earlier or in this cycle), and reads that
field as valid, modified, with the new target's value. -/
theorem structured_retarget_samples {nF nCons : Nat} {s : State} (h : SInv nF s) (inp : CycleIn) {i f c : Nat}
    (hsel : inp.sel = some i) (hne : s.ref ≠ some i) (hf : f < nF)
    (hv : ((cycleS nF nCons s inp).1.targets (i * nF + f)).valid = true) (hc : c < nCons)
    (hl : c * nF + f < s.nC) :
    ∃ sv v, (c, sv) ∈ (cycleS nF nCons s inp).2 ∧ sv.fields[f]? = some v ∧ v.valid = true ∧ v.modified = true ∧
      v.items = ((cycleS nF nCons s inp).1.targets (i * nF + f)).items := by
  have fm := cycleMidS_frame nF s inp
  have f0 := afterTicks_frame s inp
  have hF : 0 < nF := Nat.lt_of_le_of_lt (Nat.zero_le f) hf
  replace hv : ((cycleMidS nF s inp).targets (i * nF + f)).valid = true := hv
  have hva : ((afterTicks s inp).targets (i * nF + f)).valid = true := by
    rwa [cycleMidS_eq, (Target.data_eq (selectS_data _ _ _ _)).1] at hv
  have hfo := fieldOf_flat nF i c f hf
  have hp : publishes (afterTicks s inp) (c * nF + f) (fieldOf nF i (c * nF + f)) = true := by
    rw [hfo]; unfold publishes; simp only [hva]; split <;> simp
  obtain ⟨hlink, hsched⟩ := retarget_linkS inp hsel hne hl
  have hbne := bound_ne_of_ref_ne h hne hl hF
  have hba : ((afterTicks s inp).links (c * nF + f)).bound ≠ some (fieldOf nF i (c * nF + f)) := by
    rw [(afterTicks_link s inp _).1]; exact hbne
  obtain ⟨lb, ll, _, _⟩ := retargetOne_link_publish hba hp
  rw [← hlink, hfo] at lb
  rw [← hlink] at ll
  obtain ⟨o1, o2, o3, o4⟩ := obs_of_sched (nCons := nCons) inp hc hf (hsched hp hbne) lb hv
  refine ⟨_, _, o1, o2, o3, ?_, o4⟩
  rw [(view_of_bound lb).2.2, ll, f0.2.2.2.1, fm.2.2.2]; simp

/-- **field_tick_evaluates**: whenever field `f` of the target designated at the end of the cycle ticks in that
cycle, every consumer is evaluated in that cycle and reads field `f` as valid and modified. -/
theorem field_tick_evaluates {nF nCons : Nat} {s : State} (h : SInv nF s) (inp : CycleIn) {i f c : Nat}
    (hr : (cycleS nF nCons s inp).1.ref = some i) (hf : f < nF)
    (hl : ((cycleS nF nCons s inp).1.targets (i * nF + f)).lmt = (cycleS nF nCons s inp).1.now)
    (hc : c < nCons) (hcl : c * nF + f < s.nC) :
    ∃ sv v, (c, sv) ∈ (cycleS nF nCons s inp).2 ∧ sv.fields[f]? = some v ∧ v.valid = true ∧ v.modified = true ∧
      v.items = ((cycleS nF nCons s inp).1.targets (i * nF + f)).items := by
  have fm := cycleMidS_frame nF s inp
  have f0 := afterTicks_frame s inp
  replace hr : (cycleMidS nF s inp).ref = some i := hr
  replace hl : ((cycleMidS nF s inp).targets (i * nF + f)).lmt = s.now + 1 := by
    have : ((cycleMidS nF s inp).targets (i * nF + f)).lmt = (cycleMidS nF s inp).now := hl
    rw [this, fm.2.2.2]
  obtain ⟨htn, d, hd, hb⟩ := ticked_of_lmtS h inp hl
  have hvalid : ((cycleMidS nF s inp).targets (i * nF + f)).valid = true := by
    rw [cycleMidS_eq, (Target.data_eq (selectS_data _ _ _ _)).1, afterTicks_target, if_pos htn]
    unfold tickedTarget; rw [hd]; exact (applyDelta_ticked _ _ _ _ hb).2
  have m := sinv_cycleMidS h inp
  have hbound : ((cycleMidS nF s inp).links (c * nF + f)).bound = some (i * nF + f) := by
    rw [m.bound _ (by rw [fm.2.1]; exact hcl), hr]
    simp [fieldOf_flat nF i c f hf]
  have hsch : (c * nF + f) ∈ (cycleMidS nF s inp).sched := by
    rw [cycleMidS_eq] at hr ⊢
    rcases selectS_cases nF (afterTicks s inp) inp.sel with ⟨e, _⟩ | ⟨j, hsel, hne, e⟩
    · -- no retarget: the field link is subscribed to the field, whose tick scheduled it
      rw [e] at hr ⊢
      rw [f0.2.2.2.2.1] at hr
      have hsub : (c * nF + f) ∈ (s.targets (i * nF + f)).subs :=
        (structured_subscription_exact h hf hcl _).mpr (by rw [hr]; rfl)
      exact tickAll_sched_of_tick inp.ticks _ _ List.nodup_range (List.mem_range.mpr htn) hd hb hsub
    · -- retarget to `i` in this very cycle: the field is valid, the re-bind publishes
      have hji : j = i := by
        have g := retargetMap_frame (fieldOf nF j) (List.range (afterTicks s inp).nC)
          { afterTicks s inp with ref := some j, refLmt := (afterTicks s inp).now,
                                   sched := (afterTicks s inp).sched ++ (afterTicks s inp).resample }
        rw [e, g.2.2.2.2.1] at hr
        exact Option.some.inj hr
      subst hji
      rw [f0.2.2.2.2.1] at hne
      have hF : 0 < nF := Nat.lt_of_le_of_lt (Nat.zero_le f) hf
      have hva : ((afterTicks s inp).targets (j * nF + f)).valid = true := by
        rw [afterTicks_target, if_pos htn]; unfold tickedTarget; rw [hd]
        exact (applyDelta_ticked _ _ _ _ hb).2
      have hp : publishes (afterTicks s inp) (c * nF + f) (fieldOf nF j (c * nF + f)) = true := by
        rw [fieldOf_flat nF j c f hf]; unfold publishes; simp only [hva]; split <;> simp
      have := (retarget_linkS inp hsel hne hcl).2 hp (bound_ne_of_ref_ne h hne hcl hF)
      rw [cycleMidS_eq] at this; exact this
  obtain ⟨o1, o2, o3, o4⟩ := obs_of_sched (nCons := nCons) inp hc hf hsch hbound hvalid
  refine ⟨_, _, o1, o2, o3, ?_, o4⟩
  rw [(view_of_bound hbound).2.2, hl, fm.2.2.2]; simp

/-- **first_field_tick_reaches_consumer**: target `i` is selected; when its field `f` ticks with value `x` - in
particular for the FIRST time, the field having been invalid when `i` was selected (no hypothesis on the field's
validity: see the example below for that scenario) - every consumer is evaluated in that cycle and reads field
`f` as valid, modified, with value `x`. -/
theorem first_field_tick_reaches_consumer {nF nCons : Nat} {s : State} (h : SInv nF s) (inp : CycleIn)
    {i f c : Nat} {k x : Int} {rest : List (Int × Int)} {dels : List Int}
    (hr : s.ref = some i) (hsel : inp.sel = none ∨ inp.sel = s.ref) (hf : f < nF) (ht : i * nF + f < s.nT)
    (hd : inp.ticks (i * nF + f) = some { sets := (k, x) :: rest, dels := dels })
    (hc : c < nCons) (hcl : c * nF + f < s.nC) :
    ∃ sv v, (c, sv) ∈ (cycleS nF nCons s inp).2 ∧ sv.fields[f]? = some v ∧ v.valid = true ∧ v.modified = true ∧
      v.items = [(0, x)] := by
  have fm := cycleMidS_frame nF s inp
  have f0 := afterTicks_frame s inp
  have hm : cycleMidS nF s inp = afterTicks s inp := by
    rw [cycleMidS_eq]
    rcases hsel with e | e
    · rw [e]; rfl
    · rw [e, hr]; simp [selectS, f0.2.2.2.2.1, hr]
  have htg : (cycleMidS nF s inp).targets (i * nF + f) =
      (applyTs (s.targets (i * nF + f)) (s.now + 1) { sets := (k, x) :: rest, dels := dels }).1 := by
    rw [hm, afterTicks_target, if_pos ht]
    unfold tickedTarget; rw [hd, h.shape]; rfl
  have hr' : (cycleS nF nCons s inp).1.ref = some i := by
    show (cycleMidS nF s inp).ref = some i
    rw [hm, f0.2.2.2.2.1, hr]
  have hl' : ((cycleS nF nCons s inp).1.targets (i * nF + f)).lmt = (cycleS nF nCons s inp).1.now := by
    show ((cycleMidS nF s inp).targets (i * nF + f)).lmt = (cycleMidS nF s inp).now
    rw [htg, fm.2.2.2]; simp [applyTs]
  obtain ⟨sv, v, o1, o2, o3, o4, o5⟩ := field_tick_evaluates h inp hr' hf hl' hc hcl
  refine ⟨sv, v, o1, o2, o3, o4, ?_⟩
  rw [o5]
  show ((cycleMidS nF s inp).targets (i * nF + f)).items = [(0, x)]
  rw [htg]; simp [applyTs]

/-! ## a selection tree above a structured dereference -/

/-- invariant of the composed system: consistent tree, root designation = REF value below it, `SInv` -/
structure CInvS (nF : Nat) (x : CSys) : Prop where
  chain : ChainInv x.chain
  ref : x.s.ref = x.chain.out
  flat : SInv nF x.s

inductive CSReach (nF nCons nTg : Nat) (checked : Nat → Bool) (st rs : List Nat) (c0 : Chain) : CSys → Prop
  | init : CSReach nF nCons nTg checked st rs c0 { chain := c0, s := initS nF nCons nTg checked st rs }
  | step {x : CSys} (inp : CIn) : CSReach nF nCons nTg checked st rs c0 x →
      CSReach nF nCons nTg checked st rs c0 (cycleCS nF nCons x inp).1

theorem cycleS_ref (nF nCons : Nat) (s : State) (inp : CycleIn) :
    (cycleS nF nCons s inp).1.ref = match inp.sel with
      | some i => some i
      | none => s.ref := by
  have f := afterTicks_frame s inp
  show (cycleMidS nF s inp).ref = _
  rw [cycleMidS_eq]
  rcases selectS_cases nF (afterTicks s inp) inp.sel with ⟨e, hs⟩ | ⟨i, hsel, _, e⟩
  · rw [e, f.2.2.2.2.1]
    rcases hs with hs | hs
    · rw [hs]
    · rw [hs, f.2.2.2.2.1]
      cases s.ref <;> rfl
  · rw [e, hsel]
    have g := retargetMap_frame (fieldOf nF i) (List.range (afterTicks s inp).nC)
      { afterTicks s inp with ref := some i, refLmt := (afterTicks s inp).now,
                               sched := (afterTicks s inp).sched ++ (afterTicks s inp).resample }
    rw [g.2.2.2.2.1]

/-- re-publishing the current reference is the same cycle as publishing nothing -/
theorem cycleS_sel_ref (nF nCons : Nat) (s : State) (ticks : Nat → Option Delta) :
    cycleS nF nCons s { sel := s.ref, ticks := ticks } = cycleS nF nCons s { sel := none, ticks := ticks } := by
  have hm : cycleMidS nF s { sel := s.ref, ticks := ticks } = cycleMidS nF s { sel := none, ticks := ticks } := by
    rw [cycleMidS_eq, cycleMidS_eq]
    show selectS nF (afterTicks s { sel := s.ref, ticks := ticks }) s.ref =
      selectS nF (afterTicks s { sel := none, ticks := ticks }) none
    have ha : afterTicks s { sel := s.ref, ticks := ticks } = afterTicks s { sel := none, ticks := ticks } := rfl
    rw [← ha]
    cases hr : s.ref with
    | none => rfl
    | some i =>
      have f := afterTicks_frame s { sel := some i, ticks := ticks }
      simp [selectS, f.2.2.2.2.1, hr]
  simp only [cycleS, hm]

theorem cycleCS_eq {nF : Nat} {x : CSys} (h : CInvS nF x) (nCons : Nat) (inp : CIn) :
    cycleS nF nCons x.s { sel := rootSel (stepChain inp.conds x.chain), ticks := inp.ticks } =
    cycleS nF nCons x.s { sel := (stepChain inp.conds x.chain).1.out, ticks := inp.ticks } := by
  obtain ⟨_, h2, _⟩ := chain_out_spec inp.conds x.chain h.chain
  unfold rootSel
  cases ht : (stepChain inp.conds x.chain).2
  · have : (stepChain inp.conds x.chain).1.out = x.chain.out := unchanged_of_flag h2 ht
    rw [this, ← h.ref, cycleS_sel_ref]
    rfl
  · rfl

theorem cinvS_cycleCS {nF : Nat} {x : CSys} (h : CInvS nF x) (nCons : Nat) (inp : CIn) :
    CInvS nF (cycleCS nF nCons x inp).1 := by
  obtain ⟨_, h2, h3⟩ := chain_out_spec inp.conds x.chain h.chain
  refine ⟨h3, ?_, sinv_cycleS h.flat nCons _⟩
  show (cycleS nF nCons x.s { sel := rootSel (stepChain inp.conds x.chain), ticks := inp.ticks }).1.ref =
    (stepChain inp.conds x.chain).1.out
  rw [cycleS_ref]
  unfold rootSel
  cases ht : (stepChain inp.conds x.chain).2
  · have : (stepChain inp.conds x.chain).1.out = x.chain.out := unchanged_of_flag h2 ht
    simp [this, h.ref]
  · simp only [if_true]
    obtain ⟨r, hr⟩ := stepChain_tick_some inp.conds x.chain ht
    rw [hr]

/-- **chain_struct_inv**: the invariant holds in every reachable state of a selection tree above a structured
dereference. -/
theorem chain_struct_inv {nF nCons nTg : Nat} {checked : Nat → Bool} {st rs : List Nat} {c0 : Chain}
    (hf : c0.Fresh) (h0 : c0.out = none) {x : CSys} (h : CSReach nF nCons nTg checked st rs c0 x) : CInvS nF x := by
  induction h with
  | init => exact ⟨chainInv_fresh hf, by simp [initS, init, h0], sinv_init ..⟩
  | step inp _ ih => exact cinvS_cycleCS ih nCons inp

/-- **chain_struct_equals_resolved**: a cycle of a selection tree above a structured dereference is the cycle
of ONE structured reference whose selector input is what the root designates after the cycle (the target
reached by following the selections, when they resolve) - same next state, same evaluations, same views; so
the per-field theorems above hold below every selection tree. -/
theorem chain_struct_equals_resolved {nF : Nat} {x : CSys} (h : CInvS nF x) (nCons : Nat) (inp : CIn) :
    (cycleCS nF nCons x inp).2 =
      (cycleS nF nCons x.s { sel := (cycleCS nF nCons x inp).1.chain.out, ticks := inp.ticks }).2 ∧
    (cycleCS nF nCons x inp).1.s =
      (cycleS nF nCons x.s { sel := (cycleCS nF nCons x inp).1.chain.out, ticks := inp.ticks }).1 ∧
    ∀ t, resolve (cycleCS nF nCons x inp).1.chain = some t →
      (cycleCS nF nCons x inp).2 = (cycleS nF nCons x.s { sel := some t, ticks := inp.ticks }).2 ∧
      (cycleCS nF nCons x inp).1.s = (cycleS nF nCons x.s { sel := some t, ticks := inp.ticks }).1 := by
  have e := cycleCS_eq h nCons inp
  have e1 : (cycleCS nF nCons x inp).2 =
      (cycleS nF nCons x.s { sel := (cycleCS nF nCons x inp).1.chain.out, ticks := inp.ticks }).2 := congrArg Prod.snd e
  have e2 : (cycleCS nF nCons x inp).1.s =
      (cycleS nF nCons x.s { sel := (cycleCS nF nCons x inp).1.chain.out, ticks := inp.ticks }).1 := congrArg Prod.fst e
  refine ⟨e1, e2, fun t ht => ?_⟩
  have ho := chain_out_resolved (cinvS_cycleCS h nCons inp).chain ht
  rw [ho] at e1 e2
  exact ⟨e1, e2⟩

/-! ## non-vacuity: the scenario of the seeded defect s59 -/

/-- a delta for one field only -/
def onlyF (t : Nat) (x : Int) : Nat → Option Delta := fun u => if u = t then some { sets := [(0, x)] } else none

/-- two targets of two fields (`a.x = 0`, `a.y = 1`, `b.x = 2`, `b.y = 3`), one consumer.
cycle 1: `sel=a a.x=1 a.y=2`;  cycle 2: `sel=b b.x=3` - `b.y` has NEVER ticked when `b` is selected -/
def histS : List CycleIn :=
  [ { sel := some 0, ticks := fun u => if u = 0 then some { sets := [(0, 1)] } else if u = 1 then some { sets := [(0, 2)] } else none },
    { sel := some 1, ticks := onlyF 2 3 } ]

def runS (nF nCons : Nat) (s : State) : List CycleIn → State
  | [] => s
  | i :: is => runS nF nCons (cycleS nF nCons s i).1 is

theorem reach_runS {nF nCons nTg : Nat} {checked : Nat → Bool} {st rs : List Nat} {s : State}
    (h : SReach nF nCons nTg checked st rs s) (is : List CycleIn) :
    SReach nF nCons nTg checked st rs (runS nF nCons s is) := by
  induction is generalizing s with
  | nil => exact h
  | cons i is ih => exact ih (SReach.step i h)

def stS : State := runS 2 1 (initS 2 1 2 (fun _ => true) [] []) histS

theorem stS_reach : SReach 2 1 2 (fun _ => true) [] [] stS := reach_runS SReach.init _

/-- after the retarget to `b` the link of field `y` is bound to `b.y` (flat target 3) although `b.y` is not valid,
and the consumer is no longer subscribed to `a.y` (flat target 1) -/
example : stS.ref = some 1 ∧ (stS.targets 3).valid = false ∧ (stS.links 1).bound = some 3 ∧
    (stS.targets 1).subs = [] ∧ (stS.targets 3).subs = [1] := by decide

/-- the hypotheses of `unselected_field_ticks_silent` are met by a tick of `a.y` - the field of the DESELECTED
target whose counterpart on the selected target never ticked: nobody is evaluated -/
example : stS.sched = [] ∧ (∀ i f, stS.ref = some i → f < 2 → onlyF 1 6 (i * 2 + f) = none) ∧
    onlyF 1 6 1 ≠ none ∧ (cycleS 2 1 stS { ticks := onlyF 1 6 }).2 = [] := by
  refine ⟨by decide, ?_, by decide, by decide⟩
  intro i f hr hf
  have h1 : stS.ref = some 1 := by decide
  rw [h1] at hr; cases hr
  match f, hf with
  | 0, _ => decide
  | 1, _ => decide

/-- the hypotheses of `first_field_tick_reaches_consumer` are met by the FIRST tick of `b.y`, invalid since the
start: the consumer is evaluated and reads `x = 3, y = 7`, `y` modified -/
example : stS.ref = some 1 ∧ (stS.targets (1 * 2 + 1)).valid = false ∧ 1 * 2 + 1 < stS.nT ∧ 0 * 2 + 1 < stS.nC ∧
    (cycleS 2 1 stS { ticks := onlyF 3 7 }).2.map (·.1) = [0] ∧
    (viewS 2 (cycleMidS 2 stS { ticks := onlyF 3 7 }) 0).fields.map (·.valid) = [true, true] ∧
    (viewS 2 (cycleMidS 2 stS { ticks := onlyF 3 7 }) 0).fields.map (·.modified) = [false, true] ∧
    (viewS 2 (cycleMidS 2 stS { ticks := onlyF 3 7 }) 0).fields.map (·.items) = [[(0, 3)], [(0, 7)]] :=
  ⟨by decide, by decide, by decide, by decide, by decide, by decide, by decide, by decide⟩

end HgVerif.RefLink
