import HgVerif.Model.Tracking
/-!
# C04 — modified / valid / last-modified-time tell the truth

About `Model/Tracking.lean`, for every tree of positions, every position and every write history
with non-decreasing cycle times:

* `Inv`                 : `lmt child ≤ lmt parent` on every edge and `lmt ≤ now` everywhere.
* `write_spec`          : a write to `p` at `t ≥ now` keeps `Inv` (with `now := t`), makes exactly `p`
                          and its ancestors read `lmt = t` (modified), and leaves every other position
                          untouched — a parent is modified whenever one of its children is, and a
                          position that is neither written nor above a written one is not.
* `write_coalesces`     : a second write to the same position in the same cycle changes nothing
                          (recorded once, observers notified once).
* `write_monotone`      : writes never decrease a last-modified-time.
* `invalidate_leaf_spec`: invalidation makes the position read not-valid and not-modified while its
                          ancestors read modified in that cycle; other positions are untouched; `Inv` kept.
* `child_modified_parent_modified`, `modified_implies_valid`.

The general `invalidate` of `base_view.cpp` (containers; `Model/Tracking.lean invalidateF`: children first, each
through its own mutation view, then `observers.notify`, `parent.notify_child_modified`, and only then the reset
of the own time), for EVERY finite tree given by `parent` + a consistent children function (`KTree`):

* `invalidateF_spec`    : from any state with ordered edges bounded by `t`, the recursion as coded ends with the whole
                          subtree at `MIN_DT`, every proper ancestor at `t`, everything else untouched, edges ordered.
* `invalidate_spec`     : after `invalidate p` at `t ≥ now` on a valid `p`: `p` and ALL its descendants read not-valid
                          and not-modified (`lmt = MIN_DT`), every proper ancestor reads modified at `t` and valid,
                          every other position is untouched, `Inv` is kept (with `now := t`).
* `invalidate_invalid_id`, `invalidate_twice` : invalidating an invalid position is the identity.
* `invalidate_leaf_eq`  : on a childless position it is `invalidateLeaf`.
* `apply_spec`, `run_inv`, `run_spec_refines` : for every history of writes and invalidations with positive,
                          non-decreasing times, `Inv` holds after every prefix and every step acts exactly as the flat
                          reading `SpecStep` (which is the reference of the trace monitor in `tools/props/c04.py`).

The consumer side.  A bound input is NOT a pure projection of the producer's records: at the root of its target
link `ts_input/base_view.cpp` blends the link's own tracking record, which `target_link.cpp` stamps on every
notification of the target root's observers — including the notification sent by `invalidate()` itself.

* `linkBind_inv`, `link_step_inv`, `link_inv_run` : through every history, `link ≤ now` and `link = lmt root`
                          whenever the root is valid.
* `consumer_eq_producer_below_root` : below the root an input view is the producer's record (by definition of the
                          model — the correspondence is what checks it on the code).
* `consumer_eq_producer_valid_root` : at the root the blended view agrees whenever the target is valid.
* `consumer_differs_after_root_invalidate` : after an effective invalidation of the whole target at `t` the producer
                          reads `lmt = MIN_DT`, not modified, while the input reads `lmt = t`, modified at `t` — the
                          candidate finding `[C04-consumer]`, modelled as the code behaves, not hidden.

The correspondence for all of this is the `track` stream (`harness/drv_track.cpp`, `Drivers/C04.lean`): real
`TSOutput` + bound `TSInput` objects of TS / TSB / fixed TSL nestings, every position dumped through every view.
The probe nodes of the `engine-probe` stream (`P` lines: value / modified / valid / last-modified-time every cycle
through a passive input) keep checking scalar endpoints inside running graphs.
-/
namespace HgVerif.Tracking

def Inv (T : Tree) (now : Nat) (L : Lmt) : Prop :=
  (∀ c q, T.parent c = some q → L c ≤ L q) ∧ (∀ x, L x ≤ now)

theorem anc_le {T : Tree} {x p : Nat} (h : Anc T x p) : x ≤ p := by
  induction h with
  | refl => exact Nat.le_refl _
  | step hp _ ih => exact Nat.le_trans ih (Nat.le_of_lt (T.wf _ _ hp))

theorem anc_cases {T : Tree} {x p : Nat} (h : Anc T x p) : x = p ∨ ∃ q, T.parent p = some q ∧ Anc T x q := by
  cases h with
  | refl => exact Or.inl rfl
  | step hp ha => exact Or.inr ⟨_, hp, ha⟩

/-- above a position that already carries `t`, everything carries `t` (edges ordered, bounded by `t`) -/
theorem anc_eq_of_top {T : Tree} {L : Lmt} {t : Nat} (hb : ∀ x, L x ≤ t)
    (hup : ∀ c q, T.parent c = some q → L c ≤ L q) {x p : Nat} (h : Anc T x p) (hp : L p = t) : L x = t := by
  induction h with
  | refl => exact hp
  | @step p q hpq _ ih =>
    apply ih
    have h1 := hup p q hpq
    have h2 := hb q
    omega

/-- the upward walk of `record_modified`: edges INTO the current position `p` may still be open
    (children that already carry `t`) -/
theorem markUp_spec (T : Tree) (t : Nat) (fuel p : Nat) (L : Lmt) (hf : p < fuel)
    (hb : ∀ x, L x ≤ t)
    (he : ∀ c q, T.parent c = some q → L c ≤ L q ∨ (q = p ∧ L c = t)) :
    (∀ c q, T.parent c = some q → markUp T fuel p t L c ≤ markUp T fuel p t L q) ∧
    (∀ x, markUp T fuel p t L x ≤ t) ∧
    (∀ x, Anc T x p → markUp T fuel p t L x = t) ∧
    (∀ x, ¬ Anc T x p → markUp T fuel p t L x = L x) := by
  induction fuel generalizing p L with
  | zero => omega
  | succ fuel ih =>
    unfold markUp
    split
    · -- coalesced / stale: `L p = t` already
      rename_i hle
      have hpt : L p = t := by have := hb p; omega
      have hfull : ∀ c q, T.parent c = some q → L c ≤ L q := by
        intro c q hc
        rcases he c q hc with h | ⟨hq, hct⟩
        · exact h
        · subst hq; omega
      refine ⟨hfull, hb, ?_, fun _ _ => rfl⟩
      intro x hx
      exact anc_eq_of_top hb hfull hx hpt
    · rename_i hlt
      have hlt' : L p < t := by omega
      cases hpar : T.parent p with
      | none =>
        simp only
        refine ⟨?_, ?_, ?_, ?_⟩
        · intro c q hc
          by_cases hcp : c = p
          · subst hcp; rw [hpar] at hc; cases hc
          · rw [upd_other_ne L p t c hcp]
            by_cases hqp : q = p
            · subst hqp; rw [upd_same_eq]; exact hb c
            · rw [upd_other_ne L p t q hqp]
              rcases he c q hc with h | ⟨hq, _⟩
              · exact h
              · exact absurd hq hqp
        · intro x; by_cases hx : x = p
          · subst hx; rw [upd_same_eq]; exact Nat.le_refl _
          · rw [upd_other_ne L p t x hx]; exact hb x
        · intro x hx
          rcases anc_cases hx with rfl | ⟨q, hq, _⟩
          · exact upd_same_eq L x t
          · rw [hpar] at hq; cases hq
        · intro x hx
          have : x ≠ p := fun e => hx (by rw [e]; exact Anc.refl p)
          exact upd_other_ne L p t x this
      | some q =>
        simp only
        have hqp : q < p := T.wf p q hpar
        have hb1 : ∀ x, upd L p t x ≤ t := by
          intro x; by_cases hx : x = p
          · subst hx; rw [upd_same_eq]; exact Nat.le_refl _
          · rw [upd_other_ne L p t x hx]; exact hb x
        have he1 : ∀ c q', T.parent c = some q' → upd L p t c ≤ upd L p t q' ∨ (q' = q ∧ upd L p t c = t) := by
          intro c q' hc
          by_cases hcp : c = p
          · subst hcp
            rw [hpar] at hc; injection hc with hc; subst hc
            exact Or.inr ⟨rfl, upd_same_eq L c t⟩
          · rw [upd_other_ne L p t c hcp]
            by_cases hq'p : q' = p
            · subst hq'p; rw [upd_same_eq]; exact Or.inl (hb c)
            · rw [upd_other_ne L p t q' hq'p]
              rcases he c q' hc with h | ⟨hq, _⟩
              · exact Or.inl h
              · exact absurd hq hq'p
        obtain ⟨i1, i2, i3, i4⟩ := ih q (upd L p t) (by omega) hb1 he1
        have hnotanc : ¬ Anc T p q := fun h => by have := anc_le h; omega
        refine ⟨i1, i2, ?_, ?_⟩
        · intro x hx
          rcases anc_cases hx with rfl | ⟨q', hq', ha⟩
          · rw [i4 x hnotanc]; exact upd_same_eq L x t
          · rw [hpar] at hq'; injection hq' with hq'; subst hq'; exact i3 x ha
        · intro x hx
          have hxp : x ≠ p := fun e => hx (by rw [e]; exact Anc.refl p)
          have hxq : ¬ Anc T x q := fun h => hx (Anc.step hpar h)
          rw [i4 x hxq]; exact upd_other_ne L p t x hxp
where
  upd_same_eq (L : Lmt) (p t : Nat) : upd L p t p = t := by simp [upd]
  upd_other_ne (L : Lmt) (p t x : Nat) (h : x ≠ p) : upd L p t x = L x := by simp [upd, h]

/-- **a write tells the truth**: `Inv` is kept, exactly `p` and its ancestors become modified at `t`,
    nothing else changes -/
theorem write_spec (T : Tree) (now t p : Nat) (L : Lmt) (h : Inv T now L) (ht : now ≤ t) :
    Inv T t (write T p t L) ∧
    (∀ x, Anc T x p → modified (write T p t L) x t) ∧
    (∀ x, ¬ Anc T x p → write T p t L x = L x) := by
  have := markUp_spec T t (p + 1) p L (Nat.lt_succ_self p)
    (fun x => Nat.le_trans (h.2 x) ht) (fun c q hc => Or.inl (h.1 c q hc))
  exact ⟨⟨this.1, this.2.1⟩, this.2.2.1, this.2.2.2⟩

/-- a repeated write in the same cycle is coalesced -/
theorem write_coalesces (T : Tree) (t p : Nat) (L : Lmt) (h : L p = t) : write T p t L = L := by
  unfold write markUp; simp [h]

/-- writes never move a last-modified-time backwards -/
theorem write_monotone (T : Tree) (now t p : Nat) (L : Lmt) (h : Inv T now L) (ht : now ≤ t) (x : Nat) :
    L x ≤ write T p t L x := by
  obtain ⟨_, h2, h3⟩ := write_spec T now t p L h ht
  by_cases hx : Anc T x p
  · rw [h2 x hx]; exact Nat.le_trans (h.2 x) ht
  · rw [h3 x hx]; exact Nat.le_refl _

theorem child_modified_parent_modified {T : Tree} {now : Nat} {L : Lmt} (h : Inv T now L) {c q : Nat}
    (hc : T.parent c = some q) (hm : modified L c now) : modified L q now := by
  unfold modified at *; have := h.1 c q hc; have := h.2 q; omega

theorem modified_implies_valid {L : Lmt} {p t : Nat} (ht : 0 < t) (hm : modified L p t) : valid L p := by
  unfold modified valid at *; omega

/-- invalidation of a leaf: it reads invalid and unmodified, its ancestors read modified, the rest is
    untouched, `Inv` is kept -/
theorem invalidate_leaf_spec (T : Tree) (now t p : Nat) (L : Lmt) (h : Inv T now L) (ht : now ≤ t) (h0 : 0 < t)
    (hleaf : ∀ c, T.parent c ≠ some p) (hv : valid L p) :
    let L' := invalidateLeaf T p t L
    Inv T t L' ∧ ¬ valid L' p ∧ ¬ modified L' p t ∧
    (∀ x, x ≠ p → Anc T x p → modified L' x t) ∧ (∀ x, ¬ Anc T x p → L' x = L x) := by
  intro L'
  have hL' : L' = upd (match T.parent p with
      | none => L
      | some q => markUp T (q + 1) q t L) p 0 := by
    show invalidateLeaf T p t L = _
    unfold invalidateLeaf; unfold valid at hv; rw [if_neg hv]; rfl
  cases hpar : T.parent p with
  | none =>
    rw [hpar] at hL'
    simp only at hL'
    rw [hL']
    refine ⟨⟨?_, ?_⟩, ?_, ?_, ?_, ?_⟩
    · intro c q hc
      by_cases hcp : c = p
      · subst hcp; rw [hpar] at hc; cases hc
      · by_cases hqp : q = p
        · subst hqp; exact absurd hc (hleaf c)
        · simp [upd, hcp, hqp]; exact h.1 c q hc
    · intro x; by_cases hx : x = p
      · simp [upd, hx]
      · simp [upd, hx]; exact Nat.le_trans (h.2 x) ht
    · simp [valid, upd]
    · simp [modified, upd]; omega
    · intro x hxp hx
      rcases anc_cases hx with rfl | ⟨q, hq, _⟩
      · exact absurd rfl hxp
      · rw [hpar] at hq; cases hq
    · intro x hx
      have : x ≠ p := fun e => hx (by rw [e]; exact Anc.refl p)
      simp [upd, this]
  | some q =>
    rw [hpar] at hL'
    simp only at hL'
    rw [hL']
    obtain ⟨m1, m2, m3, m4⟩ := markUp_spec T t (q + 1) q L (Nat.lt_succ_self q)
      (fun x => Nat.le_trans (h.2 x) ht) (fun c q' hc => Or.inl (h.1 c q' hc))
    have hqp : q < p := T.wf p q hpar
    have hnot : ¬ Anc T p q := fun hh => by have := anc_le hh; omega
    refine ⟨⟨?_, ?_⟩, ?_, ?_, ?_, ?_⟩
    · intro c q' hc
      by_cases hcp : c = p
      · subst hcp; simp [upd]
      · by_cases hq'p : q' = p
        · subst hq'p; exact absurd hc (hleaf c)
        · simp [upd, hcp, hq'p]; exact m1 c q' hc
    · intro x; by_cases hx : x = p
      · simp [upd, hx]
      · simp [upd, hx]; exact m2 x
    · simp [valid, upd]
    · simp [modified, upd]; omega
    · intro x hxp hx
      rcases anc_cases hx with rfl | ⟨q', hq', ha⟩
      · exact absurd rfl hxp
      · rw [hpar] at hq'; injection hq' with hq'; subst hq'
        simp [modified, upd, hxp]; exact m3 x ha
    · intro x hx
      have hxp : x ≠ p := fun e => hx (by rw [e]; exact Anc.refl p)
      have hxq : ¬ Anc T x q := fun hh => hx (Anc.step hpar hh)
      simp [upd, hxp]; exact m4 x hxq

/-! ## observers are notified once: exactly the positions that BECOME modified by the write -/

theorem markUpN_spec (T : Tree) (t : Nat) (fuel p : Nat) (L : Lmt) (hf : p < fuel)
    (hb : ∀ x, L x ≤ t)
    (he : ∀ c q, T.parent c = some q → L c ≤ L q ∨ (q = p ∧ L c = t)) :
    (∀ x, x ∈ markUpN T fuel p t L ↔ Anc T x p ∧ L x < t) ∧
    (markUpN T fuel p t L).Pairwise (fun a b => b < a) := by
  induction fuel generalizing p L with
  | zero => omega
  | succ fuel ih =>
    unfold markUpN
    split
    · rename_i hle
      have hpt : L p = t := by have := hb p; omega
      have hfull : ∀ c q, T.parent c = some q → L c ≤ L q := by
        intro c q hc
        rcases he c q hc with h | ⟨hq, hct⟩
        · exact h
        · subst hq; omega
      refine ⟨fun x => ⟨fun h => absurd h List.not_mem_nil, fun ⟨ha, hlt⟩ => ?_⟩, List.Pairwise.nil⟩
      have := anc_eq_of_top hb hfull ha hpt
      omega
    · rename_i hlt
      have hlt' : L p < t := by omega
      cases hpar : T.parent p with
      | none =>
        simp only
        refine ⟨fun x => ⟨fun h => ?_, fun ⟨ha, _⟩ => ?_⟩, List.pairwise_singleton _ _⟩
        · have hx : x = p := by simpa using h
          subst hx; exact ⟨Anc.refl x, hlt'⟩
        · rcases anc_cases ha with rfl | ⟨q, hq, _⟩
          · simp
          · rw [hpar] at hq; cases hq
      | some q =>
        simp only
        have hqp : q < p := T.wf p q hpar
        have hb1 : ∀ x, upd L p t x ≤ t := by
          intro x; by_cases hx : x = p
          · subst hx; simp [upd]
          · simp [upd, hx]; exact hb x
        have he1 : ∀ c q', T.parent c = some q' → upd L p t c ≤ upd L p t q' ∨ (q' = q ∧ upd L p t c = t) := by
          intro c q' hc
          by_cases hcp : c = p
          · subst hcp
            rw [hpar] at hc; injection hc with hc; subst hc
            exact Or.inr ⟨rfl, by simp [upd]⟩
          · by_cases hq'p : q' = p
            · subst hq'p; left; simp [upd, hcp]; exact hb c
            · simp only [upd, hcp, hq'p, if_false]
              rcases he c q' hc with h | ⟨hq, _⟩
              · exact Or.inl h
              · exact absurd hq hq'p
        obtain ⟨m, pw⟩ := ih q (upd L p t) (by omega) hb1 he1
        refine ⟨fun x => ⟨fun h => ?_, fun ⟨ha, hl⟩ => ?_⟩, ?_⟩
        · rcases List.mem_cons.mp h with rfl | hr
          · exact ⟨Anc.refl x, hlt'⟩
          · obtain ⟨ha, hl⟩ := (m x).mp hr
            have hxq : x ≤ q := anc_le ha
            have hxp : x ≠ p := by omega
            simp only [upd, hxp, if_false] at hl
            exact ⟨Anc.step hpar ha, hl⟩
        · rcases anc_cases ha with rfl | ⟨q', hq', haq⟩
          · exact List.mem_cons_self
          · rw [hpar] at hq'; injection hq' with hq'; subst hq'
            have hxq : x ≤ q := anc_le haq
            have hxp : x ≠ p := by omega
            apply List.mem_cons_of_mem
            apply (m x).mpr
            refine ⟨haq, ?_⟩
            simp only [upd, hxp, if_false]; exact hl
        · refine List.pairwise_cons.mpr ⟨fun y hy => ?_, pw⟩
          have := anc_le ((m y).mp hy).1
          omega

/-- **observers are notified once**: a write at `t ≥ now` notifies, once each, exactly the positions among the
    written one and its ancestors that were not yet modified at `t` — so a second write in the same cycle (to the
    same leaf or to a sibling) does not notify an already modified parent again -/
theorem write_notifies_once (T : Tree) (now t p : Nat) (L : Lmt) (h : Inv T now L) (ht : now ≤ t) :
    (writeN T p t L).Nodup ∧ (∀ x, x ∈ writeN T p t L ↔ Anc T x p ∧ ¬ modified L x t) := by
  obtain ⟨m, pw⟩ := markUpN_spec T t (p + 1) p L (Nat.lt_succ_self p)
    (fun x => Nat.le_trans (h.2 x) ht) (fun c q hc => Or.inl (h.1 c q hc))
  refine ⟨?_, fun x => ?_⟩
  · exact pw.imp (fun hab => by omega)
  · have hx := Nat.le_trans (h.2 x) ht
    unfold modified
    rw [show writeN T p t L = markUpN T (p + 1) p t L from rfl, m x]
    constructor
    · exact fun ⟨ha, hl⟩ => ⟨ha, by omega⟩
    · exact fun ⟨ha, hl⟩ => ⟨ha, by omega⟩

/-! ## the general `invalidate` (containers), for every finite tree -/

def Edges (T : Tree) (L : Lmt) : Prop := ∀ c q, T.parent c = some q → L c ≤ L q

theorem upd_same (L : Lmt) (p t : Nat) : upd L p t p = t := by simp [upd]
theorem upd_other (L : Lmt) (p t x : Nat) (h : x ≠ p) : upd L p t x = L x := by simp [upd, h]

theorem anc_trans {T : Tree} {a b c : Nat} (h1 : Anc T a b) (h2 : Anc T b c) : Anc T a c := by
  induction h2 with
  | refl => exact h1
  | step hp _ ih => exact Anc.step hp ih

/-- looking down: a position below `p` is `p` or lies below one of `p`'s children -/
theorem anc_down {T : Tree} {p x : Nat} (h : Anc T p x) : x = p ∨ ∃ c, T.parent c = some p ∧ Anc T c x := by
  induction h with
  | refl => exact Or.inl rfl
  | @step x' q hp _ ih =>
    rcases ih with rfl | ⟨c, hc, hcq⟩
    · exact Or.inr ⟨x', hp, Anc.refl x'⟩
    · exact Or.inr ⟨c, hc, Anc.step hp hcq⟩

/-- below an invalid position everything is invalid (edges ordered) -/
theorem desc_zero {T : Tree} {L : Lmt} (he : Edges T L) {p x : Nat} (h : Anc T p x) (hp : L p = 0) : L x = 0 := by
  induction h with
  | refl => exact hp
  | @step x' q hpar _ ih => have := he x' q hpar; omega

/-- **`invalidate` as coded refines "subtree := MIN_DT, proper ancestors := t"**, for every fuel above the
    height, from any state with ordered edges bounded by `t` (the state in the middle of an enclosing cascade
    is such a state).  On an invalid position it is the identity. -/
theorem invalidateF_spec (K : KTree) (t : Nat) :
    ∀ (fuel p : Nat) (L : Lmt), K.height p < fuel → (∀ x, L x ≤ t) → Edges K.toTree L →
      Edges K.toTree (invalidateF K t fuel p L) ∧
      (∀ x, invalidateF K t fuel p L x ≤ t) ∧
      (∀ x, Anc K.toTree p x → invalidateF K t fuel p L x = 0) ∧
      (∀ x, x ≠ p → Anc K.toTree x p → invalidateF K t fuel p L x = if L p = 0 then L x else t) ∧
      (∀ x, ¬ Anc K.toTree p x → ¬ Anc K.toTree x p → invalidateF K t fuel p L x = L x) := by
  intro fuel
  induction fuel with
  | zero => intro p L hf; omega
  | succ fuel ih =>
    intro p L hf hb he
    by_cases h0 : L p = 0
    · have hid : invalidateF K t (fuel + 1) p L = L := by simp [invalidateF, h0]
      rw [hid]
      exact ⟨he, hb, fun x hx => desc_zero he hx h0, fun x _ _ => by simp [h0], fun _ _ _ => rfl⟩
    · -- the cascade over the children, left to right
      have fold : ∀ (cs : List Nat) (M : Lmt), (∀ c, c ∈ cs → K.parent c = some p) → (∀ x, M x ≤ t) →
          Edges K.toTree M →
          Edges K.toTree (cs.foldl (fun acc c => invalidateF K t fuel c acc) M) ∧
          (∀ x, cs.foldl (fun acc c => invalidateF K t fuel c acc) M x ≤ t) ∧
          (∀ c, c ∈ cs → ∀ x, Anc K.toTree c x → cs.foldl (fun acc c => invalidateF K t fuel c acc) M x = 0) ∧
          (∀ x, (∀ c, c ∈ cs → ¬ Anc K.toTree c x) → ¬ Anc K.toTree x p →
            cs.foldl (fun acc c => invalidateF K t fuel c acc) M x = M x) := by
        intro cs
        induction cs with
        | nil =>
          intro M _ hbM heM
          exact ⟨heM, hbM, fun c hc => absurd hc List.not_mem_nil, fun _ _ _ => rfl⟩
        | cons c cs ihc =>
          intro M hcs hbM heM
          have hc : K.parent c = some p := hcs c List.mem_cons_self
          have hpc : p < c := K.wf c p hc
          have hh : K.height c < fuel := by have := K.height_lt p c hc; omega
          obtain ⟨e1, b1, z1, _, f1⟩ := ih c M hh hbM heM
          obtain ⟨e2, b2, z2, f2⟩ := ihc (invalidateF K t fuel c M)
            (fun c' h => hcs c' (List.mem_cons_of_mem _ h)) b1 e1
          simp only [List.foldl_cons]
          refine ⟨e2, b2, ?_, ?_⟩
          · intro c' hc' x hx
            rcases List.mem_cons.mp hc' with rfl | hmem
            · by_cases hex : ∃ c'', c'' ∈ cs ∧ Anc K.toTree c'' x
              · obtain ⟨c'', hm, ha⟩ := hex
                exact z2 c'' hm x ha
              · have hno : ∀ c'', c'' ∈ cs → ¬ Anc K.toTree c'' x := fun c'' hm ha => hex ⟨c'', hm, ha⟩
                have hxp : ¬ Anc K.toTree x p := fun hh => by
                  have := anc_le hh; have := anc_le hx; omega
                rw [f2 x hno hxp]; exact z1 x hx
            · exact z2 c' hmem x hx
          · intro x hnot hxp
            rw [f2 x (fun c' h => hnot c' (List.mem_cons_of_mem _ h)) hxp]
            apply f1 x (hnot c List.mem_cons_self)
            intro hxc
            rcases anc_cases hxc with rfl | ⟨q, hq, hxq⟩
            · exact hnot x List.mem_cons_self (Anc.refl x)
            · rw [hc] at hq; injection hq with hq; subst hq; exact hxp hxq
      obtain ⟨e1, b1, z1, f1⟩ := fold (K.kids p) L (fun c h => (K.kids_iff p c).mp h) hb he
      -- `observers.notify`, `parent.notify_child_modified(t)`: everything strictly above `p` carries `t`
      have key : ∃ L2 : Lmt, invalidateF K t (fuel + 1) p L = upd L2 p 0 ∧ Edges K.toTree L2 ∧ (∀ x, L2 x ≤ t) ∧
          (∀ x, x ≠ p → Anc K.toTree x p → L2 x = t) ∧
          (∀ x, ¬ (x ≠ p ∧ Anc K.toTree x p) →
            L2 x = (K.kids p).foldl (fun acc c => invalidateF K t fuel c acc) L x) := by
        cases hpar : K.parent p with
        | none =>
          refine ⟨(K.kids p).foldl (fun acc c => invalidateF K t fuel c acc) L, ?_, e1, b1, ?_, fun _ _ => rfl⟩
          · simp [invalidateF, h0, hpar]
          · intro x hxp hx
            rcases anc_cases hx with rfl | ⟨q, hq, _⟩
            · exact absurd rfl hxp
            · rw [hpar] at hq; cases hq
        | some q =>
          obtain ⟨m1, m2, m3, m4⟩ := markUp_spec K.toTree t (q + 1) q
            ((K.kids p).foldl (fun acc c => invalidateF K t fuel c acc) L) (Nat.lt_succ_self q) b1
            (fun c q' hc => Or.inl (e1 c q' hc))
          refine ⟨_, ?_, m1, m2, ?_, ?_⟩
          · simp [invalidateF, h0, hpar]
          · intro x hxp hx
            rcases anc_cases hx with rfl | ⟨q', hq', ha⟩
            · exact absurd rfl hxp
            · rw [hpar] at hq'; injection hq' with hq'; subst hq'; exact m3 x ha
          · intro x hx
            apply m4 x
            intro hxq
            have hxlt : x ≤ q := anc_le hxq
            have hqp : q < p := K.wf p q hpar
            exact hx ⟨by omega, Anc.step hpar hxq⟩
      obtain ⟨L2, hres, E2, B2, A2, F2⟩ := key
      rw [hres]
      have below : ∀ c, K.parent c = some p → ∀ x, Anc K.toTree c x → x ≠ p ∧ L2 x = 0 := by
        intro c hc x hx
        have hpc : p < c := K.wf c p hc
        have hcx : c ≤ x := anc_le hx
        refine ⟨by omega, ?_⟩
        rw [F2 x (fun h => by have := anc_le h.2; omega)]
        exact z1 c ((K.kids_iff p c).mpr hc) x hx
      refine ⟨?_, ?_, ?_, ?_, ?_⟩
      · intro c q' hc
        by_cases hcp : c = p
        · subst hcp; rw [upd_same]; exact Nat.zero_le _
        · rw [upd_other _ _ _ _ hcp]
          by_cases hqp : q' = p
          · subst hqp
            rw [upd_same, (below c hc c (Anc.refl c)).2]
            exact Nat.le_refl _
          · rw [upd_other _ _ _ _ hqp]; exact E2 c q' hc
      · intro x
        by_cases hx : x = p
        · subst hx; rw [upd_same]; exact Nat.zero_le _
        · rw [upd_other _ _ _ _ hx]; exact B2 x
      · intro x hx
        rcases anc_down hx with rfl | ⟨c, hc, hcx⟩
        · exact upd_same _ _ _
        · obtain ⟨hne, hz⟩ := below c hc x hcx
          rw [upd_other _ _ _ _ hne]; exact hz
      · intro x hxp hx
        rw [upd_other _ _ _ _ hxp, A2 x hxp hx]; simp [h0]
      · intro x hpx hxp
        have hne : x ≠ p := fun e => hpx (by rw [e]; exact Anc.refl p)
        rw [upd_other _ _ _ _ hne, F2 x (fun h => hxp h.2)]
        apply f1 x _ hxp
        intro c hc hcx
        exact hpx (anc_trans (Anc.step ((K.kids_iff p c).mp hc) (Anc.refl p)) hcx)

/-- **invalidation tells the truth**: after `invalidate p` at `t` on a valid position, `p` and ALL its descendants
    read not-valid and not-modified (`lmt = MIN_DT`), every proper ancestor reads modified at `t` (and valid), every
    other position is untouched, and `lmt child ≤ lmt parent ≤ now` is kept -/
theorem invalidate_spec (K : KTree) (now t p : Nat) (L : Lmt) (h : Inv K.toTree now L) (ht : now ≤ t) (h0 : 0 < t)
    (hv : valid L p) :
    Inv K.toTree t (invalidate K p t L) ∧
    (∀ x, Anc K.toTree p x →
      invalidate K p t L x = 0 ∧ ¬ valid (invalidate K p t L) x ∧ ¬ modified (invalidate K p t L) x t) ∧
    (∀ x, x ≠ p → Anc K.toTree x p → modified (invalidate K p t L) x t ∧ valid (invalidate K p t L) x) ∧
    (∀ x, ¬ Anc K.toTree p x → ¬ Anc K.toTree x p → invalidate K p t L x = L x) := by
  obtain ⟨s1, s2, s3, s4, s5⟩ := invalidateF_spec K t (K.height p + 1) p L (Nat.lt_succ_self _)
    (fun x => Nat.le_trans (h.2 x) ht) h.1
  unfold valid at hv
  refine ⟨⟨s1, s2⟩, ?_, ?_, s5⟩
  · intro x hx
    have hz : invalidate K p t L x = 0 := s3 x hx
    refine ⟨hz, ?_, ?_⟩
    · unfold valid; omega
    · unfold modified; omega
  · intro x hxp hx
    have hz : invalidate K p t L x = t := by
      have := s4 x hxp hx
      rw [if_neg hv] at this
      exact this
    refine ⟨hz, ?_⟩
    unfold valid; omega

/-- invalidating an already invalid position changes nothing (`return false`) -/
theorem invalidate_invalid_id (K : KTree) (p t : Nat) (L : Lmt) (h : ¬ valid L p) : invalidate K p t L = L := by
  unfold valid at h
  have : L p = 0 := by omega
  simp [invalidate, invalidateF, this]

/-- a second invalidation (in the same or any later cycle) is the identity -/
theorem invalidate_twice (K : KTree) (now t t' p : Nat) (L : Lmt) (h : Inv K.toTree now L) (ht : now ≤ t) (h0 : 0 < t) :
    invalidate K p t' (invalidate K p t L) = invalidate K p t L := by
  apply invalidate_invalid_id
  by_cases hv : valid L p
  · exact ((invalidate_spec K now t p L h ht h0 hv).2.1 p (Anc.refl p)).2.1
  · rw [invalidate_invalid_id K p t L hv]; exact hv

/-- on a position without children the general `invalidate` is the leaf case proved above -/
theorem invalidate_leaf_eq (K : KTree) (p t : Nat) (L : Lmt) (hleaf : K.kids p = []) :
    invalidate K p t L = invalidateLeaf K.toTree p t L := by
  unfold invalidate invalidateF invalidateLeaf
  rw [hleaf]
  rfl

/-! ## every history with non-decreasing times -/

/-- times are positive and do not decrease, starting from `now` -/
def Mono : Nat → List Op → Prop
  | _, [] => True
  | now, o :: os => now ≤ o.time ∧ 0 < o.time ∧ Mono o.time os

def endTime : Nat → List Op → Nat
  | now, [] => now
  | _, o :: os => endTime o.time os

/-- the flat reading of one operation (what the trace monitor uses as its reference): a write stamps the written
    position and its ancestors; an effective invalidation clears the subtree and stamps the proper ancestors; an
    invalidation of an invalid position does nothing -/
def SpecStep (T : Tree) (o : Op) (L L' : Lmt) : Prop :=
  match o with
  | .w p t => (∀ x, Anc T x p → L' x = t) ∧ (∀ x, ¬ Anc T x p → L' x = L x)
  | .inv p t =>
    if L p = 0 then L' = L
    else (∀ x, Anc T p x → L' x = 0) ∧ (∀ x, x ≠ p → Anc T x p → L' x = t) ∧
         (∀ x, ¬ Anc T p x → ¬ Anc T x p → L' x = L x)

theorem inv_weaken {T : Tree} {now t : Nat} {L : Lmt} (h : Inv T now L) (ht : now ≤ t) : Inv T t L :=
  ⟨h.1, fun x => Nat.le_trans (h.2 x) ht⟩

/-- one operation of the code refines the flat reading and keeps the invariant -/
theorem apply_spec (K : KTree) (now : Nat) (o : Op) (L : Lmt) (h : Inv K.toTree now L) (ht : now ≤ o.time)
    (h0 : 0 < o.time) : SpecStep K.toTree o L (apply K o L) ∧ Inv K.toTree o.time (apply K o L) := by
  cases o with
  | w p t =>
    obtain ⟨i, a, f⟩ := write_spec K.toTree now t p L h ht
    exact ⟨⟨a, f⟩, i⟩
  | inv p t =>
    simp only [Op.time] at ht h0
    by_cases hv : L p = 0
    · have hid := invalidate_invalid_id K p t L (by unfold valid; omega)
      simp only [SpecStep, apply, hv, if_true, hid]
      exact ⟨trivial, inv_weaken h ht⟩
    · obtain ⟨i, z, a, f⟩ := invalidate_spec K now t p L h ht h0 hv
      simp only [SpecStep, apply, hv, if_false]
      exact ⟨⟨fun x hx => (z x hx).1, fun x hxp hx => (a x hxp hx).1, f⟩, i⟩

/-- `lmt child ≤ lmt parent ≤ now` holds after every history of writes and invalidations (leaf, child, whole
    container, repeated, of invalid positions …) with non-decreasing times, on every finite tree -/
theorem run_inv (K : KTree) : ∀ (ops : List Op) (now : Nat) (L : Lmt), Inv K.toTree now L → Mono now ops →
    Inv K.toTree (endTime now ops) (run K ops L) := by
  intro ops
  induction ops with
  | nil => intro now L h _; exact h
  | cons o os ih =>
    intro now L h hm
    obtain ⟨h1, h2, h3⟩ := hm
    exact ih o.time (apply K o L) (apply_spec K now o L h h1 h2).2 h3

theorem mono_snoc : ∀ (pre : List Op) (now : Nat) (o : Op), Mono now (pre ++ [o]) →
    Mono now pre ∧ endTime now pre ≤ o.time ∧ 0 < o.time := by
  intro pre
  induction pre with
  | nil => intro now o h; exact ⟨trivial, h.1, h.2.1⟩
  | cons a as ih =>
    intro now o h
    obtain ⟨h1, h2, h3⟩ := h
    obtain ⟨i1, i2, i3⟩ := ih a.time o h3
    exact ⟨⟨h1, h2, i1⟩, i2, i3⟩

theorem run_append (K : KTree) (a b : List Op) (L : Lmt) : run K (a ++ b) L = run K b (run K a L) := by
  simp [run, List.foldl_append]

/-- **every step of every history refines the flat reading**: after any prefix `pre` (from the never-written state or
    any state satisfying the invariant), the next operation `o` acts on the model state exactly as `SpecStep` says -/
theorem run_spec_refines (K : KTree) (pre : List Op) (o : Op) (now : Nat) (L : Lmt) (h : Inv K.toTree now L)
    (hm : Mono now (pre ++ [o])) : SpecStep K.toTree o (run K pre L) (run K (pre ++ [o]) L) := by
  obtain ⟨m1, m2, m3⟩ := mono_snoc pre now o hm
  have hi := run_inv K pre now L h m1
  rw [run_append]
  exact (apply_spec K (endTime now pre) o (run K pre L) hi m2 m3).1

/-! ## the consumer side -/

/-- the link record of a bound input never runs ahead of the clock and equals the root's time whenever the
    target is valid -/
def LinkInv (r : Nat) (L : Lmt) (k now : Nat) : Prop := k ≤ now ∧ (L r ≠ 0 → k = L r)

theorem linkRecord_now {k now t : Nat} (hk : k ≤ now) (ht : now ≤ t) : linkRecord k t = t := by
  unfold linkRecord; split <;> omega

theorem anc_root {T : Tree} {r x : Nat} (hr : T.parent r = none) (h : Anc T x r) : x = r := by
  rcases anc_cases h with rfl | ⟨q, hq, _⟩
  · rfl
  · rw [hr] at hq; cases hq

theorem linkBind_inv (T : Tree) (r now : Nat) (L : Lmt) (h : Inv T now L) : LinkInv r L (linkBind r L) now := by
  unfold linkBind LinkInv linkRecord
  have := h.2 r
  by_cases h0 : L r = 0
  · simp [h0]
  · simp only [h0, if_false]
    split <;> (constructor <;> intros <;> omega)

theorem link_step_inv (K : KTree) (r : Nat) (hr : K.parent r = none) (now : Nat) (o : Op) (L : Lmt) (k : Nat)
    (h : Inv K.toTree now L) (hk : LinkInv r L k now) (ht : now ≤ o.time) (h0 : 0 < o.time) :
    LinkInv r (apply K o L) (linkStep r o L (apply K o L) k) o.time := by
  obtain ⟨hs, _⟩ := apply_spec K now o L h ht h0
  obtain ⟨k1, k2⟩ := hk
  cases o with
  | w p t =>
    simp only [Op.time] at ht h0
    simp only [SpecStep] at hs
    simp only [linkStep, Op.time]
    by_cases heq : apply K (.w p t) L r = L r
    · rw [if_pos heq]
      exact ⟨Nat.le_trans k1 ht, fun hne => by rw [heq] at hne ⊢; exact k2 hne⟩
    · rw [if_neg heq, linkRecord_now k1 ht]
      have hanc : Anc K.toTree r p := Classical.byContradiction fun hn => heq (hs.2 r hn)
      exact ⟨Nat.le_refl _, fun _ => (hs.1 r hanc).symm⟩
  | inv p t =>
    simp only [Op.time] at ht h0
    simp only [linkStep, Op.time]
    by_cases hv : L p = 0
    · have hid : apply K (.inv p t) L = L := invalidate_invalid_id K p t L (by unfold valid; omega)
      rw [if_pos hv, hid]
      exact ⟨Nat.le_trans k1 ht, k2⟩
    · simp only [SpecStep, hv, if_false] at hs
      rw [if_neg hv]
      by_cases hpr : p = r
      · subst hpr
        rw [if_pos rfl, linkRecord_now k1 ht]
        exact ⟨Nat.le_refl _, fun hne => absurd (hs.1 p (Anc.refl p)) hne⟩
      · rw [if_neg hpr]
        by_cases heq : apply K (.inv p t) L r = L r
        · rw [if_pos heq]
          exact ⟨Nat.le_trans k1 ht, fun hne => by rw [heq] at hne ⊢; exact k2 hne⟩
        · rw [if_neg heq, linkRecord_now k1 ht]
          have hnpr : ¬ Anc K.toTree p r := fun hh => hpr (anc_root hr hh)
          have hanc : Anc K.toTree r p := Classical.byContradiction fun hn => heq (hs.2.2 r hnpr hn)
          exact ⟨Nat.le_refl _, fun _ => (hs.2.1 r (fun e => hpr e.symm) hanc).symm⟩

/-- producer state and link record of one bound input through a history -/
def runL (K : KTree) (r : Nat) : List Op → Lmt × Nat → Lmt × Nat
  | [], s => s
  | o :: os, s => runL K r os (apply K o s.1, linkStep r o s.1 (apply K o s.1) s.2)

/-- both invariants hold after every history with non-decreasing times (the input may have been bound at any
    point: `linkBind_inv` establishes `LinkInv` at the moment of `bind_output`) -/
theorem link_inv_run (K : KTree) (r : Nat) (hr : K.parent r = none) : ∀ (ops : List Op) (now : Nat) (L : Lmt) (k : Nat),
    Inv K.toTree now L → LinkInv r L k now → Mono now ops →
    Inv K.toTree (endTime now ops) (runL K r ops (L, k)).1 ∧
    LinkInv r (runL K r ops (L, k)).1 (runL K r ops (L, k)).2 (endTime now ops) := by
  intro ops
  induction ops with
  | nil => intro now L k h hk _; exact ⟨h, hk⟩
  | cons o os ih =>
    intro now L k h hk hm
    obtain ⟨h1, h2, h3⟩ := hm
    exact ih o.time _ _ (apply_spec K now o L h h1 h2).2 (link_step_inv K r hr now o L k h hk h1 h2) h3

/-- below the target root an input view IS the producer's record (`data.last_modified_time()`, `data.modified(t)`) -/
theorem consumer_eq_producer_below_root (r k : Nat) (L : Lmt) (p t : Nat) (hp : p ≠ r) :
    inLmt r k L p = L p ∧ (inModified r k L p t ↔ modified L p t) ∧ (inValid L p ↔ valid L p) := by
  simp [inLmt, inModified, inValid, modified, valid, hp]

/-- at the target root the blended view agrees with the producer whenever the target is valid -/
theorem consumer_eq_producer_valid_root (r k now : Nat) (L : Lmt) (t : Nat) (hk : LinkInv r L k now) (hv : valid L r) :
    inLmt r k L r = L r ∧ (inModified r k L r t ↔ modified L r t) := by
  have hkr : k = L r := hk.2 hv
  simp [inLmt, inModified, modified, hkr]

/-- **where consumer and producer differ** (candidate finding C04-consumer): after an effective invalidation of the
    whole target at `t`, the producer's root reads not valid, not modified, `lmt = MIN_DT`, while every bound input
    reads the root as modified at `t` with `lmt = t` — and keeps that `lmt` while the target stays invalid -/
theorem consumer_differs_after_root_invalidate (K : KTree) (r : Nat) (now t : Nat) (L : Lmt) (k : Nat)
    (h : Inv K.toTree now L) (hk : LinkInv r L k now) (ht : now ≤ t) (h0 : 0 < t) (hv : valid L r) :
    (invalidate K r t L) r = 0 ∧ ¬ modified (invalidate K r t L) r t ∧ ¬ inValid (invalidate K r t L) r ∧
    inLmt r (linkStep r (.inv r t) L (invalidate K r t L) k) (invalidate K r t L) r = t ∧
    inModified r (linkStep r (.inv r t) L (invalidate K r t L) k) (invalidate K r t L) r t := by
  obtain ⟨hz, _, hm⟩ := (invalidate_spec K now t r L h ht h0 hv).2.1 r (Anc.refl r)
  unfold valid at hv
  have hl : linkStep r (.inv r t) L (invalidate K r t L) k = t := by
    simp only [linkStep, hv, if_false, if_true]
    exact linkRecord_now hk.1 ht
  refine ⟨hz, hm, ?_, ?_, ?_⟩
  · simp [inValid, hz]
  · simp [inLmt, hl, hz]
  · simp [inModified, hl]

/-! non-vacuity: a bundle (0) with two fields (1, 2), field 2 itself a bundle with child 3 -/
def exTree : Tree :=
  { parent := fun p => if p = 1 ∨ p = 2 then some 0 else if p = 3 then some 2 else none,
    wf := by intro p q h; by_cases h1 : p = 1 ∨ p = 2 <;> by_cases h3 : p = 3 <;> simp_all <;> omega }

example : Inv exTree 0 (fun _ => 0) := ⟨fun _ _ _ => Nat.le_refl _, fun _ => Nat.le_refl _⟩
example : write exTree 3 5 (fun _ => 0) 0 = 5 ∧ write exTree 3 5 (fun _ => 0) 1 = 0 ∧ write exTree 3 5 (fun _ => 0) 2 = 5 := by
  decide


/-! non-vacuity for the general invalidate and the consumer side:
    `TSB{a, b:TSB{c, d}}` = positions 0 (root), 1 (a), 2 (b), 3 (c), 4 (d) -/
def exK : KTree := KTree.ofParents #[none, some 0, some 0, some 2, some 2]

/-- `w a@1, w c@2, w d@2` -/
def exL : Lmt := run exK [.w 1 1, .w 3 2, .w 4 2] (fun _ => 0)

example : Mono 0 [.w 1 1, .w 3 2, .w 4 2, .inv 2 3, .inv 2 4, .w 4 4, .inv 0 5] := by simp [Mono, Op.time]
example : exK.kids 0 = [1, 2] ∧ exK.kids 2 = [3, 4] ∧ exK.kids 3 = [] := by decide
example : Inv exK.toTree 2 exL :=
  run_inv exK [.w 1 1, .w 3 2, .w 4 2] 0 (fun _ => 0) ⟨fun _ _ _ => Nat.le_refl _, fun _ => Nat.le_refl _⟩ (by simp [Mono, Op.time])
example : valid exL 2 ∧ valid exL 3 ∧ valid exL 0 := by decide
/-- invalidating the inner bundle `b` (which has two valid children) at 3: b, c, d read `MIN_DT`; the root reads 3;
    the sibling `a` keeps 1 -/
example : (List.range 5).map (invalidate exK 2 3 exL) = [3, 1, 0, 0, 0] := by decide
/-- invalidating the whole (valid, with valid children) root at 3 -/
example : (List.range 5).map (invalidate exK 0 3 exL) = [0, 0, 0, 0, 0] := by decide
/-- the link record of an input bound from the start, after the root invalidation: the input root reads `lmt = 3`,
    the producer `MIN_DT` -/
example : (runL exK 0 [.w 1 1, .w 3 2, .w 4 2, .inv 0 3] (fun _ => 0, linkBind 0 (fun _ => 0))).2 = 3 ∧
    (runL exK 0 [.w 1 1, .w 3 2, .w 4 2, .inv 0 3] (fun _ => 0, linkBind 0 (fun _ => 0))).1 0 = 0 := by decide
example : LinkInv 0 exL 2 2 := by unfold LinkInv; decide

end HgVerif.Tracking
