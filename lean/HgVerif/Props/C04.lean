import HgVerif.Model.Tracking
/-!
# C04 — modified / valid / last-modified-time tell the truth

About `Model/Tracking.lean`, for every tree of positions, every position and every write history
with non-decreasing cycle times:

* `Inv`                 : `lmt child ≤ lmt parent` on every edge and `lmt ≤ now` everywhere.
* `write_spec`          : a write to `p` at `t ≥ now` keeps `Inv` (with `now := t`), makes exactly `p`
                          and its ancestors read `lmt = t` (modified), and leaves every other position
                          untouched — a parent is modified whenever one of its children is, and a
                          position that is neither written nor above a written one is not.
* `write_coalesces`     : a second write to the same position in the same cycle changes nothing
                          (recorded once, observers notified once).
* `write_monotone`      : writes never decrease a last-modified-time.
* `invalidate_leaf_spec`: invalidation makes the position read not-valid and not-modified while its
                          ancestors read modified in that cycle; other positions are untouched; `Inv` kept.
* `child_modified_parent_modified`, `modified_implies_valid`.

Inputs are non-owning views of the bound output (`target_link_ops.cpp`), i.e. they read this same
state: the "consumer = producer" half of the property is checked on the real code by the probe nodes
of the correspondence (`P` lines: value / modified / valid / last-modified-time every cycle through a
passive input), not re-proved.
-/
namespace HgVerif.Tracking

def Inv (T : Tree) (now : Nat) (L : Lmt) : Prop :=
  (∀ c q, T.parent c = some q → L c ≤ L q) ∧ (∀ x, L x ≤ now)

theorem anc_le {T : Tree} {x p : Nat} (h : Anc T x p) : x ≤ p := by
  induction h with
  | refl => exact Nat.le_refl _
  | step hp _ ih => exact Nat.le_trans ih (Nat.le_of_lt (T.wf _ _ hp))

theorem anc_cases {T : Tree} {x p : Nat} (h : Anc T x p) : x = p ∨ ∃ q, T.parent p = some q ∧ Anc T x q := by
  cases h with
  | refl => exact Or.inl rfl
  | step hp ha => exact Or.inr ⟨_, hp, ha⟩

/-- above a position that already carries `t`, everything carries `t` (edges ordered, bounded by `t`) -/
theorem anc_eq_of_top {T : Tree} {L : Lmt} {t : Nat} (hb : ∀ x, L x ≤ t)
    (hup : ∀ c q, T.parent c = some q → L c ≤ L q) {x p : Nat} (h : Anc T x p) (hp : L p = t) : L x = t := by
  induction h with
  | refl => exact hp
  | @step p q hpq _ ih =>
    apply ih
    have h1 := hup p q hpq
    have h2 := hb q
    omega

/-- the upward walk of `record_modified`: edges INTO the current position `p` may still be open
    (children that already carry `t`) -/
theorem markUp_spec (T : Tree) (t : Nat) (fuel p : Nat) (L : Lmt) (hf : p < fuel)
    (hb : ∀ x, L x ≤ t)
    (he : ∀ c q, T.parent c = some q → L c ≤ L q ∨ (q = p ∧ L c = t)) :
    (∀ c q, T.parent c = some q → markUp T fuel p t L c ≤ markUp T fuel p t L q) ∧
    (∀ x, markUp T fuel p t L x ≤ t) ∧
    (∀ x, Anc T x p → markUp T fuel p t L x = t) ∧
    (∀ x, ¬ Anc T x p → markUp T fuel p t L x = L x) := by
  induction fuel generalizing p L with
  | zero => omega
  | succ fuel ih =>
    unfold markUp
    split
    · -- coalesced / stale: `L p = t` already
      rename_i hle
      have hpt : L p = t := by have := hb p; omega
      have hfull : ∀ c q, T.parent c = some q → L c ≤ L q := by
        intro c q hc
        rcases he c q hc with h | ⟨hq, hct⟩
        · exact h
        · subst hq; omega
      refine ⟨hfull, hb, ?_, fun _ _ => rfl⟩
      intro x hx
      exact anc_eq_of_top hb hfull hx hpt
    · rename_i hlt
      have hlt' : L p < t := by omega
      cases hpar : T.parent p with
      | none =>
        simp only
        refine ⟨?_, ?_, ?_, ?_⟩
        · intro c q hc
          by_cases hcp : c = p
          · subst hcp; rw [hpar] at hc; cases hc
          · rw [upd_other_ne L p t c hcp]
            by_cases hqp : q = p
            · subst hqp; rw [upd_same_eq]; exact hb c
            · rw [upd_other_ne L p t q hqp]
              rcases he c q hc with h | ⟨hq, _⟩
              · exact h
              · exact absurd hq hqp
        · intro x; by_cases hx : x = p
          · subst hx; rw [upd_same_eq]; exact Nat.le_refl _
          · rw [upd_other_ne L p t x hx]; exact hb x
        · intro x hx
          rcases anc_cases hx with rfl | ⟨q, hq, _⟩
          · exact upd_same_eq L x t
          · rw [hpar] at hq; cases hq
        · intro x hx
          have : x ≠ p := fun e => hx (by rw [e]; exact Anc.refl p)
          exact upd_other_ne L p t x this
      | some q =>
        simp only
        have hqp : q < p := T.wf p q hpar
        have hb1 : ∀ x, upd L p t x ≤ t := by
          intro x; by_cases hx : x = p
          · subst hx; rw [upd_same_eq]; exact Nat.le_refl _
          · rw [upd_other_ne L p t x hx]; exact hb x
        have he1 : ∀ c q', T.parent c = some q' → upd L p t c ≤ upd L p t q' ∨ (q' = q ∧ upd L p t c = t) := by
          intro c q' hc
          by_cases hcp : c = p
          · subst hcp
            rw [hpar] at hc; injection hc with hc; subst hc
            exact Or.inr ⟨rfl, upd_same_eq L c t⟩
          · rw [upd_other_ne L p t c hcp]
            by_cases hq'p : q' = p
            · subst hq'p; rw [upd_same_eq]; exact Or.inl (hb c)
            · rw [upd_other_ne L p t q' hq'p]
              rcases he c q' hc with h | ⟨hq, _⟩
              · exact Or.inl h
              · exact absurd hq hq'p
        obtain ⟨i1, i2, i3, i4⟩ := ih q (upd L p t) (by omega) hb1 he1
        have hnotanc : ¬ Anc T p q := fun h => by have := anc_le h; omega
        refine ⟨i1, i2, ?_, ?_⟩
        · intro x hx
          rcases anc_cases hx with rfl | ⟨q', hq', ha⟩
          · rw [i4 x hnotanc]; exact upd_same_eq L x t
          · rw [hpar] at hq'; injection hq' with hq'; subst hq'; exact i3 x ha
        · intro x hx
          have hxp : x ≠ p := fun e => hx (by rw [e]; exact Anc.refl p)
          have hxq : ¬ Anc T x q := fun h => hx (Anc.step hpar h)
          rw [i4 x hxq]; exact upd_other_ne L p t x hxp
where
  upd_same_eq (L : Lmt) (p t : Nat) : upd L p t p = t := by simp [upd]
  upd_other_ne (L : Lmt) (p t x : Nat) (h : x ≠ p) : upd L p t x = L x := by simp [upd, h]

/-- **a write tells the truth**: `Inv` is kept, exactly `p` and its ancestors become modified at `t`,
    nothing else changes -/
theorem write_spec (T : Tree) (now t p : Nat) (L : Lmt) (h : Inv T now L) (ht : now ≤ t) :
    Inv T t (write T p t L) ∧
    (∀ x, Anc T x p → modified (write T p t L) x t) ∧
    (∀ x, ¬ Anc T x p → write T p t L x = L x) := by
  have := markUp_spec T t (p + 1) p L (Nat.lt_succ_self p)
    (fun x => Nat.le_trans (h.2 x) ht) (fun c q hc => Or.inl (h.1 c q hc))
  exact ⟨⟨this.1, this.2.1⟩, this.2.2.1, this.2.2.2⟩

/-- a repeated write in the same cycle is coalesced -/
theorem write_coalesces (T : Tree) (t p : Nat) (L : Lmt) (h : L p = t) : write T p t L = L := by
  unfold write markUp; simp [h]

/-- writes never move a last-modified-time backwards -/
theorem write_monotone (T : Tree) (now t p : Nat) (L : Lmt) (h : Inv T now L) (ht : now ≤ t) (x : Nat) :
    L x ≤ write T p t L x := by
  obtain ⟨_, h2, h3⟩ := write_spec T now t p L h ht
  by_cases hx : Anc T x p
  · rw [h2 x hx]; exact Nat.le_trans (h.2 x) ht
  · rw [h3 x hx]; exact Nat.le_refl _

theorem child_modified_parent_modified {T : Tree} {now : Nat} {L : Lmt} (h : Inv T now L) {c q : Nat}
    (hc : T.parent c = some q) (hm : modified L c now) : modified L q now := by
  unfold modified at *; have := h.1 c q hc; have := h.2 q; omega

theorem modified_implies_valid {L : Lmt} {p t : Nat} (ht : 0 < t) (hm : modified L p t) : valid L p := by
  unfold modified valid at *; omega

/-- invalidation of a leaf: it reads invalid and unmodified, its ancestors read modified, the rest is
    untouched, `Inv` is kept -/
theorem invalidate_leaf_spec (T : Tree) (now t p : Nat) (L : Lmt) (h : Inv T now L) (ht : now ≤ t) (h0 : 0 < t)
    (hleaf : ∀ c, T.parent c ≠ some p) (hv : valid L p) :
    let L' := invalidateLeaf T p t L
    Inv T t L' ∧ ¬ valid L' p ∧ ¬ modified L' p t ∧
    (∀ x, x ≠ p → Anc T x p → modified L' x t) ∧ (∀ x, ¬ Anc T x p → L' x = L x) := by
  intro L'
  have hL' : L' = upd (match T.parent p with
      | none => L
      | some q => markUp T (q + 1) q t L) p 0 := by
    show invalidateLeaf T p t L = _
    unfold invalidateLeaf; unfold valid at hv; rw [if_neg hv]; rfl
  cases hpar : T.parent p with
  | none =>
    rw [hpar] at hL'
    simp only at hL'
    rw [hL']
    refine ⟨⟨?_, ?_⟩, ?_, ?_, ?_, ?_⟩
    · intro c q hc
      by_cases hcp : c = p
      · subst hcp; rw [hpar] at hc; cases hc
      · by_cases hqp : q = p
        · subst hqp; exact absurd hc (hleaf c)
        · simp [upd, hcp, hqp]; exact h.1 c q hc
    · intro x; by_cases hx : x = p
      · simp [upd, hx]
      · simp [upd, hx]; exact Nat.le_trans (h.2 x) ht
    · simp [valid, upd]
    · simp [modified, upd]; omega
    · intro x hxp hx
      rcases anc_cases hx with rfl | ⟨q, hq, _⟩
      · exact absurd rfl hxp
      · rw [hpar] at hq; cases hq
    · intro x hx
      have : x ≠ p := fun e => hx (by rw [e]; exact Anc.refl p)
      simp [upd, this]
  | some q =>
    rw [hpar] at hL'
    simp only at hL'
    rw [hL']
    obtain ⟨m1, m2, m3, m4⟩ := markUp_spec T t (q + 1) q L (Nat.lt_succ_self q)
      (fun x => Nat.le_trans (h.2 x) ht) (fun c q' hc => Or.inl (h.1 c q' hc))
    have hqp : q < p := T.wf p q hpar
    have hnot : ¬ Anc T p q := fun hh => by have := anc_le hh; omega
    refine ⟨⟨?_, ?_⟩, ?_, ?_, ?_, ?_⟩
    · intro c q' hc
      by_cases hcp : c = p
      · subst hcp; simp [upd]
      · by_cases hq'p : q' = p
        · subst hq'p; exact absurd hc (hleaf c)
        · simp [upd, hcp, hq'p]; exact m1 c q' hc
    · intro x; by_cases hx : x = p
      · simp [upd, hx]
      · simp [upd, hx]; exact m2 x
    · simp [valid, upd]
    · simp [modified, upd]; omega
    · intro x hxp hx
      rcases anc_cases hx with rfl | ⟨q', hq', ha⟩
      · exact absurd rfl hxp
      · rw [hpar] at hq'; injection hq' with hq'; subst hq'
        simp [modified, upd, hxp]; exact m3 x ha
    · intro x hx
      have hxp : x ≠ p := fun e => hx (by rw [e]; exact Anc.refl p)
      have hxq : ¬ Anc T x q := fun hh => hx (Anc.step hpar hh)
      simp [upd, hxp]; exact m4 x hxq

/-! non-vacuity: a bundle (0) with two fields (1, 2), field 2 itself a bundle with child 3 -/
def exTree : Tree :=
  { parent := fun p => if p = 1 ∨ p = 2 then some 0 else if p = 3 then some 2 else none,
    wf := by intro p q h; by_cases h1 : p = 1 ∨ p = 2 <;> by_cases h3 : p = 3 <;> simp_all <;> omega }

example : Inv exTree 0 (fun _ => 0) := ⟨fun _ _ _ => Nat.le_refl _, fun _ => Nat.le_refl _⟩
example : write exTree 3 5 (fun _ => 0) 0 = 5 ∧ write exTree 3 5 (fun _ => 0) 1 = 0 ∧ write exTree 3 5 (fun _ => 0) 2 = 5 := by
  decide

end HgVerif.Tracking
