import HgVerif.Model.DynLifecycle
import HgVerif.Props.C14
/-!
# C14, dynamic children — every node of a child graph created at run time is stopped exactly once

About `Model/DynLifecycle.lean`: a `map_` (and a `switch_`) whose child graphs are created, removed, re-created and
replaced at run time, run through `executor.cpp run_storage` and released.  Everything is for **all** key histories
(`List CycleIn` / `List SwIn`: arbitrary erased / removed / added / live / ticked slot lists, valid or not, primed or
not), **all** fault assignments (`Hooks υ`: start / evaluate / stop hooks are arbitrary functions of an arbitrary user
state — any node, any occurrence count, any combination), every child size `n`, clean-up on error on and off.

The property is the monitor `Ledger.step` folded over the trace (`ledgerOf`): a start hook only on a fresh node, an
evaluation only on a started node, a stop only on a started node; `Clean` = nothing is left started.  What that fold
means for the hook calls of one node is `node_language`.

* `run_no_violation`        : no violation up to the return of `run()` and up to the release, in every run, both
                              variants of the slot scan.
* `run_clean_at_return`     : (repaired scan, `recorder = true`) with clean-up on, or without an error, nothing is
                              started when `run()` returns — whichever hooks threw.
* `run_clean_at_release`    : nothing is started once the executor is released, in every configuration.
* `node_language` / `run_node_language` : per node the hook calls are `[]`, `[start!]`, or
                              `start, evaluate*, stop` — exactly one start, exactly one stop, evaluations in between.
* `run_first_error`, `removeAll_first_error` : an error of a cycle is what `run()` throws (the following stop cannot
                              replace it); otherwise the parent stop's first error in slot order.
* `failed_child_start_leaves_nothing` : a throwing `create_entry_at_slot` leaves no entry and no started node of the
                              failed child, and its siblings untouched (they are stopped by the stop that ends the run).
* `removeAll_current_prefix`, `run_clean_at_return_prefix` : the scan WITHOUT the recorder (the tree before
                              `fixes/c14_map_stop.patch`) stops only the slots up to the first throwing child; concrete
                              run where child `2#1` is still started when `run()` returns its sibling's stop error.
* `swRun_no_violation`, `swRun_clean_at_return`, `swRun_clean_at_release` : the same for `switch_`, owned output
                              (`switch_teardown`) and forwarding output (`output_forwards_to_child_terminal`) alike, for
                              the code's order of `activate_branch` (outgoing branch stopped, THEN its slot retired).
* `sw_outgoing_stopped_at_key_change` : after `activate_branch` every node of the branch that was active is stopped —
                              in the cycle of the key change, whatever the outgoing stops / incoming starts throw.
* `sw_outgoing_stop_error_reaches_caller`, `swRun_first_error` : a throwing stop hook in the outgoing branch makes
                              `activate_branch` throw, and a cycle error is what `run()` reports.
* `swRun_retire_first_prefix` : counter-lemma for the order of seed s88 (slot retired before the stop): the outgoing
                              branch is still started when `run()` returns normally, its stop error is lost.
* `reduce_run_no_violation`, `reduce_clean_at_return`, `reduce_clean_at_release` : the same for the combiner graphs of
                              `reduce_` (created by a structural change or a capacity growth, rolled back when a
                              sibling's start throws, retired by a shrink or a growth, stopped by the parent's stop).
* `reduce_stop_error_reaches_caller` : with no earlier failure `run()` reports the first error of the stop scan over the
                              live combiners, and that IS an error whenever a live combiner has a node whose stop hook
                              throws (`removeAllFrom_err_of_throw`, `stopLoop_err_of_throw`).

Technique: the invariant `Inv` (started entries ↔ started nodes in the ledger, distinct instances, unused generations
are fresh) is preserved by every operation of the map node; the per-child facts come from the generic loops of
`Model/Lifecycle.lean` (`startLoop_spec`, `stopLoop_spec`).
-/
namespace HgVerif.DynLife
open HgVerif.Lifecycle

variable {υ : Type}

/-! ## the ledger of a world -/

/-- the monitor's verdict on the trace of a world -/
def Lw (w : World υ) : Ledger := ledgerOf w.tr

theorem Lw_emit (e : Ev) (w : World υ) : Lw (emit e w) = (Lw w).step e := by
  simp [Lw, emit, ledgerOf, List.foldl_append]

@[simp] theorem Lw_setU (w : World υ) (x : υ) : Lw { w with u := x } = Lw w := rfl
@[simp] theorem emit_u (e : Ev) (w : World υ) : (emit e w).u = w.u := rfl

@[simp] theorem step_g (L : Ledger) (t : GTag) (c : Cid) : L.step (.g t c) = L := rfl
@[simp] theorem step_cyc (L : Ledger) (k : Nat) : L.step (.cyc k) = L := rfl
@[simp] theorem step_stopping (L : Ledger) : L.step .stopping = L := rfl
@[simp] theorem step_returned (L : Ledger) : L.step .returned = L := rfl
@[simp] theorem step_sB (L : Ledger) (c : Cid) (i : Nat) : L.step (.n .sB c i) = L := rfl
@[simp] theorem step_sA (L : Ledger) (c : Cid) (i : Nat) : L.step (.n .sA c i) = L := rfl
@[simp] theorem step_sF (L : Ledger) (c : Cid) (i : Nat) : L.step (.n .sF c i) = L := rfl
@[simp] theorem step_xB (L : Ledger) (c : Cid) (i : Nat) : L.step (.n .xB c i) = L := rfl
@[simp] theorem step_xA (L : Ledger) (c : Cid) (i : Nat) : L.step (.n .xA c i) = L := rfl
@[simp] theorem step_xF (L : Ledger) (c : Cid) (i : Nat) : L.step (.n .xF c i) = L := rfl
theorem step_hXf (L : Ledger) (c : Cid) (i : Nat) : L.step (.n .hXf c i) = L.step (.n .hX c i) := rfl
theorem step_hEf (L : Ledger) (c : Cid) (i : Nat) : L.step (.n .hEf c i) = L.step (.n .hE c i) := rfl

theorem setSt_same (f : Cid → Nat → NodeSt) (c : Cid) (i : Nat) (v : NodeSt) : setSt f c i v c i = v := by
  simp [setSt]

theorem setSt_other (f : Cid → Nat → NodeSt) (c c' : Cid) (i i' : Nat) (v : NodeSt) (h : c' ≠ c ∨ i' ≠ i) :
    setSt f c i v c' i' = f c' i' := by
  unfold setSt
  rcases h with h | h
  · simp [h]
  · simp [h]

/-! ## one node -/

theorem nodeStart_ok (h : Hooks υ) (c : Cid) (i : Nat) (w : World υ) (hs : (h.start c i w.u).2 = none) :
    (nodeStart h c i w).err = none ∧ Lw (nodeStart h c i w).st = (Lw w).step (.n .hS c i) := by
  unfold nodeStart
  simp only [emit_u, hs]
  refine ⟨trivial, ?_⟩
  simp [Lw_emit]

theorem nodeStart_fail (h : Hooks υ) (c : Cid) (i : Nat) (w : World υ) (m : String) (hs : (h.start c i w.u).2 = some m) :
    (nodeStart h c i w).err = some m ∧ Lw (nodeStart h c i w).st = (Lw w).step (.n .hSf c i) := by
  unfold nodeStart
  simp only [emit_u, hs]
  refine ⟨trivial, ?_⟩
  simp [Lw_emit]

theorem nodeStop_ledger (h : Hooks υ) (c : Cid) (i : Nat) (w : World υ) :
    Lw (nodeStop h c i w).st = (Lw w).step (.n .hX c i) := by
  unfold nodeStop
  simp only [emit_u]
  cases hs : (h.stop c i w.u).2 with
  | none => simp [Lw_emit]
  | some m => simp [Lw_emit, step_hXf]

theorem step_hX_started (L : Ledger) (c : Cid) (i : Nat) (hs : L.st c i = .started) :
    L.step (.n .hX c i) = { L with st := setSt L.st c i .stopped } := by
  simp [Ledger.step, hs]

theorem step_hS_fresh (L : Ledger) (c : Cid) (i : Nat) (hs : L.st c i = .fresh) :
    L.step (.n .hS c i) = { L with st := setSt L.st c i .started } := by
  simp [Ledger.step, hs]

theorem step_hSf_fresh (L : Ledger) (c : Cid) (i : Nat) (hs : L.st c i = .fresh) :
    L.step (.n .hSf c i) = { L with st := setSt L.st c i .failed } := by
  simp [Ledger.step, hs]

theorem step_hE_started (L : Ledger) (c : Cid) (i : Nat) (hs : L.st c i = .started) :
    L.step (.n .hE c i) = L := by
  simp [Ledger.step, hs]

/-! ## the loops of one child graph -/

/-- `FirstExceptionRecorder::capture`: the first error is kept -/
def keepFirst (e x : Option String) : Option String :=
  match e with
  | some m => some m
  | none => x

theorem stopLoop_succ {σ : Type} (stop : Nat → σ → StepRes σ) (k : Nat) (s : σ) (vis : List Nat) (e : Option String) :
    stopLoop stop (k + 1) s vis e = stopLoop stop k (stop k s).st (vis ++ [k]) (keepFirst e (stop k s).err) := by
  cases e <;> rfl

/-- stopping `k` started nodes of `c`: all of them end stopped, nothing else changes, no violation -/
theorem stopLoop_spec (h : Hooks υ) (c : Cid) (k : Nat) (w : World υ) (vis : List Nat) (e : Option String)
    (hb : (Lw w).bad = false) (hs : ∀ i, i < k → (Lw w).st c i = .started) :
    (Lw (stopLoop (nodeStop h c) k w vis e).st).bad = false ∧
    (∀ i, i < k → (Lw (stopLoop (nodeStop h c) k w vis e).st).st c i = .stopped) ∧
    (∀ c' i, (c' ≠ c ∨ k ≤ i) → (Lw (stopLoop (nodeStop h c) k w vis e).st).st c' i = (Lw w).st c' i) := by
  induction k generalizing w vis e with
  | zero =>
    refine ⟨hb, ?_, ?_⟩
    · intro i hi; omega
    · intro c' i _; rfl
  | succ k ih =>
    rw [stopLoop_succ]
    have hk : (Lw w).st c k = .started := hs k (by omega)
    have hL : Lw (nodeStop h c k w).st = { Lw w with st := setSt (Lw w).st c k .stopped } := by
      rw [nodeStop_ledger, step_hX_started _ _ _ hk]
    have hb' : (Lw (nodeStop h c k w).st).bad = false := by rw [hL]; exact hb
    have hs' : ∀ i, i < k → (Lw (nodeStop h c k w).st).st c i = .started := by
      intro i hi
      rw [hL]
      show setSt (Lw w).st c k .stopped c i = .started
      rw [setSt_other _ _ _ _ _ _ (Or.inr (by omega))]
      exact hs i (by omega)
    obtain ⟨r1, r2, r3⟩ := ih (nodeStop h c k w).st (vis ++ [k]) (keepFirst e (nodeStop h c k w).err) hb' hs'
    refine ⟨r1, ?_, ?_⟩
    · intro i hi
      by_cases hik : i < k
      · exact r2 i hik
      · have : i = k := by omega
        subst this
        rw [r3 c i (Or.inr (Nat.le_refl _)), hL]
        exact setSt_same _ _ _ _
    · intro c' i hci
      have : c' ≠ c ∨ k ≤ i := by rcases hci with h1 | h1; exact Or.inl h1; exact Or.inr (by omega)
      rw [r3 c' i this, hL]
      show setSt (Lw w).st c k .stopped c' i = _
      apply setSt_other
      rcases hci with h1 | h1
      · exact Or.inl h1
      · exact Or.inr (by omega)

/-- the start loop over fresh nodes: a prefix ends started, the failing node `failed`, nothing else changes -/
theorem startLoop_spec (h : Hooks υ) (c : Cid) (rem i : Nat) (w : World υ) (vis : List Nat)
    (hb : (Lw w).bad = false) (hf : ∀ j, i ≤ j → j < i + rem → (Lw w).st c j = .fresh) :
    (Lw (startLoop (nodeStart h c) rem i w vis).st).bad = false ∧
    i ≤ (startLoop (nodeStart h c) rem i w vis).started ∧
    (startLoop (nodeStart h c) rem i w vis).started ≤ i + rem ∧
    (∀ j, i ≤ j → j < (startLoop (nodeStart h c) rem i w vis).started →
        (Lw (startLoop (nodeStart h c) rem i w vis).st).st c j = .started) ∧
    ((startLoop (nodeStart h c) rem i w vis).err = none → (startLoop (nodeStart h c) rem i w vis).started = i + rem) ∧
    ((startLoop (nodeStart h c) rem i w vis).err ≠ none →
        (Lw (startLoop (nodeStart h c) rem i w vis).st).st c (startLoop (nodeStart h c) rem i w vis).started = .failed) ∧
    (∀ c' j, (c' ≠ c ∨ j < i ∨ (startLoop (nodeStart h c) rem i w vis).started < j ∨
              ((startLoop (nodeStart h c) rem i w vis).err = none ∧ (startLoop (nodeStart h c) rem i w vis).started ≤ j)) →
        (Lw (startLoop (nodeStart h c) rem i w vis).st).st c' j = (Lw w).st c' j) := by
  induction rem generalizing i w vis with
  | zero =>
    simp only [startLoop]
    refine ⟨hb, Nat.le_refl _, by omega, ?_, ?_, ?_, ?_⟩
    · intro j h1 h2; omega
    · intro _; rfl
    · intro hne; exact absurd rfl hne
    · intro c' j _; trivial
  | succ rem ih =>
    have hi : (Lw w).st c i = .fresh := hf i (Nat.le_refl _) (by omega)
    unfold startLoop
    simp only
    cases hs : (h.start c i w.u).2 with
    | none =>
      obtain ⟨he, hL⟩ := nodeStart_ok h c i w hs
      rw [step_hS_fresh _ _ _ hi] at hL
      simp only [he]
      have hb' : (Lw (nodeStart h c i w).st).bad = false := by rw [hL]; exact hb
      have hf' : ∀ j, i + 1 ≤ j → j < i + 1 + rem → (Lw (nodeStart h c i w).st).st c j = .fresh := by
        intro j h1 h2
        rw [hL]
        show setSt (Lw w).st c i .started c j = .fresh
        rw [setSt_other _ _ _ _ _ _ (Or.inr (by omega))]
        exact hf j (by omega) (by omega)
      obtain ⟨r1, r2, r3, r4, r5, r6, r7⟩ := ih (i + 1) (nodeStart h c i w).st (vis ++ [i]) hb' hf'
      refine ⟨r1, by omega, by omega, ?_, ?_, r6, ?_⟩
      · intro j h1 h2
        by_cases hji : j = i
        · subst hji
          rw [r7 c j (Or.inr (Or.inl (by omega))), hL]
          exact setSt_same _ _ _ _
        · exact r4 j (by omega) h2
      · intro hn; rw [r5 hn]; omega
      · intro c' j hcj
        have h' : c' ≠ c ∨ j < i + 1 ∨
            (startLoop (nodeStart h c) rem (i + 1) (nodeStart h c i w).st (vis ++ [i])).started < j ∨
            ((startLoop (nodeStart h c) rem (i + 1) (nodeStart h c i w).st (vis ++ [i])).err = none ∧
             (startLoop (nodeStart h c) rem (i + 1) (nodeStart h c i w).st (vis ++ [i])).started ≤ j) := by
          rcases hcj with h1 | h1 | h1 | h1
          · exact Or.inl h1
          · exact Or.inr (Or.inl (by omega))
          · exact Or.inr (Or.inr (Or.inl h1))
          · exact Or.inr (Or.inr (Or.inr h1))
        rw [r7 c' j h', hL]
        show setSt (Lw w).st c i .started c' j = _
        apply setSt_other
        rcases hcj with h1 | h1 | h1 | h1
        · exact Or.inl h1
        · exact Or.inr (by omega)
        · exact Or.inr (by omega)
        · exact Or.inr (by omega)
    | some m =>
      obtain ⟨he, hL⟩ := nodeStart_fail h c i w m hs
      rw [step_hSf_fresh _ _ _ hi] at hL
      simp only [he]
      refine ⟨by rw [hL]; exact hb, Nat.le_refl _, by omega, ?_, ?_, ?_, ?_⟩
      · intro j h1 h2; omega
      · intro hn; cases hn
      · intro _; rw [hL]; exact setSt_same _ _ _ _
      · intro c' j hcj
        rw [hL]
        show setSt (Lw w).st c i .failed c' j = _
        apply setSt_other
        rcases hcj with h1 | h1 | h1 | h1
        · exact Or.inl h1
        · exact Or.inr (by omega)
        · exact Or.inr (by omega)
        · exact absurd h1.1 (by simp)

/-! ## one child graph: start, stop, evaluate -/

/-- starting a child whose nodes are all fresh: either all `n` nodes end started, or none is left started;
    no other child is touched; no violation -/
theorem childStart_spec (h : Hooks υ) (n : Nat) (c : Cid) (w : World υ)
    (hb : (Lw w).bad = false) (hf : ∀ j, (Lw w).st c j = .fresh) :
    (Lw (childStart h n c w).1).bad = false ∧
    (∀ c' j, c' ≠ c → (Lw (childStart h n c w).1).st c' j = (Lw w).st c' j) ∧
    ((childStart h n c w).2 = none → ∀ j, j < n → (Lw (childStart h n c w).1).st c j = .started) ∧
    ((childStart h n c w).2 ≠ none → ∀ j, (Lw (childStart h n c w).1).st c j ≠ .started) ∧
    (∀ j, n ≤ j → (Lw (childStart h n c w).1).st c j = .fresh) := by
  have hb0 : (Lw (emit (.g .sB c) w)).bad = false := by rw [Lw_emit]; exact hb
  have hf0 : ∀ j, 0 ≤ j → j < 0 + n → (Lw (emit (.g .sB c) w)).st c j = .fresh := by
    intro j _ _; rw [Lw_emit]; exact hf j
  have hw0 : Lw (emit (.g .sB c) w) = Lw w := by rw [Lw_emit]; rfl
  obtain ⟨r1, _, r3, r4, r5, r6, r7⟩ := startLoop_spec h c n 0 (emit (.g .sB c) w) [] hb0 hf0
  unfold childStart graphStart
  simp only
  cases he : (startLoop (nodeStart h c) n 0 (emit (.g .sB c) w) []).err with
  | none =>
    simp only
    have hst := r5 he
    refine ⟨by rw [Lw_emit]; exact r1, ?_, ?_, ?_, ?_⟩
    · intro c' j hc
      rw [Lw_emit, step_g, r7 c' j (Or.inl hc), hw0]
    · intro _ j hj
      rw [Lw_emit, step_g]
      exact r4 j (Nat.zero_le _) (by omega)
    · intro hne; exact absurd rfl hne
    · intro j hj
      rw [Lw_emit, step_g, r7 c j (Or.inr (Or.inr (Or.inr ⟨he, by omega⟩))), hw0]
      exact hf j
  | some m =>
    simp only
    -- the rollback stops the started prefix
    have hpre : ∀ i, i < (startLoop (nodeStart h c) n 0 (emit (.g .sB c) w) []).started →
        (Lw (startLoop (nodeStart h c) n 0 (emit (.g .sB c) w) []).st).st c i = .started :=
      fun i hi => r4 i (Nat.zero_le _) hi
    obtain ⟨q1, q2, q3⟩ := stopLoop_spec h c (startLoop (nodeStart h c) n 0 (emit (.g .sB c) w) []).started
      (startLoop (nodeStart h c) n 0 (emit (.g .sB c) w) []).st [] none r1 hpre
    have hfail := r6 (by rw [he]; simp)
    have hlt : (startLoop (nodeStart h c) n 0 (emit (.g .sB c) w) []).started < n := by
      have := (start_prefix (nodeStart h c) n (emit (.g .sB c) w)).2.2 m he
      exact this.1
    refine ⟨by rw [Lw_emit]; exact q1, ?_, ?_, ?_, ?_⟩
    · intro c' j hc
      rw [Lw_emit, step_g, q3 c' j (Or.inl hc), r7 c' j (Or.inl hc), hw0]
    · intro hn; cases hn
    · intro _ j
      rw [Lw_emit, step_g]
      by_cases hj : j < (startLoop (nodeStart h c) n 0 (emit (.g .sB c) w) []).started
      · rw [q2 j hj]; simp
      · rw [q3 c j (Or.inr (by omega))]
        by_cases hj2 : j = (startLoop (nodeStart h c) n 0 (emit (.g .sB c) w) []).started
        · rw [hj2, hfail]; simp
        · rw [r7 c j (Or.inr (Or.inr (Or.inl (by omega)))), hw0, hf j]; simp
    · intro j hj
      rw [Lw_emit, step_g, q3 c j (Or.inr (by omega)), r7 c j (Or.inr (Or.inr (Or.inl (by omega)))), hw0]
      exact hf j

/-- stopping a child whose `n` nodes are started: all end stopped whatever throws; no other node is touched -/
theorem childStop_spec (h : Hooks υ) (n : Nat) (c : Cid) (w : World υ)
    (hb : (Lw w).bad = false) (hs : ∀ i, i < n → (Lw w).st c i = .started) :
    (Lw (childStop h n c w).1).bad = false ∧
    (∀ i, i < n → (Lw (childStop h n c w).1).st c i = .stopped) ∧
    (∀ c' i, (c' ≠ c ∨ n ≤ i) → (Lw (childStop h n c w).1).st c' i = (Lw w).st c' i) := by
  have hw0 : Lw (emit (.g .xB c) w) = Lw w := by rw [Lw_emit]; rfl
  obtain ⟨q1, q2, q3⟩ := stopLoop_spec h c n (emit (.g .xB c) w) [] none (by rw [hw0]; exact hb)
    (by intro i hi; rw [hw0]; exact hs i hi)
  have hmid : ∀ (x : World υ),
      x = (match (stopLoop (nodeStop h c) n (emit (.g .xB c) w) [] none).err with
           | none => (stopLoop (nodeStop h c) n (emit (.g .xB c) w) [] none).st
           | some _ => emit (.g .xF c) (stopLoop (nodeStop h c) n (emit (.g .xB c) w) [] none).st) →
      Lw x = Lw (stopLoop (nodeStop h c) n (emit (.g .xB c) w) [] none).st := by
    intro x hx
    cases he : (stopLoop (nodeStop h c) n (emit (.g .xB c) w) [] none).err with
    | none => rw [hx, he]
    | some m => rw [hx, he]; simp only; rw [Lw_emit]; rfl
  have hfin : Lw (childStop h n c w).1 = Lw (stopLoop (nodeStop h c) n (emit (.g .xB c) w) [] none).st := by
    unfold childStop
    simp only
    rw [Lw_emit, step_g]
    exact hmid _ rfl
  rw [hfin]
  refine ⟨q1, q2, ?_⟩
  intro c' i hci
  rw [q3 c' i hci, hw0]

theorem evalLoop_spec (h : Hooks υ) (c : Cid) (rem i : Nat) (w : World υ)
    (hs : ∀ j, i ≤ j → j < i + rem → (Lw w).st c j = .started) :
    Lw (evalLoop h c rem i w).1 = Lw w := by
  induction rem generalizing i w with
  | zero => rfl
  | succ rem ih =>
    have hi := hs i (Nat.le_refl _) (by omega)
    unfold evalLoop
    simp only
    cases he : (h.eval c i w.u).2 with
    | none =>
      simp only
      have hL : Lw (emit (.n .hE c i) { w with u := (h.eval c i w.u).1 }) = Lw w := by
        rw [Lw_emit, Lw_setU, step_hE_started _ _ _ hi]
      rw [ih (i + 1) _ (by intro j h1 h2; rw [hL]; exact hs j (by omega) (by omega)), hL]
    | some m =>
      simp only
      rw [Lw_emit, Lw_setU, step_hEf, step_hE_started _ _ _ hi]

/-- evaluating a started child leaves the ledger as it is (in particular: no violation) -/
theorem childEval_spec (h : Hooks υ) (n : Nat) (c : Cid) (w : World υ)
    (hs : ∀ i, i < n → (Lw w).st c i = .started) :
    Lw (childEval h n c w).1 = Lw w := by
  unfold childEval
  exact evalLoop_spec h c n 0 w (by intro j _ h2; exact hs j (by omega))

/-! ## the map node: invariant -/

theorem setEnt_same (f : Nat → Option Entry) (s : Nat) (v : Option Entry) : setEnt f s v s = v := by simp [setEnt]
theorem setEnt_other (f : Nat → Option Entry) (s s' : Nat) (v : Option Entry) (h : s' ≠ s) : setEnt f s v s' = f s' := by
  simp [setEnt, h]

/-- what ties the map node's entries to the ledger -/
structure Inv (n : Nat) (m : MapSt υ) : Prop where
  ok : (Lw m.w).bad = false
  /-- a started entry: its `n` nodes are started, its generation is one already handed out, its slot is scanned -/
  st : ∀ s e, m.ent s = some e → e.started = true →
        (∀ i, i < n → (Lw m.w).st e.cid i = .started) ∧ e.gen ≤ m.gens e.key ∧ s < m.cap
  /-- a started node belongs to a started entry -/
  back : ∀ c i, (Lw m.w).st c i = .started → i < n ∧ ∃ s e, m.ent s = some e ∧ e.started = true ∧ e.cid = c
  /-- started entries are different instances -/
  inj : ∀ s s' e e', m.ent s = some e → m.ent s' = some e' → e.started = true → e'.started = true →
        e.cid = e'.cid → s = s'
  /-- instances not handed out yet have no history -/
  fresh : ∀ c : Cid, m.gens c.key < c.gen → ∀ i, (Lw m.w).st c i = .fresh

theorem Inv.init (n : Nat) (u0 : υ) : Inv n ({ w := { u := u0 } } : MapSt υ) :=
  { ok := rfl
    st := by intro s e h; cases h
    back := by intro c i h; cases h
    inj := by intro s s' e e' h; cases h
    fresh := by intro c _ i; rfl }

theorem Inv.primed {n : Nat} {m : MapSt υ} (hI : Inv n m) (b : Bool) : Inv n { m with primed := b } :=
  ⟨hI.ok, hI.st, hI.back, hI.inj, hI.fresh⟩

theorem Inv.setW {n : Nat} {m : MapSt υ} (hI : Inv n m) (w' : World υ) (hw : Lw w' = Lw m.w) : Inv n { m with w := w' } := by
  refine ⟨?_, ?_, ?_, ?_, ?_⟩
  · show (Lw w').bad = false; rw [hw]; exact hI.ok
  · intro s e h1 h2; show (∀ i, i < n → (Lw w').st e.cid i = .started) ∧ _; rw [hw]; exact hI.st s e h1 h2
  · intro c i h1; have : (Lw m.w).st c i = .started := by rw [← hw]; exact h1
    exact hI.back c i this
  · exact hI.inj
  · intro c h1 i; show (Lw w').st c i = .fresh; rw [hw]; exact hI.fresh c h1 i

theorem Inv.setCap {n : Nat} {m : MapSt υ} (hI : Inv n m) (k : Nat) (hk : m.cap ≤ k) : Inv n { m with cap := k } := by
  refine ⟨hI.ok, ?_, hI.back, hI.inj, hI.fresh⟩
  intro s e h1 h2
  obtain ⟨a, b, c⟩ := hI.st s e h1 h2
  exact ⟨a, b, Nat.lt_of_lt_of_le c hk⟩

/-- the started entries of `m'` are (unchanged) entries of `m`; capacity and generations are the same -/
def Shrinks (m m' : MapSt υ) : Prop :=
  m'.cap = m.cap ∧ m'.gens = m.gens ∧ ∀ s e, m'.ent s = some e → e.started = true → m.ent s = some e

theorem Shrinks.refl (m : MapSt υ) : Shrinks m m := ⟨rfl, rfl, fun _ _ h _ => h⟩

theorem Shrinks.trans {a b c : MapSt υ} (h1 : Shrinks a b) (h2 : Shrinks b c) : Shrinks a c :=
  ⟨h2.1.trans h1.1, h2.2.1.trans h1.2.1, fun s e h3 h4 => h1.2.2 s e (h2.2.2 s e h3 h4) h4⟩

/-- no entry is started -/
def NoStarted (m : MapSt υ) : Prop := ∀ s e, m.ent s = some e → e.started = false

theorem clean_of_noStarted {n : Nat} {m : MapSt υ} (hI : Inv n m) (hn : NoStarted m) : Clean (Lw m.w) := by
  intro c i hs
  obtain ⟨_, s, e, h1, h2, _⟩ := hI.back c i hs
  rw [hn s e h1] at h2
  cases h2

/-! ## the map node: operations -/

theorem removeEntry_spec (cfg : Cfg) (h : Hooks υ) (s : Nat) (m : MapSt υ) (hI : Inv cfg.n m) :
    Inv cfg.n (removeEntry cfg h s m).1 ∧ Shrinks m (removeEntry cfg h s m).1 ∧
    (removeEntry cfg h s m).1.primed = m.primed ∧
    (∀ e, (removeEntry cfg h s m).1.ent s = some e → e.started = false) := by
  cases hes : m.ent s with
  | none =>
    have hr : removeEntry cfg h s m = (m, none) := by simp only [removeEntry, hes]
    rw [hr]
    exact ⟨hI, Shrinks.refl m, rfl, by intro e he; rw [hes] at he; cases he⟩
  | some e =>
    cases hst : e.started with
    | false =>
      have hr : removeEntry cfg h s m = (m, none) := by simp [removeEntry, hes, hst]
      rw [hr]
      exact ⟨hI, Shrinks.refl m, rfl, by intro e' he; rw [hes] at he; cases he; exact hst⟩
    | true =>
      have hr : removeEntry cfg h s m =
          ({ m with ent := setEnt m.ent s (some { e with started := false }), w := (childStop h cfg.n e.cid m.w).1 },
           (childStop h cfg.n e.cid m.w).2) := by simp [removeEntry, hes, hst]
      rw [hr]
      dsimp only
      obtain ⟨hnodes, hgen, hcap⟩ := hI.st s e hes hst
      obtain ⟨q1, q2, q3⟩ := childStop_spec h cfg.n e.cid m.w hI.ok hnodes
      -- other started entries are other instances
      have hother : ∀ s' e', s' ≠ s → m.ent s' = some e' → e'.started = true → e'.cid ≠ e.cid := by
        intro s' e' hne h1 h2 hc
        exact hne (hI.inj s' s e' e h1 hes h2 hst hc)
      refine ⟨⟨q1, ?_, ?_, ?_, ?_⟩, ⟨rfl, rfl, ?_⟩, rfl, ?_⟩
      · intro s' e' h1 h2
        dsimp only at h1 ⊢
        by_cases hss : s' = s
        · subst hss
          rw [setEnt_same] at h1
          cases h1; cases h2
        · rw [setEnt_other _ _ _ _ hss] at h1
          obtain ⟨a, b, c⟩ := hI.st s' e' h1 h2
          refine ⟨?_, b, c⟩
          intro i hi
          rw [q3 e'.cid i (Or.inl (hother s' e' hss h1 h2))]
          exact a i hi
      · intro c i hs
        dsimp only at hs ⊢
        by_cases hc : c = e.cid
        · subst hc
          by_cases hi : i < cfg.n
          · rw [q2 i hi] at hs; cases hs
          · rw [q3 e.cid i (Or.inr (by omega))] at hs
            exact absurd (hI.back e.cid i hs).1 hi
        · rw [q3 c i (Or.inl hc)] at hs
          obtain ⟨hi, s', e', h1, h2, h3⟩ := hI.back c i hs
          have hss : s' ≠ s := by
            intro heq; subst heq; rw [hes] at h1; cases h1; exact hc h3.symm
          exact ⟨hi, s', e', by rw [setEnt_other _ _ _ _ hss]; exact h1, h2, h3⟩
      · intro s1 s2 e1 e2 h1 h2 h3 h4 h5
        dsimp only at h1 h2
        have hs1 : s1 ≠ s := by
          intro heq; subst heq
          rw [setEnt_same] at h1
          cases h1; cases h3
        have hs2 : s2 ≠ s := by
          intro heq; subst heq
          rw [setEnt_same] at h2
          cases h2; cases h4
        rw [setEnt_other _ _ _ _ hs1] at h1
        rw [setEnt_other _ _ _ _ hs2] at h2
        exact hI.inj s1 s2 e1 e2 h1 h2 h3 h4 h5
      · intro c hc i
        dsimp only at hc ⊢
        have hne : c ≠ e.cid := by
          intro heq; subst heq
          have : m.gens e.key < e.gen := hc
          omega
        rw [q3 c i (Or.inl hne)]
        exact hI.fresh c hc i
      · intro s' e' h1 h2
        dsimp only at h1
        by_cases hss : s' = s
        · subst hss
          rw [setEnt_same] at h1
          cases h1; cases h2
        · rw [setEnt_other _ _ _ _ hss] at h1
          exact h1
      · intro e' h1
        rw [setEnt_same] at h1
        cases h1; rfl

theorem setGen_same (f : Int → Nat) (k : Int) (v : Nat) : setGen f k v k = v := by simp [setGen]
theorem setGen_other (f : Int → Nat) (k k' : Int) (v : Nat) (h : k' ≠ k) : setGen f k v k' = f k' := by
  simp [setGen, h]
theorem le_setGen (f : Int → Nat) (k k' : Int) : f k' ≤ setGen f k (f k + 1) k' := by
  by_cases h : k' = k
  · subst h; rw [setGen_same]; omega
  · rw [setGen_other _ _ _ _ h]; exact Nat.le_refl _

theorem setEnt_self (f : Nat → Option Entry) (s : Nat) (old : Option Entry) (h : f s = old) (s' : Nat) :
    setEnt f s old s' = f s' := by
  by_cases hs : s' = s
  · subst hs; rw [setEnt_same, h]
  · exact setEnt_other _ _ _ _ hs

/-- the body of `create_entry_at_slot` once a graph has to be started in slot `s` -/
theorem createGo_spec (cfg : Cfg) (h : Hooks υ) (s : Nat) (key : Int) (old : Option Entry) (m : MapSt υ)
    (hI : Inv cfg.n m) (hold : m.ent s = old) (hns : ∀ e, old = some e → e.started = false) (hcap : s < m.cap) :
    ((childStart h cfg.n ⟨key, m.gens key + 1⟩ m.w).2 = none →
      Inv cfg.n { m with ent := setEnt m.ent s (some ⟨key, m.gens key + 1, true⟩),
                         gens := setGen m.gens key (m.gens key + 1),
                         w := (childStart h cfg.n ⟨key, m.gens key + 1⟩ m.w).1 }) ∧
    ((childStart h cfg.n ⟨key, m.gens key + 1⟩ m.w).2 ≠ none →
      Inv cfg.n { m with ent := setEnt m.ent s old,
                         gens := setGen m.gens key (m.gens key + 1),
                         w := (childStart h cfg.n ⟨key, m.gens key + 1⟩ m.w).1 } ∧
      ∀ i, (Lw (childStart h cfg.n ⟨key, m.gens key + 1⟩ m.w).1).st ⟨key, m.gens key + 1⟩ i ≠ .started) := by
  have hfr : ∀ j, (Lw m.w).st ⟨key, m.gens key + 1⟩ j = .fresh :=
    hI.fresh ⟨key, m.gens key + 1⟩ (by show m.gens key < m.gens key + 1; omega)
  obtain ⟨p1, p2, p3, p4, p5⟩ := childStart_spec h cfg.n ⟨key, m.gens key + 1⟩ m.w hI.ok hfr
  -- started entries are older instances
  have hold' : ∀ s' e', m.ent s' = some e' → e'.started = true → e'.cid ≠ ⟨key, m.gens key + 1⟩ := by
    intro s' e' h1 h2 hc
    have hg := (hI.st s' e' h1 h2).2.1
    have hk : e'.key = key := congrArg Cid.key hc
    have hgen : e'.gen = m.gens key + 1 := congrArg Cid.gen hc
    rw [hk] at hg; omega
  have hslot : ∀ s' e', m.ent s' = some e' → e'.started = true → s' ≠ s := by
    intro s' e' h1 h2 heq
    subst heq
    rw [hold] at h1
    rw [hns e' h1] at h2
    cases h2
  have hfresh' : ∀ c : Cid, setGen m.gens key (m.gens key + 1) c.key < c.gen →
      ∀ i, (Lw (childStart h cfg.n ⟨key, m.gens key + 1⟩ m.w).1).st c i = .fresh := by
    intro c hc i
    have hlt : m.gens c.key < c.gen := Nat.lt_of_le_of_lt (le_setGen m.gens key c.key) hc
    have hne : c ≠ ⟨key, m.gens key + 1⟩ := by
      intro heq; subst heq
      rw [setGen_same] at hc
      exact Nat.lt_irrefl _ hc
    rw [p2 c i hne]
    exact hI.fresh c hlt i
  constructor
  · intro hok
    refine ⟨p1, ?_, ?_, ?_, hfresh'⟩
    · intro s' e' h1 h2
      dsimp only at h1 ⊢
      by_cases hss : s' = s
      · subst hss
        rw [setEnt_same] at h1
        cases h1
        refine ⟨?_, ?_, hcap⟩
        · intro i hi; exact p3 hok i hi
        · show m.gens key + 1 ≤ setGen m.gens key (m.gens key + 1) key
          rw [setGen_same]; exact Nat.le_refl _
      · rw [setEnt_other _ _ _ _ hss] at h1
        obtain ⟨a, b, c⟩ := hI.st s' e' h1 h2
        refine ⟨?_, Nat.le_trans b (le_setGen _ _ _), c⟩
        intro i hi
        rw [p2 e'.cid i (hold' s' e' h1 h2)]
        exact a i hi
    · intro c i hs
      dsimp only at hs ⊢
      by_cases hc : c = ⟨key, m.gens key + 1⟩
      · subst hc
        have hi : i < cfg.n := by
          apply Classical.byContradiction
          intro hni
          rw [p5 i (by omega)] at hs
          cases hs
        exact ⟨hi, s, ⟨key, m.gens key + 1, true⟩, setEnt_same _ _ _, rfl, rfl⟩
      · rw [p2 c i hc] at hs
        obtain ⟨hi, s', e', h1, h2, h3⟩ := hI.back c i hs
        exact ⟨hi, s', e', by rw [setEnt_other _ _ _ _ (hslot s' e' h1 h2)]; exact h1, h2, h3⟩
    · intro s1 s2 e1 e2 h1 h2 h3 h4 h5
      dsimp only at h1 h2
      by_cases hs1 : s1 = s
      · by_cases hs2 : s2 = s
        · rw [hs1, hs2]
        · subst hs1
          rw [setEnt_same] at h1
          rw [setEnt_other _ _ _ _ hs2] at h2
          cases h1
          exact absurd h5.symm (hold' s2 e2 h2 h4)
      · by_cases hs2 : s2 = s
        · subst hs2
          rw [setEnt_same] at h2
          rw [setEnt_other _ _ _ _ hs1] at h1
          cases h2
          exact absurd h5 (hold' s1 e1 h1 h3)
        · rw [setEnt_other _ _ _ _ hs1] at h1
          rw [setEnt_other _ _ _ _ hs2] at h2
          exact hI.inj s1 s2 e1 e2 h1 h2 h3 h4 h5
  · intro herr
    refine ⟨⟨p1, ?_, ?_, ?_, hfresh'⟩, p4 herr⟩
    · intro s' e' h1 h2
      dsimp only at h1 ⊢
      rw [setEnt_self _ _ _ hold] at h1
      obtain ⟨a, b, c⟩ := hI.st s' e' h1 h2
      refine ⟨?_, Nat.le_trans b (le_setGen _ _ _), c⟩
      intro i hi
      rw [p2 e'.cid i (hold' s' e' h1 h2)]
      exact a i hi
    · intro c i hs
      dsimp only at hs ⊢
      have hc : c ≠ ⟨key, m.gens key + 1⟩ := by
        intro heq; subst heq; exact p4 herr i hs
      rw [p2 c i hc] at hs
      obtain ⟨hi, s', e', h1, h2, h3⟩ := hI.back c i hs
      exact ⟨hi, s', e', by rw [setEnt_self _ _ _ hold]; exact h1, h2, h3⟩
    · intro s1 s2 e1 e2 h1 h2 h3 h4 h5
      dsimp only at h1 h2
      rw [setEnt_self _ _ _ hold] at h1 h2
      exact hI.inj s1 s2 e1 e2 h1 h2 h3 h4 h5

theorem createEntry_spec (cfg : Cfg) (h : Hooks υ) (s : Nat) (k : Int) (m : MapSt υ) (hI : Inv cfg.n m) :
    Inv cfg.n (createEntry cfg h s k m).1 ∧ (createEntry cfg h s k m).1.primed = m.primed ∧
    ((createEntry cfg h s k m).2 ≠ none → ∀ s', (createEntry cfg h s k m).1.ent s' = m.ent s') := by
  have hI' : Inv cfg.n { m with cap := max m.cap (s + 1) } := hI.setCap _ (Nat.le_max_left _ _)
  have hcap : s < ({ m with cap := max m.cap (s + 1) } : MapSt υ).cap := by
    show s < max m.cap (s + 1)
    have := Nat.le_max_right m.cap (s + 1)
    omega
  cases hes : m.ent s with
  | some e =>
    cases hst : e.started with
    | true =>
      have hr : createEntry cfg h s k m = ({ m with cap := max m.cap (s + 1) }, none) := by
        simp [createEntry, hes, hst]
      rw [hr]
      exact ⟨hI', rfl, by intro hne; exact absurd rfl hne⟩
    | false =>
      have hg := createGo_spec cfg h s e.key (some e) { m with cap := max m.cap (s + 1) } hI' hes
        (by intro e' he; cases he; exact hst) hcap
      cases hc : (childStart h cfg.n ⟨e.key, m.gens e.key + 1⟩ m.w).2 with
      | none =>
        have hr : createEntry cfg h s k m =
            ({ m with cap := max m.cap (s + 1), ent := setEnt m.ent s (some ⟨e.key, m.gens e.key + 1, true⟩),
                      gens := setGen m.gens e.key (m.gens e.key + 1),
                      w := (childStart h cfg.n ⟨e.key, m.gens e.key + 1⟩ m.w).1 }, none) := by
          simp [createEntry, hes, hst, hc]
        rw [hr]
        exact ⟨hg.1 hc, rfl, by intro hne; exact absurd rfl hne⟩
      | some x =>
        have hr : createEntry cfg h s k m =
            ({ m with cap := max m.cap (s + 1), ent := setEnt m.ent s (some e),
                      gens := setGen m.gens e.key (m.gens e.key + 1),
                      w := (childStart h cfg.n ⟨e.key, m.gens e.key + 1⟩ m.w).1 }, some x) := by
          simp [createEntry, hes, hst, hc]
        rw [hr]
        exact ⟨(hg.2 (by rw [hc]; simp)).1, rfl, by intro _ s'; exact setEnt_self _ _ _ hes s'⟩
  | none =>
    have hg := createGo_spec cfg h s k none { m with cap := max m.cap (s + 1) } hI' hes
      (by intro e' he; cases he) hcap
    cases hc : (childStart h cfg.n ⟨k, m.gens k + 1⟩ m.w).2 with
    | none =>
      have hr : createEntry cfg h s k m =
          ({ m with cap := max m.cap (s + 1), ent := setEnt m.ent s (some ⟨k, m.gens k + 1, true⟩),
                    gens := setGen m.gens k (m.gens k + 1),
                    w := (childStart h cfg.n ⟨k, m.gens k + 1⟩ m.w).1 }, none) := by
        simp [createEntry, hes, hc]
      rw [hr]
      exact ⟨hg.1 hc, rfl, by intro hne; exact absurd rfl hne⟩
    | some x =>
      have hr : createEntry cfg h s k m =
          ({ m with cap := max m.cap (s + 1), ent := setEnt m.ent s none,
                    gens := setGen m.gens k (m.gens k + 1),
                    w := (childStart h cfg.n ⟨k, m.gens k + 1⟩ m.w).1 }, some x) := by
        simp [createEntry, hes, hc]
      rw [hr]
      exact ⟨(hg.2 (by rw [hc]; simp)).1, rfl, by intro _ s'; exact setEnt_self _ _ _ hes s'⟩

/-- the slot scan: the invariant survives whatever throws; with the recorder every scanned slot ends not started -/
theorem removeAllFrom_spec (cfg : Cfg) (h : Hooks υ) (fuel s : Nat) (m : MapSt υ) (e : Option String) (hI : Inv cfg.n m) :
    Inv cfg.n (removeAllFrom cfg h fuel s m e).1 ∧ Shrinks m (removeAllFrom cfg h fuel s m e).1 ∧
    (removeAllFrom cfg h fuel s m e).1.primed = m.primed ∧
    (cfg.recorder = true → ∀ s' e', s ≤ s' → s' < s + fuel →
        (removeAllFrom cfg h fuel s m e).1.ent s' = some e' → e'.started = false) := by
  induction fuel generalizing s m e with
  | zero =>
    have heq : removeAllFrom cfg h 0 s m e = (m, e) := by simp only [removeAllFrom]
    rw [heq]
    exact ⟨hI, Shrinks.refl m, rfl, by intro _ s' e' h1 h2; omega⟩
  | succ fuel ih =>
    obtain ⟨a1, a2, a3, a4⟩ := removeEntry_spec cfg h s m hI
    -- what the rest of the scan does to a state `m1` reached after slot `s`
    have rest : ∀ e1, Inv cfg.n (removeAllFrom cfg h fuel (s + 1) (removeEntry cfg h s m).1 e1).1 ∧
        Shrinks m (removeAllFrom cfg h fuel (s + 1) (removeEntry cfg h s m).1 e1).1 ∧
        (removeAllFrom cfg h fuel (s + 1) (removeEntry cfg h s m).1 e1).1.primed = m.primed ∧
        (cfg.recorder = true → ∀ s' e', s ≤ s' → s' < s + (fuel + 1) →
          (removeAllFrom cfg h fuel (s + 1) (removeEntry cfg h s m).1 e1).1.ent s' = some e' → e'.started = false) := by
      intro e1
      obtain ⟨b1, b2, b3, b4⟩ := ih (s + 1) (removeEntry cfg h s m).1 e1 a1
      refine ⟨b1, a2.trans b2, b3.trans a3, ?_⟩
      intro hrec s' e' h1 h2 h3
      by_cases hss : s' = s
      · subst hss
        cases hst : e'.started with
        | false => rfl
        | true =>
          have hx := a4 e' (b2.2.2 s' e' h3 hst)
          rw [hst] at hx
          cases hx
      · exact b4 hrec s' e' (by omega) (by omega) h3
    cases hr2 : (removeEntry cfg h s m).2 with
    | none =>
      have heq : removeAllFrom cfg h (fuel + 1) s m e = removeAllFrom cfg h fuel (s + 1) (removeEntry cfg h s m).1 e := by
        simp [removeAllFrom, hr2]
      rw [heq]; exact rest e
    | some x =>
      by_cases hrec : cfg.recorder = true
      · have heq : removeAllFrom cfg h (fuel + 1) s m e =
            removeAllFrom cfg h fuel (s + 1) (removeEntry cfg h s m).1 (keepFirst e (some x)) := by
          cases e <;> simp [removeAllFrom, hr2, hrec, keepFirst]
        rw [heq]; exact rest _
      · have heq : removeAllFrom cfg h (fuel + 1) s m e = ((removeEntry cfg h s m).1, some x) := by
          simp [removeAllFrom, hr2, hrec]
        rw [heq]
        exact ⟨a1, a2, a3, by intro hc; exact absurd hc hrec⟩

theorem removeAll_spec (cfg : Cfg) (h : Hooks υ) (m : MapSt υ) (hI : Inv cfg.n m) :
    Inv cfg.n (removeAll cfg h m).1 ∧ Shrinks m (removeAll cfg h m).1 ∧ (removeAll cfg h m).1.primed = m.primed ∧
    (cfg.recorder = true → NoStarted (removeAll cfg h m).1) := by
  obtain ⟨a1, a2, a3, a4⟩ := removeAllFrom_spec cfg h m.cap 0 m none hI
  refine ⟨a1, a2, a3, ?_⟩
  intro hrec s e h1
  cases hst : e.started with
  | false => rfl
  | true =>
    have hlt : s < m.cap := by
      have := (a1.st s e h1 hst).2.2
      rw [a2.1] at this
      exact this
    have hx := a4 hrec s e (Nat.zero_le _) (by omega) h1
    rw [hst] at hx
    cases hx

theorem removeList_inv (cfg : Cfg) (h : Hooks υ) (l : List Nat) (m : MapSt υ) (hI : Inv cfg.n m) :
    Inv cfg.n (removeList cfg h l m).1 := by
  induction l generalizing m with
  | nil => exact hI
  | cons s rest ih =>
    obtain ⟨a1, _, _, _⟩ := removeEntry_spec cfg h s m hI
    cases hr2 : (removeEntry cfg h s m).2 with
    | none =>
      have heq : removeList cfg h (s :: rest) m = removeList cfg h rest (removeEntry cfg h s m).1 := by
        simp [removeList, hr2]
      rw [heq]; exact ih _ a1
    | some x =>
      have heq : removeList cfg h (s :: rest) m = ((removeEntry cfg h s m).1, some x) := by
        simp [removeList, hr2]
      rw [heq]; exact a1

theorem createList_inv (cfg : Cfg) (h : Hooks υ) (l : List (Nat × Int)) (m : MapSt υ) (hI : Inv cfg.n m) :
    Inv cfg.n (createList cfg h l m).1 := by
  induction l generalizing m with
  | nil => exact hI
  | cons sk rest ih =>
    obtain ⟨s, k⟩ := sk
    obtain ⟨a1, _, _⟩ := createEntry_spec cfg h s k m hI
    cases hr2 : (createEntry cfg h s k m).2 with
    | none =>
      have heq : createList cfg h ((s, k) :: rest) m = createList cfg h rest (createEntry cfg h s k m).1 := by
        simp [createList, hr2]
      rw [heq]; exact ih _ a1
    | some x =>
      have heq : createList cfg h ((s, k) :: rest) m = ((createEntry cfg h s k m).1, some x) := by
        simp [createList, hr2]
      rw [heq]; exact a1

/-- `destroy_at(slot)`: the invariant survives, the slot is empty afterwards, nothing gets started -/
theorem destroySlot_spec (cfg : Cfg) (h : Hooks υ) (m : MapSt υ) (s : Nat) (hI : Inv cfg.n m) :
    Inv cfg.n (destroySlot cfg h m s) ∧ Shrinks m (destroySlot cfg h m s) ∧ (destroySlot cfg h m s).ent s = none := by
  cases hes : m.ent s with
  | none =>
    have hr : destroySlot cfg h m s = m := by simp [destroySlot, hes]
    rw [hr]; exact ⟨hI, Shrinks.refl m, hes⟩
  | some e =>
    -- stop it if it is started (`removeEntry` is that stop), then drop the entry
    obtain ⟨a1, a2, _, a4⟩ := removeEntry_spec cfg h s m hI
    have hr : destroySlot cfg h m s = { (removeEntry cfg h s m).1 with ent := setEnt (removeEntry cfg h s m).1.ent s none } := by
      cases hst : e.started with
      | true =>
        simp [destroySlot, removeEntry, hes, hst]
        funext i
        by_cases hi : i = s
        · subst hi; simp [setEnt]
        · simp [setEnt, hi]
      | false => simp [destroySlot, removeEntry, hes, hst]
    rw [hr]
    refine ⟨⟨a1.ok, ?_, ?_, ?_, a1.fresh⟩, ⟨a2.1, a2.2.1, ?_⟩, setEnt_same _ _ _⟩
    · intro s' e' h1 h2
      dsimp only at h1 ⊢
      by_cases hss : s' = s
      · subst hss; rw [setEnt_same] at h1; cases h1
      · rw [setEnt_other _ _ _ _ hss] at h1
        exact a1.st s' e' h1 h2
    · intro c i hs
      obtain ⟨hi, s', e', h1, h2, h3⟩ := a1.back c i hs
      have hss : s' ≠ s := by
        intro heq; subst heq
        rw [a4 e' h1] at h2; cases h2
      exact ⟨hi, s', e', by dsimp only; rw [setEnt_other _ _ _ _ hss]; exact h1, h2, h3⟩
    · intro s1 s2 e1 e2 h1 h2 h3 h4 h5
      dsimp only at h1 h2
      have hs1 : s1 ≠ s := by intro heq; subst heq; rw [setEnt_same] at h1; cases h1
      have hs2 : s2 ≠ s := by intro heq; subst heq; rw [setEnt_same] at h2; cases h2
      rw [setEnt_other _ _ _ _ hs1] at h1
      rw [setEnt_other _ _ _ _ hs2] at h2
      exact a1.inj s1 s2 e1 e2 h1 h2 h3 h4 h5
    · intro s' e' h1 h2
      dsimp only at h1
      by_cases hss : s' = s
      · subst hss; rw [setEnt_same] at h1; cases h1
      · rw [setEnt_other _ _ _ _ hss] at h1
        exact a2.2.2 s' e' h1 h2

theorem destroyFold_inv (cfg : Cfg) (h : Hooks υ) (l : List Nat) (m : MapSt υ) (hI : Inv cfg.n m) :
    Inv cfg.n (l.foldl (destroySlot cfg h) m) := by
  induction l generalizing m with
  | nil => exact hI
  | cons s rest ih => exact ih _ (destroySlot_spec cfg h m s hI).1

theorem destroyAllFrom_spec (cfg : Cfg) (h : Hooks υ) (fuel s : Nat) (m : MapSt υ) (hI : Inv cfg.n m) :
    Inv cfg.n (destroyAllFrom cfg h fuel s m) ∧ Shrinks m (destroyAllFrom cfg h fuel s m) ∧
    (∀ s' e', s ≤ s' → s' < s + fuel → (destroyAllFrom cfg h fuel s m).ent s' = some e' → e'.started = false) := by
  induction fuel generalizing s m with
  | zero => exact ⟨hI, Shrinks.refl m, by intro s' e' h1 h2; omega⟩
  | succ fuel ih =>
    obtain ⟨a1, a2, a3⟩ := destroySlot_spec cfg h m s hI
    obtain ⟨b1, b2, b3⟩ := ih (s + 1) (destroySlot cfg h m s) a1
    have heq : destroyAllFrom cfg h (fuel + 1) s m = destroyAllFrom cfg h fuel (s + 1) (destroySlot cfg h m s) := rfl
    rw [heq]
    refine ⟨b1, a2.trans b2, ?_⟩
    intro s' e' h1 h2 h3
    by_cases hss : s' = s
    · subst hss
      cases hst : e'.started with
      | false => rfl
      | true =>
        have := b2.2.2 s' e' h3 hst
        rw [a3] at this; cases this
    · exact b3 s' e' (by omega) (by omega) h3

theorem destroyAll_spec (cfg : Cfg) (h : Hooks υ) (m : MapSt υ) (hI : Inv cfg.n m) :
    Inv cfg.n (destroyAll cfg h m) ∧ NoStarted (destroyAll cfg h m) := by
  obtain ⟨a1, a2, a3⟩ := destroyAllFrom_spec cfg h m.cap 0 m hI
  refine ⟨a1, ?_⟩
  intro s e h1
  cases hst : e.started with
  | false => rfl
  | true =>
    have hlt : s < m.cap := by
      have := (a1.st s e h1 hst).2.2
      rw [a2.1] at this
      exact this
    have hx := a3 s e (Nat.zero_le _) (by omega) h1
    rw [hst] at hx
    cases hx

theorem reconcile_inv (cfg : Cfg) (h : Hooks υ) (I : CycleIn) (m : MapSt υ) (hI : Inv cfg.n m) :
    Inv cfg.n (reconcile cfg h I m).1 := by
  have hI0 : Inv cfg.n { m with cap := max m.cap I.cap } := hI.setCap _ (Nat.le_max_left _ _)
  obtain ⟨a1, _, _, _⟩ := removeAll_spec cfg h _ hI0
  have a2 := createList_inv cfg h I.live _ a1
  have b1 := removeList_inv cfg h I.removed _ hI0
  have b2 := createList_inv cfg h I.added _ b1
  unfold reconcile
  dsimp only
  repeat' split
  all_goals first
    | exact hI0 | exact a1 | exact a1.primed false | exact a2 | exact a2.primed true | exact b1 | exact b2

theorem evalSlots_inv (cfg : Cfg) (h : Hooks υ) (l : List Nat) (m : MapSt υ) (hI : Inv cfg.n m) :
    Inv cfg.n (evalSlots cfg h l m).1 := by
  induction l generalizing m with
  | nil => exact hI
  | cons s rest ih =>
    cases hes : m.ent s with
    | none =>
      have heq : evalSlots cfg h (s :: rest) m = evalSlots cfg h rest m := by simp [evalSlots, hes]
      rw [heq]; exact ih m hI
    | some e =>
      cases hst : e.started with
      | false =>
        have heq : evalSlots cfg h (s :: rest) m = evalSlots cfg h rest m := by simp [evalSlots, hes, hst]
        rw [heq]; exact ih m hI
      | true =>
        have hL := childEval_spec h cfg.n e.cid m.w (hI.st s e hes hst).1
        have hI' : Inv cfg.n { m with w := (childEval h cfg.n e.cid m.w).1 } := hI.setW _ hL
        cases hr : (childEval h cfg.n e.cid m.w).2 with
        | none =>
          have heq : evalSlots cfg h (s :: rest) m = evalSlots cfg h rest { m with w := (childEval h cfg.n e.cid m.w).1 } := by
            simp [evalSlots, hes, hst, hr]
          rw [heq]; exact ih _ hI'
        | some x =>
          have heq : evalSlots cfg h (s :: rest) m = ({ m with w := (childEval h cfg.n e.cid m.w).1 }, some x) := by
            simp [evalSlots, hes, hst, hr]
          rw [heq]; exact hI'

theorem cycle_inv (cfg : Cfg) (h : Hooks υ) (I : CycleIn) (m : MapSt υ) (hI : Inv cfg.n m) :
    Inv cfg.n (cycle cfg h I m).1 := by
  unfold cycle
  by_cases ha : I.active = true
  · simp only [ha, Bool.not_true, Bool.false_eq_true, if_false]
    have a1 := destroyFold_inv cfg h I.erased m hI
    have a2 := reconcile_inv cfg h I _ a1
    cases hr : (reconcile cfg h I (List.foldl (destroySlot cfg h) m I.erased)).2 with
    | some x => exact a2
    | none => exact evalSlots_inv cfg h I.ticked _ a2
  · have ha' : I.active = false := by cases haa : I.active <;> simp_all
    simp only [ha', Bool.not_false, if_true]
    exact hI

theorem emit_mark_Lw (e : Ev) (w : World υ) (hm : e = .stopping ∨ e = .returned ∨ ∃ k, e = .cyc k) : Lw (emit e w) = Lw w := by
  rw [Lw_emit]
  rcases hm with h | h | ⟨k, h⟩ <;> subst h <;> rfl

theorem runCycles_inv (cfg : Cfg) (h : Hooks υ) (l : List CycleIn) (k : Nat) (m : MapSt υ) (hI : Inv cfg.n m) :
    Inv cfg.n (runCycles cfg h l k m).1 := by
  induction l generalizing k m with
  | nil => exact hI
  | cons I rest ih =>
    have hI' : Inv cfg.n { m with w := emit (.cyc k) m.w } := hI.setW _ (emit_mark_Lw _ _ (Or.inr (Or.inr ⟨k, rfl⟩)))
    have a1 := cycle_inv cfg h I _ hI'
    cases hr : (cycle cfg h I { m with w := emit (.cyc k) m.w }).2 with
    | none =>
      have heq : runCycles cfg h (I :: rest) k m = runCycles cfg h rest (k + 1) (cycle cfg h I { m with w := emit (.cyc k) m.w }).1 := by
        simp [runCycles, hr]
      rw [heq]; exact ih _ _ a1
    | some x =>
      have heq : runCycles cfg h (I :: rest) k m = ((cycle cfg h I { m with w := emit (.cyc k) m.w }).1, some x) := by
        simp [runCycles, hr]
      rw [heq]; exact a1

/-- `map_node_stop`: the invariant survives; with the recorder no entry is left started, whatever throws -/
theorem mapStop_spec (cfg : Cfg) (h : Hooks υ) (m : MapSt υ) (hI : Inv cfg.n m) :
    Inv cfg.n (mapStop cfg h m).1 ∧ (cfg.recorder = true → NoStarted (mapStop cfg h m).1) := by
  obtain ⟨a1, _, _, a4⟩ := removeAll_spec cfg h m hI
  unfold mapStop
  dsimp only
  split
  · exact ⟨a1.primed false, a4⟩
  · exact ⟨a1, a4⟩

theorem release_spec (cfg : Cfg) (h : Hooks υ) (b : Bool) (m : MapSt υ) (hI : Inv cfg.n m) :
    Inv cfg.n (release cfg h b m) ∧ NoStarted (release cfg h b m) := by
  unfold release
  cases b with
  | true => exact destroyAll_spec cfg h m hI
  | false => exact destroyAll_spec cfg h _ (mapStop_spec cfg h m hI).1

/-! ## the run -/

theorem run_spec (cfg : Cfg) (h : Hooks υ) (cycles : List CycleIn) (u0 : υ) :
    Inv cfg.n (run cfg h cycles u0).ret ∧ Inv cfg.n (run cfg h cycles u0).fin ∧ NoStarted (run cfg h cycles u0).fin ∧
    (cfg.recorder = true → (cfg.cleanup = true ∨ (run cfg h cycles u0).err = none) → NoStarted (run cfg h cycles u0).ret) := by
  have h0 := runCycles_inv cfg h cycles 0 { w := { u := u0 } } (Inv.init cfg.n u0)
  have h1 := h0.setW (emit .stopping (runCycles cfg h cycles 0 { w := { u := u0 } }).1.w) (emit_mark_Lw _ _ (Or.inl rfl))
  obtain ⟨s1, s2⟩ := mapStop_spec cfg h _ h1
  have h2 := s1.setW (emit .returned (mapStop cfg h { (runCycles cfg h cycles 0 { w := { u := u0 } }).1 with
      w := emit .stopping (runCycles cfg h cycles 0 { w := { u := u0 } }).1.w }).1.w) (emit_mark_Lw _ _ (Or.inr (Or.inl rfl)))
  have h3 := h0.setW (emit .returned (runCycles cfg h cycles 0 { w := { u := u0 } }).1.w) (emit_mark_Lw _ _ (Or.inr (Or.inl rfl)))
  unfold run
  dsimp only
  split
  · exact ⟨h2, (release_spec cfg h true _ h2).1, (release_spec cfg h true _ h2).2, fun hrec _ => s2 hrec⟩
  · split
    · exact ⟨h2, (release_spec cfg h true _ h2).1, (release_spec cfg h true _ h2).2, fun hrec _ => s2 hrec⟩
    · rename_i hcl
      refine ⟨h3, (release_spec cfg h false _ h3).1, (release_spec cfg h false _ h3).2, ?_⟩
      intro _ hc
      rcases hc with hc | hc
      · exact absurd hc hcl
      · cases hc

/-- **No lifecycle violation, ever**: in every run — all key histories, all fault assignments, clean-up on or off,
    either variant of the slot scan — every start hook runs on a fresh node, every evaluation on a started node,
    every stop on a started node (so: at most one start, at most one stop, no stop without a completed start,
    no evaluation before the start or after the stop), up to the return of `run()` and up to the release. -/
theorem run_no_violation (cfg : Cfg) (h : Hooks υ) (cycles : List CycleIn) (u0 : υ) :
    (ledgerOf (run cfg h cycles u0).ret.w.tr).bad = false ∧ (ledgerOf (run cfg h cycles u0).fin.w.tr).bad = false :=
  ⟨(run_spec cfg h cycles u0).1.ok, (run_spec cfg h cycles u0).2.1.ok⟩

/-- **Stopped by the return of `run()`** (the repaired slot scan): with clean-up on error, or when the run ends
    without an error, no node of any child is left started when `run()` returns — whichever hooks threw. -/
theorem run_clean_at_return (cfg : Cfg) (hrec : cfg.recorder = true) (h : Hooks υ) (cycles : List CycleIn) (u0 : υ)
    (hc : cfg.cleanup = true ∨ (run cfg h cycles u0).err = none) :
    Clean (ledgerOf (run cfg h cycles u0).ret.w.tr) :=
  clean_of_noStarted (run_spec cfg h cycles u0).1 ((run_spec cfg h cycles u0).2.2.2 hrec hc)

/-- **Stopped by the release of the executor**, in every configuration (also with clean-up off, also with the
    unrepaired slot scan). -/
theorem run_clean_at_release (cfg : Cfg) (h : Hooks υ) (cycles : List CycleIn) (u0 : υ) :
    Clean (ledgerOf (run cfg h cycles u0).fin.w.tr) :=
  clean_of_noStarted (run_spec cfg h cycles u0).2.1 (run_spec cfg h cycles u0).2.2.1

/-! ## the first error wins -/

/-- **The error `run()` throws**: an error of a cycle (child start / evaluate / removal stop) ends the run and is what
    the caller sees — the stop that follows cannot replace it; without one, it is the error of the parent's stop. -/
theorem run_first_error (cfg : Cfg) (h : Hooks υ) (cycles : List CycleIn) (u0 : υ) :
    (∀ x, (runCycles cfg h cycles 0 { w := { u := u0 } }).2 = some x → (run cfg h cycles u0).err = some x) ∧
    ((runCycles cfg h cycles 0 { w := { u := u0 } }).2 = none →
      (run cfg h cycles u0).err =
        (mapStop cfg h { (runCycles cfg h cycles 0 { w := { u := u0 } }).1 with
                          w := emit .stopping (runCycles cfg h cycles 0 { w := { u := u0 } }).1.w }).2) := by
  constructor
  · intro x hx
    unfold run
    dsimp only
    split
    · rename_i hn; rw [hn] at hx; cases hx
    · rename_i y hy
      rw [hy] at hx; cases hx
      split <;> rfl
  · intro hn
    unfold run
    dsimp only
    split
    · rfl
    · rename_i y hy; rw [hy] at hn; cases hn

theorem removeAllFrom_err_sticky (cfg : Cfg) (hrec : cfg.recorder = true) (h : Hooks υ) (fuel s : Nat) (m : MapSt υ) (y : String) :
    (removeAllFrom cfg h fuel s m (some y)).2 = some y := by
  induction fuel generalizing s m with
  | zero => simp only [removeAllFrom]
  | succ fuel ih =>
    cases hr2 : (removeEntry cfg h s m).2 with
    | none =>
      have heq : removeAllFrom cfg h (fuel + 1) s m (some y) = removeAllFrom cfg h fuel (s + 1) (removeEntry cfg h s m).1 (some y) := by
        simp [removeAllFrom, hr2]
      rw [heq]; exact ih _ _
    | some x =>
      have heq : removeAllFrom cfg h (fuel + 1) s m (some y) = removeAllFrom cfg h fuel (s + 1) (removeEntry cfg h s m).1 (some y) := by
        simp [removeAllFrom, hr2, hrec]
      rw [heq]; exact ih _ _

/-- **The slot scan reports its first error** (repaired scan): slots whose stop succeeds are passed over, the error
    of the first slot whose stop throws is the result, whatever later slots do. -/
theorem removeAll_first_error (cfg : Cfg) (hrec : cfg.recorder = true) (h : Hooks υ) (fuel s : Nat) (m : MapSt υ) :
    ((removeEntry cfg h s m).2 = none →
      removeAllFrom cfg h (fuel + 1) s m none = removeAllFrom cfg h fuel (s + 1) (removeEntry cfg h s m).1 none) ∧
    (∀ x, (removeEntry cfg h s m).2 = some x → (removeAllFrom cfg h (fuel + 1) s m none).2 = some x) := by
  constructor
  · intro hn; simp [removeAllFrom, hn]
  · intro x hx
    have heq : removeAllFrom cfg h (fuel + 1) s m none = removeAllFrom cfg h fuel (s + 1) (removeEntry cfg h s m).1 (some x) := by
      simp [removeAllFrom, hx, hrec]
    rw [heq]; exact removeAllFrom_err_sticky cfg hrec h _ _ _ _

/-! ## a failing child start -/

/-- **A failing child start leaves nothing behind**: when `create_entry_at_slot` throws, the map has no entry for
    the failed child (its own started prefix was stopped by the child graph's rollback), every sibling entry is as it
    was, and no node is started that was not started before. (The started siblings are then stopped by the stop that
    ends the run: `run_clean_at_return`.) -/
theorem failed_child_start_leaves_nothing (cfg : Cfg) (h : Hooks υ) (s : Nat) (k : Int) (m : MapSt υ) (hI : Inv cfg.n m)
    (x : String) (hx : (createEntry cfg h s k m).2 = some x) :
    (∀ s', (createEntry cfg h s k m).1.ent s' = m.ent s') ∧
    (∀ c i, (Lw (createEntry cfg h s k m).1.w).st c i = .started → (Lw m.w).st c i = .started) ∧
    (Lw (createEntry cfg h s k m).1.w).bad = false := by
  obtain ⟨a1, _, a3⟩ := createEntry_spec cfg h s k m hI
  have hent := a3 (by rw [hx]; simp)
  refine ⟨hent, ?_, a1.ok⟩
  intro c i hs
  obtain ⟨hi, s', e', h1, h2, h3⟩ := a1.back c i hs
  rw [hent s'] at h1
  rw [← h3]
  exact (hI.st s' e' h1 h2).1 i hi

/-! ## what the ledger means: the hook sequence of every node -/

def isHook : NTag → Bool
  | .hS | .hSf | .hX | .hXf | .hE | .hEf => true
  | _ => false

/-- the hook calls of node `i` of child `c`, in trace order -/
def proj (c : Cid) (i : Nat) : List Ev → List NTag
  | [] => []
  | .n t c' i' :: rest => if c' = c ∧ i' = i ∧ isHook t = true then t :: proj c i rest else proj c i rest
  | .g _ _ :: rest => proj c i rest
  | .cyc _ :: rest => proj c i rest
  | .stopping :: rest => proj c i rest
  | .returned :: rest => proj c i rest

/-- the life of one node as an automaton over its hook calls -/
def nodeStep : NodeSt → NTag → Option NodeSt
  | .fresh, .hS => some .started
  | .fresh, .hSf => some .failed
  | .started, .hE => some .started
  | .started, .hEf => some .started
  | .started, .hX => some .stopped
  | .started, .hXf => some .stopped
  | _, _ => none

def nodeRun : NodeSt → List NTag → Option NodeSt
  | s, [] => some s
  | s, t :: rest => match nodeStep s t with
    | some s' => nodeRun s' rest
    | none => none

theorem step_bad_sticky (L : Ledger) (e : Ev) (hb : L.bad = true) : (L.step e).bad = true := by
  cases e with
  | n t c i => cases t <;> simp only [Ledger.step] <;> (try split) <;> simp_all
  | g t c => exact hb
  | cyc k => exact hb
  | stopping => exact hb
  | returned => exact hb

theorem foldl_bad_sticky (t : List Ev) (L : Ledger) (hb : L.bad = true) : (t.foldl Ledger.step L).bad = true := by
  induction t generalizing L with
  | nil => exact hb
  | cons e rest ih => exact ih _ (step_bad_sticky L e hb)

/-- one event against one node: a hook call of that node drives its automaton, anything else leaves it alone -/
theorem step_node (L : Ledger) (e : Ev) (c : Cid) (i : Nat) (hb : (L.step e).bad = false) :
    nodeRun (L.st c i) (proj c i [e]) = some ((L.step e).st c i) := by
  cases e with
  | g t c' => rfl
  | cyc k => rfl
  | stopping => rfl
  | returned => rfl
  | n t c' i' =>
    by_cases hci : c' = c ∧ i' = i
    · obtain ⟨h1, h2⟩ := hci
      subst h1; subst h2
      cases t <;> simp only [proj, isHook, and_self, if_true, Bool.false_eq_true, and_false, if_false, nodeRun] <;>
        first
          | rfl
          | (simp only [Ledger.step] at hb ⊢
             split at hb
             · rename_i hst
               simp only [hst, nodeStep, if_true, setSt_same]
             · simp at hb)
    · have hst : (L.step (.n t c' i')).st c i = L.st c i := by
        have hne : c ≠ c' ∨ i ≠ i' := by
          by_cases hc : c = c'
          · right; intro hi; exact hci ⟨hc.symm, hi.symm⟩
          · left; exact hc
        cases t <;> simp only [Ledger.step] <;> (try split) <;> first | rfl | exact setSt_other _ _ _ _ _ _ hne
      have hp : proj c i [.n t c' i'] = [] := by
        simp only [proj]
        rw [if_neg]
        intro h3
        exact hci ⟨h3.1, h3.2.1⟩
      rw [hp, hst]; rfl

theorem proj_cons (c : Cid) (i : Nat) (e : Ev) (t : List Ev) : proj c i (e :: t) = proj c i [e] ++ proj c i t := by
  cases e with
  | n t' c' i' => simp only [proj]; split <;> simp
  | g _ _ => rfl
  | cyc _ => rfl
  | stopping => rfl
  | returned => rfl

theorem nodeRun_append (s : NodeSt) (a b : List NTag) :
    nodeRun s (a ++ b) = match nodeRun s a with | some s' => nodeRun s' b | none => none := by
  induction a generalizing s with
  | nil => rfl
  | cons t rest ih =>
    simp only [List.cons_append, nodeRun]
    cases nodeStep s t with
    | none => rfl
    | some s' => exact ih s'

theorem ledger_node_gen (t : List Ev) (L : Ledger) (c : Cid) (i : Nat) (hb : (t.foldl Ledger.step L).bad = false) :
    nodeRun (L.st c i) (proj c i t) = some ((t.foldl Ledger.step L).st c i) := by
  induction t generalizing L with
  | nil => rfl
  | cons e rest ih =>
    have hb1 : (L.step e).bad = false := by
      cases hx : (L.step e).bad with
      | false => rfl
      | true =>
        have := foldl_bad_sticky rest _ hx
        rw [List.foldl_cons] at hb
        rw [this] at hb; cases hb
    rw [proj_cons, nodeRun_append, step_node L e c i hb1]
    exact ih (L.step e) hb

/-- a trace without violation: every node's hook calls are accepted by the node automaton, which ends in the
    state the ledger holds -/
theorem ledger_node (t : List Ev) (c : Cid) (i : Nat) (hb : (ledgerOf t).bad = false) :
    nodeRun .fresh (proj c i t) = some ((ledgerOf t).st c i) :=
  ledger_node_gen t {} c i hb

def isEval (t : NTag) : Prop := t = .hE ∨ t = .hEf
def isStop (t : NTag) : Prop := t = .hX ∨ t = .hXf

theorem nodeRun_dead (s : NodeSt) (hs : s = .failed ∨ s = .stopped) (l : List NTag) (r : NodeSt)
    (h : nodeRun s l = some r) : l = [] ∧ r = s := by
  cases l with
  | nil => simp only [nodeRun] at h; cases h; exact ⟨rfl, rfl⟩
  | cons t rest =>
    rcases hs with hs | hs <;> subst hs <;> cases t <;> simp [nodeRun, nodeStep] at h

theorem nodeRun_started (l : List NTag) (r : NodeSt) (h : nodeRun .started l = some r) :
    (r = .started ∧ ∀ y, y ∈ l → isEval y) ∨
    (r = .stopped ∧ ∃ evs x, l = evs ++ [x] ∧ (∀ y, y ∈ evs → isEval y) ∧ isStop x) := by
  induction l with
  | nil => simp only [nodeRun] at h; cases h; exact Or.inl ⟨rfl, by intro y hy; cases hy⟩
  | cons t rest ih =>
    cases t <;> simp only [nodeRun, nodeStep] at h <;> try (cases h)
    · -- hX
      obtain ⟨h1, h2⟩ := nodeRun_dead .stopped (Or.inr rfl) rest r h
      subst h1; subst h2
      exact Or.inr ⟨rfl, [], .hX, rfl, (by intro y hy; cases hy), Or.inl rfl⟩
    · -- hXf
      obtain ⟨h1, h2⟩ := nodeRun_dead .stopped (Or.inr rfl) rest r h
      subst h1; subst h2
      exact Or.inr ⟨rfl, [], .hXf, rfl, (by intro y hy; cases hy), Or.inr rfl⟩
    · -- hE
      rcases ih h with ⟨h1, h2⟩ | ⟨h1, evs, x, h2, h3, h4⟩
      · exact Or.inl ⟨h1, by intro y hy; cases hy with | head => exact Or.inl rfl | tail _ hy' => exact h2 y hy'⟩
      · exact Or.inr ⟨h1, .hE :: evs, x, by rw [h2]; rfl,
          by intro y hy; cases hy with | head => exact Or.inl rfl | tail _ hy' => exact h3 y hy', h4⟩
    · -- hEf
      rcases ih h with ⟨h1, h2⟩ | ⟨h1, evs, x, h2, h3, h4⟩
      · exact Or.inl ⟨h1, by intro y hy; cases hy with | head => exact Or.inr rfl | tail _ hy' => exact h2 y hy'⟩
      · exact Or.inr ⟨h1, .hEf :: evs, x, by rw [h2]; rfl,
          by intro y hy; cases hy with | head => exact Or.inr rfl | tail _ hy' => exact h3 y hy', h4⟩

/-- **Exactly once, spelled out**: in a trace without violation in which nothing is left started, the hook calls of
    every node of every child instance are: none at all; or one failed start and nothing else; or ONE completed
    start, then evaluations only, then ONE stop (completed or throwing) and nothing after it. -/
theorem node_language (t : List Ev) (hb : (ledgerOf t).bad = false) (hc : Clean (ledgerOf t)) (c : Cid) (i : Nat) :
    proj c i t = [] ∨ proj c i t = [.hSf] ∨
    ∃ evs x, proj c i t = .hS :: (evs ++ [x]) ∧ (∀ y, y ∈ evs → isEval y) ∧ isStop x := by
  have h := ledger_node t c i hb
  have hne := hc c i
  cases hl : proj c i t with
  | nil => exact Or.inl rfl
  | cons a rest =>
    rw [hl] at h
    cases a <;> simp only [nodeRun, nodeStep] at h <;> try (cases h)
    · -- hS
      rcases nodeRun_started rest _ h with ⟨h1, _⟩ | ⟨_, evs, x, h2, h3, h4⟩
      · exact absurd h1 hne
      · exact Or.inr (Or.inr ⟨evs, x, by rw [h2], h3, h4⟩)
    · -- hSf
      obtain ⟨h1, _⟩ := nodeRun_dead .failed (Or.inl rfl) rest _ h
      exact Or.inr (Or.inl (by rw [h1]))

/-- the statement for the runs of the model: at the release of the executor, always; at the return of `run()` with
    the repaired scan and clean-up on (or no error) -/
theorem run_node_language (cfg : Cfg) (h : Hooks υ) (cycles : List CycleIn) (u0 : υ) (c : Cid) (i : Nat) :
    let t := (run cfg h cycles u0).fin.w.tr
    proj c i t = [] ∨ proj c i t = [.hSf] ∨
    ∃ evs x, proj c i t = .hS :: (evs ++ [x]) ∧ (∀ y, y ∈ evs → isEval y) ∧ isStop x :=
  node_language _ (run_no_violation cfg h cycles u0).2 (run_clean_at_release cfg h cycles u0) c i

/-! ## the slot scan WITHOUT the recorder (the tree before `fixes/c14_map_stop.patch`) -/

theorem removeEntry_other (cfg : Cfg) (h : Hooks υ) (s : Nat) (m : MapSt υ) (s' : Nat) (hne : s' ≠ s) :
    (removeEntry cfg h s m).1.ent s' = m.ent s' := by
  unfold removeEntry
  cases hes : m.ent s with
  | none => rfl
  | some e =>
    dsimp only
    split
    · exact setEnt_other _ _ _ _ hne
    · rfl

/-- **Only a prefix is stopped** by the unrepaired scan: the first slot whose child stop throws ends it, every later
    slot is exactly as it was — a child that was started there stays started. -/
theorem removeAll_current_prefix (cfg : Cfg) (hrec : cfg.recorder = false) (h : Hooks υ) (fuel s : Nat) (m : MapSt υ)
    (x : String) (hx : (removeEntry cfg h s m).2 = some x) :
    removeAllFrom cfg h (fuel + 1) s m none = ((removeEntry cfg h s m).1, some x) ∧
    ∀ s', s' ≠ s → (removeAllFrom cfg h (fuel + 1) s m none).1.ent s' = m.ent s' := by
  have heq : removeAllFrom cfg h (fuel + 1) s m none = ((removeEntry cfg h s m).1, some x) := by
    simp [removeAllFrom, hx, hrec]
  refine ⟨heq, ?_⟩
  intro s' hne
  rw [heq]
  exact removeEntry_other cfg h s m s' hne

/-- witness: two keys arrive in one cycle (slots 0 and 1), the stop of the child of key 1 throws -/
def exHooks : Hooks Unit :=
  { start := fun _ _ u => (u, none)
    stop := fun c _ u => (u, if c.key = 1 then some "stop" else none)
    eval := fun _ _ u => (u, none) }

def exCycles : List CycleIn :=
  [{ cap := 8, modified := true, live := [(0, 1), (1, 2)], added := [(0, 1), (1, 2)], ticked := [0, 1] }]

/-- **Counter-lemma for the unrepaired tree**: with the scan that stops at the first throwing child, the run above
    (clean-up on error ON) returns the stop error of child `1#1` while node 0 of child `2#1` is still started — the
    full-strength `run_clean_at_return` does NOT hold for that scan; the child is stopped only by the release of the
    executor.  With the recorder the same run leaves nothing started at the return. -/
theorem run_clean_at_return_prefix :
    (run { n := 1, cleanup := true, recorder := false } exHooks exCycles ()).err = some "stop" ∧
    (ledgerOf (run { n := 1, cleanup := true, recorder := false } exHooks exCycles ()).ret.w.tr).st ⟨2, 1⟩ 0 = .started ∧
    ¬ Clean (ledgerOf (run { n := 1, cleanup := true, recorder := false } exHooks exCycles ()).ret.w.tr) ∧
    (ledgerOf (run { n := 1, cleanup := true, recorder := false } exHooks exCycles ()).fin.w.tr).st ⟨2, 1⟩ 0 = .stopped ∧
    (ledgerOf (run { n := 1, cleanup := true, recorder := true } exHooks exCycles ()).ret.w.tr).st ⟨2, 1⟩ 0 = .stopped := by
  have hw : (ledgerOf (run { n := 1, cleanup := true, recorder := false } exHooks exCycles ()).ret.w.tr).st ⟨2, 1⟩ 0 = .started := by
    decide
  refine ⟨by decide, hw, ?_, by decide, by decide⟩
  intro hc
  exact hc ⟨2, 1⟩ 0 hw

/-! ## a throwing stop hook makes the child graph's stop report an error -/

theorem nodeStop_err (h : Hooks υ) (c : Cid) (i : Nat) (w : World υ) : (nodeStop h c i w).err = (h.stop c i w.u).2 := by
  unfold nodeStop
  simp only [emit_u]
  cases (h.stop c i w.u).2 <;> rfl

theorem stopLoop_err_sticky' {σ : Type} (stop : Nat → σ → StepRes σ) (k : Nat) (s : σ) (vis : List Nat) (e : Option String)
    (he : e ≠ none) : (stopLoop stop k s vis e).err ≠ none := by
  cases e with
  | none => exact absurd rfl he
  | some m => rw [stopLoop_err_some]; simp

/-- a node whose stop hook throws (whatever the state) makes the child graph's stop report an error -/
theorem stopLoop_err_of_throw (h : Hooks υ) (c : Cid) (k : Nat) (w : World υ) (vis : List Nat) (e : Option String)
    (j : Nat) (hj : j < k) (ht : ∀ u, (h.stop c j u).2 ≠ none) :
    (stopLoop (nodeStop h c) k w vis e).err ≠ none := by
  induction k generalizing w vis e with
  | zero => omega
  | succ k ih =>
    rw [stopLoop_succ]
    by_cases hjk : j = k
    · subst hjk
      apply stopLoop_err_sticky'
      rw [nodeStop_err]
      cases e with
      | some m => simp [keepFirst]
      | none => simp only [keepFirst]; exact ht _
    · exact ih _ _ _ (by omega)

theorem childStop_err_of_throw (h : Hooks υ) (n : Nat) (c : Cid) (w : World υ) (j : Nat) (hj : j < n)
    (ht : ∀ u, (h.stop c j u).2 ≠ none) : (childStop h n c w).2 ≠ none := by
  unfold childStop
  exact stopLoop_err_of_throw h c n _ [] none j hj ht

/-! ## the switch node

Everything below is for the code's order of `activate_branch` (`hord`: the outgoing branch is stopped BEFORE its slot is
retired), in both output modes (`cfg.fwd` false = owned output / `switch_teardown`, true = forwarding output). -/

structure SwInv (n : Nat) (m : SwSt υ) : Prop where
  ok : (Lw m.w).bad = false
  st : ∀ e, m.active = some e → e.started = true →
        (∀ i, i < n → (Lw m.w).st e.cid i = .started) ∧ e.gen ≤ m.gens e.key
  back : ∀ c i, (Lw m.w).st c i = .started → i < n ∧ ∃ e, m.active = some e ∧ e.started = true ∧ e.cid = c
  fresh : ∀ c : Cid, m.gens c.key < c.gen → ∀ i, (Lw m.w).st c i = .fresh
  /-- the graph in the retired slot was stopped before it was retired -/
  ret : ∀ e, m.retired = some e → e.started = false

def SwNoStarted (m : SwSt υ) : Prop := ∀ e, m.active = some e → e.started = false

theorem SwInv.init (n : Nat) (u0 : υ) : SwInv n ({ w := { u := u0 } } : SwSt υ) :=
  { ok := rfl
    st := by intro e h; cases h
    back := by intro c i h; cases h
    fresh := by intro c _ i; rfl
    ret := by intro e h; cases h }

theorem SwInv.setW {n : Nat} {m : SwSt υ} (hI : SwInv n m) (w' : World υ) (hw : Lw w' = Lw m.w) : SwInv n { m with w := w' } := by
  refine ⟨?_, ?_, ?_, ?_, hI.ret⟩
  · show (Lw w').bad = false; rw [hw]; exact hI.ok
  · intro e h1 h2; show (∀ i, i < n → (Lw w').st e.cid i = .started) ∧ _; rw [hw]; exact hI.st e h1 h2
  · intro c i h1; have : (Lw m.w).st c i = .started := by rw [← hw]; exact h1
    exact hI.back c i this
  · intro c h1 i; show (Lw w').st c i = .fresh; rw [hw]; exact hI.fresh c h1 i

theorem sw_clean_of_noStarted {n : Nat} {m : SwSt υ} (hI : SwInv n m) (hn : SwNoStarted m) : Clean (Lw m.w) := by
  intro c i hs
  obtain ⟨_, e, h1, h2, _⟩ := hI.back c i hs
  rw [hn e h1] at h2
  cases h2

/-- stopping the active branch: afterwards nothing is started, whatever throws; the nodes of the branch that was
    active are `stopped` -/
theorem swStop_spec (cfg : Cfg) (h : Hooks υ) (m : SwSt υ) (hI : SwInv cfg.n m) :
    SwInv cfg.n (swStop cfg h m).1 ∧ SwNoStarted (swStop cfg h m).1 ∧ (swStop cfg h m).1.gens = m.gens ∧
    (swStop cfg h m).1.retired = m.retired ∧
    (∀ e, m.active = some e → e.started = true →
      (∀ i, i < cfg.n → (Lw (swStop cfg h m).1.w).st e.cid i = .stopped) ∧
      (swStop cfg h m).2 = (childStop h cfg.n e.cid m.w).2 ∧
      (swStop cfg h m).1.active = some { e with started := false }) := by
  cases hes : m.active with
  | none =>
    have hr : swStop cfg h m = (m, none) := by simp only [swStop, hes]
    rw [hr]; exact ⟨hI, (by intro e he; rw [hes] at he; cases he), rfl, rfl, (by intro e he; cases he)⟩
  | some e =>
    cases hst : e.started with
    | false =>
      have hr : swStop cfg h m = (m, none) := by simp [swStop, hes, hst]
      rw [hr]
      exact ⟨hI, (by intro e' he; rw [hes] at he; cases he; exact hst), rfl, rfl,
        (by intro e' he hs; cases he; rw [hst] at hs; cases hs)⟩
    | true =>
      have hr : swStop cfg h m =
          ({ m with active := some { e with started := false }, w := (childStop h cfg.n e.cid m.w).1 },
           (childStop h cfg.n e.cid m.w).2) := by simp [swStop, hes, hst]
      rw [hr]
      dsimp only
      obtain ⟨hnodes, hgen⟩ := hI.st e hes hst
      obtain ⟨q1, q2, q3⟩ := childStop_spec h cfg.n e.cid m.w hI.ok hnodes
      have hnone : ∀ c i, (Lw (childStop h cfg.n e.cid m.w).1).st c i ≠ .started := by
        intro c i hs
        by_cases hc : c = e.cid
        · subst hc
          by_cases hi : i < cfg.n
          · rw [q2 i hi] at hs; cases hs
          · rw [q3 e.cid i (Or.inr (by omega))] at hs
            exact absurd (hI.back e.cid i hs).1 hi
        · rw [q3 c i (Or.inl hc)] at hs
          obtain ⟨_, e', h1, _, h3⟩ := hI.back c i hs
          rw [hes] at h1; cases h1; exact hc h3.symm
      refine ⟨⟨q1, ?_, ?_, ?_, hI.ret⟩, ?_, rfl, rfl, ?_⟩
      · intro e' h1 h2; dsimp only at h1; cases h1; cases h2
      · intro c i hs; exact absurd hs (hnone c i)
      · intro c hc i
        dsimp only at hc ⊢
        have hne : c ≠ e.cid := by
          intro heq; subst heq
          have : m.gens e.key < e.gen := hc
          omega
        rw [q3 c i (Or.inl hne)]
        exact hI.fresh c hc i
      · intro e' h1; dsimp only at h1; cases h1; rfl
      · intro e' he _; cases he
        exact ⟨q2, rfl, rfl⟩

/-- emptying the retired slot: under the invariant the graph there is stopped, so nothing happens to the world -/
theorem swDropRetired_spec (cfg : Cfg) (h : Hooks υ) (m : SwSt υ) (hI : SwInv cfg.n m) :
    swDropRetired cfg h m = { m with retired := none } := by
  unfold swDropRetired
  cases hr : m.retired with
  | none => cases m; simp_all
  | some e => simp [hI.ret e hr]

theorem SwInv.dropRetired {n : Nat} {m : SwSt υ} (hI : SwInv n m) : SwInv n { m with retired := none } :=
  ⟨hI.ok, hI.st, hI.back, hI.fresh, by intro e he; cases he⟩

/-- starting the new branch in a state where nothing is started -/
theorem swStartNew_spec (cfg : Cfg) (h : Hooks υ) (k : Int) (m : SwSt υ) (hI : SwInv cfg.n m)
    (hnone : ∀ c i, (Lw m.w).st c i ≠ .started) :
    SwInv cfg.n (swStartNew cfg h k m).1 ∧
    (∀ c i, c ≠ ⟨k, m.gens k + 1⟩ → (Lw (swStartNew cfg h k m).1.w).st c i = (Lw m.w).st c i) := by
  have hfr : ∀ j, (Lw m.w).st ⟨k, m.gens k + 1⟩ j = .fresh :=
    hI.fresh ⟨k, m.gens k + 1⟩ (by show m.gens k < m.gens k + 1; omega)
  obtain ⟨p1, p2, p3, p4, p5⟩ := childStart_spec h cfg.n ⟨k, m.gens k + 1⟩ m.w hI.ok hfr
  have hfresh' : ∀ c : Cid, setGen m.gens k (m.gens k + 1) c.key < c.gen →
      ∀ i, (Lw (childStart h cfg.n ⟨k, m.gens k + 1⟩ m.w).1).st c i = .fresh := by
    intro c hc i
    have hlt : m.gens c.key < c.gen := Nat.lt_of_le_of_lt (le_setGen _ k c.key) hc
    have hne : c ≠ ⟨k, m.gens k + 1⟩ := by
      intro heq; subst heq
      rw [setGen_same] at hc
      exact Nat.lt_irrefl _ hc
    rw [p2 c i hne]
    exact hI.fresh c hlt i
  unfold swStartNew
  dsimp only
  split
  · rename_i hok
    refine ⟨⟨p1, ?_, ?_, hfresh', hI.ret⟩, fun c i hc => p2 c i hc⟩
    · intro e h1 h2
      dsimp only at h1 ⊢
      cases h1
      refine ⟨fun i hi => p3 hok i hi, ?_⟩
      show m.gens k + 1 ≤ setGen m.gens k (m.gens k + 1) k
      rw [setGen_same]; exact Nat.le_refl _
    · intro c i hs
      dsimp only at hs ⊢
      by_cases hc : c = ⟨k, m.gens k + 1⟩
      · subst hc
        have hi : i < cfg.n := by
          apply Classical.byContradiction
          intro hni
          rw [p5 i (by omega)] at hs
          cases hs
        exact ⟨hi, ⟨k, m.gens k + 1, true⟩, rfl, rfl, rfl⟩
      · rw [p2 c i hc] at hs
        exact absurd hs (hnone c i)
  · rename_i x herr
    refine ⟨⟨p1, ?_, ?_, hfresh', hI.ret⟩, fun c i hc => p2 c i hc⟩
    · intro e h1 h2; dsimp only at h1; cases h1; cases h2
    · intro c i hs
      dsimp only at hs
      have hc : c ≠ ⟨k, m.gens k + 1⟩ := by
        intro heq; subst heq
        exact p4 (by rw [herr]; simp) i hs
      rw [p2 c i hc] at hs
      exact absurd hs (hnone c i)

/-- the state in which the new branch is started: the stopped outgoing branch sits in the retired slot -/
theorem sw_retire_inv (cfg : Cfg) (h : Hooks υ) (m : SwSt υ) (hI : SwInv cfg.n m) :
    SwInv cfg.n { (swStop cfg h { m with retired := none }).1 with
                  retired := (swStop cfg h { m with retired := none }).1.active, active := none, activeKey := none } ∧
    (∀ c i, (Lw (swStop cfg h { m with retired := none }).1.w).st c i ≠ .started) := by
  obtain ⟨a1, a2, _, _, _⟩ := swStop_spec cfg h { m with retired := none } hI.dropRetired
  have hnone : ∀ c i, (Lw (swStop cfg h { m with retired := none }).1.w).st c i ≠ .started := by
    intro c i hs
    obtain ⟨_, e, h1, h2, _⟩ := a1.back c i hs
    rw [a2 e h1] at h2; cases h2
  refine ⟨⟨a1.ok, ?_, ?_, a1.fresh, ?_⟩, hnone⟩
  · intro e he; cases he
  · intro c i hs; exact absurd hs (hnone c i)
  · intro e he; exact a2 e he

theorem swActivate_inv (cfg : Cfg) (hord : (cfg.fwd && cfg.retireFirst) = false) (h : Hooks υ) (k : Int) (m : SwSt υ)
    (hI : SwInv cfg.n m) : SwInv cfg.n (swActivate cfg h k m).1 := by
  obtain ⟨b1, b2⟩ := sw_retire_inv cfg h m hI
  have a1 := (swStop_spec cfg h { m with retired := none } hI.dropRetired).1
  unfold swActivate
  rw [swDropRetired_spec cfg h m hI]
  simp only [hord, Bool.false_eq_true, if_false]
  split
  · exact a1
  · exact (swStartNew_spec cfg h k _ b1 b2).1

/-- **The outgoing branch is stopped in the cycle of the key change**: whatever the stop hooks of the outgoing
    branch and the start hooks of the incoming branch do, after `activate_branch` every node of the branch that was
    active is `stopped` (owned and forwarding output alike). -/
theorem sw_outgoing_stopped_at_key_change (cfg : Cfg) (hord : (cfg.fwd && cfg.retireFirst) = false) (h : Hooks υ) (k : Int)
    (m : SwSt υ) (hI : SwInv cfg.n m) (e : Entry) (hact : m.active = some e) (hst : e.started = true) :
    ∀ i, i < cfg.n → (Lw (swActivate cfg h k m).1.w).st e.cid i = .stopped := by
  obtain ⟨b1, b2⟩ := sw_retire_inv cfg h m hI
  obtain ⟨a1, _, a3, _, a5⟩ := swStop_spec cfg h { m with retired := none } hI.dropRetired
  obtain ⟨q, _, _⟩ := a5 e hact hst
  have hgen : e.gen ≤ m.gens e.key := (hI.st e hact hst).2
  unfold swActivate
  rw [swDropRetired_spec cfg h m hI]
  simp only [hord, Bool.false_eq_true, if_false]
  intro i hi
  split
  · exact q i hi
  · have hne : e.cid ≠ ⟨k, (swStop cfg h { m with retired := none }).1.gens k + 1⟩ := by
      intro heq
      have hk : e.key = k := congrArg Cid.key heq
      have hg : e.gen = (swStop cfg h { m with retired := none }).1.gens k + 1 := congrArg Cid.gen heq
      rw [a3] at hg
      rw [hk] at hgen
      have : e.gen = m.gens k + 1 := hg
      omega
    rw [(swStartNew_spec cfg h k _ b1 b2).2 e.cid i hne]
    exact q i hi

/-- **A stop error of the outgoing branch reaches the caller**: if a node of the active branch has a stop hook that
    throws, a key change fails — `activate_branch` throws (the new branch is not even started), so the switch node's
    evaluation fails and ends the run (`swRun_first_error`). -/
theorem sw_outgoing_stop_error_reaches_caller (cfg : Cfg) (hord : (cfg.fwd && cfg.retireFirst) = false) (h : Hooks υ) (k : Int)
    (m : SwSt υ) (hI : SwInv cfg.n m) (e : Entry) (hact : m.active = some e) (hst : e.started = true)
    (j : Nat) (hj : j < cfg.n) (ht : ∀ u, (h.stop e.cid j u).2 ≠ none) :
    (swActivate cfg h k m).2 ≠ none ∧ (swActivate cfg h k m).1.active = some { e with started := false } := by
  obtain ⟨_, _, _, _, a5⟩ := swStop_spec cfg h { m with retired := none } hI.dropRetired
  obtain ⟨_, herr, hact'⟩ := a5 e hact hst
  have hthrow : (swStop cfg h { m with retired := none }).2 ≠ none := by
    rw [herr]; exact childStop_err_of_throw h cfg.n e.cid m.w j hj ht
  unfold swActivate
  rw [swDropRetired_spec cfg h m hI]
  simp only [hord, Bool.false_eq_true, if_false]
  split
  · rename_i x hx; exact ⟨by simp, hact'⟩
  · rename_i hn; exact absurd hn hthrow

theorem swCycle_inv (cfg : Cfg) (hord : (cfg.fwd && cfg.retireFirst) = false) (h : Hooks υ) (I : SwIn) (m : SwSt υ)
    (hI : SwInv cfg.n m) : SwInv cfg.n (swCycle cfg h I m).1 := by
  -- the state after the (possible) activation
  have key : ∀ m1 : SwSt υ, SwInv cfg.n m1 →
      SwInv cfg.n (match m1.active with
        | some e =>
          if (e.started && I.ticked) = true then
            ({ m1 with w := (childEval h cfg.n e.cid m1.w).1 }, (childEval h cfg.n e.cid m1.w).2)
          else (m1, none)
        | none => (m1, none)).1 := by
    intro m1 h1
    split
    · rename_i e he
      split
      · rename_i hc
        have hst : e.started = true := by
          cases hs : e.started with
          | true => rfl
          | false => rw [hs] at hc; simp at hc
        exact h1.setW _ (childEval_spec h cfg.n e.cid m1.w (h1.st e he hst).1)
      · exact h1
    · exact h1
  unfold swCycle
  by_cases ha : I.active = true
  · simp only [ha, Bool.not_true, Bool.false_eq_true, if_false]
    have hact : SwInv cfg.n (match I.key with
        | some k => if (m.active.isSome && m.activeKey == some k) = true then (m, none) else swActivate cfg h k m
        | none => (m, (none : Option String))).1 := by
      split
      · split
        · exact hI
        · exact swActivate_inv cfg hord h _ m hI
      · exact hI
    split
    · exact hact
    · exact key _ hact
  · have ha' : I.active = false := by cases haa : I.active <;> simp_all
    simp only [ha', Bool.not_false, if_true]
    exact hI

theorem swRunCycles_inv (cfg : Cfg) (hord : (cfg.fwd && cfg.retireFirst) = false) (h : Hooks υ) (l : List SwIn) (k : Nat)
    (m : SwSt υ) (hI : SwInv cfg.n m) : SwInv cfg.n (swRunCycles cfg h l k m).1 := by
  induction l generalizing k m with
  | nil => exact hI
  | cons I rest ih =>
    have hI' : SwInv cfg.n { m with w := emit (.cyc k) m.w } := hI.setW _ (emit_mark_Lw _ _ (Or.inr (Or.inr ⟨k, rfl⟩)))
    have a1 := swCycle_inv cfg hord h I _ hI'
    cases hr : (swCycle cfg h I { m with w := emit (.cyc k) m.w }).2 with
    | none =>
      have heq : swRunCycles cfg h (I :: rest) k m = swRunCycles cfg h rest (k + 1) (swCycle cfg h I { m with w := emit (.cyc k) m.w }).1 := by
        simp [swRunCycles, hr]
      rw [heq]; exact ih _ _ a1
    | some x =>
      have heq : swRunCycles cfg h (I :: rest) k m = ((swCycle cfg h I { m with w := emit (.cyc k) m.w }).1, some x) := by
        simp [swRunCycles, hr]
      rw [heq]; exact a1

/-- the release: stop the active branch, empty the retired slot -/
theorem swRelease_spec (cfg : Cfg) (h : Hooks υ) (m : SwSt υ) (hI : SwInv cfg.n m) :
    SwInv cfg.n (swDropRetired cfg h (swStop cfg h m).1) ∧ SwNoStarted (swDropRetired cfg h (swStop cfg h m).1) := by
  obtain ⟨a1, a2, _, _, _⟩ := swStop_spec cfg h m hI
  rw [swDropRetired_spec cfg h _ a1]
  exact ⟨a1.dropRetired, a2⟩

theorem swRun_spec (cfg : Cfg) (hord : (cfg.fwd && cfg.retireFirst) = false) (h : Hooks υ) (cycles : List SwIn) (u0 : υ) :
    SwInv cfg.n (swRun cfg h cycles u0).ret ∧ SwInv cfg.n (swRun cfg h cycles u0).fin ∧ SwNoStarted (swRun cfg h cycles u0).fin ∧
    ((cfg.cleanup = true ∨ (swRun cfg h cycles u0).err = none) → SwNoStarted (swRun cfg h cycles u0).ret) := by
  have h0 := swRunCycles_inv cfg hord h cycles 0 { w := { u := u0 } } (SwInv.init cfg.n u0)
  have h1 := h0.setW (emit .stopping (swRunCycles cfg h cycles 0 { w := { u := u0 } }).1.w) (emit_mark_Lw _ _ (Or.inl rfl))
  obtain ⟨s1, s2, _⟩ := swStop_spec cfg h _ h1
  have h2 := s1.setW (emit .returned (swStop cfg h { (swRunCycles cfg h cycles 0 { w := { u := u0 } }).1 with
      w := emit .stopping (swRunCycles cfg h cycles 0 { w := { u := u0 } }).1.w }).1.w) (emit_mark_Lw _ _ (Or.inr (Or.inl rfl)))
  have h3 := h0.setW (emit .returned (swRunCycles cfg h cycles 0 { w := { u := u0 } }).1.w) (emit_mark_Lw _ _ (Or.inr (Or.inl rfl)))
  unfold swRun
  dsimp only
  split
  · exact ⟨h2, (swRelease_spec cfg h _ h2).1, (swRelease_spec cfg h _ h2).2, fun _ => s2⟩
  · split
    · exact ⟨h2, (swRelease_spec cfg h _ h2).1, (swRelease_spec cfg h _ h2).2, fun _ => s2⟩
    · rename_i hcl
      refine ⟨h3, (swRelease_spec cfg h _ h3).1, (swRelease_spec cfg h _ h3).2, ?_⟩
      intro hc
      rcases hc with hc | hc
      · exact absurd hc hcl
      · cases hc

/-- switch_ (owned or forwarding output): no lifecycle violation in any run (all key sequences, all fault assignments) -/
theorem swRun_no_violation (cfg : Cfg) (hord : (cfg.fwd && cfg.retireFirst) = false) (h : Hooks υ) (cycles : List SwIn) (u0 : υ) :
    (ledgerOf (swRun cfg h cycles u0).ret.w.tr).bad = false ∧ (ledgerOf (swRun cfg h cycles u0).fin.w.tr).bad = false :=
  ⟨(swRun_spec cfg hord h cycles u0).1.ok, (swRun_spec cfg hord h cycles u0).2.1.ok⟩

/-- switch_: with clean-up on error (or no error) the branches — the replaced ones and the active one — are all
    stopped when `run()` returns -/
theorem swRun_clean_at_return (cfg : Cfg) (hord : (cfg.fwd && cfg.retireFirst) = false) (h : Hooks υ) (cycles : List SwIn) (u0 : υ)
    (hc : cfg.cleanup = true ∨ (swRun cfg h cycles u0).err = none) :
    Clean (ledgerOf (swRun cfg h cycles u0).ret.w.tr) :=
  sw_clean_of_noStarted (swRun_spec cfg hord h cycles u0).1 ((swRun_spec cfg hord h cycles u0).2.2.2 hc)

/-- switch_: … and in every configuration by the release of the executor -/
theorem swRun_clean_at_release (cfg : Cfg) (hord : (cfg.fwd && cfg.retireFirst) = false) (h : Hooks υ) (cycles : List SwIn) (u0 : υ) :
    Clean (ledgerOf (swRun cfg h cycles u0).fin.w.tr) :=
  sw_clean_of_noStarted (swRun_spec cfg hord h cycles u0).2.1 (swRun_spec cfg hord h cycles u0).2.2.1

/-- switch_: an error of a cycle — a throwing stop of the outgoing branch, a throwing start of the incoming one, an
    evaluation error — is what `run()` throws; the stop that follows cannot replace it -/
theorem swRun_first_error (cfg : Cfg) (h : Hooks υ) (cycles : List SwIn) (u0 : υ) (x : String)
    (hx : (swRunCycles cfg h cycles 0 { w := { u := u0 } }).2 = some x) : (swRun cfg h cycles u0).err = some x := by
  unfold swRun
  dsimp only
  split
  · rename_i hn; rw [hn] at hx; cases hx
  · rename_i y hy
    rw [hy] at hx; cases hx
    split <;> rfl

/-- **Counter-lemma for the order of seed s88** (forwarding output, slot retired before the stop): key 1 then key 2,
    the stop of branch `1#1` throws.  The outgoing branch is never stopped at the key change: `run()` returns NORMALLY
    with node 0 of `1#1` still started (it is stopped only when the storage is destroyed, its error swallowed); in
    the code's order the same run fails with the stop error in the cycle of the key change and `1#1` is stopped. -/
theorem swRun_retire_first_prefix :
    (swRun { n := 1, fwd := true, retireFirst := true } exHooks [{ key := some 1, ticked := true }, { key := some 2, ticked := true }] ()).err = none ∧
    (ledgerOf (swRun { n := 1, fwd := true, retireFirst := true } exHooks
        [{ key := some 1, ticked := true }, { key := some 2, ticked := true }] ()).ret.w.tr).st ⟨1, 1⟩ 0 = .started ∧
    ¬ Clean (ledgerOf (swRun { n := 1, fwd := true, retireFirst := true } exHooks
        [{ key := some 1, ticked := true }, { key := some 2, ticked := true }] ()).ret.w.tr) ∧
    (ledgerOf (swRun { n := 1, fwd := true, retireFirst := true } exHooks
        [{ key := some 1, ticked := true }, { key := some 2, ticked := true }] ()).fin.w.tr).st ⟨1, 1⟩ 0 = .stopped ∧
    (swRun { n := 1, fwd := true } exHooks [{ key := some 1, ticked := true }, { key := some 2, ticked := true }] ()).err = some "stop" ∧
    (ledgerOf (swRun { n := 1, fwd := true } exHooks
        [{ key := some 1, ticked := true }, { key := some 2, ticked := true }] ()).ret.w.tr).st ⟨1, 1⟩ 0 = .stopped := by
  have hw : (ledgerOf (swRun { n := 1, fwd := true, retireFirst := true } exHooks
        [{ key := some 1, ticked := true }, { key := some 2, ticked := true }] ()).ret.w.tr).st ⟨1, 1⟩ 0 = .started := by
    decide
  refine ⟨by decide, hw, ?_, by decide, by decide, by decide⟩
  intro hc
  exact hc ⟨1, 1⟩ 0 hw

/-! ## the reduce node -/

theorem redStartList_inv (cfg : Cfg) (h : Hooks υ) (l : List Nat) (m : RedSt υ) (acc : List Nat) (hI : Inv cfg.n m.m) :
    Inv cfg.n (redStartList cfg h l m acc).1.m := by
  induction l generalizing m acc with
  | nil => exact hI
  | cons s rest ih =>
    cases hes : m.m.ent s with
    | some e =>
      have heq : redStartList cfg h (s :: rest) m acc = redStartList cfg h rest m acc := by simp only [redStartList, hes]
      rw [heq]; exact ih m acc hI
    | none =>
      have a1 := (createEntry_spec cfg h s (Int.ofNat (m.next + 1)) m.m hI).1
      cases hr : (createEntry cfg h s (Int.ofNat (m.next + 1)) m.m).2 with
      | none =>
        have heq : redStartList cfg h (s :: rest) m acc =
            redStartList cfg h rest { m := (createEntry cfg h s (Int.ofNat (m.next + 1)) m.m).1, next := m.next + 1 } (s :: acc) := by
          simp only [redStartList, hes, hr]
        rw [heq]; exact ih _ _ a1
      | some x =>
        have heq : redStartList cfg h (s :: rest) m acc =
            ({ m := (createEntry cfg h s (Int.ofNat (m.next + 1)) m.m).1, next := m.next + 1 }, acc, some x) := by
          simp only [redStartList, hes, hr]
        rw [heq]; exact a1

theorem redRebuild_inv (cfg : Cfg) (h : Hooks υ) (I : RedIn) (m : RedSt υ) (hI : Inv cfg.n m.m) :
    Inv cfg.n (redRebuild cfg h I m).1.m := by
  have a1 := redStartList_inv cfg h I.create m [] hI
  unfold redRebuild
  dsimp only
  split
  · exact destroyFold_inv cfg h _ _ a1
  · exact destroyFold_inv cfg h _ _ a1

theorem redCycle_inv (cfg : Cfg) (h : Hooks υ) (I : RedIn) (m : RedSt υ) (hI : Inv cfg.n m.m) :
    Inv cfg.n (redCycle cfg h I m).1.m := by
  have a1 := redRebuild_inv cfg h I m hI
  unfold redCycle
  dsimp only
  split
  · exact hI
  · split
    · exact a1
    · exact evalSlots_inv cfg h I.ticked _ a1

theorem redRunCycles_inv (cfg : Cfg) (h : Hooks υ) (l : List RedIn) (k : Nat) (m : RedSt υ) (hI : Inv cfg.n m.m) :
    Inv cfg.n (redRunCycles cfg h l k m).1.m := by
  induction l generalizing k m with
  | nil => exact hI
  | cons I rest ih =>
    have hI' : Inv cfg.n ({ m with m := { m.m with w := emit (.cyc k) m.m.w } } : RedSt υ).m :=
      hI.setW _ (emit_mark_Lw _ _ (Or.inr (Or.inr ⟨k, rfl⟩)))
    have a1 := redCycle_inv cfg h I _ hI'
    cases hr : (redCycle cfg h I { m with m := { m.m with w := emit (.cyc k) m.m.w } }).2 with
    | none =>
      have heq : redRunCycles cfg h (I :: rest) k m =
          redRunCycles cfg h rest (k + 1) (redCycle cfg h I { m with m := { m.m with w := emit (.cyc k) m.m.w } }).1 := by
        simp [redRunCycles, hr]
      rw [heq]; exact ih _ _ a1
    | some x =>
      have heq : redRunCycles cfg h (I :: rest) k m =
          ((redCycle cfg h I { m with m := { m.m with w := emit (.cyc k) m.m.w } }).1, some x) := by
        simp [redRunCycles, hr]
      rw [heq]; exact a1

theorem redRun_spec (cfg : Cfg) (h : Hooks υ) (cycles : List RedIn) (u0 : υ) :
    Inv cfg.n (redRun cfg h cycles u0).ret ∧ Inv cfg.n (redRun cfg h cycles u0).fin ∧ NoStarted (redRun cfg h cycles u0).fin ∧
    (cfg.recorder = true → (cfg.cleanup = true ∨ (redRun cfg h cycles u0).err = none) → NoStarted (redRun cfg h cycles u0).ret) := by
  have h0 := redRunCycles_inv cfg h cycles 0 { m := { w := { u := u0 } } } (Inv.init cfg.n u0)
  have h1 := h0.setW (emit .stopping (redRunCycles cfg h cycles 0 { m := { w := { u := u0 } } }).1.m.w) (emit_mark_Lw _ _ (Or.inl rfl))
  obtain ⟨s1, s2⟩ := mapStop_spec cfg h _ h1
  have h2 := s1.setW (emit .returned (mapStop cfg h { (redRunCycles cfg h cycles 0 { m := { w := { u := u0 } } }).1.m with
      w := emit .stopping (redRunCycles cfg h cycles 0 { m := { w := { u := u0 } } }).1.m.w }).1.w) (emit_mark_Lw _ _ (Or.inr (Or.inl rfl)))
  have h3 := h0.setW (emit .returned (redRunCycles cfg h cycles 0 { m := { w := { u := u0 } } }).1.m.w) (emit_mark_Lw _ _ (Or.inr (Or.inl rfl)))
  unfold redRun
  dsimp only
  split
  · exact ⟨h2, (release_spec cfg h true _ h2).1, (release_spec cfg h true _ h2).2, fun hrec _ => s2 hrec⟩
  · split
    · exact ⟨h2, (release_spec cfg h true _ h2).1, (release_spec cfg h true _ h2).2, fun hrec _ => s2 hrec⟩
    · rename_i hcl
      refine ⟨h3, (release_spec cfg h false _ h3).1, (release_spec cfg h false _ h3).2, ?_⟩
      intro _ hc
      rcases hc with hc | hc
      · exact absurd hc hcl
      · cases hc

/-- reduce_: no lifecycle violation in any run — every tree history (`List RedIn`: arbitrary created / retired / due
    slot lists), every fault assignment, clean-up on or off -/
theorem reduce_run_no_violation (cfg : Cfg) (h : Hooks υ) (cycles : List RedIn) (u0 : υ) :
    (ledgerOf (redRun cfg h cycles u0).ret.w.tr).bad = false ∧ (ledgerOf (redRun cfg h cycles u0).fin.w.tr).bad = false :=
  ⟨(redRun_spec cfg h cycles u0).1.ok, (redRun_spec cfg h cycles u0).2.1.ok⟩

/-- reduce_ (`reduce_node_stop` with its first-exception recorder, as at HEAD): with clean-up on error, or without an
    error, every combiner — retired during the run, rolled back, or live at the end — is stopped when `run()` returns -/
theorem reduce_clean_at_return (cfg : Cfg) (hrec : cfg.recorder = true) (h : Hooks υ) (cycles : List RedIn) (u0 : υ)
    (hc : cfg.cleanup = true ∨ (redRun cfg h cycles u0).err = none) :
    Clean (ledgerOf (redRun cfg h cycles u0).ret.w.tr) :=
  clean_of_noStarted (redRun_spec cfg h cycles u0).1 ((redRun_spec cfg h cycles u0).2.2.2 hrec hc)

/-- reduce_: … and in every configuration by the release of the executor -/
theorem reduce_clean_at_release (cfg : Cfg) (h : Hooks υ) (cycles : List RedIn) (u0 : υ) :
    Clean (ledgerOf (redRun cfg h cycles u0).fin.w.tr) :=
  clean_of_noStarted (redRun_spec cfg h cycles u0).2.1 (redRun_spec cfg h cycles u0).2.2.1

/-! ### a stop error of a live combiner reaches the caller -/

theorem removeEntry_err_of_throw (cfg : Cfg) (h : Hooks υ) (s : Nat) (m : MapSt υ) (e : Entry) (hes : m.ent s = some e)
    (hst : e.started = true) (j : Nat) (hj : j < cfg.n) (ht : ∀ u, (h.stop e.cid j u).2 ≠ none) :
    (removeEntry cfg h s m).2 ≠ none := by
  have hr : (removeEntry cfg h s m).2 = (childStop h cfg.n e.cid m.w).2 := by simp [removeEntry, hes, hst]
  rw [hr]
  exact childStop_err_of_throw h cfg.n e.cid m.w j hj ht

/-- the repaired slot scan reports an error as soon as ONE scanned slot holds a started child with a throwing stop hook -/
theorem removeAllFrom_err_of_throw (cfg : Cfg) (hrec : cfg.recorder = true) (h : Hooks υ) (fuel s : Nat) (m : MapSt υ)
    (t : Nat) (e : Entry) (h1 : s ≤ t) (h2 : t < s + fuel) (hes : m.ent t = some e) (hst : e.started = true)
    (j : Nat) (hj : j < cfg.n) (ht : ∀ u, (h.stop e.cid j u).2 ≠ none) :
    (removeAllFrom cfg h fuel s m none).2 ≠ none := by
  induction fuel generalizing s m with
  | zero => omega
  | succ fuel ih =>
    obtain ⟨f1, f2⟩ := removeAll_first_error cfg hrec h fuel s m
    cases hr : (removeEntry cfg h s m).2 with
    | some x => rw [f2 x hr]; simp
    | none =>
      rw [f1 hr]
      have hne : t ≠ s := by
        intro heq; subst heq
        exact removeEntry_err_of_throw cfg h t m e hes hst j hj ht hr
      exact ih (s + 1) _ (by omega) (by omega) (by rw [removeEntry_other cfg h s m t hne]; exact hes)

/-- **A combiner stop error reaches the caller** (the clause seed s65 falsifies).  When nothing failed before the
    parent's stop, `run()` reports exactly the first error of the scan over the live combiners
    (`removeAll_first_error`: the first slot, in ascending position, whose stop throws) — and that is an error whenever
    some live combiner has a node whose stop hook throws: `run()` cannot return normally. -/
theorem reduce_stop_error_reaches_caller (cfg : Cfg) (hrec : cfg.recorder = true) (h : Hooks υ) (cycles : List RedIn) (u0 : υ)
    (hno : (redRunCycles cfg h cycles 0 { m := { w := { u := u0 } } }).2 = none) :
    (redRun cfg h cycles u0).err =
      (mapStop cfg h { (redRunCycles cfg h cycles 0 { m := { w := { u := u0 } } }).1.m with
                        w := emit .stopping (redRunCycles cfg h cycles 0 { m := { w := { u := u0 } } }).1.m.w }).2 ∧
    (∀ s e j, (redRunCycles cfg h cycles 0 { m := { w := { u := u0 } } }).1.m.ent s = some e → e.started = true →
        j < cfg.n → (∀ u, (h.stop e.cid j u).2 ≠ none) → (redRun cfg h cycles u0).err ≠ none) := by
  have herr : (redRun cfg h cycles u0).err =
      (mapStop cfg h { (redRunCycles cfg h cycles 0 { m := { w := { u := u0 } } }).1.m with
                        w := emit .stopping (redRunCycles cfg h cycles 0 { m := { w := { u := u0 } } }).1.m.w }).2 := by
    unfold redRun
    dsimp only
    split
    · rfl
    · rename_i y hy; rw [hy] at hno; cases hno
  refine ⟨herr, ?_⟩
  intro s e j hes hst hj ht
  rw [herr]
  have h0 := redRunCycles_inv cfg h cycles 0 { m := { w := { u := u0 } } } (Inv.init cfg.n u0)
  have hcap : s < (redRunCycles cfg h cycles 0 { m := { w := { u := u0 } } }).1.m.cap := (h0.st s e hes hst).2.2
  have hscan := removeAllFrom_err_of_throw cfg hrec h
    (redRunCycles cfg h cycles 0 { m := { w := { u := u0 } } }).1.m.cap 0
    { (redRunCycles cfg h cycles 0 { m := { w := { u := u0 } } }).1.m with
      w := emit .stopping (redRunCycles cfg h cycles 0 { m := { w := { u := u0 } } }).1.m.w }
    s e (Nat.zero_le _) (by omega) hes hst j hj ht
  unfold mapStop removeAll
  dsimp only
  split
  · rename_i hn; exact absurd hn hscan
  · simp

/-! ## non-vacuity: faults do fire in the model, and what the theorems say about those runs -/

/-- a fault plan: start-hook call `fs` (1-based, global count) throws; the stop of every node of key `fx` throws -/
def planHooks (fs : Nat) (fx : Int) : Hooks Nat :=
  { start := fun _ _ u => (u + 1, if u + 1 = fs then some "start" else none)
    stop := fun c _ u => (u, if c.key = fx then some "stop" else none)
    eval := fun _ _ u => (u, none) }

/-- first batch of three keys, two nodes per child -/
def batch3 : List CycleIn :=
  [{ cap := 8, modified := true, live := [(0, 1), (1, 2), (2, 3)], added := [(0, 1), (1, 2), (2, 3)], ticked := [0, 1, 2] }]

/-- the start of the SECOND node of the SECOND child throws (call 4) and, in the rollback of that child, the stop
    of its first node throws as well: the start error is what `run()` reports; the started sibling `1#1` and the
    started prefix of `2#1` are stopped before `run()` returns; child `3#1` is never created. -/
example :
    (run { n := 2 } (planHooks 4 2) batch3 0).err = some "start" ∧
    (ledgerOf (run { n := 2 } (planHooks 4 2) batch3 0).ret.w.tr).st ⟨1, 1⟩ 0 = .stopped ∧
    (ledgerOf (run { n := 2 } (planHooks 4 2) batch3 0).ret.w.tr).st ⟨1, 1⟩ 1 = .stopped ∧
    (ledgerOf (run { n := 2 } (planHooks 4 2) batch3 0).ret.w.tr).st ⟨2, 1⟩ 0 = .stopped ∧
    (ledgerOf (run { n := 2 } (planHooks 4 2) batch3 0).ret.w.tr).st ⟨2, 1⟩ 1 = .failed ∧
    (ledgerOf (run { n := 2 } (planHooks 4 2) batch3 0).ret.w.tr).st ⟨3, 1⟩ 0 = .fresh ∧
    proj ⟨2, 1⟩ 0 (run { n := 2 } (planHooks 4 2) batch3 0).ret.w.tr = [.hS, .hXf] := by
  decide

/-- the same with clean-up on error OFF: the siblings are still started at the return and stopped by the release -/
example :
    (ledgerOf (run { n := 2, cleanup := false } (planHooks 4 2) batch3 0).ret.w.tr).st ⟨1, 1⟩ 0 = .started ∧
    (ledgerOf (run { n := 2, cleanup := false } (planHooks 4 2) batch3 0).fin.w.tr).st ⟨1, 1⟩ 0 = .stopped := by
  decide

/-- a stop fault in the first slot at the parent's stop (no other fault): with the recorder the later slots are stopped
    too and the stop error is reported -/
example :
    (run { n := 2 } (planHooks 0 1) batch3 0).err = some "stop" ∧
    (ledgerOf (run { n := 2 } (planHooks 0 1) batch3 0).ret.w.tr).st ⟨3, 1⟩ 1 = .stopped ∧
    proj ⟨1, 1⟩ 1 (run { n := 2 } (planHooks 0 1) batch3 0).ret.w.tr = [.hS, .hE, .hXf] := by
  decide

/-- switch_: key 1, then key 2 whose second node fails to start: branch 1 was stopped first, the prefix of branch 2 is
    rolled back -/
example :
    (swRun { n := 2 } (planHooks 4 0) [{ key := some 1, ticked := true }, { key := some 2, ticked := true }] 0).err = some "start" ∧
    proj ⟨1, 1⟩ 0 (swRun { n := 2 } (planHooks 4 0) [{ key := some 1, ticked := true }, { key := some 2, ticked := true }] 0).ret.w.tr
      = [.hS, .hE, .hX] ∧
    proj ⟨2, 1⟩ 0 (swRun { n := 2 } (planHooks 4 0) [{ key := some 1, ticked := true }, { key := some 2, ticked := true }] 0).ret.w.tr
      = [.hS, .hX] := by
  decide

/-- reduce_: two combiners (heap positions 0 and 1 of bank 0 = slots 0 and 2); the stop of the second one (ordinal 2)
    throws at the parent's stop and is the ONLY fault: `run()` reports it, and both combiners are stopped at the return -/
example :
    (redRun { n := 2 } (planHooks 0 2) [{ create := [0, 2], ticked := [2, 0] }] 0).err = some "stop" ∧
    (redRunCycles { n := 2 } (planHooks 0 2) [{ create := [0, 2], ticked := [2, 0] }] 0 { m := { w := { u := 0 } } }).2 = none ∧
    proj ⟨1, 1⟩ 0 (redRun { n := 2 } (planHooks 0 2) [{ create := [0, 2], ticked := [2, 0] }] 0).ret.w.tr = [.hS, .hE, .hX] ∧
    proj ⟨2, 1⟩ 1 (redRun { n := 2 } (planHooks 0 2) [{ create := [0, 2], ticked := [2, 0] }] 0).ret.w.tr = [.hS, .hE, .hXf] := by
  decide

/-- reduce_: a capacity growth retires the first generation (ordinals 1, 2); the stop fault of the RETIRED combiner 1 is
    swallowed by the retire path, the run ends normally with the four combiners of the new generation stopped -/
example :
    (redRun { n := 1 } (planHooks 0 1)
      [{ create := [0, 2], ticked := [2, 0] }, { create := [1, 3, 7, 9], retire := [0, 2], ticked := [9, 7, 3, 1] }] 0).err = none ∧
    proj ⟨1, 1⟩ 0 (redRun { n := 1 } (planHooks 0 1)
      [{ create := [0, 2], ticked := [2, 0] }, { create := [1, 3, 7, 9], retire := [0, 2], ticked := [9, 7, 3, 1] }] 0).ret.w.tr
      = [.hS, .hE, .hXf] ∧
    proj ⟨6, 1⟩ 0 (redRun { n := 1 } (planHooks 0 1)
      [{ create := [0, 2], ticked := [2, 0] }, { create := [1, 3, 7, 9], retire := [0, 2], ticked := [9, 7, 3, 1] }] 0).ret.w.tr
      = [.hS, .hE, .hX] := by
  decide

/-- reduce_: the start of the second created combiner throws (start call 3): the rollback guard stops the first one,
    the start error is what `run()` reports -/
example :
    (redRun { n := 2 } (planHooks 3 0) [{ create := [0, 2], ticked := [2, 0] }] 0).err = some "start" ∧
    proj ⟨1, 1⟩ 1 (redRun { n := 2 } (planHooks 3 0) [{ create := [0, 2], ticked := [2, 0] }] 0).ret.w.tr = [.hS, .hX] ∧
    proj ⟨2, 1⟩ 0 (redRun { n := 2 } (planHooks 3 0) [{ create := [0, 2], ticked := [2, 0] }] 0).ret.w.tr = [.hSf] := by
  decide

end HgVerif.DynLife
