import HgVerif.Model.Flow
import HgVerif.Props.C03Activation
/-!
# C06 / C03 — the result of a cycle depends on the dataflow only, not on the rank

For a flat dataflow program `F : Flow S` (arbitrary per-node state, arbitrary node functions that
read only their producers and themselves) run by the generic scan under an arbitrary **topological
rank** `ρ`:

* `disc_beh`            : its behaviour satisfies the caller discipline of C02.
* `scan_eq_denSeq`      : the slot-driven scan computes exactly the slot-free reading `denSeq` (a node
                          fires iff it was due or an active producer fired and wrote earlier in the cycle).
* `denSeq_sol`          : that reading satisfies the local dataflow equations `Sol` (written set and
                          states are determined node by node from the producers' results).
* `sol_unique`          : the equations have at most one solution.
* `cycle_rank_independent` : for any two topological ranks the cycle ends with the same node states
                          and the same set of nodes that ran/wrote — **wiring order is not observable**.
-/
namespace HgVerif.Flow
open HgVerif.Sched

variable {S : Type}

/-- every active producer is a node of the graph and sits at an earlier position -/
def Topo (F : Flow S) (ρ : Rank F.n) : Prop :=
  ∀ c, c < F.n → ∀ p ∈ F.prods c, p < F.n ∧ ρ.posOf p < ρ.posOf c

def SelfFuture (F : Flow S) : Prop := ∀ i s t T, T ∈ F.selfReq i s t → t < T

/-- everything a node may read (actively or passively) sits at an earlier position as well -/
def TopoR (F : Flow S) (ρ : Rank F.n) : Prop :=
  ∀ c, c < F.n → ∀ p ∈ F.reads c, p < F.n ∧ ρ.posOf p < ρ.posOf c

/-- a node reads nothing but the outputs listed in `reads` (active and passive inputs) and itself -/
def Frame (F : Flow S) : Prop :=
  ∀ i σ σ' t, (∀ j, (j = i ∨ j ∈ F.reads i) → σ j = σ' j) → F.f i σ t = F.f i σ' t

theorem mem_consumers (F : Flow S) (i c : Nat) : c ∈ consumers F i ↔ (c < F.n ∧ i ∈ F.prods c) := by
  simp [consumers]

theorem disc_beh (F : Flow S) (ρ : Rank F.n) (hT : Topo F ρ) (hS : SelfFuture F) : Disc (beh F ρ) F.n := by
  intro k hk t σ r hr
  have hnode := (ρ.left k hk)
  simp only [beh, List.mem_append, List.mem_map] at hr
  rcases hr with hr | ⟨T, hT', rfl⟩
  · split at hr
    · obtain ⟨c, hc, rfl⟩ := List.mem_map.mp hr
      have hc' := (mem_consumers F _ c).mp hc
      have := hT c hc'.1 _ hc'.2
      refine ⟨(ρ.right c hc'.1).2, Or.inl ⟨rfl, ?_⟩⟩
      rw [hnode.1] at this; exact this.2
    · simp at hr
  · exact ⟨hk, Or.inr ⟨hS _ _ _ _ hT', Nat.le_refl _⟩⟩

/-- `beh` never fails -/
theorem beh_ok (F : Flow S) (ρ : Rank F.n) (k : Nat) (t : Time) (σ : Nat → S) : ((beh F ρ).eval k t σ).ok = true := rfl

theorem any_contains_iff (l w : List Nat) : l.any (fun p => w.contains p) = true ↔ ∃ p ∈ l, p ∈ w := by
  simp [List.any_eq_true]

/-- the requests of position `k` that target a later position `q` for this cycle -/
theorem req_same_cycle_iff (F : Flow S) (ρ : Rank F.n) (hT : Topo F ρ) (hS : SelfFuture F) (k q : Nat) (t : Time) (σ : Nat → S)
    (hk : k < F.n) (hq : q < F.n) (hkq : k < q) :
    (⟨q, t⟩ : Req) ∈ ((beh F ρ).eval k t σ).reqs ↔
      ((F.f (ρ.node k) σ t).2 = true ∧ ρ.node k ∈ F.prods (ρ.node q)) := by
  simp only [beh, List.mem_append, List.mem_map]
  constructor
  · rintro (h | ⟨T, hT', he⟩)
    · split at h
      · rename_i hw
        obtain ⟨c, hc, he⟩ := List.mem_map.mp h
        have hc' := (mem_consumers F _ c).mp hc
        have hpq : ρ.posOf c = q := by injection he
        have : c = ρ.node q := by rw [← hpq, (ρ.right c hc'.1).1]
        rw [← this]; exact ⟨hw, hc'.2⟩
      · simp at h
    · injection he with h1 h2; omega
  · rintro ⟨hw, hp⟩
    left
    rw [if_pos hw]
    refine List.mem_map.mpr ⟨ρ.node q, (mem_consumers F _ _).mpr ⟨(ρ.left q hq).2, hp⟩, ?_⟩
    rw [(ρ.left q hq).1]

/-- **the slot-driven scan is the slot-free reading**: from position `k`, with the slots of the
    unscanned positions encoding exactly "due, or an active producer already wrote" -/
theorem scanFrom_eq_denSeq (F : Flow S) (ρ : Rank F.n) (hT : Topo F ρ) (hS : SelfFuture F) (t : Time) (due : Nat → Bool)
    (fuel k : Nat) (g : G) (σ : Nat → S) (w ev : List Nat)
    (hfk : k + fuel = F.n) (hlen : g.slots.length = F.n) (hnow : g.now = t)
    (hJ : ∀ q, k ≤ q → q < F.n →
      (slotOf g q = t ↔ (due (ρ.node q) = true ∨ ∃ p ∈ F.prods (ρ.node q), p ∈ w))) :
    (scanFrom (beh F ρ) t fuel k g σ ev).st = (denSeq F ρ t due fuel k σ w ev).1 ∧
    (scanFrom (beh F ρ) t fuel k g σ ev).evaluated = (denSeq F ρ t due fuel k σ w ev).2.2 ∧
    (scanFrom (beh F ρ) t fuel k g σ ev).ok = true := by
  induction fuel generalizing k g σ w ev with
  | zero => simp [scanFrom, denSeq]
  | succ fuel ih =>
    have hk : k < F.n := by omega
    have hfire : (due (ρ.node k) || (F.prods (ρ.node k)).any (fun p => w.contains p)) = true ↔ slotOf g k = t := by
      rw [hJ k (Nat.le_refl _) hk, Bool.or_eq_true, any_contains_iff]
    by_cases hs : slotOf g k = t
    · rw [scanFrom_eval_ok (beh F ρ) t fuel k g σ ev hs (beh_ok F ρ k t σ)]
      have hden : denSeq F ρ t due (fuel + 1) k σ w ev =
          denSeq F ρ t due fuel (k + 1) (upd σ (ρ.node k) (F.f (ρ.node k) σ t).1)
            (if (F.f (ρ.node k) σ t).2 then ρ.node k :: w else w) (ev ++ [k]) := by
        rw [denSeq]; simp only [hfire.mpr hs, ↓reduceIte]
      rw [hden]
      have hreqs := disc_beh F ρ hT hS k hk t σ
      have hlen' : (((beh F ρ).eval k t σ).reqs.foldl scheduleNode { g with cursor := k }).slots.length = F.n := by
        rw [foldl_scheduleNode_length]; exact hlen
      have hnow' : (((beh F ρ).eval k t σ).reqs.foldl scheduleNode { g with cursor := k }).now = t := by
        rw [foldl_scheduleNode_now]; exact hnow
      have hst : ((beh F ρ).eval k t σ).st = upd σ (ρ.node k) (F.f (ρ.node k) σ t).1 := rfl
      rw [hst]
      apply ih (k + 1) _ _ _ _ (by omega) hlen' hnow'
      intro q hkq hq
      have hslot := slot_after_requests (i := k) (j := q) ((beh F ρ).eval k t σ).reqs (g := { g with cursor := k })
        hlen hnow (by omega) hreqs
      rw [hslot]
      have hJq := hJ q (by omega) hq
      have hsame : slotOf { g with cursor := k } q = slotOf g q := rfl
      rw [hsame, hJq, req_same_cycle_iff F ρ hT hS k q t σ hk hq (by omega)]
      constructor
      · rintro ((hd | ⟨p, hp, hw⟩) | ⟨hw, hp⟩)
        · exact Or.inl hd
        · right; refine ⟨p, hp, ?_⟩; split <;> simp [hw]
        · right; refine ⟨ρ.node k, hp, ?_⟩; simp [hw]
      · rintro (hd | ⟨p, hp, hw⟩)
        · exact Or.inl (Or.inl hd)
        · split at hw
          · rename_i hwrote
            simp only [List.mem_cons] at hw
            rcases hw with rfl | hw
            · exact Or.inr ⟨hwrote, hp⟩
            · exact Or.inl (Or.inr ⟨p, hp, hw⟩)
          · exact Or.inl (Or.inr ⟨p, hp, hw⟩)
    · have hden : denSeq F ρ t due (fuel + 1) k σ w ev = denSeq F ρ t due fuel (k + 1) σ w ev := by
        rw [denSeq]
        have : ¬ (due (ρ.node k) || (F.prods (ρ.node k)).any (fun p => w.contains p)) = true := fun h => hs (hfire.mp h)
        simp only [this, Bool.false_eq_true, ↓reduceIte]
      rw [hden]
      rcases Nat.lt_or_gt_of_ne hs with hlt | hgt
      · rw [scanFrom_skip (beh F ρ) t fuel k g σ ev hlt]
        exact ih (k + 1) _ _ _ _ (by omega) hlen hnow (fun q hkq hq => hJ q (by omega) hq)
      · rw [scanFrom_fold (beh F ρ) t fuel k g σ ev hgt]
        exact ih (k + 1) _ _ _ _ (by omega) hlen hnow (fun q hkq hq => hJ q (by omega) hq)

/-! ## the local dataflow equations and their unique solution -/

/-- node `i` fires: it was due, or one of its active producers wrote -/
def fires (F : Flow S) (due : Nat → Bool) (w : List Nat) (i : Nat) : Prop :=
  due i = true ∨ ∃ p ∈ F.prods i, p ∈ w

/-- what node `i` computes when its producers hold `σ1` and it still holds its old state -/
def evalAt (F : Flow S) (t : Time) (σ0 σ1 : Nat → S) (i : Nat) : S × Bool := F.f i (upd σ1 i (σ0 i)) t

/-- the local equations: every node's new state and whether it wrote are determined by its
    producers' results -/
structure Sol (F : Flow S) (t : Time) (σ0 : Nat → S) (due : Nat → Bool) (σ1 : Nat → S) (w : List Nat) : Prop where
  st_fire : ∀ i, i < F.n → fires F due w i → σ1 i = (evalAt F t σ0 σ1 i).1
  st_idle : ∀ i, i < F.n → ¬ fires F due w i → σ1 i = σ0 i
  wr : ∀ i, i < F.n → (i ∈ w ↔ (fires F due w i ∧ (evalAt F t σ0 σ1 i).2 = true))

theorem upd_self (σ : Nat → S) (i : Nat) : upd σ i (σ i) = σ := by
  funext j; unfold upd; split <;> simp_all

theorem upd_upd (σ : Nat → S) (i : Nat) (a b : S) : upd (upd σ i a) i b = upd σ i b := by
  funext j; unfold upd; split <;> rfl

theorem topo_not_self (F : Flow S) (ρ : Rank F.n) (hT : Topo F ρ) (i : Nat) (hi : i < F.n) : i ∉ F.prods i := by
  intro h; have := (hT i hi i h).2; omega

/-- at most one solution (along any topological rank) -/
theorem sol_unique (F : Flow S) (ρ : Rank F.n) (hT : Topo F ρ) (hR : TopoR F ρ) (hF : Frame F) (t : Time) (σ0 : Nat → S) (due : Nat → Bool)
    (σ1 σ1' : Nat → S) (w w' : List Nat) (h : Sol F t σ0 due σ1 w) (h' : Sol F t σ0 due σ1' w') :
    ∀ i, i < F.n → (σ1 i = σ1' i ∧ (i ∈ w ↔ i ∈ w')) := by
  intro i hi
  -- strong induction on the position of `i`
  suffices ∀ m, ∀ i, i < F.n → ρ.posOf i < m → (σ1 i = σ1' i ∧ (i ∈ w ↔ i ∈ w')) from
    this (ρ.posOf i + 1) i hi (Nat.lt_succ_self _)
  intro m
  induction m with
  | zero => intro i _ h0; omega
  | succ m ih =>
    intro i hi hpos
    have hprod : ∀ p ∈ F.prods i, (σ1 p = σ1' p ∧ (p ∈ w ↔ p ∈ w')) := by
      intro p hp
      have := hT i hi p hp
      exact ih p this.1 (by omega)
    have hfire : fires F due w i ↔ fires F due w' i := by
      unfold fires
      constructor
      · rintro (hd | ⟨p, hp, hw⟩)
        · exact Or.inl hd
        · exact Or.inr ⟨p, hp, (hprod p hp).2.mp hw⟩
      · rintro (hd | ⟨p, hp, hw⟩)
        · exact Or.inl hd
        · exact Or.inr ⟨p, hp, (hprod p hp).2.mpr hw⟩
    have heval : evalAt F t σ0 σ1 i = evalAt F t σ0 σ1' i := by
      unfold evalAt
      apply hF
      intro j hj
      unfold upd
      rcases hj with rfl | hj
      · simp
      · have hjr := hR i hi j hj
        have hne : j ≠ i := fun e => by rw [e] at hjr; omega
        simp [hne]; exact (ih j hjr.1 (by omega)).1
    by_cases hf : fires F due w i
    · refine ⟨by rw [h.st_fire i hi hf, h'.st_fire i hi (hfire.mp hf), heval], ?_⟩
      rw [h.wr i hi, h'.wr i hi, heval]
      exact ⟨fun ⟨_, b⟩ => ⟨hfire.mp hf, b⟩, fun ⟨_, b⟩ => ⟨hf, b⟩⟩
    · have hf' : ¬ fires F due w' i := fun x => hf (hfire.mpr x)
      refine ⟨by rw [h.st_idle i hi hf, h'.st_idle i hi hf'], ?_⟩
      rw [h.wr i hi, h'.wr i hi]
      exact ⟨fun ⟨a, _⟩ => absurd a hf, fun ⟨a, _⟩ => absurd a hf'⟩

/-- invariant of the slot-free reading once positions `< k` are processed -/
structure DInv (F : Flow S) (ρ : Rank F.n) (t : Time) (σ0 : Nat → S) (due : Nat → Bool) (k : Nat) (σ : Nat → S) (w : List Nat) : Prop where
  fresh : ∀ i, i < F.n → k ≤ ρ.posOf i → σ i = σ0 i
  wpos : ∀ i ∈ w, i < F.n ∧ ρ.posOf i < k
  st_fire : ∀ i, i < F.n → ρ.posOf i < k → fires F due w i → σ i = (evalAt F t σ0 σ i).1
  st_idle : ∀ i, i < F.n → ρ.posOf i < k → ¬ fires F due w i → σ i = σ0 i
  wr : ∀ i, i < F.n → ρ.posOf i < k → (i ∈ w ↔ (fires F due w i ∧ (evalAt F t σ0 σ i).2 = true))

theorem denSeq_inv (F : Flow S) (ρ : Rank F.n) (hT : Topo F ρ) (hR : TopoR F ρ) (hF : Frame F) (t : Time) (σ0 : Nat → S) (due : Nat → Bool)
    (fuel k : Nat) (σ : Nat → S) (w ev : List Nat) (hfk : k + fuel = F.n) (h : DInv F ρ t σ0 due k σ w) :
    DInv F ρ t σ0 due F.n (denSeq F ρ t due fuel k σ w ev).1 (denSeq F ρ t due fuel k σ w ev).2.1 := by
  induction fuel generalizing k σ w ev with
  | zero =>
    have : k = F.n := by omega
    subst this; simpa [denSeq] using h
  | succ fuel ih =>
    have hk : k < F.n := by omega
    obtain ⟨hpos, hnode⟩ := ρ.left k hk
    -- facts about the node at position k
    have hnotw : ρ.node k ∉ w := fun hm => by have := (h.wpos _ hm).2; omega
    have hnoself : ρ.node k ∉ F.prods (ρ.node k) := topo_not_self F ρ hT _ hnode
    -- an earlier node never reads the node at position k
    have hearlier : ∀ j, j < F.n → ρ.posOf j < k → ρ.node k ≠ j ∧ ρ.node k ∉ F.prods j := by
      intro j hj hjk
      refine ⟨fun e => by rw [← e, hpos] at hjk; omega, fun hm => ?_⟩
      have := (hT j hj _ hm).2; omega
    have hearlierR : ∀ j, j < F.n → ρ.posOf j < k → ρ.node k ∉ F.reads j := by
      intro j hj hjk hm
      have := (hR j hj _ hm).2; omega
    rw [denSeq]
    simp only
    by_cases hfire : (due (ρ.node k) || (F.prods (ρ.node k)).any (fun p => w.contains p)) = true
    · rw [if_pos hfire]
      have hfires : fires F due w (ρ.node k) := by
        unfold fires; rw [Bool.or_eq_true, any_contains_iff] at hfire; exact hfire
      apply ih (k + 1) _ _ _ (by omega)
      -- abbreviations
      have hσk : σ (ρ.node k) = σ0 (ρ.node k) := h.fresh _ hnode (by omega)
      have hsame : upd (upd σ (ρ.node k) (F.f (ρ.node k) σ t).1) (ρ.node k) (σ0 (ρ.node k)) = σ := by
        rw [upd_upd, ← hσk, upd_self]
      have hfires_mono : ∀ j, j < F.n → ρ.posOf j ≤ k →
          (fires F due (if (F.f (ρ.node k) σ t).2 then ρ.node k :: w else w) j ↔ fires F due w j) := by
        intro j hj hjk
        have hnp : ρ.node k ∉ F.prods j := by
          rcases Nat.lt_or_ge (ρ.posOf j) k with hlt | hge
          · exact (hearlier j hj hlt).2
          · have : ρ.posOf j = k := by omega
            have hjeq : j = ρ.node k := by rw [← (ρ.right j hj).1, this]
            rw [hjeq]; exact hnoself
        unfold fires
        constructor
        · rintro (hd | ⟨p, hp, hw⟩)
          · exact Or.inl hd
          · split at hw
            · simp only [List.mem_cons] at hw
              rcases hw with rfl | hw
              · exact absurd hp hnp
              · exact Or.inr ⟨p, hp, hw⟩
            · exact Or.inr ⟨p, hp, hw⟩
        · rintro (hd | ⟨p, hp, hw⟩)
          · exact Or.inl hd
          · exact Or.inr ⟨p, hp, by split <;> simp [hw]⟩
      have heval_old : ∀ j, j < F.n → ρ.posOf j < k →
          evalAt F t σ0 (upd σ (ρ.node k) (F.f (ρ.node k) σ t).1) j = evalAt F t σ0 σ j := by
        intro j hj hjk
        unfold evalAt
        apply hF
        intro x hx
        have hne : x ≠ ρ.node k := by
          rcases hx with rfl | hx
          · exact fun e => (hearlier x hj hjk).1 e.symm
          · exact fun e => hearlierR j hj hjk (e ▸ hx)
        unfold upd
        by_cases hxj : x = j <;> simp [hxj, hne]
      refine ⟨?_, ?_, ?_, ?_, ?_⟩
      · intro i hi hge
        have hne : i ≠ ρ.node k := fun e => by rw [e, hpos] at hge; omega
        unfold upd; simp [hne]; exact h.fresh i hi (by omega)
      · intro i hi
        split at hi
        · simp only [List.mem_cons] at hi
          rcases hi with rfl | hi
          · exact ⟨hnode, by omega⟩
          · have := h.wpos i hi; exact ⟨this.1, by omega⟩
        · have := h.wpos i hi; exact ⟨this.1, by omega⟩
      · intro i hi hik hfi
        rcases Nat.lt_or_ge (ρ.posOf i) k with hlt | hge
        · have hne : i ≠ ρ.node k := fun e => (hearlier i hi hlt).1 e.symm
          rw [heval_old i hi hlt]
          have : upd σ (ρ.node k) (F.f (ρ.node k) σ t).1 i = σ i := by unfold upd; simp [hne]
          rw [this]
          exact h.st_fire i hi hlt ((hfires_mono i hi (by omega)).mp hfi)
        · have hieq : i = ρ.node k := by rw [← (ρ.right i hi).1]; congr 1; omega
          subst hieq
          unfold evalAt
          rw [hsame]; unfold upd; simp
      · intro i hi hik hnfi
        rcases Nat.lt_or_ge (ρ.posOf i) k with hlt | hge
        · have hne : i ≠ ρ.node k := fun e => (hearlier i hi hlt).1 e.symm
          have : upd σ (ρ.node k) (F.f (ρ.node k) σ t).1 i = σ i := by unfold upd; simp [hne]
          rw [this]
          exact h.st_idle i hi hlt (fun x => hnfi ((hfires_mono i hi (by omega)).mpr x))
        · have hieq : i = ρ.node k := by rw [← (ρ.right i hi).1]; congr 1; omega
          subst hieq
          exact absurd ((hfires_mono _ hi (by omega)).mpr hfires) hnfi
      · intro i hi hik
        rcases Nat.lt_or_ge (ρ.posOf i) k with hlt | hge
        · have hne : i ≠ ρ.node k := fun e => (hearlier i hi hlt).1 e.symm
          rw [heval_old i hi hlt, hfires_mono i hi (by omega), ← h.wr i hi hlt]
          split
          · simp [hne]
          · rfl
        · have hieq : i = ρ.node k := by rw [← (ρ.right i hi).1]; congr 1; omega
          subst hieq
          have hev : evalAt F t σ0 (upd σ (ρ.node k) (F.f (ρ.node k) σ t).1) (ρ.node k) = F.f (ρ.node k) σ t := by
            unfold evalAt; rw [hsame]
          rw [hev, hfires_mono _ hi (by omega)]
          split
          · rename_i hw; simp [hw, hfires]
          · rename_i hw; simp [hw, hnotw]
    · rw [if_neg hfire]
      have hnf : ¬ fires F due w (ρ.node k) := by
        unfold fires; rw [Bool.or_eq_true, any_contains_iff] at hfire; exact hfire
      apply ih (k + 1) _ _ _ (by omega)
      refine ⟨fun i hi hge => h.fresh i hi (by omega), fun i hi => ⟨(h.wpos i hi).1, by have := (h.wpos i hi).2; omega⟩, ?_, ?_, ?_⟩
      · intro i hi hik hfi
        rcases Nat.lt_or_ge (ρ.posOf i) k with hlt | hge
        · exact h.st_fire i hi hlt hfi
        · have hieq : i = ρ.node k := by rw [← (ρ.right i hi).1]; congr 1; omega
          subst hieq; exact absurd hfi hnf
      · intro i hi hik hnfi
        rcases Nat.lt_or_ge (ρ.posOf i) k with hlt | hge
        · exact h.st_idle i hi hlt hnfi
        · exact h.fresh i hi hge
      · intro i hi hik
        rcases Nat.lt_or_ge (ρ.posOf i) k with hlt | hge
        · exact h.wr i hi hlt
        · have hieq : i = ρ.node k := by rw [← (ρ.right i hi).1]; congr 1; omega
          subst hieq
          exact ⟨fun hm => absurd hm hnotw, fun ⟨a, _⟩ => absurd a hnf⟩

/-- the slot-free reading solves the local equations -/
theorem denSeq_sol (F : Flow S) (ρ : Rank F.n) (hT : Topo F ρ) (hR : TopoR F ρ) (hF : Frame F) (t : Time) (σ0 : Nat → S) (due : Nat → Bool) :
    Sol F t σ0 due (denSeq F ρ t due F.n 0 σ0 [] []).1 (denSeq F ρ t due F.n 0 σ0 [] []).2.1 := by
  have h0 : DInv F ρ t σ0 due 0 σ0 [] :=
    ⟨fun _ _ _ => rfl, by simp, fun _ _ h => by omega, fun _ _ h => by omega, fun _ _ h => by omega⟩
  have h := denSeq_inv F ρ hT hR hF t σ0 due F.n 0 σ0 [] [] (by omega) h0
  exact ⟨fun i hi => h.st_fire i hi (ρ.right i hi).2, fun i hi => h.st_idle i hi (ρ.right i hi).2,
         fun i hi => h.wr i hi (ρ.right i hi).2⟩

/-! ## a whole cycle under two ranks -/

/-- which nodes are due when the cycle at `t` starts, read off the slots under rank `ρ` -/
def dueOf (ρ : Rank n) (g : G) (t : Time) : Nat → Bool := fun i => decide (slotOf g (ρ.posOf i) = t)

/-- one fresh cycle of the generic scan under rank `ρ` computes the slot-free reading -/
theorem cycle_eq_denSeq (F : Flow S) (ρ : Rank F.n) (hT : Topo F ρ) (hS : SelfFuture F) (fx : Bool) (t : Time) (g : G)
    (σ0 : Nat → S) (hlen : g.slots.length = F.n) (hc : g.cursor = 0) :
    (cycle fx (beh F ρ) F.n t g σ0).st = (denSeq F ρ t (dueOf ρ g t) F.n 0 σ0 [] []).1 ∧
    (cycle fx (beh F ρ) F.n t g σ0).evaluated = (denSeq F ρ t (dueOf ρ g t) F.n 0 σ0 [] []).2.2 ∧
    (cycle fx (beh F ρ) F.n t g σ0).ok = true := by
  have hfresh : cycle fx (beh F ρ) F.n t g σ0 =
      scanFrom (beh F ρ) t F.n 0 { g with now := t, failed := false, next := none, cursor := 0 } σ0 [] := by
    cases fx <;> simp [cycle, resuming, hc]
  rw [hfresh]
  apply scanFrom_eq_denSeq F ρ hT hS t (dueOf ρ g t) F.n 0
    { g with now := t, failed := false, next := none, cursor := 0 } σ0 [] [] (by omega) hlen rfl
  intro q _ hq
  show slotOf g q = t ↔ _
  unfold dueOf
  rw [(ρ.left q hq).1]
  simp

/-- **wiring order is not observable.**  Take one dataflow program and two topological ranks of it
    (two admissible statement orders), with the same nodes due at `t`.  After the cycle every node
    holds the same state under both ranks, and the same nodes wrote.  (Node functions are arbitrary;
    they only have to read nothing but their producers and themselves — `Frame`.) -/
theorem cycle_rank_independent (F : Flow S) (ρ₁ ρ₂ : Rank F.n) (hT₁ : Topo F ρ₁) (hT₂ : Topo F ρ₂)
    (hR₁ : TopoR F ρ₁) (hR₂ : TopoR F ρ₂) (hS : SelfFuture F)
    (hF : Frame F) (fx : Bool) (t : Time) (g₁ g₂ : G) (σ0 : Nat → S)
    (hlen₁ : g₁.slots.length = F.n) (hlen₂ : g₂.slots.length = F.n) (hc₁ : g₁.cursor = 0) (hc₂ : g₂.cursor = 0)
    (hdue : dueOf ρ₁ g₁ t = dueOf ρ₂ g₂ t) :
    ∀ i, i < F.n →
      (cycle fx (beh F ρ₁) F.n t g₁ σ0).st i = (cycle fx (beh F ρ₂) F.n t g₂ σ0).st i := by
  intro i hi
  rw [(cycle_eq_denSeq F ρ₁ hT₁ hS fx t g₁ σ0 hlen₁ hc₁).1, (cycle_eq_denSeq F ρ₂ hT₂ hS fx t g₂ σ0 hlen₂ hc₂).1]
  have s1 := denSeq_sol F ρ₁ hT₁ hR₁ hF t σ0 (dueOf ρ₁ g₁ t)
  have s2 := denSeq_sol F ρ₂ hT₂ hR₂ hF t σ0 (dueOf ρ₂ g₂ t)
  rw [← hdue] at s2 ⊢
  exact (sol_unique F ρ₁ hT₁ hR₁ hF t σ0 (dueOf ρ₁ g₁ t) _ _ _ _ s1 s2 i hi).1

/-- … and a node's user code runs in the cycle under one rank iff it runs under the other -/
theorem fired_rank_independent (F : Flow S) (ρ₁ ρ₂ : Rank F.n) (hT₁ : Topo F ρ₁) (hT₂ : Topo F ρ₂)
    (hR₁ : TopoR F ρ₁) (hR₂ : TopoR F ρ₂) (hF : Frame F) (t : Time) (due : Nat → Bool) (σ0 : Nat → S) :
    ∀ i, i < F.n →
      (fires F due (denSeq F ρ₁ t due F.n 0 σ0 [] []).2.1 i ↔ fires F due (denSeq F ρ₂ t due F.n 0 σ0 [] []).2.1 i) := by
  intro i hi
  have s1 := denSeq_sol F ρ₁ hT₁ hR₁ hF t σ0 due
  have s2 := denSeq_sol F ρ₂ hT₂ hR₂ hF t σ0 due
  have hu := sol_unique F ρ₁ hT₁ hR₁ hF t σ0 due _ _ _ _ s1 s2
  unfold fires
  constructor
  · rintro (h | ⟨p, hp, hw⟩)
    · exact Or.inl h
    · exact Or.inr ⟨p, hp, (hu p (hT₁ i hi p hp).1).2.mp hw⟩
  · rintro (h | ⟨p, hp, hw⟩)
    · exact Or.inl h
    · exact Or.inr ⟨p, hp, (hu p (hT₁ i hi p hp).1).2.mpr hw⟩

/-! ## whole runs: the schedule is rank independent as well -/

theorem denSeq_outside (F : Flow S) (ρ : Rank F.n) (t : Time) (due : Nat → Bool) (fuel k : Nat) (σ : Nat → S) (w ev : List Nat)
    (hfk : k + fuel = F.n) (i : Nat) (hi : F.n ≤ i) : (denSeq F ρ t due fuel k σ w ev).1 i = σ i := by
  induction fuel generalizing k σ w ev with
  | zero => rfl
  | succ fuel ih =>
    rw [denSeq]; simp only
    have hk : k < F.n := by omega
    have hne : i ≠ ρ.node k := fun e => by have := (ρ.left k hk).2; omega
    split
    · rw [ih (k + 1) _ _ _ (by omega)]; unfold upd; simp [hne]
    · exact ih (k + 1) _ _ _ (by omega)

/-- the states after the cycle are equal as functions -/
theorem cycle_rank_independent_fun (F : Flow S) (ρ₁ ρ₂ : Rank F.n) (hT₁ : Topo F ρ₁) (hT₂ : Topo F ρ₂)
    (hR₁ : TopoR F ρ₁) (hR₂ : TopoR F ρ₂) (hS : SelfFuture F)
    (hF : Frame F) (fx : Bool) (t : Time) (g₁ g₂ : G) (σ0 : Nat → S)
    (hlen₁ : g₁.slots.length = F.n) (hlen₂ : g₂.slots.length = F.n) (hc₁ : g₁.cursor = 0) (hc₂ : g₂.cursor = 0)
    (hdue : dueOf ρ₁ g₁ t = dueOf ρ₂ g₂ t) :
    (cycle fx (beh F ρ₁) F.n t g₁ σ0).st = (cycle fx (beh F ρ₂) F.n t g₂ σ0).st := by
  funext i
  by_cases hi : i < F.n
  · exact cycle_rank_independent F ρ₁ ρ₂ hT₁ hT₂ hR₁ hR₂ hS hF fx t g₁ g₂ σ0 hlen₁ hlen₂ hc₁ hc₂ hdue i hi
  · rw [(cycle_eq_denSeq F ρ₁ hT₁ hS fx t g₁ σ0 hlen₁ hc₁).1, (cycle_eq_denSeq F ρ₂ hT₂ hS fx t g₂ σ0 hlen₂ hc₂).1,
      denSeq_outside F ρ₁ t _ F.n 0 σ0 [] [] (by omega) i (by omega),
      denSeq_outside F ρ₂ t _ F.n 0 σ0 [] [] (by omega) i (by omega)]

/-- the slot of an evaluated position after its own future requests (each goes through
    `schedule_node_impl` with `now = t`, starting from the consumed slot `t`) -/
def selfSlot (t : Time) (Ts : List Time) : Time := Ts.foldl (fun s T => if s ≤ t ∨ T < s then T else s) t

theorem foldl_self_slot (g : G) (k : Nat) (t : Time) (Ts : List Time) (hk : k < g.slots.length) (hnow : g.now = t) (s0 : Time)
    (hs : slotOf g k = s0) :
    slotOf ((Ts.map (fun T => (⟨k, T⟩ : Req))).foldl scheduleNode g) k =
      Ts.foldl (fun s T => if s ≤ t ∨ T < s then T else s) s0 := by
  induction Ts generalizing g s0 with
  | nil => simpa using hs
  | cons T rest ih =>
    simp only [List.map_cons, List.foldl_cons]
    apply ih (scheduleNode g ⟨k, T⟩) (by rw [scheduleNode_length]; exact hk) (by rw [scheduleNode_now]; exact hnow)
    rw [scheduleNode_slots g ⟨k, T⟩ k hk]
    unfold accepts
    simp only [hs, hnow, true_and]

theorem foldl_other_slot (g : G) (reqs : List Req) (q : Nat) (h : ∀ r ∈ reqs, r.node ≠ q) :
    slotOf (reqs.foldl scheduleNode g) q = slotOf g q := by
  induction reqs generalizing g with
  | nil => rfl
  | cons r rest ih =>
    rw [List.foldl_cons, ih _ (fun r' hr' => h r' (by simp [hr']))]
    have hne : r.node ≠ q := h r (by simp)
    unfold scheduleNode slotOf
    simp only
    split
    · simp only [List.getD_eq_getElem?_getD, List.getElem?_set]
      have : ¬ r.node = q := hne
      simp [this]
    · rfl

theorem denSeq_keeps (F : Flow S) (ρ : Rank F.n) (t : Time) (due : Nat → Bool) (fuel k : Nat) (σ : Nat → S) (w ev : List Nat)
    (hfk : k + fuel = F.n) (i : Nat) (hi : i < F.n) (hpos : ρ.posOf i < k) : (denSeq F ρ t due fuel k σ w ev).1 i = σ i := by
  induction fuel generalizing k σ w ev with
  | zero => rfl
  | succ fuel ih =>
    rw [denSeq]; simp only
    have hk : k < F.n := by omega
    have hne : i ≠ ρ.node k := fun e => by rw [e, (ρ.left k hk).1] at hpos; omega
    split
    · rw [ih (k + 1) _ _ _ (by omega) (by omega)]; unfold upd; simp [hne]
    · exact ih (k + 1) _ _ _ (by omega) (by omega)

/-! ## non-vacuity: a diamond `0 → {1, 2} → 3` ranked as 0,1,2,3 and as 0,2,1,3 -/

def exF : Flow Nat :=
  { n := 4,
    prods := fun i => if i = 1 ∨ i = 2 then [0] else if i = 3 then [1, 2] else [],
    reads := fun i => if i = 1 ∨ i = 2 then [0] else if i = 3 then [1, 2] else [],
    f := fun i σ _ => if i = 0 then (σ 0 + 1, true) else if i = 3 then (σ 1 + σ 2, true) else (σ 0 * (i + 1), true),
    selfReq := fun _ _ _ => [] }

def exR1 : Rank 4 := { node := id, posOf := id, left := fun _ h => ⟨rfl, h⟩, right := fun _ h => ⟨rfl, h⟩ }
def swap12 (i : Nat) : Nat := if i = 1 then 2 else if i = 2 then 1 else i
def exR2 : Rank 4 :=
  { node := swap12, posOf := swap12,
    left := by intro k hk; unfold swap12; refine ⟨?_, ?_⟩ <;> (repeat' split) <;> omega,
    right := by intro k hk; unfold swap12; refine ⟨?_, ?_⟩ <;> (repeat' split) <;> omega }

example : (cycle true (beh exF exR1) 4 5 { slots := [5, 0, 0, 0] } (fun _ => 1)).evaluated = [0, 1, 2, 3] := by decide
example : (List.range 4).map (cycle true (beh exF exR1) 4 5 { slots := [5, 0, 0, 0] } (fun _ => 1)).st =
          (List.range 4).map (cycle true (beh exF exR2) 4 5 { slots := [5, 0, 0, 0] } (fun _ => 1)).st := by decide

end HgVerif.Flow
