import HgVerif.Lemmas.ReduceInc
import HgVerif.Lemmas.ReduceIncG
import HgVerif.Props.C11
/-!
# C11, incremental part — the cached combiner outputs are the folds of the leaves below them

Property theorems only (helpers: `Lemmas/ReduceInc.lean`; model: `Model/ReduceInc.lean`, which runs the
structural storage of `Model/Reduce.lean`).  Everything is for an arbitrary carrier `α`, an arbitrary key
type `κ` and an arbitrary ASSOCIATIVE combiner `f` (no commutativity is needed for the cache: leaves are
folded in dense order), over ALL histories of evaluations of the node: each cycle is any batch of
removals (tail and non-tail keys, several per cycle: `remove_leaf_at` moves the tail leaf into the hole),
additions, value ticks and zero ticks, in the code's processing order, with or without capacity growth.

Lifted-kernel path (`cycleL`)
* `CacheInv`                : the invariant — `Shape` (Props/C11), every leaf is a valid element, and
                              `Good`: every live combiner's cached output is the fold of `f` over the
                              leaves of its interval (`sliceAt`); the singleton root with a zero holds
                              `f value zero`.
* `cacheInv_init`, `cacheInv_step`, `cacheInv_reachable` : init + one cycle + every reachable state.
* `cached_root_eq_fold`, `cached_root_eq_rootOut`, `reachable_out_eq_fold` : hence the PUBLISHED root is
                              the fold over exactly the live elements / is the ideal `rootOut` of
                              Props/C11 (so `tree_value_eq_fold`, `zero_contract`, `reduce_history_free`
                              apply to the cached tree).
* `mem_evaluated_iff`, `structural_iff_interval`, `ticked_iff_interval` : the set of combiners
                              re-evaluated by a cycle is EXACTLY the live combiners on the ancestor paths
                              of the recorded structural leaves and of the leaves of the modified slots
                              (plus the singleton root on a zero tick; every live combiner on a full
                              pass), an ancestor being a position whose leaf interval holds the leaf.
* `recorded_covers_changed` : every dense leaf whose key changed in the cycle (removed, filled by the
                              moved tail, vacated tail, appended) is a recorded structural leaf.
* `unevaluated_unchanged`, `retired_or_live` : no stale combiner survives — a combiner that exists after
                              the cycle and was not evaluated saw no key change and no value tick below
                              it; a combiner that existed before is retired or still there.

Generic child-graph path (`cycleG`: every combiner is a child graph whose two inputs are LINKED to
outputs at the last re-bind of its position, and which runs only when a tick of a linked output, a
sampled re-bind or its start scheduled it)
* `GenInv`                  : `CacheInv` of the cached outputs + `Bound` (the links of every live combiner
                              are what `bind_combiner_inputs` would make for the CURRENT leaves: element
                              outputs by key, combiner outputs by position, the zero output) + no child
                              graph holds a pending schedule.
* `genInv_init`, `genInv_step`, `genInv_reachable` : init + one cycle + every reachable state.  The step
                              covers the tick notifications through the old links, phase 2 over the
                              structural positions (ascending; sampled re-bind only where the source
                              changed), the start of created combiners, and the pass in which a candidate
                              runs only if scheduled and schedules the combiners linked to it.
* `generic_links_current`, `generic_no_pending`, `generic_cached_combiner_eq_fold`,
  `generic_root_eq_fold`, `generic_out_eq_lifted_out` : the consequences: links are never stale, no
                              schedule survives a cycle (every scheduled child graph was a candidate and
                              ran), a candidate that did not run was consistent with unchanged inputs, and
                              both paths publish the same fold.
* `generic_evaluated_candidates` : only candidates run.

Counter-witnesses (kernel-evaluated on concrete histories; labelled `witness_…`; they are tests of the
two rules, not theorems about all inputs): the seeded rule s75 (`record_removed_leaf_paths` forgets the
moved tail leaf's path) and the seeded rule s10/s21 (value-tick paths skipped in a cycle that rebuilt)
break `CacheInv` and publish a wrong root; on the generic path s75 leaves a stale link (`GenInv` broken).
-/
set_option linter.unusedSectionVars false

namespace HgVerif.ReduceInc
open HgVerif.Reduce

section Lifted
variable {κ α : Type} [DecidableEq κ]

/-! ## the invariant: init, step, every reachable state -/

/-- `CacheInv` holds for the freshly constructed node (no leaf, no combiner) -/
theorem cacheInv_init (f : α → α → α) (hz : Bool) (zero : Option α) (src : κ → Option α) :
    CacheInv f hz zero src ({} : LSt κ α) := by
  refine ⟨shape_init hz, by intro key hk; simp at hk, ⟨rfl, ?_, ?_⟩⟩
  · intro _ k hk
    have : (0 : Nat) = 2 ^ k := hk
    have := two_pow_pos' k
    omega
  · intro _ key v z hk
    simp at hk

/-- What the surrounding graph guarantees about the inputs of one evaluation, relative to the element
    and zero values (`src0`, `zero0`) of the previous evaluation: an element whose slot is not in the
    modified set kept its value; the zero kept its value unless it ticked; the leaves after the
    reconcile are valid elements (the reconcile is handed exactly the removed / invalidated and the
    added / modified valid keys); a modified slot means the collection ticked and is available. -/
structure InputsOK (f : α → α → α) (hz : Bool) (s : LSt κ α) (i : CycleIn κ α)
    (src0 : κ → Option α) (zero0 : Option α) : Prop where
  unticked : ∀ key ∈ (cycleL f hz s i).st.tree.keys, key ∉ i.ticked → i.src key = src0 key
  zeroKept : i.zeroEvent = false → i.zero = zero0
  leavesValid : ∀ key ∈ (cycleL f hz s i).st.tree.keys, (i.src key).isSome
  tickIsEvent : i.ticked ≠ [] → i.collEvent = true ∧ i.available = true

/-- C11-inc (step): one evaluation of the node — ANY batch of removals (tail or not), additions, value
    ticks, zero tick; sparse or full reconcile; incremental rebuild, full rebuild or capacity growth
    into the other bank — preserves the cache invariant, for every associative combiner. -/
theorem cacheInv_step (f : α → α → α) (hf : ∀ a b c, f (f a b) c = f a (f b c)) (hz : Bool) (s : LSt κ α)
    (i : CycleIn κ α) (src0 : κ → Option α) (zero0 : Option α) (h : CacheInv f hz zero0 src0 s)
    (hi : InputsOK f hz s i src0 zero0) :
    CacheInv f hz i.zero i.src (cycleL f hz s i).st :=
  cacheInv_step' f hf hz s i src0 zero0 h hi.unticked hi.zeroKept hi.leavesValid hi.tickIsEvent

/-- the states reachable by ANY history of evaluations, indexed by the current element / zero values -/
inductive ReachL (f : α → α → α) (hz : Bool) : (κ → Option α) → Option α → LSt κ α → Prop
  | init (src : κ → Option α) (zero : Option α) : ReachL f hz src zero {}
  | cycle (s : LSt κ α) (i : CycleIn κ α) (src0 : κ → Option α) (zero0 : Option α) :
      ReachL f hz src0 zero0 s → InputsOK f hz s i src0 zero0 →
      ReachL f hz i.src i.zero (cycleL f hz s i).st

/-- C11-inc: after EVERY history the cached output of every live combiner is the fold over the leaves
    below it. -/
theorem cacheInv_reachable (f : α → α → α) (hf : ∀ a b c, f (f a b) c = f a (f b c)) (hz : Bool)
    (src : κ → Option α) (zero : Option α) (s : LSt κ α) (h : ReachL f hz src zero s) :
    CacheInv f hz zero src s := by
  induction h with
  | init src zero => exact cacheInv_init f hz zero src
  | cycle s i src0 zero0 _ hi ih => exact cacheInv_step f hf hz s i src0 zero0 ih hi

/-- the invariant, spelled out at one combiner: capacity `2^k`, heap position `(d, j)`, two or more
    leaves or no zero: the cached output is the fold over the leaves `[j·2^(k-d), (j+1)·2^(k-d))` -/
theorem cached_combiner_eq_fold (f : α → α → α) (hz : Bool) (zero : Option α) (src : κ → Option α) (s : LSt κ α)
    (h : CacheInv f hz zero src s) (hn : ¬ (hz = true ∧ s.tree.keys.length = 1))
    (k d j : Nat) (hk : s.tree.cap = 2 ^ k) (hd : d < k) (hj : j < 2 ^ d)
    (hl : combLive s.tree.combiners (2 ^ d + j - 1) = true) :
    s.cache[2 ^ d + j - 1]? =
      some (foldOpt f (((s.tree.keys.filterMap src).drop (j * 2 ^ (k - d))).take (2 ^ (k - d)))) := by
  rw [h.good.inner hn k hk _ (pos_lt k d j hd hj) hl, sliceAt_pos k d j hj]
  rfl

/-! ## the published root -/

/-- C11-inc: the root published from the CACHE is the fold of the combiner over exactly the live
    elements (two or more leaves, or no zero). -/
theorem cached_root_eq_fold (f : α → α → α) (hz : Bool) (zero : Option α) (src : κ → Option α) (s : LSt κ α)
    (h : CacheInv f hz zero src s) (hn : ¬ (hz = true ∧ s.tree.keys.length = 1)) (hpos : 0 < s.tree.keys.length) :
    rootVal hz zero src s = foldOpt f (s.tree.keys.filterMap src) :=
  rootVal_inner f hz zero src s.tree s.cache h.shape h.valid h.good hn hpos

/-- C11-inc: the root published from the cache IS the ideal root `rootOut` of Props/C11 (the value the
    tree holds when every combiner is recomputed from the leaves) — so `tree_value_eq_fold`,
    `zero_contract`, `reduce_history_free` are statements about what the incremental node publishes.
    (`hzv`: a singleton with a zero needs the zero to be valid; see the report for the excluded point.) -/
theorem cached_root_eq_rootOut (f : α → α → α) (hf : ∀ a b c, f (f a b) c = f a (f b c)) (hz : Bool)
    (zero : Option α) (src : κ → Option α) (s : LSt κ α) (h : CacheInv f hz zero src s)
    (hzv : hz = true → s.tree.keys.length = 1 → zero.isSome) :
    rootVal hz zero src s = rootOut f hz zero src s.tree := by
  by_cases hone : hz = true ∧ s.tree.keys.length = 1
  · obtain ⟨hzt, hn⟩ := hone
    subst hzt
    obtain ⟨key, hk⟩ : ∃ key, s.tree.keys = [key] := by
      match hkk : s.tree.keys, hn with
      | [key], _ => exact ⟨key, rfl⟩
    obtain ⟨v, hv⟩ := Option.isSome_iff_exists.mp (h.valid key (by rw [hk]; simp))
    obtain ⟨z, hzs⟩ := Option.isSome_iff_exists.mp (hzv rfl hn)
    rw [rootVal_single f zero src s.tree s.cache h.shape h.good key v z hk hv hzs,
      singleton_zero_value f zero src s.tree h.shape key hk, hv, hzs]
  · have hsrc := map_eq_map_some_filterMap src s.tree.keys h.valid
    by_cases h0 : s.tree.keys.length = 0
    · have hk : s.tree.keys = [] := List.eq_nil_of_length_eq_zero h0
      rw [rootVal_empty hz zero src s.tree s.cache hk]
      have hc := zero_contract f hf hz src s.tree h.shape
      cases hz with
      | false => rw [hc.1 hk rfl zero]; rfl
      | true => rw [hc.2.1 hk rfl zero]; rfl
    · have hn : hz = false ∨ 2 ≤ s.tree.keys.length := by
        cases hz with
        | false => exact Or.inl rfl
        | true =>
          right
          have : ¬ s.tree.keys.length = 1 := fun h1 => hone ⟨rfl, h1⟩
          omega
      rw [cached_root_eq_fold f hz zero src s h hone (by omega),
        tree_value_eq_fold f hf hz zero src s.tree h.shape _ hsrc hn]

/-- C11-inc, end to end: after ANY history of evaluations, the value the node publishes in its last
    evaluation is the fold over exactly the live elements. -/
theorem reachable_out_eq_fold (f : α → α → α) (hf : ∀ a b c, f (f a b) c = f a (f b c)) (hz : Bool)
    (s : LSt κ α) (i : CycleIn κ α) (src0 : κ → Option α) (zero0 : Option α)
    (hr : ReachL f hz src0 zero0 s) (hi : InputsOK f hz s i src0 zero0)
    (hn : ¬ (hz = true ∧ (cycleL f hz s i).st.tree.keys.length = 1))
    (hpos : 0 < (cycleL f hz s i).st.tree.keys.length) :
    (cycleL f hz s i).out = foldOpt f ((cycleL f hz s i).st.tree.keys.filterMap i.src) :=
  cached_root_eq_fold f hz i.zero i.src _
    (cacheInv_step f hf hz s i src0 zero0 (cacheInv_reachable f hf hz src0 zero0 s hr) hi) hn hpos

/-! ## which combiners a cycle re-evaluates -/

/-- the lifted path evaluates every candidate: `evaluation_positions` -/
theorem evaluated_eq_cands (f : α → α → α) (hz : Bool) (s : LSt κ α) (i : CycleIn κ α) :
    (cycleL f hz s i).evaluated = (plan hz s.tree i).cands := rfl

/-- C11-inc: when the pass is not a full scan (the node was woken by an input event or rebuilt), the
    combiners evaluated by the cycle are EXACTLY: the positions `rebuild_structure` visited that hold a
    combiner; the combiner-holding heap ancestors of the leaves of the modified slots (when the
    collection ticked and is available); the root on a zero tick of a singleton. -/
theorem mem_evaluated_iff (f : α → α → α) (hz : Bool) (s : LSt κ α) (i : CycleIn κ α)
    (hfs : fullScan hz (plan hz s.tree i).rb.isSome i.collEvent i.zeroEvent = false) (q : Nat) :
    q ∈ (cycleL f hz s i).evaluated ↔
      (∃ r, (plan hz s.tree i).rb = some r ∧ q ∈ r.positions ∧ q < (plan hz s.tree i).tree.combiners.length ∧
        combLive (plan hz s.tree i).tree.combiners q = true) ∨
      ((i.collEvent && i.available) = true ∧ ∃ key ∈ i.ticked, ∃ leaf, leafOf (plan hz s.tree i).tree.keys key = some leaf ∧
        q ∈ pathFrom (plan hz s.tree i).tree.combiners.length (internalCount (plan hz s.tree i).tree.cap + leaf) ∧
        combLive (plan hz s.tree i).tree.combiners q = true) ∨
      ((hz && i.zeroEvent && (plan hz s.tree i).tree.keys.length == 1 && !(plan hz s.tree i).tree.combiners.isEmpty &&
        combLive (plan hz s.tree i).tree.combiners 0) = true ∧ q = 0) := by
  rw [evaluated_eq_cands]
  have hc : (plan hz s.tree i).cands = candidates hz (plan hz s.tree i).tree
      ((plan hz s.tree i).rb.map (·.positions)) i.available i.collEvent i.zeroEvent i.ticked := rfl
  have hfs' : fullScan hz ((plan hz s.tree i).rb.map (·.positions)).isSome i.collEvent i.zeroEvent = false := by
    rw [Option.isSome_map]; exact hfs
  rw [hc, mem_candidates hz _ _ _ _ _ _ hfs']
  constructor
  · rintro (⟨sp, hsp, h1, h2, h3⟩ | ⟨hce, leaf, hleaf, hq⟩ | h)
    · left
      cases hrb : (plan hz s.tree i).rb with
      | none => rw [hrb] at hsp; cases hsp
      | some r =>
        rw [hrb] at hsp
        simp only [Option.map_some, Option.some.injEq] at hsp
        exact ⟨r, rfl, by rw [hsp]; exact h1, h2, h3⟩
    · right; left
      obtain ⟨key, hkt, hlf⟩ := (mem_modifiedLeaves _ _ _).mp hleaf
      obtain ⟨hp, hl⟩ := (mem_leafPathLive _ _ _ _).mp hq
      exact ⟨hce, key, hkt, leaf, hlf, hp, hl⟩
    · right; right; exact h
  · rintro (⟨r, hrb, h1, h2, h3⟩ | ⟨hce, key, hkt, leaf, hlf, hp, hl⟩ | h)
    · left
      exact ⟨r.positions, by rw [hrb]; rfl, h1, h2, h3⟩
    · right; left
      exact ⟨hce, leaf, (mem_modifiedLeaves _ _ _).mpr ⟨key, hkt, hlf⟩, (mem_leafPathLive _ _ _ _).mpr ⟨hp, hl⟩⟩
    · right; right; exact h

/-- on a full scan (a wake-up without input event and without rebuild) every combiner is evaluated -/
theorem mem_evaluated_full (f : α → α → α) (hz : Bool) (s : LSt κ α) (i : CycleIn κ α)
    (hfs : fullScan hz (plan hz s.tree i).rb.isSome i.collEvent i.zeroEvent = true) (q : Nat) :
    q ∈ (cycleL f hz s i).evaluated ↔
      q < (plan hz s.tree i).tree.combiners.length ∧ combLive (plan hz s.tree i).tree.combiners q = true := by
  rw [evaluated_eq_cands]
  have hc : (plan hz s.tree i).cands = candidates hz (plan hz s.tree i).tree
      ((plan hz s.tree i).rb.map (·.positions)) i.available i.collEvent i.zeroEvent i.ticked := rfl
  have hfs' : fullScan hz ((plan hz s.tree i).rb.map (·.positions)).isSome i.collEvent i.zeroEvent = true := by
    rw [Option.isSome_map]; exact hfs
  rw [hc, mem_candidates_full hz _ _ _ _ _ _ hfs']

/-- the positions visited by an incremental rebuild are the heap ancestors of the recorded structural
    leaves, and a heap ancestor of a leaf is a position whose leaf interval holds it -/
theorem structural_iff_interval (k d j : Nat) (hd : d < k) (hj : j < 2 ^ d) (sl : List Nat)
    (hsl : ∀ m ∈ sl, m < 2 ^ k) :
    2 ^ d + j - 1 ∈ structuralPositions (2 ^ k) (2 ^ k - 1) sl ↔
      ∃ m ∈ sl, j * 2 ^ (k - d) ≤ m ∧ m < (j + 1) * 2 ^ (k - d) := by
  rw [mem_structuralPositions]
  constructor
  · rintro ⟨m, hm, hp⟩
    exact ⟨m, hm, (anc_iff_interval k d j m hd hj (hsl m hm)).mp hp⟩
  · rintro ⟨m, hm, hp⟩
    exact ⟨m, hm, (anc_iff_interval k d j m hd hj (hsl m hm)).mpr hp⟩

/-- the same for the path of a leaf of a modified slot -/
theorem ticked_iff_interval (k d j m : Nat) (hd : d < k) (hj : j < 2 ^ d) (hm : m < 2 ^ k) :
    2 ^ d + j - 1 ∈ pathFrom (2 ^ k - 1) (internalCount (2 ^ k) + m) ↔
      j * 2 ^ (k - d) ≤ m ∧ m < (j + 1) * 2 ^ (k - d) :=
  anc_iff_interval k d j m hd hj hm

/-- C11-inc: in every cycle that is not a pass over ALL live combiners, the leaf maintenance recorded
    every dense leaf whose key differs from the start of the cycle — the removed leaf, the hole the
    moved tail leaf filled, the vacated tail position, every appended leaf — and all live combiners on
    the ancestor paths of the recorded leaves are evaluated. -/
theorem recorded_covers_changed (f : α → α → α) (hz : Bool) (s : LSt κ α) (i : CycleIn κ α)
    (hs : Shape hz s.tree) (hev : i.ticked ≠ [] → i.collEvent = true ∧ i.available = true) :
    (∀ q, q < (cycleL f hz s i).st.tree.combiners.length → combLive (cycleL f hz s i).st.tree.combiners q = true →
      q ∈ (cycleL f hz s i).evaluated) ∨
    ∃ sl, (∀ m, s.tree.keys[m]? ≠ (cycleL f hz s i).st.tree.keys[m]? → m ∈ sl) ∧
      ∀ q ∈ structuralPositions (cycleL f hz s i).st.tree.cap (cycleL f hz s i).st.tree.combiners.length sl,
        q < (cycleL f hz s i).st.tree.combiners.length → combLive (cycleL f hz s i).st.tree.combiners q = true →
        q ∈ (cycleL f hz s i).evaluated := by
  rcases plan_kinds hz s.tree i hs hev with ⟨hall, _⟩ | ⟨sl, hin, _, _⟩
  · exact Or.inl hall
  · exact Or.inr ⟨sl, hin.moved, hin.cP⟩

/-- C11-inc, NO STALE COMBINER SURVIVES (1): a combiner that exists after the cycle and was not evaluated
    in it existed before at the same position of the same bank, and nothing below it changed — every
    dense leaf of its interval holds the same key as before the cycle and that key's slot is not in the
    modified set.  (Contrapositive: a combiner with a changed, moved or ticked leaf below it is
    re-evaluated.) -/
theorem unevaluated_unchanged (f : α → α → α) (hz : Bool) (s : LSt κ α) (i : CycleIn κ α) (hs : Shape hz s.tree)
    (hev : i.ticked ≠ [] → i.collEvent = true ∧ i.available = true)
    (k d j : Nat) (hk : (cycleL f hz s i).st.tree.cap = 2 ^ k) (hd : d < k) (hj : j < 2 ^ d)
    (hl : combLive (cycleL f hz s i).st.tree.combiners (2 ^ d + j - 1) = true)
    (hne : 2 ^ d + j - 1 ∉ (cycleL f hz s i).evaluated) :
    s.tree.cap = 2 ^ k ∧ combLive s.tree.combiners (2 ^ d + j - 1) = true ∧
    ∀ m, j * 2 ^ (k - d) ≤ m → m < (j + 1) * 2 ^ (k - d) →
      s.tree.keys[m]? = (cycleL f hz s i).st.tree.keys[m]? ∧
      ∀ key, (cycleL f hz s i).st.tree.keys[m]? = some key → key ∉ i.ticked :=
  plan_unevaluated_unchanged hz s.tree i hs hev k d j hk hd hj hl hne

/-- C11-inc, NO STALE COMBINER SURVIVES (2): every combiner that existed before the cycle is either set
    aside by it (phase 1 `retired`, or the whole old bank on capacity growth) or still exists at its
    position in the same bank — where (1) applies to it. -/
theorem retired_or_live (f : α → α → α) (hz : Bool) (s : LSt κ α) (i : CycleIn κ α) (hs : Shape hz s.tree)
    (q : Nat) (hl : combLive s.tree.combiners q = true) :
    q ∈ (cycleL f hz s i).retired ∨
      (combLive (cycleL f hz s i).st.tree.combiners q = true ∧ (cycleL f hz s i).st.tree.cap = s.tree.cap) :=
  plan_retired_or_live hz s.tree i hs q hl

end Lifted

/-! ## the generic child-graph path -/

section Generic
variable {κ α : Type} [DecidableEq κ]

/-- `GenInv` holds for the freshly constructed node -/
theorem genInv_init (f : α → α → α) (hz : Bool) (zero : Option α) (src : κ → Option α) :
    GenInv f hz zero src ({} : GSt κ α) := by
  refine ⟨cacheInv_init f hz zero src, rfl, rfl, ?_, ?_⟩
  · intro q hl
    simp [combLive] at hl
  · intro q hl
    simp [combLive] at hl

/-- the environment contract of one evaluation on the generic path: `InputsOK` of the lifted path, and a
    singleton with a zero has a valid zero (the generator ticks the zero in cycle 0; without it the
    singleton root cannot evaluate — the excluded point of the report) -/
structure InputsOKG (f : α → α → α) (hz : Bool) (s : GSt κ α) (i : CycleIn κ α)
    (src0 : κ → Option α) (zero0 : Option α) : Prop where
  unticked : ∀ key ∈ (cycleG f hz s i).st.tree.keys, key ∉ i.ticked → i.src key = src0 key
  zeroKept : i.zeroEvent = false → i.zero = zero0
  leavesValid : ∀ key ∈ (cycleG f hz s i).st.tree.keys, (i.src key).isSome
  tickIsEvent : i.ticked ≠ [] → i.collEvent = true ∧ i.available = true
  zeroValid : hz = true → (cycleG f hz s i).st.tree.keys.length = 1 → i.zero.isSome

/-- C11-inc, generic path (step): one evaluation — tick notifications through the standing links,
    reconcile, phase 1, phase 2 re-binding, start of created combiners, the schedule-driven evaluation
    pass — preserves `GenInv`, for every associative combiner. -/
theorem genInv_step (f : α → α → α) (hf : ∀ a b c, f (f a b) c = f a (f b c)) (hz : Bool) (s : GSt κ α)
    (i : CycleIn κ α) (src0 : κ → Option α) (zero0 : Option α) (h : GenInv f hz zero0 src0 s)
    (hi : InputsOKG f hz s i src0 zero0) :
    GenInv f hz i.zero i.src (cycleG f hz s i).st :=
  genInv_step' f hf hz s i src0 zero0 h hi.unticked hi.zeroKept hi.leavesValid hi.tickIsEvent hi.zeroValid

/-- the states of the generic path reachable by ANY history of evaluations -/
inductive ReachG (f : α → α → α) (hz : Bool) : (κ → Option α) → Option α → GSt κ α → Prop
  | init (src : κ → Option α) (zero : Option α) : ReachG f hz src zero {}
  | cycle (s : GSt κ α) (i : CycleIn κ α) (src0 : κ → Option α) (zero0 : Option α) :
      ReachG f hz src0 zero0 s → InputsOKG f hz s i src0 zero0 →
      ReachG f hz i.src i.zero (cycleG f hz s i).st

/-- C11-inc, generic path: `GenInv` holds after EVERY history. -/
theorem genInv_reachable (f : α → α → α) (hf : ∀ a b c, f (f a b) c = f a (f b c)) (hz : Bool)
    (src : κ → Option α) (zero : Option α) (s : GSt κ α) (h : ReachG f hz src zero s) :
    GenInv f hz zero src s := by
  induction h with
  | init src zero => exact genInv_init f hz zero src
  | cycle s i src0 zero0 _ hi ih => exact genInv_step f hf hz s i src0 zero0 ih hi

/-- C11-inc, the link re-binding of generic combiner graphs: after every history the two inputs of every
    live combiner are linked to exactly the outputs its child aggregates resolve to NOW — the source
    element of the key at the resolved dense leaf, the combiner at the resolved position, the zero
    input for an empty aggregate.  No link to a moved, removed or retired source survives. -/
theorem generic_links_current (f : α → α → α) (hf : ∀ a b c, f (f a b) c = f a (f b c)) (hz : Bool)
    (src : κ → Option α) (zero : Option α) (s : GSt κ α) (h : ReachG f hz src zero s) (q : Nat)
    (hl : combLive s.tree.combiners q = true) :
    bindAt s.bind q =
      (srcOf s.tree.keys (resolveClosed s.tree.cap s.tree.keys.length (2 * q + 1)),
       srcOf s.tree.keys (resolveClosed s.tree.cap s.tree.keys.length (2 * q + 2))) :=
  (genInv_reachable f hf hz src zero s h).bound q hl

/-- C11-inc: after every history no combiner child graph holds a pending schedule: every child graph a
    tick, a re-bind or its start scheduled was an evaluation candidate of that cycle and ran. -/
theorem generic_no_pending (f : α → α → α) (hf : ∀ a b c, f (f a b) c = f a (f b c)) (hz : Bool)
    (src : κ → Option α) (zero : Option α) (s : GSt κ α) (h : ReachG f hz src zero s) (q : Nat)
    (hl : combLive s.tree.combiners q = true) : schedAt s.sched q = false :=
  (genInv_reachable f hf hz src zero s h).idle q hl

/-- C11-inc, generic path: the cached output of every live combiner is the fold over its interval -/
theorem generic_cached_combiner_eq_fold (f : α → α → α) (hf : ∀ a b c, f (f a b) c = f a (f b c)) (hz : Bool)
    (src : κ → Option α) (zero : Option α) (s : GSt κ α) (h : ReachG f hz src zero s)
    (hn : ¬ (hz = true ∧ s.tree.keys.length = 1))
    (k d j : Nat) (hk : s.tree.cap = 2 ^ k) (hd : d < k) (hj : j < 2 ^ d)
    (hl : combLive s.tree.combiners (2 ^ d + j - 1) = true) :
    s.cache[2 ^ d + j - 1]? =
      some (foldOpt f (((s.tree.keys.filterMap src).drop (j * 2 ^ (k - d))).take (2 ^ (k - d)))) :=
  cached_combiner_eq_fold f hz zero src s.toL (genInv_reachable f hf hz src zero s h).cache hn k d j hk hd hj hl

/-- C11-inc, generic path: the published root is the fold over exactly the live elements -/
theorem generic_root_eq_fold (f : α → α → α) (hf : ∀ a b c, f (f a b) c = f a (f b c)) (hz : Bool)
    (src : κ → Option α) (zero : Option α) (s : GSt κ α) (h : ReachG f hz src zero s)
    (hn : ¬ (hz = true ∧ s.tree.keys.length = 1)) (hpos : 0 < s.tree.keys.length) :
    rootVal hz zero src s.toL = foldOpt f (s.tree.keys.filterMap src) :=
  cached_root_eq_fold f hz zero src s.toL (genInv_reachable f hf hz src zero s h).cache hn hpos

/-- both paths run the same structural storage and the same candidate list -/
theorem generic_tree_eq_lifted (f : α → α → α) (hz : Bool) (s : GSt κ α) (i : CycleIn κ α) :
    (cycleG f hz s i).st.tree = (cycleL f hz s.toL i).st.tree ∧
    (cycleG f hz s i).candidates = (cycleL f hz s.toL i).evaluated := ⟨rfl, rfl⟩

/-- C11-inc, ONE INVARIANT COVERS BOTH PATHS: from states of the two paths that satisfy their invariants
    and hold the same tree, the same inputs make both publish the same value — the fold over the live
    elements (two or more leaves, or no zero). -/
theorem generic_out_eq_lifted_out (f : α → α → α) (hf : ∀ a b c, f (f a b) c = f a (f b c)) (hz : Bool)
    (sg : GSt κ α) (sl : LSt κ α) (i : CycleIn κ α) (src0 : κ → Option α) (zero0 : Option α)
    (hg : GenInv f hz zero0 src0 sg) (hl : CacheInv f hz zero0 src0 sl) (htree : sg.tree = sl.tree)
    (hig : InputsOKG f hz sg i src0 zero0)
    (hn : ¬ (hz = true ∧ (cycleG f hz sg i).st.tree.keys.length = 1))
    (hpos : 0 < (cycleG f hz sg i).st.tree.keys.length) :
    (cycleG f hz sg i).out = (cycleL f hz sl i).out := by
  have hsame : (cycleL f hz sl i).st.tree = (cycleG f hz sg i).st.tree := by
    show (plan hz sl.tree i).tree = (plan hz sg.tree i).tree
    rw [htree]
  have hil : InputsOK f hz sl i src0 zero0 :=
    ⟨by rw [hsame]; exact hig.unticked, hig.zeroKept, by rw [hsame]; exact hig.leavesValid, hig.tickIsEvent⟩
  have h1 := cached_root_eq_fold f hz i.zero i.src _ (genInv_step f hf hz sg i src0 zero0 hg hig).cache hn hpos
  have h2 := cached_root_eq_fold f hz i.zero i.src _ (cacheInv_step f hf hz sl i src0 zero0 hl hil)
    (by rw [hsame]; exact hn) (by rw [hsame]; exact hpos)
  have e1 : (cycleG f hz sg i).out = rootVal hz i.zero i.src (cycleG f hz sg i).st.toL := rfl
  have e2 : (cycleL f hz sl i).out = rootVal hz i.zero i.src (cycleL f hz sl i).st := rfl
  rw [e1, e2, h1, h2, hsame]
  rfl

/-- the combiners that run in a cycle of the generic path are evaluation candidates of that cycle -/
theorem generic_evaluated_candidates (f : α → α → α) (hz : Bool) (s : GSt κ α) (i : CycleIn κ α) (q : Nat)
    (h : q ∈ (cycleG f hz s i).evaluated) : q ∈ (cycleG f hz s i).candidates := by
  have key : ∀ (cands : List Nat) (st : GPass κ α) (z : Option α) (live : Nat → Bool)
      (bind : List (Src κ × Src κ)),
      q ∈ (cands.foldl (evalG f z i.src live bind) st).evaluated → q ∈ st.evaluated ∨ q ∈ cands := by
    intro cands
    induction cands with
    | nil => intro st z live bind h; exact Or.inl h
    | cons p ps ih =>
      intro st z live bind h
      rw [List.foldl_cons] at h
      rcases ih _ z live bind h with h1 | h1
      · unfold evalG at h1
        split at h1
        · dsimp only at h1
          split at h1
          · simp only [List.mem_append, List.mem_singleton] at h1
            rcases h1 with h1 | h1
            · exact Or.inl h1
            · exact Or.inr (by rw [h1]; exact List.mem_cons_self)
          · exact Or.inl h1
        · exact Or.inl h1
      · exact Or.inr (List.mem_cons_of_mem _ h1)
  rcases key _ _ _ _ _ h with h1 | h1
  · simp at h1
  · exact h1

end Generic

/-! ## non-vacuity: a concrete non-trivial history (the s75 situation, on the code's rules) -/

namespace Example

/-- eight keys `0..7` with values `2^k` arrive in one cycle (full tree of capacity 8) -/
def in1 : CycleIn Nat Nat :=
  { now := 1, collEvent := true, present := [0, 1, 2, 3, 4, 5, 6, 7], ticked := [0, 1, 2, 3, 4, 5, 6, 7]
    src := fun k => if k < 8 then some (2 ^ k) else none }

/-- key `0` — a leaf in the OTHER half of the tree from the tail leaf — is removed; nothing else ticks -/
def in2 : CycleIn Nat Nat :=
  { now := 2, collEvent := true, removed := [0]
    src := fun k => if 1 ≤ k ∧ k < 8 then some (2 ^ k) else none }

/-- key `5` ticks (value 1000) while key `9` is appended: a value tick and a structural change in
    different subtrees in one cycle (the s10 / s21 situation) -/
def in3 : CycleIn Nat Nat :=
  { now := 3, collEvent := true, present := [9, 5], ticked := [5, 9]
    src := fun k => if k = 5 then some 1000 else if k = 9 then some 7 else if 1 ≤ k ∧ k < 8 then some (2 ^ k) else none }

def add : Nat → Nat → Nat := (· + ·)

def st1 : LSt Nat Nat := (cycleL add false {} in1).st
def st2 : LSt Nat Nat := (cycleL add false st1 in2).st
def st3 : LSt Nat Nat := (cycleL add false st2 in3).st

/-- the tail leaf (key 7) moved into the hole; then key 9 was appended -/
example : st2.tree.keys = [7, 1, 2, 3, 4, 5, 6] ∧ st3.tree.keys = [7, 1, 2, 3, 4, 5, 6, 9] := by decide +kernel

/-- cycle 2 evaluates exactly the live combiners on the two recorded paths (leaf 0: 3, 1, 0; old tail
    leaf 7: 6 — retired —, 2, 0); cycle 3 the paths of the appended leaf 7 and of the ticked leaf 5 -/
example : (cycleL add false st1 in2).evaluated = [3, 2, 1, 0] ∧ (cycleL add false st1 in2).retired = [6] ∧
    (cycleL add false st2 in3).evaluated = [6, 5, 2, 0] := by decide +kernel

theorem ok1 : InputsOK add false ({} : LSt Nat Nat) in1 (fun _ => none) none := by
  refine ⟨?_, fun _ => rfl, ?_, fun _ => ⟨rfl, rfl⟩⟩
  · have hk : (cycleL add false ({} : LSt Nat Nat) in1).st.tree.keys = [0, 1, 2, 3, 4, 5, 6, 7] := by decide +kernel
    rw [hk]
    intro key hkey hnt
    exact absurd hkey hnt
  · have hk : (cycleL add false ({} : LSt Nat Nat) in1).st.tree.keys = [0, 1, 2, 3, 4, 5, 6, 7] := by decide +kernel
    rw [hk]
    decide

theorem ok2 : InputsOK add false st1 in2 in1.src none := by
  have hk : (cycleL add false st1 in2).st.tree.keys = [7, 1, 2, 3, 4, 5, 6] := by decide +kernel
  refine ⟨?_, fun _ => rfl, ?_, fun h => absurd rfl h⟩
  · rw [hk]; decide
  · rw [hk]; decide

theorem ok3 : InputsOK add false st2 in3 in2.src none := by
  have hk : (cycleL add false st2 in3).st.tree.keys = [7, 1, 2, 3, 4, 5, 6, 9] := by decide +kernel
  refine ⟨?_, fun _ => rfl, ?_, fun _ => ⟨rfl, rfl⟩⟩
  · rw [hk]; decide
  · rw [hk]; decide

theorem reach3 : ReachL add false in3.src none st3 :=
  .cycle st2 in3 in2.src none (.cycle st1 in2 in1.src none (.cycle {} in1 (fun _ => none) none (.init _ _) ok1) ok2) ok3

/-- the hypotheses of the theorems are satisfiable on a non-trivial history: the invariant holds … -/
example : CacheInv add false none in3.src st3 := cacheInv_reachable add Nat.add_assoc false _ _ _ reach3

/-- … and the published root is the sum of exactly the live values (`254 - 32 + 1000 + 7`) -/
example : (cycleL add false st2 in3).out = some 1229 := by
  rw [reachable_out_eq_fold add Nat.add_assoc false st2 in3 in2.src none
    (.cycle st1 in2 in1.src none (.cycle {} in1 (fun _ => none) none (.init _ _) ok1) ok2) ok3
    (by decide) (by decide +kernel)]
  decide +kernel

/-! ### the same history on the generic path, with the harness's node combiner `lhs + rhs + 100` -/

def off : Nat → Nat → Nat := fun a b => a + b + 100

theorem off_assoc (a b c : Nat) : off (off a b) c = off a (off b c) := by unfold off; omega

def g1 : GSt Nat Nat := (cycleG off false {} in1).st
def g2 : GSt Nat Nat := (cycleG off false g1 in2).st
def g3 : GSt Nat Nat := (cycleG off false g2 in3).st

/-- the operand pairs the logging node combiner records in cycles 2 and 3, and the links after cycle 3
    (the moved tail element `7` is linked at position 3, its old parent position 6 links the new leaf) -/
example : (cycleG off false g1 in2).evals = [(128, 2), (148, 64), (230, 112), (442, 312)] ∧
    (cycleG off false g2 in3).evals = [(64, 7), (16, 1000), (1116, 171), (442, 1387)] ∧
    (cycleG off false g2 in3).evaluated = [6, 5, 2, 0] ∧
    bindAt g3.bind 3 = (.elem 7, .elem 1) ∧ bindAt g3.bind 6 = (.elem 6, .elem 9) ∧
    g3.sched = [false, false, false, false, false, false, false] := by decide +kernel

theorem okg1 : InputsOKG off false ({} : GSt Nat Nat) in1 (fun _ => none) none := by
  have hk : (cycleG off false ({} : GSt Nat Nat) in1).st.tree.keys = [0, 1, 2, 3, 4, 5, 6, 7] := by decide +kernel
  refine ⟨?_, fun _ => rfl, ?_, fun _ => ⟨rfl, rfl⟩, fun h => by cases h⟩
  · rw [hk]
    intro key hkey hnt
    exact absurd hkey hnt
  · rw [hk]; decide

theorem okg2 : InputsOKG off false g1 in2 in1.src none := by
  have hk : (cycleG off false g1 in2).st.tree.keys = [7, 1, 2, 3, 4, 5, 6] := by decide +kernel
  refine ⟨?_, fun _ => rfl, ?_, fun h => absurd rfl h, fun h => by cases h⟩
  · rw [hk]; decide
  · rw [hk]; decide

theorem okg3 : InputsOKG off false g2 in3 in2.src none := by
  have hk : (cycleG off false g2 in3).st.tree.keys = [7, 1, 2, 3, 4, 5, 6, 9] := by decide +kernel
  refine ⟨?_, fun _ => rfl, ?_, fun _ => ⟨rfl, rfl⟩, fun h => by cases h⟩
  · rw [hk]; decide
  · rw [hk]; decide

theorem reachG3 : ReachG off false in3.src none g3 :=
  .cycle g2 in3 in2.src none (.cycle g1 in2 in1.src none (.cycle {} in1 (fun _ => none) none (.init _ _) okg1) okg2) okg3

/-- the hypotheses of the generic-path theorems are satisfiable on the same non-trivial history -/
example : GenInv off false none in3.src g3 := genInv_reachable off off_assoc false _ _ _ reachG3

end Example

/-! ## counter-witnesses: the seeded rules break the invariant

Kernel-evaluated TESTS on the concrete history of `Example` — not theorems about all inputs.  Each
mutant is the code's cycle (`cycleLOf` over `planWith`) with ONE rule replaced. -/

namespace Witness
open Example

section Rules
variable {κ : Type} [DecidableEq κ]

/-- seeded s75: `record_removed_leaf_paths` records only the removed leaf, not the relocated tail -/
def removeKey75 (t : Tree κ) (k : κ) : Tree κ :=
  match leafOf t.keys k with
  | none => t
  | some leaf => { t with structLeaves := t.structLeaves ++ [leaf], keys := removeLeafAt t.keys leaf }

def reconcileLeaves75 (t : Tree κ) (full : Bool) (removed present : List κ) : Tree κ × Bool :=
  if full then ((present.foldl addKey (clearLeaves t)), true)
  else
    let t1 := removed.foldl removeKey75 t
    let t2 := present.foldl addKey t1
    (t2, !t2.structLeaves.isEmpty)

/-- `rebuildCall` over the s75 leaf reconcile -/
def rebuildCall75 (t : Tree κ) (available modified : Bool) (removed present : List κ) : Tree κ × Option Bool :=
  let fullStructure := !t.published
  if available then
    if !t.primed || modified then
      let r := reconcileLeaves75 t (!t.primed) removed present
      let fullStructure := fullStructure || !t.primed
      let t1 := { r.1 with primed := true }
      if r.2 || !t1.published then (t1, some fullStructure) else (t1, none)
    else if !t.published then (t, some fullStructure) else (t, none)
  else if t.primed || !t.keys.isEmpty then
    ({ clearLeaves t with primed := false }, some true)
  else if !t.published then (t, some fullStructure) else (t, none)

/-- seeded s10 / s21: the paths of the modified leaves are queued only in a cycle that did NOT rebuild -/
def candidates21 (hasZero : Bool) (t : Tree κ) (positions : Option (List Nat))
    (available collEvent zeroEvent : Bool) (ticked : List κ) : List Nat :=
  if fullScan hasZero positions.isSome collEvent zeroEvent then
    (allPositionsDesc t.combiners.length).filter (combLive t.combiners)
  else
    let c1 := match positions with
      | some sp => sp.filter (fun p => decide (p < t.combiners.length) && combLive t.combiners p)
      | none => []
    let c2 := if !positions.isSome && collEvent && available then
        (modifiedLeaves t.keys ticked).foldl (fun acc leaf => acc ++ leafPathLive t.cap t.combiners leaf) []
      else []
    let c3 := if hasZero && zeroEvent && t.keys.length == 1 && !t.combiners.isEmpty && combLive t.combiners 0
      then [0] else []
    descSet (c1 ++ c2 ++ c3)

end Rules

/-- cycle 2 of `Example` under the s75 rule -/
def st2_s75 : LSt Nat Nat := (cycleLOf add false st1 in2 (planWith rebuildCall75 (candidates false) false st1.tree in2)).st

/-- WITNESS (s75): the combiner at heap position 6 (old parent of the moved tail leaf) is neither retired
    nor re-bound, and the combiner at position 2 above it is not re-evaluated: it still holds
    `16+32+64+128` although the leaves below it are now `16, 32, 64` -/
theorem witness_s75_stale_combiner :
    st2_s75.tree.combiners = [true, true, true, true, true, true, true] ∧
    st2_s75.cache[2]? = some (some 240) ∧
    foldOpt add (sliceAt 3 2 (st2_s75.tree.keys.filterMap in2.src)) = some 112 := by decide +kernel

/-- WITNESS (s75): the rule breaks `CacheInv` (on inputs that satisfy `InputsOK`: `Example.ok2`) -/
theorem witness_s75_breaks_cacheInv : ¬ CacheInv add false none in2.src st2_s75 := by
  intro h
  have h2 := h.good.inner (by decide +kernel) 3 (by decide +kernel) 2 (by decide) (by decide +kernel)
  rw [witness_s75_stale_combiner.2.1, witness_s75_stale_combiner.2.2] at h2
  exact absurd h2 (by decide)

/-- WITNESS (s75): and the published root counts the moved element twice: `382` instead of `254`
    (the numbers of `seeded/s75/meta.json`), where the code's rule publishes `254` -/
theorem witness_s75_wrong_root :
    (cycleLOf add false st1 in2 (planWith rebuildCall75 (candidates false) false st1.tree in2)).out = some 382 ∧
    (cycleL add false st1 in2).out = some 254 := by decide +kernel

/-- cycle 2 of `Example` on the GENERIC path under the s75 rule -/
def g2_s75 : GOut Nat Nat := cycleGOf off false g1 in2 (planWith rebuildCall75 (candidates false) false g1.tree in2)

/-- WITNESS (s75, generic path): the combiner at position 6 survives and stays linked to the element of
    key 7, which moved to dense leaf 0 and is linked a second time at position 3; position 2 stays linked
    to combiner 6 instead of the element of key 6; the published root is `1082` instead of `854`
    (= 382 / 254 plus 100 per combiner application) -/
theorem witness_s75_stale_link :
    bindAt g2_s75.st.bind 6 = (.elem 6, .elem 7) ∧ bindAt g2_s75.st.bind 3 = (.elem 7, .elem 1) ∧
    bindAt g2_s75.st.bind 2 = (.comb 5, .comb 6) ∧
    wantBind g2_s75.st.tree.cap g2_s75.st.tree.keys 2 = (.comb 5, .elem 6) ∧
    combLive g2_s75.st.tree.combiners 2 = true ∧
    g2_s75.out = some 1082 ∧ (cycleG off false g1 in2).out = some 854 := by decide +kernel

/-- WITNESS (s75, generic path): the rule breaks `GenInv` — the links are no longer the current resolution -/
theorem witness_s75_breaks_genInv : ¬ GenInv off false none in2.src g2_s75.st := by
  intro h
  have h2 := h.bound 2 witness_s75_stale_link.2.2.2.2.1
  rw [witness_s75_stale_link.2.2.1, witness_s75_stale_link.2.2.2.1] at h2
  exact absurd h2 (by decide)

/-- cycle 3 of `Example` under the s10 / s21 rule -/
def st3_s21 : LSt Nat Nat :=
  (cycleLOf add false st2 in3 (planWith (rebuildCall false) (candidates21 false) false st2.tree in3)).st

/-- WITNESS (s10 / s21): in the cycle that appends key 9 and ticks key 5, the combiner at position 5
    (leaves 4, 5 = keys 4, 5) is not re-evaluated and keeps `16 + 32` instead of `16 + 1000` -/
theorem witness_s21_stale_combiner :
    (cycleLOf add false st2 in3 (planWith (rebuildCall false) (candidates21 false) false st2.tree in3)).evaluated = [6, 2, 0] ∧
    st3_s21.cache[5]? = some (some 48) ∧
    foldOpt add (sliceAt 3 5 (st3_s21.tree.keys.filterMap in3.src)) = some 1016 := by decide +kernel

/-- WITNESS (s10 / s21): the rule breaks `CacheInv` (on inputs that satisfy `InputsOK`: `Example.ok3`) -/
theorem witness_s21_breaks_cacheInv : ¬ CacheInv add false none in3.src st3_s21 := by
  intro h
  have h2 := h.good.inner (by decide +kernel) 3 (by decide +kernel) 5 (by decide) (by decide +kernel)
  rw [witness_s21_stale_combiner.2.1, witness_s21_stale_combiner.2.2] at h2
  exact absurd h2 (by decide)

/-- WITNESS (s10 / s21): the published root still holds the old value of key 5 -/
theorem witness_s21_wrong_root :
    (cycleLOf add false st2 in3 (planWith (rebuildCall false) (candidates21 false) false st2.tree in3)).out = some 261 ∧
    (cycleL add false st2 in3).out = some 1229 := by decide +kernel

end Witness

end HgVerif.ReduceInc
