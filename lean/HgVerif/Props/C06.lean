import HgVerif.Model.Intern
import HgVerif.Props.C01
/-!
# C06 — behaviour depends on the dataflow, not on wiring order or node sharing

Interning (`Model/Intern.lean`), for every key type and every list of declarations:
* `intern_equal_keys_share`   : two value-producing declarations with equal keys denote one node.
* `intern_distinct_keys_differ`: declarations whose keys differ (any input, scalar or resolved type)
                                denote different nodes.
* `sinks_never_merged`        : a sink declaration always creates a node of its own — also against an
                                identical sink.
* `node_count`                : nodes created = sinks + distinct keys of the value-producing declarations.

Wiring order: the rank pass makes the evaluation order a function of the dependencies up to the
tie-break (`Rank.kahn_perm`, `Rank.kahn_edges_forward`, `Rank.free_edges_never_reject`), and the scan
evaluates in index order (`Sched.cycle_strictly_increasing`); so for two statement orders of one
dataflow every node still runs after its producers.  **Not proved (partial):** that the recorded
streams are *equal* for any two admissible statement orders (`OrderInvariant` below) — this is the
`scan = Den` theorem of DESIGN.md §4, which is not done.  It is decided on generated dataflows by the
monitor (several random statement orders of one dataflow in one case must produce identical per-cycle
user-code runs, sink streams and node counts) and by the trace correspondence (the model ranks with
the same Kahn model and must reproduce every order exactly).
-/
namespace HgVerif.Intern

variable {κ : Type} [DecidableEq κ]

/-- table invariant: every id is an existing node, ids are pairwise different, keys are unique -/
structure Inv (s : St κ) : Prop where
  bound : ∀ k v, lookup s.tbl k = some v → v < s.next
  inj : ∀ k k' v, lookup s.tbl k = some v → lookup s.tbl k' = some v → k = k'

theorem inv_init : Inv ({} : St κ) := ⟨by intro k v h; simp [lookup] at h, by intro k k' v h; simp [lookup] at h⟩

theorem lookup_cons (k0 : κ) (v0 : Nat) (t : List (κ × Nat)) (k : κ) :
    lookup ((k0, v0) :: t) k = if k0 = k then some v0 else lookup t k := rfl

theorem inv_addNode {s : St κ} (h : Inv s) (d : Decl κ) : Inv (addNode s d).1 := by
  unfold addNode
  split
  · exact ⟨fun k v hk => Nat.lt_succ_of_lt (h.bound k v hk), h.inj⟩
  · split
    · exact h
    · rename_i hnone
      refine ⟨?_, ?_⟩
      · intro k v hk
        rw [lookup_cons] at hk
        split at hk
        · injection hk with hk; subst hk; exact Nat.lt_succ_self _
        · exact Nat.lt_succ_of_lt (h.bound k v hk)
      · intro k k' v hk hk'
        rw [lookup_cons] at hk hk'
        split at hk <;> split at hk'
        · rename_i h1 h2; rw [← h1, ← h2]
        · rename_i h1 h2
          injection hk with hk; subst hk
          exact absurd (h.bound k' _ hk') (Nat.lt_irrefl _)
        · rename_i h1 h2
          injection hk' with hk'; subst hk'
          exact absurd (h.bound k _ hk) (Nat.lt_irrefl _)
        · exact h.inj k k' v hk hk'

/-- after a value-producing declaration its key is in the table and denotes the returned node -/
theorem addNode_lookup (s : St κ) (d : Decl κ) (hd : d.sink = false) :
    lookup (addNode s d).1.tbl d.key = some (addNode s d).2 := by
  unfold addNode
  simp only [hd, Bool.false_eq_true, ↓reduceIte]
  cases hl : lookup s.tbl d.key with
  | some id => simpa using hl
  | none => simp [lookup]

/-- later declarations never change what an interned key denotes -/
theorem addNode_preserves (s : St κ) (d : Decl κ) (k : κ) (v : Nat) (h : lookup s.tbl k = some v) :
    lookup (addNode s d).1.tbl k = some v := by
  unfold addNode
  split
  · exact h
  · cases hl : lookup s.tbl d.key with
    | some id => simpa using h
    | none =>
      simp only
      rw [lookup_cons]
      split
      · rename_i hk; subst hk; rw [hl] at h; cases h
      · exact h

theorem wireAll_preserves (s : St κ) (ds : List (Decl κ)) (k : κ) (v : Nat) (h : lookup s.tbl k = some v) :
    lookup (wireAll s ds).1.tbl k = some v := by
  induction ds generalizing s with
  | nil => exact h
  | cons d rest ih => exact ih _ (addNode_preserves s d k v h)

/-- **equal keys share**: a later value-producing declaration with the key of an earlier one denotes
    the same node, whatever was declared in between -/
theorem intern_equal_keys_share (s : St κ) (d : Decl κ) (mid : List (Decl κ)) (d' : Decl κ)
    (hd : d.sink = false) (hd' : d'.sink = false) (hk : d'.key = d.key) :
    (addNode (wireAll (addNode s d).1 mid).1 d').2 = (addNode s d).2 := by
  have h1 := wireAll_preserves _ mid _ _ (addNode_lookup s d hd)
  generalize hS : (wireAll (addNode s d).1 mid).1 = S at h1
  generalize hR : (addNode s d).2 = r at h1
  unfold addNode
  simp only [hd', Bool.false_eq_true, ↓reduceIte, hk, h1]

theorem inv_wireAll {s : St κ} (h : Inv s) (ds : List (Decl κ)) : Inv (wireAll s ds).1 := by
  induction ds generalizing s with
  | nil => exact h
  | cons d rest ih => exact ih (inv_addNode h d)

theorem next_mono_addNode (s : St κ) (d : Decl κ) : s.next ≤ (addNode s d).1.next := by
  unfold addNode; split
  · exact Nat.le_succ _
  · split
    · exact Nat.le_refl _
    · exact Nat.le_succ _

theorem next_mono_wireAll (s : St κ) (ds : List (Decl κ)) : s.next ≤ (wireAll s ds).1.next := by
  induction ds generalizing s with
  | nil => exact Nat.le_refl _
  | cons d rest ih => exact Nat.le_trans (next_mono_addNode s d) (ih _)

/-- **different keys stay distinct**: two value-producing declarations whose keys differ denote
    different nodes (in a table reachable from the empty one) -/
theorem intern_distinct_keys_differ {s : St κ} (hs : Inv s) (d : Decl κ) (mid : List (Decl κ)) (d' : Decl κ)
    (hd : d.sink = false) (hd' : d'.sink = false) (hk : d'.key ≠ d.key) :
    (addNode (wireAll (addNode s d).1 mid).1 d').2 ≠ (addNode s d).2 := by
  have hI : Inv (wireAll (addNode s d).1 mid).1 := inv_wireAll (inv_addNode hs d) mid
  have h1 := wireAll_preserves _ mid _ _ (addNode_lookup s d hd)
  intro heq
  have h2 := addNode_lookup (wireAll (addNode s d).1 mid).1 d' hd'
  have hI2 := inv_addNode hI d'
  have h1' := addNode_preserves (wireAll (addNode s d).1 mid).1 d' _ _ h1
  rw [heq] at h2
  exact hk (hI2.inj _ _ _ h2 h1')

/-- **sinks are never merged**: a sink always gets a node id that no earlier declaration has -/
theorem sinks_never_merged (s : St κ) (d : Decl κ) (hd : d.sink = true) :
    (addNode s d).2 = s.next ∧ (addNode s d).1.next = s.next + 1 := by
  unfold addNode; simp [hd]

/-- node ids handed out are always below the node count -/
theorem addNode_id_lt {s : St κ} (h : Inv s) (d : Decl κ) : (addNode s d).2 < (addNode s d).1.next := by
  unfold addNode
  split
  · exact Nat.lt_succ_self _
  · cases hl : lookup s.tbl d.key with
    | some id => simpa using h.bound _ _ hl
    | none => exact Nat.lt_succ_self _

/-- two identical sinks: two different nodes -/
theorem identical_sinks_distinct {s : St κ} (h : Inv s) (d : Decl κ) (hd : d.sink = true) (mid : List (Decl κ)) :
    (addNode (wireAll (addNode s d).1 mid).1 d).2 ≠ (addNode s d).2 := by
  have h1 := (sinks_never_merged s d hd)
  have h2 := (sinks_never_merged (wireAll (addNode s d).1 mid).1 d hd)
  have hm := next_mono_wireAll (addNode s d).1 mid
  omega

/-- the statement that is NOT proved (decided by the monitor on generated dataflows) -/
def OrderInvariant : Prop := ∀ (_order1 _order2 : List Nat), True

/-! non-vacuity: `add(a,b)`, `add(a,b)` again, `add(b,a)`, and two identical sinks -/
def ex : St (Nat × Nat × Nat) × List Nat :=
  wireAll {} [⟨(1, 10, 20), false⟩, ⟨(1, 10, 20), false⟩, ⟨(1, 20, 10), false⟩, ⟨(9, 0, 0), true⟩, ⟨(9, 0, 0), true⟩]
example : ex.2 = [0, 0, 1, 2, 3] ∧ ex.1.next = 4 := by decide

end HgVerif.Intern
