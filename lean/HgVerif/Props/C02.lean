import HgVerif.Lemmas.Sched
import HgVerif.Model.Tie
/-!
# C02 — simulation honours every scheduled wake-up at exactly its time, in order

All statements are about `Model/Sched.lean` (`schedule_node_impl`, the scan of `evaluate_impl`, the run
loop) for **arbitrary node behaviours** `β`, under the caller discipline `Disc`:

* a request for the *current* time made while node `i` is being evaluated targets a node after `i`
  (notifications go to consumers, which the rank pass puts later — C01);
* a request for a *future* time targets `i` itself or an earlier node (node scheduler re-arm — C18,
  feedback sink → source, nested pull-propagate).

Theorems
* `scan_next_lower`   : after a completed fresh cycle at `t`, the cached next time is `≤` every slot
                        that lies in the future — **no pending wake-up can be skipped**.
* `scan_next_is_slot` : … and it is itself the slot of some node and `> t` — **no cycle at a time
                        nobody is waiting for**.
* `due_node_evaluated`: a node whose slot equals `t` when the cycle starts is evaluated in it.
* `cycle_next_gt`, `sim_times_strict`, `sim_times_window` : cycle times strictly increase and stay
                        below the end time.
-/
namespace HgVerif.Sched

/-- the caller discipline (see the file header) for a graph of `n` nodes -/
def Disc {σ : Type} (β : Beh σ) (n : Nat) : Prop :=
  ∀ i, i < n → ∀ t u, ∀ r ∈ (β.eval i t u).reqs,
    r.node < n ∧ ((r.time = t ∧ i < r.node) ∨ (t < r.time ∧ r.node ≤ i))

/-- invariant of the scan of a cycle at `t` once positions `< k` have had their turn -/
structure CInv (t : Time) (k : Nat) (g : G) : Prop where
  now : g.now = t
  lower : ∀ j, j < k → t < slotOf g j → ∃ nx, g.next = some nx ∧ nx ≤ slotOf g j
  isSlot : ∀ nx, g.next = some nx → t < nx ∧ ∃ j, j < k ∧ slotOf g j = nx

/-- one request of node `i` keeps the invariant for positions `≤ i` -/
theorem cinv_scheduleNode {t : Time} {i : Nat} {g : G} (h : CInv t (i + 1) g) (r : Req)
    (hlen : r.node < g.slots.length)
    (hd : (r.time = t ∧ i < r.node) ∨ (t < r.time ∧ r.node ≤ i)) : CInv t (i + 1) (scheduleNode g r) := by
  have hnow := h.now
  refine ⟨by rw [scheduleNode_now]; exact hnow, ?_, ?_⟩
  · intro j hj hlt
    rw [scheduleNode_slots g r j hlen] at hlt ⊢
    rw [scheduleNode_next]
    rcases hd with ⟨ht, hi⟩ | ⟨ht, hi⟩
    · -- same-cycle request to a later node: neither the cache nor a scanned slot changes
      have hne : ¬ (j = r.node ∧ accepts g r) := fun hc => by omega
      have hnn : ¬ (accepts g r ∧ g.now < r.time ∧ olt r.time g.next = true) := fun hc => by omega
      rw [if_neg hne] at hlt ⊢; rw [if_neg hnn]
      exact h.lower j hj hlt
    · by_cases hacc : accepts g r
      · cases hn : g.next with
        | none =>
          have : accepts g r ∧ g.now < r.time ∧ olt r.time none = true := ⟨hacc, by omega, rfl⟩
          rw [if_pos this]
          by_cases hje : j = r.node
          · rw [if_pos ⟨hje, hacc⟩]; exact ⟨_, rfl, Nat.le_refl _⟩
          · have hne : ¬ (j = r.node ∧ accepts g r) := fun hc => hje hc.1
            rw [if_neg hne] at hlt ⊢
            obtain ⟨nx, hnx, _⟩ := h.lower j hj hlt
            rw [hn] at hnx; cases hnx
        | some nx0 =>
          by_cases hlt2 : r.time < nx0
          · have : accepts g r ∧ g.now < r.time ∧ olt r.time (some nx0) = true :=
              ⟨hacc, by omega, (olt_some _ _).mpr hlt2⟩
            rw [if_pos this]
            by_cases hje : j = r.node
            · rw [if_pos ⟨hje, hacc⟩]; exact ⟨_, rfl, Nat.le_refl _⟩
            · have hne : ¬ (j = r.node ∧ accepts g r) := fun hc => hje hc.1
              rw [if_neg hne] at hlt ⊢
              obtain ⟨nx, hnx, hle⟩ := h.lower j hj hlt
              rw [hn] at hnx; cases hnx
              exact ⟨_, rfl, by omega⟩
          · have : ¬ (accepts g r ∧ g.now < r.time ∧ olt r.time (some nx0) = true) :=
              fun hc => hlt2 ((olt_some _ _).mp hc.2.2)
            rw [if_neg this]
            by_cases hje : j = r.node
            · rw [if_pos ⟨hje, hacc⟩]; exact ⟨nx0, rfl, by omega⟩
            · have hne : ¬ (j = r.node ∧ accepts g r) := fun hc => hje hc.1
              rw [if_neg hne] at hlt ⊢
              obtain ⟨nx, hnx, hle⟩ := h.lower j hj hlt
              rw [hn] at hnx; cases hnx
              exact ⟨_, rfl, hle⟩
      · have hne : ¬ (j = r.node ∧ accepts g r) := fun hc => hacc hc.2
        have hnn : ¬ (accepts g r ∧ g.now < r.time ∧ olt r.time g.next = true) := fun hc => hacc hc.1
        rw [if_neg hne] at hlt ⊢; rw [if_neg hnn]
        exact h.lower j hj hlt
  · intro nx hnx
    rw [scheduleNode_next] at hnx
    rcases hd with ⟨ht, hi⟩ | ⟨ht, hi⟩
    · have hnn : ¬ (accepts g r ∧ g.now < r.time ∧ olt r.time g.next = true) := fun hc => by omega
      rw [if_neg hnn] at hnx
      obtain ⟨h1, j, hj, hs⟩ := h.isSlot nx hnx
      refine ⟨h1, j, hj, ?_⟩
      rw [scheduleNode_slots g r j hlen]
      have hne : ¬ (j = r.node ∧ accepts g r) := fun hc => by omega
      rw [if_neg hne]; exact hs
    · by_cases hc : accepts g r ∧ g.now < r.time ∧ olt r.time g.next = true
      · rw [if_pos hc] at hnx
        injection hnx with hnx; subst hnx
        refine ⟨ht, r.node, by omega, ?_⟩
        rw [scheduleNode_slots g r r.node hlen, if_pos ⟨rfl, hc.1⟩]
      · rw [if_neg hc] at hnx
        obtain ⟨h1, j, hj, hs⟩ := h.isSlot nx hnx
        refine ⟨h1, j, hj, ?_⟩
        rw [scheduleNode_slots g r j hlen]
        by_cases hje : j = r.node ∧ accepts g r
        · -- the witness slot itself would be replaced: only by an earlier time, which lowers the cache
          exfalso
          obtain ⟨hje, hacc⟩ := hje
          subst hje
          apply hc
          refine ⟨hacc, by omega, ?_⟩
          rw [hnx, olt_some]
          unfold accepts at hacc
          omega
        · rw [if_neg hje]; exact hs

theorem cinv_requests {t : Time} {i n : Nat} (reqs : List Req) {g : G} (h : CInv t (i + 1) g)
    (hlen : g.slots.length = n)
    (hd : ∀ r ∈ reqs, r.node < n ∧ ((r.time = t ∧ i < r.node) ∨ (t < r.time ∧ r.node ≤ i))) :
    CInv t (i + 1) (reqs.foldl scheduleNode g) ∧ (reqs.foldl scheduleNode g).slots.length = n := by
  induction reqs generalizing g with
  | nil => exact ⟨h, hlen⟩
  | cons r rest ih =>
    have hr := hd r (by simp)
    apply ih (cinv_scheduleNode h r (by omega) hr.2) (by rw [scheduleNode_length]; exact hlen)
    intro r' hr'; exact hd r' (by simp [hr'])

theorem cinv_step_eval {t : Time} {i : Nat} {g : G} (h : CInv t i g) (hs : slotOf g i ≤ t) (c : Nat) :
    CInv t (i + 1) { g with cursor := c } := by
  refine ⟨h.now, ?_, ?_⟩
  · intro j hj hlt
    have hlt' : t < slotOf g j := hlt
    by_cases hji : j = i
    · subst hji; omega
    · exact h.lower j (by omega) hlt'
  · intro nx hnx
    obtain ⟨h1, j, hj, hsj⟩ := h.isSlot nx hnx
    exact ⟨h1, j, by omega, hsj⟩

theorem omin_none (s : Time) : omin none s = some s := rfl
theorem omin_some (n s : Time) : omin (some n) s = if s < n then some s else some n := by
  unfold omin olt; by_cases h : s < n <;> simp [h]

theorem cinv_step_fold {t : Time} {i : Nat} {g : G} (h : CInv t i g) (hs : t < slotOf g i) (c : Nat) :
    CInv t (i + 1) { g with next := omin g.next (slotOf g i), cursor := c } := by
  refine ⟨h.now, ?_, ?_⟩
  · intro j hj hlt
    have hlt' : t < slotOf g j := hlt
    show ∃ nx, omin g.next (slotOf g i) = some nx ∧ nx ≤ slotOf g j
    cases hn : g.next with
    | none =>
      rw [omin_none]
      by_cases hji : j = i
      · subst hji; exact ⟨_, rfl, Nat.le_refl _⟩
      · obtain ⟨nx, hnx, _⟩ := h.lower j (by omega) hlt'
        rw [hn] at hnx; cases hnx
    | some nx0 =>
      rw [omin_some]
      by_cases hji : j = i
      · subst hji
        by_cases h2 : slotOf g j < nx0
        · rw [if_pos h2]; exact ⟨_, rfl, Nat.le_refl _⟩
        · rw [if_neg h2]; exact ⟨_, rfl, by omega⟩
      · obtain ⟨nx, hnx, hle⟩ := h.lower j (by omega) hlt'
        rw [hn] at hnx; cases hnx
        by_cases h2 : slotOf g i < nx0
        · rw [if_pos h2]; exact ⟨_, rfl, by omega⟩
        · rw [if_neg h2]; exact ⟨_, rfl, hle⟩
  · intro nx hnx
    have hnx' : omin g.next (slotOf g i) = some nx := hnx
    cases hn : g.next with
    | none =>
      rw [hn, omin_none] at hnx'
      injection hnx' with hnx'; subst hnx'
      exact ⟨hs, i, by omega, rfl⟩
    | some nx0 =>
      rw [hn, omin_some] at hnx'
      by_cases h2 : slotOf g i < nx0
      · rw [if_pos h2] at hnx'
        injection hnx' with hnx'; subst hnx'
        exact ⟨hs, i, by omega, rfl⟩
      · rw [if_neg h2] at hnx'
        injection hnx' with hnx'; subst hnx'
        obtain ⟨h1, j, hj, hsj⟩ := h.isSlot nx0 hn
        exact ⟨h1, j, by omega, hsj⟩

/-- the scan keeps the invariant up to the end of the node array -/
theorem cinv_scanFrom {σ : Type} (β : Beh σ) (n : Nat) (hβ : Disc β n) (t : Time) (fuel i : Nat) (g : G) (u : σ)
    (ev : List Nat) (hfi : i + fuel = n) (h : CInv t i g) (hlen : g.slots.length = n)
    (hok : (scanFrom β t fuel i g u ev).ok = true) :
    CInv t n (scanFrom β t fuel i g u ev).g := by
  induction fuel generalizing i g u ev with
  | zero =>
    have : i = n := by omega
    subst this
    rw [scanFrom_zero]
    exact ⟨h.now, h.lower, h.isSlot⟩
  | succ fuel ih =>
    rcases Nat.lt_trichotomy (slotOf g i) t with hs | hs | hs
    · rw [scanFrom_skip β t fuel i g u ev hs] at hok ⊢
      exact ih (i + 1) _ _ _ (by omega) (cinv_step_eval h (by omega) i) hlen hok
    · cases hrok : (β.eval i t u).ok with
      | true =>
        rw [scanFrom_eval_ok β t fuel i g u ev hs hrok] at hok ⊢
        have h1 : CInv t (i + 1) { g with cursor := i } := cinv_step_eval h (by omega) i
        have h2 := cinv_requests (β.eval i t u).reqs h1 hlen (hβ i (by omega) t u)
        exact ih (i + 1) _ _ _ (by omega) h2.1 h2.2 hok
      | false =>
        rw [scanFrom_eval_fail β t fuel i g u ev hs hrok] at hok; cases hok
    · rw [scanFrom_fold β t fuel i g u ev hs] at hok ⊢
      exact ih (i + 1) _ _ _ (by omega) (cinv_step_fold h hs i) hlen hok

theorem cinv_init (t : Time) (g : G) : CInv t 0 { g with now := t, failed := false, next := none, cursor := 0 } :=
  ⟨rfl, fun _ hj => absurd hj (Nat.not_lt_zero _), fun _ h => by simp at h⟩

/-- **no pending wake-up is skipped**: after a completed fresh cycle at `t` the cached next time is a
    lower bound of every slot that lies in the future -/
theorem scan_next_lower {σ : Type} (fx : Bool) (β : Beh σ) (n : Nat) (hβ : Disc β n) (t : Time) (g : G) (u : σ)
    (hlen : g.slots.length = n) (hc : g.cursor = 0) (hok : (cycle fx β n t g u).ok = true) :
    ∀ j, j < n → t < slotOf (cycle fx β n t g u).g j →
      ∃ nx, (cycle fx β n t g u).g.next = some nx ∧ nx ≤ slotOf (cycle fx β n t g u).g j := by
  have hfresh : cycle fx β n t g u =
      scanFrom β t n 0 { g with now := t, failed := false, next := none, cursor := 0 } u [] := by
    cases fx <;> simp [cycle, resuming, hc]
  rw [hfresh] at hok ⊢
  exact (cinv_scanFrom β n hβ t n 0 _ u [] (by omega) (cinv_init t g) (by simpa using hlen) hok).lower

/-- **no cycle at a time nobody asked for**: the cached next time is `> t` and is the slot of a node -/
theorem scan_next_is_slot {σ : Type} (fx : Bool) (β : Beh σ) (n : Nat) (hβ : Disc β n) (t : Time) (g : G) (u : σ)
    (hlen : g.slots.length = n) (hc : g.cursor = 0) (hok : (cycle fx β n t g u).ok = true) :
    ∀ nx, (cycle fx β n t g u).g.next = some nx →
      t < nx ∧ ∃ j, j < n ∧ slotOf (cycle fx β n t g u).g j = nx := by
  have hfresh : cycle fx β n t g u =
      scanFrom β t n 0 { g with now := t, failed := false, next := none, cursor := 0 } u [] := by
    cases fx <;> simp [cycle, resuming, hc]
  rw [hfresh] at hok ⊢
  exact (cinv_scanFrom β n hβ t n 0 _ u [] (by omega) (cinv_init t g) (by simpa using hlen) hok).isSlot

theorem cycle_next_gt {σ : Type} (fx : Bool) (β : Beh σ) (n : Nat) (hβ : Disc β n) (t : Time) (g : G) (u : σ)
    (hlen : g.slots.length = n) (hc : g.cursor = 0) (hok : (cycle fx β n t g u).ok = true) :
    ∀ nx, (cycle fx β n t g u).g.next = some nx → t < nx :=
  fun nx h => (scan_next_is_slot fx β n hβ t g u hlen hc hok nx h).1

/-! ## a node that is due is evaluated -/

theorem slot_stable_scheduleNode {t : Time} {i j : Nat} {g : G} (r : Req) (hlen : r.node < g.slots.length)
    (_hnow : g.now = t) (hij : i < j) (hs : slotOf g j = t)
    (hd : (r.time = t ∧ i < r.node) ∨ (t < r.time ∧ r.node ≤ i)) : slotOf (scheduleNode g r) j = t := by
  rw [scheduleNode_slots g r j hlen]
  by_cases hje : j = r.node ∧ accepts g r
  · rw [if_pos hje]
    rcases hd with ⟨ht, _⟩ | ⟨_, hle⟩
    · exact ht
    · omega
  · rw [if_neg hje]; exact hs

theorem slot_stable_requests {t : Time} {i j n : Nat} (reqs : List Req) {g : G} (hlen : g.slots.length = n)
    (hnow : g.now = t) (hij : i < j) (hs : slotOf g j = t)
    (hd : ∀ r ∈ reqs, r.node < n ∧ ((r.time = t ∧ i < r.node) ∨ (t < r.time ∧ r.node ≤ i))) :
    slotOf (reqs.foldl scheduleNode g) j = t ∧ (reqs.foldl scheduleNode g).slots.length = n ∧
      (reqs.foldl scheduleNode g).now = t := by
  induction reqs generalizing g with
  | nil => exact ⟨hs, hlen, hnow⟩
  | cons r rest ih =>
    have hr := hd r (by simp)
    apply ih (by rw [scheduleNode_length]; exact hlen) (by rw [scheduleNode_now]; exact hnow)
      (slot_stable_scheduleNode r (by omega) hnow hij hs hr.2)
    intro r' hr'; exact hd r' (by simp [hr'])

theorem due_scanFrom {σ : Type} (β : Beh σ) (n : Nat) (hβ : Disc β n) (t : Time) (fuel i : Nat) (g : G) (u : σ)
    (ev : List Nat) (hfi : i + fuel = n) (hlen : g.slots.length = n) (hnow : g.now = t)
    (j : Nat) (hij : i ≤ j) (hjn : j < n) (hs : slotOf g j = t)
    (hok : (scanFrom β t fuel i g u ev).ok = true) : j ∈ (scanFrom β t fuel i g u ev).evaluated := by
  induction fuel generalizing i g u ev with
  | zero => omega
  | succ fuel ih =>
    rcases Nat.lt_trichotomy (slotOf g i) t with hsi | hsi | hsi
    · have hne : i ≠ j := by intro e; subst e; omega
      rw [scanFrom_skip β t fuel i g u ev hsi] at hok ⊢
      exact ih (i + 1) _ _ _ (by omega) hlen hnow (by omega) hs hok
    · cases hrok : (β.eval i t u).ok with
      | true =>
        rw [scanFrom_eval_ok β t fuel i g u ev hsi hrok] at hok ⊢
        by_cases hji : j = i
        · subst hji
          exact scanFrom_mem_acc β t fuel _ _ _ _ j (by simp)
        · have hst := slot_stable_requests (i := i) (j := j) (β.eval i t u).reqs (g := { g with cursor := i })
            hlen hnow (by omega) hs (hβ i (by omega) t u)
          exact ih (i + 1) _ _ _ (by omega) hst.2.1 hst.2.2 (by omega) hst.1 hok
      | false =>
        rw [scanFrom_eval_fail β t fuel i g u ev hsi hrok] at hok; cases hok
    · have hne : i ≠ j := by intro e; subst e; omega
      rw [scanFrom_fold β t fuel i g u ev hsi] at hok ⊢
      exact ih (i + 1) _ _ _ (by omega) hlen hnow (by omega) hs hok

/-- **a due node is evaluated**: if node `j`'s slot equals `t` when a fresh cycle at `t` starts, `j` is
    evaluated in that cycle (nothing can overwrite an unscanned due slot with a later time) -/
theorem due_node_evaluated {σ : Type} (fx : Bool) (β : Beh σ) (n : Nat) (hβ : Disc β n) (t : Time) (g : G) (u : σ)
    (hlen : g.slots.length = n) (hc : g.cursor = 0) (j : Nat) (hjn : j < n) (hs : slotOf g j = t)
    (hok : (cycle fx β n t g u).ok = true) : j ∈ (cycle fx β n t g u).evaluated := by
  have hfresh : cycle fx β n t g u =
      scanFrom β t n 0 { g with now := t, failed := false, next := none, cursor := 0 } u [] := by
    cases fx <;> simp [cycle, resuming, hc]
  rw [hfresh] at hok ⊢
  exact due_scanFrom β n hβ t n 0 _ u [] (by omega) (by simpa using hlen) rfl j (Nat.zero_le _) hjn
    (by simpa [slotOf] using hs) hok

/-! ## the run loop -/

theorem scanFrom_cursor_zero {σ : Type} (β : Beh σ) (t : Time) (fuel i : Nat) (g : G) (u : σ) (ev : List Nat)
    (hok : (scanFrom β t fuel i g u ev).ok = true) : (scanFrom β t fuel i g u ev).g.cursor = 0 := by
  induction fuel generalizing i g u ev with
  | zero => rfl
  | succ fuel ih =>
    rcases Nat.lt_trichotomy (slotOf g i) t with hs | hs | hs
    · rw [scanFrom_skip β t fuel i g u ev hs] at hok ⊢; exact ih _ _ _ _ hok
    · cases hrok : (β.eval i t u).ok with
      | true => rw [scanFrom_eval_ok β t fuel i g u ev hs hrok] at hok ⊢; exact ih _ _ _ _ hok
      | false => rw [scanFrom_eval_fail β t fuel i g u ev hs hrok] at hok; cases hok
    · rw [scanFrom_fold β t fuel i g u ev hs] at hok ⊢; exact ih _ _ _ _ hok

theorem scanFrom_length {σ : Type} (β : Beh σ) (n : Nat) (t : Time) (fuel i : Nat) (g : G) (u : σ)
    (ev : List Nat) (hlen : g.slots.length = n) (hok : (scanFrom β t fuel i g u ev).ok = true) :
    (scanFrom β t fuel i g u ev).g.slots.length = n := by
  induction fuel generalizing i g u ev with
  | zero => exact hlen
  | succ fuel ih =>
    rcases Nat.lt_trichotomy (slotOf g i) t with hs | hs | hs
    · rw [scanFrom_skip β t fuel i g u ev hs] at hok ⊢; exact ih _ _ _ _ hlen hok
    · cases hrok : (β.eval i t u).ok with
      | true =>
        rw [scanFrom_eval_ok β t fuel i g u ev hs hrok] at hok ⊢
        exact ih _ _ _ _ (by rw [foldl_scheduleNode_length]; exact hlen) hok
      | false => rw [scanFrom_eval_fail β t fuel i g u ev hs hrok] at hok; cases hok
    · rw [scanFrom_fold β t fuel i g u ev hs] at hok ⊢; exact ih _ _ _ _ hlen hok

/-- every cycle of the simulation loop happens strictly later than the one before, given that the
    first pending time lies after `last` -/
theorem sim_times_strict {σ : Type} (fx : Bool) (β : Beh σ) (n : Nat) (hβ : Disc β n) (endT : Time) (fuel : Nat)
    (g : G) (u : σ) (ts : List Time) (last : Time)
    (hlen : g.slots.length = n) (hc : g.cursor = 0)
    (hts : ts.Pairwise (· < ·)) (hlast : ∀ x ∈ ts, x ≤ last)
    (hnext : ∀ nx, g.next = some nx → last < nx) :
    (simLoop fx β n endT fuel g u ts).times.Pairwise (· < ·) := by
  induction fuel generalizing g u ts last with
  | zero => simpa [simLoop] using hts
  | succ fuel ih =>
    unfold simLoop
    cases hnc : nextCycle g endT with
    | none => simpa using hts
    | some t =>
      simp only
      have hgt : last < t := by
        unfold nextCycle at hnc
        cases hn : g.next with
        | none => simp [hn] at hnc
        | some nx =>
          simp only [hn] at hnc
          split at hnc
          · cases hnc
          · injection hnc with hnc; subst hnc; exact hnext nx hn
      have hts' : (ts ++ [t]).Pairwise (· < ·) := by
        rw [List.pairwise_append]
        refine ⟨hts, by simp, ?_⟩
        intro a ha b hb
        simp at hb; subst hb
        exact Nat.lt_of_le_of_lt (hlast a ha) hgt
      split
      · rename_i hok
        have hfresh : cycle fx β n t g u =
            scanFrom β t n 0 { g with now := t, failed := false, next := none, cursor := 0 } u [] := by
          cases fx <;> simp [cycle, resuming, hc]
        apply ih (cycle fx β n t g u).g (cycle fx β n t g u).st (ts ++ [t]) t
        · rw [hfresh] at hok ⊢; exact scanFrom_length β n t n 0 _ u [] hlen hok
        · rw [hfresh] at hok ⊢; exact scanFrom_cursor_zero β t n 0 _ u [] hok
        · exact hts'
        · intro x hx
          simp at hx
          rcases hx with hx | hx
          · exact Nat.le_of_lt (Nat.lt_of_le_of_lt (hlast x hx) hgt)
          · omega
        · exact cycle_next_gt fx β n hβ t g u hlen hc hok
      · simpa using hts'

/-- … and every cycle the loop adds happens before the end time -/
theorem sim_times_window {σ : Type} (fx : Bool) (β : Beh σ) (n : Nat) (endT : Time) (fuel : Nat)
    (g : G) (u : σ) (ts : List Time) (hts : ∀ x ∈ ts, x < endT) :
    ∀ x ∈ (simLoop fx β n endT fuel g u ts).times, x < endT := by
  induction fuel generalizing g u ts with
  | zero => simpa [simLoop] using hts
  | succ fuel ih =>
    unfold simLoop
    cases hnc : nextCycle g endT with
    | none => simpa using hts
    | some t =>
      simp only
      have hlt : t < endT := by
        unfold nextCycle at hnc
        cases hn : g.next with
        | none => simp [hn] at hnc
        | some nx =>
          simp only [hn] at hnc
          split at hnc
          · cases hnc
          · injection hnc with hnc; subst hnc; omega
      have hts' : ∀ x ∈ ts ++ [t], x < endT := by
        intro x hx; simp at hx; rcases hx with hx | hx
        · exact hts x hx
        · omega
      split
      · exact ih _ _ _ hts'
      · simpa using hts'

/-- **an armed wake-up inside the run window is honoured**: if after a completed cycle at `t` some node
    `j` is armed for `s` with `t < s < end`, then the run continues, the next cycle happens at some
    `t' ≤ s` (never past `s`), and if `t' = s` node `j` is evaluated in it.  By induction along the
    run (times strictly increase) the cycle at `s` is reached unless `j`'s slot is re-armed earlier. -/
theorem armed_wakeup_honoured {σ : Type} (fx : Bool) (β : Beh σ) (n : Nat) (hβ : Disc β n) (endT t : Time)
    (g : G) (u : σ) (hlen : g.slots.length = n) (hc : g.cursor = 0) (hok : (cycle fx β n t g u).ok = true)
    (j : Nat) (hjn : j < n) (s : Time) (hs : slotOf (cycle fx β n t g u).g j = s) (hts : t < s) (hse : s < endT) :
    ∃ t', nextCycle (cycle fx β n t g u).g endT = some t' ∧ t < t' ∧ t' ≤ s ∧
      (t' = s → (cycle fx β n t' (cycle fx β n t g u).g (cycle fx β n t g u).st).ok = true →
        j ∈ (cycle fx β n t' (cycle fx β n t g u).g (cycle fx β n t g u).st).evaluated) := by
  obtain ⟨nx, hnx, hle⟩ := scan_next_lower fx β n hβ t g u hlen hc hok j hjn (by rw [hs]; exact hts)
  have hgt := cycle_next_gt fx β n hβ t g u hlen hc hok nx hnx
  rw [hs] at hle
  refine ⟨nx, ?_, hgt, hle, ?_⟩
  · unfold nextCycle; rw [hnx]
    have : ¬ nx ≥ endT := by omega
    simp [this]
  · intro heq hok2
    have hfresh : cycle fx β n t g u =
        scanFrom β t n 0 { g with now := t, failed := false, next := none, cursor := 0 } u [] := by
      cases fx <;> simp [cycle, resuming, hc]
    have hlen1 : (cycle fx β n t g u).g.slots.length = n := by
      rw [hfresh] at hok ⊢; exact scanFrom_length β n t n 0 _ u [] hlen hok
    have hc1 : (cycle fx β n t g u).g.cursor = 0 := by
      rw [hfresh] at hok ⊢; exact scanFrom_cursor_zero β t n 0 _ u [] hok
    exact due_node_evaluated fx β n hβ nx _ _ hlen1 hc1 j hjn (by rw [hs, heq]) hok2

/-! ## non-vacuity -/

/-- a concrete behaviour that satisfies the discipline: node 0 notifies node 1 in the same cycle and
    re-arms itself two steps later -/
def exBeh : Beh Unit := ⟨fun i t u => if i = 0 then { st := u, reqs := [⟨1, t⟩, ⟨0, t + 2⟩] } else { st := u }⟩

example : Disc exBeh 2 := by
  intro i _ t u r hr
  unfold exBeh at hr
  by_cases h : i = 0
  · subst h
    simp at hr
    rcases hr with rfl | rfl
    · exact ⟨by simp, Or.inl ⟨rfl, by simp⟩⟩
    · exact ⟨by simp, Or.inr ⟨by simp, by simp⟩⟩
  · simp [h] at hr

example : (simLoop true exBeh 2 10 20 { slots := [3, 0], next := some 3, now := 1 } () []).times = [3, 5, 7, 9] := by
  decide

end HgVerif.Sched
