import HgVerif.Model.TrackBind
/-!
# C04 — consumers that are bound, sampled-bound, re-bound or unbound in ANY cycle

About `Model/TrackBind.lean` (the target link of a `TSInput`: `bind_impl`, `unbind`, the link's own tracking
record `k`, the `StructuralTransition` of a TSS / TSD link with its LAZILY expiring `active` predicate) for EVERY
history of producer mutations on any number of outputs and of `bind_output` / `bind_output_sampled` /
`unbind_output` calls on the input, with positive non-decreasing cycle times (`Mono`), for structural (TSS / TSD) and
non-structural links alike, and for every answer `pp` of `has_published_structural_state`:

* `run_inv`             : the invariant `Inv` (link record ≤ now; producer record ≤ link record while bound; the link
                          record equals `now` only in a (re)bind cycle or when the bound producer ticked now; the
                          transition time is the time of a (re)bind) holds after every history.
* `consumer_modified_eq_producer_outside_bind_cycles` : in every cycle in which the input was not (re)bound or
                          unbound, a bound consumer reads `modified` exactly when its producer does, and an unbound one
                          reads not modified.  (This is what the seeded change s29 - dropping
                          `structural_transition_time() == evaluation_time` - breaks: `Link.sampled` alone stays true
                          until the producer's next tick.)
* `consumer_child_modified_eq_producer_outside_bind_cycles` : the same for every TSD child read through the link.
* `consumer_delta_gate_eq_producer_outside_bind_cycles` : outside (re)bind cycles the input hands out the resolved
                          target (not the sampling wrapper), so the delta views are the producer's.
* `sampled_bind_ticks_once` : after a sampled (re)bind at `t` to a valid output the consumer reads modified in cycle
                          `t` (also after later ticks in that cycle), and in EVERY later cycle up to the next (re)bind
                          exactly when the producer does - the sample is presented once.
* `sampled_bind_samples_children` : in that cycle every TSD child reads modified and the delta views come from the
                          sampling wrapper (`useRaw`, `Link.sampled`).
* `plain_first_bind_agrees` : a fresh input bound with the plain bind agrees with the producer on modified and
                          last-modified-time from the bind on, including in the bind cycle.
* `consumer_valid_eq_producer` : valid (and the value, which the model reads through the target) is the producer's in
                          every cycle - by construction of the proxy; the correspondence is what checks it on the code.
* `consumer_lmt_eq_link`, `consumer_lmt_ge_producer`, `consumer_modified_iff_lmt_now`,
  `consumer_lmt_eq_producer_after_tick` : the consumer's last-modified-time is the LINK record: never before the
                          producer's, `= now` exactly when the consumer reads modified, and the producer's own as soon as
                          the producer ticked at / after the last (re)bind.
* `two_consumers_agree` : several inputs on one output read the same modified flag outside their (re)bind cycles.

Where the code differs from the tidy statement "consumer = producer on all four observables" (modelled as coded,
witnessed by the `example`s at the end, reported in the plug-in's LEVEL_NOTE):
  1. after a sampled (re)bind the consumer's last-modified-time is the bind time until the producer's next tick;
  2. after a plain re-bind / unbind the link keeps the record of the earlier target;
  3. a sampled re-bind from a valid to a not-yet-valid output reads modified and not valid in that cycle;
  4. in a sampled (re)bind cycle a TSD child reads modified while its last-modified-time is older.
-/
namespace HgVerif.TrackBind

theorem record_le {k t now : Nat} (hk : k ≤ now) (ht : t ≤ now) : record k t ≤ now := by
  unfold record; split <;> omega
theorem le_record_left (k t : Nat) : k ≤ record k t := by unfold record; split <;> omega
theorem le_record_right (k t : Nat) : t ≤ record k t := by unfold record; split <;> omega
theorem record_eq_of_le {k t : Nat} (h : k ≤ t) : record k t = t := by unfold record; split <;> omega
theorem record_eq_left {k t : Nat} (h : t ≤ k) : record k t = k := by unfold record; split <;> omega

/-- the time of the last (re)bind / unbind after one more event -/
def nextBt (bt : Nat) (e : Ev) : Nat := if e.isBind then e.time else bt

structure Inv (now bt : Nat) (P : Prod) (ln : Link) : Prop where
  k_le : ln.k ≤ now
  bt_le : bt ≤ now
  L_le : ∀ o, P.L o ≤ now
  tgt_le : ∀ o, ln.tgt = some o → P.L o ≤ ln.k
  k_now : ln.k = now → bt = now ∨ ∃ o, ln.tgt = some o ∧ P.L o = now
  tt_le : ln.tt ≤ bt
  k_src : ln.k ≤ bt ∨ ∃ o, ln.tgt = some o ∧ ln.k = P.L o

/-- `publish_sampled_transition` happens -/
def publishes (structural : Bool) (P : Prod) (o : Nat) (sampled pp : Bool) (ln : Link) : Bool :=
  sampled && (P.L o != 0 || (sampled && (match ln.tgt with | some p => P.L p != 0 | none => false)) ||
    (sampled && structural && (match ln.tgt with | some _ => pp | none => false)))

theorem bindImpl_tgt (s : Bool) (P : Prod) (o t : Nat) (sampled pp : Bool) (ln : Link) :
    (bindImpl s P o t sampled pp ln).tgt = some o := by
  unfold bindImpl
  cases sampled <;> cases s <;> cases ln.tgt <;> simp [Link.clear] <;> (repeat' split) <;> rfl

theorem bindImpl_k (s : Bool) (P : Prod) (o t : Nat) (sampled pp : Bool) (ln : Link) :
    (bindImpl s P o t sampled pp ln).k =
      if sampled then (if publishes s P o sampled pp ln then record ln.k t else ln.k)
      else (if P.L o ≠ 0 then record ln.k (P.L o) else ln.k) := by
  unfold bindImpl publishes
  cases sampled <;> cases s <;> cases ln.tgt <;> simp [Link.clear] <;> (repeat' split) <;> simp_all

theorem bindImpl_tt (s : Bool) (P : Prod) (o t : Nat) (sampled pp : Bool) (ln : Link) :
    (bindImpl s P o t sampled pp ln).tt = 0 ∨ (bindImpl s P o t sampled pp ln).tt = t ∨
      (bindImpl s P o t sampled pp ln).tt = ln.tt := by
  unfold bindImpl
  cases sampled <;> cases s <;> cases ln.tgt <;> simp [Link.clear] <;> (repeat' split) <;> simp_all

/-- a sampled (re)bind of a structural link that publishes: transition time = the bind time, sampled flag set -/
theorem bindImpl_publish_structural (P : Prod) (o t : Nat) (pp : Bool) (ln : Link)
    (h : publishes true P o true pp ln = true) :
    (bindImpl true P o t true pp ln).tt = t ∧ (bindImpl true P o t true pp ln).ts = true := by
  unfold publishes at h
  unfold bindImpl
  cases htg : ln.tgt <;> simp [Link.clear, htg] at h ⊢ <;> (repeat' split) <;> simp_all

/-- a plain (re)bind of a structural link, and a plain bind of an unbound non-structural one, leave no transition -/
theorem bindImpl_plain_structural_tt (P : Prod) (o t : Nat) (pp : Bool) (ln : Link) :
    (bindImpl true P o t false pp ln).tt = 0 := by
  unfold bindImpl
  cases ln.tgt <;> simp [Link.clear] <;> (repeat' split) <;> simp_all

theorem step_inv (s : Bool) {now bt : Nat} {P : Prod} {ln : Link} (h : Inv now bt P ln) (e : Ev)
    (ht : now ≤ e.time) : Inv e.time (nextBt bt e) (stepP P e) (stepL s P ln e) := by
  obtain ⟨hk, hbt, hL, htg, hkn, htt, hks⟩ := h
  cases e with
  | tick o c t =>
    simp only [Ev.time] at ht
    have hLo := hL o
    by_cases hc : ln.tgt = some o ∧ P.L o < t
    · -- the bound producer's record moves: the link is told
      have hk' : record ln.k t = t := record_eq_of_le (by omega)
      have hL' : record (P.L o) t = t := record_eq_of_le (by omega)
      have hst : stepL s P ln (.tick o c t) = { ln with k := record ln.k t } := by
        simp only [stepL]; rw [if_pos hc]
      rw [hst]
      simp only [stepP, nextBt, Ev.isBind, Ev.time]
      refine ⟨by simp [hk'], by simp; omega, ?_, ?_, ?_, by simpa using htt, ?_⟩
      · intro x; by_cases hx : x = o
        · simp [hx, hL']
        · simp only [hx, if_false]; have := hL x; omega
      · intro x hx
        have hx' : ln.tgt = some x := hx
        have : x = o := by rw [hc.1] at hx'; exact (Option.some.inj hx').symm
        simp [this, hL', hk']
      · intro _; right; exact ⟨o, hc.1, by simp [hL']⟩
      · right; exact ⟨o, hc.1, by simp [hL', hk']⟩
    · have hst : stepL s P ln (.tick o c t) = ln := by simp [stepL, hc]
      rw [hst]
      simp only [stepP, nextBt, Ev.isBind, Ev.time]
      refine ⟨by omega, by simp; omega, ?_, ?_, ?_, by simpa using htt, ?_⟩
      · intro x; by_cases hx : x = o
        · simp only [hx, if_true]; exact record_le (by omega) (Nat.le_refl _)
        · simp only [hx, if_false]; have := hL x; omega
      · intro x hx; by_cases hxo : x = o
        · subst hxo
          have hnot : ¬ P.L x < t := fun hlt => hc ⟨hx, hlt⟩
          simp only [if_true]; rw [record_eq_left (by omega)]; exact htg x hx
        · simp only [hxo, if_false]; exact htg x hx
      · intro hkt
        have hnow : now = t := by omega
        rcases hkn (by omega) with hb | ⟨x, hx, hxL⟩
        · left; simp; omega
        · right; refine ⟨x, hx, ?_⟩
          by_cases hxo : x = o
          · subst hxo; simp only [if_true]; rw [record_eq_left (by omega)]; omega
          · simp only [hxo, if_false]; omega
      · rcases hks with hle | ⟨x, hx, hxk⟩
        · left; simpa using hle
        · right; refine ⟨x, hx, ?_⟩
          by_cases hxo : x = o
          · subst hxo
            have hnot : ¬ P.L x < t := fun hlt => hc ⟨hx, hlt⟩
            simp only [if_true]; rw [record_eq_left (by omega)]; exact hxk
          · simp only [hxo, if_false]; exact hxk
  | bind o t sampled pp =>
    simp only [Ev.time] at ht
    have hLo := hL o
    have hkk := bindImpl_k s P o t sampled pp ln
    have htgt := bindImpl_tgt s P o t sampled pp ln
    have htt' := bindImpl_tt s P o t sampled pp ln
    simp only [stepL, stepP, nextBt, Ev.isBind, Ev.time, if_true]
    have hkle : (bindImpl s P o t sampled pp ln).k ≤ t := by
      rw [hkk]; (repeat' split) <;> first | exact record_le (by omega) (by omega) | omega
    refine ⟨hkle, Nat.le_refl _, fun x => by have := hL x; omega, ?_, fun _ => Or.inl rfl, ?_, Or.inl hkle⟩
    · intro x hx
      have hxo : x = o := by rw [htgt] at hx; exact (Option.some.inj hx).symm
      subst hxo
      rw [hkk]
      cases sampled
      · simp only [Bool.false_eq_true, if_false]
        split
        · exact le_record_right _ _
        · rename_i h0; have : P.L x = 0 := by simpa using h0
          omega
      · simp only [if_true]
        by_cases h0 : P.L x = 0
        · omega
        · have hp : publishes s P x true pp ln = true := by simp [publishes, h0]
          simp only [hp, if_true]
          have := le_record_right ln.k t; omega
    · rcases htt' with h0 | h1 | h2
      · omega
      · omega
      · omega
  | unbind t =>
    simp only [Ev.time] at ht
    simp only [stepL, stepP, nextBt, Ev.isBind, Ev.time, if_true]
    refine ⟨?_, Nat.le_refl _, fun x => by have := hL x; omega, ?_, fun _ => Or.inl rfl, ?_, ?_⟩
    · cases s <;> simp [Link.clear] <;> omega
    · intro x hx; cases s <;> simp at hx
    · cases s <;> simp [Link.clear] <;> omega
    · left; cases s <;> simp [Link.clear] <;> omega

theorem inv_init : Inv 0 0 Prod.init {} := by
  refine ⟨Nat.le_refl _, Nat.le_refl _, fun _ => Nat.le_refl _, ?_, fun _ => Or.inl rfl, Nat.le_refl _, Or.inl (Nat.le_refl _)⟩
  intro o h; cases h

theorem run_cons (s : Bool) (e : Ev) (es : List Ev) (st : Prod × Link) :
    run s (e :: es) st = run s es (step s st e) := rfl

theorem run_append (s : Bool) (a b : List Ev) (st : Prod × Link) : run s (a ++ b) st = run s b (run s a st) := by
  unfold run; rw [List.foldl_append]

/-- `Inv` after every history with positive non-decreasing times -/
theorem run_inv (s : Bool) : ∀ (evs : List Ev) (now bt : Nat) (st : Prod × Link),
    Inv now bt st.1 st.2 → Mono now evs →
    Inv (endTime now evs) (lastBind bt evs) (run s evs st).1 (run s evs st).2
  | [], _, _, _, h, _ => h
  | e :: es, now, bt, st, h, hm => by
    rw [run_cons]
    exact run_inv s es e.time (nextBt bt e) (step s st e) (step_inv s h e hm.1) hm.2.2

theorem endTime_pos : ∀ (evs : List Ev) (now : Nat), 0 < now → Mono now evs → 0 < endTime now evs
  | [], _, h, _ => h
  | e :: es, _, _, hm => endTime_pos es e.time hm.2.1 hm.2.2

/-! ## modified -/

/-- the heart of it: a state that satisfies `Inv` and is NOT in a (re)bind cycle reads the producer's flag -/
theorem modified_eq_of_inv {now bt : Nat} {P : Prod} {ln : Link} (h : Inv now bt P ln) (hb : bt ≠ now) :
    cModified P ln now ↔ (∃ o, ln.tgt = some o ∧ pModified P o now) := by
  obtain ⟨hk, hbt, hL, htg, hkn, htt, _⟩ := h
  unfold cModified pModified
  cases htgt : ln.tgt with
  | none =>
    simp only [reduceCtorEq, false_and, exists_false, iff_false, not_and]
    intro _ hkt
    rcases hkn hkt with hb' | ⟨o, ho, _⟩
    · exact hb hb'
    · rw [htgt] at ho; cases ho
  | some o =>
    constructor
    · rintro ⟨h0, hm⟩
      refine ⟨o, rfl, h0, ?_⟩
      rcases hm with hkt | ⟨_, htt'⟩ | hLt
      · rcases hkn hkt with hb' | ⟨x, hx, hxL⟩
        · exact absurd hb' hb
        · rw [htgt] at hx; cases hx; exact hxL
      · exact absurd (Nat.le_antisymm hbt (by rw [← htt']; exact htt)) hb
      · exact hLt
    · rintro ⟨x, hx, h0, hLt⟩
      cases hx
      exact ⟨h0, Or.inr (Or.inr hLt)⟩

/-- **outside (re)bind cycles the consumer's `modified` is the producer's**: for every history with positive
non-decreasing times from the initial state (fresh producers, fresh unbound link), read in its last cycle, provided
the input was not (re)bound / unbound in that cycle -/
theorem consumer_modified_eq_producer_outside_bind_cycles (s : Bool) (evs : List Ev) (hm : Mono 0 evs)
    (hb : lastBind 0 evs ≠ endTime 0 evs) :
    let st := run s evs (Prod.init, {})
    cModified st.1 st.2 (endTime 0 evs) ↔ ∃ o, st.2.tgt = some o ∧ pModified st.1 o (endTime 0 evs) :=
  modified_eq_of_inv (run_inv s evs 0 0 (Prod.init, {}) inv_init hm) hb

/-- the hypothesis of the theorem above in terms of the events -/
theorem lastBind_ne_of_no_bind_at (q : Nat) : ∀ (evs : List Ev) (bt : Nat), bt ≠ q →
    (∀ e ∈ evs, e.isBind = true → e.time ≠ q) → lastBind bt evs ≠ q
  | [], _, h, _ => h
  | e :: es, bt, h, hall => by
    unfold lastBind
    apply lastBind_ne_of_no_bind_at q es
    · split
      · rename_i hb; exact hall e (List.mem_cons_self) hb
      · exact h
    · exact fun e' he' => hall e' (List.mem_cons_of_mem _ he')

theorem child_modified_eq_of_inv {now bt : Nat} {P : Prod} {ln : Link} (h : Inv now bt P ln) (hb : bt ≠ now)
    (key : Int) :
    cChildModified P ln key now ↔ (∃ o, ln.tgt = some o ∧ pChildModified P o key now) := by
  have hbt := h.bt_le
  have htt := h.tt_le
  unfold cChildModified pChildModified
  cases htgt : ln.tgt with
  | none => simp
  | some o =>
    constructor
    · rintro ⟨h0, hm⟩
      refine ⟨o, rfl, h0, ?_⟩
      rcases hm with ⟨_, htt'⟩ | hC
      · exact absurd (Nat.le_antisymm hbt (by rw [← htt']; exact htt)) hb
      · exact hC
    · rintro ⟨x, hx, h0, hC⟩
      cases hx
      exact ⟨h0, Or.inr hC⟩

theorem consumer_child_modified_eq_producer_outside_bind_cycles (s : Bool) (evs : List Ev) (hm : Mono 0 evs)
    (hb : lastBind 0 evs ≠ endTime 0 evs) (key : Int) :
    let st := run s evs (Prod.init, {})
    cChildModified st.1 st.2 key (endTime 0 evs) ↔
      ∃ o, st.2.tgt = some o ∧ pChildModified st.1 o key (endTime 0 evs) :=
  child_modified_eq_of_inv (run_inv s evs 0 0 (Prod.init, {}) inv_init hm) hb key

/-- outside (re)bind cycles the input hands out the resolved target, never the sampling wrapper: the per-tick
delta views (`rawAdded`, `rawRemoved`) are the producer's marks -/
theorem consumer_delta_gate_eq_producer_outside_bind_cycles (s : Bool) (evs : List Ev) (hm : Mono 0 evs)
    (hb : lastBind 0 evs ≠ endTime 0 evs) (tgt : Coll) (pub : List Int) (pubo : Option (List Int)) :
    let st := run s evs (Prod.init, {})
    ¬ st.2.useRaw (endTime 0 evs) ∧ rawAdded st.2 (endTime 0 evs) tgt pub = tgt.add ∧
      rawRemoved st.2 (endTime 0 evs) tgt pubo = tgt.rem := by
  intro st
  have h := run_inv s evs 0 0 (Prod.init, {}) inv_init hm
  have hne : ¬ st.2.useRaw (endTime 0 evs) := by
    unfold Link.useRaw
    intro heq
    have h1 : st.2.tt ≤ lastBind 0 evs := h.tt_le
    have h2 : lastBind 0 evs ≤ endTime 0 evs := h.bt_le
    omega
  refine ⟨hne, ?_, ?_⟩
  · unfold rawAdded; simp [hne]
  · unfold rawRemoved; simp [hne]

/-! ## the sampled bind -/

/-- no (re)bind / unbind among the events -/
def NoBind (evs : List Ev) : Prop := ∀ e ∈ evs, e.isBind = false

theorem lastBind_noBind : ∀ (evs : List Ev) (bt : Nat), NoBind evs → lastBind bt evs = bt
  | [], _, _ => rfl
  | e :: es, bt, h => by
    unfold lastBind
    rw [h e List.mem_cons_self]
    exact lastBind_noBind es bt (fun e' he' => h e' (List.mem_cons_of_mem _ he'))

/-- ticks keep the target, the transition, and a link record that equals the cycle time -/
theorem ticks_keep (s : Bool) : ∀ (evs : List Ev) (t : Nat) (st : Prod × Link), NoBind evs → Mono t evs →
    st.2.k = t →
    (run s evs st).2.tgt = st.2.tgt ∧ (run s evs st).2.tt = st.2.tt ∧ (run s evs st).2.ts = st.2.ts ∧
      (endTime t evs = t → (run s evs st).2.k = t)
  | [], _, _, _, _, hk => ⟨rfl, rfl, rfl, fun _ => hk⟩
  | e :: es, t, st, hn, hm, hk => by
    rw [run_cons]
    have he : e.isBind = false := hn e List.mem_cons_self
    cases e with
    | tick o c t' =>
      have hm : t ≤ t' ∧ 0 < t' ∧ Mono t' es := hm
      have hstep : (step s st (.tick o c t')).2.tgt = st.2.tgt ∧ (step s st (.tick o c t')).2.tt = st.2.tt ∧
          (step s st (.tick o c t')).2.ts = st.2.ts ∧ (step s st (.tick o c t')).2.k = t' ∨
          ((step s st (.tick o c t')).2 = st.2) := by
        simp only [step, stepL]
        split
        · left; exact ⟨rfl, rfl, rfl, by simp [record_eq_of_le (show st.2.k ≤ t' by omega)]⟩
        · right; rfl
      have hmt : Mono t' es := hm.2.2
      by_cases htt : t' = t
      · subst htt
        have hk' : (step s st (.tick o c t')).2.k = t' := by
          rcases hstep with ⟨_, _, _, h4⟩ | h
          · exact h4
          · rw [h]; exact hk
        have ih := ticks_keep s es t' (step s st (.tick o c t')) (fun e' he' => hn e' (List.mem_cons_of_mem _ he')) hmt hk'
        have hend : endTime t' (Ev.tick o c t' :: es) = endTime t' es := rfl
        rcases hstep with ⟨h1, h2, h3, _⟩ | h
        · exact ⟨ih.1.trans h1, ih.2.1.trans h2, ih.2.2.1.trans h3, fun hq => ih.2.2.2 (hend ▸ hq)⟩
        · rw [h] at ih; exact ⟨ih.1, ih.2.1, ih.2.2.1, fun hq => ih.2.2.2 (hend ▸ hq)⟩
      · -- a later cycle: the last clause is vacuous (end time ≥ t' > t)
        have hgt : t < t' := by omega
        have hend : ∀ (es : List Ev) (q : Nat), Mono q es → q ≤ endTime q es := by
          intro es; induction es with
          | nil => intro q _; exact Nat.le_refl _
          | cons e es ih => intro q hq; exact Nat.le_trans hq.1 (ih e.time hq.2.2)
        have hge := hend es t' hmt
        -- targets / transition are untouched by ticks whatever the record is
        have hkeep : ∀ (es : List Ev) (st : Prod × Link), NoBind es →
            (run s es st).2.tgt = st.2.tgt ∧ (run s es st).2.tt = st.2.tt ∧ (run s es st).2.ts = st.2.ts := by
          intro es; induction es with
          | nil => intro st _; exact ⟨rfl, rfl, rfl⟩
          | cons e es ih =>
            intro st hn
            rw [run_cons]
            have he : e.isBind = false := hn e List.mem_cons_self
            have ih' := ih (step s st e) (fun e' he' => hn e' (List.mem_cons_of_mem _ he'))
            cases e with
            | tick o c t'' =>
              have : (step s st (.tick o c t'')).2.tgt = st.2.tgt ∧ (step s st (.tick o c t'')).2.tt = st.2.tt ∧
                  (step s st (.tick o c t'')).2.ts = st.2.ts := by
                simp only [step, stepL]; split <;> exact ⟨rfl, rfl, rfl⟩
              exact ⟨ih'.1.trans this.1, ih'.2.1.trans this.2.1, ih'.2.2.trans this.2.2⟩
            | bind _ _ _ _ => simp [Ev.isBind] at he
            | unbind _ => simp [Ev.isBind] at he
        have hrest := hkeep es (step s st (.tick o c t')) (fun e' he' => hn e' (List.mem_cons_of_mem _ he'))
        have h1 : (step s st (.tick o c t')).2.tgt = st.2.tgt ∧ (step s st (.tick o c t')).2.tt = st.2.tt ∧
            (step s st (.tick o c t')).2.ts = st.2.ts := by
          rcases hstep with ⟨a, b, c', _⟩ | h
          · exact ⟨a, b, c'⟩
          · rw [h]; exact ⟨rfl, rfl, rfl⟩
        refine ⟨hrest.1.trans h1.1, hrest.2.1.trans h1.2.1, hrest.2.2.trans h1.2.2, ?_⟩
        intro hq; simp only [endTime, Ev.time] at hq; omega
    | bind _ _ _ _ => simp [Ev.isBind] at he
    | unbind _ => simp [Ev.isBind] at he

/-- **a sampled (re)bind to a valid output ticks the consumer exactly once**: `pre` is any history, then the input is
bound with the sampled bind to `o` (valid at that moment) in cycle `t`, then `post` holds producer mutations only;
read in the last cycle `q` of `post`: modified iff `q` is the bind cycle or the producer is modified in `q` -/
theorem sampled_bind_ticks_once (s : Bool) (pre post : List Ev) (o t : Nat) (pp : Bool)
    (hm : Mono 0 (pre ++ [.bind o t true pp] ++ post)) (hpost : NoBind post)
    (hvalid : pValid (run s pre (Prod.init, {})).1 o) :
    let st := run s (pre ++ [.bind o t true pp] ++ post) (Prod.init, {})
    let q := endTime 0 (pre ++ [.bind o t true pp] ++ post)
    st.2.tgt = some o ∧ (cModified st.1 st.2 q ↔ (q = t ∨ pModified st.1 o q)) := by
  intro st q
  -- split the monotone history
  have hmono_split : ∀ (a b : List Ev) (now : Nat), Mono now (a ++ b) → Mono now a ∧ Mono (endTime now a) b := by
    intro a; induction a with
    | nil => intro b now h; exact ⟨trivial, h⟩
    | cons e es ih => intro b now h; have := ih b e.time h.2.2; exact ⟨⟨h.1, h.2.1, this.1⟩, this.2⟩
  have hend_append : ∀ (a b : List Ev) (now : Nat), endTime now (a ++ b) = endTime (endTime now a) b := by
    intro a; induction a with
    | nil => intro b now; rfl
    | cons e es ih => intro b now; exact ih b e.time
  have hlast_append : ∀ (a b : List Ev) (bt : Nat), lastBind bt (a ++ b) = lastBind (lastBind bt a) b := by
    intro a; induction a with
    | nil => intro b bt; rfl
    | cons e es ih => intro b bt; exact ih b _
  rw [List.append_assoc] at hm
  obtain ⟨hmpre, hmrest⟩ := hmono_split pre ([.bind o t true pp] ++ post) 0 hm
  have hmb : endTime 0 pre ≤ t ∧ 0 < t ∧ Mono t post := hmrest
  -- the state before the bind
  have hinv0 := run_inv s pre 0 0 (Prod.init, {}) inv_init hmpre
  generalize hst0 : run s pre (Prod.init, {}) = st0 at hinv0 hvalid
  -- the bind
  have hkb : (step s st0 (.bind o t true pp)).2.k = t := by
    simp only [step, stepL]
    rw [bindImpl_k]
    have hp : publishes s st0.1 o true pp st0.2 = true := by
      unfold pValid at hvalid; simp [publishes, hvalid]
    simp only [hp, if_true]
    exact record_eq_of_le (Nat.le_trans hinv0.k_le hmb.1)
  have htb : (step s st0 (.bind o t true pp)).2.tgt = some o := by
    simp only [step, stepL]; exact bindImpl_tgt _ _ _ _ _ _ _
  -- the ticks after it
  have hkeep := ticks_keep s post t (step s st0 (.bind o t true pp)) hpost hmb.2.2 hkb
  have hrun : st = run s post (step s st0 (.bind o t true pp)) := by
    show run s (pre ++ [.bind o t true pp] ++ post) (Prod.init, {}) = _
    rw [List.append_assoc, run_append, hst0]; rfl
  have hq : q = endTime t post := by
    show endTime 0 (pre ++ [.bind o t true pp] ++ post) = _
    rw [List.append_assoc, hend_append]; rfl
  have htgt : st.2.tgt = some o := by rw [hrun, hkeep.1, htb]
  refine ⟨htgt, ?_⟩
  by_cases hqt : q = t
  · -- still the bind cycle
    have hk : st.2.k = t := by rw [hrun]; exact hkeep.2.2.2 (by omega)
    constructor
    · intro _; exact Or.inl hqt
    · intro _
      unfold cModified
      rw [htgt]
      exact ⟨by omega, Or.inl (by omega)⟩
  · -- a later cycle: the general theorem, the last (re)bind was at t
    have hinv := run_inv s (pre ++ [.bind o t true pp] ++ post) 0 0 (Prod.init, {}) inv_init
      (by rw [List.append_assoc]; exact hm)
    have hlb : lastBind 0 (pre ++ [.bind o t true pp] ++ post) = t := by
      rw [List.append_assoc, hlast_append]
      show lastBind (nextBt _ _) post = t
      rw [lastBind_noBind post _ hpost]; rfl
    rw [hlb] at hinv
    have := modified_eq_of_inv hinv (fun h => hqt h.symm)
    constructor
    · intro hc
      obtain ⟨x, hx, hpx⟩ := this.mp hc
      have : x = o := by
        have h2 : st.2.tgt = some x := hx
        rw [htgt] at h2; exact (Option.some.inj h2).symm
      subst this; exact Or.inr hpx
    · rintro (h | h)
      · exact absurd h hqt
      · exact this.mpr ⟨o, htgt, h⟩

/-- in the cycle of a sampled (re)bind of a TSS / TSD input to a valid output the transition is the sampled one:
every TSD child reads modified and the delta views come from the sampling wrapper -/
theorem sampled_bind_samples_children (pre post : List Ev) (o t : Nat) (pp : Bool)
    (hm : Mono 0 (pre ++ [.bind o t true pp] ++ post)) (hpost : NoBind post)
    (hvalid : pValid (run true pre (Prod.init, {})).1 o)
    (hq : endTime 0 (pre ++ [.bind o t true pp] ++ post) = t) :
    let st := run true (pre ++ [.bind o t true pp] ++ post) (Prod.init, {})
    st.2.sampled ∧ st.2.useRaw t ∧ ∀ key, cChildModified st.1 st.2 key t := by
  intro st
  have hmono_split : ∀ (a b : List Ev) (now : Nat), Mono now (a ++ b) → Mono now a ∧ Mono (endTime now a) b := by
    intro a; induction a with
    | nil => intro b now h; exact ⟨trivial, h⟩
    | cons e es ih => intro b now h; have := ih b e.time h.2.2; exact ⟨⟨h.1, h.2.1, this.1⟩, this.2⟩
  have hend_append : ∀ (a b : List Ev) (now : Nat), endTime now (a ++ b) = endTime (endTime now a) b := by
    intro a; induction a with
    | nil => intro b now; rfl
    | cons e es ih => intro b now; exact ih b e.time
  rw [List.append_assoc] at hm hq
  obtain ⟨hmpre, hmrest⟩ := hmono_split pre ([.bind o t true pp] ++ post) 0 hm
  have hmb : endTime 0 pre ≤ t ∧ 0 < t ∧ Mono t post := hmrest
  have hinv0 := run_inv true pre 0 0 (Prod.init, {}) inv_init hmpre
  generalize hst0 : run true pre (Prod.init, {}) = st0 at hinv0 hvalid
  have hp : publishes true st0.1 o true pp st0.2 = true := by
    unfold pValid at hvalid; simp [publishes, hvalid]
  have hkb : (step true st0 (.bind o t true pp)).2.k = t := by
    simp only [step, stepL]
    rw [bindImpl_k]
    simp only [hp, if_true]
    exact record_eq_of_le (Nat.le_trans hinv0.k_le hmb.1)
  have htb : (step true st0 (.bind o t true pp)).2.tgt = some o := by
    simp only [step, stepL]; exact bindImpl_tgt _ _ _ _ _ _ _
  have hpub := bindImpl_publish_structural st0.1 o t pp st0.2 hp
  have hkeep := ticks_keep true post t (step true st0 (.bind o t true pp)) hpost hmb.2.2 hkb
  have hrun : st = run true post (step true st0 (.bind o t true pp)) := by
    show run true (pre ++ [.bind o t true pp] ++ post) (Prod.init, {}) = _
    rw [List.append_assoc, run_append, hst0]; rfl
  have hqe : endTime t post = t := by rw [hend_append] at hq; exact hq
  have hk : st.2.k = t := by rw [hrun]; exact hkeep.2.2.2 hqe
  have htt : st.2.tt = t := by rw [hrun, hkeep.2.1]; exact hpub.1
  have hts : st.2.ts = true := by rw [hrun, hkeep.2.2.1]; exact hpub.2
  have htgt : st.2.tgt = some o := by rw [hrun, hkeep.1, htb]
  have hsam : st.2.sampled := ⟨⟨by omega, by omega⟩, hts⟩
  refine ⟨hsam, htt, fun key => ?_⟩
  unfold cChildModified
  rw [htgt]
  exact ⟨by omega, Or.inl ⟨hsam, htt⟩⟩

/-! ## the plain bind of a fresh input -/

/-- a fresh input bound with the plain bind, then producer mutations only: the link record IS the producer's
record, so modified and last-modified-time agree in every cycle from the bind on - the bind cycle included -/
theorem plain_first_bind_agrees (s : Bool) (pre post : List Ev) (o t : Nat) (pp : Bool)
    (hpre : NoBind pre) (hpost : NoBind post) (hm : Mono 0 (pre ++ [.bind o t false pp] ++ post)) :
    let st := run s (pre ++ [.bind o t false pp] ++ post) (Prod.init, {})
    let q := endTime 0 (pre ++ [.bind o t false pp] ++ post)
    st.2.tgt = some o ∧ (cModified st.1 st.2 q ↔ pModified st.1 o q) ∧ cLmt st.1 st.2 = st.1.L o := by
  intro st q
  -- invariant of the phase after the bind: target o, no transition, link record = producer record
  have hphase : ∀ (evs : List Ev) (st : Prod × Link), NoBind evs →
      st.2.tgt = some o → st.2.tt = 0 → st.2.k = st.1.L o →
      (run s evs st).2.tgt = some o ∧ (run s evs st).2.tt = 0 ∧ (run s evs st).2.k = (run s evs st).1.L o := by
    intro evs; induction evs with
    | nil => intro st _ h1 h2 h3; exact ⟨h1, h2, h3⟩
    | cons e es ih =>
      intro st hn h1 h2 h3
      rw [run_cons]
      have he : e.isBind = false := hn e List.mem_cons_self
      cases e with
      | tick o' c t' =>
        apply ih _ (fun e' he' => hn e' (List.mem_cons_of_mem _ he'))
        · simp only [step, stepL]; split <;> exact h1
        · simp only [step, stepL]; split <;> exact h2
        · simp only [step, stepL, stepP]
          by_cases hoo : o = o'
          · subst hoo
            by_cases hlt : st.1.L o < t'
            · simp [h1, hlt, h3]
            · simp only [h1, hlt, and_false, if_false, if_true]
              rw [record_eq_left (by omega)]; exact h3
          · have : ¬ (st.2.tgt = some o' ∧ st.1.L o' < t') := by
              rw [h1]; intro h; exact hoo (Option.some.inj h.1)
            simp [this, hoo, h3]
      | bind _ _ _ _ => simp [Ev.isBind] at he
      | unbind _ => simp [Ev.isBind] at he
  -- before the bind the link is untouched
  have hfresh : ∀ (evs : List Ev) (st : Prod × Link), NoBind evs → st.2 = {} → (run s evs st).2 = {} := by
    intro evs; induction evs with
    | nil => intro st _ h; exact h
    | cons e es ih =>
      intro st hn h
      rw [run_cons]
      have he : e.isBind = false := hn e List.mem_cons_self
      apply ih _ (fun e' he' => hn e' (List.mem_cons_of_mem _ he'))
      cases e with
      | tick o' c t' => simp [step, stepL, h]
      | bind _ _ _ _ => simp [Ev.isBind] at he
      | unbind _ => simp [Ev.isBind] at he
  generalize hst0 : run s pre (Prod.init, {}) = st0
  have hl0 : st0.2 = {} := by rw [← hst0]; exact hfresh pre _ hpre rfl
  have hrun : st = run s post (step s st0 (.bind o t false pp)) := by
    show run s (pre ++ [.bind o t false pp] ++ post) (Prod.init, {}) = _
    rw [List.append_assoc, run_append, hst0]; rfl
  have hb1 : (step s st0 (.bind o t false pp)).2.tgt = some o := by
    simp only [step, stepL]; exact bindImpl_tgt _ _ _ _ _ _ _
  have hb2 : (step s st0 (.bind o t false pp)).2.tt = 0 := by
    simp only [step, stepL]
    rcases bindImpl_tt s st0.1 o t false pp st0.2 with h | h | h
    · exact h
    · -- tt = t is impossible for a plain bind: use the structural / non-structural computation
      cases s
      · unfold bindImpl; rw [hl0]; simp; (repeat' split) <;> simp_all
      · exact bindImpl_plain_structural_tt _ _ _ _ _
    · rw [h, hl0]
  have hb3 : (step s st0 (.bind o t false pp)).2.k = (step s st0 (.bind o t false pp)).1.L o := by
    simp only [step, stepL, stepP]
    rw [bindImpl_k, hl0]
    simp only [Bool.false_eq_true, if_false]
    split
    · exact record_eq_of_le (Nat.zero_le _)
    · rename_i h0; have : st0.1.L o = 0 := by simpa using h0
      rw [this]
  have hph := hphase post _ hpost hb1 hb2 hb3
  rw [← hrun] at hph
  have hinv := run_inv s (pre ++ [.bind o t false pp] ++ post) 0 0 (Prod.init, {}) inv_init hm
  refine ⟨hph.1, ?_, ?_⟩
  · unfold cModified pModified
    rw [hph.1]
    have hns : ¬ st.2.sampled := by
      unfold Link.sampled Link.active; rw [hph.2.1]; simp
    constructor
    · rintro ⟨h0, hk | ⟨hs', _⟩ | hL⟩
      · exact ⟨h0, by rw [← hph.2.2]; exact hk⟩
      · exact absurd hs' hns
      · exact ⟨h0, hL⟩
    · rintro ⟨h0, hL⟩; exact ⟨h0, Or.inr (Or.inr hL)⟩
  · unfold cLmt; rw [hph.1]; simp only; rw [hph.2.2]; exact Nat.max_self _

/-! ## valid, value, last-modified-time -/

/-- `valid` through a bound input is the producer's (the input reads the target's data: by construction; the
correspondence is what ties it to the code); an unbound input is never valid -/
theorem consumer_valid_eq_producer (P : Prod) (ln : Link) :
    cValid P ln ↔ ∃ o, ln.tgt = some o ∧ pValid P o := by
  unfold cValid pValid
  cases ln.tgt <;> simp

theorem consumer_lmt_eq_link {now bt : Nat} {P : Prod} {ln : Link} (h : Inv now bt P ln) : cLmt P ln = ln.k := by
  unfold cLmt
  cases htgt : ln.tgt with
  | none => rfl
  | some o => have := h.tgt_le o htgt; simp only; omega

theorem consumer_lmt_ge_producer {now bt : Nat} {P : Prod} {ln : Link} (_h : Inv now bt P ln) (o : Nat)
    (ho : ln.tgt = some o) : P.L o ≤ cLmt P ln ∧ cLmt P ln ≤ now := by
  unfold cLmt; rw [ho]; simp only
  have := _h.k_le; have := _h.L_le o
  omega

/-- the consumer's own flags are consistent: modified now ⇔ last-modified-time = now (bind cycles included) -/
theorem consumer_modified_iff_lmt_now {now bt : Nat} {P : Prod} {ln : Link} (h : Inv now bt P ln) (h0 : 0 < now) :
    cModified P ln now ↔ cLmt P ln = now := by
  rw [consumer_lmt_eq_link h]
  unfold cModified
  cases htgt : ln.tgt with
  | none => simp; omega
  | some o =>
    have h1 := h.tgt_le o htgt
    have h2 := h.k_le
    constructor
    · rintro ⟨_, hk | ⟨⟨⟨_, hkt⟩, _⟩, htt⟩ | hL⟩ <;> omega
    · intro hk; exact ⟨by omega, Or.inl hk⟩

/-- once the producer ticked at / after the last (re)bind the consumer reads the producer's last-modified-time -/
theorem consumer_lmt_eq_producer_after_tick {now bt : Nat} {P : Prod} {ln : Link} (h : Inv now bt P ln) (o : Nat)
    (ho : ln.tgt = some o) (hb : bt ≤ P.L o) : cLmt P ln = P.L o := by
  rw [consumer_lmt_eq_link h]
  have h1 := h.tgt_le o ho
  rcases h.k_src with hle | ⟨x, hx, hxk⟩
  · omega
  · rw [ho] at hx; cases hx; exact hxk

/-- the same, for every history -/
theorem consumer_lmt_after_tick_run (s : Bool) (evs : List Ev) (hm : Mono 0 evs) (o : Nat) :
    let st := run s evs (Prod.init, {})
    st.2.tgt = some o → lastBind 0 evs ≤ st.1.L o → cLmt st.1 st.2 = st.1.L o :=
  fun ho hb => consumer_lmt_eq_producer_after_tick (run_inv s evs 0 0 (Prod.init, {}) inv_init hm) o ho hb

/-- several inputs on one output: outside their (re)bind cycles they read the same `modified` -/
theorem two_consumers_agree {now bt1 bt2 : Nat} {P : Prod} {l1 l2 : Link} (h1 : Inv now bt1 P l1)
    (h2 : Inv now bt2 P l2) (o : Nat) (ho1 : l1.tgt = some o) (ho2 : l2.tgt = some o) (hb1 : bt1 ≠ now)
    (hb2 : bt2 ≠ now) : cModified P l1 now ↔ cModified P l2 now := by
  rw [modified_eq_of_inv h1 hb1, modified_eq_of_inv h2 hb2]
  constructor
  · rintro ⟨x, hx, hp⟩; rw [ho1] at hx; cases hx; exact ⟨o, ho2, hp⟩
  · rintro ⟨x, hx, hp⟩; rw [ho2] at hx; cases hx; exact ⟨o, ho1, hp⟩

/-! ## non-vacuity and the places where the code is not the tidy spec -/

/-- o0 written at 1; the input is sampled-bound to it at 2; quiet cycles 3, 4; o0 ticks at 5 -/
def exHist : List Ev := [.tick 0 none 1, .bind 0 2 true false, .tick 1 none 3, .tick 1 none 4, .tick 0 none 5]

example : Mono 0 exHist := by simp [exHist, Mono, Ev.time]
example : NoBind [.tick 1 none 3, .tick 1 none 4, .tick 0 none 5] := by intro e he; simp at he; rcases he with h | h | h <;> subst h <;> rfl
example : pValid (run true [.tick 0 none 1] (Prod.init, {})).1 0 := by decide
example : lastBind 0 exHist ≠ endTime 0 exHist := by decide
/-- the bind cycle: modified, the sampled transition is live, last-modified-time = the bind time (not the producer's 1) -/
example : let st := run true (exHist.take 2) (Prod.init, {})
    cModified st.1 st.2 2 ∧ st.2.sampled ∧ cLmt st.1 st.2 = 2 ∧ st.1.L 0 = 1 ∧ ¬ pModified st.1 0 2 := by decide
/-- the quiet cycles after it: NOT modified although `Link.sampled` (the lazily expiring predicate) still holds - the
time comparison is what makes the difference; the last-modified-time stays at the bind time (deviation 1) -/
example : let st := run true (exHist.take 4) (Prod.init, {})
    ¬ cModified st.1 st.2 4 ∧ st.2.sampled ∧ cLmt st.1 st.2 = 2 ∧ ¬ cChildModified st.1 st.2 7 4 := by decide
/-- the next tick: modified again, `Link.sampled` has expired, the last-modified-times agree again -/
example : let st := run true exHist (Prod.init, {})
    cModified st.1 st.2 5 ∧ ¬ st.2.sampled ∧ cLmt st.1 st.2 = 5 ∧ st.1.L 0 = 5 := by decide
/-- deviation 3: a sampled re-bind from a valid output (0) to a not-yet-valid one (1): modified, not valid -/
example : let st := run true [.tick 0 none 1, .bind 0 1 false false, .bind 1 2 true true] (Prod.init, {})
    cModified st.1 st.2 2 ∧ ¬ cValid st.1 st.2 := by decide
/-- deviation 2: a plain re-bind keeps the record of the earlier target: o0 ticked at 5, o1 at 3; bound to o1 at 7
the input reads last-modified-time 5 -/
def exRebind : List Ev := [.tick 1 none 3, .bind 0 4 false false, .tick 0 none 5, .bind 1 7 false true, .tick 0 none 8]
example : let st := run true exRebind (Prod.init, {})
    cLmt st.1 st.2 = 5 ∧ st.1.L 1 = 3 ∧ ¬ cModified st.1 st.2 8 := by decide
/-- deviation 4: in the sampled bind cycle a TSD child reads modified while its record is older -/
example : let st := run true [.tick 0 (some 7) 1, .bind 0 2 true false] (Prod.init, {})
    cChildModified st.1 st.2 7 2 ∧ st.1.C 0 7 = 1 := by decide
/-- a non-structural (TS) link never carries a transition; its sampled bind ticks through the link record alone -/
example : let st := run false [.tick 0 none 1, .bind 0 2 true false, .tick 1 none 3] (Prod.init, {})
    st.2.tt = 0 ∧ ¬ cModified st.1 st.2 3 ∧ cLmt st.1 st.2 = 2 := by decide

end HgVerif.TrackBind
