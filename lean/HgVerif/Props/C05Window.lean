import HgVerif.Model.TimeWindow
/-!
# C05, duration (time-span) windows: the cyclic buffer refines "the pushes within the span of the latest push"

Model: `HgVerif/Model/TimeWindow.lean` (`TimeTSWindowStorage` / `TSWindowStorageCore` of
`src/hgraph/types/metadata/ts_data_window_ops.cpp`: cyclic buffer `buf` / `head` / `size`, growth by
`reserve_exact`, `prune_before`, the removed-value scan).

Theorems (all for ARBITRARY windows satisfying the representation invariant `WF`, or for every state reachable by
an arbitrary operation list):

* `wf_reachable`            : `WF` (size ≤ capacity, head inside the buffer) holds after ANY operation list
                              (also with decreasing times): no slot outside `[0, capacity)` is ever addressed.
* `capacity_shape`          : the capacity is 0 or `4 * 2^k` after ANY operation list.
* `reserve_preserves_content`: `reserve_exact` keeps the logical content (for ANY well-formed window, wrapped or
                              not). This is the lemma that a copy in physical slot order falsifies
                              (`reservePhysical_counterexample`).
* `ensure_preserves_content`: the same for `ensure_capacity`, and the capacity is sufficient afterwards.
* `prune_content`           : `prune_before` removes exactly the maximal expired prefix (`dropWhile`).
* `append_content`          : `append` adds the element at the logical end.
* `dropped_eq`              : the scan counts exactly the expired prefix (`takeWhile`).
* `push_content`            : content after a push = content minus expired prefix, plus the pushed element.
* `push_removed`            : the removed value recorded by a push is the LAST element of the expired prefix, stamped
                              with the push time; nothing is recorded when nothing expired.
* `window_refines_spec`     : for ALL operation lists with non-decreasing times the logical content equals
                              `inSpan span hist` = the pushes since the last clear whose time lies within `span` of the
                              latest push, in push order.
* `window_tick_delta`       : at every reachable state a push at a later time `t` yields content = (old content
                              restricted to `time + span ≥ t`) ++ [pushed]; old content = left ++ kept; `removedAt t`
                              is the last element that left (none if none left); `deltaAt t` is the pushed value.
* `window_all_valid`, `window_size` : `all_valid`, `size`, `first_modified_time` expressed through the spec list.
* `GTW.run_w`               : erasing the ghost history gives the plain model run.
-/

namespace HgVerif.TimeWindow
local notation "Time" => Nat

/-! ## arithmetic of the cyclic index -/

theorem mod_two {a c : Nat} (h : a < 2 * c) : a % c = if a < c then a else a - c := by
  split
  · exact Nat.mod_eq_of_lt ‹_›
  · rw [Nat.mod_eq_sub_mod (by omega)]; exact Nat.mod_eq_of_lt (by omega)

/-- two different logical indices never share a physical slot -/
theorem phys_inj {h c i j : Nat} (hh : h < c) (hi : i < c) (hj : j < c) (e : (h + i) % c = (h + j) % c) : i = j := by
  rw [mod_two (by omega), mod_two (by omega)] at e
  split at e <;> split at e <;> omega

/-! ## representation invariant -/

structure WF (w : TWin) : Prop where
  size_le : w.size ≤ w.cap
  head_ok : w.head < w.cap ∨ w.head = 0

/-- the logical segment `size` slots from `head` on, cyclically -/
def seg (buf : List Elem) (head size : Nat) : List Elem :=
  (List.range size).map (fun i => buf.getD ((head + i) % buf.length) dflt)

theorem elemAt_eq (w : TWin) (i : Nat) : w.elemAt i = w.buf.getD ((w.head + i) % w.buf.length) dflt := by
  unfold TWin.elemAt TWin.phys TWin.cap
  split
  · rename_i h
    have : w.buf = [] := List.eq_nil_of_length_eq_zero h
    simp [this]
  · rfl

theorem content_eq_seg (w : TWin) : w.content = seg w.buf w.head w.size := by
  unfold TWin.content seg
  exact List.map_congr_left (fun i _ => elemAt_eq w i)

@[simp] theorem content_length (w : TWin) : w.content.length = w.size := by simp [TWin.content]

theorem content_getD (w : TWin) {i : Nat} (h : i < w.size) : w.content.getD i dflt = w.elemAt i := by
  simp [TWin.content, List.getD_eq_getElem?_getD, h]

theorem seg_zero (buf : List Elem) (head : Nat) : seg buf head 0 = [] := by simp [seg]

theorem seg_succ (buf : List Elem) (head size : Nat) :
    seg buf head (size + 1) = buf.getD (head % buf.length) dflt :: seg buf ((head + 1) % buf.length) size := by
  unfold seg
  rw [List.range_succ_eq_map, List.map_cons, List.map_map]
  congr 1
  apply List.map_congr_left
  intro i _
  simp only [Function.comp]
  rw [Nat.mod_add_mod]
  congr 2
  omega

/-! ## `prune_before` -/

theorem pruneGo_spec (buf : List Elem) (span t : Nat) :
    ∀ (size head : Nat), size ≤ buf.length → (head < buf.length ∨ size = 0) →
      seg buf (pruneGo buf span t head size).1 (pruneGo buf span t head size).2
          = (seg buf head size).dropWhile (expired span t)
        ∧ (pruneGo buf span t head size).2 ≤ size
        ∧ ((pruneGo buf span t head size).1 < buf.length ∨ (pruneGo buf span t head size).2 = 0) := by
  intro size
  induction size with
  | zero => intro head _ _; simp [pruneGo, seg_zero]
  | succ n ih =>
    intro head hs hh
    have hlt : head < buf.length := by omega
    have hne : buf.length ≠ 0 := by omega
    rw [seg_succ, Nat.mod_eq_of_lt hlt]
    unfold pruneGo
    by_cases hp : expired span t (buf.getD head dflt) = true
    · simp only [hp, if_true, hne, if_false, List.dropWhile_cons]
      have hm : (head + 1) % buf.length < buf.length := Nat.mod_lt _ (by omega)
      obtain ⟨h1, h2, h3⟩ := ih ((head + 1) % buf.length) (by omega) (Or.inl hm)
      exact ⟨h1, by omega, h3⟩
    · have hp' : expired span t (buf.getD head dflt) = false := by simpa using hp
      simp only [hp', Bool.false_eq_true, if_false, List.dropWhile_cons]
      refine ⟨?_, Nat.le_refl _, Or.inl hlt⟩
      rw [seg_succ, Nat.mod_eq_of_lt hlt]

theorem prune_size (w : TWin) (t : Time) : (w.prune t).size = (pruneGo w.buf w.span t w.head w.size).2 := rfl
theorem prune_head (w : TWin) (t : Time) :
    (w.prune t).head = if (pruneGo w.buf w.span t w.head w.size).2 = 0 then 0
      else (pruneGo w.buf w.span t w.head w.size).1 := rfl
theorem prune_buf (w : TWin) (t : Time) : (w.prune t).buf = w.buf := rfl

theorem prune_wf {w : TWin} (hw : WF w) (t : Time) : WF (w.prune t) := by
  obtain ⟨h1, h2, h3⟩ := pruneGo_spec w.buf w.span t w.size w.head hw.size_le
    (by have := hw.size_le; have := hw.head_ok; unfold TWin.cap at *; omega)
  have := hw.size_le
  constructor
  · unfold TWin.cap at *; rw [prune_size, prune_buf]; omega
  · unfold TWin.cap at *; rw [prune_head, prune_buf]
    split <;> omega

/-- **prune_content**: `prune_before` removes exactly the maximal expired prefix of the logical content -/
theorem prune_content {w : TWin} (hw : WF w) (t : Time) :
    (w.prune t).content = w.content.dropWhile (expired w.span t) := by
  obtain ⟨h1, _, _⟩ := pruneGo_spec w.buf w.span t w.size w.head hw.size_le
    (by have := hw.size_le; have := hw.head_ok; unfold TWin.cap at *; omega)
  rw [content_eq_seg w, ← h1, content_eq_seg, prune_size, prune_head, prune_buf]
  split
  · rename_i h0; rw [h0, seg_zero, seg_zero]
  · rfl

theorem prune_size_le {w : TWin} (hw : WF w) (t : Time) : (w.prune t).size ≤ w.size := by
  obtain ⟨_, h2, _⟩ := pruneGo_spec w.buf w.span t w.size w.head hw.size_le
    (by have := hw.size_le; have := hw.head_ok; unfold TWin.cap at *; omega)
  exact h2

/-! ## the removed-value scan -/

theorem scanGo_spec (w : TWin) (t : Time) :
    ∀ (fuel d : Nat), d ≤ w.size → w.size ≤ d + fuel →
      w.scanGo t fuel d = d + ((w.content.drop d).takeWhile (expired w.span t)).length := by
  intro fuel
  induction fuel with
  | zero =>
    intro d h1 h2
    have : w.content.drop d = [] := List.drop_eq_nil_of_le (by simp; omega)
    simp [TWin.scanGo, this]
  | succ n ih =>
    intro d h1 h2
    unfold TWin.scanGo
    by_cases hd : d < w.size
    · have hdrop : w.content.drop d = w.elemAt d :: w.content.drop (d + 1) := by
        rw [List.drop_eq_getElem_cons (by simpa using hd)]
        simp [TWin.content]
      by_cases hp : expired w.span t (w.elemAt d) = true
      · simp only [hd, hp, decide_true, Bool.and_self, if_true]
        rw [ih (d + 1) (by omega) (by omega), hdrop, List.takeWhile_cons]
        simp only [hp, if_true, List.length_cons]
        omega
      · simp only [hp, Bool.and_false, Bool.false_eq_true, if_false]
        rw [hdrop, List.takeWhile_cons]
        simp [hp]
    · have : w.content.drop d = [] := List.drop_eq_nil_of_le (by simp; omega)
      simp [hd, this]

/-- **dropped_eq**: the scan at the top of `push` counts exactly the expired prefix -/
theorem dropped_eq (w : TWin) (t : Time) :
    w.dropped t = (w.content.takeWhile (expired w.span t)).length := by
  unfold TWin.dropped
  rw [scanGo_spec w t w.size 0 (Nat.zero_le _) (by omega)]
  simp

/-! ## growth: `reserve_exact` / `ensure_capacity` -/

theorem reserve_cap {w : TWin} (hw : WF w) {n : Nat} (h : w.cap < n) : (w.reserveExact n).cap = n := by
  have := hw.size_le
  unfold TWin.reserveExact
  rw [if_neg (by omega)]
  simp [TWin.cap]
  omega

/-- **reserve_preserves_content**: regrowing the buffer keeps the logical content, for EVERY well-formed window
    (in particular when `head ≠ 0`, i.e. the buffer is wrapped) -/
theorem reserve_preserves_content {w : TWin} (hw : WF w) (n : Nat) :
    (w.reserveExact n).content = w.content ∧ WF (w.reserveExact n) ∧ (w.reserveExact n).size = w.size := by
  have hs := hw.size_le
  unfold TWin.reserveExact
  split
  · exact ⟨rfl, hw, rfl⟩
  · rename_i hn
    have hlen : (w.content ++ List.replicate (n - w.size) dflt).length = n := by simp; omega
    refine ⟨?_, ⟨?_, Or.inr rfl⟩, rfl⟩
    · rw [content_eq_seg]
      show seg (w.content ++ List.replicate (n - w.size) dflt) 0 w.size = w.content
      unfold seg
      rw [hlen]
      conv => rhs; unfold TWin.content
      apply List.map_congr_left
      intro i hi
      have hi' : i < w.size := by simpa using hi
      rw [Nat.zero_add, Nat.mod_eq_of_lt (by omega), List.getD_eq_getElem?_getD,
        List.getElem?_append_left (by simpa using hi')]
      simp [TWin.content, hi']
    · show w.size ≤ (w.content ++ List.replicate (n - w.size) dflt).length
      omega

theorem ensure_cap_le {w : TWin} (hw : WF w) (r : Nat) : r ≤ (w.ensureCapacity r).cap := by
  unfold TWin.ensureCapacity
  split
  · assumption
  · rename_i h
    split
    · rw [reserve_cap hw (by omega)]; omega
    · rw [reserve_cap hw (by omega)]; omega

/-- **ensure_preserves_content**: `ensure_capacity` keeps the logical content and provides the capacity -/
theorem ensure_preserves_content {w : TWin} (hw : WF w) (r : Nat) :
    (w.ensureCapacity r).content = w.content ∧ WF (w.ensureCapacity r) ∧ (w.ensureCapacity r).size = w.size
      ∧ r ≤ (w.ensureCapacity r).cap := by
  refine ⟨?_, ?_, ?_, ensure_cap_le hw r⟩
  all_goals
    unfold TWin.ensureCapacity
    split
    · first | rfl | exact hw
    · first | exact (reserve_preserves_content hw _).1 | exact (reserve_preserves_content hw _).2.1
            | exact (reserve_preserves_content hw _).2.2

/-! ## `append` -/

/-- **append_content**: with spare capacity `append` adds the element at the logical end -/
theorem append_content {w : TWin} (hw : WF w) (h : w.size < w.cap) (v : Int) (t : Time) :
    (w.append v t).content = w.content ++ [(v, t)] ∧ WF (w.append v t) ∧ (w.append v t).size = w.size + 1 := by
  have hc : w.cap ≠ 0 := by omega
  have hh : w.head < w.cap := by have := hw.head_ok; omega
  unfold TWin.append
  rw [if_neg hc, if_neg (by omega)]
  refine ⟨?_, ⟨?_, ?_⟩, rfl⟩
  · rw [content_eq_seg, content_eq_seg]
    show seg (w.buf.set ((w.head + w.size) % w.cap) (v, t)) w.head (w.size + 1) = _
    unfold seg
    rw [List.range_succ, List.map_append, List.length_set]
    congr 1
    · apply List.map_congr_left
      intro i hi
      have hi' : i < w.size := by simpa using hi
      have hne : (w.head + w.size) % w.cap ≠ (w.head + i) % w.buf.length := by
        intro e
        have := phys_inj (c := w.cap) hh (by omega) (by omega) e
        omega
      rw [List.getD_eq_getElem?_getD, List.getElem?_set_ne hne, ← List.getD_eq_getElem?_getD]
    · have hlt : (w.head + w.size) % w.cap < w.buf.length := Nat.mod_lt _ (by omega)
      simp only [List.map_cons, List.map_nil]
      rw [List.getD_eq_getElem?_getD]
      show [((w.buf.set ((w.head + w.size) % w.cap) (v, t))[(w.head + w.size) % w.cap]?).getD dflt] = _
      rw [List.getElem?_set_self hlt]
      rfl
  · show w.size + 1 ≤ (w.buf.set _ _).length
    rw [List.length_set]; exact h
  · show w.head < (w.buf.set _ _).length ∨ _
    rw [List.length_set]; exact Or.inl hh

/-! ## `TimeTSWindowStorage::push` -/

/-- the first stage of `push` (stash the removed value) does not touch the buffer -/
def TWin.stash (w : TWin) (t : Time) : TWin :=
  if w.dropped t > 0 then { w with evicted := some (w.elemAt (w.dropped t - 1)).1, evictedTime := t } else w

theorem pushRaw_eq (w : TWin) (v : Int) (t : Time) :
    w.pushRaw v t = (((w.stash t).prune t).ensureCapacity (((w.stash t).prune t).size + 1)).append v t := rfl

theorem stash_content (w : TWin) (t : Time) : (w.stash t).content = w.content ∧ (w.stash t).span = w.span := by
  unfold TWin.stash; split <;> exact ⟨rfl, rfl⟩

theorem stash_wf {w : TWin} (hw : WF w) (t : Time) : WF (w.stash t) := by
  unfold TWin.stash; split
  · exact ⟨hw.size_le, hw.head_ok⟩
  · exact hw

/-- **push_content**: after a push the logical content is the old content without its maximal expired prefix,
    followed by the pushed element; the representation invariant is kept -/
theorem push_content {w : TWin} (hw : WF w) (v : Int) (t : Time) :
    (w.pushRaw v t).content = w.content.dropWhile (expired w.span t) ++ [(v, t)] ∧ WF (w.pushRaw v t) := by
  rw [pushRaw_eq]
  have h1 := stash_wf hw t
  have h2 := prune_wf h1 t
  obtain ⟨e3, h3, s3, c3⟩ := ensure_preserves_content h2 (((w.stash t).prune t).size + 1)
  obtain ⟨e4, h4, _⟩ := append_content h3 (by omega) v t
  refine ⟨?_, h4⟩
  rw [e4, e3, prune_content h1 t, (stash_content w t).1, (stash_content w t).2]

theorem takeWhile_last (p : Elem → Bool) :
    ∀ l : List Elem, 0 < (l.takeWhile p).length →
      (l.takeWhile p).getLast? = some (l.getD ((l.takeWhile p).length - 1) dflt) := by
  intro l
  induction l with
  | nil => simp
  | cons x xs ih =>
    intro h
    rw [List.takeWhile_cons] at h ⊢
    by_cases hp : p x = true
    · simp only [hp, if_true] at h ⊢
      by_cases hx : (xs.takeWhile p).length = 0
      · have : xs.takeWhile p = [] := List.eq_nil_of_length_eq_zero hx
        simp [this]
      · rw [List.getLast?_cons_of_ne_nil (by intro e; simp [e] at hx)] <;> try exact x
        rw [ih (by omega)]
        have : (x :: xs.takeWhile p).length - 1 = ((xs.takeWhile p).length - 1) + 1 := by simp; omega
        rw [this, List.getD_cons_succ]
    · simp [hp] at h

theorem evicted_prune (w : TWin) (t : Time) :
    (w.prune t).evicted = w.evicted ∧ (w.prune t).evictedTime = w.evictedTime := ⟨rfl, rfl⟩

theorem evicted_ensure (w : TWin) (r : Nat) :
    (w.ensureCapacity r).evicted = w.evicted ∧ (w.ensureCapacity r).evictedTime = w.evictedTime := by
  unfold TWin.ensureCapacity
  split
  · exact ⟨rfl, rfl⟩
  · generalize (if w.cap = 0 then max r 4 else max r (w.cap * 2)) = n
    unfold TWin.reserveExact
    split <;> exact ⟨rfl, rfl⟩

theorem evicted_append (w : TWin) (v : Int) (t : Time) :
    (w.append v t).evicted = w.evicted ∧ (w.append v t).evictedTime = w.evictedTime := by
  unfold TWin.append
  split
  · exact ⟨rfl, rfl⟩
  · split <;> exact ⟨rfl, rfl⟩

/-- **push_removed**: the removed value a push records is the LAST element of the expired prefix, stamped with the push
    time; when nothing expired the previous record is left alone -/
theorem push_removed (w : TWin) (v : Int) (t : Time) :
    let gone := w.content.takeWhile (expired w.span t)
    (gone = [] → (w.pushRaw v t).evicted = w.evicted ∧ (w.pushRaw v t).evictedTime = w.evictedTime) ∧
    (gone ≠ [] → (w.pushRaw v t).evicted = gone.getLast?.map (·.1) ∧ (w.pushRaw v t).evictedTime = t) := by
  intro gone
  rw [pushRaw_eq, (evicted_append _ v t).1, (evicted_append _ v t).2, (evicted_ensure _ _).1, (evicted_ensure _ _).2,
    (evicted_prune _ t).1, (evicted_prune _ t).2]
  have hd := dropped_eq w t
  unfold TWin.stash
  constructor
  · intro hg
    have : w.dropped t = 0 := by rw [hd]; show gone.length = 0; simp [hg]
    simp [this]
  · intro hg
    have hpos : 0 < gone.length := List.length_pos_iff.mpr hg
    have hdp : w.dropped t > 0 := by rw [hd]; exact hpos
    rw [if_pos hdp]
    refine ⟨?_, rfl⟩
    show some (w.elemAt (w.dropped t - 1)).1 = _
    have hle : gone.length ≤ w.size := by
      have := (List.takeWhile_prefix (expired w.span t) (l := w.content)).length_le
      simpa using this
    rw [takeWhile_last _ _ hpos, hd, ← content_getD w (by show gone.length - 1 < w.size; omega)]
    rfl

/-! ## frame: what the stages of `push` leave alone -/

theorem params_reserve (w : TWin) (n : Nat) :
    (w.reserveExact n).span = w.span ∧ (w.reserveExact n).minSpan = w.minSpan ∧ (w.reserveExact n).lmt = w.lmt := by
  unfold TWin.reserveExact; split <;> exact ⟨rfl, rfl, rfl⟩

theorem params_pushRaw (w : TWin) (v : Int) (t : Time) :
    (w.pushRaw v t).span = w.span ∧ (w.pushRaw v t).minSpan = w.minSpan ∧ (w.pushRaw v t).lmt = w.lmt := by
  have hs : (w.stash t).span = w.span ∧ (w.stash t).minSpan = w.minSpan ∧ (w.stash t).lmt = w.lmt := by
    unfold TWin.stash; split <;> exact ⟨rfl, rfl, rfl⟩
  have he : ∀ (x : TWin) (r : Nat), (x.ensureCapacity r).span = x.span ∧ (x.ensureCapacity r).minSpan = x.minSpan
      ∧ (x.ensureCapacity r).lmt = x.lmt := by
    intro x r; unfold TWin.ensureCapacity; split
    · exact ⟨rfl, rfl, rfl⟩
    · exact params_reserve x _
  have ha : ∀ (x : TWin), (x.append v t).span = x.span ∧ (x.append v t).minSpan = x.minSpan
      ∧ (x.append v t).lmt = x.lmt := by
    intro x; unfold TWin.append; split
    · exact ⟨rfl, rfl, rfl⟩
    · split <;> exact ⟨rfl, rfl, rfl⟩
  rw [pushRaw_eq]
  obtain ⟨a1, a2, a3⟩ := ha (((w.stash t).prune t).ensureCapacity (((w.stash t).prune t).size + 1))
  obtain ⟨e1, e2, e3⟩ := he ((w.stash t).prune t) (((w.stash t).prune t).size + 1)
  obtain ⟨s1, s2, s3⟩ := hs
  refine ⟨?_, ?_, ?_⟩
  · rw [a1, e1]; exact s1
  · rw [a2, e2]; exact s2
  · rw [a3, e3]; exact s3

/-! ## sorted lists: the expired prefix is the set of expired elements -/

/-- times ascend (not necessarily strictly) along the list -/
def Asc (l : List Elem) : Prop := l.Pairwise (fun a b => a.2 ≤ b.2)

theorem expired_mono {span t : Nat} {a b : Elem} (h : a.2 ≤ b.2) (hb : expired span t b = true) :
    expired span t a = true := by
  unfold expired at *
  have := of_decide_eq_true hb
  exact decide_eq_true (by omega)

theorem dropWhile_eq_filter (span t : Nat) :
    ∀ {l : List Elem}, Asc l → l.dropWhile (expired span t) = l.filter (fun e => !expired span t e) := by
  intro l
  induction l with
  | nil => intro _; rfl
  | cons x xs ih =>
    intro h
    obtain ⟨hx, hxs⟩ := List.pairwise_cons.mp h
    rw [List.dropWhile_cons, List.filter_cons]
    by_cases hp : expired span t x = true
    · simp only [hp, if_true, Bool.not_true, Bool.false_eq_true, if_false]; exact ih hxs
    · have hp' : expired span t x = false := by simpa using hp
      simp only [hp', Bool.false_eq_true, if_false, Bool.not_false, if_true]
      congr 1
      symm
      apply List.filter_eq_self.mpr
      intro y hy
      have : ¬ expired span t y = true := fun e => hp (expired_mono (hx y hy) e)
      simpa using this

theorem takeWhile_eq_filter (span t : Nat) :
    ∀ {l : List Elem}, Asc l → l.takeWhile (expired span t) = l.filter (expired span t) := by
  intro l
  induction l with
  | nil => intro _; rfl
  | cons x xs ih =>
    intro h
    obtain ⟨hx, hxs⟩ := List.pairwise_cons.mp h
    rw [List.takeWhile_cons, List.filter_cons]
    by_cases hp : expired span t x = true
    · simp only [hp, if_true]; rw [ih hxs]
    · have hp' : expired span t x = false := by simpa using hp
      simp only [hp', Bool.false_eq_true, if_false]
      symm
      apply List.filter_eq_nil_iff.mpr
      intro y hy e
      exact hp (expired_mono (hx y hy) e)

/-! ## ghost history and the abstract window -/

/-- what an accepted operation does (`TWin.step` without the refusals) -/
def TWin.accept (w : TWin) : TWOp → TWin
  | .push t v => { (w.pushRaw v t) with lmt := recMod w.lmt t }
  | .clear t => { (w.clearRaw t) with lmt := recMod w.lmt t }
  | .clearPush t v =>
    let w1 := { (w.clearRaw t) with lmt := recMod w.lmt t }
    { (w1.pushRaw v t) with lmt := recMod w1.lmt t }

theorem step_cases (w : TWin) (o : TWOp) :
    (o.time = 0 ∧ w.step o = .error .invalidArg) ∨ (o.time ≠ 0 ∧ w.lmt = o.time ∧ w.step o = .error .logic) ∨
    (o.time ≠ 0 ∧ w.lmt ≠ o.time ∧ w.step o = .ok (w.accept o)) := by
  cases o with
  | push t v =>
    simp only [TWOp.time, TWin.step, TWin.accept]
    by_cases h0 : t = 0
    · left; simp [h0]
    · by_cases h1 : w.lmt = t
      · right; left; simp [h0, h1]
      · right; right; simp [h0, h1]
  | clear t =>
    simp only [TWOp.time, TWin.step, TWin.accept]
    by_cases h0 : t = 0
    · left; simp [h0]
    · by_cases h1 : w.lmt = t
      · right; left; simp [h0, h1]
      · right; right; simp [h0, h1]
  | clearPush t v =>
    simp only [TWOp.time, TWin.step, TWin.accept]
    by_cases h0 : t = 0
    · left; simp [h0]
    · by_cases h1 : w.lmt = t
      · right; left; simp [h0, h1]
      · right; right; simp [h0, h1]

/-- window + ghost: the accepted pushes since the last clear, in push order -/
structure GTW where
  w : TWin
  hist : List Elem

def GTW.step (g : GTW) (o : TWOp) : GTW :=
  match g.w.step o with
  | .error _ => g
  | .ok w' => ⟨w', match o with
                   | .push t v => g.hist ++ [(v, t)]
                   | .clear _ => []
                   | .clearPush t v => [(v, t)]⟩

def GTW.run (span minSpan : Nat) (ops : List TWOp) : GTW := ops.foldl GTW.step ⟨TWin.init span minSpan, []⟩

/-- **GTW.run_w**: erasing the ghost history gives the plain model run -/
theorem GTW.run_w (span minSpan : Nat) (ops : List TWOp) :
    (GTW.run span minSpan ops).w = ops.foldl TWin.stepD (TWin.init span minSpan) := by
  have : ∀ g : GTW, (ops.foldl GTW.step g).w = ops.foldl TWin.stepD g.w := by
    induction ops with
    | nil => intro g; rfl
    | cons o os ih =>
      intro g
      rw [List.foldl_cons, List.foldl_cons, ih]
      congr 1
      unfold GTW.step TWin.stepD
      split <;> simp_all
  exact this _

/-- the SPEC: the pushed `(value, time)` pairs whose time lies within `span` of the latest push, in push order -/
def inSpan (span : Nat) (hist : List Elem) : List Elem :=
  match hist.getLast? with
  | none => []
  | some l => hist.filter (fun e => decide (l.2 ≤ e.2 + span))

/-- the operation times are non-decreasing (the engine's clock) -/
def Mono (ops : List TWOp) : Prop := (ops.map TWOp.time).Pairwise (· ≤ ·)

instance (ops : List TWOp) : Decidable (Mono ops) := by unfold Mono; infer_instance

/-- the refinement relation between the cyclic buffer and the ghost history -/
structure Rel (span minSpan : Nat) (g : GTW) : Prop where
  wf : WF g.w
  span_eq : g.w.span = span
  min_eq : g.w.minSpan = minSpan
  asc : Asc g.hist
  le_lmt : ∀ e ∈ g.hist, e.2 ≤ g.w.lmt
  last_lmt : ∀ l, g.hist.getLast? = some l → l.2 = g.w.lmt
  content_eq : g.w.content = g.hist.filter (fun e => decide (g.w.lmt ≤ e.2 + span))
  evt_le : g.w.evictedTime ≤ g.w.lmt

theorem Rel.inSpan_eq {span minSpan : Nat} {g : GTW} (h : Rel span minSpan g) :
    inSpan span g.hist = g.w.content := by
  rw [h.content_eq]
  unfold inSpan
  cases hl : g.hist.getLast? with
  | none => rw [List.getLast?_eq_none_iff.mp hl]; rfl
  | some l => simp only [h.last_lmt l hl]

theorem rel_init (span minSpan : Nat) : Rel span minSpan ⟨TWin.init span minSpan, []⟩ where
  wf := ⟨Nat.le_refl _, Or.inr rfl⟩
  span_eq := rfl
  min_eq := rfl
  asc := List.Pairwise.nil
  le_lmt := by intro e he; cases he
  last_lmt := by intro l hl; cases hl
  content_eq := rfl
  evt_le := Nat.le_refl _

theorem content_with_lmt (w : TWin) (l : Nat) : ({ w with lmt := l } : TWin).content = w.content := rfl

theorem wf_with_lmt {w : TWin} (h : WF w) (l : Nat) : WF ({ w with lmt := l } : TWin) := ⟨h.size_le, h.head_ok⟩

theorem clearRaw_wf {w : TWin} (_h : WF w) (t : Time) : WF (w.clearRaw t) :=
  ⟨Nat.zero_le _, Or.inr rfl⟩

theorem clearRaw_content (w : TWin) (t : Time) : (w.clearRaw t).content = [] := rfl

/-- a push at a time later than everything in the (ascending) history, in terms of the history -/
theorem push_hist {span : Nat} {w : TWin} {hist : List Elem} (hw : WF w) (hs : w.span = span) (hasc : Asc hist)
    {lmt : Nat} (hc : w.content = hist.filter (fun e => decide (lmt ≤ e.2 + span))) (v : Int) {t : Time} (hlt : lmt ≤ t) :
    (w.pushRaw v t).content = (hist ++ [(v, t)]).filter (fun e => decide (t ≤ e.2 + span)) := by
  have hca : Asc w.content := by rw [hc]; exact List.Pairwise.filter _ hasc
  rw [(push_content hw v t).1, hs, dropWhile_eq_filter span t hca, hc, List.filter_filter, List.filter_append]
  congr 1
  · apply List.filter_congr
    intro e _
    unfold expired
    by_cases h1 : t ≤ e.2 + span
    · have h2 : lmt ≤ e.2 + span := by omega
      have h3 : ¬ (e.2 + span < t) := by omega
      simp [h1, h2, h3]
    · have h3 : e.2 + span < t := by omega
      simp [h1, h3]
  · simp

theorem Rel.step {span minSpan : Nat} {g : GTW} (h : Rel span minSpan g) (o : TWOp) (hle : g.w.lmt ≤ o.time) :
    Rel span minSpan (g.step o) ∧ (g.step o).w.lmt ≤ o.time := by
  unfold GTW.step
  rcases step_cases g.w o with ⟨_, e⟩ | ⟨_, _, e⟩ | ⟨h0, h1, e⟩
  · rw [e]; exact ⟨h, hle⟩
  · rw [e]; exact ⟨h, hle⟩
  · rw [e]
    have hlt : g.w.lmt < o.time := by omega
    have hrm : recMod g.w.lmt o.time = o.time := by unfold recMod; rw [if_neg (by omega)]
    cases o with
    | push t v =>
      simp only [TWOp.time] at h0 h1 hlt hrm hle
      obtain ⟨p1, p2, p3⟩ := params_pushRaw g.w v t
      obtain ⟨c1, c2⟩ := push_content h.wf v t
      have hev := push_removed g.w v t
      simp only [TWin.accept, hrm]
      refine ⟨⟨wf_with_lmt c2 _, ?_, ?_, ?_, ?_, ?_, ?_, ?_⟩, Nat.le_refl _⟩
      · show (g.w.pushRaw v t).span = span; rw [p1]; exact h.span_eq
      · show (g.w.pushRaw v t).minSpan = minSpan; rw [p2]; exact h.min_eq
      · show Asc (g.hist ++ [(v, t)])
        apply List.pairwise_append.mpr
        refine ⟨h.asc, List.pairwise_singleton _ _, ?_⟩
        intro a ha b hb
        have := h.le_lmt a ha
        simp only [List.mem_singleton] at hb
        subst hb
        show a.2 ≤ t
        omega
      · intro e he
        show e.2 ≤ t
        rcases List.mem_append.mp he with he | he
        · have := h.le_lmt e he; omega
        · simp only [List.mem_singleton] at he; subst he; exact Nat.le_refl _
      · intro l hl
        show l.2 = t
        rw [List.getLast?_concat] at hl
        simp at hl
        rw [← hl]
      · show (g.w.pushRaw v t).content = _
        exact push_hist h.wf h.span_eq h.asc h.content_eq v hle
      · show (g.w.pushRaw v t).evictedTime ≤ t
        by_cases hg : g.w.content.takeWhile (expired g.w.span t) = []
        · rw [(hev.1 hg).2]; have := h.evt_le; omega
        · rw [(hev.2 hg).2]; exact Nat.le_refl _
    | clear t =>
      simp only [TWOp.time] at h0 h1 hlt hrm hle
      simp only [TWin.accept, hrm]
      refine ⟨⟨wf_with_lmt (clearRaw_wf h.wf t) _, h.span_eq, h.min_eq, List.Pairwise.nil, ?_, ?_, rfl, Nat.le_refl _⟩,
        Nat.le_refl _⟩
      · intro e he; cases he
      · intro l hl; cases hl
    | clearPush t v =>
      simp only [TWOp.time] at h0 h1 hlt hrm hle
      have hw1 : WF ({ (g.w.clearRaw t) with lmt := t } : TWin) := wf_with_lmt (clearRaw_wf h.wf t) _
      obtain ⟨p1, p2, p3⟩ := params_pushRaw ({ (g.w.clearRaw t) with lmt := t } : TWin) v t
      obtain ⟨c1, c2⟩ := push_content hw1 v t
      have hev := push_removed ({ (g.w.clearRaw t) with lmt := t } : TWin) v t
      have hrm2 : recMod t t = t := by unfold recMod; rw [if_pos (Nat.le_refl _)]
      simp only [TWin.accept, hrm, hrm2]
      refine ⟨⟨wf_with_lmt c2 _, ?_, ?_, List.pairwise_singleton _ _, ?_, ?_, ?_, ?_⟩, Nat.le_refl _⟩
      · show (TWin.pushRaw _ v t).span = span; rw [p1]; exact h.span_eq
      · show (TWin.pushRaw _ v t).minSpan = minSpan; rw [p2]; exact h.min_eq
      · intro e he; simp only [List.mem_singleton] at he; subst he; exact Nat.le_refl _
      · intro l hl; simp at hl; rw [← hl]
      · show (TWin.pushRaw _ v t).content = _
        rw [c1]
        show ([] : List Elem).dropWhile _ ++ [(v, t)] = _
        simp
      · show (TWin.pushRaw _ v t).evictedTime ≤ t
        have hg : ({ (g.w.clearRaw t) with lmt := t } : TWin).content.takeWhile
            (expired ({ (g.w.clearRaw t) with lmt := t } : TWin).span t) = [] := rfl
        rw [(hev.1 hg).2]
        exact Nat.le_refl _

theorem rel_foldl {span minSpan : Nat} :
    ∀ (ops : List TWOp) (g : GTW), Rel span minSpan g → Mono ops → (∀ o ∈ ops, g.w.lmt ≤ o.time) →
      Rel span minSpan (ops.foldl GTW.step g) := by
  intro ops
  induction ops with
  | nil => intro g h _ _; exact h
  | cons o os ih =>
    intro g h hm hl
    have hm' : ((o :: os).map TWOp.time).Pairwise (· ≤ ·) := hm
    rw [List.map_cons, List.pairwise_cons] at hm'
    obtain ⟨hm1, hm2⟩ := hm'
    obtain ⟨r1, r2⟩ := h.step o (hl o (List.mem_cons_self ..))
    rw [List.foldl_cons]
    apply ih _ r1 hm2
    intro o' ho'
    have := hm1 o'.time (List.mem_map.mpr ⟨o', ho', rfl⟩)
    omega

theorem rel_run {span minSpan : Nat} {ops : List TWOp} (hm : Mono ops) :
    Rel span minSpan (GTW.run span minSpan ops) :=
  rel_foldl ops _ (rel_init span minSpan) hm (fun _ _ => Nat.zero_le _)

/-! ## the representation invariant and the capacity, for ANY operation list (also decreasing times) -/

/-- the capacity is 0 (nothing allocated yet) or `4 * 2^k` -/
def CapShape (w : TWin) : Prop := w.cap = 0 ∨ ∃ k, w.cap = 4 * 2 ^ k

theorem append_cap (w : TWin) (v : Int) (t : Time) : (w.append v t).cap = w.cap := by
  unfold TWin.append
  split
  · rfl
  · split
    · rfl
    · simp [TWin.cap]

theorem stash_prune_cap (w : TWin) (t : Time) : ((w.stash t).prune t).cap = w.cap := by
  show ((w.stash t).prune t).buf.length = w.buf.length
  rw [prune_buf]
  unfold TWin.stash; split <;> rfl

theorem ensure_shape {w : TWin} (hw : WF w) (hs : CapShape w) : CapShape (w.ensureCapacity (w.size + 1)) := by
  have := hw.size_le
  unfold TWin.ensureCapacity
  split
  · exact hs
  · rename_i h
    unfold CapShape at *
    split
    · rename_i h0
      rw [reserve_cap hw (by omega)]
      right; exact ⟨0, by omega⟩
    · rename_i h0
      rw [reserve_cap hw (by omega)]
      rcases hs with h1 | ⟨k, hk⟩
      · exact absurd h1 h0
      · right; refine ⟨k + 1, ?_⟩
        rw [Nat.pow_succ]; omega

theorem pushRaw_shape {w : TWin} (hw : WF w) (hs : CapShape w) (v : Int) (t : Time) : CapShape (w.pushRaw v t) := by
  rw [pushRaw_eq]
  unfold CapShape
  rw [append_cap]
  have h2 := prune_wf (stash_wf hw t) t
  have hs2 : CapShape ((w.stash t).prune t) := by unfold CapShape; rw [stash_prune_cap]; exact hs
  exact ensure_shape h2 hs2

theorem accept_wf {w : TWin} (hw : WF w) (hs : CapShape w) (o : TWOp) : WF (w.accept o) ∧ CapShape (w.accept o) := by
  cases o with
  | push t v => exact ⟨wf_with_lmt (push_content hw v t).2 _, pushRaw_shape hw hs v t⟩
  | clear t => exact ⟨wf_with_lmt (clearRaw_wf hw t) _, hs⟩
  | clearPush t v =>
    have hw1 : WF ({ (w.clearRaw t) with lmt := recMod w.lmt t } : TWin) := wf_with_lmt (clearRaw_wf hw t) _
    exact ⟨wf_with_lmt (push_content hw1 v t).2 _, pushRaw_shape hw1 hs v t⟩

theorem stepD_wf {w : TWin} (hw : WF w) (hs : CapShape w) (o : TWOp) : WF (w.stepD o) ∧ CapShape (w.stepD o) := by
  unfold TWin.stepD
  rcases step_cases w o with ⟨_, e⟩ | ⟨_, _, e⟩ | ⟨_, _, e⟩ <;> rw [e]
  · exact ⟨hw, hs⟩
  · exact ⟨hw, hs⟩
  · exact accept_wf hw hs o

theorem wf_foldl : ∀ (ops : List TWOp) (w : TWin), WF w → CapShape w →
    WF (ops.foldl TWin.stepD w) ∧ CapShape (ops.foldl TWin.stepD w) := by
  intro ops
  induction ops with
  | nil => intro w h1 h2; exact ⟨h1, h2⟩
  | cons o os ih =>
    intro w h1 h2
    rw [List.foldl_cons]
    exact ih _ (stepD_wf h1 h2 o).1 (stepD_wf h1 h2 o).2

/-- **wf_reachable**: after ANY operation list (any times, any refusals) the buffer is well formed: `size ≤ capacity`
    and `head` addresses a slot of the buffer -/
theorem wf_reachable (span minSpan : Nat) (ops : List TWOp) : WF (ops.foldl TWin.stepD (TWin.init span minSpan)) :=
  (wf_foldl ops _ ⟨Nat.le_refl _, Or.inr rfl⟩ (Or.inl rfl)).1

/-- **capacity_shape**: after ANY operation list the capacity is 0 or `4 * 2^k` (first allocation 4, then doubling) -/
theorem capacity_shape (span minSpan : Nat) (ops : List TWOp) :
    CapShape (ops.foldl TWin.stepD (TWin.init span minSpan)) :=
  (wf_foldl ops _ ⟨Nat.le_refl _, Or.inr rfl⟩ (Or.inl rfl)).2

/-! ## the property theorems -/

/-- **window_refines_spec**: for ALL operation lists with non-decreasing times, the logical content of the cyclic
    buffer (what `at(i)` / `time_at(i)` / `value()` show) is the list of pushes since the last clear whose time lies
    within `span` of the latest push, in push order -/
theorem window_refines_spec (span minSpan : Nat) (ops : List TWOp) (hm : Mono ops) :
    (GTW.run span minSpan ops).w.content = inSpan span (GTW.run span minSpan ops).hist :=
  (rel_run hm).inSpan_eq.symm

theorem content_head_last (w : TWin) (h : w.size ≠ 0) :
    w.content.head? = some (w.elemAt 0) ∧ w.content.getLast? = some (w.elemAt (w.size - 1)) := by
  obtain ⟨n, hn⟩ : ∃ n, w.size = n + 1 := ⟨w.size - 1, by omega⟩
  constructor
  · unfold TWin.content; rw [hn, List.range_succ_eq_map]; rfl
  · unfold TWin.content; rw [hn, List.range_succ, List.map_append]
    simp

theorem allValid_iff (w : TWin) :
    w.allValid = true ↔ w.lmt ≠ 0 ∧ ∃ a b, w.content.head? = some a ∧ w.content.getLast? = some b ∧
      (w.minSpan = 0 ∨ a.2 + w.minSpan ≤ b.2) := by
  unfold TWin.allValid
  by_cases hs : w.size = 0
  · have : w.content = [] := by unfold TWin.content; rw [hs]; rfl
    simp [hs, this]
  · obtain ⟨h1, h2⟩ := content_head_last w hs
    rw [h1, h2]
    simp [hs]

/-- **window_all_valid**: at every reachable state `all_valid` says: the window ticked, the spec list is not empty and
    (no minimum span, or the spec list spans at least the minimum) -/
theorem window_all_valid (span minSpan : Nat) (ops : List TWOp) (hm : Mono ops) :
    let g := GTW.run span minSpan ops
    g.w.allValid = true ↔ g.w.lmt ≠ 0 ∧ ∃ a b, (inSpan span g.hist).head? = some a ∧
      (inSpan span g.hist).getLast? = some b ∧ (minSpan = 0 ∨ a.2 + minSpan ≤ b.2) := by
  intro g
  have h : Rel span minSpan g := rel_run hm
  rw [allValid_iff, h.inSpan_eq, h.min_eq]

/-- **window_size**: `size()` is the length of the spec list, it fits the capacity, and `first_modified_time()` is the
    time of the first element of the spec list (`MIN_DT` for an empty window) -/
theorem window_size (span minSpan : Nat) (ops : List TWOp) (hm : Mono ops) :
    let g := GTW.run span minSpan ops
    g.w.size = (inSpan span g.hist).length ∧ g.w.size ≤ g.w.cap ∧
      g.w.firstModifiedTime = ((inSpan span g.hist).head?.map (·.2)).getD 0 := by
  intro g
  have h : Rel span minSpan g := rel_run hm
  refine ⟨by rw [h.inSpan_eq]; simp, h.wf.size_le, ?_⟩
  rw [h.inSpan_eq]
  unfold TWin.firstModifiedTime
  by_cases hs : g.w.size = 0
  · have : g.w.content = [] := by unfold TWin.content; rw [hs]; rfl
    simp [hs, this]
  · rw [(content_head_last g.w hs).1]; simp [hs]

/-- **window_tick_delta**: at every reachable state, a push of `v` at a later time `t`:
    * the new content is the old content restricted to `time + span ≥ t`, followed by `(v, t)`;
    * the old content is `left ++ kept` (the elements that left are exactly the expired ones, and they are a prefix);
    * `removed_value(t)` is the LAST element that left, and there is none when nothing left;
    * `delta_value(t)` is `v`. -/
theorem window_tick_delta (span minSpan : Nat) (ops : List TWOp) (hm : Mono ops) (t : Time) (v : Int) :
    let g := GTW.run span minSpan ops
    g.w.lmt < t →
    let w' := g.w.stepD (.push t v)
    let left := g.w.content.filter (fun e => decide (e.2 + span < t))
    let kept := g.w.content.filter (fun e => decide (t ≤ e.2 + span))
    w'.content = kept ++ [(v, t)] ∧ g.w.content = left ++ kept ∧
      w'.removedAt t = left.getLast?.map (·.1) ∧ w'.deltaAt t = some v ∧ w'.lmt = t := by
  intro g hlt w' left kept
  have h : Rel span minSpan g := rel_run hm
  have hw' : w' = g.w.accept (.push t v) := by
    show g.w.stepD (.push t v) = _
    unfold TWin.stepD
    rcases step_cases g.w (.push t v) with ⟨e0, _⟩ | ⟨_, e1, _⟩ | ⟨_, _, e⟩
    · simp only [TWOp.time] at e0; omega
    · simp only [TWOp.time] at e1; omega
    · rw [e]
  have hrm : recMod g.w.lmt t = t := by unfold recMod; rw [if_neg (by omega)]
  have hasc : Asc g.w.content := by rw [h.content_eq]; exact List.Pairwise.filter _ h.asc
  have hdrop : g.w.content.dropWhile (expired g.w.span t) = kept := by
    rw [dropWhile_eq_filter _ _ hasc, h.span_eq]
    apply List.filter_congr
    intro e _
    unfold expired
    by_cases h1 : t ≤ e.2 + span
    · have : ¬ (e.2 + span < t) := by omega
      simp [h1, this]
    · have : e.2 + span < t := by omega
      simp [h1, this]
  have htake : g.w.content.takeWhile (expired g.w.span t) = left := by
    rw [takeWhile_eq_filter _ _ hasc, h.span_eq]; rfl
  have hc : w'.content = kept ++ [(v, t)] := by
    rw [hw']; show (g.w.pushRaw v t).content = _
    rw [(push_content h.wf v t).1, hdrop]
  have hsize : w'.size = kept.length + 1 := by
    have := content_length w'; rw [hc] at this; simp at this; omega
  have hlmt : w'.lmt = t := by rw [hw']; show recMod g.w.lmt t = t; exact hrm
  refine ⟨hc, ?_, ?_, ?_, hlmt⟩
  · rw [← hdrop, ← htake]; exact (List.takeWhile_append_dropWhile).symm
  · have hev := push_removed g.w v t
    have he1 : w'.evicted = (g.w.pushRaw v t).evicted := by rw [hw']; rfl
    have he2 : w'.evictedTime = (g.w.pushRaw v t).evictedTime := by rw [hw']; rfl
    unfold TWin.removedAt
    rw [he1, he2]
    by_cases hg : g.w.content.takeWhile (expired g.w.span t) = []
    · rw [(hev.1 hg).2]
      have := h.evt_le
      have hne : ¬ (g.w.evictedTime = t) := by omega
      rw [← htake, hg]
      simp [hne]
    · rw [(hev.2 hg).1, (hev.2 hg).2, htake]
      have : t ≠ 0 := by omega
      simp [this]
  · unfold TWin.deltaAt TWin.modifiedAt
    have h0 : t ≠ 0 := by omega
    have hlast : w'.elemAt kept.length = (v, t) := by
      rw [← content_getD w' (by omega), hc, List.getD_eq_getElem?_getD]
      simp
    simp [hlmt, h0, hsize, hlast]

/-! ## non-vacuity: a wrapped buffer that grows -/

/-- span 100; pushes at 1, 2, 51, 52 fill the first buffer (4 slots); 103 expires two of them (head moves to slot 2);
    104 refills the buffer (the new element goes to the physical slot 1) -/
def wrappedOps : List TWOp :=
  [.push 1 1, .push 2 2, .push 51 3, .push 52 4, .push 103 5, .push 104 6]

/-- the window before the growing push: full, wrapped (`head = 2`), physical order ≠ logical order -/
example :
    let w := (GTW.run 100 0 wrappedOps).w
    w.cap = 4 ∧ w.size = 4 ∧ w.head = 2 ∧ w.buf = [(5, 103), (6, 104), (3, 51), (4, 52)]
      ∧ w.content = [(3, 51), (4, 52), (5, 103), (6, 104)] ∧ w.removedAt 103 = some 2 ∧ w.removedAt 104 = none
      ∧ WF w := by
  refine ⟨by decide, by decide, by decide, by decide, by decide, by decide, by decide, ⟨by decide, by decide⟩⟩

/-- one more push within the span: the buffer grows 4 → 8 WHILE WRAPPED and the logical order is kept -/
example :
    let w := (GTW.run 100 0 (wrappedOps ++ [.push 105 7])).w
    w.cap = 8 ∧ w.head = 0 ∧ w.content = [(3, 51), (4, 52), (5, 103), (6, 104), (7, 105)] ∧ w.allValid = true := by
  refine ⟨by decide, by decide, by decide, by decide⟩

example : Mono (wrappedOps ++ [.push 105 7]) := by decide

/-- later the two old values leave together: the removed value is the LAST of them -/
example :
    let w := (GTW.run 100 0 (wrappedOps ++ [.push 105 7, .push 160 8])).w
    w.content = [(5, 103), (6, 104), (7, 105), (8, 160)] ∧ w.removedAt 160 = some 4 ∧ w.deltaAt 160 = some 8 := by
  refine ⟨by decide, by decide, by decide⟩

/-- the copy in PHYSICAL slot order (seeded defect s27): new slot `i` = old slot `i` -/
def TWin.reservePhysical (w : TWin) (newCap : Nat) : TWin :=
  if newCap ≤ w.cap then w
  else { w with buf := (List.range w.size).map (fun i => w.buf.getD i dflt) ++ List.replicate (newCap - w.size) dflt
                head := 0 }

/-- `reserve_preserves_content` fails for the physical copy on a wrapped window (and holds for `reserveExact`) -/
theorem reservePhysical_counterexample :
    let w := (GTW.run 100 0 wrappedOps).w
    WF w ∧ (w.reservePhysical 8).content = [(5, 103), (6, 104), (3, 51), (4, 52)]
      ∧ (w.reservePhysical 8).content ≠ w.content ∧ (w.reserveExact 8).content = w.content := by
  refine ⟨⟨by decide, by decide⟩, by decide, by decide, by decide⟩

/-- bursts separated by a gap: the window empties (everything expires), `head` is reset to 0 -/
example :
    let w := (GTW.run 10 3 [.push 1 1, .push 2 2, .push 3 3, .push 50 4]).w
    w.content = [(4, 50)] ∧ w.head = 0 ∧ w.removedAt 50 = some 3 ∧ w.allValid = false := by
  refine ⟨by decide, by decide, by decide, by decide⟩

end HgVerif.TimeWindow



