import HgVerif.Lemmas.Sched
import HgVerif.Props.C01Rank
import HgVerif.Model.Tie
/-!
# C01, dynamic half — at most once per cycle, in index order, for arbitrary node behaviours

The static half (`Props/C01Rank.lean`) shows that the rank pass puts every producer at a smaller
index than its consumers (`kahn_edges_forward`) and rejects cyclic wirings.  Here: the scan of
`evaluate_impl` (`Sched.scanFrom` / `Sched.cycle`) evaluates node indices in **strictly increasing
order**, whatever the nodes do (schedule anything anywhere, fail, …) — so a node runs at most once
per cycle (`cycle_at_most_once`) and, producers having smaller indices, never before a producer that
also runs in that cycle (`producer_before_consumer`).  A nested child graph is scanned inside the
single turn of its parent node (it *is* that node's behaviour), so the statement holds at every
nesting depth by instantiating `β` with the nested node's behaviour.
-/
namespace HgVerif.Sched

theorem scanFrom_sorted {σ : Type} (β : Beh σ) (t : Time) (fuel i : Nat) (g : G) (u : σ) (ev : List Nat)
    (hs : ev.Pairwise (· < ·)) (hb : ∀ x ∈ ev, x < i) :
    (scanFrom β t fuel i g u ev).evaluated.Pairwise (· < ·) := by
  induction fuel generalizing i g u ev with
  | zero => simpa [scanFrom] using hs
  | succ fuel ih =>
    have hsnoc : (ev ++ [i]).Pairwise (· < ·) := by
      rw [List.pairwise_append]
      exact ⟨hs, by simp, fun a ha b hb' => by simp at hb'; subst hb'; exact hb a ha⟩
    have hbnoc : ∀ x ∈ ev ++ [i], x < i + 1 := by
      intro x hx; simp at hx; rcases hx with hx | hx
      · exact Nat.lt_succ_of_lt (hb x hx)
      · omega
    rcases Nat.lt_trichotomy (slotOf g i) t with h | h | h
    · rw [scanFrom_skip β t fuel i g u ev h]
      exact ih _ _ _ _ hs (fun x hx => Nat.lt_succ_of_lt (hb x hx))
    · cases hrok : (β.eval i t u).ok with
      | true => rw [scanFrom_eval_ok β t fuel i g u ev h hrok]; exact ih _ _ _ _ hsnoc hbnoc
      | false =>
        have hs' : g.slots.getD i 0 = t := h
        rw [scanFrom]; simp only [hs', ↓reduceIte, hrok]
        exact hsnoc
    · rw [scanFrom_fold β t fuel i g u ev h]
      exact ih _ _ _ _ hs (fun x hx => Nat.lt_succ_of_lt (hb x hx))

/-- **one forward pass**: in every cycle (fresh or resumed) the evaluated node indices are strictly
    increasing — for every node behaviour -/
theorem cycle_strictly_increasing {σ : Type} (fx : Bool) (β : Beh σ) (n : Nat) (t : Time) (g : G) (u : σ) :
    (cycle fx β n t g u).evaluated.Pairwise (· < ·) := by
  unfold cycle
  split
  · exact scanFrom_sorted β t _ _ _ u [] List.Pairwise.nil (by simp)
  · exact scanFrom_sorted β t _ _ _ u [] List.Pairwise.nil (by simp)

theorem nodup_of_sorted {l : List Nat} (h : l.Pairwise (· < ·)) : l.Nodup := by
  induction h with
  | nil => exact List.nodup_nil
  | cons hx _ ih =>
    rw [List.nodup_cons]
    exact ⟨fun hm => Nat.lt_irrefl _ (hx _ hm), ih⟩

/-- every node is evaluated at most once per cycle -/
theorem cycle_at_most_once {σ : Type} (fx : Bool) (β : Beh σ) (n : Nat) (t : Time) (g : G) (u : σ) :
    (cycle fx β n t g u).evaluated.Nodup :=
  nodup_of_sorted (cycle_strictly_increasing fx β n t g u)

theorem sorted_split {l : List Nat} (h : l.Pairwise (· < ·)) {p c : Nat} (hp : p ∈ l) (hc : c ∈ l) (hpc : p < c) :
    ∃ l1 l2 l3, l = l1 ++ p :: l2 ++ c :: l3 := by
  induction l with
  | nil => simp at hp
  | cons x xs ih =>
    rw [List.pairwise_cons] at h
    simp at hp hc
    rcases hp with rfl | hp
    · rcases hc with rfl | hc
      · omega
      · obtain ⟨a, b, hab⟩ := List.append_of_mem hc
        exact ⟨[], a, b, by simp [hab]⟩
    · rcases hc with rfl | hc
      · have := h.1 p hp; omega
      · obtain ⟨l1, l2, l3, e⟩ := ih h.2 hp hc
        exact ⟨x :: l1, l2, l3, by simp [e]⟩

/-- a node never runs before a producer (smaller index, by the rank pass) that runs in the same cycle -/
theorem producer_before_consumer {σ : Type} (fx : Bool) (β : Beh σ) (n : Nat) (t : Time) (g : G) (u : σ)
    {p c : Nat} (hpc : p < c) (hp : p ∈ (cycle fx β n t g u).evaluated) (hc : c ∈ (cycle fx β n t g u).evaluated) :
    ∃ l1 l2 l3, (cycle fx β n t g u).evaluated = l1 ++ p :: l2 ++ c :: l3 :=
  sorted_split (cycle_strictly_increasing fx β n t g u) hp hc hpc

/-- link with the static half: for a wiring accepted by the rank pass, every rank edge `(p, c)` has
    `position p < position c`, which is the hypothesis `p < c` above once nodes are numbered by rank -/
theorem rank_edges_are_index_order {g : HgVerif.Rank.Wiring} {r : List Nat} (h : HgVerif.Rank.kahn g = .ok r) {p c : Nat}
    (he : HgVerif.Rank.RankEdge g p c) : r.idxOf p < r.idxOf c :=
  HgVerif.Rank.kahn_edges_forward h he

/-! non-vacuity: three nodes all due at 7; node 0 schedules node 2 again for the same cycle -/
example : (cycle true ⟨fun i t u => if i = 0 then { st := u, reqs := [⟨2, t⟩] } else { st := u }⟩ 3 7
    { slots := [7, 7, 7] } ()).evaluated = [0, 1, 2] := by decide

end HgVerif.Sched
