import HgVerif.Model.InternKey
import HgVerif.Props.C06
/-!
# C06 (interning key, unresolved) — two labels denote one node iff their expression trees are equal

`Props/C06Key.lean` treats keys as given values.  In `Wiring::add_node` the key of a declaration contains
the producer *nodes* of its inputs, which depend on what was wired (and shared) before.  Here the
statements name their producers by label (`Model/InternKey.lean`), the key is built at wiring time from
the nodes the labels were interned to, and the result is compared with the order-free reading of the
program, the expression tree of every label (`semL` — exactly what the monitor of
`tools/props/c06intern.py` computes from the program text):

* `wireL_same_iff_tree` : for every admissible program (inputs name labels declared earlier), two labels
  denote the same node **iff** their expression trees are equal — same definition/scalars, and input by
  input the same recorded attributes and, recursively, the same producer tree.
-/
namespace HgVerif.InternKey
open HgVerif.Intern

variable {Λ δ α : Type} [DecidableEq Λ] [DecidableEq δ] [DecidableEq α]

omit [DecidableEq δ] [DecidableEq α] in
theorem get_cons {β : Type} (l0 : Λ) (v0 : β) (t : List (Λ × β)) (l : Λ) :
    get ((l0, v0) :: t) l = if l0 = l then some v0 else get t l := rfl

omit [DecidableEq δ] [DecidableEq α] in
theorem get_of_mem {β : Type} (t : List (Λ × β)) (l : Λ) (h : l ∈ t.map Prod.fst) : ∃ v, get t l = some v := by
  induction t with
  | nil => simp at h
  | cons p rest ih =>
    obtain ⟨l0, v0⟩ := p
    rw [get_cons]
    by_cases e : l0 = l
    · exact ⟨v0, by simp [e]⟩
    · simp only [e, ↓reduceIte]
      simp only [List.map_cons, List.mem_cons] at h
      rcases h with h | h
      · exact absurd h.symm e
      · exact ih h

/-- node id ↦ the tree the node computes -/
def mapT (T : List (Nat × Tree δ α)) (dflt : Tree δ α) (rins : List (Nat × α)) : List (Tree δ α × α) :=
  rins.map fun q => ((get T q.1).getD dflt, q.2)

def Valid (T : List (Nat × Tree δ α)) (rins : List (Nat × α)) : Prop := ∀ q ∈ rins, ∃ t, get T q.1 = some t

/-- the link between the interning state, the trees of the labels (`te`) and the trees of the nodes (`T`) -/
structure K (s : LSt Λ δ α) (te : List (Λ × Tree δ α)) (T : List (Nat × Tree δ α)) : Prop where
  bound : ∀ i t, get T i = some t → i < s.st.next
  inj : ∀ i j t, get T i = some t → get T j = some t → i = j
  link : ∀ a i, get s.env a = some i → ∃ t, get T i = some t ∧ get te a = some t
  link_none : ∀ a, get s.env a = none → get te a = none
  sound : ∀ f rins v, lookup s.st.tbl (f, rins) = some v →
    Valid T rins ∧ get T v = some (.mk f (mapT T (.mk f []) rins))
  keyed : ∀ v t, get T v = some t → ∃ f rins, lookup s.st.tbl (f, rins) = some v

omit [DecidableEq Λ] [DecidableEq δ] [DecidableEq α] in
theorem mapT_inj (T : List (Nat × Tree δ α)) (hinj : ∀ i j t, get T i = some t → get T j = some t → i = j)
    (d d' : Tree δ α) (r r' : List (Nat × α)) (hv : Valid T r) (hv' : Valid T r')
    (h : mapT T d r = mapT T d' r') : r = r' := by
  induction r generalizing r' with
  | nil =>
    cases r' with
    | nil => rfl
    | cons q' rest' => simp [mapT] at h
  | cons q rest ih =>
    cases r' with
    | nil => simp [mapT] at h
    | cons q' rest' =>
      simp only [mapT, List.map_cons, List.cons.injEq, Prod.mk.injEq] at h
      obtain ⟨⟨h1, h2⟩, h3⟩ := h
      obtain ⟨t, ht⟩ := hv q (by simp)
      obtain ⟨t', ht'⟩ := hv' q' (by simp)
      rw [ht, ht'] at h1
      simp only [Option.getD_some] at h1
      subst h1
      have e1 : q.1 = q'.1 := hinj _ _ _ ht ht'
      have e : q = q' := Prod.ext e1 h2
      have := ih rest' (fun x hx => hv x (by simp [hx])) (fun x hx => hv' x (by simp [hx])) h3
      rw [e, this]

omit [DecidableEq δ] [DecidableEq α] in
/-- the trees of the inputs of a statement are the trees of the nodes its labels resolve to -/
theorem link_ins {s : LSt Λ δ α} {te : List (Λ × Tree δ α)} {T : List (Nat × Tree δ α)}
    (hlink : ∀ a i, get s.env a = some i → ∃ t, get T i = some t ∧ get te a = some t)
    (dflt : Tree δ α) (ins : List (Λ × α)) (hadm : ∀ p ∈ ins, ∃ i, get s.env p.1 = some i) :
    treeIns te dflt ins = mapT T dflt (resolve s.env ins) ∧ Valid T (resolve s.env ins) := by
  induction ins with
  | nil => exact ⟨rfl, by intro q hq; simp [resolve] at hq⟩
  | cons p rest ih =>
    obtain ⟨i, hi⟩ := hadm p (by simp)
    obtain ⟨t, ht, hte⟩ := hlink _ _ hi
    obtain ⟨ih1, ih2⟩ := ih (fun x hx => hadm x (by simp [hx]))
    constructor
    · simp only [treeIns, mapT, resolve, List.map_cons, List.cons.injEq, Prod.mk.injEq, and_true] at ih1 ⊢
      refine ⟨?_, ?_⟩
      · rw [hte, hi]; simp [ht]
      · simpa [List.map_map] using ih1
    · intro q hq
      simp only [resolve, List.map_cons, List.mem_cons] at hq
      rcases hq with hq | hq
      · subst hq; simp only [hi, Option.getD_some]; exact ⟨t, ht⟩
      · exact ih2 q (by simpa [resolve] using hq)

omit [DecidableEq Λ] [DecidableEq δ] [DecidableEq α] in
theorem mapT_stable (T : List (Nat × Tree δ α)) (n : Nat) (t : Tree δ α) (hn : get T n = none)
    (dflt : Tree δ α) (r : List (Nat × α)) (hv : Valid T r) : mapT ((n, t) :: T) dflt r = mapT T dflt r := by
  unfold mapT
  apply List.map_congr_left
  intro q hq
  obtain ⟨tq, htq⟩ := hv q hq
  have hne : ¬ n = q.1 := by intro e; rw [← e, hn] at htq; cases htq
  rw [get_cons]; simp [hne]

omit [DecidableEq Λ] [DecidableEq δ] [DecidableEq α] in
theorem valid_stable (T : List (Nat × Tree δ α)) (n : Nat) (t : Tree δ α)
    (r : List (Nat × α)) (hv : Valid T r) : Valid ((n, t) :: T) r := by
  intro q hq
  obtain ⟨tq, htq⟩ := hv q hq
  rw [get_cons]
  by_cases e : n = q.1
  · exact ⟨t, by simp [e]⟩
  · exact ⟨tq, by simp [e, htq]⟩

theorem k_init : K ({} : LSt Λ δ α) [] [] :=
  ⟨by intro i t h; simp [get] at h, by intro i j t h; simp [get] at h, by intro a i h; simp [get] at h,
   by intro a _; rfl, by intro f r v h; simp [lookup] at h, by intro v t h; simp [get] at h⟩

/-- one statement keeps the link -/
theorem k_step {s : LSt Λ δ α} {te : List (Λ × Tree δ α)} {T : List (Nat × Tree δ α)} (h : K s te T)
    (d : LDecl Λ δ α) (hadm : ∀ p ∈ d.ins, ∃ i, get s.env p.1 = some i) :
    ∃ T', K (step s d).1 (semStep te d) T' := by
  obtain ⟨hli, hval⟩ := link_ins h.link (.mk d.defn []) d.ins hadm
  have htree : treeOf te d = .mk d.defn (mapT T (.mk d.defn []) (resolve s.env d.ins)) := by
    unfold treeOf; rw [hli]
  cases hd : d.sink with
  | true =>
    refine ⟨T, ?_⟩
    have e1 : (step s d).1.st.next = s.st.next + 1 := by simp [step, addNode, hd]
    have e2 : (step s d).1.st.tbl = s.st.tbl := by simp [step, addNode, hd]
    have e3 : (step s d).1.env = s.env := by simp [step, hd]
    have e4 : semStep te d = te := by simp [semStep, hd]
    refine ⟨?_, h.inj, ?_, ?_, ?_, ?_⟩
    · intro i t hi; rw [e1]; exact Nat.lt_succ_of_lt (h.bound i t hi)
    · rw [e3, e4]; exact h.link
    · rw [e3, e4]; exact h.link_none
    · rw [e2]; exact h.sound
    · rw [e2]; exact h.keyed
  | false =>
    cases hl : lookup s.st.tbl (d.defn, resolve s.env d.ins) with
    | some v =>
      -- interned: the label is bound to the existing node, whose tree is the tree of the statement
      refine ⟨T, ?_⟩
      have e0 : (step s d).1.st = s.st := by simp [step, addNode, hd, hl]
      have e3 : (step s d).1.env = (d.lbl, v) :: s.env := by simp [step, addNode, hd, hl]
      have e4 : semStep te d = (d.lbl, treeOf te d) :: te := by simp [semStep, hd]
      have hTv : get T v = some (treeOf te d) := by rw [htree]; exact (h.sound _ _ _ hl).2
      refine ⟨?_, h.inj, ?_, ?_, ?_, ?_⟩
      · rw [e0]; exact h.bound
      · intro a i hi
        rw [e3, get_cons] at hi
        rw [e4, get_cons]
        by_cases e : d.lbl = a
        · simp only [e, ↓reduceIte, Option.some.injEq] at hi ⊢
          subst hi; exact ⟨_, hTv, rfl⟩
        · simp only [e, ↓reduceIte] at hi ⊢
          exact h.link a i hi
      · intro a ha
        rw [e3, get_cons] at ha
        rw [e4, get_cons]
        by_cases e : d.lbl = a
        · simp [e] at ha
        · simp only [e, ↓reduceIte] at ha ⊢
          exact h.link_none a ha
      · rw [e0]; exact h.sound
      · rw [e0]; exact h.keyed
    | none =>
      -- a new node `n` computing the tree of the statement
      have hnT : get T s.st.next = none := by
        cases hg : get T s.st.next with
        | none => rfl
        | some t => exact absurd (h.bound _ _ hg) (Nat.lt_irrefl _)
      refine ⟨(s.st.next, treeOf te d) :: T, ?_⟩
      have e1 : (step s d).1.st.next = s.st.next + 1 := by simp [step, addNode, hd, hl]
      have e2 : (step s d).1.st.tbl = ((d.defn, resolve s.env d.ins), s.st.next) :: s.st.tbl := by
        simp [step, addNode, hd, hl]
      have e3 : (step s d).1.env = (d.lbl, s.st.next) :: s.env := by simp [step, addNode, hd, hl]
      have e4 : semStep te d = (d.lbl, treeOf te d) :: te := by simp [semStep, hd]
      -- no existing node computes this tree: its key would be in the table
      have hfresh : ∀ j, get T j = some (treeOf te d) → False := by
        intro j hj
        obtain ⟨f, r, hk⟩ := h.keyed j _ hj
        obtain ⟨hvr, hTj⟩ := h.sound f r j hk
        rw [hj, htree] at hTj
        injection hTj with hTj
        injection hTj with hf hm
        have := mapT_inj T h.inj _ _ _ _ hval hvr hm
        rw [← hf, ← this, hl] at hk
        cases hk
      refine ⟨?_, ?_, ?_, ?_, ?_, ?_⟩
      · intro i t hi
        rw [e1]
        rw [get_cons] at hi
        by_cases e : s.st.next = i
        · omega
        · simp only [e, ↓reduceIte] at hi
          exact Nat.lt_succ_of_lt (h.bound i t hi)
      · intro i j t hi hj
        rw [get_cons] at hi hj
        by_cases ei : s.st.next = i
        · by_cases ej : s.st.next = j
          · omega
          · rw [if_pos ei] at hi; rw [if_neg ej] at hj
            injection hi with hi; subst hi; exact (hfresh j hj).elim
        · by_cases ej : s.st.next = j
          · rw [if_neg ei] at hi; rw [if_pos ej] at hj
            injection hj with hj; subst hj; exact (hfresh i hi).elim
          · rw [if_neg ei] at hi; rw [if_neg ej] at hj; exact h.inj i j t hi hj
      · intro a i hi
        rw [e3, get_cons] at hi
        rw [e4, get_cons d.lbl (treeOf te d) te a]
        by_cases e : d.lbl = a
        · rw [if_pos e] at hi; rw [if_pos e]
          injection hi with hi
          refine ⟨treeOf te d, ?_, rfl⟩
          rw [get_cons, if_pos hi]
        · rw [if_neg e] at hi; rw [if_neg e]
          obtain ⟨t, ht, hte⟩ := h.link a i hi
          have hne : ¬ s.st.next = i := by
            intro e'; have := h.bound i t ht; omega
          refine ⟨t, ?_, hte⟩
          rw [get_cons, if_neg hne]; exact ht
      · intro a ha
        rw [e3, get_cons] at ha
        rw [e4, get_cons]
        by_cases e : d.lbl = a
        · simp [e] at ha
        · simp only [e, ↓reduceIte] at ha ⊢
          exact h.link_none a ha
      · intro f r v hk
        rw [e2, lookup_cons] at hk
        by_cases e : (d.defn, resolve s.env d.ins) = (f, r)
        · simp only [e, ↓reduceIte, Option.some.injEq] at hk
          subst hk
          injection e with ef er
          subst ef; subst er
          refine ⟨valid_stable T _ _ _ hval, ?_⟩
          rw [mapT_stable T _ _ hnT _ _ hval, get_cons]
          simp [htree]
        · simp only [e, ↓reduceIte] at hk
          obtain ⟨hvr, hTv⟩ := h.sound f r v hk
          refine ⟨valid_stable T _ _ _ hvr, ?_⟩
          rw [mapT_stable T _ _ hnT _ _ hvr, get_cons]
          have hne : ¬ s.st.next = v := by
            intro e'; have := h.bound v _ hTv; omega
          simp [hne, hTv]
      · intro v t hv
        rw [get_cons] at hv
        rw [e2]
        by_cases e : s.st.next = v
        · exact ⟨d.defn, resolve s.env d.ins, by rw [lookup_cons]; simp [e]⟩
        · simp only [e, ↓reduceIte] at hv
          obtain ⟨f, r, hk⟩ := h.keyed v t hv
          refine ⟨f, r, ?_⟩
          rw [lookup_cons]
          have hne : ¬ (d.defn, resolve s.env d.ins) = (f, r) := by
            intro e'; rw [e', hk] at hl; cases hl
          simp [hne, hk]

omit [DecidableEq α] in
theorem env_labels_step (s : LSt Λ δ α) (d : LDecl Λ δ α) [DecidableEq α] :
    (step s d).1.env.map Prod.fst = if d.sink then s.env.map Prod.fst else d.lbl :: s.env.map Prod.fst := by
  unfold step
  cases d.sink <;> simp

theorem k_wireL {s : LSt Λ δ α} {te : List (Λ × Tree δ α)} {T : List (Nat × Tree δ α)} (h : K s te T)
    (ds : List (LDecl Λ δ α)) (hadm : Adm (s.env.map Prod.fst) ds) :
    ∃ T', K (wireL s ds) (semL te ds) T' := by
  induction ds generalizing s te T with
  | nil => exact ⟨T, h⟩
  | cons d rest ih =>
    obtain ⟨h1, h2⟩ := hadm
    obtain ⟨T1, hK1⟩ := k_step h d (fun p hp => get_of_mem _ _ (h1 p hp))
    have : Adm ((step s d).1.env.map Prod.fst) rest := by
      rw [env_labels_step]
      cases hd : d.sink <;> simpa [hd] using h2
    exact ih hK1 this

/-- **same node iff same expression tree**: in an admissible program two labels denote the same node
    exactly when the order-free reading gives them equal trees -/
theorem wireL_same_iff_tree (ds : List (LDecl Λ δ α)) (hadm : Adm [] ds) (a b : Λ) (ia ib : Nat)
    (ha : get (wireL ({} : LSt Λ δ α) ds).env a = some ia) (hb : get (wireL ({} : LSt Λ δ α) ds).env b = some ib) :
    ia = ib ↔ get (semL [] ds) a = get (semL [] ds) b := by
  obtain ⟨T, hK⟩ := k_wireL (k_init (Λ := Λ) (δ := δ) (α := α)) ds (by simpa using hadm)
  obtain ⟨ta, hTa, hta⟩ := hK.link a ia ha
  obtain ⟨tb, hTb, htb⟩ := hK.link b ib hb
  rw [hta, htb]
  constructor
  · intro e; subst e; rw [hTa] at hTb; exact hTb
  · intro e; injection e with e; subst e; exact hK.inj _ _ _ hTa hTb

/-- a label is declared by the interning run iff the order-free reading declares it -/
theorem wireL_declared_iff (ds : List (LDecl Λ δ α)) (hadm : Adm [] ds) (a : Λ) :
    get (wireL ({} : LSt Λ δ α) ds).env a = none ↔ get (semL [] ds) a = none := by
  obtain ⟨T, hK⟩ := k_wireL (k_init (Λ := Λ) (δ := δ) (α := α)) ds (by simpa using hadm)
  constructor
  · exact hK.link_none a
  · intro h
    cases hg : get (wireL ({} : LSt Λ δ α) ds).env a with
    | none => rfl
    | some i =>
      obtain ⟨t, _, hte⟩ := hK.link a i hg
      rw [h] at hte; cases hte

end HgVerif.InternKey
