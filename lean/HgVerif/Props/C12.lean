import HgVerif.Lemmas.Switch
/-!
# C12 — the output of a switch follows only the branch selected by the current key, which starts fresh

Property theorems only (definitions of the specification and helpers: `Lemmas/Switch.lean`; the model of
`switch_node.cpp`: `Model/Switch.lean`).  Everything is stated for an ARBITRARY state type `σ`, arbitrary
branch behaviours (`Branch σ`: any start hook, any step function, any wake-up times, any binding of the
key / the time-series arguments, any validity gate), an arbitrary case table / default / reload flag and
ALL key and input histories (`List Cyc`, cycle `i` at time `t0 + i`).

Floor
* `inv_reachable`           the storage invariant `Inv` holds in every reachable state.
* `switch_old_dead`         the event trace of EVERY run (followed by the graph stop and the disposal of the
                            storage) is accepted by the lifecycle monitor `lifeOK`: a child is constructed only
                            in an EMPTY slot (the previous occupant was destroyed before the slot is reused), is
                            started only when NO child is running, is evaluated only while it is running (so a
                            stopped previous child never receives an evaluation), is destroyed only after it was
                            stopped.  `at_most_one_running`: the state form.
* `switch_reselect_fresh`   `activate_branch` from ANY invariant state — whatever the two slots hold, in
                            particular a stopped earlier instance of the same branch / key — succeeds and leaves
                            `freshChild b now` (the start state of the branch) active: a new instance, never a
                            resumed one.  `reselect_ignores_history`: two runs with arbitrary different pasts
                            emit the same output and hold the same child after selecting the same key with the
                            same current inputs.
* `switch_unmatched_error`  a selecting key tick without branch and without default is an error in that very
                            cycle (never a silent no-op), and conversely the only error a run can raise;
                            `unmatched_run_fails`: the run is dead afterwards; `no_slot_logic_error`: the
                            `logic_error` of `activate_branch` is unreachable.
Ceiling
* `segment_follows_branch`  from every reachable state, a selecting cycle followed by any stretch of cycles
                            without a new selection emits exactly `runAlone b`: the selected branch run alone
                            from its start state, every valid held input presented as ticked in the first cycle.
* `switch_follows_selected` the recorded output stream of every run is `SegSpec`: the concatenation over the
                            MAXIMAL segments of constant selection of those stand-alone runs (nothing before the
                            first key, nothing after a failed selection).  This includes that the single schedule
                            entry of the switch node in its parent graph never loses or duplicates a wake-up of
                            the active child, and that a wake-up left behind by a stopped child has no effect.
                            `follows_selected_unique`: `SegSpec` determines the stream (equality form).

Strength: full for the model.  The child graph is abstracted as a Mealy machine with one wake-up time; what
the model does not contain (target-link sampling of nested collections, REF / forwarding-terminal outputs)
is observed by the trace monitor of `tools/props/c12.py` only.  Passive / optional inputs and the per-binding
sampled start are in the model (`Branch.passive`, `Branch.sampledStart`); their theorems: `Props/C12Sample.lean`.
-/
namespace HgVerif.Switch
variable {σ : Type}

/-! ## floor: lifecycle -/

/-- C12 (floor): the storage invariant holds after every history. -/
theorem inv_reachable (cfg : Cfg σ) (t0 : Nat) (hist : List Cyc) : Inv (finalRun cfg {} t0 hist).sw :=
  (runFrom_life cfg {} Inv.init t0 hist).1

/-- C12 (floor) `switch_old_dead`: for every branch set, key history and input history the complete event
    trace — all cycles, then the graph stop and the disposal of the two slots — is accepted by the lifecycle
    monitor: construction only into an empty slot, start only when nothing runs, evaluation only of the
    running child, destruction only after stop; and at the end nothing is left running or stored. -/
theorem switch_old_dead (cfg : Cfg σ) (t0 : Nat) (hist : List Cyc) :
    lifeRun {} (allEvents (runFrom cfg {} t0 hist) ++ shutdown (finalRun cfg {} t0 hist).sw) = some {} ∧
    lifeOK (allEvents (runFrom cfg {} t0 hist) ++ shutdown (finalRun cfg {} t0 hist).sw) = true := by
  have h := runFrom_life cfg ({} : Run σ) Inv.init t0 hist
  have hs := shutdown_life _ h.1
  have : lifeRun {} (allEvents (runFrom cfg {} t0 hist) ++ shutdown (finalRun cfg {} t0 hist).sw) = some {} :=
    lifeRun_append_some (l := {}) h.2 hs
  exact ⟨this, by simp [lifeOK, this]⟩

/-- What the monitor's acceptance means, event by event. -/
theorem lifeStep_meaning (l l' : Life) :
    (∀ id b, lifeStep l (.construct id b) = some l' → l.get b = .empty) ∧
    (∀ id b n, lifeStep l (.start id b n) = some l' → l.get b = .built ∧ l.get (!b) ≠ .running) ∧
    (∀ id b, lifeStep l (.eval id b) = some l' → l.get b = .running) ∧
    (∀ id b, lifeStep l (.user id b) = some l' → l.get b = .running) ∧
    (∀ id b, lifeStep l (.stop id b) = some l' → l.get b = .running ∧ l'.get b = .stopped) ∧
    (∀ id b, lifeStep l (.destroy id b) = some l' → l.get b = .stopped) := by
  refine ⟨?_, ?_, ?_, ?_, ?_, ?_⟩
  · intro id b h
    simp only [lifeStep] at h
    split at h
    · assumption
    · cases h
  · intro id b n h
    simp only [lifeStep] at h
    split at h
    · assumption
    · cases h
  · intro id b h
    simp only [lifeStep] at h
    split at h
    · assumption
    · cases h
  · intro id b h
    simp only [lifeStep] at h
    split at h
    · assumption
    · cases h
  · intro id b h
    simp only [lifeStep] at h
    split at h
    · next hg => injection h with h; subst h; exact ⟨hg, by simp⟩
    · cases h
  · intro id b h
    simp only [lifeStep] at h
    split at h
    · assumption
    · cases h

/-- C12 (floor): at most one running child in every reachable state, and it is the active one. -/
theorem at_most_one_running (cfg : Cfg σ) (t0 : Nat) (hist : List Cyc) :
    let s := (finalRun cfg {} t0 hist).sw
    (∀ b i, s.graph b = some i → i.running = true → s.activeSlot = some b) ∧
    (∀ i0 i1, s.g0 = some i0 → s.g1 = some i1 → ¬ (i0.running = true ∧ i1.running = true)) := by
  have h := inv_reachable cfg t0 hist
  refine ⟨fun b i hg hr => (h.running_iff b i hg).mp hr, ?_⟩
  intro i0 i1 h0 h1 ⟨r0, r1⟩
  have a0 := (h.running_iff false i0 (by simpa [SW.graph] using h0)).mp r0
  have a1 := (h.running_iff true i1 (by simpa [SW.graph] using h1)).mp r1
  rw [a0] at a1
  cases a1

/-! ## floor: a re-selected key gets a new instance -/

/-- C12 (floor) `switch_reselect_fresh`: from ANY state satisfying the invariant (any contents of the two
    slots: in particular the stopped earlier instance of the very same branch), `activate_branch` succeeds
    and the active child is `freshChild b now` — the branch's start state — with a new identity. -/
theorem switch_reselect_fresh (s : SW σ) (h : Inv s) (b : Branch σ) (k : Key) (now : Nat) :
    ∃ s' evs, activate s b k now = .ok (s', evs) ∧
      s'.activeInst = some { id := s.nextId + 1, running := true, child := freshChild b now } ∧
      s'.activeKey = some k ∧ Inv s' := by
  have hb := activateBody_spec s h b k now
  exact ⟨_, _, activate_eq h b k now, hb.2.2.1, hb.2.2.2.1, hb.1⟩

/-- C12 (floor): the start state does not depend on the past.  Two runs in arbitrary (reachable, alive) states
    that select the same key in a cycle with the same current inputs emit the same output and hold the same
    child afterwards — whatever either of them did before, including having run that branch earlier. -/
theorem reselect_ignores_history (cfg : Cfg σ) (r1 r2 : Run σ) (t : Nat) (c : Cyc) (k : Key) (b : Branch σ)
    (h1 : Timing r1 t) (h2 : Timing r2 t)
    (hs1 : switches cfg.reload r1.sw.activeKey c = some k) (hs2 : switches cfg.reload r2.sw.activeKey c = some k)
    (hsel : selectBranch cfg k = some b) (hheld : r1.held.update c = r2.held.update c) :
    (cycle cfg r1 t c).out = (cycle cfg r2 t c).out ∧
    ∃ ch, ActiveIs (cycle cfg r1 t c).run k ch ∧ ActiveIs (cycle cfg r2 t c).run k ch ∧
      ch = (childEval (freshChild b t) t (mkPorts (r1.held.update c) c)).child := by
  have a := cycle_switch cfg r1 t c k b h1 hs1 hsel
  have b' := cycle_switch cfg r2 t c k b h2 hs2 hsel
  rw [← hheld] at b'
  exact ⟨by rw [a.1, b'.1], _, a.2.1, b'.2.1, rfl⟩

/-- Every state a run reaches without failing satisfies the hypotheses `Timing` used above. -/
theorem timing_of_run (cfg : Cfg σ) (t0 : Nat) (hist : List Cyc) (hal : (finalRun cfg {} t0 hist).dead = false) :
    Timing (finalRun cfg {} t0 hist) (t0 + hist.length) :=
  timing_reachable cfg hist {} t0 (Timing.init t0) hal

/-! ## floor: the unmatched key -/

/-- C12 (floor) `switch_unmatched_error`: in a reachable alive state, a cycle raises an error IF AND ONLY IF its
    key tick selects anew (`switches`: nothing selected yet, or reload, or a different key) and the key has no
    branch and there is no default; the error is the "no branch" error, raised in that very cycle, with no
    output and no lifecycle event. -/
theorem switch_unmatched_error (cfg : Cfg σ) (r : Run σ) (t : Nat) (c : Cyc) (ht : Timing r t) :
    ((cycle cfg r t c).err ≠ none ↔ ∃ k, switches cfg.reload r.sw.activeKey c = some k ∧ selectBranch cfg k = none) ∧
    ((cycle cfg r t c).err ≠ none →
      (cycle cfg r t c).err = some Err.noBranch ∧ (cycle cfg r t c).out = none ∧
      (cycle cfg r t c).events = [] ∧ (cycle cfg r t c).run.dead = true) := by
  constructor
  · constructor
    · intro he
      rcases cycle_timing cfg r t c ht with hd | hok
      · exact hd.2.2
      · exact absurd hok.2 he
    · rintro ⟨k, hsw, hsel⟩
      have := cycle_fail cfg r t c k ht hsw hsel
      rw [this.2.2.1]; simp
  · intro he
    rcases cycle_timing cfg r t c ht with hd | hok
    · obtain ⟨k, hsw, hsel⟩ := hd.2.2
      have := cycle_fail cfg r t c k ht hsw hsel
      exact ⟨this.2.2.1, this.1, this.2.2.2, this.2.1⟩
    · exact absurd hok.2 he

/-- C12 (floor): after the failing cycle the run is dead: no output, no event, for every continuation. -/
theorem unmatched_run_fails (cfg : Cfg σ) (r : Run σ) (t : Nat) (c : Cyc) (k : Key) (rest : List Cyc) (ht : Timing r t)
    (hsw : switches cfg.reload r.sw.activeKey c = some k) (hsel : selectBranch cfg k = none) :
    (runFrom cfg r t (c :: rest)).map (fun o => o.out) = List.replicate (rest.length + 1) none ∧
    allEvents (runFrom cfg r t (c :: rest)) = [] ∧
    (finalRun cfg r t (c :: rest)).dead = true := by
  have hf := cycle_fail cfg r t c k ht hsw hsel
  have hd := runFrom_dead cfg (cycle cfg r t c).run hf.2.1 (t + 1) rest
  simp only [runFrom, finalRun, List.map_cons, allEvents, List.flatMap_cons, hf.1, hf.2.2.2, List.nil_append]
  exact ⟨by rw [hd.1]; rfl, hd.2.1, hd.2.2⟩

/-- C12 (floor): `switch_ previous graph does not occupy the reusable slot` is unreachable. -/
theorem no_slot_logic_error (cfg : Cfg σ) (t0 : Nat) (hist : List Cyc) :
    ∀ o ∈ runFrom cfg {} t0 hist, o.err ≠ some Err.slotLogic := by
  intro o ho
  rcases runFrom_err cfg hist {} Inv.init t0 o ho with h | h <;> rw [h] <;> simp

/-! ## ceiling: the output follows the selected branch -/

/-- C12 (ceiling, one segment): in a reachable alive state, a selecting cycle `c` (key `k ↦ b`) followed by ANY
    stretch `seg` of cycles without a new selection emits exactly the stream of branch `b` run ALONE from its
    start state at the selection time on the inputs of `c :: seg`, the valid held inputs sampled in the first
    cycle. -/
theorem segment_follows_branch (cfg : Cfg σ) (r : Run σ) (t : Nat) (c : Cyc) (seg : List Cyc) (k : Key) (b : Branch σ)
    (ht : Timing r t) (hsw : switches cfg.reload r.sw.activeKey c = some k) (hsel : selectBranch cfg k = some b)
    (hseg : ∀ c' ∈ seg, switches cfg.reload (some k) c' = none) :
    (runFrom cfg r t (c :: seg)).map (fun o => o.out) = runAlone b t (portsFrom r.held (c :: seg)) := by
  have hs := cycle_switch cfg r t c k b ht hsw hsel
  have h1 := run_segment cfg seg (cycle cfg r t c).run (t + 1) k _ hs.2.2.1 hs.2.1 hseg
  rw [hs.2.2.2] at h1
  simp only [runFrom, List.map_cons, runAlone, portsFrom, aloneFrom, hs.1, h1.1]

/-- C12 (ceiling) `switch_follows_selected`: for every branch set, key history and input history the recorded
    output stream is the concatenation, over maximal segments of constant selection, of the selected branch's
    behaviour run from its start state on the inputs, with all currently valid held inputs presented as ticked
    in the segment's first cycle (`SegSpec`). -/
theorem switch_follows_selected (cfg : Cfg σ) (t0 : Nat) (hist : List Cyc) :
    SegSpec cfg t0 {} none hist ((runFrom cfg {} t0 hist).map (fun o => o.out)) :=
  follows_gen cfg hist.length hist (Nat.le_refl _) {} t0 (Timing.init t0) (Or.inl rfl)

/-- `SegSpec` pins the stream down: whatever stream is the concatenation of the per-segment stand-alone runs
    IS the recorded output of the run (equality form of `switch_follows_selected`). -/
theorem follows_selected_unique (cfg : Cfg σ) (t0 : Nat) (hist : List Cyc) (outs : List (Option Val))
    (h : SegSpec cfg t0 {} none hist outs) : (runFrom cfg {} t0 hist).map (fun o => o.out) = outs :=
  (switch_follows_selected cfg t0 hist).unique h

/-! ## non-vacuity: concrete branches, a concrete history -/

section Examples

/-- stateful: running sum of the first time-series argument -/
def exSum : Branch Int :=
  { name := "sum", binds := [1], validInputs := none, init := 0, start := fun _ s => (s, none),
    step := fun s _ v _ => (s + ((v.getD 0 Port.absent).value.getD 0), some (s + ((v.getD 0 Port.absent).value.getD 0)), none) }

/-- self-scheduling source: emits 100+n at start and every 2 µs, three times -/
def exBeat : Branch Int :=
  { name := "beat", binds := [], validInputs := none, init := 0, start := fun now s => (s, some now),
    step := fun s now _ _ => (s + 1, some (100 + s + 1), if s + 1 < 3 then some (now + 2) else none) }

def exCfg : Cfg Int := { cases := [(1, exSum), (2, exBeat)], dflt := none, reload := false }

/-- keys 1,·,2,·,1,9 with inputs 5,6,·,·,·,·: sum from fresh, beat (own timer), sum again FRESH with the held
    6 sampled, then the unmatched key 9. -/
def exHist : List Cyc :=
  [{ key := some 1, ins := [some 5] }, { ins := [some 6] }, { key := some 2, ins := [none] }, { ins := [none] },
   { key := some 1, ins := [none] }, { key := some 9, ins := [none] }, { ins := [some 1] }]

example : (runFrom exCfg {} 1 exHist).map (fun o => o.out) =
    [some 5, some 11, some 101, none, some 6, none, none] := by decide

example : (runFrom exCfg {} 1 exHist).map (fun o => o.err) =
    [none, none, none, none, none, some Err.noBranch, none] := by decide

example : lifeOK (allEvents (runFrom exCfg {} 1 exHist) ++ shutdown (finalRun exCfg {} 1 exHist).sw) = true := by decide

-- the monitor is not vacuous: evaluating a stopped child, constructing into an occupied slot and
-- starting a second child are rejected
example : lifeOK [.construct 1 false, .start 1 false "a", .stop 1 false, .eval 1 false] = false := by decide
example : lifeOK [.construct 1 false, .start 1 false "a", .stop 1 false, .construct 2 false] = false := by decide
example : lifeOK [.construct 1 false, .start 1 false "a", .construct 2 true, .start 2 true "b"] = false := by decide

-- the hypotheses of the per-cycle theorems are satisfiable: a reachable alive state with an active child
example : (finalRun exCfg {} 1 (exHist.take 4)).dead = false := by decide
example : Timing (finalRun exCfg {} 1 (exHist.take 4)) (1 + 4) := timing_of_run exCfg 1 (exHist.take 4) (by decide)
example : switches exCfg.reload (finalRun exCfg {} 1 (exHist.take 4)).sw.activeKey { key := some 1, ins := [none] } = some 1 := by
  decide
example : (selectBranch exCfg 1).isSome = true ∧ (selectBranch exCfg 9).isNone = true := by decide

end Examples

end HgVerif.Switch
