import HgVerif.Model.BoundaryKey
/-!
C09, interning of body nodes in a compiled child: two nodes of a sub-graph body are merged into one instance iff they
have the same definition, the same scalars and the same sources INCLUDING the projection path - so the compiled child
has exactly the nodes the inlined wiring has.  For all request lists.
-/
namespace HgVerif.BoundaryKey

/-- `source_key_for` is injective: the key determines the source (kind, ordinal / node, PATH, output kind, schema) -/
theorem sourceKeyFor_injective (a b : Src) (h : sourceKeyFor a = sourceKeyFor b) : a = b := by
  cases a <;> cases b <;> simp [sourceKeyFor] at h <;> simp_all

theorem map_key_injective (xs ys : List (Src × List Nat))
    (h : xs.map (fun i => (sourceKeyFor i.1, i.2)) = ys.map (fun i => (sourceKeyFor i.1, i.2))) : xs = ys := by
  induction xs generalizing ys with
  | nil => cases ys <;> simp_all
  | cons x r ih =>
    cases ys with
    | nil => simp at h
    | cons y s =>
      simp only [List.map_cons, List.cons.injEq, Prod.mk.injEq] at h
      obtain ⟨⟨h1, h2⟩, h3⟩ := h
      have : x = y := Prod.ext (sourceKeyFor_injective _ _ h1) h2
      rw [this, ih s h3]

/-- equal keys <-> same definition, same scalars, same sources including the path -/
theorem keyOf_eq_iff (r q : Req) : keyOf r = keyOf q ↔ r = q := by
  constructor
  · intro h
    cases r; cases q
    simp only [keyOf, keyWith, InstanceKey.mk.injEq] at h
    obtain ⟨h1, h2, h3⟩ := h
    simp [h1, h2, map_key_injective _ _ h3]
  · intro h; rw [h]

theorem find_spec {α : Type} [DecidableEq α] (tbl : List α) (p : α) (i : Nat) (h : find tbl p = some i) : tbl[i]? = some p := by
  induction tbl generalizing i with
  | nil => simp [find] at h
  | cons q r ih =>
    simp only [find] at h
    by_cases hs : q = p
    · rw [if_pos hs] at h
      simp only [Option.some.injEq] at h
      subst h; simp [hs]
    · rw [if_neg hs] at h
      cases hf : find r p with
      | none => simp [hf] at h
      | some j =>
        simp only [hf, Option.map_some, Option.some.injEq] at h
        subst h
        simpa using ih j hf

theorem find_of_mem {α : Type} [DecidableEq α] (tbl : List α) (p : α) (h : p ∈ tbl) : ∃ i, find tbl p = some i := by
  induction tbl with
  | nil => simp at h
  | cons q r ih =>
    simp only [find]
    by_cases hs : q = p
    · exact ⟨0, by simp [hs]⟩
    · have hm : p ∈ r := by
        rcases List.mem_cons.1 h with e | e
        · exact absurd e.symm hs
        · exact e
      obtain ⟨j, hj⟩ := ih hm
      exact ⟨j + 1, by simp [hs, hj]⟩

theorem addNode_keeps {α : Type} [DecidableEq α] (tbl : List α) (p q : α) (h : q ∈ tbl) : q ∈ (addNode tbl p).2 := by
  unfold addNode
  cases find tbl p <;> simp [h]

theorem addNode_adds {α : Type} [DecidableEq α] (tbl : List α) (p : α) : p ∈ (addNode tbl p).2 := by
  unfold addNode
  cases h : find tbl p with
  | none => simp
  | some i => exact List.mem_of_getElem? (find_spec tbl p i h)

theorem internAll_mem_gen {α : Type} [DecidableEq α] (ks tbl : List α) (q : α) (h : q ∈ tbl ∨ q ∈ ks) :
    q ∈ ks.foldl (fun t k => (addNode t k).2) tbl := by
  induction ks generalizing tbl with
  | nil => simpa using h
  | cons p r ih =>
    simp only [List.foldl_cons]
    apply ih
    rcases h with h | h
    · exact Or.inl (addNode_keeps tbl p q h)
    · rcases List.mem_cons.1 h with e | e
      · subst e; exact Or.inl (addNode_adds tbl q)
      · exact Or.inr e

/-- for ANY key function: two requests of a body share an instance iff their keys are equal -/
theorem instance_eq_iff_key_eq (f : Src → SourceKey) (rs : List Req) (r q : Req) (hr : r ∈ rs) (_hq : q ∈ rs) :
    instanceWith f rs r = instanceWith f rs q ↔ keyWith f r = keyWith f q := by
  have hm : keyWith f r ∈ internAll (rs.map (keyWith f)) :=
    internAll_mem_gen _ [] _ (Or.inr (List.mem_map.2 ⟨r, hr, rfl⟩))
  obtain ⟨i, hi⟩ := find_of_mem _ _ hm
  constructor
  · intro h
    unfold instanceWith at h
    have hj : find (internAll (rs.map (keyWith f))) (keyWith f q) = some i := by rw [← h, hi]
    have e1 := find_spec _ _ i hi
    have e2 := find_spec _ _ i hj
    rw [e1] at e2
    exact Option.some.inj e2
  · intro h; unfold instanceWith; rw [h]

/-- **Two body nodes are merged iff they are the same request: same definition, same scalars, same sources including
    the path.** (the lemma the seed falsifies) -/
theorem merged_iff_same_def_scalars_sources (rs : List Req) (r q : Req) (hr : r ∈ rs) (hq : q ∈ rs) :
    instanceOf rs r = instanceOf rs q ↔ (r.defn = q.defn ∧ r.scalars = q.scalars ∧ r.inputs = q.inputs) := by
  unfold instanceOf
  rw [instance_eq_iff_key_eq sourceKeyFor rs r q hr hq]
  show keyOf r = keyOf q ↔ _
  rw [keyOf_eq_iff]
  constructor
  · intro h; rw [h]; exact ⟨rfl, rfl, rfl⟩
  · intro ⟨h1, h2, h3⟩; cases r; cases q; simp_all

/-- every request is served by a node that has exactly its own inputs (what it reads nested = what it reads inlined) -/
theorem served_by_own_inputs (rs : List Req) (r : Req) (hr : r ∈ rs) : servedByWith sourceKeyFor rs r = some r := by
  unfold servedByWith
  have : (rs.find? fun q => keyWith sourceKeyFor q = keyWith sourceKeyFor r).isSome := by
    rw [List.find?_isSome]; exact ⟨r, hr, by simp⟩
  obtain ⟨q, hq⟩ := Option.isSome_iff_exists.1 this
  have hk := List.find?_some hq
  simp only [decide_eq_true_eq] at hk
  rw [hq, (keyOf_eq_iff q r).1 hk]

/-! ### counter-witness: the s85 key -/

/-- twins: the same node type (definition 5, scalars 2) on element 0 and on element 1 of the declared argument 0 -/
def twin0 : Req := { defn := 5, scalars := 2, inputs := [(.declared 0 [0] 1, [0])] }
def twin1 : Req := { defn := 5, scalars := 2, inputs := [(.declared 0 [1] 1, [0])] }

/-- Without the declared path in the key the twins are merged and the second one is served by the node wired to
    element 0; with the key as coded they are two nodes.  Twins on captured elements or on two separate arguments are
    not affected by that variant. -/
theorem no_declared_path_merges_twins :
    twin0 ≠ twin1 ∧
    instanceWith sourceKeyForNoDeclaredPath [twin0, twin1] twin0 = instanceWith sourceKeyForNoDeclaredPath [twin0, twin1] twin1 ∧
    servedByWith sourceKeyForNoDeclaredPath [twin0, twin1] twin1 = some twin0 ∧
    instanceOf [twin0, twin1] twin0 = some 0 ∧ instanceOf [twin0, twin1] twin1 = some 1 ∧
    servedByWith sourceKeyFor [twin0, twin1] twin1 = some twin1 := by
  decide

/-! ### non-vacuity -/

def demoBody : List Req :=
  [twin0, twin1, twin0,                                             -- a repeated request is legitimately shared
   { defn := 5, scalars := 3, inputs := [(.declared 0 [1] 1, [0])] },  -- other scalars
   { defn := 6, scalars := 2, inputs := [(.declared 0 [1] 1, [0])] },  -- other node type
   { defn := 5, scalars := 2, inputs := [(.declared 1 [] 1, [0])] },   -- another argument
   { defn := 5, scalars := 2, inputs := [(.captured 0 [1] 1, [0])] },  -- a captured port with the same ordinal and path
   { defn := 5, scalars := 2, inputs := [(.peered 3 [1] 0 1, [0])] }]

example : demoBody.map (instanceOf demoBody) = [some 0, some 1, some 0, some 2, some 3, some 4, some 5, some 6] := by decide

end HgVerif.BoundaryKey
