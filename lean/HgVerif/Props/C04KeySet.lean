import HgVerif.Model.KeySet
import HgVerif.Props.C04Bind
/-!
# C04 — the key-set endpoint of a dictionary tells the truth

About `Model/KeySet.lean` (the dictionary's record `d`, the key set's own record `k`, the live keys), for EVERY
history of the primitive steps (`at`, child write, `erase`, `touch`, empty `apply_delta`) - every `set`,
`copy_value_from`, `apply_delta` is a sequence of them in one cycle:

* `keyset_lmt_le_dict_lmt`   : the key set's last-modified-time never exceeds the dictionary's (any history, any times).
* `run_kinv`                 : `k ≤ d ≤ now`, a dictionary with a live key has a valid key set.
* `keyset_valid_iff_dict_valid` : after EVERY history with positive times the key set is valid exactly when the
                               dictionary is: valid from the dictionary's FIRST write on, whatever that write is - an
                               `at`, a bare `touch()`, an empty delta, an erase of an absent key, a `clear()`.  This is the
                               lemma the seeded change s64 falsifies (`seeded_touch_leaves_keyset_invalid`) and the rule
                               before /repo 8d7f72a falsified (`prefix_blind_erase_leaves_keyset_invalid`).
* `keyset_modified_iff_membership_changed_or_first_write` : a step at `t` makes the key set read modified at `t`
                               iff it already did, or the step writes the dictionary and (changes the membership or
                               the key set was never valid).
* `keyset_lmt_eq_spec`       : the code (`stamps`) IS the tidy rule (`specStamps`) on every history: same
                               records, same keys, after every history.
* `keyset_endpoint_record`, `keyset_consumer_eq_keyset_record` : seen as producer endpoints of `Model/TrackBind.lean`
                               the dictionary and its key set carry exactly `d` and `k`; a TSS input bound (plain
                               bind, at any point of the history) to the key set reads modified exactly when
                               `k = now` and last-modified-time `k` - the producer's key-set record.

Regression witnesses: `prefix_blind_erase_leaves_keyset_invalid` / `prefix_not_keysetValid` - with the rule before
/repo 8d7f72a (`stampsPreFix`: an erase of an absent key never looks at the key set) a blind erase as the very first
write leaves the dictionary valid and its key set invalid, while the coded rule keeps both valid on the same history;
`clear_validates_keyset` - `clear()` on a never-valid dictionary validates the key set.
-/
namespace HgVerif.KeySet
open HgVerif.TrackBind (record record_le le_record_left le_record_right record_eq_of_le)

theorem record_mono {a b t : Nat} (h : a ≤ b) : record a t ≤ record b t := by
  unfold record; split <;> split <;> omega

theorem record_ne_zero {k t : Nat} (ht : 0 < t) : record k t ≠ 0 := by
  unfold record; split <;> omega

theorem record_ne_zero_of_ne {k t : Nat} (hk : k ≠ 0) : record k t ≠ 0 := by
  unfold record; split <;> omega

/-- whenever the key set is stamped the dictionary is -/
theorem stamps_ticks (s : DK) (p : Prim) (h : stamps s p = true) : ticks s p = true := by
  cases p <;> simp_all [stamps, ticks]

theorem step_k_le_d (s : DK) (p : Prim) (t : Nat) (h : s.k ≤ s.d) : (dkStep s p t).k ≤ (dkStep s p t).d := by
  unfold dkStep
  simp only
  by_cases hs : stamps s p = true
  · simp only [hs, stamps_ticks s p hs, if_true]; exact record_mono h
  · simp only [hs]
    by_cases ht : ticks s p = true
    · simp only [ht, if_true, Bool.false_eq_true, if_false]; exact Nat.le_trans h (le_record_left _ _)
    · simp only [ht, Bool.false_eq_true, if_false]; exact h

/-- **the key set's last-modified-time never exceeds the dictionary's** - every history, any times -/
theorem keyset_lmt_le_dict_lmt : ∀ (h : List (Prim × Nat)) (s : DK), s.k ≤ s.d → (dkRun h s).k ≤ (dkRun h s).d
  | [], _, hs => hs
  | x :: xs, s, hs => keyset_lmt_le_dict_lmt xs (dkStep s x.1 x.2) (step_k_le_d s x.1 x.2 hs)

structure KInv (now : Nat) (s : DK) : Prop where
  k_le_d : s.k ≤ s.d
  d_le : s.d ≤ now
  keys_k : s.keys ≠ [] → s.k ≠ 0

theorem step_keys_k (s : DK) (p : Prim) (t : Nat) (ht : 0 < t) (h : s.keys ≠ [] → s.k ≠ 0) :
    (dkStep s p t).keys ≠ [] → (dkStep s p t).k ≠ 0 := by
  intro hk
  unfold dkStep at hk ⊢
  simp only at hk ⊢
  by_cases hs : stamps s p = true
  · simp only [hs, if_true]; exact record_ne_zero ht
  · simp only [hs, Bool.false_eq_true, if_false]
    apply h
    cases p with
    | «at» key =>
      simp only [stamps, Bool.not_eq_true', Bool.not_eq_false] at hs
      simp only [keysAfter, hs, if_true] at hk; exact hk
    | erase key =>
      intro he; simp [keysAfter, he] at hk
    | childTick key => simpa [keysAfter] using hk
    | touch => simpa [keysAfter] using hk
    | emptyDelta => simpa [keysAfter] using hk

theorem step_kinv {now : Nat} {s : DK} (h : KInv now s) (p : Prim) (t : Nat) (hn : now ≤ t) (h0 : 0 < t) :
    KInv t (dkStep s p t) := by
  refine ⟨step_k_le_d s p t h.k_le_d, ?_, step_keys_k s p t h0 h.keys_k⟩
  unfold dkStep; simp only
  have := h.d_le
  split
  · exact record_le (by omega) (Nat.le_refl _)
  · omega

theorem kinv_init : KInv 0 {} := ⟨Nat.le_refl _, Nat.le_refl _, fun h => absurd rfl h⟩

theorem dkRun_cons (x : Prim × Nat) (xs : List (Prim × Nat)) (s : DK) :
    dkRun (x :: xs) s = dkRun xs (dkStep s x.1 x.2) := rfl

theorem run_kinv : ∀ (h : List (Prim × Nat)) (now : Nat) (s : DK), KInv now s → MonoK now h →
    KInv (endTimeK now h) (dkRun h s)
  | [], _, _, hi, _ => hi
  | x :: xs, _, s, hi, hm => by
    rw [dkRun_cons]
    exact run_kinv xs x.2 (dkStep s x.1 x.2) (step_kinv hi x.1 x.2 hm.1 hm.2.1) hm.2.2

/-! ## valid -/

/-- one step keeps "key set valid ⇔ dictionary valid" -/
theorem step_valid_iff (s : DK) (p : Prim) (t : Nat) (ht : 0 < t)
    (hk : s.keys ≠ [] → s.k ≠ 0) (hv : s.k ≠ 0 ↔ s.d ≠ 0) :
    (dkStep s p t).k ≠ 0 ↔ (dkStep s p t).d ≠ 0 := by
  unfold dkStep; simp only
  cases p with
  | «at» key =>
    simp only [stamps, ticks]
    by_cases hc : (!s.keys.contains key) = true
    · simp only [hc, if_true]; exact ⟨fun _ => record_ne_zero ht, fun _ => record_ne_zero ht⟩
    · simp only [hc, Bool.false_eq_true, if_false]; exact hv
  | childTick key =>
    simp only [stamps, ticks, Bool.false_eq_true, if_false]
    by_cases hc : s.keys.contains key = true
    · have hne : s.keys ≠ [] := by intro h; rw [h] at hc; simp at hc
      have hk0 : s.k ≠ 0 := hk hne
      simp only [hc, if_true]
      exact ⟨fun _ => record_ne_zero ht, fun _ => hk0⟩
    · simp only [hc, Bool.false_eq_true, if_false]; exact hv
  | erase key =>
    simp only [stamps, ticks, if_true, Bool.or_eq_true, beq_iff_eq]
    by_cases hc : s.keys.contains key = true ∨ s.k = 0
    · rw [if_pos hc]; exact ⟨fun _ => record_ne_zero ht, fun _ => record_ne_zero ht⟩
    · have hk0 : s.k ≠ 0 := fun h => hc (Or.inr h)
      rw [if_neg hc]; exact ⟨fun _ => record_ne_zero ht, fun _ => hk0⟩
  | touch =>
    simp only [stamps, ticks, if_true, beq_iff_eq]
    by_cases hk0 : s.k = 0
    · simp only [hk0, if_true]; exact ⟨fun _ => record_ne_zero ht, fun _ => record_ne_zero ht⟩
    · simp only [hk0, if_false]; exact ⟨fun _ => record_ne_zero ht, fun _ => hk0⟩
  | emptyDelta =>
    simp only [stamps, ticks, Bool.and_eq_true, beq_iff_eq]
    by_cases hd : s.d = 0
    · have hk0 : s.k = 0 := by
        by_cases h : s.k = 0
        · exact h
        · exact absurd hd (hv.mp h)
      have h1 : (s.d = 0 ∧ s.k = 0) := ⟨hd, hk0⟩
      rw [if_pos h1, if_pos hd]
      exact ⟨fun _ => record_ne_zero ht, fun _ => record_ne_zero ht⟩
    · have h1 : ¬ (s.d = 0 ∧ s.k = 0) := fun h => hd h.1
      rw [if_neg h1, if_neg hd]; exact hv

/-- **the key set is valid exactly when the dictionary is** - after EVERY history with positive times: valid from the
dictionary's first write on, whatever that write is -/
theorem keyset_valid_iff_dict_valid : ∀ (h : List (Prim × Nat)) (now : Nat) (s : DK), MonoK now h →
    (s.keys ≠ [] → s.k ≠ 0) → (s.k ≠ 0 ↔ s.d ≠ 0) →
    ((dkRun h s).k ≠ 0 ↔ (dkRun h s).d ≠ 0)
  | [], _, _, _, _, hv => hv
  | x :: xs, _, s, hm, hk, hv => by
    rw [dkRun_cons]
    exact keyset_valid_iff_dict_valid xs x.2 (dkStep s x.1 x.2) hm.2.2
      (step_keys_k s x.1 x.2 hm.2.1 hk) (step_valid_iff s x.1 x.2 hm.2.1 hk hv)

/-- the same from the fresh dictionary -/
theorem keyset_valid_iff_dict_valid_fresh (h : List (Prim × Nat)) (hm : MonoK 0 h) :
    (dkRun h {}).k ≠ 0 ↔ (dkRun h {}).d ≠ 0 :=
  keyset_valid_iff_dict_valid h 0 {} hm (fun h => absurd rfl h) ⟨fun h => absurd rfl h, fun h => absurd rfl h⟩

/-! ## modified -/

/-- the code is the tidy rule -/
theorem stamps_eq_spec (s : DK) (p : Prim) (hk : s.keys ≠ [] → s.k ≠ 0) :
    stamps s p = specStamps s p := by
  unfold specStamps
  cases p with
  | «at» key => simp only [stamps, ticks, changed]; cases (!s.keys.contains key) <;> simp
  | childTick key =>
    simp only [stamps, ticks, changed, Bool.false_or]
    cases hc : s.keys.contains key
    · simp
    · have hne : s.keys ≠ [] := by intro h; rw [h] at hc; simp at hc
      have hk0 : s.k ≠ 0 := hk hne
      simp [hk0]
  | erase key => simp [stamps, ticks, changed]
  | touch => simp [stamps, ticks, changed]
  | emptyDelta => simp [stamps, ticks, changed]

/-- **modified exactly on a membership change or the first write**: a step at `t ≥ now` -/
theorem keyset_modified_iff_membership_changed_or_first_write {now : Nat} {s : DK} (hi : KInv now s) (p : Prim)
    (t : Nat) (hn : now ≤ t) :
    (dkStep s p t).k = t ↔ (s.k = t ∨ (ticks s p = true ∧ (changed s p = true ∨ s.k = 0))) := by
  have hkle : s.k ≤ t := Nat.le_trans (Nat.le_trans hi.k_le_d hi.d_le) hn
  have hspec := stamps_eq_spec s p hi.keys_k
  unfold dkStep; simp only
  by_cases hs : stamps s p = true
  · simp only [hs, if_true, record_eq_of_le hkle, true_iff]
    right
    rw [hspec] at hs
    unfold specStamps at hs
    simpa using hs
  · simp only [hs, Bool.false_eq_true, if_false]
    constructor
    · exact fun h => Or.inl h
    · rintro (h | h)
      · exact h
      · exfalso; apply hs; rw [hspec]; unfold specStamps; simpa using h

/-- the tidy machine: the key set is stamped iff the dictionary is written and (membership changes or never valid) -/
def specStep (s : DK) (p : Prim) (t : Nat) : DK :=
  { d := if ticks s p then record s.d t else s.d
    k := if specStamps s p then record s.k t else s.k
    keys := keysAfter s p }

def specRun (h : List (Prim × Nat)) (s : DK) : DK := h.foldl (fun s x => specStep s x.1 x.2) s

/-- the code and the tidy machine agree on both records and the keys, after every history -/
theorem keyset_lmt_eq_spec : ∀ (h : List (Prim × Nat)) (now : Nat) (s : DK), MonoK now h →
    (s.keys ≠ [] → s.k ≠ 0) → dkRun h s = specRun h s
  | [], _, _, _, _ => rfl
  | x :: xs, _, s, hm, hk => by
    have hstep : dkStep s x.1 x.2 = specStep s x.1 x.2 := by
      unfold dkStep specStep; rw [stamps_eq_spec s x.1 hk]
    show dkRun xs (dkStep s x.1 x.2) = specRun xs (specStep s x.1 x.2)
    rw [← hstep]
    exact keyset_lmt_eq_spec xs x.2 (dkStep s x.1 x.2) hm.2.2 (step_keys_k s x.1 x.2 hm.2.1 hk)

/-! ## regression witnesses: the rule before /repo 8d7f72a, and the seeded change s64 -/

def dkRunPreFix (h : List (Prim × Nat)) (s : DK) : DK := h.foldl (fun s x => dkStepPreFix s x.1 x.2) s

/-- with the pre-fix rule an `erase` of an absent key as the very first write leaves the dictionary valid and its key
set invalid - in that cycle and after a later blind erase; the coded rule keeps both valid on the same history -/
theorem prefix_blind_erase_leaves_keyset_invalid :
    let h : List (Prim × Nat) := [(.erase 5, 1), (.erase 5, 2)]
    MonoK 0 h ∧ (dkRunPreFix h {}).d = 2 ∧ (dkRunPreFix h {}).k = 0 ∧ (dkRun h {}).d = 2 ∧ (dkRun h {}).k = 1 := by
  refine ⟨by simp [MonoK], by decide, by decide, by decide, by decide⟩

/-- so the validity lemma is false for the pre-fix rule -/
theorem prefix_not_keysetValid :
    ¬ (∀ (h : List (Prim × Nat)), MonoK 0 h → ((dkRunPreFix h {}).k ≠ 0 ↔ (dkRunPreFix h {}).d ≠ 0)) := by
  intro h
  have h1 := h [(.erase 5, 1)] (by simp [MonoK])
  exact absurd (h1.mpr (by decide)) (by decide)

/-- `clear()` (= `touch`, then `erase` of every live key) on a never-valid dictionary validates dictionary and key set -/
theorem clear_validates_keyset (t : Nat) (ht : 0 < t) :
    (dkRun ((clearPrims {}).map (fun p => (p, t))) {}).k = t ∧ (dkRun ((clearPrims {}).map (fun p => (p, t))) {}).d = t := by
  simp [clearPrims, dkRun, dkStep, stamps, ticks, keysAfter, record]
  omega

/-- the seeded change s64 (the test in `touch()` reads the dictionary's record after it was stamped): a first write
that is a bare `touch()` (or an empty delta) leaves the key set invalid in that cycle and in every later one until a
key is inserted or erased - where the code at HEAD keeps it valid -/
theorem seeded_touch_leaves_keyset_invalid :
    let h : List (Prim × Nat) := [(.touch, 1), (.touch, 2), (.emptyDelta, 3)]
    (dkRun h {}).k = 1 ∧ (dkRun h {}).d = 2 ∧
      (h.foldl (fun s x => dkStepSeeded s x.1 x.2) {}).k = 0 ∧ (h.foldl (fun s x => dkStepSeeded s x.1 x.2) {}).d = 2 := by
  refine ⟨by decide, by decide, by decide, by decide⟩

/-! ## the dictionary and its key set as producer endpoints; a consumer bound to the key set -/

def prodAfter (evs : List TrackBind.Ev) (P : TrackBind.Prod) : TrackBind.Prod := evs.foldl TrackBind.stepP P

theorem run_fst (st : Bool) : ∀ (evs : List TrackBind.Ev) (s : TrackBind.Prod × TrackBind.Link),
    (TrackBind.run st evs s).1 = prodAfter evs s.1
  | [], _ => rfl
  | e :: es, s => by
    rw [TrackBind.run_cons]; exact run_fst st es (TrackBind.step st s e)

theorem prodAfter_append (a b : List TrackBind.Ev) (P : TrackBind.Prod) :
    prodAfter (a ++ b) P = prodAfter b (prodAfter a P) := by
  unfold prodAfter; rw [List.foldl_append]

/-- the events of one step move the two endpoint records exactly as the step moves `d` and `k` -/
theorem evsOf_records (o ko : Nat) (hne : o ≠ ko) (s : DK) (p : Prim) (t : Nat) (P : TrackBind.Prod)
    (hd : P.L o = s.d) (hk : P.L ko = s.k) :
    (prodAfter (evsOf o ko s p t) P).L o = (dkStep s p t).d ∧ (prodAfter (evsOf o ko s p t) P).L ko = (dkStep s p t).k := by
  have hne' : ko ≠ o := fun h => hne h.symm
  unfold evsOf dkStep prodAfter
  by_cases ht : ticks s p = true <;> by_cases hs : stamps s p = true <;>
    simp [ht, hs, TrackBind.stepP, hd, hk, hne, hne']

/-- **the two endpoints carry `d` and `k`** after every history -/
theorem keyset_endpoint_record (o ko : Nat) (hne : o ≠ ko) : ∀ (h : List (Prim × Nat)) (s : DK) (P : TrackBind.Prod),
    P.L o = s.d → P.L ko = s.k →
    (prodAfter (evsRun o ko s h) P).L o = (dkRun h s).d ∧ (prodAfter (evsRun o ko s h) P).L ko = (dkRun h s).k
  | [], _, _, hd, hk => ⟨hd, hk⟩
  | x :: xs, s, P, hd, hk => by
    have h1 := evsOf_records o ko hne s x.1 x.2 P hd hk
    have he : evsRun o ko s (x :: xs) = evsOf o ko s x.1 x.2 ++ evsRun o ko (dkStep s x.1 x.2) xs := rfl
    rw [he, prodAfter_append, dkRun_cons]
    exact keyset_endpoint_record o ko hne xs (dkStep s x.1 x.2) _ h1.1 h1.2

theorem evsRun_noBind (o ko : Nat) : ∀ (h : List (Prim × Nat)) (s : DK), TrackBind.NoBind (evsRun o ko s h)
  | [], _ => by intro e he; cases he
  | x :: xs, s => by
    intro e he
    simp only [evsRun, List.mem_append] at he
    rcases he with he | he
    · unfold evsOf at he
      simp only [List.mem_append] at he
      rcases he with he | he
      · split at he
        · simp only [List.mem_singleton] at he; subst he; rfl
        · cases he
      · split at he
        · simp only [List.mem_singleton] at he; subst he; rfl
        · cases he
    · exact evsRun_noBind o ko xs (dkStep s x.1 x.2) e he

theorem evsRun_append (o ko : Nat) : ∀ (a b : List (Prim × Nat)) (s : DK),
    evsRun o ko s (a ++ b) = evsRun o ko s a ++ evsRun o ko (dkRun a s) b
  | [], _, _ => rfl
  | x :: xs, b, s => by
    show evsOf o ko s x.1 x.2 ++ evsRun o ko (dkStep s x.1 x.2) (xs ++ b) = _
    rw [evsRun_append o ko xs b (dkStep s x.1 x.2)]
    simp [evsRun, dkRun_cons, List.append_assoc]

theorem dkRun_append (a b : List (Prim × Nat)) (s : DK) : dkRun (a ++ b) s = dkRun b (dkRun a s) := by
  unfold dkRun; rw [List.foldl_append]

/-- **a consumer bound to the key set agrees with the producer's key-set record**: the dictionary (output `o`, key-set
endpoint `ko`) goes through `pre`, a fresh TSS input is bound to the key set with the plain bind in cycle `tb`, the
dictionary goes through `post`; read in the last cycle `q`: the consumer is bound to the key set, reads modified
exactly when the key-set record is `q`, and its last-modified-time is the key-set record -/
theorem keyset_consumer_eq_keyset_record (st : Bool) (o ko : Nat) (hne : o ≠ ko) (pre post : List (Prim × Nat))
    (tb : Nat) (pp : Bool)
    (hm : TrackBind.Mono 0 (evsRun o ko {} pre ++ [.bind ko tb false pp] ++ evsRun o ko (dkRun pre {}) post)) :
    let evs := evsRun o ko {} pre ++ [.bind ko tb false pp] ++ evsRun o ko (dkRun pre {}) post
    let s := TrackBind.run st evs (TrackBind.Prod.init, {})
    let q := TrackBind.endTime 0 evs
    s.2.tgt = some ko ∧ (TrackBind.cModified s.1 s.2 q ↔ (q ≠ 0 ∧ (dkRun (pre ++ post) {}).k = q)) ∧
      TrackBind.cLmt s.1 s.2 = (dkRun (pre ++ post) {}).k := by
  intro evs s q
  have hplain := TrackBind.plain_first_bind_agrees st (evsRun o ko {} pre) (evsRun o ko (dkRun pre {}) post) ko tb pp
    (evsRun_noBind o ko pre {}) (evsRun_noBind o ko post _) hm
  -- the key-set endpoint carries k
  have hL : s.1.L ko = (dkRun (pre ++ post) {}).k := by
    show (TrackBind.run st evs (TrackBind.Prod.init, {})).1.L ko = _
    rw [run_fst]
    show (prodAfter (evsRun o ko {} pre ++ [.bind ko tb false pp] ++ evsRun o ko (dkRun pre {}) post) _).L ko = _
    rw [prodAfter_append, prodAfter_append]
    have h1 := keyset_endpoint_record o ko hne pre {} TrackBind.Prod.init rfl rfl
    have hbind : prodAfter [TrackBind.Ev.bind ko tb false pp] (prodAfter (evsRun o ko {} pre) TrackBind.Prod.init) =
        prodAfter (evsRun o ko {} pre) TrackBind.Prod.init := rfl
    rw [hbind]
    have h2 := keyset_endpoint_record o ko hne post (dkRun pre {}) _ h1.1 h1.2
    rw [dkRun_append]; exact h2.2
  refine ⟨hplain.1, ?_, ?_⟩
  · rw [hplain.2.1]; unfold TrackBind.pModified; rw [hL]
  · rw [hplain.2.2]; exact hL

/-! ## non-vacuity -/

/-- first write EMPTY (bare touch at 1), quiet, a value-only... first key at 3, value-only write at 4, erase at 5 -/
def exEmptyFirst : List (Prim × Nat) := [(.touch, 1), (.at 3, 3), (.childTick 3, 3), (.childTick 3, 4), (.erase 3, 5), (.touch, 7)]
/-- first write WITH a key (control) -/
def exKeyFirst : List (Prim × Nat) := [(.at 1, 1), (.childTick 1, 1), (.childTick 1, 3), (.emptyDelta, 4)]

example : MonoK 0 exEmptyFirst := by simp [exEmptyFirst, MonoK]
example : MonoK 0 exKeyFirst := by simp [exKeyFirst, MonoK]
/-- first write = an erase of an absent key: both valid (the repaired rule) -/
example : (dkRun [(.erase 5, 1)] {}).k = 1 ∧ (dkRun [(.erase 5, 1)] {}).d = 1 := by decide
/-- after the empty first write both are valid and modified at 1 -/
example : (dkRun (exEmptyFirst.take 1) {}).k = 1 ∧ (dkRun (exEmptyFirst.take 1) {}).d = 1 := by decide
/-- the value-only write at 4 ticks the dictionary, not the key set; the erase at 5 ticks both; the touch at 7 the
dictionary only (the key set is valid already) -/
example : (dkRun (exEmptyFirst.take 4) {}).k = 3 ∧ (dkRun (exEmptyFirst.take 4) {}).d = 4 ∧
    (dkRun (exEmptyFirst.take 5) {}).k = 5 ∧ (dkRun exEmptyFirst {}).k = 5 ∧ (dkRun exEmptyFirst {}).d = 7 := by decide
/-- control: first write with a key; the empty delta at 4 on the valid dictionary is not applied -/
example : (dkRun exKeyFirst {}).k = 1 ∧ (dkRun exKeyFirst {}).d = 3 ∧ (dkRun exKeyFirst {}).keys = [1] := by decide
/-- the events of the empty-first history and a key-set input bound at 2 -/
example : TrackBind.Mono 0 (evsRun 0 2 {} (exEmptyFirst.take 1) ++ [.bind 2 2 false false] ++
    evsRun 0 2 (dkRun (exEmptyFirst.take 1) {}) (exEmptyFirst.drop 1)) := by
  simp [exEmptyFirst, evsRun, evsOf, dkRun, dkStep, stamps, ticks, keysAfter, record, TrackBind.Mono, TrackBind.Ev.time]

end HgVerif.KeySet
