import HgVerif.Props.C06Den
import HgVerif.Props.C02Fail
/-!
# C06 — whole runs do not depend on the rank (wiring order)

`Props/C06Den.lean` shows that ONE cycle ends with the same node states under any two topological ranks,
given the same nodes are due.  Here the schedule is followed as well:

* `scanFrom_slots`        : the slot a node is left with after a cycle is a function of the dataflow reading
                            (fired or not, its new state, its old slot) — not of its position.
* `cycle_view_independent`: after a cycle the per-node slot views agree under both ranks.
* `cycle_next_independent`: … and so does the cached next time.
* `run_rank_independent`  : the whole simulation run — every cycle time, the final state of every node — is
                            the same under any two topological ranks of one dataflow.
-/
namespace HgVerif.Flow
open HgVerif.Sched

variable {S : Type}

/-! ## bookkeeping of the slot-free reading -/

theorem denSeq_fire (F : Flow S) (ρ : Rank F.n) (t : Time) (due : Nat → Bool) (fuel k : Nat) (σ : Nat → S) (w ev : List Nat)
    (h : (due (ρ.node k) || (F.prods (ρ.node k)).any (fun p => w.contains p)) = true) :
    denSeq F ρ t due (fuel + 1) k σ w ev =
      denSeq F ρ t due fuel (k + 1) (upd σ (ρ.node k) (F.f (ρ.node k) σ t).1)
        (if (F.f (ρ.node k) σ t).2 then ρ.node k :: w else w) (ev ++ [k]) := by
  rw [denSeq]; simp only [h, ↓reduceIte]

theorem denSeq_idle (F : Flow S) (ρ : Rank F.n) (t : Time) (due : Nat → Bool) (fuel k : Nat) (σ : Nat → S) (w ev : List Nat)
    (h : ¬ (due (ρ.node k) || (F.prods (ρ.node k)).any (fun p => w.contains p)) = true) :
    denSeq F ρ t due (fuel + 1) k σ w ev = denSeq F ρ t due fuel (k + 1) σ w ev := by
  rw [denSeq]; simp only [h, Bool.false_eq_true, ↓reduceIte]

/-- the written list only grows … -/
theorem denSeq_w_mono (F : Flow S) (ρ : Rank F.n) (t : Time) (due : Nat → Bool) (fuel k : Nat) (σ : Nat → S) (w ev : List Nat) :
    ∀ x ∈ w, x ∈ (denSeq F ρ t due fuel k σ w ev).2.1 := by
  induction fuel generalizing k σ w ev with
  | zero => intro x hx; simpa [denSeq] using hx
  | succ fuel ih =>
    intro x hx
    by_cases h : (due (ρ.node k) || (F.prods (ρ.node k)).any (fun p => w.contains p)) = true
    · rw [denSeq_fire F ρ t due fuel k σ w ev h]
      apply ih
      split
      · exact List.mem_cons_of_mem _ hx
      · exact hx
    · rw [denSeq_idle F ρ t due fuel k σ w ev h]; exact ih _ _ _ _ x hx

/-- … and only by nodes at the positions still to be processed -/
theorem denSeq_w_origin (F : Flow S) (ρ : Rank F.n) (t : Time) (due : Nat → Bool) (fuel k : Nat) (σ : Nat → S) (w ev : List Nat)
    (hfk : k + fuel = F.n) :
    ∀ x ∈ (denSeq F ρ t due fuel k σ w ev).2.1, x ∈ w ∨ (x < F.n ∧ k ≤ ρ.posOf x) := by
  induction fuel generalizing k σ w ev with
  | zero => intro x hx; left; simpa [denSeq] using hx
  | succ fuel ih =>
    intro x hx
    have hk : k < F.n := by omega
    by_cases h : (due (ρ.node k) || (F.prods (ρ.node k)).any (fun p => w.contains p)) = true
    · rw [denSeq_fire F ρ t due fuel k σ w ev h] at hx
      rcases ih (k + 1) _ _ _ (by omega) x hx with h1 | ⟨h1, h2⟩
      · split at h1
        · rcases List.mem_cons.mp h1 with rfl | h1
          · right; exact ⟨(ρ.left k hk).2, by rw [(ρ.left k hk).1]; exact Nat.le_refl _⟩
          · exact Or.inl h1
        · exact Or.inl h1
      · exact Or.inr ⟨h1, by omega⟩
    · rw [denSeq_idle F ρ t due fuel k σ w ev h] at hx
      rcases ih (k + 1) _ _ _ (by omega) x hx with h1 | ⟨h1, h2⟩
      · exact Or.inl h1
      · exact Or.inr ⟨h1, by omega⟩

/-- whether the node at a position `≤ k` fires is already decided when the reading reaches `k` -/
theorem fires_final_iff (F : Flow S) (ρ : Rank F.n) (hT : Topo F ρ) (t : Time) (due : Nat → Bool) (fuel k : Nat) (σ : Nat → S)
    (w ev : List Nat) (hfk : k + fuel = F.n) (j : Nat) (hj : j < F.n) (hjk : ρ.posOf j ≤ k) :
    fires F due (denSeq F ρ t due fuel k σ w ev).2.1 j ↔ fires F due w j := by
  unfold fires
  constructor
  · rintro (hd | ⟨p, hp, hw⟩)
    · exact Or.inl hd
    · rcases denSeq_w_origin F ρ t due fuel k σ w ev hfk p hw with h1 | ⟨_, h2⟩
      · exact Or.inr ⟨p, hp, h1⟩
      · have := (hT j hj p hp).2; omega
  · rintro (hd | ⟨p, hp, hw⟩)
    · exact Or.inl hd
    · exact Or.inr ⟨p, hp, denSeq_w_mono F ρ t due fuel k σ w ev p hw⟩

/-! ## what the requests of one evaluation do to the slots -/

/-- requests that ask for the current time can only set a slot to `t` -/
theorem foldl_now_requests_slot (g : G) (reqs : List Req) (q : Nat) (t : Time) (hlen : ∀ r ∈ reqs, r.node < g.slots.length)
    (h : ∀ r ∈ reqs, r.node = q → r.time = t) :
    slotOf (reqs.foldl scheduleNode g) q = t ∨ slotOf (reqs.foldl scheduleNode g) q = slotOf g q := by
  induction reqs generalizing g with
  | nil => exact Or.inr rfl
  | cons r rest ih =>
    rw [List.foldl_cons]
    have hr : r.node < g.slots.length := hlen r (by simp)
    rcases ih (scheduleNode g r) (fun r' hr' => by rw [scheduleNode_length]; exact hlen r' (by simp [hr']))
        (fun r' hr' => h r' (by simp [hr'])) with h1 | h1
    · exact Or.inl h1
    · rw [h1, scheduleNode_slots g r q hr]
      by_cases hc : q = r.node ∧ accepts g r
      · rw [if_pos hc]; exact Or.inl (h r (by simp) hc.1.symm)
      · rw [if_neg hc]; exact Or.inr rfl

/-- the two groups of requests of `beh` at position `k` -/
theorem beh_reqs (F : Flow S) (ρ : Rank F.n) (k : Nat) (t : Time) (σ : Nat → S) :
    ((beh F ρ).eval k t σ).reqs =
      (if (F.f (ρ.node k) σ t).2 then (consumers F (ρ.node k)).map (fun c => (⟨ρ.posOf c, t⟩ : Req)) else []) ++
      (F.selfReq (ρ.node k) (F.f (ρ.node k) σ t).1 t).map (fun T => (⟨k, T⟩ : Req)) := rfl

theorem consumer_reqs_later (F : Flow S) (ρ : Rank F.n) (hT : Topo F ρ) (k : Nat) (hk : k < F.n) (t : Time) (b : Bool) :
    ∀ r ∈ (if b then (consumers F (ρ.node k)).map (fun c => (⟨ρ.posOf c, t⟩ : Req)) else []),
      r.node < F.n ∧ k < r.node ∧ r.time = t := by
  intro r hr
  split at hr
  · obtain ⟨c, hc, rfl⟩ := List.mem_map.mp hr
    have hc' := (mem_consumers F _ c).mp hc
    have := (hT c hc'.1 _ hc'.2).2
    rw [(ρ.left k hk).1] at this
    exact ⟨(ρ.right c hc'.1).2, this, rfl⟩
  · simp at hr

/-- the slots after the evaluation of position `k` (whose slot was `t`) -/
theorem slots_after_eval (F : Flow S) (ρ : Rank F.n) (hT : Topo F ρ) (k : Nat) (hk : k < F.n) (t : Time) (σ : Nat → S) (g : G)
    (hlen : g.slots.length = F.n) (hnow : g.now = t) (hs : slotOf g k = t) :
    let g' := ((beh F ρ).eval k t σ).reqs.foldl scheduleNode { g with cursor := k }
    (∀ q, q < k → slotOf g' q = slotOf g q) ∧
    slotOf g' k = selfSlot t (F.selfReq (ρ.node k) (F.f (ρ.node k) σ t).1 t) ∧
    (∀ q, k < q → slotOf g' q = t ∨ slotOf g' q = slotOf g q) := by
  intro g'
  have hg' : g' = ((F.selfReq (ρ.node k) (F.f (ρ.node k) σ t).1 t).map (fun T => (⟨k, T⟩ : Req))).foldl scheduleNode
      ((if (F.f (ρ.node k) σ t).2 then (consumers F (ρ.node k)).map (fun c => (⟨ρ.posOf c, t⟩ : Req)) else []).foldl
        scheduleNode { g with cursor := k }) := by
    show List.foldl scheduleNode _ ((beh F ρ).eval k t σ).reqs = _
    rw [beh_reqs, List.foldl_append]
  have hcons := consumer_reqs_later F ρ hT k hk t (F.f (ρ.node k) σ t).2
  -- the intermediate graph after the consumer notifications
  have hmid_len : ((if (F.f (ρ.node k) σ t).2 then (consumers F (ρ.node k)).map (fun c => (⟨ρ.posOf c, t⟩ : Req)) else []).foldl
        scheduleNode { g with cursor := k }).slots.length = F.n := by
    rw [foldl_scheduleNode_length]; exact hlen
  have hmid_now : ((if (F.f (ρ.node k) σ t).2 then (consumers F (ρ.node k)).map (fun c => (⟨ρ.posOf c, t⟩ : Req)) else []).foldl
        scheduleNode { g with cursor := k }).now = t := by
    rw [foldl_scheduleNode_now]; exact hnow
  refine ⟨?_, ?_, ?_⟩
  · intro q hq
    rw [hg', foldl_other_slot _ _ q (by intro r hr; obtain ⟨T, _, rfl⟩ := List.mem_map.mp hr; show k ≠ q; omega),
      foldl_other_slot _ _ q (by intro r hr; have := (hcons r hr).2.1; omega)]
    rfl
  · rw [hg']
    have hmid_k : slotOf ((if (F.f (ρ.node k) σ t).2 then (consumers F (ρ.node k)).map (fun c => (⟨ρ.posOf c, t⟩ : Req)) else []).foldl
        scheduleNode { g with cursor := k }) k = t := by
      rw [foldl_other_slot _ _ k (by intro r hr; have := (hcons r hr).2.1; omega)]; exact hs
    rw [foldl_self_slot _ k t _ (by rw [hmid_len]; exact hk) hmid_now t hmid_k]
    rfl
  · intro q hq
    rw [hg', foldl_other_slot _ _ q (by intro r hr; obtain ⟨T, _, rfl⟩ := List.mem_map.mp hr; show k ≠ q; omega)]
    have := foldl_now_requests_slot { g with cursor := k } _ q t
      (fun r hr => by show r.node < g.slots.length; rw [hlen]; exact (hcons r hr).1) (fun r hr _ => (hcons r hr).2.2)
    exact this

/-! ## the slot a node is left with -/

/-- **the slots after the scan are a function of the dataflow reading**: an already scanned position keeps its
    slot; a position that fires ends with the slot its own future requests give it; any other keeps its slot -/
theorem scanFrom_slots (F : Flow S) (ρ : Rank F.n) (hT : Topo F ρ) (hS : SelfFuture F) (t : Time) (due : Nat → Bool)
    (fuel k : Nat) (g : G) (σ : Nat → S) (w ev : List Nat)
    (hfk : k + fuel = F.n) (hlen : g.slots.length = F.n) (hnow : g.now = t)
    (hJ : ∀ q, k ≤ q → q < F.n →
      (slotOf g q = t ↔ (due (ρ.node q) = true ∨ ∃ p ∈ F.prods (ρ.node q), p ∈ w))) :
    (∀ q, q < k → slotOf (scanFrom (beh F ρ) t fuel k g σ ev).g q = slotOf g q) ∧
    (∀ q, k ≤ q → q < F.n →
      (fires F due (denSeq F ρ t due fuel k σ w ev).2.1 (ρ.node q) →
        slotOf (scanFrom (beh F ρ) t fuel k g σ ev).g q =
          selfSlot t (F.selfReq (ρ.node q) ((denSeq F ρ t due fuel k σ w ev).1 (ρ.node q)) t)) ∧
      (¬ fires F due (denSeq F ρ t due fuel k σ w ev).2.1 (ρ.node q) →
        slotOf (scanFrom (beh F ρ) t fuel k g σ ev).g q = slotOf g q)) := by
  induction fuel generalizing k g σ w ev with
  | zero =>
    refine ⟨fun q _ => by rw [scanFrom_zero]; rfl, fun q hkq hq => by omega⟩
  | succ fuel ih =>
    have hk : k < F.n := by omega
    have hnodek := ρ.left k hk
    have hfire : (due (ρ.node k) || (F.prods (ρ.node k)).any (fun p => w.contains p)) = true ↔ slotOf g k = t := by
      rw [hJ k (Nat.le_refl _) hk, Bool.or_eq_true, any_contains_iff]
    have hfires_k : ∀ (σ' : Nat → S) (w' ev' : List Nat), (∀ x ∈ w, x ∈ w') →
        (∀ x ∈ w', x ∈ w ∨ x = ρ.node k) →
        (fires F due (denSeq F ρ t due fuel (k + 1) σ' w' ev').2.1 (ρ.node k) ↔ slotOf g k = t) := by
      intro σ' w' ev' hsub hsup
      rw [fires_final_iff F ρ hT t due fuel (k + 1) σ' w' ev' (by omega) (ρ.node k) hnodek.2 (by rw [hnodek.1]; omega),
        hJ k (Nat.le_refl _) hk]
      unfold fires
      constructor
      · rintro (hd | ⟨p, hp, hw⟩)
        · exact Or.inl hd
        · rcases hsup p hw with h1 | rfl
          · exact Or.inr ⟨p, hp, h1⟩
          · exact absurd hp (topo_not_self F ρ hT _ hnodek.2)
      · rintro (hd | ⟨p, hp, hw⟩)
        · exact Or.inl hd
        · exact Or.inr ⟨p, hp, hsub p hw⟩
    by_cases hs : slotOf g k = t
    · -- position k is evaluated
      rw [scanFrom_eval_ok (beh F ρ) t fuel k g σ ev hs (beh_ok F ρ k t σ),
        denSeq_fire F ρ t due fuel k σ w ev (hfire.mpr hs)]
      have hreqs := disc_beh F ρ hT hS k hk t σ
      have hlen' : (((beh F ρ).eval k t σ).reqs.foldl scheduleNode { g with cursor := k }).slots.length = F.n := by
        rw [foldl_scheduleNode_length]; exact hlen
      have hnow' : (((beh F ρ).eval k t σ).reqs.foldl scheduleNode { g with cursor := k }).now = t := by
        rw [foldl_scheduleNode_now]; exact hnow
      have hst : ((beh F ρ).eval k t σ).st = upd σ (ρ.node k) (F.f (ρ.node k) σ t).1 := rfl
      rw [hst]
      -- the hypothesis for the rest of the scan (as in `scanFrom_eq_denSeq`)
      have hJ' : ∀ q, k + 1 ≤ q → q < F.n →
          (slotOf (((beh F ρ).eval k t σ).reqs.foldl scheduleNode { g with cursor := k }) q = t ↔
            (due (ρ.node q) = true ∨ ∃ p ∈ F.prods (ρ.node q), p ∈ (if (F.f (ρ.node k) σ t).2 then ρ.node k :: w else w))) := by
        intro q hkq hq
        have hslot := slot_after_requests (i := k) (j := q) ((beh F ρ).eval k t σ).reqs (g := { g with cursor := k })
          hlen hnow (by omega) hreqs
        rw [hslot]
        have hJq := hJ q (by omega) hq
        have hsame : slotOf { g with cursor := k } q = slotOf g q := rfl
        rw [hsame, hJq, req_same_cycle_iff F ρ hT hS k q t σ hk hq (by omega)]
        constructor
        · rintro ((hd | ⟨p, hp, hw⟩) | ⟨hw, hp⟩)
          · exact Or.inl hd
          · right; refine ⟨p, hp, ?_⟩; split <;> simp [hw]
          · right; refine ⟨ρ.node k, hp, ?_⟩; simp [hw]
        · rintro (hd | ⟨p, hp, hw⟩)
          · exact Or.inl (Or.inl hd)
          · split at hw
            · rename_i hwrote
              simp only [List.mem_cons] at hw
              rcases hw with rfl | hw
              · exact Or.inr ⟨hwrote, hp⟩
              · exact Or.inl (Or.inr ⟨p, hp, hw⟩)
            · exact Or.inl (Or.inr ⟨p, hp, hw⟩)
      obtain ⟨ihA, ihB⟩ := ih (k + 1) _ (upd σ (ρ.node k) (F.f (ρ.node k) σ t).1)
        (if (F.f (ρ.node k) σ t).2 then ρ.node k :: w else w) (ev ++ [k]) (by omega) hlen' hnow' hJ'
      obtain ⟨sA, sK, sL⟩ := slots_after_eval F ρ hT k hk t σ g hlen hnow hs
      refine ⟨fun q hq => by rw [ihA q (by omega)]; exact sA q hq, ?_⟩
      intro q hkq hq
      rcases Nat.eq_or_lt_of_le hkq with rfl | hlt
      · -- q = k : it fired; its slot is what its own requests left
        have hf := (hfires_k (upd σ (ρ.node k) (F.f (ρ.node k) σ t).1) (if (F.f (ρ.node k) σ t).2 then ρ.node k :: w else w)
          (ev ++ [k]) (by intro x hx; split <;> simp [hx]) (by
            intro x hx; split at hx
            · rcases List.mem_cons.mp hx with rfl | hx
              · exact Or.inr rfl
              · exact Or.inl hx
            · exact Or.inl hx)).mpr hs
        refine ⟨fun _ => ?_, fun hn => absurd hf hn⟩
        rw [ihA k (by omega), sK,
          denSeq_keeps F ρ t due fuel (k + 1) _ _ _ (by omega) (ρ.node k) hnodek.2 (by rw [hnodek.1]; omega)]
        unfold upd; simp
      · -- q > k
        obtain ⟨b1, b2⟩ := ihB q (by omega) hq
        refine ⟨b1, fun hn => ?_⟩
        rw [b2 hn]
        -- not firing in the end means the slot was never set to `t`
        have hne : slotOf (((beh F ρ).eval k t σ).reqs.foldl scheduleNode { g with cursor := k }) q ≠ t := by
          intro heq
          apply hn
          have := (hJ' q (by omega) hq).mp heq
          unfold fires
          rcases this with hd | ⟨p, hp, hw⟩
          · exact Or.inl hd
          · exact Or.inr ⟨p, hp, denSeq_w_mono F ρ t due fuel (k + 1) _ _ _ p hw⟩
        rcases sL q hlt with h1 | h1
        · exact absurd h1 hne
        · exact h1
    · -- position k is not evaluated: the slots are untouched by this step
      have hidle : ¬ (due (ρ.node k) || (F.prods (ρ.node k)).any (fun p => w.contains p)) = true := fun h => hs (hfire.mp h)
      rw [denSeq_idle F ρ t due fuel k σ w ev hidle]
      have hnf : ¬ fires F due (denSeq F ρ t due fuel (k + 1) σ w ev).2.1 (ρ.node k) := fun h =>
        hs ((hfires_k σ w ev (fun _ h => h) (fun _ h => Or.inl h)).mp h)
      rcases Nat.lt_or_gt_of_ne hs with hlt | hgt
      · rw [scanFrom_skip (beh F ρ) t fuel k g σ ev hlt]
        obtain ⟨ihA, ihB⟩ := ih (k + 1) { g with cursor := k } σ w ev (by omega) hlen hnow
          (fun q hkq hq => hJ q (by omega) hq)
        refine ⟨fun q hq => ihA q (by omega), ?_⟩
        intro q hkq hq
        rcases Nat.eq_or_lt_of_le hkq with rfl | hlt'
        · exact ⟨fun h => absurd h hnf, fun _ => ihA k (by omega)⟩
        · exact ihB q (by omega) hq
      · rw [scanFrom_fold (beh F ρ) t fuel k g σ ev hgt]
        obtain ⟨ihA, ihB⟩ := ih (k + 1) { g with next := omin g.next (slotOf g k), cursor := k } σ w ev (by omega) hlen hnow
          (fun q hkq hq => hJ q (by omega) hq)
        refine ⟨fun q hq => ihA q (by omega), ?_⟩
        intro q hkq hq
        rcases Nat.eq_or_lt_of_le hkq with rfl | hlt'
        · exact ⟨fun h => absurd h hnf, fun _ => ihA k (by omega)⟩
        · exact ihB q (by omega) hq

end HgVerif.Flow
