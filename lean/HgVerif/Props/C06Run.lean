import HgVerif.Props.C06Den
import HgVerif.Props.C02Fail
/-!
# C06 — whole runs do not depend on the rank (wiring order)

`Props/C06Den.lean` shows that ONE cycle ends with the same node states under any two topological ranks,
given the same nodes are due.  Here the schedule is followed as well:

* `scanFrom_slots`        : the slot a node is left with after a cycle is a function of the dataflow reading
                            (fired or not, its new state, its old slot) — not of its position.
* `cycle_view_independent`: after a cycle the per-node slot views agree under both ranks.
* `cycle_next_independent`: … and so does the cached next time.
* `run_rank_independent`  : the whole simulation run — every cycle time, the final state of every node — is
                            the same under any two topological ranks of one dataflow.
-/
namespace HgVerif.Flow
open HgVerif.Sched

variable {S : Type}

/-! ## bookkeeping of the slot-free reading -/

theorem denSeq_fire (F : Flow S) (ρ : Rank F.n) (t : Time) (due : Nat → Bool) (fuel k : Nat) (σ : Nat → S) (w ev : List Nat)
    (h : (due (ρ.node k) || (F.prods (ρ.node k)).any (fun p => w.contains p)) = true) :
    denSeq F ρ t due (fuel + 1) k σ w ev =
      denSeq F ρ t due fuel (k + 1) (upd σ (ρ.node k) (F.f (ρ.node k) σ t).1)
        (if (F.f (ρ.node k) σ t).2 then ρ.node k :: w else w) (ev ++ [k]) := by
  rw [denSeq]; simp only [h, ↓reduceIte]

theorem denSeq_idle (F : Flow S) (ρ : Rank F.n) (t : Time) (due : Nat → Bool) (fuel k : Nat) (σ : Nat → S) (w ev : List Nat)
    (h : ¬ (due (ρ.node k) || (F.prods (ρ.node k)).any (fun p => w.contains p)) = true) :
    denSeq F ρ t due (fuel + 1) k σ w ev = denSeq F ρ t due fuel (k + 1) σ w ev := by
  rw [denSeq]; simp only [h, Bool.false_eq_true, ↓reduceIte]

/-- the written list only grows … -/
theorem denSeq_w_mono (F : Flow S) (ρ : Rank F.n) (t : Time) (due : Nat → Bool) (fuel k : Nat) (σ : Nat → S) (w ev : List Nat) :
    ∀ x ∈ w, x ∈ (denSeq F ρ t due fuel k σ w ev).2.1 := by
  induction fuel generalizing k σ w ev with
  | zero => intro x hx; simpa [denSeq] using hx
  | succ fuel ih =>
    intro x hx
    by_cases h : (due (ρ.node k) || (F.prods (ρ.node k)).any (fun p => w.contains p)) = true
    · rw [denSeq_fire F ρ t due fuel k σ w ev h]
      apply ih
      split
      · exact List.mem_cons_of_mem _ hx
      · exact hx
    · rw [denSeq_idle F ρ t due fuel k σ w ev h]; exact ih _ _ _ _ x hx

/-- … and only by nodes at the positions still to be processed -/
theorem denSeq_w_origin (F : Flow S) (ρ : Rank F.n) (t : Time) (due : Nat → Bool) (fuel k : Nat) (σ : Nat → S) (w ev : List Nat)
    (hfk : k + fuel = F.n) :
    ∀ x ∈ (denSeq F ρ t due fuel k σ w ev).2.1, x ∈ w ∨ (x < F.n ∧ k ≤ ρ.posOf x) := by
  induction fuel generalizing k σ w ev with
  | zero => intro x hx; left; simpa [denSeq] using hx
  | succ fuel ih =>
    intro x hx
    have hk : k < F.n := by omega
    by_cases h : (due (ρ.node k) || (F.prods (ρ.node k)).any (fun p => w.contains p)) = true
    · rw [denSeq_fire F ρ t due fuel k σ w ev h] at hx
      rcases ih (k + 1) _ _ _ (by omega) x hx with h1 | ⟨h1, h2⟩
      · split at h1
        · rcases List.mem_cons.mp h1 with rfl | h1
          · right; exact ⟨(ρ.left k hk).2, by rw [(ρ.left k hk).1]; exact Nat.le_refl _⟩
          · exact Or.inl h1
        · exact Or.inl h1
      · exact Or.inr ⟨h1, by omega⟩
    · rw [denSeq_idle F ρ t due fuel k σ w ev h] at hx
      rcases ih (k + 1) _ _ _ (by omega) x hx with h1 | ⟨h1, h2⟩
      · exact Or.inl h1
      · exact Or.inr ⟨h1, by omega⟩

/-- whether the node at a position `≤ k` fires is already decided when the reading reaches `k` -/
theorem fires_final_iff (F : Flow S) (ρ : Rank F.n) (hT : Topo F ρ) (t : Time) (due : Nat → Bool) (fuel k : Nat) (σ : Nat → S)
    (w ev : List Nat) (hfk : k + fuel = F.n) (j : Nat) (hj : j < F.n) (hjk : ρ.posOf j ≤ k) :
    fires F due (denSeq F ρ t due fuel k σ w ev).2.1 j ↔ fires F due w j := by
  unfold fires
  constructor
  · rintro (hd | ⟨p, hp, hw⟩)
    · exact Or.inl hd
    · rcases denSeq_w_origin F ρ t due fuel k σ w ev hfk p hw with h1 | ⟨_, h2⟩
      · exact Or.inr ⟨p, hp, h1⟩
      · have := (hT j hj p hp).2; omega
  · rintro (hd | ⟨p, hp, hw⟩)
    · exact Or.inl hd
    · exact Or.inr ⟨p, hp, denSeq_w_mono F ρ t due fuel k σ w ev p hw⟩

/-! ## what the requests of one evaluation do to the slots -/

/-- requests that ask for the current time can only set a slot to `t` -/
theorem foldl_now_requests_slot (g : G) (reqs : List Req) (q : Nat) (t : Time) (hlen : ∀ r ∈ reqs, r.node < g.slots.length)
    (h : ∀ r ∈ reqs, r.node = q → r.time = t) :
    slotOf (reqs.foldl scheduleNode g) q = t ∨ slotOf (reqs.foldl scheduleNode g) q = slotOf g q := by
  induction reqs generalizing g with
  | nil => exact Or.inr rfl
  | cons r rest ih =>
    rw [List.foldl_cons]
    have hr : r.node < g.slots.length := hlen r (by simp)
    rcases ih (scheduleNode g r) (fun r' hr' => by rw [scheduleNode_length]; exact hlen r' (by simp [hr']))
        (fun r' hr' => h r' (by simp [hr'])) with h1 | h1
    · exact Or.inl h1
    · rw [h1, scheduleNode_slots g r q hr]
      by_cases hc : q = r.node ∧ accepts g r
      · rw [if_pos hc]; exact Or.inl (h r (by simp) hc.1.symm)
      · rw [if_neg hc]; exact Or.inr rfl

/-- the two groups of requests of `beh` at position `k` -/
theorem beh_reqs (F : Flow S) (ρ : Rank F.n) (k : Nat) (t : Time) (σ : Nat → S) :
    ((beh F ρ).eval k t σ).reqs =
      (if (F.f (ρ.node k) σ t).2 then (consumers F (ρ.node k)).map (fun c => (⟨ρ.posOf c, t⟩ : Req)) else []) ++
      (F.selfReq (ρ.node k) (F.f (ρ.node k) σ t).1 t).map (fun T => (⟨k, T⟩ : Req)) := rfl

theorem consumer_reqs_later (F : Flow S) (ρ : Rank F.n) (hT : Topo F ρ) (k : Nat) (hk : k < F.n) (t : Time) (b : Bool) :
    ∀ r ∈ (if b then (consumers F (ρ.node k)).map (fun c => (⟨ρ.posOf c, t⟩ : Req)) else []),
      r.node < F.n ∧ k < r.node ∧ r.time = t := by
  intro r hr
  split at hr
  · obtain ⟨c, hc, rfl⟩ := List.mem_map.mp hr
    have hc' := (mem_consumers F _ c).mp hc
    have := (hT c hc'.1 _ hc'.2).2
    rw [(ρ.left k hk).1] at this
    exact ⟨(ρ.right c hc'.1).2, this, rfl⟩
  · simp at hr

/-- the slots after the evaluation of position `k` (whose slot was `t`) -/
theorem slots_after_eval (F : Flow S) (ρ : Rank F.n) (hT : Topo F ρ) (k : Nat) (hk : k < F.n) (t : Time) (σ : Nat → S) (g : G)
    (hlen : g.slots.length = F.n) (hnow : g.now = t) (hs : slotOf g k = t) :
    let g' := ((beh F ρ).eval k t σ).reqs.foldl scheduleNode { g with cursor := k }
    (∀ q, q < k → slotOf g' q = slotOf g q) ∧
    slotOf g' k = selfSlot t (F.selfReq (ρ.node k) (F.f (ρ.node k) σ t).1 t) ∧
    (∀ q, k < q → slotOf g' q = t ∨ slotOf g' q = slotOf g q) := by
  intro g'
  have hg' : g' = ((F.selfReq (ρ.node k) (F.f (ρ.node k) σ t).1 t).map (fun T => (⟨k, T⟩ : Req))).foldl scheduleNode
      ((if (F.f (ρ.node k) σ t).2 then (consumers F (ρ.node k)).map (fun c => (⟨ρ.posOf c, t⟩ : Req)) else []).foldl
        scheduleNode { g with cursor := k }) := by
    show List.foldl scheduleNode _ ((beh F ρ).eval k t σ).reqs = _
    rw [beh_reqs, List.foldl_append]
  have hcons := consumer_reqs_later F ρ hT k hk t (F.f (ρ.node k) σ t).2
  -- the intermediate graph after the consumer notifications
  have hmid_len : ((if (F.f (ρ.node k) σ t).2 then (consumers F (ρ.node k)).map (fun c => (⟨ρ.posOf c, t⟩ : Req)) else []).foldl
        scheduleNode { g with cursor := k }).slots.length = F.n := by
    rw [foldl_scheduleNode_length]; exact hlen
  have hmid_now : ((if (F.f (ρ.node k) σ t).2 then (consumers F (ρ.node k)).map (fun c => (⟨ρ.posOf c, t⟩ : Req)) else []).foldl
        scheduleNode { g with cursor := k }).now = t := by
    rw [foldl_scheduleNode_now]; exact hnow
  refine ⟨?_, ?_, ?_⟩
  · intro q hq
    rw [hg', foldl_other_slot _ _ q (by intro r hr; obtain ⟨T, _, rfl⟩ := List.mem_map.mp hr; show k ≠ q; omega),
      foldl_other_slot _ _ q (by intro r hr; have := (hcons r hr).2.1; omega)]
    rfl
  · rw [hg']
    have hmid_k : slotOf ((if (F.f (ρ.node k) σ t).2 then (consumers F (ρ.node k)).map (fun c => (⟨ρ.posOf c, t⟩ : Req)) else []).foldl
        scheduleNode { g with cursor := k }) k = t := by
      rw [foldl_other_slot _ _ k (by intro r hr; have := (hcons r hr).2.1; omega)]; exact hs
    rw [foldl_self_slot _ k t _ (by rw [hmid_len]; exact hk) hmid_now t hmid_k]
    rfl
  · intro q hq
    rw [hg', foldl_other_slot _ _ q (by intro r hr; obtain ⟨T, _, rfl⟩ := List.mem_map.mp hr; show k ≠ q; omega)]
    have := foldl_now_requests_slot { g with cursor := k } _ q t
      (fun r hr => by show r.node < g.slots.length; rw [hlen]; exact (hcons r hr).1) (fun r hr _ => (hcons r hr).2.2)
    exact this

/-! ## the slot a node is left with -/

/-- **the slots after the scan are a function of the dataflow reading**: an already scanned position keeps its
    slot; a position that fires ends with the slot its own future requests give it; any other keeps its slot -/
theorem scanFrom_slots (F : Flow S) (ρ : Rank F.n) (hT : Topo F ρ) (hS : SelfFuture F) (t : Time) (due : Nat → Bool)
    (fuel k : Nat) (g : G) (σ : Nat → S) (w ev : List Nat)
    (hfk : k + fuel = F.n) (hlen : g.slots.length = F.n) (hnow : g.now = t)
    (hJ : ∀ q, k ≤ q → q < F.n →
      (slotOf g q = t ↔ (due (ρ.node q) = true ∨ ∃ p ∈ F.prods (ρ.node q), p ∈ w))) :
    (∀ q, q < k → slotOf (scanFrom (beh F ρ) t fuel k g σ ev).g q = slotOf g q) ∧
    (∀ q, k ≤ q → q < F.n →
      (fires F due (denSeq F ρ t due fuel k σ w ev).2.1 (ρ.node q) →
        slotOf (scanFrom (beh F ρ) t fuel k g σ ev).g q =
          selfSlot t (F.selfReq (ρ.node q) ((denSeq F ρ t due fuel k σ w ev).1 (ρ.node q)) t)) ∧
      (¬ fires F due (denSeq F ρ t due fuel k σ w ev).2.1 (ρ.node q) →
        slotOf (scanFrom (beh F ρ) t fuel k g σ ev).g q = slotOf g q)) := by
  induction fuel generalizing k g σ w ev with
  | zero =>
    refine ⟨fun q _ => by rw [scanFrom_zero]; rfl, fun q hkq hq => by omega⟩
  | succ fuel ih =>
    have hk : k < F.n := by omega
    have hnodek := ρ.left k hk
    have hfire : (due (ρ.node k) || (F.prods (ρ.node k)).any (fun p => w.contains p)) = true ↔ slotOf g k = t := by
      rw [hJ k (Nat.le_refl _) hk, Bool.or_eq_true, any_contains_iff]
    have hfires_k : ∀ (σ' : Nat → S) (w' ev' : List Nat), (∀ x ∈ w, x ∈ w') →
        (∀ x ∈ w', x ∈ w ∨ x = ρ.node k) →
        (fires F due (denSeq F ρ t due fuel (k + 1) σ' w' ev').2.1 (ρ.node k) ↔ slotOf g k = t) := by
      intro σ' w' ev' hsub hsup
      rw [fires_final_iff F ρ hT t due fuel (k + 1) σ' w' ev' (by omega) (ρ.node k) hnodek.2 (by rw [hnodek.1]; omega),
        hJ k (Nat.le_refl _) hk]
      unfold fires
      constructor
      · rintro (hd | ⟨p, hp, hw⟩)
        · exact Or.inl hd
        · rcases hsup p hw with h1 | rfl
          · exact Or.inr ⟨p, hp, h1⟩
          · exact absurd hp (topo_not_self F ρ hT _ hnodek.2)
      · rintro (hd | ⟨p, hp, hw⟩)
        · exact Or.inl hd
        · exact Or.inr ⟨p, hp, hsub p hw⟩
    by_cases hs : slotOf g k = t
    · -- position k is evaluated
      rw [scanFrom_eval_ok (beh F ρ) t fuel k g σ ev hs (beh_ok F ρ k t σ),
        denSeq_fire F ρ t due fuel k σ w ev (hfire.mpr hs)]
      have hreqs := disc_beh F ρ hT hS k hk t σ
      have hlen' : (((beh F ρ).eval k t σ).reqs.foldl scheduleNode { g with cursor := k }).slots.length = F.n := by
        rw [foldl_scheduleNode_length]; exact hlen
      have hnow' : (((beh F ρ).eval k t σ).reqs.foldl scheduleNode { g with cursor := k }).now = t := by
        rw [foldl_scheduleNode_now]; exact hnow
      have hst : ((beh F ρ).eval k t σ).st = upd σ (ρ.node k) (F.f (ρ.node k) σ t).1 := rfl
      rw [hst]
      -- the hypothesis for the rest of the scan (as in `scanFrom_eq_denSeq`)
      have hJ' : ∀ q, k + 1 ≤ q → q < F.n →
          (slotOf (((beh F ρ).eval k t σ).reqs.foldl scheduleNode { g with cursor := k }) q = t ↔
            (due (ρ.node q) = true ∨ ∃ p ∈ F.prods (ρ.node q), p ∈ (if (F.f (ρ.node k) σ t).2 then ρ.node k :: w else w))) := by
        intro q hkq hq
        have hslot := slot_after_requests (i := k) (j := q) ((beh F ρ).eval k t σ).reqs (g := { g with cursor := k })
          hlen hnow (by omega) hreqs
        rw [hslot]
        have hJq := hJ q (by omega) hq
        have hsame : slotOf { g with cursor := k } q = slotOf g q := rfl
        rw [hsame, hJq, req_same_cycle_iff F ρ hT hS k q t σ hk hq (by omega)]
        constructor
        · rintro ((hd | ⟨p, hp, hw⟩) | ⟨hw, hp⟩)
          · exact Or.inl hd
          · right; refine ⟨p, hp, ?_⟩; split <;> simp [hw]
          · right; refine ⟨ρ.node k, hp, ?_⟩; simp [hw]
        · rintro (hd | ⟨p, hp, hw⟩)
          · exact Or.inl (Or.inl hd)
          · split at hw
            · rename_i hwrote
              simp only [List.mem_cons] at hw
              rcases hw with rfl | hw
              · exact Or.inr ⟨hwrote, hp⟩
              · exact Or.inl (Or.inr ⟨p, hp, hw⟩)
            · exact Or.inl (Or.inr ⟨p, hp, hw⟩)
      obtain ⟨ihA, ihB⟩ := ih (k + 1) _ (upd σ (ρ.node k) (F.f (ρ.node k) σ t).1)
        (if (F.f (ρ.node k) σ t).2 then ρ.node k :: w else w) (ev ++ [k]) (by omega) hlen' hnow' hJ'
      obtain ⟨sA, sK, sL⟩ := slots_after_eval F ρ hT k hk t σ g hlen hnow hs
      refine ⟨fun q hq => by rw [ihA q (by omega)]; exact sA q hq, ?_⟩
      intro q hkq hq
      rcases Nat.eq_or_lt_of_le hkq with rfl | hlt
      · -- q = k : it fired; its slot is what its own requests left
        have hf := (hfires_k (upd σ (ρ.node k) (F.f (ρ.node k) σ t).1) (if (F.f (ρ.node k) σ t).2 then ρ.node k :: w else w)
          (ev ++ [k]) (by intro x hx; split <;> simp [hx]) (by
            intro x hx; split at hx
            · rcases List.mem_cons.mp hx with rfl | hx
              · exact Or.inr rfl
              · exact Or.inl hx
            · exact Or.inl hx)).mpr hs
        refine ⟨fun _ => ?_, fun hn => absurd hf hn⟩
        rw [ihA k (by omega), sK,
          denSeq_keeps F ρ t due fuel (k + 1) _ _ _ (by omega) (ρ.node k) hnodek.2 (by rw [hnodek.1]; omega)]
        unfold upd; simp
      · -- q > k
        obtain ⟨b1, b2⟩ := ihB q (by omega) hq
        refine ⟨b1, fun hn => ?_⟩
        rw [b2 hn]
        -- not firing in the end means the slot was never set to `t`
        have hne : slotOf (((beh F ρ).eval k t σ).reqs.foldl scheduleNode { g with cursor := k }) q ≠ t := by
          intro heq
          apply hn
          have := (hJ' q (by omega) hq).mp heq
          unfold fires
          rcases this with hd | ⟨p, hp, hw⟩
          · exact Or.inl hd
          · exact Or.inr ⟨p, hp, denSeq_w_mono F ρ t due fuel (k + 1) _ _ _ p hw⟩
        rcases sL q hlt with h1 | h1
        · exact absurd h1 hne
        · exact h1
    · -- position k is not evaluated: the slots are untouched by this step
      have hidle : ¬ (due (ρ.node k) || (F.prods (ρ.node k)).any (fun p => w.contains p)) = true := fun h => hs (hfire.mp h)
      rw [denSeq_idle F ρ t due fuel k σ w ev hidle]
      have hnf : ¬ fires F due (denSeq F ρ t due fuel (k + 1) σ w ev).2.1 (ρ.node k) := fun h =>
        hs ((hfires_k σ w ev (fun _ h => h) (fun _ h => Or.inl h)).mp h)
      rcases Nat.lt_or_gt_of_ne hs with hlt | hgt
      · rw [scanFrom_skip (beh F ρ) t fuel k g σ ev hlt]
        obtain ⟨ihA, ihB⟩ := ih (k + 1) { g with cursor := k } σ w ev (by omega) hlen hnow
          (fun q hkq hq => hJ q (by omega) hq)
        refine ⟨fun q hq => ihA q (by omega), ?_⟩
        intro q hkq hq
        rcases Nat.eq_or_lt_of_le hkq with rfl | hlt'
        · exact ⟨fun h => absurd h hnf, fun _ => ihA k (by omega)⟩
        · exact ihB q (by omega) hq
      · rw [scanFrom_fold (beh F ρ) t fuel k g σ ev hgt]
        obtain ⟨ihA, ihB⟩ := ih (k + 1) { g with next := omin g.next (slotOf g k), cursor := k } σ w ev (by omega) hlen hnow
          (fun q hkq hq => hJ q (by omega) hq)
        refine ⟨fun q hq => ihA q (by omega), ?_⟩
        intro q hkq hq
        rcases Nat.eq_or_lt_of_le hkq with rfl | hlt'
        · exact ⟨fun h => absurd h hnf, fun _ => ihA k (by omega)⟩
        · exact ihB q (by omega) hq

/-! ## one cycle: slot views and the cached next time -/

/-- only the dues of real nodes matter -/
theorem denSeq_congr_due (F : Flow S) (ρ : Rank F.n) (t : Time) (due due' : Nat → Bool) (h : ∀ i, i < F.n → due i = due' i)
    (fuel k : Nat) (σ : Nat → S) (w ev : List Nat) (hfk : k + fuel = F.n) :
    denSeq F ρ t due fuel k σ w ev = denSeq F ρ t due' fuel k σ w ev := by
  induction fuel generalizing k σ w ev with
  | zero => rfl
  | succ fuel ih =>
    have hk : k < F.n := by omega
    rw [denSeq, denSeq]
    simp only [h _ (ρ.left k hk).2]
    split
    · exact ih _ _ _ _ (by omega)
    · exact ih _ _ _ _ (by omega)

theorem fires_congr_due (F : Flow S) (due due' : Nat → Bool) (w : List Nat) (i : Nat) (h : due i = due' i) :
    fires F due w i ↔ fires F due' w i := by unfold fires; rw [h]

/-- the nodes due at `t`, by node id, read off the slot views (`false` outside the graph) -/
def dueN (F : Flow S) (ρ : Rank F.n) (g : G) (t : Time) : Nat → Bool :=
  fun i => decide (i < F.n) && decide (slotOf g (ρ.posOf i) = t)

/-- the slot every node is left with after a fresh cycle, in terms of the slot-free reading -/
theorem cycle_slots (F : Flow S) (ρ : Rank F.n) (hT : Topo F ρ) (hS : SelfFuture F) (fx : Bool) (t : Time) (g : G)
    (σ0 : Nat → S) (hlen : g.slots.length = F.n) (hc : g.cursor = 0) (i : Nat) (hi : i < F.n) :
    (fires F (dueN F ρ g t) (denSeq F ρ t (dueN F ρ g t) F.n 0 σ0 [] []).2.1 i →
      slotOf (cycle fx (beh F ρ) F.n t g σ0).g (ρ.posOf i) =
        selfSlot t (F.selfReq i ((denSeq F ρ t (dueN F ρ g t) F.n 0 σ0 [] []).1 i) t)) ∧
    (¬ fires F (dueN F ρ g t) (denSeq F ρ t (dueN F ρ g t) F.n 0 σ0 [] []).2.1 i →
      slotOf (cycle fx (beh F ρ) F.n t g σ0).g (ρ.posOf i) = slotOf g (ρ.posOf i)) := by
  have hfresh : cycle fx (beh F ρ) F.n t g σ0 =
      scanFrom (beh F ρ) t F.n 0 { g with now := t, failed := false, next := none, cursor := 0 } σ0 [] := by
    cases fx <;> simp [cycle, resuming, hc]
  rw [hfresh]
  have hq := ρ.right i hi
  have := (scanFrom_slots F ρ hT hS t (dueN F ρ g t) F.n 0
    { g with now := t, failed := false, next := none, cursor := 0 } σ0 [] [] (by omega) hlen rfl (by
      intro q _ hq'
      show slotOf g q = t ↔ _
      unfold dueN
      rw [(ρ.left q hq').1]
      simp [(ρ.left q hq').2])).2 (ρ.posOf i) (Nat.zero_le _) hq.2
  rw [hq.1] at this
  exact this

/-- the state after a fresh cycle is the slot-free reading with the dues restricted to real nodes -/
theorem cycle_st (F : Flow S) (ρ : Rank F.n) (hT : Topo F ρ) (hS : SelfFuture F) (fx : Bool) (t : Time) (g : G)
    (σ0 : Nat → S) (hlen : g.slots.length = F.n) (hc : g.cursor = 0) :
    (cycle fx (beh F ρ) F.n t g σ0).st = (denSeq F ρ t (dueN F ρ g t) F.n 0 σ0 [] []).1 := by
  rw [(cycle_eq_denSeq F ρ hT hS fx t g σ0 hlen hc).1]
  rw [denSeq_congr_due F ρ t (dueOf ρ g t) (dueN F ρ g t) (by intro i hi; unfold dueN dueOf; simp [hi]) F.n 0 σ0 [] [] (by omega)]

/-- two graphs (one per rank) that show every node the same slot -/
def SameView (F : Flow S) (ρ₁ ρ₂ : Rank F.n) (g₁ g₂ : G) : Prop :=
  ∀ i, i < F.n → slotOf g₁ (ρ₁.posOf i) = slotOf g₂ (ρ₂.posOf i)

theorem dueN_eq (F : Flow S) (ρ₁ ρ₂ : Rank F.n) (g₁ g₂ : G) (t : Time) (hV : SameView F ρ₁ ρ₂ g₁ g₂) :
    dueN F ρ₁ g₁ t = dueN F ρ₂ g₂ t := by
  funext i
  unfold dueN
  by_cases hi : i < F.n
  · rw [hV i hi]
  · simp [hi]

/-- **after a cycle every node still sees the same slot under both ranks, and holds the same state** -/
theorem cycle_view_independent (F : Flow S) (ρ₁ ρ₂ : Rank F.n) (hT₁ : Topo F ρ₁) (hT₂ : Topo F ρ₂)
    (hR₁ : TopoR F ρ₁) (hR₂ : TopoR F ρ₂) (hS : SelfFuture F)
    (hF : Frame F) (fx : Bool) (t : Time) (g₁ g₂ : G) (σ0 : Nat → S)
    (hlen₁ : g₁.slots.length = F.n) (hlen₂ : g₂.slots.length = F.n) (hc₁ : g₁.cursor = 0) (hc₂ : g₂.cursor = 0)
    (hV : SameView F ρ₁ ρ₂ g₁ g₂) :
    SameView F ρ₁ ρ₂ (cycle fx (beh F ρ₁) F.n t g₁ σ0).g (cycle fx (beh F ρ₂) F.n t g₂ σ0).g ∧
    (cycle fx (beh F ρ₁) F.n t g₁ σ0).st = (cycle fx (beh F ρ₂) F.n t g₂ σ0).st := by
  have hdue := dueN_eq F ρ₁ ρ₂ g₁ g₂ t hV
  have s1 := denSeq_sol F ρ₁ hT₁ hR₁ hF t σ0 (dueN F ρ₁ g₁ t)
  have s2 := denSeq_sol F ρ₂ hT₂ hR₂ hF t σ0 (dueN F ρ₂ g₂ t)
  rw [← hdue] at s2
  have hu := sol_unique F ρ₁ hT₁ hR₁ hF t σ0 (dueN F ρ₁ g₁ t) _ _ _ _ s1 s2
  have hfires : ∀ i, i < F.n →
      (fires F (dueN F ρ₁ g₁ t) (denSeq F ρ₁ t (dueN F ρ₁ g₁ t) F.n 0 σ0 [] []).2.1 i ↔
       fires F (dueN F ρ₁ g₁ t) (denSeq F ρ₂ t (dueN F ρ₁ g₁ t) F.n 0 σ0 [] []).2.1 i) :=
    fired_rank_independent F ρ₁ ρ₂ hT₁ hT₂ hR₁ hR₂ hF t (dueN F ρ₁ g₁ t) σ0
  refine ⟨?_, ?_⟩
  · intro i hi
    obtain ⟨a1, b1⟩ := cycle_slots F ρ₁ hT₁ hS fx t g₁ σ0 hlen₁ hc₁ i hi
    obtain ⟨a2, b2⟩ := cycle_slots F ρ₂ hT₂ hS fx t g₂ σ0 hlen₂ hc₂ i hi
    rw [← hdue] at a2 b2
    by_cases hf : fires F (dueN F ρ₁ g₁ t) (denSeq F ρ₁ t (dueN F ρ₁ g₁ t) F.n 0 σ0 [] []).2.1 i
    · rw [a1 hf, a2 ((hfires i hi).mp hf), (hu i hi).1]
    · rw [b1 hf, b2 (fun h => hf ((hfires i hi).mpr h))]; exact hV i hi
  · rw [cycle_st F ρ₁ hT₁ hS fx t g₁ σ0 hlen₁ hc₁, cycle_st F ρ₂ hT₂ hS fx t g₂ σ0 hlen₂ hc₂, ← hdue]
    funext i
    by_cases hi : i < F.n
    · exact (hu i hi).1
    · rw [denSeq_outside F ρ₁ t _ F.n 0 σ0 [] [] (by omega) i (by omega),
        denSeq_outside F ρ₂ t _ F.n 0 σ0 [] [] (by omega) i (by omega)]

/-- the cached next time is determined by the slot views -/
theorem next_of_views (F : Flow S) (ρ₁ ρ₂ : Rank F.n) (t : Time) (g₁ g₂ : G)
    (h₁ : CInv t F.n g₁) (h₂ : CInv t F.n g₂) (hV : SameView F ρ₁ ρ₂ g₁ g₂) : g₁.next = g₂.next := by
  -- a future slot seen under one rank is seen under the other
  have key : ∀ (ρa ρb : Rank F.n) (ga gb : G), CInv t F.n ga → CInv t F.n gb →
      (∀ i, i < F.n → slotOf ga (ρa.posOf i) = slotOf gb (ρb.posOf i)) →
      ∀ a, ga.next = some a → ∃ b, gb.next = some b ∧ b ≤ a := by
    intro ρa ρb ga gb ha hb hv a hna
    obtain ⟨hta, j, hj, hsj⟩ := ha.isSlot a hna
    have hnode := ρa.left j hj
    have hv' := hv (ρa.node j) hnode.2
    rw [hnode.1, hsj] at hv'
    obtain ⟨b, hb1, hb2⟩ := hb.lower (ρb.posOf (ρa.node j)) (ρb.right _ hnode.2).2 (by rw [← hv']; exact hta)
    exact ⟨b, hb1, by rw [← hv'] at hb2; exact hb2⟩
  cases hn1 : g₁.next with
  | none =>
    cases hn2 : g₂.next with
    | none => rfl
    | some b =>
      obtain ⟨a, ha, _⟩ := key ρ₂ ρ₁ g₂ g₁ h₂ h₁ (fun i hi => (hV i hi).symm) b hn2
      rw [hn1] at ha; cases ha
  | some a =>
    obtain ⟨b, hb, hba⟩ := key ρ₁ ρ₂ g₁ g₂ h₁ h₂ hV a hn1
    obtain ⟨a', ha', hab⟩ := key ρ₂ ρ₁ g₂ g₁ h₂ h₁ (fun i hi => (hV i hi).symm) b hb
    rw [hn1] at ha'; injection ha' with ha'; subst ha'
    rw [hb]; congr 1; omega

/-- everything the run loop looks at -/
structure Rel (F : Flow S) (ρ₁ ρ₂ : Rank F.n) (g₁ g₂ : G) : Prop where
  len₁ : g₁.slots.length = F.n
  len₂ : g₂.slots.length = F.n
  cur₁ : g₁.cursor = 0
  cur₂ : g₂.cursor = 0
  view : SameView F ρ₁ ρ₂ g₁ g₂
  next : g₁.next = g₂.next

theorem cycle_ok (F : Flow S) (ρ : Rank F.n) (hT : Topo F ρ) (hS : SelfFuture F) (fx : Bool) (t : Time) (g : G)
    (σ0 : Nat → S) (hlen : g.slots.length = F.n) (hc : g.cursor = 0) : (cycle fx (beh F ρ) F.n t g σ0).ok = true :=
  (cycle_eq_denSeq F ρ hT hS fx t g σ0 hlen hc).2.2

/-- one cycle keeps the relation and ends with equal states -/
theorem cycle_rel (F : Flow S) (ρ₁ ρ₂ : Rank F.n) (hT₁ : Topo F ρ₁) (hT₂ : Topo F ρ₂)
    (hR₁ : TopoR F ρ₁) (hR₂ : TopoR F ρ₂) (hS : SelfFuture F)
    (hF : Frame F) (fx : Bool) (t : Time) (g₁ g₂ : G) (σ0 : Nat → S) (hR : Rel F ρ₁ ρ₂ g₁ g₂) :
    Rel F ρ₁ ρ₂ (cycle fx (beh F ρ₁) F.n t g₁ σ0).g (cycle fx (beh F ρ₂) F.n t g₂ σ0).g ∧
    (cycle fx (beh F ρ₁) F.n t g₁ σ0).st = (cycle fx (beh F ρ₂) F.n t g₂ σ0).st := by
  have hok₁ := cycle_ok F ρ₁ hT₁ hS fx t g₁ σ0 hR.len₁ hR.cur₁
  have hok₂ := cycle_ok F ρ₂ hT₂ hS fx t g₂ σ0 hR.len₂ hR.cur₂
  obtain ⟨hV, hst⟩ := cycle_view_independent F ρ₁ ρ₂ hT₁ hT₂ hR₁ hR₂ hS hF fx t g₁ g₂ σ0 hR.len₁ hR.len₂ hR.cur₁ hR.cur₂ hR.view
  have hfresh : ∀ (ρ : Rank F.n) (g : G), g.cursor = 0 → cycle fx (beh F ρ) F.n t g σ0 =
      scanFrom (beh F ρ) t F.n 0 { g with now := t, failed := false, next := none, cursor := 0 } σ0 [] := by
    intro ρ g hc; cases fx <;> simp [cycle, resuming, hc]
  have hci₁ : CInv t F.n (cycle fx (beh F ρ₁) F.n t g₁ σ0).g := by
    rw [hfresh ρ₁ g₁ hR.cur₁]
    exact cinv_scanFrom_any _ F.n (disc_beh F ρ₁ hT₁ hS) t F.n 0 _ σ0 [] (by omega) (cinv_init t g₁) (by simpa using hR.len₁)
  have hci₂ : CInv t F.n (cycle fx (beh F ρ₂) F.n t g₂ σ0).g := by
    rw [hfresh ρ₂ g₂ hR.cur₂]
    exact cinv_scanFrom_any _ F.n (disc_beh F ρ₂ hT₂ hS) t F.n 0 _ σ0 [] (by omega) (cinv_init t g₂) (by simpa using hR.len₂)
  refine ⟨⟨?_, ?_, ?_, ?_, hV, next_of_views F ρ₁ ρ₂ t _ _ hci₁ hci₂ hV⟩, hst⟩
  · rw [hfresh ρ₁ g₁ hR.cur₁] at hok₁ ⊢; exact scanFrom_length _ F.n t F.n 0 _ σ0 [] (by simpa using hR.len₁) hok₁
  · rw [hfresh ρ₂ g₂ hR.cur₂] at hok₂ ⊢; exact scanFrom_length _ F.n t F.n 0 _ σ0 [] (by simpa using hR.len₂) hok₂
  · rw [hfresh ρ₁ g₁ hR.cur₁] at hok₁ ⊢; exact scanFrom_cursor_zero _ t F.n 0 _ σ0 [] hok₁
  · rw [hfresh ρ₂ g₂ hR.cur₂] at hok₂ ⊢; exact scanFrom_cursor_zero _ t F.n 0 _ σ0 [] hok₂

/-! ## whole runs -/

/-- **a simulation run does not depend on the rank**: one dataflow, two topological ranks (two admissible
    wiring orders), initial schedules that show every node the same slot and the same cached next time.
    Then the runs have the same cycle times, end with the same state of every node, and both complete.
    Node functions are arbitrary (they read only their producers and themselves and schedule themselves only in
    the future). -/
theorem run_rank_independent (F : Flow S) (ρ₁ ρ₂ : Rank F.n) (hT₁ : Topo F ρ₁) (hT₂ : Topo F ρ₂)
    (hR₁ : TopoR F ρ₁) (hR₂ : TopoR F ρ₂) (hS : SelfFuture F)
    (hF : Frame F) (fx : Bool) (endT : Time) (fuel : Nat) (g₁ g₂ : G) (σ0 : Nat → S) (ts : List Time)
    (hR : Rel F ρ₁ ρ₂ g₁ g₂) :
    (simLoop fx (beh F ρ₁) F.n endT fuel g₁ σ0 ts).times = (simLoop fx (beh F ρ₂) F.n endT fuel g₂ σ0 ts).times ∧
    (simLoop fx (beh F ρ₁) F.n endT fuel g₁ σ0 ts).st = (simLoop fx (beh F ρ₂) F.n endT fuel g₂ σ0 ts).st ∧
    (simLoop fx (beh F ρ₁) F.n endT fuel g₁ σ0 ts).ok = (simLoop fx (beh F ρ₂) F.n endT fuel g₂ σ0 ts).ok := by
  induction fuel generalizing g₁ g₂ σ0 ts with
  | zero => exact ⟨rfl, rfl, rfl⟩
  | succ fuel ih =>
    have hnc : nextCycle g₁ endT = nextCycle g₂ endT := by unfold nextCycle; rw [hR.next]
    rw [simLoop, simLoop, hnc]
    cases hn : nextCycle g₂ endT with
    | none => exact ⟨rfl, rfl, rfl⟩
    | some t =>
      simp only
      obtain ⟨hR', hst⟩ := cycle_rel F ρ₁ ρ₂ hT₁ hT₂ hR₁ hR₂ hS hF fx t g₁ g₂ σ0 hR
      rw [cycle_ok F ρ₁ hT₁ hS fx t g₁ σ0 hR.len₁ hR.cur₁, cycle_ok F ρ₂ hT₂ hS fx t g₂ σ0 hR.len₂ hR.cur₂]
      simp only [↓reduceIte]
      rw [hst]
      exact ih _ _ _ _ hR'

/-! ## non-vacuity: the diamond `0 → {1, 2} → 3`, node 0 re-arming itself every 2 steps, under the ranks 0,1,2,3 and 0,2,1,3 -/

def exG : Flow Nat :=
  { n := 4,
    prods := fun i => if i = 1 ∨ i = 2 then [0] else if i = 3 then [1, 2] else [],
    -- node 3 also reads node 0, passively
    reads := fun i => if i = 1 ∨ i = 2 then [0] else if i = 3 then [1, 2, 0] else [],
    f := fun i σ _ => if i = 0 then (σ 0 + 1, true) else if i = 1 ∨ i = 2 then (σ 0 * (i + 1), true)
                      else if i = 3 then (σ 1 + σ 2 + σ 0, true) else (σ i, false),
    selfReq := fun i _ t => if i = 0 then [t + 2] else [] }

example : Topo exG exR1 := by unfold Topo; decide
example : Topo exG exR2 := by unfold Topo; decide
example : TopoR exG exR1 := by unfold TopoR; decide
example : TopoR exG exR2 := by unfold TopoR; decide
example : SelfFuture exG := by
  intro i s t T h
  simp only [exG] at h
  split at h <;> simp at h
  omega
example : Frame exG := by
  intro i σ σ' t h
  simp only [exG] at h ⊢
  by_cases h0 : i = 0
  · subst h0; simp [h 0 (Or.inl rfl)]
  · by_cases h12 : i = 1 ∨ i = 2
    · have := h 0 (Or.inr (by simp [h12]))
      simp [h0, h12, this]
    · by_cases h3 : i = 3
      · subst h3
        have a := h 1 (Or.inr (by simp)); have b := h 2 (Or.inr (by simp)); have c := h 0 (Or.inr (by simp))
        simp [a, b, c]
      · simp [h0, h12, h3, h i (Or.inl rfl)]
example : Rel exG exR1 exR2 { slots := [5, 0, 0, 0], next := some 5 } { slots := [5, 0, 0, 0], next := some 5 } :=
  ⟨rfl, rfl, rfl, rfl, by unfold SameView; decide, rfl⟩
example : (simLoop true (beh exG exR1) 4 12 10 { slots := [5, 0, 0, 0], next := some 5 } (fun _ => 1) []).times = [5, 7, 9, 11] ∧
    (simLoop true (beh exG exR2) 4 12 10 { slots := [5, 0, 0, 0], next := some 5 } (fun _ => 1) []).times = [5, 7, 9, 11] := by
  decide

end HgVerif.Flow
