import HgVerif.Model.RefLinkSib
import HgVerif.Props.C13Chain
/-!
# C13 — a reference designates (output, path): sibling children of one output are different targets

Model: `Model/RefLinkSib.lean`.  A designation `(out, path)` is target number `out * W + path`; the code is
injective (`Desig.code_inj`), reference equality by output AND path is equality of the numbers
(`sameDesig_iff`), and the selection operator with that equality is `select` (`selectEq_sameDesig`,
`cycleEq_sameDesig`).  So every theorem of `Props/C13.lean` / `Props/C13Chain.lean` is a theorem about
designations; the ones the property names are instantiated for children of node outputs, for ALL histories:

* `desig_subscription_exact` : in every reachable state a consumer is subscribed to child `(o, p)` iff the
  reference designates exactly that output AND that path - not a sibling `(o, p')`, not `(o', p)`.
* `desig_retarget_samples` : a retarget to another designation - in particular to a SIBLING child of the same
  output - that is valid evaluates every consumer in that cycle with `modified` and the new child's value.
* `chain_desig_retarget_samples` : the same below every selection tree over such children.
* `sibling_ticks_silent` : without retarget, ticks of siblings of the designated child (or of anything else)
  evaluate nobody.   `desig_reads_designated_child` : what is read is the designated child.
* `retarget_samples_under_sameDesig` : the retarget property holds under designation equality;
  `path_blind_select_noop` / `path_blind_sibling_retarget_silent` : under the equality of seeded defect s87
  (same output, path ignored) a retarget between siblings changes nothing for EVERY state - no REF tick, the old
  child stays designated, no consumer is evaluated; `path_blind_equality_refuted` : kernel-checked
  counter-witness that the retarget property fails under that equality.
-/
namespace HgVerif.RefLink

/-! ## the code -/

theorem Desig.code_div {W : Nat} {d : Desig} (h : d.path < W) : d.code W / W = d.out := by
  unfold Desig.code
  have hW : 0 < W := Nat.lt_of_le_of_lt (Nat.zero_le _) h
  rw [Nat.add_comm, Nat.add_mul_div_right _ _ hW, Nat.div_eq_of_lt h, Nat.zero_add]

theorem Desig.code_mod {W : Nat} {d : Desig} (h : d.path < W) : d.code W % W = d.path := by
  unfold Desig.code
  rw [Nat.add_comm, Nat.add_mul_mod_self_right, Nat.mod_eq_of_lt h]

theorem Desig.ofCode_code {W : Nat} {d : Desig} (h : d.path < W) : Desig.ofCode W (d.code W) = d := by
  cases d with
  | mk o p => simp only [Desig.ofCode, Desig.mk.injEq]; exact ⟨Desig.code_div h, Desig.code_mod h⟩

/-- **the code identifies (output, path)**: two designations have the same target number iff they are the same
output AND the same path -/
theorem Desig.code_inj {W : Nat} {d d' : Desig} (h : d.path < W) (h' : d'.path < W) :
    d.code W = d'.code W ↔ d.out = d'.out ∧ d.path = d'.path := by
  constructor
  · intro e
    have e1 := Desig.code_div h
    have e2 := Desig.code_mod h
    rw [e] at e1 e2
    rw [Desig.code_div h'] at e1
    rw [Desig.code_mod h'] at e2
    exact ⟨e1.symm, e2.symm⟩
  · rintro ⟨e1, e2⟩
    unfold Desig.code; rw [e1, e2]

theorem sameDesig_iff {W : Nat} (a b : Nat) : sameDesig W a b = true ↔ a = b := by
  simp only [sameDesig, decide_eq_true_eq, Desig.ofCode, Desig.mk.injEq]
  constructor
  · rintro ⟨e1, e2⟩
    rw [← Nat.div_add_mod a W, ← Nat.div_add_mod b W, e1, e2]
  · rintro rfl; exact ⟨rfl, rfl⟩

/-- with designation equality the parametrised selection operator IS `select` -/
theorem selectEq_sameDesig (W : Nat) (s : State) (sel : Option Nat) : selectEq (sameDesig W) s sel = select s sel := by
  unfold selectEq select
  cases sel with
  | none => rfl
  | some i =>
    cases hr : s.ref with
    | none => simp
    | some r =>
      by_cases h : r = i
      · subst h
        have : sameDesig W r r = true := (sameDesig_iff r r).mpr rfl
        simp [this]
      · have : sameDesig W r i = false := by
          cases hs : sameDesig W r i
          · rfl
          · exact absurd ((sameDesig_iff r i).mp hs) h
        simp [this, h]

theorem cycleEq_sameDesig (W : Nat) (s : State) (inp : CycleIn) : cycleEq (sameDesig W) s inp = cycle s inp := by
  unfold cycleEq cycle cycleMid
  rw [selectEq_sameDesig]

/-! ## the consumer follows exactly the designated child -/

/-- **desig_subscription_exact**: in every reachable state a consumer below a reference that designates
`(o', p')` is subscribed to child `(o, p)` iff `o = o'` AND `p = p'`. -/
theorem desig_subscription_exact {cfg : Cfg} {s : State} (h : Reach cfg s) {c : Nat} (hc : c < s.nC) {W : Nat}
    {d d' : Desig} (hp : d.path < W) (hp' : d'.path < W) (hr : s.ref = some (d'.code W)) :
    c ∈ (s.targets (d.code W)).subs ↔ d.out = d'.out ∧ d.path = d'.path := by
  rw [ref_subscription_exact h hc, hr, Option.some.injEq, eq_comm, Desig.code_inj hp hp']

/-- **desig_retarget_samples**: when the reference is retargeted from `d` to a different designation `d'` - a
sibling child of the same output included - and `d'` is valid, every consumer is evaluated in that cycle, sees
`modified`, and reads the value of `d'`. -/
theorem desig_retarget_samples {s : State} (h : Inv s) (inp : CycleIn) {W : Nat} {d d' : Desig}
    (hp : d.path < W) (hp' : d'.path < W) (hr : s.ref = some (d.code W)) (hsel : inp.sel = some (d'.code W))
    (hne : d.out ≠ d'.out ∨ d.path ≠ d'.path)
    (hv : ((cycle s inp).1.targets (d'.code W)).valid = true) {c : Nat} (hc : c < s.nC) :
    ∃ v, Sampled s inp (d'.code W) c v := by
  refine ref_retarget_samples h inp hsel ?_ hv hc
  rw [hr, ne_eq, Option.some.injEq, Desig.code_inj hp hp']
  rintro ⟨e1, e2⟩
  rcases hne with h1 | h2
  · exact h1 e1
  · exact h2 e2

/-- **sibling_ticks_silent**: in a cycle without retarget in which the designated child does not tick, no
consumer is evaluated - whatever its siblings (or any other target) do. -/
theorem sibling_ticks_silent {s : State} (h : Inv s) (hs : s.sched = []) (inp : CycleIn) {W : Nat} {d : Desig}
    (hr : s.ref = some (d.code W)) (hsel : inp.sel = none ∨ inp.sel = s.ref)
    (hq : inp.ticks (d.code W) = none) : (cycle s inp).2 = [] := by
  refine ref_unselected_silent h hs inp hsel ?_
  intro t ht
  rw [hr] at ht
  cases ht
  exact hq

/-- **desig_reads_designated_child**: whatever a consumer reads is the value of the child the reference
designates after the cycle. -/
theorem desig_reads_designated_child {s : State} (h : Inv s) (inp : CycleIn) {W : Nat} {d : Desig} {c : Nat} {v : View}
    (hr : (cycle s inp).1.ref = some (d.code W)) (hcv : (c, v) ∈ (cycle s inp).2) :
    v.valid = ((cycle s inp).1.targets (d.code W)).valid ∧ v.items = ((cycle s inp).1.targets (d.code W)).items := by
  have := ref_reads_target h inp hcv
  rw [hr] at this
  exact this

/-- **chain_desig_retarget_samples**: the same below a selection tree whose leaves are children of node outputs:
when what the root designates moves from `d` to a different designation `d'` (a sibling included; the change may
come from any selector of the tree) and `d'` is valid, every consumer is evaluated, sees `modified`, reads `d'`. -/
theorem chain_desig_retarget_samples {x : CSys} (h : CInv x) (inp : CIn) {W : Nat} {d d' : Desig}
    (hp : d.path < W) (hp' : d'.path < W) (hold : x.chain.out = some (d.code W))
    (hnew : (cycleC x inp).1.chain.out = some (d'.code W)) (hne : d.out ≠ d'.out ∨ d.path ≠ d'.path)
    (hv : ((cycleC x inp).1.s.targets (d'.code W)).valid = true) {c : Nat} (hc : c < x.s.nC) :
    ∃ v, (c, v) ∈ (cycleC x inp).2 ∧ v.valid = true ∧ v.modified = true ∧
      v.items = ((cycleC x inp).1.s.targets (d'.code W)).items := by
  refine chain_retarget_samples h inp hnew ?_ hv hc
  rw [hold, ne_eq, Option.some.injEq, Desig.code_inj hp hp']
  rintro ⟨e1, e2⟩
  rcases hne with h1 | h2
  · exact h1 e1
  · exact h2 e2

/-! ## the retarget property under a given reference equality -/

/-- "a retarget to a valid target evaluates every consumer in that cycle with `modified` and the new value",
for the selection operator that de-duplicates with `same` -/
def RetargetSamplesUnder (same : Nat → Nat → Bool) : Prop :=
  ∀ (s : State) (inp : CycleIn) (i c : Nat), Inv s → inp.sel = some i → s.ref ≠ some i →
    ((cycleEq same s inp).1.targets i).valid = true → c < s.nC →
    ∃ v, (c, v) ∈ (cycleEq same s inp).2 ∧ v.valid = true ∧ v.modified = true ∧
      v.items = ((cycleEq same s inp).1.targets i).items

/-- it holds when references are compared by output AND path -/
theorem retarget_samples_under_sameDesig (W : Nat) : RetargetSamplesUnder (sameDesig W) := by
  intro s inp i c h hsel hne hv hc
  rw [cycleEq_sameDesig] at hv ⊢
  obtain ⟨v, hs⟩ := ref_retarget_samples h inp hsel hne hv hc
  exact ⟨v, hs.evaluated, hs.valid, hs.modified, hs.value⟩

/-- **path_blind_select_noop**: with the equality of seeded defect s87 a selection of a SIBLING of the
designated child is treated as a re-publication of the same reference: the state is unchanged, for every state. -/
theorem path_blind_select_noop {W : Nat} (s : State) {o p p' : Nat} (hp : p < W) (hp' : p' < W)
    (hr : s.ref = some (Desig.code W { out := o, path := p })) :
    selectEq (sameOutputOnly W) s (some (Desig.code W { out := o, path := p' })) = s := by
  unfold selectEq
  have e1 : Desig.code W { out := o, path := p } / W = o := Desig.code_div (d := { out := o, path := p }) hp
  have e2 : Desig.code W { out := o, path := p' } / W = o := Desig.code_div (d := { out := o, path := p' }) hp'
  simp [hr, sameOutputOnly, e1, e2]

/-- **path_blind_sibling_retarget_silent**: consequently, in every state, a retarget to a sibling child is
dropped: the reference keeps designating the old child, its modification time does not move, and - unless the
OLD child ticks - no consumer is evaluated, although the new child may be valid and `p ≠ p'`. -/
theorem path_blind_sibling_retarget_silent {W : Nat} {s : State} (h : Inv s) (hs : s.sched = []) (inp : CycleIn)
    {o p p' : Nat} (hp : p < W) (hp' : p' < W) (hr : s.ref = some (Desig.code W { out := o, path := p }))
    (hsel : inp.sel = some (Desig.code W { out := o, path := p' }))
    (hq : inp.ticks (Desig.code W { out := o, path := p }) = none) :
    (cycleEq (sameOutputOnly W) s inp).2 = [] ∧ (cycleEq (sameOutputOnly W) s inp).1.ref = s.ref ∧
    (cycleEq (sameOutputOnly W) s inp).1.refLmt = s.refLmt := by
  have f := afterTicks_frame s inp
  have hno : selectEq (sameOutputOnly W) (afterTicks s inp) inp.sel = afterTicks s inp := by
    rw [hsel]; exact path_blind_select_noop _ hp hp' (by rw [f.2.2.2.2.1, hr])
  have hc : cycleEq (sameOutputOnly W) s inp = cycle s { sel := none, ticks := inp.ticks } := by
    show ({ selectEq (sameOutputOnly W) (afterTicks s inp) inp.sel with sched := [] },
      (evaluated (selectEq (sameOutputOnly W) (afterTicks s inp) inp.sel)).map
        (fun c => (c, view (selectEq (sameOutputOnly W) (afterTicks s inp) inp.sel) c))) = _
    rw [hno]
    rfl
  rw [hc]
  have hn := ref_same_cycle_no_ref_tick s { sel := none, ticks := inp.ticks } (Or.inl rfl)
  refine ⟨ref_unselected_silent h hs _ (Or.inl rfl) ?_, hn.1, hn.2.1⟩
  intro t ht
  rw [hr] at ht
  cases ht
  exact hq

/-! ## counter-witness: the scenario of the seeded defect s87 -/

def cfgSib : Cfg := { shape := .ts, nC := 1, nT := 8 }

/-- `W = 4`: targets 0 and 1 are the children `x`, `y` of output 0.  One cycle: `x` selected, `x = 1`, `y = 10`. -/
def stSib : State :=
  (run (init cfgSib) [ { sel := some (Desig.code 4 { out := 0, path := 0 }),
                         ticks := fun u => if u = 0 then some { sets := [(0, 1)] }
                                            else if u = 1 then some { sets := [(0, 10)] } else none } ]).1

theorem stSib_reach : Reach cfgSib stSib := reach_run Reach.init _

/-- with designation equality the retarget `x -> y` evaluates the consumer, which reads `y = 10` as modified;
with the path-blind equality nobody is evaluated and the reference still designates `x` -/
example :
    (cycle stSib { sel := some (Desig.code 4 { out := 0, path := 1 }) }).2.map
        (fun p => (p.1, p.2.valid, p.2.modified, p.2.items)) = [(0, true, true, [(0, 10)])] ∧
    (cycleEq (sameOutputOnly 4) stSib { sel := some (Desig.code 4 { out := 0, path := 1 }) }).2 = [] ∧
    (cycleEq (sameOutputOnly 4) stSib { sel := some (Desig.code 4 { out := 0, path := 1 }) }).1.ref = some 0 :=
  ⟨by decide, by decide, by decide⟩

/-- **path_blind_equality_refuted**: comparing references by owning output only (the rule of seeded defect s87)
refutes the retarget property - kernel-checked counter-witness: siblings `x`, `y` of one output. -/
theorem path_blind_equality_refuted : ¬ RetargetSamplesUnder (sameOutputOnly 4) := by
  intro h
  have := h stSib { sel := some (Desig.code 4 { out := 0, path := 1 }) } 1 0
    (ref_subscription_inv stSib_reach) rfl (by decide) (by decide) (by decide)
  obtain ⟨v, hv, _⟩ := this
  have he : (cycleEq (sameOutputOnly 4) stSib { sel := some (Desig.code 4 { out := 0, path := 1 }) }).2 = [] := by
    decide
  rw [he] at hv
  cases hv

end HgVerif.RefLink
