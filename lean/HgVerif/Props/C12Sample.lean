import HgVerif.Lemmas.Switch
/-!
# C12 — the sampled start of a newly selected branch, per BINDING

`Model/Switch.lean` models the child's node as bound to any number of boundary inputs (`Branch.binds`: the key
and/or time-series arguments), each binding with its own activity (`Branch.passive`) and validity policy
(`Branch.validInputs`).  `activate_branch` calls `schedule_sampled_input_consumers` right after starting the new
child (`include/hgraph/runtime/nested_bindings.h`): a loop over ALL bindings that schedules the consumer node when
`nested_input_binding_has_sampled_active_target` holds for the binding — the target input is active and its source
is valid (or the node's validity gate is explicitly empty).  The theorems below are for every branch (any number of
bindings, any policy mix, any behaviour), any held values and any time.

* `sampledStart_iff`          the node is scheduled at activation iff SOME binding qualifies (`bindingSampled`),
                              whatever its position.
* `notified_iff`              later it is scheduled by a tick of SOME active bound input.
* `sampled_view`              in the selection cycle the node sees, at EVERY bound position and whatever the policy
                              of that position, the current held value, presented as ticked when it is valid.
* `activation_evaluates`      if some binding qualifies and the validity gate passes, the user code of the new
                              instance runs IN the selection cycle, from the start state, on that sampled view;
  `activation_gate_blocks`    if the gate does not pass it does not run (and a due start-hook wake-up is consumed);
  `activation_silent`         if no binding qualifies and the start hook did not schedule this cycle, the child is
                              untouched in the selection cycle.
* `selection_cycle_evaluates` the same inside a run: from every reachable alive state (`Timing`), a cycle whose key
                              tick selects branch `b` records exactly the output of `b`'s user code run from its
                              start state on the sampled current values of the held inputs;
  `selection_cycle_silent`    and records nothing when no binding qualifies and no start-hook wake-up is due.
* `first_binding_rule_refuted` (counter-witness for the rule of seeded change s96, `sampledStartFirst`: the loop
                              looks at the FIRST binding of the consumer node only): two concrete nodes — passive
                              first / active second with both sources valid, and optional-and-unset first / required
                              valid second — whose gate passes and which the coded rule schedules but the
                              first-binding rule does not;  `first_binding_rule_under_approximates`: the
                              first-binding rule never schedules a node the coded rule would not.
-/
namespace HgVerif.Switch
variable {σ : Type}

/-- `activeAny`: some position that is not passive (positions counted from `i`) satisfies `f` -/
theorem activeAny_iff (passive : List Nat) (f : Port → Bool) : ∀ (l : List Port) (i : Nat),
    activeAny passive f i l = true ↔ ∃ j p, l[j]? = some p ∧ passive.contains (i + j) = false ∧ f p = true := by
  intro l
  induction l with
  | nil => intro i; simp [activeAny]
  | cons q r ih =>
    intro i
    simp only [activeAny, Bool.or_eq_true, Bool.and_eq_true, Bool.not_eq_true']
    constructor
    · rintro (⟨h1, h2⟩ | h)
      · exact ⟨0, q, rfl, by simpa using h1, h2⟩
      · obtain ⟨j, p, hj, hp, hf⟩ := (ih (i + 1)).mp h
        refine ⟨j + 1, p, by simpa using hj, ?_, hf⟩
        have : i + (j + 1) = i + 1 + j := by omega
        rw [this]; exact hp
    · rintro ⟨j, p, hj, hp, hf⟩
      cases j with
      | zero =>
        simp only [List.getElem?_cons_zero, Option.some.injEq] at hj
        subst hj
        exact Or.inl ⟨by simpa using hp, hf⟩
      | succ j =>
        right
        refine (ih (i + 1)).mpr ⟨j, p, by simpa using hj, ?_, hf⟩
        have : i + 1 + j = i + (j + 1) := by omega
        rw [this]; exact hp

/-- **sampledStart_iff**: the loop of `schedule_sampled_input_consumers` schedules the node iff SOME of its
    bindings — at any position — has an active target whose source is valid (or the gate is explicitly empty) -/
theorem sampledStart_iff (b : Branch σ) (ports : List Port) :
    b.sampledStart ports = true ↔ ∃ j p, (b.view ports)[j]? = some p ∧ b.bindingSampled j p = true := by
  unfold Branch.sampledStart Branch.bindingSampled
  rw [activeAny_iff]
  constructor
  · rintro ⟨j, p, hj, hp, hf⟩
    simp only [Nat.zero_add] at hp
    exact ⟨j, p, hj, by rw [hp, hf]; rfl⟩
  · rintro ⟨j, p, hj, h⟩
    simp only [Bool.and_eq_true, Bool.not_eq_true'] at h
    exact ⟨j, p, hj, by simpa using h.1, h.2⟩

/-- **notified_iff**: after the selection cycle the node is scheduled by a tick of SOME active bound input -/
theorem notified_iff (b : Branch σ) (ports : List Port) :
    b.notified ports = true ↔ ∃ j p, (b.view ports)[j]? = some p ∧ b.passive.contains j = false ∧ p.ticked = true := by
  unfold Branch.notified
  rw [activeAny_iff]
  simp only [Nat.zero_add]

theorem freshChild_seen (b : Branch σ) (t : Nat) (ports : List Port) :
    (freshChild b t).seen t ports = (b.view ports).map Port.sample := by
  simp [Child.seen, freshChild]

/-- **sampled_view**: in its selection cycle the new instance sees at EVERY bound position — passive or active,
    required or optional — the current held value, presented as ticked when it is valid -/
theorem sampled_view (b : Branch σ) (t : Nat) (ports : List Port) (j : Nat) (p : Port)
    (h : (b.view ports)[j]? = some p) :
    ((freshChild b t).seen t ports)[j]? = some ⟨p.value, p.ticked || p.value.isSome⟩ := by
  rw [freshChild_seen, List.getElem?_map, h]
  rfl

theorem freshChild_due (b : Branch σ) (t : Nat) (ports : List Port) :
    (freshChild b t).due t ports = (b.sampledStart ports || (freshChild b t).wake == some t) := by
  simp [Child.due, freshChild]

/-- **activation_evaluates**: some binding qualifies and the validity gate passes ⇒ the user code of the new
    instance runs in the selection cycle, from the start state, on the sampled view; its tick is the output -/
theorem activation_evaluates (b : Branch σ) (t : Nat) (ports : List Port)
    (hs : b.sampledStart ports = true) (hg : b.gate ((b.view ports).map Port.sample) = true) :
    (childEval (freshChild b t) t ports).ranUser = true ∧
    (childEval (freshChild b t) t ports).out =
      (b.step (b.start t b.init).1 t ((b.view ports).map Port.sample) ((freshChild b t).wake == some t)).2.1 := by
  have hd : (freshChild b t).due t ports = true := by rw [freshChild_due, hs]; rfl
  have hg' : (freshChild b t).br.gate ((freshChild b t).seen t ports) = true := by
    rw [freshChild_seen]; exact hg
  unfold childEval
  rw [if_pos hd, if_pos hg', freshChild_seen]
  exact ⟨rfl, rfl⟩

/-- **activation_gate_blocks**: scheduled, but a required input is not valid: no user code, no output -/
theorem activation_gate_blocks (b : Branch σ) (t : Nat) (ports : List Port)
    (hg : b.gate ((b.view ports).map Port.sample) = false) :
    (childEval (freshChild b t) t ports).ranUser = false ∧ (childEval (freshChild b t) t ports).out = none := by
  have hg' : ¬ (freshChild b t).br.gate ((freshChild b t).seen t ports) = true := by
    rw [freshChild_seen]; simp [freshChild, hg]
  unfold childEval
  by_cases hd : (freshChild b t).due t ports = true
  · rw [if_pos hd, if_neg hg']; exact ⟨rfl, rfl⟩
  · rw [if_neg hd]; exact ⟨rfl, rfl⟩

/-- **activation_silent**: no binding qualifies and the start hook did not schedule this cycle: the child is not
    touched in the selection cycle -/
theorem activation_silent (b : Branch σ) (t : Nat) (ports : List Port)
    (hs : b.sampledStart ports = false) (hw : (freshChild b t).wake ≠ some t) :
    childEval (freshChild b t) t ports = { child := freshChild b t, out := none, ranUser := false } := by
  have hw' : ((freshChild b t).wake == some t) = false := by simpa using hw
  have hd : (freshChild b t).due t ports = false := by rw [freshChild_due, hs, hw']; rfl
  unfold childEval
  rw [hd]; rfl

/-- **selection_cycle_evaluates**: in every reachable alive state, a cycle whose key tick selects branch `b`
    (nothing selected yet, reload, or another key) records exactly the output of `b`'s user code run from its start
    state on the current values of the held inputs, sampled — provided SOME binding of the node has an active
    target with a valid source and the validity gate passes.  Any number of bindings, any policy mix. -/
theorem selection_cycle_evaluates (cfg : Cfg σ) (r : Run σ) (t : Nat) (c : Cyc) (k : Key) (b : Branch σ)
    (ht : Timing r t) (hsw : switches cfg.reload r.sw.activeKey c = some k) (hsel : selectBranch cfg k = some b)
    (hs : b.sampledStart (mkPorts (r.held.update c) c) = true)
    (hg : b.gate ((b.view (mkPorts (r.held.update c) c)).map Port.sample) = true) :
    (cycle cfg r t c).out =
      (b.step (b.start t b.init).1 t ((b.view (mkPorts (r.held.update c) c)).map Port.sample)
        ((freshChild b t).wake == some t)).2.1 := by
  rw [(cycle_switch cfg r t c k b ht hsw hsel).1]
  exact (activation_evaluates b t _ hs hg).2

/-- **selection_cycle_silent**: no binding qualifies and no start-hook wake-up is due: nothing is recorded in the
    selection cycle -/
theorem selection_cycle_silent (cfg : Cfg σ) (r : Run σ) (t : Nat) (c : Cyc) (k : Key) (b : Branch σ)
    (ht : Timing r t) (hsw : switches cfg.reload r.sw.activeKey c = some k) (hsel : selectBranch cfg k = some b)
    (hs : b.sampledStart (mkPorts (r.held.update c) c) = false) (hw : (freshChild b t).wake ≠ some t) :
    (cycle cfg r t c).out = none := by
  rw [(cycle_switch cfg r t c k b ht hsw hsel).1, activation_silent b t _ hs hw]

/-! ## the rule of seeded change s96: "the first binding of the consumer node decides" -/

/-- `schedule_sampled_input_consumers` with the shortcut of s96: the node is remembered BEFORE the test, later
    bindings of the same node are skipped — only the first binding is looked at -/
def Branch.sampledStartFirst (b : Branch σ) (ports : List Port) : Bool :=
  match b.view ports with
  | [] => false
  | p :: _ => b.bindingSampled 0 p

/-- the first-binding rule never schedules a node the coded rule would not -/
theorem first_binding_rule_under_approximates (b : Branch σ) (ports : List Port)
    (h : b.sampledStartFirst ports = true) : b.sampledStart ports = true := by
  unfold Branch.sampledStartFirst at h
  rw [sampledStart_iff]
  cases hv : b.view ports with
  | nil => rw [hv] at h; cases h
  | cons p r => rw [hv] at h; exact ⟨0, p, rfl, h⟩

section Examples

/-- `gadd`: (x passive, y active) 100x + y -/
def exGated : Branch Unit :=
  { name := "gadd", binds := [1, 2], validInputs := none, init := (), passive := [0],
    start := fun _ s => (s, none),
    step := fun s _ v _ => (s, some (((v.getD 0 Port.absent).value.getD 0) * 100 + ((v.getD 1 Port.absent).value.getD 0)), none) }

/-- `orelse`: (x active optional, y active required) 100 x? + y -/
def exOrElse : Branch Unit :=
  { name := "orelse", binds := [1, 2], validInputs := some [1], init := (),
    start := fun _ s => (s, none),
    step := fun s _ v _ => (s, some (((v.getD 0 Port.absent).value.getD (-1)) * 100 + ((v.getD 1 Port.absent).value.getD 0)), none) }

/-- key 7 ticks; x = 1 and y = 20 are held and do not tick -/
def exHeld : List Port := [⟨some 7, true⟩, ⟨some 1, false⟩, ⟨some 20, false⟩]
/-- key 7 ticks; x has never ticked, y = 5 is held -/
def exUnset : List Port := [⟨some 7, true⟩, ⟨none, false⟩, ⟨some 5, false⟩]

/-- **first_binding_rule_refuted**: kernel-checked counter-witnesses for the s96 rule.  The gate passes and the
    coded per-binding rule schedules the node (the new instance evaluates in the selection cycle: 120 resp. -95),
    the first-binding rule does not. -/
theorem first_binding_rule_refuted :
    (exGated.gate ((exGated.view exHeld).map Port.sample) = true ∧ exGated.sampledStart exHeld = true ∧
      exGated.sampledStartFirst exHeld = false ∧ (childEval (freshChild exGated 3) 3 exHeld).out = some 120) ∧
    (exOrElse.gate ((exOrElse.view exUnset).map Port.sample) = true ∧ exOrElse.sampledStart exUnset = true ∧
      exOrElse.sampledStartFirst exUnset = false ∧ (childEval (freshChild exOrElse 3) 3 exUnset).out = some (-95)) := by
  refine ⟨⟨rfl, rfl, rfl, rfl⟩, ⟨rfl, rfl, rfl, rfl⟩⟩

def exCfgG : Cfg Unit := { cases := [(1, exGated), (2, exOrElse)], dflt := none, reload := true }

-- scenario "switch to a node with a passive FIRST and an active second held input" of seeded/s96, in a run:
-- x = 1, y = 10 held; key 2 (orelse), then key 1 (gadd) with silent inputs, then reload of key 1, then y ticks
example : (runFrom exCfgG {} 1 [{ ins := [some 1, some 10] }, { key := some 2, ins := [none, none] },
      { key := some 1, ins := [none, none] }, { key := some 1, ins := [none, none] }, { ins := [none, some 30] },
      { ins := [some 2, none] }]).map (fun o => o.out) =
    [none, some 110, some 110, some 110, some 130, none] := by decide

-- the hypotheses of `selection_cycle_evaluates` are satisfiable in that run
example : switches exCfgG.reload (finalRun exCfgG {} 1 [{ ins := [some 1, some 10] }, { key := some 2, ins := [none, none] }]).sw.activeKey
    { key := some 1, ins := [none, none] } = some 1 := by decide
example : (finalRun exCfgG {} 1 [{ ins := [some 1, some 10] }, { key := some 2, ins := [none, none] }]).dead = false := by decide

-- an all-passive node is never sampled; a passive-first node whose active input is not valid is not sampled either
example : ({ exGated with passive := [0, 1] } : Branch Unit).sampledStart exHeld = false := by decide
example : exGated.sampledStart [⟨some 7, true⟩, ⟨some 1, false⟩, ⟨none, false⟩] = false := by decide

end Examples

end HgVerif.Switch
