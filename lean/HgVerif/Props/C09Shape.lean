import HgVerif.Model.NestShape
import HgVerif.Lemmas.NestShape
/-!
C09, structured boundary: a sub-graph whose RESULT is a fixed structure (TSB / fixed TSL, nested) owned by a node of
the sub-graph gives the same outer delta and value whether it is inlined or nested, at any depth.

The model (`Model/NestShape.lean`) is the forwarding tree of `bind_forwarding_output_tree_to_source` as the nested
graph node drives it (bind at start, outermost level first; plain re-bind before every evaluation).  All theorems
quantify over: the depth `D` (0 = inlined), the number of leaves `L`, the start time, and an arbitrary history of
evaluation cycles with strictly increasing times, each carrying an ARBITRARY set of leaf writes of the body
(`Cycle.w : leaf -> Option value`), written before (`pre`, pass-through results) or inside the nested evaluation.
-/
namespace HgVerif.NestShape

/-- cycle times strictly increase (and are later than `lo`; `lo = 0 = MIN_DT` for a whole run) -/
def Sorted : Nat → List Cycle → Prop
  | _, [] => True
  | lo, cy :: r => lo < cy.t ∧ Sorted cy.t r

def endT : Nat → List Cycle → Nat
  | lo, [] => lo
  | _, cy :: r => endT cy.t r

/-- the run read at one leaf -/
def runChain (D i : Nat) (h : List Cycle) (c : Chain) : Chain :=
  h.foldl (fun c cy => cycleChain false D cy.t cy.pre (cy.w i) false c) c

theorem sorted_append (lo : Nat) (h : List Cycle) (cy : Cycle) :
    Sorted lo (h ++ [cy]) ↔ Sorted lo h ∧ endT lo h < cy.t := by
  induction h generalizing lo with
  | nil => simp [Sorted, endT]
  | cons a r ih => simp [Sorted, endT, ih, and_assoc]

theorem run_proj (D L t0 : Nat) (h : List Cycle) (i : Nat) (hi : i < L) :
    run false D L t0 h i = runChain D i h (bindLevelsChain false D t0 D {}) := by
  have gen : ∀ (h : List Cycle) (tr : Tree),
      (h.foldl (fun tr cy => cycleTree false D L cy tr) tr) i = runChain D i h (tr i) := by
    intro h
    induction h with
    | nil => intro tr; rfl
    | cons cy r ih =>
      intro tr
      simp only [List.foldl_cons, runChain]
      rw [ih, cycleTree_proj false D L cy tr i hi]
      simp [runChain]
  unfold run startTree
  rw [gen, bindLevels_proj false D L t0 D _ i hi]

theorem runChain_append (D i : Nat) (h : List Cycle) (cy : Cycle) (c : Chain) :
    runChain D i (h ++ [cy]) c = cycleChain false D cy.t cy.pre (cy.w i) false (runChain D i h c) := by
  simp [runChain, List.foldl_append]

theorem runChain_R (D i t1 : Nat) (h : List Cycle) (tl : Nat) (c : Chain) (hR : R D t1 tl c) (hs : Sorted tl h) :
    R D t1 (endT tl h) (runChain D i h c) := by
  induction h generalizing tl c with
  | nil => exact hR
  | cons cy r ih =>
    simp only [runChain, List.foldl_cons, endT]
    exact ih cy.t _ (R_cycle D t1 tl cy.t cy.pre (cy.w i) c hR hs.1) hs.2

/-- the state of a leaf before the last cycle of a run: still as the start left it, or in the running form -/
theorem state_before (D t0 i : Nat) (h : List Cycle) (hs : Sorted 0 h) :
    (h = [] ∧ StartMid false D 0 (runChain D i h (bindLevelsChain false D t0 D {}))) ∨
    (∃ cy0 r, h = cy0 :: r ∧ R D cy0.t (endT 0 h) (runChain D i h (bindLevelsChain false D t0 D {}))) := by
  cases h with
  | nil => left; exact ⟨rfl, start_chain false D t0⟩
  | cons cy0 r =>
    right
    refine ⟨cy0, r, rfl, ?_⟩
    simp only [runChain, List.foldl_cons, endT]
    exact runChain_R D i cy0.t r cy0.t _ (first_cycle D cy0.t cy0.pre (cy0.w i) _ hs.1 (start_chain false D t0)) hs.2

/-- after a cycle at `t` the chain is in the running form, and its terminal is the previous terminal with this
    cycle's write applied -/
theorem state_after (D t0 i : Nat) (h : List Cycle) (cy : Cycle) (hs : Sorted 0 (h ++ [cy])) :
    let c0 := runChain D i h (bindLevelsChain false D t0 D {})
    let c := runChain D i (h ++ [cy]) (bindLevelsChain false D t0 D {})
    (∃ t1, R D t1 cy.t c ∧ (h = [] → t1 = cy.t) ∧ (h ≠ [] → t1 < cy.t)) ∧
      c.term = writeTermPure cy.t (cy.w i) c0.term ∧ c0.term.lastMod < cy.t := by
  intro c0 c
  obtain ⟨hs1, hs2⟩ := (sorted_append 0 h cy).1 hs
  have hc : c = cycleChain false D cy.t cy.pre (cy.w i) false c0 := runChain_append D i h cy _
  have hterm : c.term = writeTermPure cy.t (cy.w i) c0.term := by rw [hc, cycleChain_term]
  rcases state_before D t0 i h hs1 with ⟨he, hS⟩ | ⟨cy0, r, he, hR⟩
  · subst he
    have ht : 0 < cy.t := by simpa [endT] using hs2
    refine ⟨⟨cy.t, ?_, fun _ => rfl, fun hne => absurd rfl hne⟩, hterm, ?_⟩
    · rw [hc]; exact first_cycle D cy.t cy.pre (cy.w i) c0 ht hS
    · have : c0.term = {} := hS.2
      rw [this]; exact ht
  · have hlt : cy0.t < cy.t := by
      have := hR.2.2.2.2.2; omega
    refine ⟨⟨cy0.t, ?_, fun hn => by simp [he] at hn, fun _ => hlt⟩, hterm, ?_⟩
    · rw [hc]; exact R_cycle D cy0.t (endT 0 h) cy.t cy.pre (cy.w i) c0 hR hs2
    · have h5 : c0.term.lastMod ≤ endT 0 h := hR.2.2.2.1
      omega

/-! ### what the consumer reads from a chain in the running form -/

theorem outerVal_R (D t1 tl : Nat) (c : Chain) (h : R D t1 tl c) : outerVal D c = c.term.val := by
  unfold outerVal outerTgt
  by_cases hD : D = 0
  · simp [hD]
  · have hl : (c.links D).tgt = .term := by
      rw [h.1 D]; have : 1 ≤ D ∧ D ≤ D := ⟨by omega, Nat.le_refl _⟩; simp [this]
    simp [hD, resolveSrc_term c D D hl]

theorem outerMod_R (D t1 tl : Nat) (c : Chain) (h : R D t1 tl c) :
    outerMod D tl c = if D ≤ 1 then c.term.lastMod == tl else max t1 c.term.lastMod == tl := by
  unfold outerMod
  by_cases hD : D = 0
  · simp [hD]
  · rw [h.1 D]
    have h1 : 1 ≤ D ∧ D ≤ D := ⟨by omega, Nat.le_refl _⟩
    by_cases hD1 : D = 1
    · simp [hD1]
    · have : ¬ D ≤ 1 := by omega
      simp [hD, h1, hD1, this]

/-- in the running form the outer delta of a leaf is exactly "the terminal ticked now" -/
theorem outerDelta_R (D t1 tl : Nat) (c : Chain) (h : R D t1 tl c) :
    outerDelta D tl c = if c.term.lastMod = tl then c.term.val else none := by
  unfold outerDelta
  rw [outerMod_R D t1 tl c h, outerVal_R D t1 tl c h]
  obtain ⟨_, hv, h1, h2, h3, h4⟩ := h
  by_cases hD : D ≤ 1
  · by_cases he : c.term.lastMod = tl <;> simp [hD, he]
  · simp only [hD, if_false]
    by_cases hz : c.term.lastMod = 0
    · have hn : c.term.val = none := by
        cases hval : c.term.val with
        | none => rfl
        | some x => have := hv.1 (by simp [hval]); exact absurd hz this
      simp [hn]
    · have : max t1 c.term.lastMod = c.term.lastMod := by have := h1 hz; omega
      rw [this]
      by_cases he : c.term.lastMod = tl <;> simp [he]

theorem writeTermPure_delta (t : Nat) (w : Option Int) (tm : Term) (hlt : tm.lastMod < t) :
    (if (writeTermPure t w tm).lastMod = t then (writeTermPure t w tm).val else none) = w := by
  cases w with
  | none =>
    have : tm.lastMod ≠ t := by omega
    simp [writeTermPure, this]
  | some v => simp [writeTermPure, recordTime_lt hlt]

/-! ### the property -/

/-- **Per cycle, per leaf, the outer delta equals the body's delta** - for the inlined wiring (`D = 0`) and for the
    nested wiring at every depth `D >= 1`, for every history and every body. -/
theorem forwarded_delta_eq_body_delta (D L t0 : Nat) (h : List Cycle) (cy : Cycle) (i : Nat) (hi : i < L)
    (hs : Sorted 0 (h ++ [cy])) :
    outerDelta D cy.t (run false D L t0 (h ++ [cy]) i) = cy.w i := by
  rw [run_proj D L t0 _ i hi]
  obtain ⟨⟨t1, hR, _, _⟩, hterm, hlt⟩ := state_after D t0 i h cy hs
  rw [outerDelta_R D t1 cy.t _ hR, hterm]
  exact writeTermPure_delta cy.t (cy.w i) _ hlt

/-- the nested wiring (any depth) and the inlined wiring of one definition record the same delta in every cycle -/
theorem nested_delta_eq_inlined_delta (D L t0 t0' : Nat) (h : List Cycle) (cy : Cycle) (i : Nat) (hi : i < L)
    (hs : Sorted 0 (h ++ [cy])) :
    outerDelta D cy.t (run false D L t0 (h ++ [cy]) i) = outerDelta 0 cy.t (run false 0 L t0' (h ++ [cy]) i) := by
  rw [forwarded_delta_eq_body_delta D L t0 h cy i hi hs, forwarded_delta_eq_body_delta 0 L t0' h cy i hi hs]

/-- no extra ticks: a leaf the body did not set in a cycle is not in the outer delta of that cycle -/
theorem no_tick_without_body_tick (D L t0 : Nat) (h : List Cycle) (cy : Cycle) (i : Nat) (hi : i < L)
    (hs : Sorted 0 (h ++ [cy])) (hw : cy.w i = none) :
    outerDelta D cy.t (run false D L t0 (h ++ [cy]) i) = none := by
  rw [forwarded_delta_eq_body_delta D L t0 h cy i hi hs, hw]

/-- the terminal of a leaf does not depend on how deep the definition is nested -/
theorem runChain_term (D i : Nat) (h : List Cycle) (c : Chain) :
    (runChain D i h c).term = h.foldl (fun tm cy => writeTermPure cy.t (cy.w i) tm) c.term := by
  induction h generalizing c with
  | nil => rfl
  | cons cy r ih => simp only [runChain, List.foldl_cons] at *; rw [ih, cycleChain_term]

/-- the full VALUE seen through the nested boundary is the body's own output value, at any depth, after any history -/
theorem forwarded_value_eq_body_value (D L t0 t0' : Nat) (h : List Cycle) (i : Nat) (hi : i < L) (hs : Sorted 0 h) :
    outerVal D (run false D L t0 h i) = outerVal 0 (run false 0 L t0' h i) := by
  rw [run_proj D L t0 _ i hi, run_proj 0 L t0' _ i hi]
  have hterm : (runChain D i h (bindLevelsChain false D t0 D {})).term = (runChain 0 i h (bindLevelsChain false 0 t0' 0 {})).term := by
    rw [runChain_term, runChain_term, bindLevelsChain_term, bindLevelsChain_term]
  have val : ∀ (D t0 : Nat), outerVal D (runChain D i h (bindLevelsChain false D t0 D {})) =
      (runChain D i h (bindLevelsChain false D t0 D {})).term.val := by
    intro D t0
    rcases state_before D t0 i h hs with ⟨he, hS⟩ | ⟨cy0, r, _, hR⟩
    · -- no cycle yet: the chain resolves to the (unset) terminal
      subst he
      unfold outerVal outerTgt
      by_cases hD : D = 0
      · simp [hD]
      · have hch : ∀ j, 1 ≤ j → j ≤ D → ((runChain D i [] (bindLevelsChain false D t0 D {})).links j).tgt = .term ∨
            (2 ≤ j ∧ ((runChain D i [] (bindLevelsChain false D t0 D {})).links j).tgt = .ep (j - 1)) := by
          intro j h1 h2
          rw [hS.1 j]
          have : 0 < j ∧ j ≤ D := ⟨by omega, h2⟩
          simp only [this, and_self, if_true]
          by_cases hj : j = 1
          · left; simp [s0tgt, hj]
          · right; refine ⟨by omega, ?_⟩; simp [s0tgt, hj]
        simp [hD, resolveSrc_chained _ D hch (D + 1) D (by omega) (Nat.le_refl _) (by omega)]
    · exact outerVal_R D cy0.t _ _ hR
  rw [val D t0, val 0 t0', hterm]

/-- **After start every leaf of the forwarding tree is bound, on every level** (node-owned and composed results
    alike).  This is the lemma a short-circuit in the per-child loop falsifies (see `short_circuit_leaves_unbound`). -/
theorem all_leaves_bound_after_start (comp : Bool) (D L t0 : Nat) (i k : Nat) (hi : i < L) (h1 : 1 ≤ k) (hk : k ≤ D) :
    ((startTree comp D L t0 i).links k).tgt ≠ .none := by
  unfold startTree
  rw [bindLevels_proj comp D L t0 D _ i hi]
  have h := (start_chain comp D t0).1 k
  have hc : 0 < k ∧ k ≤ D := ⟨by omega, hk⟩
  show ((bindLevelsChain comp D t0 D {}).links k).tgt ≠ .none
  rw [h]
  simp only [hc, and_self, if_true]
  unfold s0tgt
  split <;> simp

/-- one more level of nesting changes nothing -/
theorem nested_depth_succ (D L t0 t0' : Nat) (h : List Cycle) (cy : Cycle) (i : Nat) (hi : i < L)
    (hs : Sorted 0 (h ++ [cy])) :
    outerDelta (D + 1) cy.t (run false (D + 1) L t0 (h ++ [cy]) i) = outerDelta D cy.t (run false D L t0' (h ++ [cy]) i) := by
  rw [forwarded_delta_eq_body_delta (D + 1) L t0 h cy i hi hs, forwarded_delta_eq_body_delta D L t0' h cy i hi hs]

/-- **Depth is irrelevant**: by induction on the depth, every depth records what depth 0 (the inlined wiring) records -/
theorem nested_depth_irrelevant (D D' L t0 : Nat) (h : List Cycle) (cy : Cycle) (i : Nat) (hi : i < L)
    (hs : Sorted 0 (h ++ [cy])) :
    outerDelta D cy.t (run false D L t0 (h ++ [cy]) i) = outerDelta D' cy.t (run false D' L t0 (h ++ [cy]) i) := by
  have base : ∀ D, outerDelta D cy.t (run false D L t0 (h ++ [cy]) i) = outerDelta 0 cy.t (run false 0 L t0 (h ++ [cy]) i) := by
    intro D
    induction D with
    | zero => rfl
    | succ D ih => rw [nested_depth_succ D L t0 t0 h cy i hi hs, ih]
  rw [base D, base D']

/-- The one observable the depth does change: `modified()` on a leaf that has NO value.  It happens exactly in the
    first evaluated cycle, at depth >= 2 (the outer levels re-point from the endpoint below them to the terminal,
    and a re-point is recorded as a tick), on the leaves the body did not set in that cycle. -/
theorem ghost_iff (D L t0 : Nat) (h : List Cycle) (cy : Cycle) (i : Nat) (hi : i < L) (hs : Sorted 0 (h ++ [cy])) :
    outerGhost D cy.t (run false D L t0 (h ++ [cy]) i) = true ↔ (2 ≤ D ∧ h = [] ∧ cy.w i = none) := by
  rw [run_proj D L t0 _ i hi]
  obtain ⟨⟨t1, hR, hfirst, hlater⟩, hterm, hlt⟩ := state_after D t0 i h cy hs
  unfold outerGhost
  rw [outerMod_R D t1 cy.t _ hR, outerVal_R D t1 cy.t _ hR]
  obtain ⟨_, hv, h1, h2, h3, h4⟩ := hR
  generalize hc : runChain D i (h ++ [cy]) (bindLevelsChain false D t0 D {}) = c at *
  generalize hc0 : runChain D i h (bindLevelsChain false D t0 D {}) = c0 at *
  cases hw : cy.w i with
  | some v =>
    have : c.term.val = some v := by rw [hterm, hw]; simp [writeTermPure]
    simp [this]
  | none =>
    have htm : c.term = c0.term := by rw [hterm, hw]; simp [writeTermPure]
    by_cases hval : c.term.val = none
    · have hz : c.term.lastMod = 0 := by
        by_cases hz : c.term.lastMod = 0
        · exact hz
        · have := hv.2 hz; simp [hval] at this
      have ht0 : 0 < cy.t := by omega
      by_cases hD : D ≤ 1
      · simp [hD, hz, hval]; omega
      · simp only [hD, if_false, hz, hval, Option.isNone_none, Bool.and_true]
        have hmax : max t1 0 = t1 := by omega
        rw [hmax]
        by_cases he : h = []
        · simp [hfirst he, he]; omega
        · have := hlater he
          simp [he]; omega
    · have hsome : c.term.val.isSome = true := by
        cases hx : c.term.val with
        | none => exact absurd hx hval
        | some x => rfl
      have hnz : c.term.lastMod ≠ 0 := hv.1 hsome
      have hne : h ≠ [] := by
        intro he
        subst he
        have hs0 : c0.term = {} := by
          rw [← hc0]; exact (start_chain false D t0).2
        rw [htm, hs0] at hnz
        exact hnz rfl
      have hisn : c.term.val.isNone = false := by
        cases hx : c.term.val with
        | none => exact absurd hx hval
        | some x => rfl
      simp [hisn, hne]

/-! ### the seeded defect, and the composed-result finding -/

/-- the per-child loop with a short-circuit (`changed = changed || bind(child_i)`): once a leaf reports a (re)bind
    the remaining leaves are skipped -/
def bindTreeShort (comp sampled : Bool) (D t k : Nat) : Nat → Tree → Bool × Tree
  | 0, tr => (false, tr)
  | n + 1, tr =>
    let r := bindTreeShort comp sampled D t k n tr
    if r.1 then r else
    let b := bindLeaf comp sampled D t k (r.2 n)
    (b.1, updTree r.2 n b.2)

/-- with the short-circuit, the start of a depth-1 nested node binds leaf 0 only: leaf 1 and 2 stay unbound -/
theorem short_circuit_leaves_unbound :
    (((bindTreeShort false false 1 1 1 3 (fun _ => {})).2 0).links 1).tgt = .term ∧
    (((bindTreeShort false false 1 1 1 3 (fun _ => {})).2 1).links 1).tgt = .none ∧
    (((bindTreeShort false false 1 1 1 3 (fun _ => {})).2 2).links 1).tgt = .none := by
  decide

/-- the replay `def l2 .. comp .. / c 2 6 / c 3 -` as cycles of the model -/
def composedWitness : List Cycle :=
  [{ t := 1, w := fun i => if i = 0 then some 2 else if i = 1 then some 6 else none },
   { t := 2, w := fun i => if i = 0 then some 3 else none }]

/-- **Finding (C09-composed): a COMPOSED result is not forwarded faithfully.**  With the REF terminal of a composed
    result (`comp = true`) the nested wiring at depth 1 re-reports, in the cycle after the REF first published, a leaf
    the body did not set (leaf 1 = 6), while the inlined wiring reports only leaf 0. -/
theorem composed_result_reticks_unticked_leaf :
    Sorted 0 composedWitness ∧
    outerDelta 0 2 (run true 0 2 1 composedWitness 1) = none ∧
    outerDelta 1 2 (run true 1 2 1 composedWitness 1) = some 6 ∧
    outerDelta 1 2 (run true 1 2 1 composedWitness 0) = some 3 := by
  refine ⟨by simp [composedWitness, Sorted], ?_, ?_, ?_⟩ <;> decide

/-! ### non-vacuity -/

/-- a history with a first cycle that sets only leaf 0, a later cycle that sets leaves 1 and 2 -/
def demo : List Cycle :=
  [{ t := 1, w := fun i => if i = 0 then some 5 else none },
   { t := 3, w := fun i => if i = 1 then some 7 else if i = 2 then some 9 else none }]

example : Sorted 0 demo := by simp [demo, Sorted]

-- depth 2, three leaves: the outer delta in cycle 3 is {1=7, 2=9}; leaf 0 keeps its value 5 and does not tick
example : outerDelta 2 3 (run false 2 3 1 demo 1) = some 7 ∧ outerDelta 2 3 (run false 2 3 1 demo 2) = some 9 ∧
    outerDelta 2 3 (run false 2 3 1 demo 0) = none ∧ outerVal 2 (run false 2 3 1 demo 0) = some 5 := by decide

-- the ghost tick of `ghost_iff`: depth 2, first cycle, leaf 1 has no value but reports modified
example : outerGhost 2 1 (run false 2 3 1 (demo.take 1) 1) = true ∧ outerGhost 1 1 (run false 1 3 1 (demo.take 1) 1) = false := by
  decide

-- after start (before any cycle) every level of every leaf is bound: depth 3, leaf 2
example : ((startTree false 3 4 1 2).links 3).tgt = .ep 2 ∧ ((startTree false 3 4 1 2).links 1).tgt = .term := by decide

end HgVerif.NestShape
