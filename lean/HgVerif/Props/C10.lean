import HgVerif.Lemmas.MapNodeSolo
/-!
# C10 — map_ runs one isolated instance per key and mirrors the key set

Property theorems only (helpers live in `Lemmas/MapNode.lean`, `Lemmas/MapNodeSolo.lean`).  Everything is
about the model of `map_node.cpp` in `Model/MapNode.lean` and holds for an ARBITRARY mapped function
`B : Beh κ σ ι ο ε` (per key: a state, `init`, a `step` that may emit, fail and name its next wake-up
time) over arbitrary key, state, input, output and error types.

Histories.  `Reach B c t m` — `m` is reachable from the empty node by cycles whose only hypotheses are the
engine's (`EnvOk`: time advances, stays below `MAX_DT`, the map node's own wake-up is not skipped) and
that no exception escaped (`ok`; automatic with error capture, `map_error_keyed`).  Every other field of
a cycle input is arbitrary: key-set valid or not, any added / removed / erased slots (slot reuse, re-adds),
any set of notified children, any extra candidate slots, broadcast ticks.

* `map_no_lost_child_wakeup` (floor): in every reachable state every started child with a pending
  wake-up `n < MAX_DT` owns a heap entry for its slot with `when ≤ n` that is valid (observed, or pulled
  with `pulled_when = when`), and the map node's slot in the parent schedule is in the future and `≤`
  every heap entry.  `map_due_child_is_candidate` is the mid-cycle half ("or is a candidate this cycle").
* `map_wakeup_honoured`: consequently a child is never evaluated late (`now ≤ next`), a cycle at a child's
  wake-up time runs the map node, and after every cycle every started child's wake-up is in the future.
* `map_keys_mirror` (floor): after any well-formed history the started entries are exactly the live slots
  of the key set as the environment's add / remove events define it (`liveRun`), with their keys, and the
  output dictionary holds exactly the live keys whose child output is valid.
* `map_per_key` (ceiling): after any well-formed history, the entry of EVERY slot equals (up to the
  `pulled_when` bookkeeping) the run of that slot's own machine `soloRun` — erase, notification, stop,
  create from `init`, evaluation when due — over the history; `map_per_key_ticks`: the value ticks of
  every cycle are exactly the ticks of the individual slot machines.  `soloStep` reads nothing but the
  slot's own entry and its own view of the cycle input.
* `map_non_interference`: two well-formed histories that agree on what one slot holding key `k` can see
  (`SlotAgree`: its own erase / notify / remove / add / late flags and `input k`) give that slot the same
  entry — whatever all other keys, slots, candidates, heap contents and failures are.
* `map_fresh_after_readd`: a slot that is added holds the child started from `init` in that cycle,
  whatever the history before.
* `map_error_keyed`: with error capture no exception escapes; the error ticks of a cycle are exactly the
  failures of the individual slot machines, each under its own slot's key; every slot still follows its
  own machine.

Strength.  Full for the scheduling / isolation logic of the model.  The environment contract of the
ceiling (`KeysOk`: the key set stays valid and the first reconcile sees the slots just added; `LateOk`:
re-binding notifications reach membership-changed keys only; `StoreOk`: erase-before-reuse) is what the
slot store and the map node's own wiring guarantee in the harness graph; the floor needs none of it.
PARTIAL: source re-pointing and pause / resume are not modelled; what happens inside a child graph after a
captured failure is the child's behaviour (finding C10-A, reported by the trace monitor); memory lifetime
under slot reuse is outside any of this.
-/
namespace HgVerif.MapNode

local notation "Time" => Nat

variable {κ σ ι ο ε : Type}

/-! ## histories -/

/-- states reachable from the empty map node (engine hypotheses only) -/
inductive Reach (B : Beh κ σ ι ο ε) (c : Bool) : Time → M κ σ ο ε → Prop
  | init : Reach B c 0 {}
  | step {t : Time} {m : M κ σ ο ε} (I : CycleIn κ ι) : Reach B c t m → EnvOk t m I →
      (cycle B c m I).out.ok = true → Reach B c I.now (cycle B c m I).m

theorem inv_init : Inv 0 ({} : M κ σ ο ε) := by
  refine ⟨List.Pairwise.nil, ?_, ?_, ?_, ?_, ?_⟩
  · intro x hx; cases hx
  · intro s e he; cases he
  · intro s e he; cases he
  · intro x hx; cases hx
  · intro s e he; cases he

theorem reach_inv {B : Beh κ σ ι ο ε} {c : Bool} {t : Time} {m : M κ σ ο ε} (h : Reach B c t m) : Inv t m := by
  induction h with
  | init => exact inv_init
  | step I _ henv hok ih => exact cycle_inv B c ih henv hok

/-- C10 (floor): no child wake-up is ever lost from the child-schedule heap, and the map node is armed
    for the heap minimum — in EVERY reachable state, for arbitrary child behaviours. -/
theorem map_no_lost_child_wakeup {B : Beh κ σ ι ο ε} {c : Bool} {t : Time} {m : M κ σ ο ε} (h : Reach B c t m) :
    (∀ s e, m.ent s = some e → e.started = true → e.next < MAX_DT →
      ∃ x ∈ m.heap, x.slot = s ∧ x.when ≤ e.next ∧ (x.pulled = false ∨ e.pulledWhen = x.when)) ∧
    (∀ x ∈ m.heap, t < m.ps ∧ m.ps ≤ x.when) ∧
    (∀ s e, m.ent s = some e → e.pulledWhen ≠ MAX_DT → (⟨e.pulledWhen, s, true⟩ : HE) ∈ m.heap) := by
  have hinv := reach_inv h
  refine ⟨?_, hinv.armed, hinv.pw⟩
  intro s e he hst hn
  rcases hinv.cov s e he hst hn with hf | ⟨x, hx, hs, _, hle, hv⟩
  · cases hf
  · exact ⟨x, hx, hs, hle, hv⟩

/-- C10 (floor, mid-cycle half): when the map node runs, every started child that is due after the key
    reconciliation is in the materialised candidate list. -/
theorem map_due_child_is_candidate (B : Beh κ σ ι ο ε) {c : Bool} {t : Time} {m : M κ σ ο ε} (I : CycleIn κ ι)
    (h : Reach B c t m) (henv : EnvOk t m I) :
    let m1 := upstream m I
    let r1 := reconcile B I { m := m1, out := { evaluated := true } }
    let p := prepare r1.m I m1.primed
    ∀ s e, p.1.ent s = some e → e.started = true → e.next ≤ I.now → s ∈ p.2 := by
  intro m1 r1 p s e he hst hdue
  obtain ⟨hmid, _⟩ := upstream_mid (reach_inv h) henv
  have h1 := reconcile_mid B I { m := m1, out := { evaluated := true } } hmid
  have h2 := prepare_loop r1.m I m1.primed
    ⟨h1.sorted, h1.pw, h1.cov.mono (fun _ hs => hs) (fun _ hx => hx), h1.capOk⟩
  have hlt := henv.lt_max
  rcases h2.cov s e he hst (by omega) with hin | ⟨x, _, _, hlo, hle, _⟩
  · exact hin
  · omega

theorem upstream_ps_eq (m : M κ σ ο ε) (I : CycleIn κ ι) (h : m.ps = I.now) : (upstream m I).ps = I.now := by
  have hf : ∀ (l : List Nat) (m' : M κ σ ο ε), m'.ps = I.now → (l.foldl (notify I.now) m').ps = I.now := by
    intro l
    induction l with
    | nil => intro m' h'; exact h'
    | cons a as ih =>
      intro m' h'
      apply ih
      rcases notify_cases I.now m' a with heq | ⟨_, _, _, heq⟩
      · rw [heq]; exact h'
      · rw [heq]; exact schedNode_now _ _
  unfold upstream
  simp only
  split
  · exact schedNode_now _ _
  · exact hf _ _ h

/-- a wake-up is honoured exactly in its cycle: never late, the cycle at its time runs the map node,
    and afterwards nothing that is due is left behind -/
theorem map_wakeup_honoured (B : Beh κ σ ι ο ε) {c : Bool} {t : Time} {m : M κ σ ο ε} (I : CycleIn κ ι)
    (h : Reach B c t m) (henv : EnvOk t m I) (hok : (cycle B c m I).out.ok = true) :
    (∀ s e, m.ent s = some e → e.started = true → I.now ≤ e.next) ∧
    (∀ s e, m.ent s = some e → e.started = true → e.next = I.now → (upstream m I).ps = I.now) ∧
    (∀ s e, (cycle B c m I).m.ent s = some e → e.started = true → I.now < e.next) := by
  have hinv := reach_inv h
  have hlt := henv.lt_max
  have hcov : ∀ s e, m.ent s = some e → e.started = true → e.next < MAX_DT → m.ps ≤ e.next ∧ t < m.ps := by
    intro s e he hst hn
    rcases hinv.cov s e he hst hn with hf | ⟨x, hx, _, _, hle, _⟩
    · cases hf
    · have := hinv.armed x hx; omega
  refine ⟨?_, ?_, ?_⟩
  · intro s e he hst
    by_cases hn : e.next < MAX_DT
    · obtain ⟨h1, h2⟩ := hcov s e he hst hn
      have := henv.noskip h2; omega
    · omega
  · intro s e he hst hdue
    obtain ⟨h1, h2⟩ := hcov s e he hst (by omega)
    have := henv.noskip h2
    exact upstream_ps_eq m I (by omega)
  · intro s e he hst
    have hinv' := cycle_inv B c hinv henv hok
    by_cases hn : e.next < MAX_DT
    · rcases hinv'.cov s e he hst hn with hf | ⟨x, hx, _, _, hle, _⟩
      · cases hf
      · have := hinv'.future x hx; omega
    · omega

/-! ## the per-key machine -/

/-- the hypotheses of a well-formed history, cycle by cycle -/
def WfRun (B : Beh κ σ ι ο ε) (c : Bool) : Time → M κ σ ο ε → List (CycleIn κ ι) → Prop
  | _, _, [] => True
  | t, m, I :: rest =>
    EnvOk t m I ∧ KeysOk m I ∧ LateOk I ∧ (cycle B c m I).out.ok = true ∧ WfRun B c I.now (cycle B c m I).m rest

/-- one slot's machine over a history -/
def soloRun (B : Beh κ σ ι ο ε) (c : Bool) (s : Nat) : List (CycleIn κ ι) → Option (Entry κ σ ο ε) → Option (Entry κ σ ο ε)
  | [], o => o
  | I :: rest, o => soloRun B c s rest (soloStep B c I s o)

theorem soloRun_congr (B : Beh κ σ ι ο ε) (c : Bool) (s : Nat) (H : List (CycleIn κ ι)) {o o' : Option (Entry κ σ ο ε)}
    (h : SEq o o') : SEq (soloRun B c s H o) (soloRun B c s H o') := by
  induction H generalizing o o' with
  | nil => exact h
  | cons I rest ih => exact ih (soloStep_congr B c I s h)

theorem run_inv (B : Beh κ σ ι ο ε) (c : Bool) {t : Time} {m : M κ σ ο ε} (H : List (CycleIn κ ι))
    (hinv : Inv t m) (hwf : WfRun B c t m H) : ∃ t', Inv t' (run B c m H) := by
  induction H generalizing t m with
  | nil => exact ⟨t, hinv⟩
  | cons I rest ih =>
    obtain ⟨henv, _, _, hok, hrest⟩ := hwf
    exact ih (cycle_inv B c hinv henv hok) hrest

/-- C10 (ceiling): for every slot, after every well-formed history, the entry the map node holds is the one
    the slot's own machine computes — from `init` at every (re-)add, evaluated exactly when due, never
    reading another slot, the heap or the candidate set. -/
theorem map_per_key (B : Beh κ σ ι ο ε) (c : Bool) {t : Time} {m : M κ σ ο ε} (H : List (CycleIn κ ι))
    (hinv : Inv t m) (hwf : WfRun B c t m H) (s : Nat) :
    SEq ((run B c m H).ent s) (soloRun B c s H (m.ent s)) := by
  induction H generalizing t m with
  | nil => exact SEq.refl _
  | cons I rest ih =>
    obtain ⟨henv, hk, hl, hok, hrest⟩ := hwf
    have h1 := (cycle_solo B c hinv henv hk hl hok).1 s
    have h2 := ih (cycle_inv B c hinv henv hok) hrest
    exact SEq.trans h2 (soloRun_congr B c s rest h1)

/-- … and the value ticks of the cycle that follows a well-formed history are exactly the ticks of the
    individual slot machines (the output stream under a key is the stream of its own machine). -/
theorem map_per_key_ticks (B : Beh κ σ ι ο ε) (c : Bool) {t : Time} {m : M κ σ ο ε} (H : List (CycleIn κ ι))
    (I : CycleIn κ ι) (hinv : Inv t m) (hwf : WfRun B c t m (H ++ [I])) (kv : κ × ο) :
    kv ∈ (cycle B c (run B c m H) I).out.modified ↔
      ∃ s, tickOf B c I s (soloPre B I s (soloRun B c s H (m.ent s))) = some kv := by
  induction H generalizing t m with
  | nil =>
    obtain ⟨henv, hk, hl, hok, _⟩ := hwf
    exact (cycle_solo B c hinv henv hk hl hok).2.1 kv
  | cons J rest ih =>
    obtain ⟨henv, hk, hl, hok, hrest⟩ := hwf
    have h1 := fun s => (cycle_solo B c hinv henv hk hl hok).1 s
    have h2 := ih (cycle_inv B c hinv henv hok) hrest
    simp only [run, soloRun]
    rw [h2]
    constructor
    · rintro ⟨s, hs⟩
      refine ⟨s, ?_⟩
      rw [← (tickOf_congr B c I s (soloPre_congr B I s (soloRun_congr B c s rest (h1 s)))).1]; exact hs
    · rintro ⟨s, hs⟩
      refine ⟨s, ?_⟩
      rw [(tickOf_congr B c I s (soloPre_congr B I s (soloRun_congr B c s rest (h1 s)))).1]; exact hs

/-- two histories, cycle by cycle in relation `R` -/
inductive AllRel {α : Type} (R : α → α → Prop) : List α → List α → Prop
  | nil : AllRel R [] []
  | cons {a b : α} {as bs : List α} : R a b → AllRel R as bs → AllRel R (a :: as) (b :: bs)

/-- the slot machines of two histories that look the same from slot `s` (holding key `k`) coincide -/
theorem soloRun_agree (B : Beh κ σ ι ο ε) (c : Bool) (s : Nat) (k : κ) (H H' : List (CycleIn κ ι))
    (h : AllRel (SlotAgree s k) H H') (o : Option (Entry κ σ ο ε)) (hk : KeyIs k o) :
    soloRun B c s H o = soloRun B c s H' o := by
  induction h generalizing o with
  | nil => rfl
  | cons hI _ ih =>
    obtain ⟨h1, h2, _⟩ := soloStep_agree B c s k hI o hk
    simp only [soloRun]
    rw [← h1]
    exact ih _ h2

/-- C10 (isolation): the entry of a slot depends on nothing but the slot's own view of the history.
    Two well-formed runs — different other keys, different ticks and failures of other keys, different
    candidate sets and heap contents — that agree on what slot `s` (key `k`) sees give it the same entry. -/
theorem map_non_interference (B : Beh κ σ ι ο ε) (c : Bool) {t t' : Time} {m m' : M κ σ ο ε}
    (H H' : List (CycleIn κ ι)) (hinv : Inv t m) (hinv' : Inv t' m') (hwf : WfRun B c t m H)
    (hwf' : WfRun B c t' m' H') (s : Nat) (k : κ) (hagree : AllRel (SlotAgree s k) H H')
    (h0 : SEq (m.ent s) (m'.ent s)) (hk : KeyIs k (m.ent s)) :
    SEq ((run B c m H).ent s) ((run B c m' H').ent s) := by
  have h1 := map_per_key B c H hinv hwf s
  have h2 := map_per_key B c H' hinv' hwf' s
  refine SEq.trans h1 (SEq.trans ?_ (SEq.symm h2))
  rw [soloRun_agree B c s k H H' hagree _ hk]
  exact soloRun_congr B c s H' h0

/-- C10 (fresh state): in the cycle in which the key set adds slot `s` with key `k`, the slot holds the child
    started from `init` (and evaluated if due) — independent of everything that happened before, in
    particular of an earlier incarnation of the same key or of the same slot. -/
theorem map_fresh_after_readd (B : Beh κ σ ι ο ε) (c : Bool) {t : Time} {m : M κ σ ο ε} {I : CycleIn κ ι}
    (hinv : Inv t m) (henv : EnvOk t m I) (hk : KeysOk m I) (hl : LateOk I) (hst : StoreOk m I)
    (hok : (cycle B c m I).out.ok = true) (s : Nat) (k : κ) (hkm : I.keysModified = true)
    (hadd : I.added.find? (fun sk => sk.1 == s) = some (s, k)) :
    SEq ((cycle B c m I).m.ent s)
      (some (soloEvalE B c I s (freshE B I k (B.init k I.now (I.input k))))) := by
  have h1 := (cycle_solo B c hinv henv hk hl hok).1 s
  refine SEq.trans h1 ?_
  have hmem : (s, k) ∈ I.added := List.mem_of_find?_eq_some hadd
  have hfree := hst.addFree (s, k) hmem
  have hpre : soloPre B I s (m.ent s) = some (freshE B I k (B.init k I.now (I.input k))) := by
    unfold soloPre
    simp only [hkm, hadd, true_and, if_true]
    have h1 : (if s ∈ I.erased then none else m.ent s) = none := by
      rcases hfree with h | h
      · simp only at h; rw [h]; simp
      · simp only at h; simp [h]
    rw [h1]
    simp [startedO, createE]
  rw [soloStep_eq, hpre]
  exact SEq.refl _

/-! ## the key set -/

/-- the live key of a slot according to the environment's add / remove events -/
def liveRun (s : Nat) : List (CycleIn κ ι) → Option κ → Option κ
  | [], l => l
  | I :: rest, l => liveRun s rest (liveStep I s l)

/-- the slot-store protocol, cycle by cycle -/
def StoreRun (B : Beh κ σ ι ο ε) (c : Bool) : M κ σ ο ε → List (CycleIn κ ι) → Prop
  | _, [] => True
  | m, I :: rest => StoreOk m I ∧ StoreRun B c (cycle B c m I).m rest

theorem liveOf_SEq {o o' : Option (Entry κ σ ο ε)} (h : SEq o o') : liveOf o = liveOf o' := by
  cases o with
  | none => rw [SEq.none_left h]
  | some e =>
    cases o' with
    | none => simp [SEq] at h
    | some e' =>
      obtain ⟨h1, h2, _⟩ := strip_eq_fields (SEq.some_iff.mp h)
      simp [liveOf, h1, h2]

theorem mem_outDict (m : M κ σ ο ε) (hc : CapOk m.ent m.cap) (k : κ) (v : ο) :
    (k, v) ∈ outDict m ↔ ∃ s e, m.ent s = some e ∧ e.started = true ∧ e.key = k ∧ e.outv = some v := by
  unfold outDict
  simp only [List.mem_filterMap, List.mem_range]
  constructor
  · rintro ⟨s, _, h⟩
    cases he : m.ent s with
    | none => rw [he] at h; cases h
    | some e =>
      rw [he] at h
      simp only at h
      cases hst : e.started with
      | false => simp [hst] at h
      | true =>
        simp only [hst, if_true] at h
        cases hv : e.outv with
        | none => rw [hv] at h; cases h
        | some v' =>
          rw [hv] at h
          simp at h
          exact ⟨s, e, he, hst, h.1, by rw [hv, h.2]⟩
  · rintro ⟨s, e, he, hst, hk, hv⟩
    exact ⟨s, hc s e he, by simp [he, hst, hv, hk]⟩

/-- C10 (floor): the map mirrors the key set.  After any well-formed history the started entries are exactly
    the live slots of the key set, with their keys, and the output dictionary holds exactly the live keys
    whose child output is valid. -/
theorem map_keys_mirror (B : Beh κ σ ι ο ε) (c : Bool) {t : Time} {m : M κ σ ο ε} (H : List (CycleIn κ ι))
    (hinv : Inv t m) (hwf : WfRun B c t m H) (hst : StoreRun B c m H) :
    (∀ s, liveOf ((run B c m H).ent s) = liveRun s H (liveOf (m.ent s))) ∧
    (∀ k v, (k, v) ∈ outDict (run B c m H) ↔
      ∃ s e, (run B c m H).ent s = some e ∧ liveRun s H (liveOf (m.ent s)) = some k ∧ e.outv = some v) := by
  have hlive : ∀ s, liveOf ((run B c m H).ent s) = liveRun s H (liveOf (m.ent s)) := by
    intro s
    induction H generalizing t m with
    | nil => rfl
    | cons I rest ih =>
      obtain ⟨henv, hk, hl, hok, hrest⟩ := hwf
      obtain ⟨hs1, hsrest⟩ := hst
      have h1 := (cycle_solo B c hinv henv hk hl hok).1 s
      have h2 := ih (cycle_inv B c hinv henv hok) hrest hsrest
      simp only [run, liveRun]
      rw [h2, liveOf_SEq h1]
      congr 1
      apply liveOf_soloStep
      · intro hs e he; exact hs1.eraseStopped s hs e he
      · intro sk hsk
        have hmem := List.mem_of_find?_eq_some hsk
        have hs' : sk.1 = s := by
          have := List.find?_some hsk; simpa using this
        have := hs1.addFree sk hmem
        rw [hs'] at this; exact this
  refine ⟨hlive, ?_⟩
  intro k v
  obtain ⟨t', hinv'⟩ := run_inv B c H hinv hwf
  rw [mem_outDict _ hinv'.capOk]
  constructor
  · rintro ⟨s, e, he, hst', hk, hv⟩
    refine ⟨s, e, he, ?_, hv⟩
    rw [← hlive s, he]; simp [liveOf, hst', hk]
  · rintro ⟨s, e, he, hl, hv⟩
    rw [← hlive s, he] at hl
    simp only [liveOf] at hl
    split at hl
    · rename_i hst'
      simp at hl
      exact ⟨s, e, he, hst', hl, hv⟩
    · cases hl

/-! ## failures -/

theorem errOf_spec (B : Beh κ σ ι ο ε) (c : Bool) (I : CycleIn κ ι) (s : Nat) (o : Option (Entry κ σ ο ε))
    (k : κ) (x : ε) (h : errOf B c I s o = some (k, x)) :
    ∃ e, o = some e ∧ e.started = true ∧ e.key = k ∧
      (childEval B c I (if I.late.contains s then notifyE I.now e else e)).err = some x := by
  cases o with
  | none => cases h
  | some e =>
    unfold errOf at h
    cases hst : e.started with
    | false => simp [hst] at h
    | true =>
      simp only [hst, if_true] at h
      cases he : (childEval B c I (if I.late.contains s then notifyE I.now e else e)).err with
      | none => rw [he] at h; cases h
      | some x' =>
        rw [he] at h
        simp at h
        exact ⟨e, rfl, hst, h.1, by rw [he, h.2]⟩

/-- C10 (failures are keyed): with error capture no exception escapes the map node; the error ticks of a
    cycle are exactly the failures of the individual slot machines, each written under its own slot's key;
    and every slot — failing or not — still follows its own machine, so a failure of one key changes
    nothing for any other key. -/
theorem map_error_keyed (B : Beh κ σ ι ο ε) {t : Time} {m : M κ σ ο ε} {I : CycleIn κ ι}
    (hinv : Inv t m) (henv : EnvOk t m I) (hk : KeysOk m I) (hl : LateOk I) :
    (cycle B true m I).out.ok = true ∧
    (∀ k x, (k, x) ∈ (cycle B true m I).out.errs ↔
      ∃ s e, soloPre B I s (m.ent s) = some e ∧ e.started = true ∧ e.key = k ∧
        (childEval B true I (if I.late.contains s then notifyE I.now e else e)).err = some x) ∧
    (∀ s, SEq ((cycle B true m I).m.ent s) (soloStep B true I s (m.ent s))) := by
  have hok := cycle_ok_of_captures B m I
  obtain ⟨h1, _, h3⟩ := cycle_solo B true hinv henv hk hl hok
  refine ⟨hok, ?_, h1⟩
  intro k x
  rw [h3]
  constructor
  · rintro ⟨s, hs⟩
    obtain ⟨e, he, hst, hkey, herr⟩ := errOf_spec B true I s _ k x hs
    exact ⟨s, e, he, hst, hkey, herr⟩
  · rintro ⟨s, e, he, hst, hkey, herr⟩
    refine ⟨s, ?_⟩
    rw [he]
    unfold errOf
    simp only [hst, if_true]
    rw [herr, ← hkey]; rfl

/-! ## non-vacuity: a concrete mapped function and a well-formed history with a self-scheduled wake-up,
a removal, an erase and the reuse of the slot by another key -/

/-- echo: emits the tick, and `value + 100` two steps later -/
def exB : Beh Nat Nat (Option Nat) Nat Nat where
  init := fun _ _ _ => 0
  startNext := fun _ now _ => now
  restart := fun _ _ _ s => s
  step := fun _ now i st =>
    match i with
    | some v => { st := v + 100, out := some v, next := now + 2 }
    | none => { st := st, out := some st, next := MAX_DT }

def exI1 : CycleIn Nat (Option Nat) :=
  { now := 1, cap := 1, keysModified := true, live := [(0, 7)], added := [(0, 7)], muxModified := true,
    modSlots := [0], input := fun k => if k = 7 then some 5 else none }
def exI2 : CycleIn Nat (Option Nat) := { now := 3, cap := 1, input := fun _ => none }
def exI3 : CycleIn Nat (Option Nat) :=
  { now := 4, cap := 1, keysModified := true, removed := [0], muxModified := true, input := fun _ => none }
def exI4 : CycleIn Nat (Option Nat) :=
  { now := 5, cap := 1, erased := [0], keysModified := true, live := [(0, 8)], added := [(0, 8)], muxModified := true,
    modSlots := [0], input := fun k => if k = 8 then some 1 else none }

def exM1 : M Nat Nat Nat Nat := (cycle exB true {} exI1).m
def exM2 : M Nat Nat Nat Nat := (cycle exB true exM1 exI2).m
def exM3 : M Nat Nat Nat Nat := (cycle exB true exM2 exI3).m

/-- after the first cycle key 7 has emitted 5, its echo is pending at time 3 as a pulled heap entry and
    the map node is armed for it -/
example : exM1.heap = [⟨3, 0, true⟩] ∧ exM1.ps = 3 ∧ outDict exM1 = [(7, 5)] := by decide
/-- the cycle at time 3 is the child's own wake-up: the echo 105 is emitted, the heap is empty again -/
example : exM2.heap = [] ∧ outDict exM2 = [(7, 105)] ∧ (cycle exB true exM1 exI2).out.modified = [(7, 105)] := by decide
/-- removal, erase, and reuse of slot 0 by key 8: a fresh child -/
example : outDict (cycle exB true exM3 exI4).m = [(8, 1)] ∧ (cycle exB true exM3 exI4).out.startedK = [8] := by decide

/-- the hypotheses of the ceiling theorems are satisfiable by this history -/
example : WfRun exB true 0 {} [exI1, exI2, exI3, exI4] ∧ StoreRun exB true {} [exI1, exI2, exI3, exI4] := by
  have hk : ∀ (m : M Nat Nat Nat Nat) (I : CycleIn Nat (Option Nat)), I.keysValid = true → m.primed = true → KeysOk m I :=
    fun m I hv hp => ⟨hv, fun h => (by rw [hp] at h; cases h), fun h => (by rw [hp] at h; cases h)⟩
  have hl : ∀ I : CycleIn Nat (Option Nat), I.late = [] → LateOk I :=
    fun I h => ⟨fun s hs => (by rw [h] at hs; cases hs), fun hne => absurd h hne⟩
  refine ⟨⟨⟨by decide, by decide, by decide⟩, ⟨rfl, fun _ => rfl, fun _ _ => rfl⟩, hl _ rfl, by decide,
           ⟨by decide, by decide, by decide⟩, hk _ _ rfl (by decide), hl _ rfl, by decide,
           ⟨by decide, by decide, by decide⟩, hk _ _ rfl (by decide), hl _ rfl, by decide,
           ⟨by decide, by decide, by decide⟩, hk _ _ rfl (by decide), hl _ rfl, by decide, trivial⟩, ?_⟩
  refine ⟨⟨by decide, by decide⟩, ⟨by decide, by decide⟩, ⟨by decide, by decide⟩, ⟨by decide, by decide⟩, trivial⟩

end HgVerif.MapNode
