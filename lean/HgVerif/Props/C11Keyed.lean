import HgVerif.Lemmas.ReduceKeyed
import HgVerif.Props.C11Inc
/-!
# C11, keyed publication — a reduce whose result is a SET publishes the union over the live elements and, as
# its delta, the exact difference of consecutive values, however the combiner tree is re-shaped

Property theorems only (helpers, the invariant `PInv`, the ghost `Ghost`, `Coh`, `StepOK`, `E1`, `ExactDelta`:
`Lemmas/ReduceKeyed.lean`; model: `Model/ReduceKeyed.lean`, which runs `Model/ReduceInc.lean`).

The setting.  One engine cycle presents to the publication (`Step`): whether `rebuild_structure` ran and, if so, the
identity of the new root and `bank_changed` (`ev`), the old root as `rebuild_structure` finds it (`pv`), the outputs
after the evaluation loop (`view`), whether the node was evaluated.  NOTHING is assumed about the sequence of root
identities (any tree shapes, any growth, any re-shapes, back and forth).  What is assumed (`StepOK`) is that a
source output is a well-behaved `TSS`: while an output stays the root, its value evolves by exactly the delta it
reports (`Coh`) — true by construction for combiner outputs (`combView_coh`: `union_tss_binary` writes the
difference to its own previous output) and for replayed elements (`inputView_coh`).

* `pub_step`               : ONE cycle keeps the invariant; the consumer holds exactly the root's set; unless the
                             cycle is `E1`, the consumer's delta is the exact difference (`ExactDelta`).
* `pinv_reachable`, `published_eq_root`, `delta_exact` : hence after EVERY history (induction over `ReachP`).
* `no_rereport`, `nothing_lost`, `delta_coherent` : no published element is re-reported as added (in particular not
                             when the tree is re-shaped), every element that left / entered is reported, applying the
                             delta to the set held before gives the set held now.
* `no_tick_without_change` : with the snapshot in place, a cycle that leaves the set unchanged does not tick the
                             result, however the tree was re-shaped — unless the tree moved to the other bank
                             (`sample_all`: the code's documented re-publication on capacity growth).
* `active_stays`, `e1_creates_snapshot` : the snapshot is created once and stays: `E1` can happen at most once.
* `e1_delta`               : KNOWN DEVIATION of the code, for all inputs: in `E1` (the snapshot-creating cycle while
                             the old root itself changed in that cycle) a tick reports the WHOLE new set as added and
                             nothing as removed.  `Witness.witness_first_reshape` is the concrete history.
* `Witness.witness_direct_ticks_on_reshape` : COUNTER-LEMMA (concrete): the direct strategy on a set-valued result
                             ticks on a re-shape that changes nothing and loses the value on an emptied collection.
* `root_set_eq_union`, `root_set_history_free` : the set at the root of the combiner tree (`Props/C11Inc.lean`,
                             instantiated with set union, which is associative on the nose) holds exactly the
                             members of the sets of the live elements, in every reachable state: independent of the
                             order of adds / removes / ticks and of shape, capacity and bank.
* `root_view_eq_rootVal`   : (Lemmas) the root the publication reads IS that cached root.
* `keyed_end_to_end_partial` : composition for `cycleK` (the function the driver runs): the set a consumer of the
                             node holds = the union over the live valid elements.  PARTIAL: it assumes that the
                             ghost root follows the tree's root in a cycle without rebuild and `StepOK` for the
                             views `cycleK` builds; the full statement is `KeyedEndToEnd`.  What is missing is the
                             derivation of those two from the tree invariants (`Shape`: the root identity only
                             changes in `rebuild_structure`; a cached combiner output never loses its value); for
                             combiner and element sources `combView_coh` / `inputView_coh` give `Coh` by construction.

Counter-witnesses are kernel-evaluated on one concrete history each (`decide`): tests, labelled `witness_…`.
-/
set_option linter.unusedVariables false
set_option linter.unusedSectionVars false

namespace HgVerif.ReduceKeyed
open HgVerif.Reduce HgVerif.ReduceInc

variable {κ ε : Type} [DecidableEq κ] [DecidableEq ε]

/-! ## one cycle -/

/-- C11-keyed (step): ONE engine cycle of the keyed publication, whatever the tree did (root kept, root changed,
    bank changed, node not evaluated): the invariant is kept, the consumer holds exactly the root's set, and — unless
    this is the snapshot-creating cycle with an old root that changed in the same cycle (`E1`) — the delta the
    consumer sees is exactly the difference to what it held before. -/
theorem pub_step (g : Ghost κ ε) (s : PState κ ε) (st : Step κ ε) (hi : PInv g s) (ho : StepOK g st) :
    PInv (nextG g st) (pubStep s st).1 ∧
    SetEq (obsSet (pubStep s st).2) (nextG g st).val ∧
    (¬ E1 g s st → ExactDelta g.val (nextG g st).val (pubStep s st).2) := by
  obtain ⟨p, seen⟩ := s
  have hw := hi.wf
  have hseen : SetEq seen g.val := hi.seen
  simp only [pubStep]
  by_cases hact : p.active = true
  · -- the snapshot exists
    obtain ⟨hpend, hfr, hsa, hsv, hhv⟩ := hi.snap hact
    have hpend : p.pending = g.root := hpend
    have hfr : p.fullRec = false := hfr
    have hsa : p.sampleAll = false := hsa
    have hsv : SetEq p.snap.value g.val := hsv
    have hhv : p.snap.hasValue = false → p.snap.value = [] := hhv
    have hclean : Clean p.snap.newCycle := ⟨rfl, rfl, rfl, hhv⟩
    cases hev : st.ev with
    | none =>
      have hnr : nextRoot g st = g.root := by simp [nextRoot, hev]
      by_cases hevd : st.evaluated = true
      · have hpc : pubCycle true st.pv st.view p none st.evaluated = finishPub st.view (pubNew p) := by
          simp [pubCycle, hevd, pubNew]
        rw [hpc]
        obtain ⟨h1, h2, h3⟩ := active_finish g st (pubNew p) seen hact hclean hsv
          (by show p.pending = nextRoot g st; rw [hpend, hnr]) hw (Or.inr (coh_root g st hw ho hnr))
        exact ⟨h1, h2, fun _ => h3⟩
      · have hevd' : st.evaluated = false := by simpa using hevd
        have hpc : pubCycle true st.pv st.view p none st.evaluated = pubNew p := by
          simp [pubCycle, hevd', pubNew]
        rw [hpc]
        have hc := coh_root g st hw ho hnr
        have hq : (srcView st.view (nextRoot g st)).modified = false := by
          rw [hnr]
          by_cases hr : g.root = .unbound
          · simp [srcView, hr, noView]
          · simp only [srcView, hr, if_false]; exact ho.idle hevd' hr
        obtain ⟨hlw, hv, _, _⟩ := hc.quiet hq
        have hval : SetEq g.val (nextG g st).val := by
          show SetEq g.val (if (srcView st.view (nextRoot g st)).live then (srcView st.view (nextRoot g st)).value else [])
          by_cases hl : (srcView st.view (nextRoot g st)).live = true
          · simp only [hl, if_true]; exact (hv hl).symm
          · have hl' : (srcView st.view (nextRoot g st)).live = false := by simpa using hl
            simp only [hl', Bool.false_eq_true, if_false]
            rw [hw.dead (by rw [← hlw, hl'])]; exact SetEq.refl _
        have hobs' : SetEq (obsSet (observe st.view (pubNew p) seen)) g.val := by
          simp only [observe, pubNew, hact, if_true, obsSet, newCycle_hasValue, newCycle_value]
          by_cases hh : p.snap.hasValue = true
          · simp only [hh, if_true]; exact hsv
          · simp only [hh, Bool.false_eq_true, if_false]
            rw [← hhv (by simpa using hh)]; exact hsv
        refine ⟨⟨nextG_wf g st, fun h => ?_, fun _ => ?_, ?_⟩, ?_, fun _ => ?_⟩
        · have : (pubNew p).active = true := hact
          rw [this] at h; cases h
        · exact ⟨by show p.pending = nextRoot g st; rw [hpend, hnr], hfr, hsa, hsv.trans hval, hhv⟩
        · exact hobs'.trans hval
        · exact hobs'.trans hval
        · simp only [observe, pubNew, hact, if_true, newCycle_modified, Bool.false_eq_true, if_false]
          exact ⟨fun x => by rw [← hval x]; simp, fun x => by rw [← hval x]; simp⟩
    | some e =>
      have hnr : nextRoot g st = e.src := by simp [nextRoot, hev]
      have hevd : st.evaluated = true := ho.evEval (by simp [hev])
      have hpc : pubCycle true st.pv st.view p (some e) st.evaluated = finishPub st.view (pubBeginActive p e) := by
        simp [pubCycle, hevd, beginKeyed, hact, pubBeginActive, pubNew]
      rw [hpc]
      have hcoh : (pubBeginActive p e).fullRec = true ∨ Coh g.val g.live (srcView st.view (nextRoot g st)) := by
        by_cases hsame : e.src = g.root
        · right; exact coh_root g st hw ho (by rw [hnr, hsame])
        · left; simp [pubBeginActive, hpend, hsame]
      obtain ⟨h1, h2, h3⟩ := active_finish g st (pubBeginActive p e) seen hact hclean hsv
          (by show e.src = nextRoot g st; rw [hnr]) hw hcoh
      exact ⟨h1, h2, fun _ => h3⟩
  · -- no snapshot yet: the output forwards to the root
    have hact' : p.active = false := by simpa using hact
    have htgt : p.target = g.root := hi.direct hact'
    cases hev : st.ev with
    | none =>
      have hnr : nextRoot g st = g.root := by simp [nextRoot, hev]
      have hpc : pubCycle true st.pv st.view p none st.evaluated = pubNew p := by
        by_cases hevd : st.evaluated = true <;> simp [pubCycle, hevd, finishPub, hact', pubNew]
      rw [hpc]
      obtain ⟨h1, h2, h3⟩ := direct_forward g st (pubNew p) seen hw ho hact' rfl htgt hnr
      exact ⟨h1, h2, fun _ => h3⟩
    | some e =>
      have hnr : nextRoot g st = e.src := by simp [nextRoot, hev]
      have hevd : st.evaluated = true := ho.evEval (by simp [hev])
      by_cases hsame : e.src = g.root
      · -- rebuilt, same root
        have hpc : pubCycle true st.pv st.view p (some e) st.evaluated = pubNew p := by
          simp [pubCycle, hevd, beginKeyed, hact', finishPub, bindDirect, htgt, hsame, pubNew]
        rw [hpc]
        obtain ⟨h1, h2, h3⟩ := direct_forward g st (pubNew p) seen hw ho hact' rfl htgt (by rw [hnr, hsame])
        exact ⟨h1, h2, fun _ => h3⟩
      · by_cases hub : g.root = .unbound
        · -- nothing was published: plain (sampled) bind
          have hsu : ¬ e.src = .unbound := by rw [← hub]; exact hsame
          have hpc : pubCycle true st.pv st.view p (some e) st.evaluated = pubRebound p e.src := by
            simp [pubCycle, hevd, beginKeyed, hact', finishPub, bindDirect, htgt, hub, hsu, pubRebound, pubNew]
          rw [hpc]
          obtain ⟨h1, h2, h3⟩ := direct_rebound g st (pubRebound p e.src) seen hseen hact' rfl
            (by show e.src = nextRoot g st; rw [hnr])
          exact ⟨h1, h2, fun _ => h3⟩
        · have hne : g.root ≠ e.src := fun h => hsame h.symm
          by_cases hpl : st.pv.live = true
          · -- the snapshot is created
            have hpc : pubCycle true st.pv st.view p (some e) st.evaluated = finishPub st.view (pubCreated p st.pv e) := by
              simp [pubCycle, hevd, beginKeyed, hact', htgt, hub, hne, hpl, pubCreated, pubNew]
            rw [hpc]
            have hpv := ho.pvOk hub
            by_cases hpm : st.pv.modified = true
            · -- E1: the old root changed in this very cycle
              obtain ⟨fr, fa, fh⟩ := fillSnapshot_filled st.pv hpl hpm
              obtain ⟨fv, fhv, _⟩ := filled_full e.bankChanged (fillSnapshot st.pv) (srcView st.view (nextRoot g st)) fr fa fh
              have hfin : finishPub st.view (pubCreated p st.pv e) =
                  { pubCreated p st.pv e with
                    snap := reconcileSet true e.bankChanged (fillSnapshot st.pv) (srcView st.view (nextRoot g st)),
                    fullRec := false, sampleAll := false } := by
                simp [finishPub, srcView, hnr, pubCreated]
                rfl
              rw [hfin]
              generalize reconcileSet true e.bankChanged (fillSnapshot st.pv) (srcView st.view (nextRoot g st)) = c' at fv fhv
              have hobs : obsSet (observe st.view { pubCreated p st.pv e with snap := c', fullRec := false, sampleAll := false } seen)
                  = c'.value := by
                simp only [observe, pubCreated, if_true, obsSet]
                split
                · rfl
                · rename_i hh; exact (fhv (by simpa using hh)).symm
              refine ⟨⟨nextG_wf g st, fun h => ?_, fun _ => ⟨hnr.symm, rfl, rfl, fv, fhv⟩, ?_⟩, ?_, fun hne1 => ?_⟩
              · simp [pubCreated] at h
              · show SetEq (obsSet _) _; rw [hobs]; exact fv
              · rw [hobs]; exact fv
              · exact absurd ⟨hact', hub, by simp [hev], by rw [hnr]; exact hsame, hpl, hpm⟩ hne1
            · have hpm' : st.pv.modified = false := by simpa using hpm
              obtain ⟨hcl, hfv⟩ := fillSnapshot_clean st.pv hpl hpm'
              have hq := hpv.quiet hpm'
              have hsv : SetEq (fillSnapshot st.pv).value g.val := hfv.trans (hq.2.1 hpl)
              obtain ⟨h1, h2, h3⟩ := active_finish g st (pubCreated p st.pv e) seen rfl hcl hsv
                  (by show e.src = nextRoot g st; rw [hnr]) hw (Or.inl rfl)
              exact ⟨h1, h2, fun _ => h3⟩
          · -- the old root holds nothing: plain (sampled) re-point
            have hpl' : st.pv.live = false := by simpa using hpl
            have hpc : pubCycle true st.pv st.view p (some e) st.evaluated = pubRebound p e.src := by
              simp [pubCycle, hevd, beginKeyed, hact', finishPub, bindDirect, htgt, hub, hne, hpl', hsame, pubRebound, pubNew]
            rw [hpc]
            obtain ⟨h1, h2, h3⟩ := direct_rebound g st (pubRebound p e.src) seen hseen hact' rfl
              (by show e.src = nextRoot g st; rw [hnr])
            exact ⟨h1, h2, fun _ => h3⟩

/-! ## every history -/

/-- the states reachable by ANY history of cycles whose root views are coherent (`StepOK`) -/
inductive ReachP : Ghost κ ε → PState κ ε → Prop
  | init : ReachP {} {}
  | step (g : Ghost κ ε) (s : PState κ ε) (st : Step κ ε) :
      ReachP g s → StepOK g st → ReachP (nextG g st) (pubStep s st).1

theorem pinv_init : PInv ({} : Ghost κ ε) ({} : PState κ ε) :=
  ⟨⟨fun _ => rfl, fun _ => rfl⟩, fun _ => rfl, fun h => by simp at h, SetEq.refl _⟩

theorem pinv_reachable (g : Ghost κ ε) (s : PState κ ε) (h : ReachP g s) : PInv g s := by
  induction h with
  | init => exact pinv_init
  | step g s st _ ho ih => exact (pub_step g s st ih ho).1

/-- C11-keyed (value): after ANY history, in every further cycle the set the consumer of the result holds is
    exactly the set of the current root of the combiner tree — whatever sequence of root identities, bank changes,
    snapshot creation and re-points led there. -/
theorem published_eq_root (g : Ghost κ ε) (s : PState κ ε) (st : Step κ ε) (h : ReachP g s) (ho : StepOK g st) :
    SetEq (obsSet (pubStep s st).2) (nextG g st).val :=
  (pub_step g s st (pinv_reachable g s h) ho).2.1

/-- C11-keyed (delta): after ANY history, the delta of every further cycle is the EXACT difference between the set
    published before and the set published now — except in the one snapshot-creating cycle `E1`. -/
theorem delta_exact (g : Ghost κ ε) (s : PState κ ε) (st : Step κ ε) (h : ReachP g s) (ho : StepOK g st)
    (hne : ¬ E1 g s st) : ExactDelta g.val (nextG g st).val (pubStep s st).2 :=
  (pub_step g s st (pinv_reachable g s h) ho).2.2 hne

/-- no element that was already published is re-reported as added (in particular not when the tree is re-shaped) -/
theorem no_rereport (g : Ghost κ ε) (s : PState κ ε) (st : Step κ ε) (h : ReachP g s) (ho : StepOK g st)
    (hne : ¬ E1 g s st) (x : ε) (hx : x ∈ (pubStep s st).2.added) : x ∉ g.val ∧ x ∈ (nextG g st).val := by
  have := (delta_exact g s st h ho hne).added x
  exact ⟨(this.mp hx).2, (this.mp hx).1⟩

/-- nothing is lost: an element that left the set is reported as removed, one that entered as added -/
theorem nothing_lost (g : Ghost κ ε) (s : PState κ ε) (st : Step κ ε) (h : ReachP g s) (ho : StepOK g st)
    (hne : ¬ E1 g s st) (x : ε) :
    (x ∈ g.val → x ∉ (nextG g st).val → x ∈ (pubStep s st).2.removed) ∧
    (x ∉ g.val → x ∈ (nextG g st).val → x ∈ (pubStep s st).2.added) := by
  have hd := delta_exact g s st h ho hne
  exact ⟨fun h1 h2 => (hd.removed x).mpr ⟨h1, h2⟩, fun h1 h2 => (hd.added x).mpr ⟨h2, h1⟩⟩

/-- coherence of consecutive values and deltas: applying the reported delta to the set held before gives the set
    held now -/
theorem delta_coherent (g : Ghost κ ε) (s : PState κ ε) (st : Step κ ε) (h : ReachP g s) (ho : StepOK g st)
    (hne : ¬ E1 g s st) (x : ε) :
    x ∈ obsSet (pubStep s st).2 ↔ (x ∈ s.seen ∧ x ∉ (pubStep s st).2.removed) ∨ x ∈ (pubStep s st).2.added := by
  have hd := delta_exact g s st h ho hne
  have hv := published_eq_root g s st h ho
  have hs := (pinv_reachable g s h).seen
  rw [hv x, hd.added x, hd.removed x, hs x]
  by_cases h1 : x ∈ g.val <;> by_cases h2 : x ∈ (nextG g st).val <;> simp [h1, h2]

/-- once the snapshot exists it stays: the exceptional cycle `E1` happens at most once in the life of a node -/
theorem active_stays (s : PState κ ε) (st : Step κ ε) (ha : s.pub.active = true) :
    (pubStep s st).1.pub.active = true := by
  obtain ⟨p, seen⟩ := s
  have ha : p.active = true := ha
  simp only [pubStep, pubCycle]
  cases st.ev with
  | none => by_cases he : st.evaluated = true <;> simp [he, finishPub, ha]
  | some e => by_cases he : st.evaluated = true <;> simp [he, finishPub, beginKeyed, ha]

theorem e1_creates_snapshot (g : Ghost κ ε) (s : PState κ ε) (st : Step κ ε) (hi : PInv g s) (ho : StepOK g st)
    (he : E1 g s st) : (pubStep s st).1.pub.active = true := by
  obtain ⟨p, seen⟩ := s
  obtain ⟨ha, hub, hev, hnr, hpl, hpm⟩ := he
  have ha : p.active = false := ha
  have htgt : p.target = g.root := hi.direct ha
  cases hev' : st.ev with
  | none => rw [hev'] at hev; simp at hev
  | some e =>
    have hevd : st.evaluated = true := ho.evEval (by simp [hev'])
    have hne : g.root ≠ e.src := by
      intro h; apply hnr; simp [nextRoot, hev', h]
    simp [pubStep, pubCycle, hev', hevd, beginKeyed, ha, htgt, hub, hne, hpl, finishPub]

/-! ## no tick without a change (unless the tree moved to the other bank) -/

/-- C11-keyed (ticks): with the snapshot in place, a cycle that leaves the SET unchanged does not tick the result —
    however the combiner tree was re-shaped (root identity changed or not) — unless the tree moved to the other bank
    (capacity growth, `sample_all`, the documented re-publication). -/
theorem no_tick_without_change (g : Ghost κ ε) (s : PState κ ε) (st : Step κ ε) (hi : PInv g s) (ho : StepOK g st)
    (ha : s.pub.active = true) (hbank : ∀ e, st.ev = some e → e.bankChanged = false)
    (hl : (nextG g st).live = true) (heq : SetEq g.val (nextG g st).val) :
    (pubStep s st).2.modified = false := by
  obtain ⟨p, seen⟩ := s
  have hw := hi.wf
  have hact : p.active = true := ha
  obtain ⟨hpend, hfr, hsa, hsv, hhv⟩ := hi.snap hact
  have hpend : p.pending = g.root := hpend
  have hfr : p.fullRec = false := hfr
  have hsa : p.sampleAll = false := hsa
  have hsv : SetEq p.snap.value g.val := hsv
  have hclean : Clean p.snap.newCycle := ⟨rfl, rfl, rfl, hhv⟩
  simp only [pubStep]
  cases hev : st.ev with
  | none =>
    have hnr : nextRoot g st = g.root := by simp [nextRoot, hev]
    by_cases hevd : st.evaluated = true
    · have hpc : pubCycle true st.pv st.view p none st.evaluated = finishPub st.view (pubNew p) := by
        simp [pubCycle, hevd, pubNew]
      rw [hpc]
      exact active_finish_quiet g st (pubNew p) seen hact hclean hsv (by show p.pending = nextRoot g st; rw [hpend, hnr])
        (Or.inr (coh_root g st hw ho hnr)) hsa hl heq
    · have hevd' : st.evaluated = false := by simpa using hevd
      simp [pubCycle, hevd', observe, hact]
  | some e =>
    have hnr : nextRoot g st = e.src := by simp [nextRoot, hev]
    have hevd : st.evaluated = true := ho.evEval (by simp [hev])
    have hpc : pubCycle true st.pv st.view p (some e) st.evaluated = finishPub st.view (pubBeginActive p e) := by
      simp [pubCycle, hevd, beginKeyed, hact, pubBeginActive, pubNew]
    rw [hpc]
    have hcoh : (pubBeginActive p e).fullRec = true ∨ Coh g.val g.live (srcView st.view (nextRoot g st)) := by
      by_cases hsame : e.src = g.root
      · right; exact coh_root g st hw ho (by rw [hnr, hsame])
      · left; simp [pubBeginActive, hpend, hsame]
    exact active_finish_quiet g st (pubBeginActive p e) seen hact hclean hsv (by show e.src = nextRoot g st; rw [hnr]) hcoh
      (by simp [pubBeginActive, hsa, hbank e hev]) hl heq

/-! ## the exceptional cycle, as coded -/

/-- KNOWN DEVIATION of the code (tag `[C11-keyed-first-reshape]`), stated for all inputs: in the cycle that creates
    the snapshot while the old root itself changed in that cycle, the snapshot is filled at the CURRENT time, so its
    whole content enters this cycle's delta: whenever the result ticks, the WHOLE new set is reported as added and
    NOTHING as removed — elements that were already published are re-reported, elements that left are never reported. -/
theorem e1_delta (g : Ghost κ ε) (s : PState κ ε) (st : Step κ ε) (hi : PInv g s) (ho : StepOK g st) (he : E1 g s st)
    (hl : (nextG g st).live = true) :
    (pubStep s st).2.removed = [] ∧
    ((pubStep s st).2.modified = true → ∀ x, x ∈ (pubStep s st).2.added ↔ x ∈ (nextG g st).val) := by
  obtain ⟨p, seen⟩ := s
  obtain ⟨ha, hub, hev, hnr', hpl, hpm⟩ := he
  have ha : p.active = false := ha
  have htgt : p.target = g.root := hi.direct ha
  cases hev' : st.ev with
  | none => rw [hev'] at hev; simp at hev
  | some e =>
    have hnr : nextRoot g st = e.src := by simp [nextRoot, hev']
    have hevd : st.evaluated = true := ho.evEval (by simp [hev'])
    have hne : g.root ≠ e.src := fun h => hnr' (by rw [hnr, h])
    have hl' : (srcView st.view (nextRoot g st)).live = true := hl
    have hv' : (nextG g st).val = (srcView st.view (nextRoot g st)).value := by
      show (if (srcView st.view (nextRoot g st)).live then _ else _) = _
      simp [hl']
    obtain ⟨fr, fa, fh⟩ := fillSnapshot_filled st.pv hpl hpm
    obtain ⟨_, _, fd⟩ := filled_full e.bankChanged (fillSnapshot st.pv) (srcView st.view (nextRoot g st)) fr fa fh
    obtain ⟨fadd, frem⟩ := fd hl'
    have hpc : pubCycle true st.pv st.view p (some e) st.evaluated =
        { pubCreated p st.pv e with
          snap := reconcileSet true e.bankChanged (fillSnapshot st.pv) (srcView st.view (nextRoot g st)),
          fullRec := false, sampleAll := false } := by
      simp [pubCycle, hevd, beginKeyed, ha, htgt, hub, hne, hpl, pubCreated, pubNew, finishPub, srcView, hnr]
    simp only [pubStep, hev', hpc]
    generalize reconcileSet true e.bankChanged (fillSnapshot st.pv) (srcView st.view (nextRoot g st)) = c' at fadd frem
    simp only [observe, pubCreated, if_true]
    refine ⟨?_, fun hm x => ?_⟩
    · split
      · exact frem
      · rfl
    · have hm' : c'.modified = true := hm
      simp only [hm', if_true]
      rw [fadd x, hv']

/-! ## concrete witnesses (kernel-evaluated on one history each; tests, not theorems about all inputs) -/

namespace Witness

/-- elements: key 1 holds `{1,2}`; then, in ONE cycle, key 1 shrinks to `{1}` and key 2 arrives with `{3}` -/
def w1 : Step Nat Nat :=
  { ev := some { src := .elem 1, bankChanged := true }, evaluated := true
    view := fun r => if r = .elem 1 then { bound := true, live := true, value := [1, 2], modified := true, added := [1, 2] } else {} }
def w2 : Step Nat Nat :=
  { ev := some { src := .comb 1 0, bankChanged := true }, evaluated := true
    pv := { bound := true, live := true, value := [1], modified := true, removed := [2] }
    view := fun r => if r = .comb 1 0 then { bound := true, live := true, value := [1, 3], modified := true, added := [1, 3] } else {} }

/-- the code's answer in the snapshot-creating cycle: `+{1,3} -{}` although the set went from `{1,2}` to `{1,3}`
    (exact difference `+{3} -{2}`): `1` is re-reported, the removal of `2` is lost.  The real node does the same
    (`cfg tsd:s union none / c set 1 1,2 / c set 1 1 set 2 3`). -/
theorem witness_first_reshape :
    let s1 := (pubStep ({} : PState Nat Nat) w1).1
    let o := (pubStep s1 w2).2
    s1.seen = [1, 2] ∧ o.value = [1, 3] ∧ o.added = [1, 3] ∧ o.removed = [] := by decide

/-- the root changes identity (two elements -> one element, no capacity growth) while the SET stays `{1,2}` -/
def d1 : Step Nat Nat :=
  { ev := some { src := .comb 1 0, bankChanged := true }, evaluated := true
    view := fun r => if r = .comb 1 0 then { bound := true, live := true, value := [1, 2], modified := true, added := [1, 2] } else {} }
def d2 : Step Nat Nat :=
  { ev := some { src := .elem 1, bankChanged := false }, evaluated := true
    pv := { bound := true, live := true, value := [1, 2] }
    view := fun r => if r = .elem 1 then { bound := true, live := true, value := [1, 2] } else {} }
/-- ... and then the last element leaves -/
def d3 : Step Nat Nat :=
  { ev := some { src := .unbound, bankChanged := false }, evaluated := true
    pv := { bound := true, live := true, value := [1, 2] } }

/-- one engine cycle of the DIRECT strategy (`begin_direct_reduce_publication`, every non-keyed result) -/
def directStep (s : PState Nat Nat) (st : Step Nat Nat) : PState Nat Nat × Obs Nat :=
  let p' := pubCycle false st.pv st.view s.pub st.ev st.evaluated
  let o := observe st.view p' s.seen
  ({ pub := p', seen := obsSet o }, o)

/-- COUNTER-LEMMA: applied to a set-valued result the direct strategy ticks the result when the tree is re-shaped
    although nothing changed (for a dictionary-valued result that tick re-reports every unchanged key: the consumer
    of a `TSD` has no previous value to subtract), and an emptied collection leaves the result without a value; the
    keyed strategy does not tick and publishes the empty set.  (What the seeded `static const bool` does to every
    keyed reduce built after a scalar one.) -/
theorem witness_direct_ticks_on_reshape :
    (directStep (directStep ({} : PState Nat Nat) d1).1 d2).2.modified = true ∧
    (directStep (directStep ({} : PState Nat Nat) d1).1 d2).2.added = [] ∧
    (pubStep (pubStep ({} : PState Nat Nat) d1).1 d2).2.modified = false ∧
    (directStep (directStep (directStep ({} : PState Nat Nat) d1).1 d2).1 d3).2.valid = false ∧
    (pubStep (pubStep (pubStep ({} : PState Nat Nat) d1).1 d2).1 d3).2.valid = true ∧
    (pubStep (pubStep (pubStep ({} : PState Nat Nat) d1).1 d2).1 d3).2.removed = [1, 2] := by decide

end Witness

/-! ## the root of the tree is the union over the live elements -/

/-- C11-keyed (value = union over exactly the live valid elements): in EVERY state the reduce node can reach — any
    history of adds, removes, element-level set changes, several per cycle, growth over any capacity boundary, any
    resulting tree shape — the set at the root of the combiner tree holds exactly the members of the sets of the
    currently live elements (two or more live elements, or no zero).  The right-hand side mentions the live keys
    and their CURRENT values only: the order in which elements arrived, left or ticked and the shape / capacity /
    bank of the tree do not enter. -/
theorem root_set_eq_union (hz : Bool) (src : κ → Option (List ε)) (zero : Option (List ε)) (s : GSt κ (List ε))
    (h : ReachG unionL hz src zero s) (hn : ¬ (hz = true ∧ s.tree.keys.length = 1)) (hpos : 0 < s.tree.keys.length)
    (x : ε) :
    x ∈ (rootVal hz zero src s.toL).getD [] ↔ ∃ k ∈ s.tree.keys, ∃ v, src k = some v ∧ x ∈ v := by
  rw [generic_root_eq_fold unionL unionL_assoc hz src zero s h hn hpos, mem_foldOpt_unionL]
  simp only [List.mem_filterMap]
  constructor
  · rintro ⟨v, ⟨k, hk, hs⟩, hx⟩; exact ⟨k, hk, v, hs, hx⟩
  · rintro ⟨k, hk, v, hs, hx⟩; exact ⟨v, ⟨k, hk, hs⟩, hx⟩

/-- two reachable states with the same live elements hold the same set — whatever their histories and shapes -/
theorem root_set_history_free (hz : Bool) (src : κ → Option (List ε)) (zero zero' : Option (List ε))
    (s s' : GSt κ (List ε)) (h : ReachG unionL hz src zero s) (h' : ReachG unionL hz src zero' s')
    (hn : ¬ (hz = true ∧ s.tree.keys.length = 1)) (hpos : 0 < s.tree.keys.length)
    (hn' : ¬ (hz = true ∧ s'.tree.keys.length = 1)) (hpos' : 0 < s'.tree.keys.length)
    (hkeys : ∀ k, k ∈ s.tree.keys ↔ k ∈ s'.tree.keys) :
    SetEq ((rootVal hz zero src s.toL).getD []) ((rootVal hz zero' src s'.toL).getD []) := by
  intro x
  rw [root_set_eq_union hz src zero s h hn hpos, root_set_eq_union hz src zero' s' h' hn' hpos']
  constructor
  · rintro ⟨k, hk, r⟩; exact ⟨k, (hkeys k).mp hk, r⟩
  · rintro ⟨k, hk, r⟩; exact ⟨k, (hkeys k).mpr hk, r⟩



/-! ## composition: what a consumer of the node `cycleK` models holds -/

/-- the step `cycleK` presents to the publication -/
def stepOf (hz : Bool) (s : KSt κ ε) (i : KIn κ ε) : Step κ ε :=
  let pl := plan hz s.g.tree i.inp
  let r := cycleGOf unionL hz s.g i.inp pl
  let fresh : Nat → Bool := match pl.rb with
    | some rb => fun q => rb.bankChanged || rb.created.contains q
    | none => fun _ => false
  { pv := prevView hz s.g i s.pub.target
    view := curView hz s.g fresh r.st i
    ev := pl.rb.map fun rb => { src := rootId hz r.st.tree, bankChanged := rb.bankChanged }
    evaluated := true }

/-- `cycleK` (the function the model driver runs) IS `cycleG` with set union + one `pubStep` -/
theorem cycleK_is_pubStep (hz : Bool) (s : KSt κ ε) (i : KIn κ ε) :
    (cycleK true hz s i).obs = (pubStep ⟨s.pub, s.seen⟩ (stepOf hz s i)).2 ∧
    (cycleK true hz s i).st.pub = (pubStep ⟨s.pub, s.seen⟩ (stepOf hz s i)).1.pub ∧
    (cycleK true hz s i).st.seen = (pubStep ⟨s.pub, s.seen⟩ (stepOf hz s i)).1.seen ∧
    (cycleK true hz s i).st.g = (cycleG unionL hz s.g i.inp).st := ⟨rfl, rfl, rfl, rfl⟩

/-- what the surrounding graph guarantees about the replayed inputs: an element (the zero) that ticks carries the exact
    difference to its previous value, one that does not tick keeps its value -/
structure ElemOK (i : KIn κ ε) (src0 : κ → Option (List ε)) (zero0 : Option (List ε)) : Prop where
  old : ∀ k, i.srcOld k = src0 k
  added : ∀ k ∈ i.inp.ticked, ∀ x, x ∈ (i.elemDelta k).1 ↔ x ∈ (i.inp.src k).getD [] ∧ x ∉ (src0 k).getD []
  removed : ∀ k ∈ i.inp.ticked, ∀ x, x ∈ (i.elemDelta k).2 ↔ x ∈ (src0 k).getD [] ∧ x ∉ (i.inp.src k).getD []
  zadded : i.inp.zeroEvent = true → ∀ x, x ∈ i.zeroDelta.1 ↔ x ∈ i.inp.zero.getD [] ∧ x ∉ zero0.getD []
  zremoved : i.inp.zeroEvent = true → ∀ x, x ∈ i.zeroDelta.2 ↔ x ∈ zero0.getD [] ∧ x ∉ i.inp.zero.getD []

/-- THE FULL END-TO-END STATEMENT (not proved in full, see `keyed_end_to_end_partial`): from any reachable state of
    the tree and of the publication, one more evaluation leaves the consumer of the node with exactly the union over
    the live valid elements. -/
def KeyedEndToEnd (κ ε : Type) [DecidableEq κ] [DecidableEq ε] : Prop :=
  ∀ (hz : Bool) (s : KSt κ ε) (i : KIn κ ε) (src0 : κ → Option (List ε)) (zero0 : Option (List ε)) (g : Ghost κ ε),
    ReachG unionL hz src0 zero0 s.g → InputsOKG unionL hz s.g i.inp src0 zero0 → ElemOK i src0 zero0 →
    PInv g ⟨s.pub, s.seen⟩ → g.root = rootId hz s.g.tree →
    g.val = (rootVal hz zero0 src0 s.g.toL).getD [] → g.live = (rootVal hz zero0 src0 s.g.toL).isSome →
    ¬ (hz = true ∧ (cycleK true hz s i).st.g.tree.keys.length = 1) → 0 < (cycleK true hz s i).st.g.tree.keys.length →
    ∀ x, x ∈ obsSet (cycleK true hz s i).obs ↔
      ∃ k ∈ (cycleK true hz s i).st.g.tree.keys, ∃ v, i.inp.src k = some v ∧ x ∈ v

/-- C11-keyed, composition (PARTIAL): the set the consumer of the node holds after an evaluation is the union over the
    live valid elements — given, beyond the hypotheses of `KeyedEndToEnd`, that the views `cycleK` builds for the old
    and the current root are coherent (`StepOK`; by construction for combiner and element sources: `combView_coh`,
    `inputView_coh`) and that the root identity does not move in a cycle without `rebuild_structure`. -/
theorem keyed_end_to_end_partial (hz : Bool) (s : KSt κ ε) (i : KIn κ ε) (src0 : κ → Option (List ε))
    (zero0 : Option (List ε)) (g : Ghost κ ε)
    (hreach : ReachG unionL hz src0 zero0 s.g) (hin : InputsOKG unionL hz s.g i.inp src0 zero0)
    (hp : PInv g ⟨s.pub, s.seen⟩)
    (hok : StepOK g (stepOf hz s i))
    (hstable : (plan hz s.g.tree i.inp).rb = none → rootId hz (cycleK true hz s i).st.g.tree = g.root)
    (hn : ¬ (hz = true ∧ (cycleK true hz s i).st.g.tree.keys.length = 1))
    (hpos : 0 < (cycleK true hz s i).st.g.tree.keys.length) (x : ε) :
    x ∈ obsSet (cycleK true hz s i).obs ↔
      ∃ k ∈ (cycleK true hz s i).st.g.tree.keys, ∃ v, i.inp.src k = some v ∧ x ∈ v := by
  have hpub := (pub_step g ⟨s.pub, s.seen⟩ (stepOf hz s i) hp hok).2.1
  have hobs : (cycleK true hz s i).obs = (pubStep ⟨s.pub, s.seen⟩ (stepOf hz s i)).2 := rfl
  have hg : (cycleK true hz s i).st.g = (cycleG unionL hz s.g i.inp).st := rfl
  have hroot : nextRoot g (stepOf hz s i) = rootId hz (cycleG unionL hz s.g i.inp).st.tree := by
    unfold nextRoot
    cases hrb : (plan hz s.g.tree i.inp).rb with
    | none =>
      have : (stepOf hz s i).ev = none := by simp [stepOf, hrb]
      rw [this]
      exact (hstable hrb).symm
    | some rb =>
      have : (stepOf hz s i).ev = some { src := rootId hz (cycleG unionL hz s.g i.inp).st.tree, bankChanged := rb.bankChanged } := by
        simp [stepOf, hrb]; rfl
      rw [this]
  have hval : (nextG g (stepOf hz s i)).val = (rootVal hz i.inp.zero i.inp.src (cycleG unionL hz s.g i.inp).st.toL).getD [] := by
    show (if (srcView (stepOf hz s i).view (nextRoot g (stepOf hz s i))).live
          then (srcView (stepOf hz s i).view (nextRoot g (stepOf hz s i))).value else []) = _
    rw [hroot]
    obtain ⟨h1, h2⟩ := root_view_eq_rootVal hz s.g (cycleG unionL hz s.g i.inp).st
      (match (plan hz s.g.tree i.inp).rb with
        | some rb => fun q => rb.bankChanged || rb.created.contains q
        | none => fun _ => false) i
    have hv : (stepOf hz s i).view = curView hz s.g (match (plan hz s.g.tree i.inp).rb with
        | some rb => fun q => rb.bankChanged || rb.created.contains q
        | none => fun _ => false) (cycleG unionL hz s.g i.inp).st i := rfl
    rw [hv]
    by_cases hl : (srcView (curView hz s.g (match (plan hz s.g.tree i.inp).rb with
        | some rb => fun q => rb.bankChanged || rb.created.contains q
        | none => fun _ => false) (cycleG unionL hz s.g i.inp).st i) (rootId hz (cycleG unionL hz s.g i.inp).st.tree)).live = true
    · simp only [hl, if_true]; exact h2 hl
    · simp only [hl, Bool.false_eq_true, if_false]
      have : (rootVal hz i.inp.zero i.inp.src (cycleG unionL hz s.g i.inp).st.toL).isSome = false := by
        rw [← h1]; simpa using hl
      cases hrv : rootVal hz i.inp.zero i.inp.src (cycleG unionL hz s.g i.inp).st.toL with
      | none => rfl
      | some v => rw [hrv] at this; simp at this
  rw [hobs, hpub x, hval, hg]
  exact root_set_eq_union hz i.inp.src i.inp.zero _ (.cycle s.g i.inp src0 zero0 hreach hin) hn hpos x

/-! ## non-vacuity: the hypotheses are satisfiable on concrete, non-trivial states -/

namespace Example
open Witness

/-- a root that stays and ticks with the exact difference is coherent -/
example : Coh [1, 2] true ({ bound := true, live := true, value := [1, 3], modified := true, added := [3], removed := [2] } : SView Nat) := by
  constructor <;> simp <;> (intro x; omega)

theorem ok_d1 : StepOK ({} : Ghost Nat Nat) d1 :=
  ⟨fun _ => rfl, fun h => absurd rfl h, fun _ h => absurd rfl h, fun h => by cases h⟩

/-- the re-shape of `witness_direct_ticks_on_reshape` satisfies `StepOK`: the old root (a combiner) kept its set -/
theorem ok_d2 : StepOK (nextG ({} : Ghost Nat Nat) d1) d2 := by
  refine ⟨fun _ => rfl, fun _ => ?_, fun h => by simp [nextRoot, nextG, d1, d2] at h, fun h => by cases h⟩
  constructor <;> simp [nextG, nextRoot, srcView, d1, d2, SetEq]

theorem reach_d2 : ReachP (nextG (nextG ({} : Ghost Nat Nat) d1) d2) (pubStep (pubStep ({} : PState Nat Nat) d1).1 d2).1 :=
  .step _ _ d2 (.step _ _ d1 .init ok_d1) ok_d2

/-- `PInv` on a state with the snapshot in place, reached by a history with a re-shape -/
example : PInv (nextG (nextG ({} : Ghost Nat Nat) d1) d2) (pubStep (pubStep ({} : PState Nat Nat) d1).1 d2).1 :=
  pinv_reachable _ _ reach_d2

example : (pubStep (pubStep ({} : PState Nat Nat) d1).1 d2).1.pub.active = true ∧
    (pubStep (pubStep ({} : PState Nat Nat) d1).1 d2).1.seen = [1, 2] := by decide

/-- `E1` is satisfiable: the history of `witness_first_reshape` -/
example : E1 (nextG ({} : Ghost Nat Nat) w1) (pubStep ({} : PState Nat Nat) w1).1 w2 := by
  refine ⟨by decide, by simp [nextG, nextRoot, w1], rfl, by simp [nextG, nextRoot, w1, w2], rfl, rfl⟩

/-- three elements `{1,2}`, `{2,3}`, `{5}` arrive in one cycle: the tree of `Model/ReduceInc.lean` with set union -/
def kin1 : KIn Nat Nat :=
  { inp := { now := 1, collEvent := true, present := [10, 11, 12], ticked := [10, 11, 12]
             src := fun k => if k = 10 then some [1, 2] else if k = 11 then some [2, 3] else if k = 12 then some [5] else none }
    elemDelta := fun k => if k = 10 then ([1, 2], []) else if k = 11 then ([2, 3], []) else if k = 12 then ([5], []) else ([], []) }

theorem okk1 : InputsOKG unionL false ({} : GSt Nat (List Nat)) kin1.inp (fun _ => none) none := by
  have hk : (cycleG unionL false ({} : GSt Nat (List Nat)) kin1.inp).st.tree.keys = [10, 11, 12] := by decide +kernel
  refine ⟨?_, fun _ => rfl, ?_, fun _ => ⟨rfl, rfl⟩, fun h => by cases h⟩
  · rw [hk]
    intro key hkey hnt
    exact absurd hkey hnt
  · rw [hk]; decide

/-- the model run: the published set is the union, the delta is the whole set (first publication) -/
example : (cycleK true false ({} : KSt Nat Nat) kin1).obs.value = [1, 2, 3, 5] ∧
    (cycleK true false ({} : KSt Nat Nat) kin1).obs.added = [1, 2, 3, 5] ∧
    (cycleK true false ({} : KSt Nat Nat) kin1).root = .comb 1 0 := by decide +kernel

/-- the hypotheses of `root_set_eq_union` hold for it -/
example : ∀ x, x ∈ (rootVal false none kin1.inp.src (cycleG unionL false ({} : GSt Nat (List Nat)) kin1.inp).st.toL).getD [] ↔
    ∃ k ∈ (cycleG unionL false ({} : GSt Nat (List Nat)) kin1.inp).st.tree.keys, ∃ v, kin1.inp.src k = some v ∧ x ∈ v :=
  root_set_eq_union false kin1.inp.src none _ (.cycle {} kin1.inp (fun _ => none) none (.init _ _) okk1)
    (by simp) (by decide +kernel)

end Example

end HgVerif.ReduceKeyed
