import HgVerif.Lemmas.MapNodeRef
/-!
# C10 — reference-routed child outputs: the output keys of `map_` track the validity of the children's outputs

Property theorems only (helpers: `Lemmas/MapNodeRef.lean`).  Everything is about the model of the owned output
dictionary of a keyed map in `Model/MapNodeRef.lean` (`TSDSlotStorage` delta bookkeeping, the
`record_modified → notify_child_modified` commit idiom, `finalize_mapped_child_output`, entry creation / removal),
for ARBITRARY keys, values and histories of what the children do to their output elements
(`RefOp.bind v` — the element has the value `v`: written, or its reference re-targeted and sampled;
`RefOp.clear` — the child's reference became EMPTY: the output is not valid any more).

* `map_output_keys_track_validity` / `…_run`: after a cycle (after every cycle of a history) the output
  dictionary publishes exactly the live keys whose child output is valid.
* `invalidation_is_keyed_removal`: a key that was in the output and whose child output is invalid after the
  cycle (the key itself still live) is reported REMOVED in that cycle's delta, is not in the output any more,
  and every key without own events keeps its published state and value and appears nowhere in the delta.
* `revalidation_is_keyed_add`: invalid → valid is reported as an add carrying the value.
* `valid_update_is_keyed_modify`: valid → valid with a tick of the key's element is a plain modification.
* `ref_cycle_key_local`: (isolation) the slot of a key after a cycle is a function of that key's OWN events
  (`slotCycle`), whatever happens to the other keys; `ref_cycle_frame`: no events — no change.

Hypothesis `Loud` — what the CURRENT code needs and what finding C10-B is about.  `finalize_mapped_child_output`
re-examines an element only when the element was recorded modified in this cycle.  An evaluation that ONLY
empties the reference (`clear`s) of a published key is therefore noticed only when a tick of the key's own
element reached the element earlier in the same cycle (`RefIn.pre`).  `Loud` says exactly that.  Without it the
full statement `OutputKeysTrackValidityFull` is FALSE for the model (`silent_invalidation_not_published`:
the key stays published with its stale value and the cycle reports nothing) — and for the runtime
(`hgv_map`: `cfg flagref 1 0 / c set 1 1 bset 1 1 / c bset 1 0` records no removal).
`guarded_finalize_loses_removal`: the seeded variant of `finalize` (notify only when `record_modified` reports a
first record) loses the removal even in a Loud cycle.
-/
namespace HgVerif.MapNodeRef

variable {κ ο : Type} [DecidableEq κ]

/-! ## statements -/

/-- the published keys are exactly the live keys whose child output is valid -/
def Tracks (d : D κ ο) : Prop := ∀ k, inOut d k = ((d.slot k).live && (d.slot k).val.isSome)

/-- nothing is stamped in the future: the delta window and the elements' own modification times -/
def TimeOk (t : Nat) (d : D κ ο) : Prop := d.dt ≤ t ∧ ∀ k, (d.slot k).live = true → (d.slot k).lm ≤ t

/-- an evaluation that only empties the reference of a key that is in the output happens in a cycle in which a
    tick of the key's own element reached the element before the node ran -/
def Loud (I : RefIn κ ο) (d : D κ ο) : Prop :=
  ∀ ko ∈ I.evals, (∀ o ∈ ko.2, o = RefOp.clear) → ko.2 ≠ [] → inOut d ko.1 = true → ∃ v, (ko.1, v) ∈ I.pre

/-- `map_reconcile_keys`: the created entries are not the removed ones -/
def FreshAdds (I : RefIn κ ο) : Prop := ∀ k ∈ I.added, k ∉ I.removed

/-- key `j` has no event in the cycle -/
def Quiet (I : RefIn κ ο) (j : κ) : Prop :=
  (∀ kv ∈ I.pre, kv.1 ≠ j) ∧ j ∉ I.removed ∧ j ∉ I.added ∧ (∀ ko ∈ I.evals, ko.1 ≠ j)

/-- the tidy specification, WITHOUT `Loud`: refuted below (finding C10-B) -/
def OutputKeysTrackValidityFull (κ ο : Type) [DecidableEq κ] : Prop :=
  ∀ (I : RefIn κ ο) (d : D κ ο) (t : Nat), Tracks d → TimeOk t d → t < I.now → FreshAdds I → Tracks (refCycle I d)

/-! ## bridging to one slot -/

theorem nslot_start {t now : Nat} {d : D κ ο} (ht : TimeOk t d) (hlt : t < now) (htr : Tracks d) (j : κ) :
    tracksS (nslot now d j) ∧ (nslot now d j).lm < now ∧ (nslot now d j).removed = false ∧
    (nslot now d j).added = false ∧ (nslot now d j).pub = inOut d j ∧ (nslot now d j).modified = false := by
  have hdt : d.dt ≤ now := by have := ht.1; omega
  rcases nslot_cases now d j hdt with ⟨h1, _⟩ | ⟨_, h2⟩
  · have := ht.1; omega
  · rw [h2]
    cases hl : (d.slot j).live with
    | false =>
      rw [rollSlot_dead _ hl]
      refine ⟨rfl, by show 0 < now; omega, rfl, rfl, ?_, rfl⟩
      unfold inOut; rw [hl]; rfl
    | true =>
      obtain ⟨f1, f2, f3, f4, f5, f6, f7⟩ := rollSlot_live_fields _ hl
      have hk := htr j
      unfold inOut at hk
      rw [hl] at hk
      refine ⟨?_, ?_, f6, f5, ?_, f7⟩
      · unfold tracksS; rw [f1, f2, f4]; simpa using hk
      · rw [f3]; have := ht.2 j hl; omega
      · rw [f4]; unfold inOut; rw [hl]; rfl

/-- the slot invariant of key `j` after a Loud cycle -/
theorem cycle_Psi {t : Nat} {I : RefIn κ ο} {d : D κ ο} (htr : Tracks d) (ht : TimeOk t d) (hlt : t < I.now)
    (hfa : FreshAdds I) (hloud : Loud I d) (j : κ) :
    Psi I.now (inOut d j) ((∃ v, (j, v) ∈ I.pre) ∧ (d.slot j).live = true) (j ∈ I.removed)
      (nslot I.now (refCycle I d) j) := by
  obtain ⟨s1, s2, s3, s4, s5, _⟩ := nslot_start ht hlt htr j
  rw [refCycle_slot]
  have h := slotCycle_Psi I j (nslot I.now d j) (by omega) s1 s2 s3 s4 (fun ha => hfa j ha)
    (fun ko hko hj hc hne hp => by
      have := hloud ko hko hc hne (by rw [hj, ← s5]; exact hp)
      rw [hj] at this; exact this)
  rw [s5, nslot_live] at h
  exact h

theorem live_nslot (now : Nat) (d : D κ ο) (j : κ) : (nslot now d j).live = (d.slot j).live := nslot_live now d j

/-! ## theorems -/

/-- C10 (reference-routed outputs): after a cycle in which every reference-emptying evaluation of a published key
    is accompanied by a tick of that key's element, the output dictionary holds exactly the live keys whose child
    output is valid AFTER the evaluation — for all keys, all children behaviours, all key adds / removes. -/
theorem map_output_keys_track_validity {t : Nat} (I : RefIn κ ο) (d : D κ ο) (htr : Tracks d) (ht : TimeOk t d)
    (hlt : t < I.now) (hfa : FreshAdds I) (hloud : Loud I d) :
    Tracks (refCycle I d) ∧ TimeOk I.now (refCycle I d) := by
  have hdt : (refCycle I d).dt ≤ I.now := by have := refCycle_dt I d; have := ht.1; omega
  refine ⟨?_, hdt, ?_⟩
  · intro k
    have h := (cycle_Psi htr ht hlt hfa hloud k).tr
    unfold tracksS at h
    rw [inOut_nslot I.now]
    cases hl : ((refCycle I d).slot k).live with
    | false => rw [live_nslot, hl]; rfl
    | true =>
      rw [live_nslot, hl] at h ⊢
      rw [val_nslot I.now _ k hl] at h
      rw [h]; simp
  · intro k hl
    have h := (cycle_Psi htr ht hlt hfa hloud k).lm
    have : (nslot I.now (refCycle I d) k).lm = ((refCycle I d).slot k).lm := nslot_lm_of_live _ _ _ hl
    omega

/-- a whole history of cycles -/
def runRef : List (RefIn κ ο) → D κ ο → D κ ο
  | [], d => d
  | I :: rest, d => runRef rest (refCycle I d)

/-- times increase, created entries are new, every cycle is Loud -/
def LoudRun : Nat → D κ ο → List (RefIn κ ο) → Prop
  | _, _, [] => True
  | t, d, I :: rest => t < I.now ∧ FreshAdds I ∧ Loud I d ∧ LoudRun I.now (refCycle I d) rest

/-- … hence after EVERY history of such cycles, from any state in which it held (e.g. the empty dictionary) -/
theorem map_output_keys_track_validity_run (H : List (RefIn κ ο)) {t : Nat} (d : D κ ο) (htr : Tracks d)
    (ht : TimeOk t d) (hrun : LoudRun t d H) : Tracks (runRef H d) := by
  induction H generalizing t d with
  | nil => exact htr
  | cons I rest ih =>
    obtain ⟨hlt, hfa, hloud, hrest⟩ := hrun
    obtain ⟨h1, h2⟩ := map_output_keys_track_validity I d htr ht hlt hfa hloud
    exact ih _ h1 h2 hrest

/-- C10 (isolation of the output side): the (normalised) slot of key `j` after a cycle is `slotCycle I j` of its
    slot before — `slotCycle` reads the entries of `I` whose key is `j` and nothing else. -/
theorem ref_cycle_key_local (I : RefIn κ ο) (d : D κ ο) (j : κ) :
    nslot I.now (refCycle I d) j = slotCycle I j (nslot I.now d j) := refCycle_slot I d j

/-- a key without own events in a cycle keeps its place in the output and its value, and is not part of the delta -/
theorem ref_cycle_frame {t : Nat} (I : RefIn κ ο) (d : D κ ο) (htr : Tracks d) (ht : TimeOk t d) (hlt : t < I.now)
    (j : κ) (hq : Quiet I j) :
    inOut (refCycle I d) j = inOut d j ∧ ((refCycle I d).slot j).live = (d.slot j).live ∧
    ((d.slot j).live = true → ((refCycle I d).slot j).val = (d.slot j).val) ∧
    isRemoved (refCycle I d) I.now j = false ∧ isAdded (refCycle I d) I.now j = false ∧
    modifiedVal (refCycle I d) I.now j = none := by
  have hdt : (refCycle I d).dt ≤ I.now := by have := refCycle_dt I d; have := ht.1; omega
  have he : nslot I.now (refCycle I d) j = nslot I.now d j := by
    rw [refCycle_slot, slotCycle_frame I j _ hq.1 hq.2.1 hq.2.2.1 hq.2.2.2]
  obtain ⟨_, _, s3, s4, _, s6⟩ := nslot_start ht hlt htr j
  have hlive : ((refCycle I d).slot j).live = (d.slot j).live := by
    rw [← live_nslot I.now, he, live_nslot]
  refine ⟨?_, hlive, ?_, ?_, ?_, ?_⟩
  · rw [inOut_nslot I.now, he, ← inOut_nslot]
  · intro hl
    rw [← val_nslot I.now _ j (by rw [hlive]; exact hl), he, val_nslot I.now _ j hl]
  · rw [isRemoved_nslot _ _ _ hdt, he]; exact s3
  · rw [isAdded_nslot _ _ _ hdt, he, s4]; simp
  · rw [modifiedVal_nslot _ _ _ hdt, he, s6]; simp

/-- C10 (valid → invalid): a key that was in the output, is still live after the cycle and whose child output is
    INVALID after the evaluation is reported removed in this cycle's delta (and neither added nor modified), it is
    no longer in the output — and no key without own events is affected in any way. -/
theorem invalidation_is_keyed_removal {t : Nat} (I : RefIn κ ο) (d : D κ ο) (htr : Tracks d) (ht : TimeOk t d)
    (hlt : t < I.now) (hfa : FreshAdds I) (hloud : Loud I d) (k : κ) (hin : inOut d k = true)
    (hlive : ((refCycle I d).slot k).live = true) (hinv : ((refCycle I d).slot k).val = none) :
    (isRemoved (refCycle I d) I.now k = true ∧ inOut (refCycle I d) k = false ∧
      isAdded (refCycle I d) I.now k = false ∧ modifiedVal (refCycle I d) I.now k = none) ∧
    (∀ j, Quiet I j →
      inOut (refCycle I d) j = inOut d j ∧ isRemoved (refCycle I d) I.now j = false ∧
      isAdded (refCycle I d) I.now j = false ∧ modifiedVal (refCycle I d) I.now j = none) := by
  have hdt : (refCycle I d).dt ≤ I.now := by have := refCycle_dt I d; have := ht.1; omega
  have hP := cycle_Psi htr ht hlt hfa hloud k
  have hl' : (nslot I.now (refCycle I d) k).live = true := by rw [live_nslot]; exact hlive
  have hv' : (nslot I.now (refCycle I d) k).val = none := by rw [val_nslot _ _ _ hlive]; exact hinv
  have hpub : (nslot I.now (refCycle I d) k).pub = false := by
    have := hP.tr; unfold tracksS at this; rw [this, hv']; simp
  have hb := hP.bits
  unfold bitsS at hb
  rw [hin, hpub] at hb
  refine ⟨⟨?_, ?_, ?_, ?_⟩, ?_⟩
  · rw [isRemoved_nslot _ _ _ hdt, hb.1]; rfl
  · rw [inOut_nslot I.now, hpub]; simp
  · rw [isAdded_nslot _ _ _ hdt, hb.2]; simp
  · rw [modifiedVal_nslot _ _ _ hdt, hv']; simp
  · intro j hq
    obtain ⟨h1, _, _, h4, h5, h6⟩ := ref_cycle_frame I d htr ht hlt j hq
    exact ⟨h1, h4, h5, h6⟩

/-- C10 (invalid → valid): a live key that was NOT in the output and whose child output is valid after the cycle
    is reported as an ADD carrying the value (and as a modified item, not as removed). -/
theorem revalidation_is_keyed_add {t : Nat} (I : RefIn κ ο) (d : D κ ο) (htr : Tracks d) (ht : TimeOk t d)
    (hlt : t < I.now) (hfa : FreshAdds I) (hloud : Loud I d) (k : κ) (v : ο) (hout : inOut d k = false)
    (hlive : ((refCycle I d).slot k).live = true) (hval : ((refCycle I d).slot k).val = some v) :
    isAdded (refCycle I d) I.now k = true ∧ modifiedVal (refCycle I d) I.now k = some v ∧
    inOut (refCycle I d) k = true ∧ isRemoved (refCycle I d) I.now k = false := by
  have hdt : (refCycle I d).dt ≤ I.now := by have := refCycle_dt I d; have := ht.1; omega
  have hP := cycle_Psi htr ht hlt hfa hloud k
  have hl' : (nslot I.now (refCycle I d) k).live = true := by rw [live_nslot]; exact hlive
  have hv' : (nslot I.now (refCycle I d) k).val = some v := by rw [val_nslot _ _ _ hlive]; exact hval
  have hpub : (nslot I.now (refCycle I d) k).pub = true := by
    have := hP.tr; unfold tracksS at this; rw [this, hv', hl']; rfl
  have hb := hP.bits
  unfold bitsS at hb
  rw [hout, hpub] at hb
  have hadd : (nslot I.now (refCycle I d) k).added = true := by rw [hb.2]; rfl
  have hmod := hP.m hadd
  refine ⟨?_, ?_, ?_, ?_⟩
  · rw [isAdded_nslot _ _ _ hdt, hl', hadd]; rfl
  · rw [modifiedVal_nslot _ _ _ hdt, hl', hmod, hv']; rfl
  · rw [inOut_nslot I.now, hl', hpub]; rfl
  · rw [isRemoved_nslot _ _ _ hdt, hb.1]; rfl

/-- C10 (valid → valid): a key that was in the output, whose element ticked through its route and whose child
    output is valid after the cycle is a plain modified item with the value the output has after the cycle. -/
theorem valid_update_is_keyed_modify {t : Nat} (I : RefIn κ ο) (d : D κ ο) (htr : Tracks d) (ht : TimeOk t d)
    (hlt : t < I.now) (hfa : FreshAdds I) (hloud : Loud I d) (k : κ) (v w : ο) (hin : inOut d k = true)
    (hpre : (k, w) ∈ I.pre)
    (hlive : ((refCycle I d).slot k).live = true) (hval : ((refCycle I d).slot k).val = some v) :
    modifiedVal (refCycle I d) I.now k = some v ∧ inOut (refCycle I d) k = true ∧
    isAdded (refCycle I d) I.now k = false ∧ isRemoved (refCycle I d) I.now k = false := by
  have hdt : (refCycle I d).dt ≤ I.now := by have := refCycle_dt I d; have := ht.1; omega
  have hP := cycle_Psi htr ht hlt hfa hloud k
  have hl' : (nslot I.now (refCycle I d) k).live = true := by rw [live_nslot]; exact hlive
  have hv' : (nslot I.now (refCycle I d) k).val = some v := by rw [val_nslot _ _ _ hlive]; exact hval
  have hpub : (nslot I.now (refCycle I d) k).pub = true := by
    have := hP.tr; unfold tracksS at this; rw [this, hv', hl']; rfl
  have hl0 : (d.slot k).live = true := by
    unfold inOut at hin
    cases h : (d.slot k).live with
    | true => rfl
    | false => rw [h] at hin; cases hin
  have hlm : (nslot I.now (refCycle I d) k).lm = I.now := by
    rcases hP.b ⟨⟨w, hpre⟩, hl0⟩ with h | h
    · exact h
    · rw [hpub] at h; cases h
  have hmod := hP.md hlm hl'
  rw [hv'] at hmod
  have hb := hP.bits
  unfold bitsS at hb
  rw [hin, hpub] at hb
  refine ⟨?_, ?_, ?_, ?_⟩
  · rw [modifiedVal_nslot _ _ _ hdt, hl', hmod, hv']; rfl
  · rw [inOut_nslot I.now, hl', hpub]; rfl
  · rw [isAdded_nslot _ _ _ hdt, hb.2]; simp
  · rw [isRemoved_nslot _ _ _ hdt, hb.1]; rfl

/-! ## the gap: finding C10-B, and the seeded variant of `finalize` -/

/-- key 7 is in the output with value 5 (recorded at time 1) -/
def exD : D Nat Nat :=
  { dt := 1, tm := 1, slot := fun k => if k = 7 then { live := true, val := some 5, lm := 1, pub := true, added := true, modified := true } else {} }

/-- cycle 2: ONLY the routing condition of key 7 ticks: its child is evaluated and empties the reference -/
def exSilent : RefIn Nat Nat := { now := 2, evals := [(7, [RefOp.clear])] }
/-- cycle 2: the element of key 7 ticks (value 6, through the still non-empty route) and the same evaluation
    empties the reference -/
def exLoud : RefIn Nat Nat := { now := 2, pre := [(7, 6)], evals := [(7, [RefOp.clear])] }
/-- cycle 3: the reference of key 7 is re-targeted (value 8) -/
def exBack : RefIn Nat Nat := { now := 3, evals := [(7, [RefOp.bind 8])] }

theorem exD_ok : Tracks exD ∧ TimeOk 1 exD := by
  refine ⟨?_, by decide, ?_⟩
  · intro k; unfold inOut exD; by_cases h : k = 7 <;> simp [h]
  · intro k _; unfold exD; by_cases h : k = 7 <;> simp [h]

/-- Finding C10-B in the model: the condition-only cycle leaves key 7 PUBLISHED although its child output is
    invalid, and reports nothing (the dictionary does not even tick). -/
theorem silent_invalidation_not_published :
    inOut (refCycle exSilent exD) 7 = true ∧ ((refCycle exSilent exD).slot 7).val = none ∧
    isRemoved (refCycle exSilent exD) 2 7 = false ∧ ticked (refCycle exSilent exD) 2 = false ∧
    ¬ Tracks (refCycle exSilent exD) := by
  refine ⟨by decide, by decide, by decide, by decide, ?_⟩
  intro h
  have := h 7
  revert this
  decide

/-- … so the tidy statement without `Loud` does not hold -/
theorem output_keys_track_validity_full_refuted : ¬ OutputKeysTrackValidityFull Nat Nat := by
  intro h
  exact silent_invalidation_not_published.2.2.2.2
    (h exSilent exD 1 exD_ok.1 exD_ok.2 (by decide) (by intro k hk; cases hk))

/-- non-vacuity of `Loud` and of the three transition theorems: the Loud variant of the same cycle reports the
    removal of key 7 (and only that), the next cycle reports the add with the new value -/
example : Loud exLoud exD ∧ FreshAdds exLoud := by
  refine ⟨?_, by intro k hk; cases hk⟩
  intro ko hko _ _ _
  have : ko = (7, [RefOp.clear]) := by simpa [exLoud] using hko
  subst this
  exact ⟨6, by simp [exLoud]⟩
example : isRemoved (refCycle exLoud exD) 2 7 = true ∧ inOut (refCycle exLoud exD) 7 = false ∧
    ((refCycle exLoud exD).slot 7).live = true ∧ ((refCycle exLoud exD).slot 7).val = none ∧
    ticked (refCycle exLoud exD) 2 = true := by decide
example : isAdded (refCycle exBack (refCycle exLoud exD)) 3 7 = true ∧
    modifiedVal (refCycle exBack (refCycle exLoud exD)) 3 7 = some 8 ∧
    inOut (refCycle exBack (refCycle exLoud exD)) 7 = true := by decide
/-- the hypotheses of the history theorem are satisfiable: the Loud cycle followed by the re-validation -/
example : LoudRun 1 exD [exLoud, exBack] := by
  show 1 < exLoud.now ∧ FreshAdds exLoud ∧ Loud exLoud exD ∧
    (exLoud.now < exBack.now ∧ FreshAdds exBack ∧ Loud exBack (refCycle exLoud exD) ∧ True)
  refine ⟨by decide, (by intro k hk; cases hk), ?_, by decide, (by intro k hk; cases hk), ?_, trivial⟩
  · intro ko hko _ _ _
    have : ko = (7, [RefOp.clear]) := by simpa [exLoud] using hko
    subst this
    exact ⟨6, by simp [exLoud]⟩
  · intro ko hko hc _ _
    have : ko = (7, [RefOp.bind 8]) := by simpa [exBack] using hko
    subst this
    have := hc (RefOp.bind 8) (by simp)
    cases this
/-- key 9 has no event in the Loud cycle -/
example : Quiet exLoud 9 := by
  refine ⟨?_, by simp [exLoud], by simp [exLoud], ?_⟩
  · intro kv hkv; have : kv = (7, 6) := by simpa [exLoud] using hkv
    subst this; decide
  · intro ko hko; have : ko = (7, [RefOp.clear]) := by simpa [exLoud] using hko
    subst this; decide
/-- after the SILENT cycle the re-validation is reported as a plain modification of a key that was never
    reported removed (what the runtime does: `rec={7=8}`), not as an add -/
example : isAdded (refCycle exBack (refCycle exSilent exD)) 3 7 = false ∧
    modifiedVal (refCycle exBack (refCycle exSilent exD)) 3 7 = some 8 := by decide

/-- one child evaluation with the seeded `finalize` (s70) -/
def evalKeyGuarded (now : Nat) (d : D Nat Nat) (ko : Nat × List (RefOp Nat)) : D Nat Nat :=
  finalizeGuarded now (ko.2.foldl (fun d o => applyOp now d ko.1 o) d) ko.1

/-- The guard of seed s70 matters: in the LOUD cycle (tick through the old route, then the reference is emptied)
    the real `finalize` un-publishes key 7 and reports the removal; the guarded one leaves it published with the
    stale tick and reports `7=…` modified instead of removed. -/
theorem guarded_finalize_loses_removal :
    let d1 := applyOp 2 exD 7 (RefOp.bind 6)
    (isRemoved (evalKey 2 d1 (7, [RefOp.clear])) 2 7 = true ∧ inOut (evalKey 2 d1 (7, [RefOp.clear])) 7 = false) ∧
    (isRemoved (evalKeyGuarded 2 d1 (7, [RefOp.clear])) 2 7 = false ∧
      inOut (evalKeyGuarded 2 d1 (7, [RefOp.clear])) 7 = true ∧
      ((evalKeyGuarded 2 d1 (7, [RefOp.clear])).slot 7).val = none) := by decide

end HgVerif.MapNodeRef
