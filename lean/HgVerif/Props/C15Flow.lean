import HgVerif.Props.C06Run
/-!
# C15 / C10 — what a node does cannot disturb the nodes that do not depend on it

Flat dataflow model (`Model/Flow.lean`, generic scan of `graph.cpp`).  Let `U` be a set of nodes closed under
"producer of" (for instance: all nodes that do NOT depend on some node `x`).  Take a second program that
has the same nodes and edges and the same node functions **on `U`** but arbitrary other functions
elsewhere — a node that fails and is captured (writes nothing, or an error), a node that succeeds,
a node that schedules itself differently — and any topological ranks for the two programs.

* `sol_agree_on`            : the dataflow equations have the same solution on `U`.
* `cycle_noninterference`   : after a cycle at `t`, every node of `U` holds the same state and is left with the
                              same schedule slot in both programs (given they agreed on `U` before).
* `idle_cycle_keeps`        : a cycle in which a node does not fire leaves its state and its slot untouched —
                              so the extra cycles the other program may need are invisible on `U`.

Together: along two runs, the sequence of states of every node of `U` is the same up to cycles in which it
does not take part ("the streams of all nodes that do not depend on the failing node are identical").
-/
namespace HgVerif.Flow
open HgVerif.Sched

variable {S : Type}

/-- the same graph with other node functions -/
def withF (F : Flow S) (f' : Nat → (Nat → S) → Time → S × Bool) (s' : Nat → S → Time → List Time) : Flow S :=
  { n := F.n, prods := F.prods, reads := F.reads, f := f', selfReq := s' }

/-- `U` is closed under "producer of" and "read by" -/
def UpClosed (F : Flow S) (U : Nat → Prop) : Prop :=
  ∀ i, i < F.n → U i → (∀ p ∈ F.prods i, U p) ∧ (∀ p ∈ F.reads i, U p)

theorem topo_withF (F : Flow S) (f' : Nat → (Nat → S) → Time → S × Bool) (s' : Nat → S → Time → List Time)
    (ρ : Rank F.n) (h : Topo F ρ) : Topo (withF F f' s') ρ := h

/-- the equations of the two programs have the same solution on `U` -/
theorem sol_agree_on (F : Flow S) (f' : Nat → (Nat → S) → Time → S × Bool) (s' : Nat → S → Time → List Time)
    (ρ : Rank F.n) (hT : Topo F ρ) (hR : TopoR F ρ) (hF : Frame F) (U : Nat → Prop) (hU : UpClosed F U)
    (hagree : ∀ i, U i → F.f i = f' i)
    (t : Time) (σ0 σ0' : Nat → S) (due due' : Nat → Bool)
    (h0 : ∀ i, U i → σ0 i = σ0' i) (hd : ∀ i, U i → due i = due' i)
    (σ1 σ1' : Nat → S) (w w' : List Nat)
    (h : Sol F t σ0 due σ1 w) (h' : Sol (withF F f' s') t σ0' due' σ1' w') :
    ∀ i, i < F.n → U i → (σ1 i = σ1' i ∧ (i ∈ w ↔ i ∈ w')) := by
  intro i hi hUi
  suffices ∀ m, ∀ i, i < F.n → U i → ρ.posOf i < m → (σ1 i = σ1' i ∧ (i ∈ w ↔ i ∈ w')) from
    this (ρ.posOf i + 1) i hi hUi (Nat.lt_succ_self _)
  intro m
  induction m with
  | zero => intro i _ _ h0; omega
  | succ m ih =>
    intro i hi hUi hpos
    have hprod : ∀ p ∈ F.prods i, (σ1 p = σ1' p ∧ (p ∈ w ↔ p ∈ w')) := by
      intro p hp
      have := hT i hi p hp
      exact ih p this.1 ((hU i hi hUi).1 p hp) (by omega)
    have hfire : fires F due w i ↔ fires (withF F f' s') due' w' i := by
      unfold fires
      show (due i = true ∨ ∃ p ∈ F.prods i, p ∈ w) ↔ (due' i = true ∨ ∃ p ∈ F.prods i, p ∈ w')
      rw [hd i hUi]
      constructor
      · rintro (hd | ⟨p, hp, hw⟩)
        · exact Or.inl hd
        · exact Or.inr ⟨p, hp, (hprod p hp).2.mp hw⟩
      · rintro (hd | ⟨p, hp, hw⟩)
        · exact Or.inl hd
        · exact Or.inr ⟨p, hp, (hprod p hp).2.mpr hw⟩
    have heval : evalAt F t σ0 σ1 i = evalAt (withF F f' s') t σ0' σ1' i := by
      unfold evalAt
      show F.f i (upd σ1 i (σ0 i)) t = f' i (upd σ1' i (σ0' i)) t
      rw [← hagree i hUi]
      apply hF
      intro j hj
      unfold upd
      rcases hj with rfl | hj
      · simp; exact h0 _ hUi
      · have hjr := hR i hi j hj
        have hne : j ≠ i := fun e => by rw [e] at hjr; omega
        simp [hne]; exact (ih j hjr.1 ((hU i hi hUi).2 j hj) (by omega)).1
    by_cases hf : fires F due w i
    · refine ⟨by rw [h.st_fire i hi hf, h'.st_fire i hi (hfire.mp hf), heval], ?_⟩
      rw [h.wr i hi, h'.wr i hi, heval]
      exact ⟨fun ⟨_, b⟩ => ⟨hfire.mp hf, b⟩, fun ⟨_, b⟩ => ⟨hf, b⟩⟩
    · have hf' : ¬ fires (withF F f' s') due' w' i := fun x => hf (hfire.mpr x)
      refine ⟨by rw [h.st_idle i hi hf, h'.st_idle i hi hf', h0 i hUi], ?_⟩
      rw [h.wr i hi, h'.wr i hi]
      exact ⟨fun ⟨a, _⟩ => absurd a hf, fun ⟨a, _⟩ => absurd a hf'⟩

/-- the two graphs show every node of `U` the same slot -/
def SameViewOn (F : Flow S) (U : Nat → Prop) (ρ₁ ρ₂ : Rank F.n) (g₁ g₂ : G) : Prop :=
  ∀ i, i < F.n → U i → slotOf g₁ (ρ₁.posOf i) = slotOf g₂ (ρ₂.posOf i)

/-- **non-interference, one cycle**: whatever the nodes outside `U` compute or ask for, after the cycle every
    node of `U` holds the same state and the same schedule slot in both programs -/
theorem cycle_noninterference (F : Flow S) (f' : Nat → (Nat → S) → Time → S × Bool) (s' : Nat → S → Time → List Time)
    (ρ₁ ρ₂ : Rank F.n) (hT₁ : Topo F ρ₁) (hT₂ : Topo F ρ₂) (hR₁ : TopoR F ρ₁) (hR₂ : TopoR F ρ₂)
    (hS : SelfFuture F) (hS' : SelfFuture (withF F f' s'))
    (hF : Frame F) (hF' : Frame (withF F f' s')) (U : Nat → Prop) (hU : UpClosed F U)
    (hagree : ∀ i, U i → F.f i = f' i) (hagreeS : ∀ i, U i → F.selfReq i = s' i)
    (fx : Bool) (t : Time) (g₁ g₂ : G) (σ0 σ0' : Nat → S)
    (hlen₁ : g₁.slots.length = F.n) (hlen₂ : g₂.slots.length = F.n) (hc₁ : g₁.cursor = 0) (hc₂ : g₂.cursor = 0)
    (h0 : ∀ i, U i → σ0 i = σ0' i) (hV : SameViewOn F U ρ₁ ρ₂ g₁ g₂) :
    (∀ i, i < F.n → U i →
      (cycle fx (beh F ρ₁) F.n t g₁ σ0).st i = (cycle fx (beh (withF F f' s') ρ₂) F.n t g₂ σ0').st i) ∧
    SameViewOn F U ρ₁ ρ₂ (cycle fx (beh F ρ₁) F.n t g₁ σ0).g (cycle fx (beh (withF F f' s') ρ₂) F.n t g₂ σ0').g := by
  have hT₂' : Topo (withF F f' s') ρ₂ := topo_withF F f' s' ρ₂ hT₂
  have hR₂' : TopoR (withF F f' s') ρ₂ := hR₂
  have s1 := denSeq_sol F ρ₁ hT₁ hR₁ hF t σ0 (dueN F ρ₁ g₁ t)
  have s2 := denSeq_sol (withF F f' s') ρ₂ hT₂' hR₂' hF' t σ0' (dueN (withF F f' s') ρ₂ g₂ t)
  have hdue : ∀ i, U i → dueN F ρ₁ g₁ t i = dueN (withF F f' s') ρ₂ g₂ t i := by
    intro i hUi
    unfold dueN
    show (decide (i < F.n) && decide (slotOf g₁ (ρ₁.posOf i) = t)) = (decide (i < F.n) && decide (slotOf g₂ (ρ₂.posOf i) = t))
    by_cases hi : i < F.n
    · rw [hV i hi hUi]
    · simp [hi]
  have hu := sol_agree_on F f' s' ρ₁ hT₁ hR₁ hF U hU hagree t σ0 σ0' _ _ h0 hdue _ _ _ _ s1 s2
  have hst₁ := cycle_st F ρ₁ hT₁ hS fx t g₁ σ0 hlen₁ hc₁
  have hst₂ := cycle_st (withF F f' s') ρ₂ hT₂' hS' fx t g₂ σ0' hlen₂ hc₂
  refine ⟨fun i hi hUi => by rw [hst₁]; rw [show (cycle fx (beh (withF F f' s') ρ₂) F.n t g₂ σ0').st = _ from hst₂]; exact (hu i hi hUi).1, ?_⟩
  intro i hi hUi
  obtain ⟨a1, b1⟩ := cycle_slots F ρ₁ hT₁ hS fx t g₁ σ0 hlen₁ hc₁ i hi
  obtain ⟨a2, b2⟩ := cycle_slots (withF F f' s') ρ₂ hT₂' hS' fx t g₂ σ0' hlen₂ hc₂ i hi
  -- firing of `i` agrees
  have hfire : fires F (dueN F ρ₁ g₁ t) (denSeq F ρ₁ t (dueN F ρ₁ g₁ t) F.n 0 σ0 [] []).2.1 i ↔
      fires (withF F f' s') (dueN (withF F f' s') ρ₂ g₂ t)
        (denSeq (withF F f' s') ρ₂ t (dueN (withF F f' s') ρ₂ g₂ t) F.n 0 σ0' [] []).2.1 i := by
    unfold fires
    show (dueN F ρ₁ g₁ t i = true ∨ ∃ p ∈ F.prods i, p ∈ _) ↔ (dueN (withF F f' s') ρ₂ g₂ t i = true ∨ ∃ p ∈ F.prods i, p ∈ _)
    rw [hdue i hUi]
    constructor
    · rintro (hd | ⟨p, hp, hw⟩)
      · exact Or.inl hd
      · exact Or.inr ⟨p, hp, (hu p (hT₁ i hi p hp).1 ((hU i hi hUi).1 p hp)).2.mp hw⟩
    · rintro (hd | ⟨p, hp, hw⟩)
      · exact Or.inl hd
      · exact Or.inr ⟨p, hp, (hu p (hT₁ i hi p hp).1 ((hU i hi hUi).1 p hp)).2.mpr hw⟩
  by_cases hf : fires F (dueN F ρ₁ g₁ t) (denSeq F ρ₁ t (dueN F ρ₁ g₁ t) F.n 0 σ0 [] []).2.1 i
  · rw [a1 hf]
    have := a2 (hfire.mp hf)
    rw [show slotOf (cycle fx (beh (withF F f' s') ρ₂) F.n t g₂ σ0').g (ρ₂.posOf i) = _ from this]
    show selfSlot t (F.selfReq i _ t) = selfSlot t (s' i _ t)
    rw [hagreeS i hUi, (hu i hi hUi).1]
  · rw [b1 hf]
    have := b2 (fun h => hf (hfire.mpr h))
    rw [show slotOf (cycle fx (beh (withF F f' s') ρ₂) F.n t g₂ σ0').g (ρ₂.posOf i) = _ from this]
    exact hV i hi hUi

/-- **a cycle in which a node does not take part is invisible to it**: if node `i` is not due and no active
    producer of it writes, its state and its slot are what they were -/
theorem idle_cycle_keeps (F : Flow S) (ρ : Rank F.n) (hT : Topo F ρ) (hR : TopoR F ρ) (hS : SelfFuture F) (hF : Frame F)
    (fx : Bool) (t : Time) (g : G) (σ0 : Nat → S) (hlen : g.slots.length = F.n) (hc : g.cursor = 0)
    (i : Nat) (hi : i < F.n)
    (hidle : ¬ fires F (dueN F ρ g t) (denSeq F ρ t (dueN F ρ g t) F.n 0 σ0 [] []).2.1 i) :
    (cycle fx (beh F ρ) F.n t g σ0).st i = σ0 i ∧
    slotOf (cycle fx (beh F ρ) F.n t g σ0).g (ρ.posOf i) = slotOf g (ρ.posOf i) := by
  refine ⟨?_, (cycle_slots F ρ hT hS fx t g σ0 hlen hc i hi).2 hidle⟩
  rw [cycle_st F ρ hT hS fx t g σ0 hlen hc]
  exact (denSeq_sol F ρ hT hR hF t σ0 (dueN F ρ g t)).st_idle i hi hidle

/-! ## non-vacuity: in the diamond `0 → {1, 2} → 3`, the set `U = {0, 1}` is closed under producers; node 2 is
    replaced by a node that "fails" (keeps its state, writes nothing) -/

example : UpClosed exG (fun i => i = 0 ∨ i = 1) := by
  intro i hi hU
  rcases hU with rfl | rfl
  · exact ⟨fun p hp => by simp [exG] at hp, fun p hp => by simp [exG] at hp⟩
  · exact ⟨fun p hp => by simp [exG] at hp; exact Or.inl hp, fun p hp => by simp [exG] at hp; exact Or.inl hp⟩

def failing2 : Nat → (Nat → Nat) → Time → Nat × Bool := fun i σ t => if i = 2 then (σ 2, false) else exG.f i σ t

example : ∀ i, (i = 0 ∨ i = 1) → exG.f i = failing2 i := by
  intro i h; funext σ t; unfold failing2
  rcases h with rfl | rfl <;> simp

example : (List.range 2).map (cycle true (beh exG exR1) 4 5 { slots := [5, 0, 0, 0] } (fun _ => 1)).st =
          (List.range 2).map (cycle true (beh (withF exG failing2 exG.selfReq) exR2) 4 5 { slots := [5, 0, 0, 0] } (fun _ => 1)).st := by
  decide

end HgVerif.Flow
