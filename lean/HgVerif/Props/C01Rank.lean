import HgVerif.Lemmas.Rank
/-!
# C01, static half — the rank pass of `Wiring::finish`

"… never before any node whose output it reads has had its turn …  A wiring whose dependencies form a
cycle that is not broken by a feedback edge is rejected when the graph is built, never run."

The evaluation scan visits node indices in increasing order (the other half of C01), so the static
obligation is on the order `build_ranked_graph` produces.  Everything below is for EVERY finite wiring
`g : Wiring` (any number of nodes, any inputs with any multiplicity, any explicit rank dependencies, any
push-source flags, any statement order).

* `RankEdge g p c`      : `c` has a rank-carrying input from `p` or an explicit rank dependency on `p`.
* `HasCycle g`          : the rank relation has a cycle (rank-free inputs are not part of it).
* `PushClean g`         : no push source has a rank producer (otherwise `finish` throws a different error).

* `kahn_perm`           : on success the order is a permutation of the nodes.
* `kahn_edges_forward`  : on success every rank edge `(p, c)` has `idx p < idx c`.
* `kahn_push_prefix`    : on success push sources occupy a prefix, whose length `pushEnd`
                          (`compute_push_source_nodes_end`) returns without error.
* `kahn_rejects_cycles` : a rank cycle ⇒ the pass fails (`…_class`: with the cycle error when `PushClean`).
* `kahn_accepts_dags`   : no rank cycle and `PushClean` ⇒ the pass succeeds.
* `kahn_ok_iff`         : both directions together.
* `kahn_free_irrelevant`, `free_edges_never_reject` : rank-free inputs influence neither verdict nor order.
* `loop_exhausts`       : the model's fuel never cuts the `while` loop short.
* `emitEdges_*`, `validatePairs_ok`, `finish_sound`, `finish_ok_iff` : the compiled edge list is exactly
  the wired inputs, every edge is forward unless its input was declared rank-free, same-cycle pairs
  always validate, and `finish` as a whole succeeds iff the program is well-formed and acyclic.
-/
namespace HgVerif.Rank

/-- `c` must be ranked after `p`: rank-carrying input or explicit rank dependency (owned nodes only) -/
def RankEdge (g : Wiring) (p c : Nat) : Prop := p ∈ prods g c

/-- the rank relation in terms of the wiring, for reading -/
theorem rankEdge_iff (g : Wiring) (p c : Nat) :
    RankEdge g p c ↔ ∃ nd, g[c]? = some nd ∧ p < g.length ∧ (p ∈ nd.rankInputs ∨ p ∈ nd.deps) := by
  unfold RankEdge prods
  cases h : g[c]? with
  | none => simp
  | some nd =>
    simp only [producers, List.mem_filter, List.mem_append, decide_eq_true_eq, Option.some.injEq,
      exists_eq_left']
    exact and_comm

def HasCycle (g : Wiring) : Prop := ∃ x, Relation.TransGen (RankEdge g) x x

def PushClean (g : Wiring) : Prop := ∀ c, isPush g c = true → prods g c = []

theorem prods_lt {g : Wiring} {c p : Nat} (h : p ∈ prods g c) : p < g.length ∧ c < g.length := by
  unfold prods at h
  cases hc : g[c]? with
  | none => rw [hc] at h; simp at h
  | some nd =>
    rw [hc] at h
    have hlt := (List.getElem?_eq_some_iff.mp hc).1
    simp only [producers, List.mem_filter, decide_eq_true_eq] at h
    exact ⟨h.2, hlt⟩

/-! ## the pass over abstract producer lists -/

section core
variable {n : Nat} {P : Nat → List Nat} {push : Nat → Bool}

theorem any_false_iff_pushClean :
    ((List.range n).any (fun i => push i && (P i).length != 0) = false) ↔
      ∀ c, c < n → push c = true → P c = [] := by
  rw [Bool.eq_false_iff, Ne, List.any_eq_true]
  constructor
  · intro h c hc hp
    apply Classical.byContradiction
    intro hne
    apply h
    refine ⟨c, List.mem_range.mpr hc, ?_⟩
    simp [hp, hne]
  · rintro h ⟨c, hc, hb⟩
    simp only [Bool.and_eq_true, bne_iff_ne, ne_eq, List.length_eq_zero_iff] at hb
    exact hb.2 (h c (List.mem_range.mp hc) hb.1)

theorem kahnOn_ok (hP : ∀ c p, p ∈ P c → p < n) {r : List Nat} (h : kahnOn n P push = .ok r) :
    (∀ c, c < n → push c = true → P c = []) ∧
      Inv n P push (loop n P push n (initSt n P push)) ∧
      (loop n P push n (initSt n P push)).ranked = r ∧ r.length = n := by
  unfold kahnOn at h
  split at h
  · cases h
  · rename_i hany
    have hpush := any_false_iff_pushClean.mp (by simpa using hany)
    simp only at h
    split at h
    · cases h
    · rename_i hlen
      injection h with h
      refine ⟨hpush, inv_loop hP hpush n inv_init, h, ?_⟩
      rw [← h]; simpa using hlen

theorem kahnOn_of_pushClean (hpush : ∀ c, c < n → push c = true → P c = []) :
    kahnOn n P push =
      if (loop n P push n (initSt n P push)).ranked.length != n then .error .cycle
      else .ok (loop n P push n (initSt n P push)).ranked := by
  unfold kahnOn
  rw [any_false_iff_pushClean.mpr hpush]
  simp

theorem kahnOn_not_pushClean (h : ¬ ∀ c, c < n → push c = true → P c = []) :
    kahnOn n P push = .error .pushDep := by
  unfold kahnOn
  have : (List.range n).any (fun i => push i && (P i).length != 0) = true := by
    cases hb : (List.range n).any (fun i => push i && (P i).length != 0) with
    | true => rfl
    | false => exact absurd (any_false_iff_pushClean.mp hb) h
  rw [this]; rfl

/-- an acyclic producer relation leaves no remainder: every node gets ranked -/
theorem kahnOn_complete (hP : ∀ c p, p ∈ P c → p < n) (hpush : ∀ c, c < n → push c = true → P c = [])
    (hac : ∀ x, ¬ Relation.TransGen (fun p c => p ∈ P c) x x) :
    (loop n P push n (initSt n P push)).ranked.length = n := by
  generalize hs : loop n P push n (initSt n P push) = s
  have hI : Inv n P push s := hs ▸ inv_loop hP hpush n inv_init
  have hq : s.qp = [] ∧ s.q = [] := hs ▸ loop_queues_empty hP hpush n inv_init (by simp [initSt])
  have hle := length_le_of_nodup_bounded hI.rnodup (fun x hx => hI.bound x (Or.inl hx))
  apply Classical.byContradiction
  intro hne
  -- the remainder: nodes never ranked
  let R := (List.range n).filter fun c => !s.ranked.contains c
  have hR : R ≠ [] := by
    intro hnil
    have hall : ∀ c, c < n → c ∈ s.ranked := by
      intro c hc
      apply Classical.byContradiction
      intro hcr
      have : c ∈ R := List.mem_filter.mpr ⟨List.mem_range.mpr hc, by simpa using hcr⟩
      rw [hnil] at this; exact absurd this List.not_mem_nil
    have := List.Nodup.length_le_of_subset (List.nodup_range (n := n))
      (fun c hc => hall c (List.mem_range.mp hc))
    simp at this; omega
  obtain ⟨m, hm, hmin⟩ := exists_minimal (fun p c => p ∈ P c) hac R.length R (Nat.le_refl _) hR
  have hmn : m < n := List.mem_range.mp (List.mem_filter.mp hm).1
  have hmr : m ∉ s.ranked := by simpa using (List.mem_filter.mp hm).2
  -- m is not queued (the queues are empty), so one of its producers is un-ranked
  have hpend : pending P s.ranked m ≠ 0 := by
    intro h0
    have := (hI.queued m hmn).mpr ⟨h0, hmr⟩
    rw [hq.1, hq.2] at this; exact absurd this List.not_mem_nil
  have hex : ∃ p, p ∈ P m ∧ p ∉ s.ranked := by
    apply Classical.byContradiction
    intro hno
    apply hpend
    rw [pending_eq_zero]
    intro p hp
    apply Classical.byContradiction
    intro hpr
    exact hno ⟨p, hp, hpr⟩
  obtain ⟨p, hp, hpr⟩ := hex
  have hpR : p ∈ R := List.mem_filter.mpr ⟨List.mem_range.mpr (hP m p hp), by simpa using hpr⟩
  exact hmin p hpR hp

end core

/-! ## the theorems about `kahn` -/

theorem prods_bound (g : Wiring) : ∀ c p, p ∈ prods g c → p < g.length := fun _ _ h => (prods_lt h).1

theorem pushClean_iff (g : Wiring) :
    PushClean g ↔ ∀ c, c < g.length → isPush g c = true → prods g c = [] := by
  constructor
  · intro h c _ hp; exact h c hp
  · intro h c hp
    by_cases hc : c < g.length
    · exact h c hc hp
    · unfold isPush at hp
      rw [List.getElem?_eq_none (by omega)] at hp
      simp at hp

/-- **kahn_perm** — on success the result is a permutation of the nodes. -/
theorem kahn_perm {g : Wiring} {r : List Nat} (h : kahn g = .ok r) : r.Perm (List.range g.length) := by
  obtain ⟨_, hI, hr, hlen⟩ := kahnOn_ok (prods_bound g) h
  rw [← hr] at hlen ⊢
  rw [List.perm_ext_iff_of_nodup hI.rnodup List.nodup_range]
  intro a
  constructor
  · intro ha; exact List.mem_range.mpr (hI.bound a (Or.inl ha))
  · intro ha
    exact mem_of_nodup_bounded_full hI.rnodup (fun x hx => hI.bound x (Or.inl hx)) (by omega)
      (List.mem_range.mp ha)

theorem kahn_mem {g : Wiring} {r : List Nat} (h : kahn g = .ok r) {c : Nat} : c ∈ r ↔ c < g.length := by
  rw [(kahn_perm h).mem_iff, List.mem_range]

theorem kahn_nodup {g : Wiring} {r : List Nat} (h : kahn g = .ok r) : r.Nodup :=
  (kahn_perm h).nodup_iff.mpr List.nodup_range

/-- **kahn_edges_forward** — on success every rank-carrying edge `(p, c)` (input or explicit rank
    dependency) has `idx p < idx c` in the result. -/
theorem kahn_edges_forward {g : Wiring} {r : List Nat} (h : kahn g = .ok r) {p c : Nat}
    (he : RankEdge g p c) : r.idxOf p < r.idxOf c := by
  obtain ⟨_, hI, hr, _⟩ := kahnOn_ok (prods_bound g) h
  have hc : c ∈ r := (kahn_mem h).mpr (prods_lt he).2
  rw [← hr] at hc ⊢
  exact (hI.fwd c hc p he).2

/-- **kahn_push_prefix** — on success the push sources occupy a prefix of the order; its length is the
    number of push sources and is what `compute_push_source_nodes_end` returns (it does not throw). -/
theorem kahn_push_prefix {g : Wiring} {r : List Nat} (h : kahn g = .ok r) :
    pushEnd g r = .ok (r.countP (isPush g)) ∧
      ∀ i (hi : i < r.length), isPush g r[i] = decide (i < r.countP (isPush g)) := by
  obtain ⟨_, hI, hr, _⟩ := kahnOn_ok (prods_bound g) h
  have hp := hI.pfx
  rw [hr] at hp
  constructor
  · unfold pushEnd
    rw [pushEndAux_of_pairwise (isPush g) r hp 0 false (by simp)]
    simp
  · exact prefix_get_of_pairwise (isPush g) r hp

/-- **kahn_rejects_cycles** — if the rank relation has a cycle the pass returns an error. -/
theorem kahn_rejects_cycles {g : Wiring} (hc : HasCycle g) : ∃ e, kahn g = .error e := by
  cases hk : kahn g with
  | error e => exact ⟨e, rfl⟩
  | ok r =>
    exfalso
    obtain ⟨x, hx⟩ := hc
    have := transGen_lt (fun a => r.idxOf a) (fun a b hab => kahn_edges_forward hk hab) hx
    exact Nat.lt_irrefl _ this

/-- … and it is *the cycle error* unless a push source has a rank producer (which `finish` reports first). -/
theorem kahn_rejects_cycles_class {g : Wiring} (hc : HasCycle g) (hp : PushClean g) :
    kahn g = .error .cycle := by
  obtain ⟨e, he⟩ := kahn_rejects_cycles hc
  have := kahnOn_of_pushClean (n := g.length) (P := prods g) (push := isPush g) ((pushClean_iff g).mp hp)
  unfold kahn at he ⊢
  rw [this] at he ⊢
  split at he
  · rename_i hcond; rw [if_pos hcond]
  · cases he

/-- **kahn_accepts_dags** — if the rank relation is acyclic (and no push source has a rank producer)
    the pass succeeds.  Rank-free inputs play no role in the hypothesis. -/
theorem kahn_accepts_dags {g : Wiring} (hc : ¬ HasCycle g) (hp : PushClean g) : ∃ r, kahn g = .ok r := by
  have hpc := (pushClean_iff g).mp hp
  have hlen := kahnOn_complete (prods_bound g) hpc (fun x hx => hc ⟨x, hx⟩)
  unfold kahn
  rw [kahnOn_of_pushClean hpc]
  simp only [hlen, bne_self_eq_false, Bool.false_eq_true, if_false]
  exact ⟨_, rfl⟩

theorem kahn_pushDep {g : Wiring} (hp : ¬ PushClean g) : kahn g = .error .pushDep :=
  kahnOn_not_pushClean (fun h => hp ((pushClean_iff g).mpr h))

/-- the verdict of the pass, completely: success iff acyclic and push-clean -/
theorem kahn_ok_iff (g : Wiring) : (∃ r, kahn g = .ok r) ↔ (¬ HasCycle g ∧ PushClean g) := by
  constructor
  · rintro ⟨r, hr⟩
    constructor
    · intro hc
      obtain ⟨e, he⟩ := kahn_rejects_cycles hc
      rw [hr] at he; cases he
    · apply Classical.byContradiction
      intro hp
      rw [kahn_pushDep hp] at hr; cases hr
  · rintro ⟨hc, hp⟩; exact kahn_accepts_dags hc hp

/-- The fuel of the model's loop is never what stops it: like the `while`, it ends with both ready queues
    empty (so `kahn` is the code's pass, not a truncation of it). -/
theorem loop_exhausts (g : Wiring) (hp : PushClean g) :
    (loop g.length (prods g) (isPush g) g.length (initSt g.length (prods g) (isPush g))).qp = [] ∧
    (loop g.length (prods g) (isPush g) g.length (initSt g.length (prods g) (isPush g))).q = [] :=
  loop_queues_empty (prods_bound g) ((pushClean_iff g).mp hp) g.length inv_init (by simp [initSt])

/-! ## rank-free inputs -/

/-- what the pass looks at in a node -/
def rankKey (nd : Node) : List Nat × List Nat × Bool := (nd.rankInputs, nd.deps, nd.push)

/-- **rank-free inputs are irrelevant** — two wirings that agree on rank-carrying inputs, explicit
    dependencies and push flags get the same verdict and the same order, whatever their rank-free inputs. -/
theorem kahn_free_irrelevant (g g' : Wiring) (h : g.map rankKey = g'.map rankKey) : kahn g = kahn g' := by
  have hlen : g.length = g'.length := by simpa using congrArg List.length h
  have hkey : ∀ i : Nat, (g[i]?).map rankKey = (g'[i]?).map rankKey := by
    intro i
    have := congrArg (fun (l : List (List Nat × List Nat × Bool)) => l[i]?) h
    simpa using this
  have hP : prods g = prods g' := by
    funext i
    unfold prods
    have := hkey i
    cases h1 : g[i]? with
    | none =>
      cases h2 : g'[i]? with
      | none => rfl
      | some b => rw [h1, h2] at this; simp at this
    | some a =>
      cases h2 : g'[i]? with
      | none => rw [h1, h2] at this; simp at this
      | some b =>
        rw [h1, h2] at this
        simp only [rankKey, Option.map_some, Option.some.injEq, Prod.mk.injEq] at this
        simp only [producers]
        rw [hlen, this.1, this.2.1]
  have hpush : isPush g = isPush g' := by
    funext i
    unfold isPush
    have := hkey i
    cases h1 : g[i]? with
    | none =>
      cases h2 : g'[i]? with
      | none => rfl
      | some b => rw [h1, h2] at this; simp at this
    | some a =>
      cases h2 : g'[i]? with
      | none => rw [h1, h2] at this; simp at this
      | some b =>
        rw [h1, h2] at this
        simp only [rankKey, Option.map_some, Option.some.injEq, Prod.mk.injEq] at this
        exact this.2.2
  unfold kahn
  rw [hP, hpush, hlen]

/-- add a rank-free input from `p` to node `c` -/
def addFree (g : Wiring) (c p : Nat) : Wiring :=
  g.modify c fun nd => { nd with inputs := nd.inputs ++ [(p, false)] }

/-- **a rank-free edge never causes rejection** (nor changes the order), wherever it points — backwards,
    to the node itself, or closing a loop of rank edges. -/
theorem free_edges_never_reject (g : Wiring) (c p : Nat) : kahn (addFree g c p) = kahn g := by
  apply kahn_free_irrelevant
  apply List.ext_getElem?
  intro i
  simp only [addFree, List.getElem?_map, List.getElem?_modify]
  cases g[i]? with
  | none => rfl
  | some nd =>
    by_cases hci : c = i
    · simp [hci, rankKey, Node.rankInputs, List.filter_append]
    · simp [hci]

/-! ## compiled edges -/

theorem idxOf_of_getElem? {r : List Nat} (hnd : r.Nodup) {i c : Nat} (h : r[i]? = some c) : r.idxOf c = i := by
  obtain ⟨hi, hc⟩ := List.getElem?_eq_some_iff.mp h
  rw [← hc]; exact hnd.idxOf_getElem i hi

theorem getElem?_idxOf_of_mem {r : List Nat} {c : Nat} (h : c ∈ r) : r[r.idxOf c]? = some c := by
  have hi := List.idxOf_lt_length_iff.mpr h
  rw [List.getElem?_eq_getElem hi, List.getElem_idxOf hi]

/-- edge emission succeeds when every input names a node of this wiring -/
theorem emitEdges_ok {g : Wiring} {r : List Nat} (h : kahn g = .ok r)
    (hin : ∀ c i, i ∈ inputsOf g c → i.1 < g.length) : ∃ es, emitEdges g r = .ok es := by
  unfold emitEdges
  have : (r.all fun c => (inputsOf g c).all fun i => r.contains i.1) = true := by
    rw [List.all_eq_true]; intro c _
    rw [List.all_eq_true]; intro i hi
    exact List.contains_iff_mem.mpr ((kahn_mem h).mpr (hin c i hi))
  rw [this]; exact ⟨_, rfl⟩

/-- **every compiled edge is a wired input, and is forward unless that input was declared rank-free** -/
theorem emitEdges_forward {g : Wiring} {r : List Nat} {es : List Edge} (h : kahn g = .ok r)
    (he : emitEdges g r = .ok es) :
    ∀ e ∈ es, ∃ c p rk, r[e.tgt]? = some c ∧ r[e.src]? = some p ∧
      (inputsOf g c)[e.slot]? = some (p, rk) ∧ (rk = true → e.src < e.tgt) := by
  unfold emitEdges at he
  split at he
  · rename_i hall
    injection he with he; subst he
    intro e hmem
    obtain ⟨ci, hci, hmem⟩ := List.mem_flatMap.mp hmem
    obtain ⟨ps, hps, rfl⟩ := List.mem_map.mp hmem
    have hc := List.mem_zipIdx_iff_getElem?.mp hci
    have hp := List.mem_zipIdx_iff_getElem?.mp hps
    have hcr : ci.1 ∈ r := List.mem_iff_getElem?.mpr ⟨_, hc⟩
    have hin : ps.1 ∈ inputsOf g ci.1 := List.mem_iff_getElem?.mpr ⟨_, hp⟩
    have hpr : ps.1.1 ∈ r :=
      List.contains_iff_mem.mp (List.all_eq_true.mp (List.all_eq_true.mp hall ci.1 hcr) ps.1 hin)
    refine ⟨ci.1, ps.1.1, ps.1.2, hc, getElem?_idxOf_of_mem hpr, hp, ?_⟩
    intro hrk
    have hedge : RankEdge g ps.1.1 ci.1 := by
      unfold RankEdge prods
      unfold inputsOf at hin
      cases hg : g[ci.1]? with
      | none => rw [hg] at hin; simp at hin
      | some nd =>
        rw [hg] at hin
        simp only [producers, List.mem_filter, List.mem_append, decide_eq_true_eq]
        refine ⟨Or.inl ?_, (kahn_mem h).mp hpr⟩
        simp only [Node.rankInputs, List.mem_map, List.mem_filter]
        exact ⟨ps.1, ⟨hin, hrk⟩, rfl⟩
    have := kahn_edges_forward h hedge
    rw [idxOf_of_getElem? (kahn_nodup h) hc] at this
    exact this
  · cases he

/-- **every wired input is compiled into an edge** (rank-free ones included) -/
theorem emitEdges_complete {g : Wiring} {r : List Nat} {es : List Edge} (h : kahn g = .ok r)
    (he : emitEdges g r = .ok es) {c slot p : Nat} {rk : Bool} (hc : c < g.length)
    (hin : (inputsOf g c)[slot]? = some (p, rk)) :
    { src := r.idxOf p, tgt := r.idxOf c, slot := slot } ∈ es := by
  unfold emitEdges at he
  split at he
  · injection he with he; subst he
    have hcr : c ∈ r := (kahn_mem h).mpr hc
    refine List.mem_flatMap.mpr ⟨(c, r.idxOf c), ?_, ?_⟩
    · exact List.mem_zipIdx_iff_getElem?.mpr (getElem?_idxOf_of_mem hcr)
    · exact List.mem_map.mpr ⟨((p, rk), slot), List.mem_zipIdx_iff_getElem?.mpr hin, rfl⟩
  · cases he

/-- `validate_same_cycle_pairs` never throws: the pair's rank dependency already forces the order -/
theorem validatePairs_ok {g : Wiring} {r : List Nat} (h : kahn g = .ok r) (pairs : List (Nat × Nat))
    (hp : ∀ cs ∈ pairs, RankEdge g cs.1 cs.2) : validatePairs r pairs = .ok () := by
  unfold validatePairs
  have : (pairs.all fun cs => r.contains cs.1 && r.contains cs.2 && decide (r.idxOf cs.1 < r.idxOf cs.2)) = true := by
    rw [List.all_eq_true]
    intro cs hcs
    have he := hp cs hcs
    have h1 := (kahn_mem h).mpr (prods_lt he).1
    have h2 := (kahn_mem h).mpr (prods_lt he).2
    simp [h1, h2, kahn_edges_forward h he]
  rw [this]; rfl

/-- `add_same_cycle_pair(capture, source)` records a rank dependency of `source` on `capture` -/
theorem addPair_rankEdge {p p' : Prog} {cap src : Nat} (hs : src < p.g.length) (hc : cap < p.g.length)
    (h : addPair p cap src = .ok p') : RankEdge p'.g cap src ∧ p'.pairs = p.pairs ++ [(cap, src)] ∧
      p'.g.length = p.g.length := by
  unfold addPair addDep at h
  by_cases hne : src = cap
  · simp [hne, bind, Except.bind] at h
  · simp only [hne, if_false, bind, Except.bind, pure, Except.pure] at h
    injection h with h; subst h
    refine ⟨?_, rfl, by simp⟩
    unfold RankEdge prods
    simp only [List.getElem?_modify, List.length_modify, List.getElem?_eq_getElem hs, if_true,
      Option.map_eq_map, Option.map_some]
    simp only [producers, List.mem_filter, List.mem_append, decide_eq_true_eq]
    refine ⟨Or.inr ?_, hc⟩
    split
    · rename_i hcon; simpa using hcon
    · simp

/-! ## `finish` as a whole -/

/-- every input of every node names a node of this wiring (no unbound `delayed_binding`) -/
def InputsBound (g : Wiring) : Prop := ∀ nd ∈ g, ∀ i ∈ nd.inputs, i.1 < g.length

theorem inputsOf_bound {g : Wiring} (h : InputsBound g) : ∀ c i, i ∈ inputsOf g c → i.1 < g.length := by
  intro c i hi
  unfold inputsOf at hi
  cases hg : g[c]? with
  | none => rw [hg] at hi; simp at hi
  | some nd =>
    rw [hg] at hi
    exact h nd (List.mem_of_getElem? hg) i hi

theorem finish_precheck_false {g : Wiring} (h : InputsBound g) :
    g.any (fun nd => nd.rankInputs.any (fun i => decide (g.length ≤ i))) = false := by
  rw [Bool.eq_false_iff, Ne, List.any_eq_true]
  rintro ⟨nd, hnd, hb⟩
  rw [List.any_eq_true] at hb
  obtain ⟨i, hi, hle⟩ := hb
  simp only [Node.rankInputs, List.mem_map, List.mem_filter] at hi
  obtain ⟨a, ⟨ha, _⟩, rfl⟩ := hi
  have := h nd hnd a ha
  simp at hle; omega

/-- **`finish` is sound**: whenever it returns a graph, the order is a permutation of the nodes with every
    rank edge forward and the push sources in the prefix of the reported length, and the compiled edges
    are exactly the wired inputs, each forward unless declared rank-free. -/
theorem finish_sound {p : Prog} {b : Built} (h : finish p = .ok b) :
    b.order.Perm (List.range p.g.length) ∧
    (∀ q c, RankEdge p.g q c → b.order.idxOf q < b.order.idxOf c) ∧
    (b.pushEnd = b.order.countP (isPush p.g) ∧
      ∀ i (hi : i < b.order.length), isPush p.g b.order[i] = decide (i < b.pushEnd)) ∧
    (∀ e ∈ b.edges, ∃ c q rk, b.order[e.tgt]? = some c ∧ b.order[e.src]? = some q ∧
      (inputsOf p.g c)[e.slot]? = some (q, rk) ∧ (rk = true → e.src < e.tgt)) ∧
    (∀ c slot q rk, c < p.g.length → (inputsOf p.g c)[slot]? = some (q, rk) →
      { src := b.order.idxOf q, tgt := b.order.idxOf c, slot := slot } ∈ b.edges) := by
  unfold finish at h
  simp only [bind, Except.bind, pure, Except.pure, throw, throwThe, MonadExceptOf.throw] at h
  split at h
  · cases h
  · cases hk : kahn p.g with
    | error e => rw [hk] at h; cases h
    | ok r =>
      rw [hk] at h; simp only at h
      cases he : emitEdges p.g r with
      | error e => rw [he] at h; cases h
      | ok es =>
        rw [he] at h; simp only at h
        cases hv : validatePairs r p.pairs with
        | error e => rw [hv] at h; cases h
        | ok u =>
          rw [hv] at h; simp only at h
          have hpp := kahn_push_prefix hk
          rw [hpp.1] at h; simp only at h
          injection h with h; subst h
          exact ⟨kahn_perm hk, fun q c hqc => kahn_edges_forward hk hqc, ⟨rfl, hpp.2⟩,
            emitEdges_forward hk he, fun c slot q rk hc hin => emitEdges_complete hk he hc hin⟩

/-- **`finish` succeeds exactly on well-formed acyclic programs**: every input bound, no rank cycle, no
    push source with a rank producer (same-cycle pairs recorded through `addPair` never make it fail). -/
theorem finish_ok_iff (p : Prog) (hin : InputsBound p.g) (hpairs : ∀ cs ∈ p.pairs, RankEdge p.g cs.1 cs.2) :
    (∃ b, finish p = .ok b) ↔ (¬ HasCycle p.g ∧ PushClean p.g) := by
  constructor
  · rintro ⟨b, hb⟩
    rw [← kahn_ok_iff]
    unfold finish at hb
    simp only [bind, Except.bind, pure, Except.pure, throw, throwThe, MonadExceptOf.throw] at hb
    split at hb
    · cases hb
    · cases hk : kahn p.g with
      | error e => rw [hk] at hb; cases hb
      | ok r => exact ⟨r, rfl⟩
  · intro hcp
    obtain ⟨r, hk⟩ := (kahn_ok_iff p.g).mpr hcp
    obtain ⟨es, he⟩ := emitEdges_ok hk (inputsOf_bound hin)
    refine ⟨{ order := r, edges := es, pushEnd := r.countP (isPush p.g) }, ?_⟩
    unfold finish
    simp only [bind, Except.bind, pure, Except.pure, throw, throwThe, MonadExceptOf.throw]
    rw [finish_precheck_false hin]
    simp only [Bool.false_eq_true, if_false, hk, he, validatePairs_ok hk p.pairs hpairs,
      (kahn_push_prefix hk).1]

/-! ## non-vacuity: concrete wirings meeting the hypotheses -/

/-- a diamond wired consumer-first with a push source, an explicit dependency and a rank-free back edge:
    `n0 = sink(r:n2, r:n3)`, `n1 = push source`, `n2 = f(r:n4, f:n0)`, `n3 = g(r:n4, r:n1)`, `n4 = src`,
    plus `n2` explicitly after `n3`. -/
def exDiamond : Wiring :=
  [ { inputs := [(2, true), (3, true)] },
    { push := true },
    { inputs := [(4, true), (0, false)], deps := [3] },
    { inputs := [(4, true), (1, true)] },
    {} ]

example : kahn exDiamond = .ok [1, 4, 3, 2, 0] := by rfl
example : (finish { g := exDiamond }).toOption.map (·.pushEnd) = some 1 := by rfl
example : RankEdge exDiamond 3 2 := by unfold RankEdge; decide
example : PushClean exDiamond := by
  intro c hc
  match c with
  | 0 | 2 | 3 | 4 => simp [isPush, exDiamond] at hc
  | 1 => rfl
  | n + 5 => simp [isPush, exDiamond] at hc
/-- the same wiring with the back edge made rank-carrying is rejected as a cycle -/
def exCyclic : Wiring :=
  [ { inputs := [(2, true), (3, true)] },
    { push := true },
    { inputs := [(4, true), (0, true)], deps := [3] },
    { inputs := [(4, true), (1, true)] },
    {} ]
example : kahn exCyclic = .error .cycle := by rfl
example : HasCycle exCyclic :=
  ⟨0, .tail (.single (show 0 ∈ prods exCyclic 2 by decide)) (show 2 ∈ prods exCyclic 0 by decide)⟩
example : kahn (addFree exDiamond 4 0) = kahn exDiamond := free_edges_never_reject _ _ _

end HgVerif.Rank
