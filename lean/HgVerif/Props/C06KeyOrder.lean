import HgVerif.Props.C06KeyTree
/-!
# C06 (interning key) — the partition "denotes the same node" does not depend on the statement order

`Props/C06KeyTree.lean`: in one admissible order, two labels denote one node iff their expression trees
are equal.  Here: the expression tree of a label does not depend on the statement order
(`semL_order_irrelevant`), hence neither does the partition (`wireL_order_irrelevant`):

for any two admissible statement orders of the same declarations (labels of value declarations pairwise
different), two declarations denote the same node in the first order iff they do in the second — although
the node *ids*, and with them the interning keys that are compared, differ between the two orders.
-/
namespace HgVerif.InternKey
open HgVerif.Intern

variable {Λ δ α : Type} [DecidableEq Λ]

omit [DecidableEq Λ] in
theorem admU_adm (L : List Λ) (ds : List (LDecl Λ δ α)) (h : AdmU L ds) : Adm L ds := by
  induction ds generalizing L with
  | nil => trivial
  | cons d rest ih => exact ⟨h.1, ih _ h.2.2⟩

theorem treeIns_congr (te1 te2 : List (Λ × Tree δ α)) (dflt : Tree δ α) (ins : List (Λ × α))
    (h : ∀ p ∈ ins, get te1 p.1 = get te2 p.1) : treeIns te1 dflt ins = treeIns te2 dflt ins := by
  unfold treeIns
  apply List.map_congr_left
  intro p hp
  rw [h p hp]

theorem treeOf_congr (te1 te2 : List (Λ × Tree δ α)) (d : LDecl Λ δ α)
    (h : ∀ p ∈ d.ins, get te1 p.1 = get te2 p.1) : treeOf te1 d = treeOf te2 d := by
  unfold treeOf
  rw [treeIns_congr te1 te2 _ d.ins h]

theorem labels_semStep (te : List (Λ × Tree δ α)) (d : LDecl Λ δ α) :
    (semStep te d).map Prod.fst = if d.sink then te.map Prod.fst else d.lbl :: te.map Prod.fst := by
  unfold semStep
  cases d.sink <;> simp

/-- later statements never change the tree of a declared label (labels are not re-declared) -/
theorem semL_preserves (te : List (Λ × Tree δ α)) (ds : List (LDecl Λ δ α)) (h : AdmU (te.map Prod.fst) ds)
    (l : Λ) (hl : l ∈ te.map Prod.fst) : get (semL te ds) l = get te l := by
  induction ds generalizing te with
  | nil => rfl
  | cons d rest ih =>
    obtain ⟨_, h2, h3⟩ := h
    have hA : AdmU ((semStep te d).map Prod.fst) rest := by rw [labels_semStep]; exact h3
    have hl' : l ∈ (semStep te d).map Prod.fst := by
      rw [labels_semStep]; cases d.sink <;> simp [hl]
    show get (semL (semStep te d) rest) l = get te l
    rw [ih _ hA hl']
    unfold semStep
    cases hd : d.sink with
    | true => simp
    | false =>
      simp only [Bool.false_eq_true, ↓reduceIte]
      rw [get_cons]
      have : ¬ d.lbl = l := by intro e; exact h2 hd (e ▸ hl)
      simp [this]

/-- the trees of a program satisfy the defining equations `tree(lbl) = defn(tree(inputs)…)` -/
theorem semL_equations (te : List (Λ × Tree δ α)) (ds : List (LDecl Λ δ α)) (h : AdmU (te.map Prod.fst) ds)
    (d : LDecl Λ δ α) (hd : d ∈ ds) (hs : d.sink = false) :
    get (semL te ds) d.lbl = some (treeOf (semL te ds) d) := by
  induction ds generalizing te with
  | nil => cases hd
  | cons d0 rest ih =>
    obtain ⟨h1, h2, h3⟩ := h
    have hA : AdmU ((semStep te d0).map Prod.fst) rest := by rw [labels_semStep]; exact h3
    rcases List.mem_cons.1 hd with e | hmem
    · subst e
      show get (semL (semStep te d) rest) d.lbl = some (treeOf (semL (semStep te d) rest) d)
      have hin : d.lbl ∈ (semStep te d).map Prod.fst := by rw [labels_semStep]; simp [hs]
      rw [semL_preserves _ rest hA _ hin]
      have hstep : semStep te d = (d.lbl, treeOf te d) :: te := by simp [semStep, hs]
      have e1 : get (semStep te d) d.lbl = some (treeOf te d) := by rw [hstep, get_cons]; simp
      rw [e1]
      congr 1
      apply treeOf_congr
      intro p hp
      have hpL : p.1 ∈ te.map Prod.fst := h1 p hp
      have hpL' : p.1 ∈ (semStep te d).map Prod.fst := by rw [labels_semStep]; simp [hs, hpL]
      rw [semL_preserves _ rest hA _ hpL', hstep, get_cons]
      have : ¬ d.lbl = p.1 := by intro e; exact h2 hs (e ▸ hpL)
      simp [this]
    · exact ih _ hA hmem

/-- the defining equations have one solution along an admissible order -/
theorem equations_unique (L : List Λ) (ds : List (LDecl Λ δ α)) (h : AdmU L ds)
    (te1 te2 : List (Λ × Tree δ α)) (hL : ∀ l ∈ L, get te1 l = get te2 l)
    (h1 : ∀ d ∈ ds, d.sink = false → get te1 d.lbl = some (treeOf te1 d))
    (h2 : ∀ d ∈ ds, d.sink = false → get te2 d.lbl = some (treeOf te2 d))
    (d : LDecl Λ δ α) (hd : d ∈ ds) (hs : d.sink = false) : get te1 d.lbl = get te2 d.lbl := by
  induction ds generalizing L with
  | nil => cases hd
  | cons d0 rest ih =>
    obtain ⟨a1, _, a3⟩ := h
    have h0 : d0.sink = false → get te1 d0.lbl = get te2 d0.lbl := by
      intro hs0
      rw [h1 d0 (by simp) hs0, h2 d0 (by simp) hs0]
      congr 1
      exact treeOf_congr te1 te2 d0 (fun p hp => hL p.1 (a1 p hp))
    rcases List.mem_cons.1 hd with e | hmem
    · subst e; exact h0 hs
    · refine ih _ a3 ?_ (fun x hx => h1 x (by simp [hx])) (fun x hx => h2 x (by simp [hx])) hmem
      intro l hl
      cases hs0 : d0.sink with
      | true => rw [hs0] at hl; exact hL l (by simpa using hl)
      | false =>
        rw [hs0] at hl
        simp only [Bool.false_eq_true, ↓reduceIte, List.mem_cons] at hl
        rcases hl with e | hl
        · rw [e]; exact h0 hs0
        · exact hL l hl

/-- **trees are order-free**: two admissible statement orders of the same declarations give every
    value declaration the same expression tree -/
theorem semL_order_irrelevant (ds ds' : List (LDecl Λ δ α)) (h : AdmU [] ds) (h' : AdmU [] ds')
    (hmem : ∀ d, d ∈ ds ↔ d ∈ ds') (d : LDecl Λ δ α) (hd : d ∈ ds) (hs : d.sink = false) :
    get (semL [] ds) d.lbl = get (semL [] ds') d.lbl := by
  apply equations_unique [] ds h _ _ (by intro l hl; cases hl) _ _ d hd hs
  · intro x hx hxs; exact semL_equations [] ds (by simpa using h) x hx hxs
  · intro x hx hxs; exact semL_equations [] ds' (by simpa using h') x ((hmem x).1 hx) hxs

variable [DecidableEq δ] [DecidableEq α]

/-- **the partition is order-free**: for two admissible statement orders `ds`, `ds'` of the same
    declarations, two value declarations `a`, `b` denote one node when wired in the order `ds` iff they
    denote one node when wired in the order `ds'` -/
theorem wireL_order_irrelevant (ds ds' : List (LDecl Λ δ α)) (h : AdmU [] ds) (h' : AdmU [] ds')
    (hmem : ∀ d, d ∈ ds ↔ d ∈ ds') (a b : LDecl Λ δ α) (ha : a ∈ ds) (hb : b ∈ ds)
    (hsa : a.sink = false) (hsb : b.sink = false) (ia ib ia' ib' : Nat)
    (e1 : get (wireL ({} : LSt Λ δ α) ds).env a.lbl = some ia) (e2 : get (wireL ({} : LSt Λ δ α) ds).env b.lbl = some ib)
    (e1' : get (wireL ({} : LSt Λ δ α) ds').env a.lbl = some ia')
    (e2' : get (wireL ({} : LSt Λ δ α) ds').env b.lbl = some ib') :
    ia = ib ↔ ia' = ib' := by
  rw [wireL_same_iff_tree ds (admU_adm _ _ h) _ _ _ _ e1 e2,
      wireL_same_iff_tree ds' (admU_adm _ _ h') _ _ _ _ e1' e2',
      semL_order_irrelevant ds ds' h h' hmem a ha hsa, semL_order_irrelevant ds ds' h h' hmem b hb hsb]

/-- every value declaration of an admissible program does denote a node (the hypotheses `e1 … e2'` of
    `wireL_order_irrelevant` are always satisfiable) -/
theorem wireL_declares (ds : List (LDecl Λ δ α)) (h : AdmU [] ds) (d : LDecl Λ δ α) (hd : d ∈ ds)
    (hs : d.sink = false) : ∃ i, get (wireL ({} : LSt Λ δ α) ds).env d.lbl = some i := by
  cases hg : get (wireL ({} : LSt Λ δ α) ds).env d.lbl with
  | some i => exact ⟨i, rfl⟩
  | none =>
    have := (wireL_declared_iff ds (admU_adm _ _ h) d.lbl).1 hg
    rw [semL_equations [] ds (by simpa using h) d hd hs] at this
    cases this

/-! non-vacuity: `a = src`, `b = src`, `x = f(a)`, `y = f(b)`, `z = g(x, y)` in two statement orders:
    `a`/`b` share a node, hence `x`/`y` do, in both orders, with different node ids -/
def exA : List (LDecl String String Nat) :=
  [⟨"a", "src", [], false⟩, ⟨"b", "src", [], false⟩, ⟨"x", "f", [("a", 0)], false⟩, ⟨"k", "sink", [("x", 0)], true⟩,
   ⟨"y", "f", [("b", 0)], false⟩, ⟨"z", "g", [("x", 0), ("y", 1)], false⟩]
def exB : List (LDecl String String Nat) :=
  [⟨"b", "src", [], false⟩, ⟨"k", "sink", [], true⟩, ⟨"y", "f", [("b", 0)], false⟩, ⟨"a", "src", [], false⟩,
   ⟨"x", "f", [("a", 0)], false⟩, ⟨"z", "g", [("x", 0), ("y", 1)], false⟩]
example : (wireL {} exA).env = [("z", 3), ("y", 1), ("x", 1), ("b", 0), ("a", 0)] := by decide
example : (wireL {} exB).env = [("z", 3), ("x", 2), ("a", 0), ("y", 2), ("b", 0)] := by decide

end HgVerif.InternKey
