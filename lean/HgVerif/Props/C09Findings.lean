import HgVerif.Model.NestRef
/-!
C09 findings on the current code, as witnesses on the models "as coded" (each is also a tagged monitor failure of the
stream `nestshape-findings` with an exact replay).
-/
namespace HgVerif.NestRef

/-- replay `def ts rs node t0 Nk0 / c 0 10 20 / c 1 - - / c - 12 -`: terminals 0 (lhs) and 1 (rhs) -/
def refWitness : List Cycle :=
  [{ t := 1, ws := [(0, 10), (1, 20)], pick := some 0 },
   { t := 2, ws := [], pick := some 1 },
   { t := 3, ws := [(0, 12)], pick := none }]

/-- **Finding (C09-ref-terminal).**  Inlined (level 0 = the consumer bound to the REF's alternative) the retarget at
    t=2 ticks with the new referent's value 20.  Nested at depth 1 the outer output is still bound to the OLD referent
    at t=2 (and re-reports its value 10, the re-point from the alternative to its referent being recorded as a tick);
    the switch-over shows at the next nested evaluation (t=3, caused by a tick of the old referent): one evaluation
    late. -/
theorem ref_terminal_retarget_one_evaluation_late :
    outerDelta 0 2 (run 0 1 (refWitness.take 2)) = some 20 ∧
    outerDelta 1 2 (run 1 1 (refWitness.take 2)) = some 10 ∧
    outerDelta 0 3 (run 0 1 refWitness) = none ∧
    outerDelta 1 3 (run 1 1 refWitness) = some 20 := by
  decide

end HgVerif.NestRef
