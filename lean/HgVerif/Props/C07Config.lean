import HgVerif.Model.GSConfig
/-!
# C07 (record/replay configuration stream) - the backend of a build follows from its own store, not from history

The model (`Model/GSConfig.lean`) is the configuration lookup as coded - `config(state)` reads CONFIG_KEY of the store
it is GIVEN (the default when absent), `set_config` writes it, `effective_backend` prefers a call-site scalar, the
`requires_` guards of record / replay / compare select on the answer - and a process that runs a HISTORY of builds
against stores of five kinds (fresh heap object, long-lived named object, stack-frame local, context-owned, a
stateless Wiring's own).  Every store has an address in the model, an ARBITRARY assignment in which different
stores may collide.

For ALL process states, histories, steps and address assignments:

* `config_depends_on_contents_only`, `config_reads_config_key`, `set_config_then_config`,
  `backend_depends_on_contents_only`   : the configuration (and the overloads selected from it) is a function of the
                                          entry under CONFIG_KEY of the store given - never of where that store lives.
* `step_obs_address_free`, `run_address_free` : re-addressing every store of a history arbitrarily changes nothing.
* `step_obs_depends_on_read_objects_only`, `step_preserves_other_objects` : a step sees the process only through the
                                          long-lived objects it names (kept as they are, or copied from).
* `step_trace_history_free`, `run_last_history_free` : a step that names none (a new / frame / context-owned /
                                          stateless store, or an object it resets, overwrites from an empty state or
                                          clears key by key - `clear_leaves_nothing`) shows after ANY history exactly
                                          what it shows as the first step of a fresh process.
* `reference_step_reproduces`           : for EVERY step (also one that keeps an object's contents) the monitor's
                                          reference - a fresh store filled from the printed contents - shows the same
                                          thing up to the order of entries.
* `addr_memo_leaks_config`              : with a memo of the parsed configuration keyed by the store's ADDRESS (the
                                          seeded shape) a step's backend does depend on an earlier step (kernel-checked
                                          witness); `addr_memo_first_step_unaffected`, `addr_memo_right_after_set_config`:
                                          the first step of a process and a step that calls `set_config` last are still
                                          right under that variant (why the monitor's reference stays valid).
-/
namespace HgVerif.GSConfig

/-! ## association lists -/

theorem get_nil {α : Type} (k : Key) : get ([] : AList α) k = none := rfl

theorem get_cons {α : Type} (p : Key × α) (s : AList α) (k : Key) :
    get (p :: s) k = if k = p.1 then some p.2 else get s k := by
  unfold get
  rw [List.lookup_cons]
  by_cases h : k = p.1
  · simp [h]
  · have : (k == p.1) = false := by simp [h]
    simp [h, this]

theorem get_erase {α : Type} (s : AList α) (k k' : Key) :
    get (erase s k) k' = if k' = k then none else get s k' := by
  induction s with
  | nil => simp [erase, get_nil]
  | cons p s ih =>
    unfold erase at ih ⊢
    rw [List.filter_cons]
    by_cases hp : p.1 = k
    · have : (p.1 != k) = false := by simp [hp]
      rw [this]
      simp only [Bool.false_eq_true, if_false]
      rw [ih, get_cons]
      by_cases hk : k' = k
      · simp [hk]
      · have : k' ≠ p.1 := by rw [hp]; exact hk
        simp [hk, this]
    · have : (p.1 != k) = true := by simp [hp]
      rw [this]
      simp only [if_true]
      rw [get_cons, get_cons, ih]
      by_cases hk : k' = p.1
      · have : k' ≠ k := by rw [hk]; exact hp
        simp [hk, hp]
      · simp [hk]

theorem get_set {α : Type} (s : AList α) (k k' : Key) (v : α) :
    get (set s k v) k' = if k' = k then some v else get s k' := by
  unfold set
  rw [get_cons, get_erase]
  by_cases h : k' = k <;> simp [h]

/-- two stores with the same entries (whatever the order they were written in) -/
def StoreEq {α : Type} (a b : AList α) : Prop := ∀ k, get a k = get b k

theorem StoreEq.rfl' {α : Type} (a : AList α) : StoreEq a a := fun _ => rfl

theorem StoreEq.set {α : Type} {a b : AList α} (h : StoreEq a b) (k : Key) (v : α) : StoreEq (set a k v) (set b k v) := by
  intro k'; rw [get_set, get_set, h k']

theorem StoreEq.erase {α : Type} {a b : AList α} (h : StoreEq a b) (k : Key) : StoreEq (erase a k) (erase b k) := by
  intro k'; rw [get_erase, get_erase, h k']

theorem get_lift (s : Store) (k : Key) : get (lift s) k = (get s k).map FVal.user := by
  induction s with
  | nil => rfl
  | cons p s ih =>
    have : lift (p :: s) = (p.1, FVal.user p.2) :: lift s := rfl
    rw [this, get_cons, get_cons, ih]
    by_cases h : k = p.1 <;> simp [h]

theorem StoreEq.lift {a b : Store} (h : StoreEq a b) : StoreEq (lift a) (lift b) := by
  intro k; rw [get_lift, get_lift, h k]

/-! ## the configuration is a function of the store's contents -/

/-- a store as the runtime sees it: somewhere in memory, with some contents -/
structure View where
  addr : Nat
  contents : Store

/-- `record_replay::config(view)` -/
def configAt (v : View) : Option String := config v.contents

/-- **`config` reads the entry under CONFIG_KEY of the store it is given and nothing else**: two stores with the
    same entry there - at the same address or at different ones, whatever else they hold - have the same
    configuration. -/
theorem config_depends_on_contents_only (v₁ v₂ : View)
    (h : get v₁.contents configKey = get v₂.contents configKey) : configAt v₁ = configAt v₂ := by
  unfold configAt config
  rw [h]

/-- the read, spelled out: absent = the default backend, a stored configuration = its backend, anything else throws -/
theorem config_reads_config_key (s : Store) :
    config s = match get s configKey with
      | none => some MEMORY
      | some (.cfg b) => some b
      | some (.int _) => none := by
  unfold config
  cases get s configKey with
  | none => rfl
  | some v => cases v <;> rfl

/-- `set_config` then `config`: the normalised id, whatever the store held -/
theorem set_config_then_config (s : Store) (b : String) (hb : b ≠ "") : config (setConfig s b) = some (normalize b) := by
  unfold setConfig config
  rw [if_neg hb, get_set]
  simp [configOfEntry]

theorem config_storeEq {a b : Store} (h : StoreEq a b) : config a = config b := by
  unfold config; rw [h configKey]

theorem configF_storeEq {a b : FStore} (h : StoreEq a b) : configF a = configF b := by
  unfold configF; rw [h configKey]

theorem configF_lift (s : Store) : configF (lift s) = config s := by
  unfold configF config; rw [get_lift]

/-- **The backend a call resolves against, and the overloads the guards select from it, depend on the contents of the
    store only** (and on the call's own scalar) - for any two addresses. -/
theorem backend_depends_on_contents_only (v₁ v₂ : View) (g : GraphSpec)
    (h : get v₁.contents configKey = get v₂.contents configKey) :
    effectiveBackend g.model (configAt v₁) = effectiveBackend g.model (configAt v₂) ∧
      wireGraph g (effectiveBackend g.model (configAt v₁)) = wireGraph g (effectiveBackend g.model (configAt v₂)) := by
  rw [config_depends_on_contents_only v₁ v₂ h]
  exact ⟨rfl, rfl⟩

/-! ## addresses are irrelevant -/

/-- the same step with its store somewhere else -/
def Step.at (st : Step) (a : Nat) : Step := { st with addr := a }

/-- **A step's observation and its effect on the process do not depend on where its store lives.** -/
theorem step_obs_address_free (p : Proc) (st : Step) (a : Nat) : p.step (st.at a) = p.step st := rfl

/-- **For every history and EVERY assignment of addresses to its steps - injective or colliding - the observations
    are those of the history as given.** -/
theorem run_address_free (f : Step → Nat) (h : List Step) (p : Proc) :
    p.run (h.map (fun st => st.at (f st))) = p.run h := by
  induction h generalizing p with
  | nil => rfl
  | cons st rest ih =>
    simp only [List.map_cons, Proc.run]
    rw [step_obs_address_free, ih]

/-! ## a step sees the process only through the objects it names -/

/-- the long-lived objects whose contents a step's store starts from -/
def reads (st : Step) : List String :=
  match st.prep, st.kind with
  | .asis, .obj n => [n]
  | .copyFrom m, _ => [m]
  | _, _ => []

/-- **Erasing every key one by one leaves the empty store**, whatever it held. -/
theorem eraseAll_covering (ks : List Key) (s : Store) (h : ∀ p ∈ s, p.1 ∈ ks) : eraseAll s ks = [] := by
  induction ks generalizing s with
  | nil =>
    cases s with
    | nil => rfl
    | cons p s => exact absurd (h p (List.mem_cons_self ..)) (by simp)
  | cons k ks ih =>
    unfold eraseAll
    rw [List.foldl_cons]
    apply ih
    intro p hp
    unfold erase at hp
    rw [List.mem_filter] at hp
    have hne : p.1 ≠ k := by simpa using hp.2
    cases List.mem_cons.mp (h p hp.1) with
    | inl e => exact absurd e hne
    | inr m => exact m

theorem clear_leaves_nothing (s : Store) : eraseAll s (s.map (·.1)) = [] :=
  eraseAll_covering _ s (fun p hp => List.mem_map.mpr ⟨p, hp, rfl⟩)

theorem dispatchContents_agree (p₁ p₂ : Proc) (st : Step)
    (h : ∀ n ∈ reads st, get p₁.objs n = get p₂.objs n) : p₁.dispatchContents st = p₂.dispatchContents st := by
  unfold Proc.dispatchContents
  congr 1
  cases hp : st.prep with
  | asis =>
    simp only [applyPrep]
    cases hk : st.kind with
    | obj n =>
      have := h n (by simp [reads, hp, hk])
      simp [Proc.storeOf, this]
    | fresh => rfl
    | frame => rfl
    | own => rfl
    | stateless => rfl
  | reset => rfl
  | copy => rfl
  | clear => simp only [applyPrep, clear_leaves_nothing]
  | copyFrom m =>
    have := h m (by simp [reads, hp])
    simp [applyPrep, Proc.storeOf, this]

/-- **What a step shows depends on the process state only through the long-lived objects it names.** -/
theorem step_obs_depends_on_read_objects_only (p₁ p₂ : Proc) (st : Step)
    (h : ∀ n ∈ reads st, get p₁.objs n = get p₂.objs n) : (p₁.step st).2 = (p₂.step st).2 := by
  unfold Proc.step
  simp only
  rw [dispatchContents_agree p₁ p₂ st h]

/-- a step changes no object but the one it works on -/
theorem step_preserves_other_objects (p : Proc) (st : Step) (n : String) (h : st.kind ≠ .obj n) :
    get (p.step st).1.objs n = get p.objs n := by
  unfold Proc.step Proc.keep
  simp only
  cases hk : st.kind with
  | obj m =>
    have : n ≠ m := fun e => h (by rw [hk, e])
    simp only
    rw [get_set, if_neg this]
  | fresh => rfl
  | frame => rfl
  | own => rfl
  | stateless => rfl

/-- **History-freedom.**  A step that names no long-lived object - its store is new, a stack-frame local, owned by
    its context, a stateless Wiring's own, or an object it resets / overwrites from an empty state / clears key by
    key - shows in EVERY process state what it shows as the first step of a fresh process. -/
theorem step_trace_history_free (st : Step) (h : reads st = []) (p : Proc) :
    (p.step st).2 = (({} : Proc).step st).2 :=
  step_obs_depends_on_read_objects_only p {} st (by rw [h]; intro n hn; cases hn)

theorem run_append (p : Proc) (h₁ h₂ : List Step) :
    p.run (h₁ ++ h₂) = ((p.run h₁).1.run h₂ |>.1, (p.run h₁).2 ++ ((p.run h₁).1.run h₂).2) := by
  induction h₁ generalizing p with
  | nil => rfl
  | cons st rest ih =>
    simp only [List.cons_append, Proc.run]
    rw [ih]

/-- ... in history form: after ANY history `h` (any steps, any stores, any configurations, any addresses), the last
    observation of `h ++ [st]` is the observation of `[st]` alone. -/
theorem run_last_history_free (st : Step) (hs : reads st = []) (h : List Step) (p : Proc) :
    (p.run (h ++ [st])).2.getLast? = (({} : Proc).run [st]).2.getLast? := by
  rw [run_append]
  simp only [Proc.run, List.getLast?_append, List.getLast?_singleton, Option.some_or]
  rw [step_trace_history_free st hs]

/-! ## observations up to the order of entries -/

theorem StoreEq.trans {α : Type} {a b c : AList α} (h₁ : StoreEq a b) (h₂ : StoreEq b c) : StoreEq a c :=
  fun k => (h₁ k).trans (h₂ k)

theorem StoreEq.symm {α : Type} {a b : AList α} (h : StoreEq a b) : StoreEq b a := fun k => (h k).symm

theorem applyAction_storeEq {a b : Store} (h : StoreEq a b) (x : Action) : StoreEq (applyAction a x) (applyAction b x) := by
  cases x with
  | setCfg c =>
    simp only [applyAction, setConfig]
    by_cases hc : c = ""
    · simp only [hc, if_true]; exact h
    · simp only [hc, if_false]; exact h.set _ _
  | rawCfg c => exact h.set _ _
  | rmCfg => exact h.erase _
  | put k v => exact h.set _ _
  | del k => exact h.erase _
  | bad => exact h.set _ _

theorem applyActions_storeEq {a b : Store} (h : StoreEq a b) (xs : List Action) :
    StoreEq (applyActions a xs) (applyActions b xs) := by
  induction xs generalizing a b with
  | nil => exact h
  | cons x xs ih => exact ih (applyAction_storeEq h x)

/-- both throw, or both go on with stores holding the same entries -/
def OptEq : Option FStore → Option FStore → Prop
  | none, none => True
  | some x, some y => StoreEq x y
  | _, _ => False

theorem pushSparse_storeEq {a b : FStore} (h : StoreEq a b) (key : Key) (cyc : Nat) (v : Int) :
    OptEq (pushSparse a key cyc v) (pushSparse b key cyc v) := by
  unfold pushSparse
  rw [h key]
  cases get b key with
  | none => exact h.set _ _
  | some x => cases x <;> first | exact h.set _ _ | trivial

theorem pushDense_storeEq {a b : FStore} (h : StoreEq a b) (key : Key) (cyc : Nat) (v : Int) :
    OptEq (pushDense a key cyc v) (pushDense b key cyc v) := by
  unfold pushDense
  rw [h key]
  cases get b key with
  | none => by_cases hc : cyc > maxDenseCycles <;> simp only [hc, if_true, if_false] <;> first | trivial | exact h.set _ _
  | some x =>
    cases x with
    | dense xs =>
      simp only
      by_cases h1 : xs.length > cyc
      · simp only [h1, if_true]; trivial
      · by_cases h2 : cyc - xs.length > maxDenseCycles
        · simp only [h1, h2, if_true, if_false]; trivial
        · simp only [h1, h2, if_false]; exact h.set _ _
    | user _ => trivial
    | anyl _ => trivial
    | sparse _ => trivial
    | summary _ _ => trivial

theorem recordTick_storeEq (w : Wired) (g : GraphSpec) {a b : FStore} (h : StoreEq a b) (cyc : Nat) (v : Int) :
    OptEq (recordTick w g a cyc v) (recordTick w g b cyc v) := by
  unfold recordTick
  cases w.sel with
  | dense => exact pushDense_storeEq h _ _ _
  | sparse => exact pushSparse_storeEq h _ _ _

theorem cycles_storeEq (w : Wired) (g : GraphSpec) (src : List (Option Int)) (i : Nat) (cmp : Option (Nat × Nat))
    {a b : FStore} (h : StoreEq a b) :
    (cycles w g src i cmp a).1 = (cycles w g src i cmp b).1 ∧ StoreEq (cycles w g src i cmp a).2 (cycles w g src i cmp b).2 := by
  induction src generalizing i cmp a b with
  | nil => exact ⟨rfl, h⟩
  | cons x rest ih =>
    cases x with
    | none => simp only [cycles]; exact ih _ _ h
    | some v =>
      simp only [cycles]
      have hr := recordTick_storeEq w g h i v
      cases ha : recordTick w g a i v with
      | none =>
        cases hb : recordTick w g b i v with
        | none => exact ⟨rfl, h⟩
        | some y => rw [ha, hb] at hr; exact absurd hr (by simp [OptEq])
      | some x1 =>
        cases hb : recordTick w g b i v with
        | none => rw [ha, hb] at hr; exact absurd hr (by simp [OptEq])
        | some y1 =>
          rw [ha, hb] at hr
          have hxy : StoreEq x1 y1 := hr
          cases cmp with
          | none => exact ih _ _ hxy
          | some cm =>
            obtain ⟨c, m⟩ := cm
            simp only
            cases hm : (v == 13) with
            | true => exact ⟨by simp, by simpa using hxy.set _ _⟩
            | false => simpa using ih _ _ (hxy.set cmpKey (.summary (c + 1) m))

theorem startNodes_storeEq (w : Wired) (g : GraphSpec) {a b : FStore} (h : StoreEq a b) :
    StoreEq (startNodes w g a) (startNodes w g b) := by
  unfold startNodes
  have h1 : StoreEq (match w.sel with | .dense => erase a g.key | .sparse => a)
      (match w.sel with | .dense => erase b g.key | .sparse => b) := by
    cases w.sel with
    | dense => exact h.erase _
    | sparse => exact h
  by_cases hc : usesCompare g.kind = true
  · simp only [hc, if_true]; exact h1.set _ _
  · simp only [hc]; exact h1

theorem builderState_storeEq (g : GraphSpec) {a b : Store} (h : StoreEq a b) :
    StoreEq (builderState g a) (builderState g b) := by
  unfold builderState
  by_cases hc : usesReplay g.kind = true
  · simp only [hc, if_true]; exact h.lift.set _ _
  · simp only [hc]; exact h.lift

theorem runGraph_storeEq (w : Wired) (g : GraphSpec) {a b : Store} (h : StoreEq a b) :
    (runGraph w g a).1 = (runGraph w g b).1 ∧ StoreEq (runGraph w g a).2 (runGraph w g b).2 :=
  cycles_storeEq w g _ _ _ (startNodes_storeEq w g (builderState_storeEq g h))

theorem seedOf_storeEq {a b : FStore} (h : StoreEq a b) (key : Key) : seedOf a key = seedOf b key := by
  unfold seedOf
  rw [configF_storeEq h, h (memKey key)]

/-- the same outcome, final stores compared entry by entry -/
def OutcomeEq : Outcome → Outcome → Prop
  | .query a, .query b => a = b
  | .wireErr, .wireErr => True
  | .ran s₁ f₁ d₁, .ran s₂ f₂ d₂ => s₁ = s₂ ∧ StoreEq f₁ f₂ ∧ d₁ = d₂
  | _, _ => False

/-- two observations that print the same line (the drivers print stores sorted by key) -/
def ObsEq (a b : Obs) : Prop := StoreEq a.pre b.pre ∧ OutcomeEq a.out b.out

/-- what a step shows is a function of the ENTRIES of its store at dispatch time -/
theorem stepObs_storeEq {c₁ c₂ : Store} (h : StoreEq c₁ c₂) (st : Step) : ObsEq (stepObs c₁ st) (stepObs c₂ st) := by
  unfold stepObs stepObsWith
  rw [config_storeEq h]
  cases st.graph with
  | none => exact ⟨h, rfl⟩
  | some g =>
    simp only
    cases wireGraph g (effectiveBackend g.model (config c₂)) with
    | none => exact ⟨h, trivial⟩
    | some w =>
      have hr := runGraph_storeEq w g (applyActions_storeEq h st.late)
      refine ⟨h, hr.1, hr.2, ?_⟩
      cases g.probe with
      | true => simp only [if_true]; rw [seedOf_storeEq hr.2]
      | false => rfl

/-! ## the monitor's reference: a fresh store filled from the printed contents -/

/-- the stores the vocabulary can produce: a configuration value sits only under CONFIG_KEY -/
def CfgKeyed (s : Store) : Prop := ∀ p ∈ s, ∀ b, p.2 = .cfg b → p.1 = configKey

/-- one action per printed entry -/
def entryAction (p : Key × UVal) : Action :=
  match p.2 with
  | .cfg b => .rawCfg b
  | .int v => .put p.1 v

/-- the actions that re-create a store: the FIRST entry is written last (first match wins in a store) -/
def reconstruct (c : Store) : List Action := c.reverse.map entryAction

theorem applyActions_append (s : Store) (as bs : List Action) :
    applyActions s (as ++ bs) = applyActions (applyActions s as) bs := by
  unfold applyActions; rw [List.foldl_append]

theorem reconstruct_eq (c : Store) (hc : CfgKeyed c) : StoreEq (applyActions [] (reconstruct c)) c := by
  induction c with
  | nil => exact StoreEq.rfl' _
  | cons p c ih =>
    have hc' : CfgKeyed c := fun q hq => hc q (List.mem_cons_of_mem _ hq)
    have h1 : StoreEq (applyAction (applyActions [] (reconstruct c)) (entryAction p)) (applyAction c (entryAction p)) :=
      applyAction_storeEq (ih hc') _
    have h2 : StoreEq (applyAction c (entryAction p)) (p :: c) := by
      intro k
      unfold entryAction
      cases hv : p.2 with
      | cfg b =>
        have hk : p.1 = configKey := hc p (List.mem_cons_self ..) b hv
        simp only [applyAction]
        rw [get_set, get_cons, hk, hv]
      | int v =>
        simp only [applyAction]
        rw [get_set, get_cons, hv]
    have : applyActions [] (reconstruct (p :: c)) = applyAction (applyActions [] (reconstruct c)) (entryAction p) := by
      unfold reconstruct
      rw [List.reverse_cons, List.map_append, applyActions_append]
      rfl
    rw [this]
    exact h1.trans h2

/-- a long-lived object becomes a fresh one; every other kind of store is kept -/
def refKind : StoreKind → StoreKind
  | .obj _ => .fresh
  | k => k

/-- the monitor's reference for a step whose store held `c` at dispatch time -/
def refStep (c : Store) (st : Step) : Step :=
  { st with kind := refKind st.kind, prep := .asis, pre := reconstruct c }

theorem refStep_contents (c : Store) (st : Step) :
    ({} : Proc).dispatchContents (refStep c st) = applyActions [] (reconstruct c) := by
  unfold Proc.dispatchContents refStep
  simp only [applyPrep]
  cases st.kind <;> rfl

/-- every long-lived object of the process is a store the vocabulary can produce -/
def Proc.WF (p : Proc) : Prop := ∀ n s, get p.objs n = some s → CfgKeyed s

theorem cfgKeyed_erase {s : Store} (h : CfgKeyed s) (k : Key) : CfgKeyed (erase s k) :=
  fun q hq => h q (List.mem_filter.mp hq).1

theorem cfgKeyed_set_cfg {s : Store} (h : CfgKeyed s) (b : String) : CfgKeyed (set s configKey (.cfg b)) := by
  intro q hq
  cases List.mem_cons.mp hq with
  | inl e => intro _ _; rw [e]
  | inr m => exact cfgKeyed_erase h _ q m

theorem cfgKeyed_set_int {s : Store} (h : CfgKeyed s) (k : Key) (v : Int) : CfgKeyed (set s k (.int v)) := by
  intro q hq
  cases List.mem_cons.mp hq with
  | inl e => intro b hb; rw [e] at hb; cases hb
  | inr m => exact cfgKeyed_erase h _ q m

theorem cfgKeyed_applyAction {s : Store} (h : CfgKeyed s) (x : Action) : CfgKeyed (applyAction s x) := by
  cases x with
  | setCfg c =>
    simp only [applyAction, setConfig]
    by_cases hc : c = ""
    · simp only [hc, if_true]; exact h
    · simp only [hc, if_false]; exact cfgKeyed_set_cfg h _
  | rawCfg c => exact cfgKeyed_set_cfg h _
  | rmCfg => exact cfgKeyed_erase h _
  | put k v => exact cfgKeyed_set_int h _ _
  | del k => exact cfgKeyed_erase h _
  | bad => exact cfgKeyed_set_int h _ _

theorem cfgKeyed_applyActions {s : Store} (h : CfgKeyed s) (xs : List Action) : CfgKeyed (applyActions s xs) := by
  induction xs generalizing s with
  | nil => exact h
  | cons x xs ih => exact ih (cfgKeyed_applyAction h x)

theorem cfgKeyed_nil : CfgKeyed [] := fun _ hq => by cases hq

theorem Proc.WF.storeOf {p : Proc} (h : p.WF) (k : StoreKind) : CfgKeyed (p.storeOf k) := by
  cases k with
  | obj n =>
    simp only [Proc.storeOf]
    cases hg : get p.objs n with
    | none => exact cfgKeyed_nil
    | some s => exact h n s hg
  | fresh => exact cfgKeyed_nil
  | frame => exact cfgKeyed_nil
  | own => exact cfgKeyed_nil
  | stateless => exact cfgKeyed_nil

theorem Proc.WF.dispatchContents {p : Proc} (h : p.WF) (st : Step) : CfgKeyed (p.dispatchContents st) := by
  unfold Proc.dispatchContents
  apply cfgKeyed_applyActions
  cases st.prep with
  | asis => exact h.storeOf _
  | reset => exact cfgKeyed_nil
  | copy => exact cfgKeyed_nil
  | clear => simp only [applyPrep, clear_leaves_nothing]; exact cfgKeyed_nil
  | copyFrom n => exact h.storeOf (.obj n)

theorem Proc.WF.step {p : Proc} (h : p.WF) (st : Step) : (p.step st).1.WF := by
  unfold Proc.step Proc.keep
  simp only
  have hc := h.dispatchContents st
  have hs : CfgKeyed (storeAfter (config (p.dispatchContents st)) (p.dispatchContents st) st) := by
    unfold storeAfter
    split
    · exact cfgKeyed_applyActions hc _
    · exact hc
  cases st.kind with
  | obj m =>
    intro n s hg
    simp only at hg
    rw [get_set] at hg
    by_cases e : n = m
    · rw [if_pos e] at hg; cases hg; exact hs
    · rw [if_neg e] at hg; exact h n s hg
  | fresh => exact h
  | frame => exact h
  | own => exact h
  | stateless => exact h

theorem Proc.WF.run {p : Proc} (h : p.WF) (hist : List Step) : (p.run hist).1.WF := by
  induction hist generalizing p with
  | nil => exact h
  | cons st rest ih => exact ih (h.step st)

theorem Proc.WF.init : ({} : Proc).WF := fun n s hg => by cases hg

/-- **The monitor's reference is right for EVERY step**: after any history from a fresh process, a step whose store
    held `c` at dispatch time (whatever object it kept, copied or cleared) shows what the reference step - the same
    kind of store, new, filled from `c` entry by entry - shows as the first step of a fresh process, up to the order
    of the entries (the drivers print stores sorted). -/
theorem reference_step_reproduces (hist : List Step) (st : Step) :
    let p := (({} : Proc).run hist).1
    ObsEq ((({} : Proc).step (refStep (p.dispatchContents st) st)).2) ((p.step st).2) := by
  intro p
  have hwf : p.WF := Proc.WF.init.run hist
  have hc := hwf.dispatchContents st
  have he := reconstruct_eq _ hc
  show ObsEq (stepObs (({} : Proc).dispatchContents (refStep (p.dispatchContents st) st)) (refStep (p.dispatchContents st) st))
    (stepObs (p.dispatchContents st) st)
  rw [refStep_contents]
  have : stepObs (applyActions [] (reconstruct (p.dispatchContents st))) (refStep (p.dispatchContents st) st)
      = stepObs (applyActions [] (reconstruct (p.dispatchContents st))) st := rfl
  rw [this]
  exact stepObs_storeEq he st

/-! ## the variant with an address-keyed memo -/

theorem memoAfter_none (xs : List Action) : memoAfter none xs = none := by
  unfold memoAfter
  induction xs with
  | nil => rfl
  | cons x xs ih =>
    rw [List.foldl_cons]
    have : memoStep none x = none := by
      cases x <;> simp [memoStep]
    rw [this]; exact ih

theorem memoAfter_set_last (m : Memo) (xs : List Action) (b : String) (hb : b ≠ "") :
    memoAfter m (xs ++ [.setCfg b]) = none := by
  unfold memoAfter
  rw [List.foldl_append]
  simp [memoStep, hb]

theorem configMemo_none (addr : Nat) (c : Store) : (configMemo none addr c).1 = config c := by
  unfold configMemo
  cases config c <;> rfl

/-- with nothing memoised when the dispatch starts, the variant shows what the code as it is shows -/
theorem mstep_obs_of_memo_none (p : MProc) (st : Step) (hm : memoAfter p.memo st.pre = none) :
    (p.step st).2 = (({ objs := p.objs } : Proc).step st).2 := by
  unfold MProc.step Proc.step Proc.dispatchContents stepObs
  simp only [hm]
  have hs : ∀ k, MProc.storeOf p k = Proc.storeOf { objs := p.objs } k := fun k => by cases k <;> rfl
  simp only [hs]
  cases readsConfig st with
  | true => simp only [if_true, configMemo_none]
  | false => rfl

/-- **The first step of a process is right under the variant too** (nothing is memoised yet): this is why the
    monitor's reference - the step run first in a fresh process - stays valid against the seeded defect. -/
theorem addr_memo_first_step_unaffected (p : MProc) (hm : p.memo = none) (st : Step) :
    (p.step st).2 = (({ objs := p.objs } : Proc).step st).2 :=
  mstep_obs_of_memo_none p st (by rw [hm, memoAfter_none])

/-- **"set_config, then wire" is right under the variant**: a step whose last action before wiring is `set_config`
    shows what the code as it is shows, whatever was memoised. -/
theorem addr_memo_right_after_set_config (p : MProc) (st : Step) (xs : List Action) (b : String) (hb : b ≠ "")
    (hpre : st.pre = xs ++ [.setCfg b]) : (p.step st).2 = (({ objs := p.objs } : Proc).step st).2 :=
  mstep_obs_of_memo_none p st (by rw [hpre, memoAfter_set_last _ _ _ hb])

def leakGraph : GraphSpec := { kind := .tick 3, key := "out" }
/-- a build under the testing backend in a stack-frame local ... -/
def leakFirst : Step := { kind := .frame, addr := 7, pre := [.setCfg "testing"], graph := some leakGraph }
/-- ... then a build with NO configuration in the next local of that frame: the same address, another store -/
def leakSecond : Step := { kind := .frame, addr := 7, graph := some leakGraph }

/-- **An address-keyed memo makes a step depend on an earlier one** (kernel-checked witness): the second step names
    no object and sets no configuration, the code as it is shows for it - after the first step or alone - the sparse
    `:memory:` recording; the variant shows the dense recording of the FIRST step's backend when the two stores share
    an address, and the right thing when they do not. -/
theorem addr_memo_leaks_config :
    reads leakSecond = [] ∧ leakFirst.addr = leakSecond.addr ∧
    (({} : Proc).run [leakFirst, leakSecond]).2.getLast? = (({} : Proc).run [leakSecond]).2.getLast? ∧
    (({} : MProc).run [leakFirst, leakSecond]).2.getLast? ≠ (({} : MProc).run [leakSecond]).2.getLast? ∧
    (({} : MProc).run [leakFirst, leakSecond.at 8]).2.getLast? = (({} : MProc).run [leakSecond.at 8]).2.getLast? := by
  decide

/-! ## non-vacuity -/

/-- two different stores at ONE address with different configurations: the hypothesis of
    `config_depends_on_contents_only` fails and so does its conclusion - the address decides nothing -/
example : configAt ⟨7, [(configKey, .cfg "testing")]⟩ ≠ configAt ⟨7, []⟩ := by decide

/-- ... and two stores at different addresses, different in everything but the configuration entry -/
example : configAt ⟨1, [("zz", .int 5), (configKey, .cfg "testing")]⟩ = configAt ⟨2, [(configKey, .cfg "testing"), ("out", .int 4)]⟩ :=
  config_depends_on_contents_only _ _ (by decide)

/-- the three outcomes of the record dispatch -/
example : selectRecord "testing" = some .dense ∧ selectRecord "memory" = some .sparse ∧ selectRecord "acme" = none := by decide

/-- a legacy name is served only when it went through `set_config` -/
example : config (setConfig [] "InMemoryDense") = some "testing" ∧ config (applyAction [] (.rawCfg "InMemoryDense")) = some "InMemoryDense" := by
  decide

/-- a step that names no object: a long-lived object cleared key by key -/
example : reads { kind := .obj "a", prep := .clear, graph := none } = [] := rfl
/-- ... and one that does (history-freedom does not apply; `reference_step_reproduces` does) -/
example : reads { kind := .obj "a", prep := .asis, graph := none } = ["a"] := rfl

/-- the dense and the sparse recording of the same ticks -/
example : (({} : Proc).step { kind := .fresh, pre := [.setCfg "testing"], graph := some leakGraph }).2.out =
    .ran .ok [("out", .dense [some 10, some 20, some 30]), (configKey, .user (.cfg "testing"))] none := by decide
example : (({} : Proc).step { kind := .fresh, graph := some leakGraph }).2.out =
    .ran .ok [(":memory:nodes.record.out", .sparse [(0, 10), (1, 20), (2, 30)])] none := by decide

/-- configuration changed AFTER the nodes were wired: the sparse recorder was chosen, the final state carries the
    testing configuration -/
example : (({} : Proc).step { kind := .fresh, late := [.setCfg "testing"], graph := some leakGraph }).2.out =
    .ran .ok [(":memory:nodes.record.out", .sparse [(0, 10), (1, 20), (2, 30)]), (configKey, .user (.cfg "testing"))] none := by decide

/-- `reference_step_reproduces` on a step that keeps an object's contents -/
example : refStep [(configKey, .cfg "testing"), ("zz", .int 5)] { kind := .obj "a", graph := none } =
    { kind := .fresh, prep := .asis, pre := [.put "zz" 5, .rawCfg "testing"], graph := none } := by decide

end HgVerif.GSConfig
