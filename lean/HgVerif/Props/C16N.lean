import HgVerif.Lemmas.PushQueueN
import HgVerif.Props.C16
/-!
# C16, several push sources in one graph sharing ONE executor wake flag

Model: `HgVerif/Model/PushQueueN.lean`.  `Reach sys s` ranges over ALL interleavings of the
producers of every source (any number of producers and messages per source), the evaluation
thread (whose cycle resets the shared flag ONCE and then evaluates the push sources in index
order: pop, re-arm) and stop requests, for any number `sys.n` of sources and any capacity /
policy `sys.cfg k` per source.  The theorems are invariants of every reachable state
(`inv_reach`, by induction over the steps) and, for liveness, statements about every weakly fair
infinite execution.
-/
namespace HgVerif.PushQueueN
open HgVerif.PushQueue (Policy Cfg SendKind Outcome PPc upd flat flat_append flat_single stays_until)

/-! ### per-source safety -/

/-- **C16 (multi-source).** Per source: the values handed to the graph (burst: tuples flattened)
    are, in order, a prefix of the values whose send to THAT source was accepted. -/
theorem delivered_prefix_of_accepted_n {sys : Sys} {s : St} (h : Reach sys s) (k : Nat)
    (hp : (sys.cfg k).policy ≠ .conflating) : flat (s.src k).delivered <+: (s.src k).accepted := by
  obtain ⟨dr, h1, _⟩ := ((inv_reach h).src k).pre hp
  exact ⟨(s.src k).deque ++ dr, by rw [h1]; simp⟩

/-- … hence each producer's own order is preserved on every source. -/
theorem per_producer_order_n {sys : Sys} {s : St} (h : Reach sys s) (k : Nat)
    (hp : (sys.cfg k).policy ≠ .conflating) (i : Nat) :
    (flat (s.src k).delivered).filter (fun x => x.1 == i) <+: (s.src k).accepted.filter (fun x => x.1 == i) := by
  obtain ⟨t, ht⟩ := delivered_prefix_of_accepted_n h k hp
  exact ⟨t.filter (fun x => x.1 == i), by rw [← ht]; simp⟩

/-- **C16 (multi-source).** No source holds more than its own capacity. -/
theorem pending_le_capacity_n {sys : Sys} {s : St} (h : Reach sys s) (k : Nat)
    (hp : (sys.cfg k).policy ≠ .conflating) (hc : (sys.cfg k).cap ≠ 0) :
    (s.src k).deque.length ≤ (sys.cfg k).cap :=
  ((inv_reach h).src k).cap hp hc

/-- **C16 (multi-source).** Per source every delivery happens in its own engine cycle with strictly
    increasing cycle times (a cycle evaluates each push source at most once), and with the queue
    policy a delivery is exactly one value. -/
theorem delivered_once_n {sys : Sys} {s : St} (h : Reach sys s) (k : Nat) :
    List.Pairwise (fun a b => a < b) ((s.src k).delivered.map (·.1)) ∧
    ((sys.cfg k).policy = .queue → ∀ d ∈ (s.src k).delivered, ∃ x, d.2 = [x]) := by
  refine ⟨((inv_reach h).times k).1, ?_⟩
  intro hq
  induction h with
  | init => simp
  | step l _ hs ih =>
    rcases step_delivered hs k with h1 | ⟨_, _, vs, _, h2, _, h3⟩
    · rw [h1]; exact ih
    · rw [h2]
      intro d hd
      simp only [List.mem_append, List.mem_singleton] at hd
      rcases hd with hd | rfl
      · exact ih d hd
      · exact h3 hq

/-- a running source holds an accepted, not yet delivered value exactly when its queue is non-empty -/
theorem undelivered_pending {sys : Sys} {s : St} (h : Reach sys s) (k : Nat)
    (hp : (sys.cfg k).policy ≠ .conflating) (hacc : (s.src k).accepting = true)
    (hlt : (flat (s.src k).delivered).length < (s.src k).accepted.length) : (s.src k).deque ≠ [] := by
  obtain ⟨dr, h1, h2⟩ := ((inv_reach h).src k).pre hp
  have := h2 hacc
  subst this
  intro he
  rw [h1, he] at hlt
  simp at hlt

/-- **C16 (multi-source), the shared-flag invariant: no lost wake-up.**  Whenever ANY source `k`
    holds a pending (accepted, undelivered) value, then
    * the shared executor flag is set, or
    * a producer of some source is between its admission and the mark it owes, or
    * the evaluation thread is inside a cycle that has not evaluated source `k` yet (it stands at a
      source `j ≤ k`, or has popped a source `j < k`), or it is between a pop that saw more pending
      and the re-arm it owes (which sets the flag), or
    * a stop has been requested (after which nothing needs to be delivered). -/
theorem no_lost_wakeup_n {sys : Sys} {s : St} (h : Reach sys s) (k : Nat) (hd : (s.src k).deque ≠ []) :
    s.flag = true ∨ (∃ k' i kd v, (s.src k').pcs i = .admitted kd v true) ∨
    (∃ j, s.cpc = .at j ∧ j ≤ k) ∨ (∃ j m, s.cpc = .popped j m ∧ (m = true ∨ j < k)) ∨
    s.stopReq = true := by
  rcases (inv_reach h).wake k hd with h1 | ⟨k', h1⟩ | h1 | ⟨j, h1⟩ | h1
  · exact Or.inl h1
  · exact Or.inr (Or.inl ⟨k', h1⟩)
  · cases hc : s.cpc with
    | idle => rw [hc] at h1; simp [Ahead] at h1
    | «at» j => rw [hc] at h1; exact Or.inr (Or.inr (Or.inl ⟨j, rfl, h1⟩))
    | popped j m => rw [hc] at h1; exact Or.inr (Or.inr (Or.inr (Or.inl ⟨j, m, rfl, Or.inr h1⟩)))
  · exact Or.inr (Or.inr (Or.inr (Or.inl ⟨j, true, h1, Or.inl rfl⟩)))
  · exact Or.inr (Or.inr (Or.inr (Or.inr h1)))

/-- the same, stated from the histories: the loop cannot be asleep (flag clear, every thread
    outside its critical windows, no stop request) while a running source has an accepted value that
    was not delivered -/
theorem idle_loop_has_nothing_undelivered {sys : Sys} {s : St} (h : Reach sys s) (k : Nat)
    (hp : (sys.cfg k).policy ≠ .conflating) (hacc : (s.src k).accepting = true)
    (hflag : s.flag = false) (hidle : s.cpc = .idle) (hstop : s.stopReq = false)
    (hprod : ∀ k' i kd v, (s.src k').pcs i ≠ .admitted kd v true) :
    (flat (s.src k).delivered).length = (s.src k).accepted.length := by
  apply Classical.byContradiction
  intro hne
  obtain ⟨t, ht⟩ := delivered_prefix_of_accepted_n h k hp
  have hlen : (flat (s.src k).delivered).length ≤ (s.src k).accepted.length := by
    rw [← ht]; simp
  have hd := undelivered_pending h k hp hacc (by omega)
  rcases no_lost_wakeup_n h k hd with h1 | ⟨k', i, kd, v, h1⟩ | ⟨j, h1, _⟩ | ⟨j, m, h1, _⟩ | h1
  · rw [hflag] at h1; simp at h1
  · exact hprod k' i kd v h1
  · rw [hidle] at h1; simp at h1
  · rw [hidle] at h1; simp at h1
  · rw [hstop] at h1; simp at h1

/-! ### refusals and stop, per source -/

/-- a step of source `k`'s code is the source-local step, lifted -/
theorem step_src_lift (sys : Sys) (s : St) (k : Nat) (l : SLabel) (hk : k < sys.n) (hl : l ≠ .closeBegin) :
    step sys s (.src k l) =
      (lstep (sys.cfg k) s.stopReq (s.src k) l).map
        (fun r => if r.2 then markFlag (setSrc s k r.1) else setSrc s k r.1) := by
  simp only [step, hk, if_true, hl, false_and, if_false]
  cases lstep (sys.cfg k) s.stopReq (s.src k) l with
  | none => rfl
  | some r => rfl

/-- **C16 (multi-source).** On every source a non-blocking send is refused only when THAT source's
    queue is full or the source / the executor has stopped — and it IS admitted otherwise.  Per
    atomic step of `try_send`, for every source state `x` (reachable or not): `enter` refuses iff the
    control block is closed; `check` refuses iff the executor has a stop request; `admitQ` refuses iff
    the policy is not accepting or the bounded queue is at capacity, and otherwise appends the value
    to the accepted sequence of that source.  None of these steps touches the shared flag.  (Sources
    with an int payload; a collection-conflating source never refuses for capacity, see below.) -/
theorem try_send_refused_iff_full_or_stopped_n (cfg : Cfg) (hnd : isDict cfg = false) (sr : Bool) (x : Src) (i v : Nat) :
    (x.pcs i = .idle →
      ∃ x', lstep cfg sr x (.enter i .try_ v) = some (x', false) ∧
        ((x.started = false ∨ x.closing = true) → x' = x.refuse i .try_ v .refusedClosed) ∧
        (¬(x.started = false ∨ x.closing = true) → x'.pcs i = .entered .try_ v ∧ x'.results = x.results)) ∧
    (x.pcs i = .entered .try_ v →
      ∃ x', lstep cfg sr x (.check i) = some (x', false) ∧
        (sr = true → x' = x.refuse i .try_ v .refusedStopReq) ∧
        (sr = false → x'.pcs i = .checked .try_ v ∧ x'.results = x.results)) ∧
    (x.pcs i = .checked .try_ v →
      ∃ x', lstep cfg sr x (.admitQ i) = some (x', false) ∧
        (x.accepting = false → x' = x.refuse i .try_ v .refusedNotAccepting) ∧
        (x.accepting = true → x.full cfg = true → x' = x.refuse i .try_ v .refusedFull) ∧
        (x.accepting = true → x.full cfg = false →
          x' = x.accept cfg i .try_ v ∧ x'.accepted = x.accepted ++ [(i, v)] ∧ x'.results = x.results)) := by
  refine ⟨?_, ?_, ?_⟩
  · intro hpc
    simp only [lstep, hpc, hnd, Bool.false_eq_true, if_false]
    by_cases hc : x.started = false ∨ x.closing = true
    · have : (!x.started || x.closing) = true := by rcases hc with h | h <;> simp [h]
      simp only [this, if_true]
      exact ⟨_, rfl, fun _ => rfl, fun h => absurd hc h⟩
    · have : (!x.started || x.closing) = false := by
        simp only [not_or, Bool.not_eq_false, Bool.not_eq_true] at hc; simp [hc.1, hc.2]
      simp only [this, Bool.false_eq_true, if_false]
      exact ⟨_, rfl, fun h => absurd h hc, fun _ => ⟨by simp [upd], rfl⟩⟩
  · intro hpc
    simp only [lstep, hpc, hnd, Bool.false_eq_true, if_false]
    cases sr with
    | true => simp only [if_true]; exact ⟨_, rfl, fun _ => rfl, fun h => by simp at h⟩
    | false =>
      simp only [Bool.false_eq_true, if_false]
      exact ⟨_, rfl, fun h => by simp at h, fun _ => ⟨by simp [upd], rfl⟩⟩
  · intro hpc
    simp only [lstep, hpc, hnd, Bool.false_eq_true, if_false]
    cases hacc : x.accepting with
    | false => simp only [Bool.not_false, if_true]; exact ⟨_, rfl, fun _ => rfl, by simp, by simp⟩
    | true =>
      simp only [Bool.not_true, Bool.false_eq_true, if_false]
      cases hf : x.full cfg with
      | true => simp only [if_true]; exact ⟨_, rfl, by simp, fun _ _ => rfl, by simp⟩
      | false =>
        simp only [Bool.false_eq_true, if_false]
        exact ⟨_, rfl, by simp, by simp, fun _ _ => ⟨rfl, by simp [Src.accept], by simp [Src.accept]⟩⟩

/-- **C16 (multi-source).** On every source a blocking send fails only if the source stops first:
    no blocking send has ever been refused for lack of capacity. -/
theorem blocking_fails_only_if_stopped_n {sys : Sys} {s : St} (h : Reach sys s) (k : Nat) :
    ∀ r ∈ (s.src k).results, r.2.1 = .blocking →
      r.2.2.2 = .accepted ∨ r.2.2.2 = .refusedClosed ∨ r.2.2.2 = .refusedStopReq ∨ r.2.2.2 = .refusedNotAccepting := by
  intro r hr hk
  have := ((inv_reach h).src k).blk r hr hk
  cases ho : r.2.2.2 <;> simp_all

theorem step_after_stop {sys : Sys} {s s' : St} {l : Label} (k : Nat) (hst : (s.src k).started = true)
    (hna : (s.src k).accepting = false) (hs : step sys s l = some s') :
    (s'.src k).accepted = (s.src k).accepted ∧ (s'.src k).started = true ∧ (s'.src k).accepting = false := by
  cases l with
  | src j l =>
    obtain ⟨x, m, hls, _, _, e1, e2, _⟩ := step_src hs
    by_cases hk : k = j
    · subst hk; rw [e1]; exact lstep_after_stop hls hst hna
    · rw [e2 k hk]; exact ⟨rfl, hst, hna⟩
  | beginCycle dt =>
    obtain ⟨_, h, _⟩ := (step_cpc hs).2.2.2 ⟨dt, rfl⟩
    rw [h]; exact ⟨rfl, hst, hna⟩
  | pop =>
    simp only [step] at hs
    split at hs
    · rename_i j hc
      simp only [Option.some.injEq] at hs; subst hs
      by_cases hk : k = j
      · subst hk; simp only [setSrc_same]
        obtain ⟨p1, p2, _, _, p5, _⟩ := popL_frame (sys.cfg k) s.time (s.src k)
        exact ⟨p5, by rw [p1]; exact hst, by rw [p2]; exact hna⟩
      · simp only [setSrc_other _ _ _ _ hk]; exact ⟨trivial, hst, hna⟩
    · simp at hs
  | rearm =>
    obtain ⟨j, b, _, _, h, _⟩ := (step_cpc hs).2.2.1 rfl
    rw [h]; exact ⟨rfl, hst, hna⟩
  | reqStop => simp only [step, Option.some.injEq] at hs; subst hs; exact ⟨rfl, hst, hna⟩

/-- **C16 (multi-source).** Nothing is accepted by a source after its stop: once source `k`'s policy
    has stopped, no continuation of the run — any labels of any thread, in any order, including
    sends to the other, still running sources — adds to source `k`'s accepted sequence. -/
theorem nothing_accepted_after_stop_n (sys : Sys) (s : St) (k : Nat) (hst : (s.src k).started = true)
    (hna : (s.src k).accepting = false) (ls : List Label) :
    ((runLabels sys s ls).src k).accepted = (s.src k).accepted ∧ ((runLabels sys s ls).src k).accepting = false := by
  induction ls generalizing s with
  | nil => exact ⟨rfl, hna⟩
  | cons l ls ih =>
    simp only [runLabels]
    cases hs : step sys s l with
    | none => exact ih s hst hna
    | some s' =>
      obtain ⟨h1, h2, h3⟩ := step_after_stop k hst hna hs
      obtain ⟨i1, i2⟩ := ih s' h2 h3
      exact ⟨by rw [i1, h1], i2⟩

/-- **C16 (multi-source, conflating).** A conflating source holds at most one merged state, the most
    recently accepted value; its deliveries are an in-order subsequence of what it accepted. -/
theorem conflating_delivers_latest_n {sys : Sys} {s : St} (h : Reach sys s) (k : Nat)
    (hp : (sys.cfg k).policy = .conflating) (hnd : isDict (sys.cfg k) = false) :
    ((s.src k).deque = [] ∨ ∃ x, (s.src k).deque = [x] ∧ (s.src k).accepted.getLast? = some x) ∧
    (flat (s.src k).delivered ++ (s.src k).deque).Sublist (s.src k).accepted :=
  ((inv_reach h).src k).confl hp hnd

/-! ### liveness: every accepted value of every source is eventually delivered (weak fairness) -/

/-- an infinite execution of the transition system -/
structure Exec (sys : Sys) where
  σ : Nat → St
  lab : Nat → Label
  init : Reach sys (σ 0)
  next : ∀ n, step sys (σ n) (lab n) = some (σ (n + 1))

/-- the run continues: no stop request and no stop of any push source, now or later -/
def Exec.Continues {sys : Sys} (e : Exec sys) : Prop :=
  (e.σ 0).stopReq = false ∧ (∀ k, ((e.σ 0).src k).closing = false) ∧ ∀ n, isStopLabel (e.lab n) = false

/-- weak fairness of the steps the argument relies on: a producer that has been admitted eventually
    performs its mark; the evaluation thread eventually performs the pop and the re-arm of every
    source of a push phase it has begun; and it eventually begins a cycle when the flag stays set
    while it is idle (the real-time loop: C17 `rt_no_missed_signal`, `rt_wait_returns_on_signal`;
    an execution in which some source is never started has no such cycle and is not fair in this
    sense once the flag is set) -/
structure Exec.Fair {sys : Sys} (e : Exec sys) : Prop where
  mark : ∀ k i n, (∀ m, n ≤ m → ∃ kd v w, ((e.σ m).src k).pcs i = .admitted kd v w) →
    ∃ m, n ≤ m ∧ e.lab m = .src k (.mark i)
  pop : ∀ n, (∀ m, n ≤ m → ∃ j, (e.σ m).cpc = .at j) → ∃ m, n ≤ m ∧ e.lab m = .pop
  rearm : ∀ n, (∀ m, n ≤ m → ∃ j b, (e.σ m).cpc = .popped j b) → ∃ m, n ≤ m ∧ e.lab m = .rearm
  cycle : ∀ n, (∀ m, n ≤ m → (e.σ m).cpc = .idle ∧ (e.σ m).flag = true) → ∃ m dt, n ≤ m ∧ e.lab m = .beginCycle dt

section Live
variable {sys : Sys} (e : Exec sys)

theorem exec_reach (n : Nat) : Reach sys (e.σ n) := by
  induction n with
  | zero => exact e.init
  | succ n ih => exact .step _ ih (e.next n)

theorem exec_quiet (hc : e.Continues) (n : Nat) :
    (e.σ n).stopReq = false ∧ ∀ k, ((e.σ n).src k).closing = false := by
  induction n with
  | zero => exact ⟨hc.1, hc.2.1⟩
  | succ n ih =>
    obtain ⟨h1, h2, _⟩ := step_keeps_stop (e.next n) (hc.2.2 n)
    exact ⟨by rw [h1]; exact ih.1, fun k => by rw [h2 k]; exact ih.2 k⟩

theorem exec_dcount_mono (k : Nat) {n m : Nat} (h : n ≤ m) :
    dcount ((e.σ n).src k) ≤ dcount ((e.σ m).src k) := by
  induction m with
  | zero => have : n = 0 := by omega
            subst this; exact Nat.le_refl _
  | succ m ih =>
    by_cases hm : n ≤ m
    · exact Nat.le_trans (ih hm) (step_dcount (e.next m) k)
    · have : n = m + 1 := by omega
      subst this; exact Nat.le_refl _

theorem exec_accepted_mono (k : Nat) {n m : Nat} (h : n ≤ m) :
    ∃ t, ((e.σ m).src k).accepted = ((e.σ n).src k).accepted ++ t := by
  induction m with
  | zero => have : n = 0 := by omega
            subst this; exact ⟨[], by simp⟩
  | succ m ih =>
    by_cases hm : n ≤ m
    · obtain ⟨t, ht⟩ := ih hm
      obtain ⟨u, hu⟩ := step_accepted_mono (e.next m) k
      exact ⟨t ++ u, by rw [hu, ht]; simp⟩
    · have : n = m + 1 := by omega
      subst this; exact ⟨[], by simp⟩

/-- pending values imply a started source of the push prefix -/
theorem deque_started {s : St} (h : Reach sys s) {k : Nat} (hd : (s.src k).deque ≠ []) :
    (s.src k).started = true ∧ k < sys.n := by
  have hst : (s.src k).started = true := by
    cases hst : (s.src k).started with
    | true => rfl
    | false => exact absurd (((inv_reach h).src k).life.2.2 hst).1 hd
  exact ⟨hst, (inv_reach h).bound.1 k hst⟩

/-- progress goal for source `k`: strictly more of its values have been handed to the graph later -/
def Goal (k n : Nat) : Prop := ∃ m, n < m ∧ dcount ((e.σ n).src k) < dcount ((e.σ m).src k)

theorem goal_of_later {k n m : Nat} (h : n ≤ m) (hg : Goal e k m) : Goal e k n := by
  obtain ⟨q, hq, hlt⟩ := hg
  have := exec_dcount_mono e k h
  exact ⟨q, by omega, by omega⟩

/-- the push phase stands at source `j`: it stays there (queue `k` non-empty, flag kept if it was
    set) until the pop is taken, and the pop is taken -/
theorem run_to_pop (hc : e.Continues) (hf : e.Fair) (k j n : Nat) (F : Prop) (h1 : (e.σ n).cpc = .at j)
    (h3 : ((e.σ n).src k).deque ≠ []) (hF : F → (e.σ n).flag = true) :
    ∃ m, n ≤ m ∧ e.lab m = .pop ∧ (e.σ m).cpc = .at j ∧ ((e.σ m).src k).deque ≠ [] ∧
      (F → (e.σ m).flag = true) := by
  obtain ⟨m, hm, ht, hp1, hp2, hp3⟩ := stays_until
    (P := fun q => (e.σ q).cpc = .at j ∧ ((e.σ q).src k).deque ≠ [] ∧ (F → (e.σ q).flag = true))
    (T := fun q => e.lab q = .pop) n ⟨h1, h3, hF⟩
    (by
      intro q _ ⟨p1, p2, p3⟩ hnt
      have hnb : ∀ dt, e.lab q ≠ .beginCycle dt := by
        intro dt hl
        have := ((step_cpc (e.next q)).2.2.2 ⟨dt, hl⟩).1
        rw [p1] at this; simp at this
      have hnr : e.lab q ≠ .rearm := by
        intro hl
        obtain ⟨j', b, hb, _⟩ := (step_cpc (e.next q)).2.2.1 hl
        rw [p1] at hb; simp at hb
      refine ⟨?_, step_deque_ne (e.next q) (hc.2.2 q) k (fun hl => absurd hl hnt)
        (deque_started (exec_reach e q) p2).1 p2, fun hFF => step_flag (e.next q) hnb (p3 hFF)⟩
      rw [← p1]; exact (step_cpc (e.next q)).1 hnb hnt hnr)
    (fun hall => hf.pop n (fun m hm => ⟨j, (hall m hm).1⟩))
  exact ⟨m, hm, ht, hp1, hp2, hp3⟩

/-- between the pop of source `j` and its re-arm: the re-arm is taken, the push phase moves on to
    the next source (or ends), and the flag is set afterwards if it was set or the re-arm was owed -/
theorem run_to_rearm (hc : e.Continues) (hf : e.Fair) (k j : Nat) (b : Bool) (n : Nat) (F : Prop)
    (h1 : (e.σ n).cpc = .popped j b) (h3 : ((e.σ n).src k).deque ≠ []) (hF : F → (e.σ n).flag = true) :
    ∃ m, n ≤ m ∧ (e.σ (m + 1)).cpc = nextPc sys j ∧ ((e.σ (m + 1)).src k).deque ≠ [] ∧
      ((F ∨ b = true) → (e.σ (m + 1)).flag = true) := by
  obtain ⟨m, hm, ht, hp1, hp2, hp3⟩ := stays_until
    (P := fun q => (e.σ q).cpc = .popped j b ∧ ((e.σ q).src k).deque ≠ [] ∧ (F → (e.σ q).flag = true))
    (T := fun q => e.lab q = .rearm) n ⟨h1, h3, hF⟩
    (by
      intro q _ ⟨p1, p2, p3⟩ hnt
      have hnb : ∀ dt, e.lab q ≠ .beginCycle dt := by
        intro dt hl
        have := ((step_cpc (e.next q)).2.2.2 ⟨dt, hl⟩).1
        rw [p1] at this; simp at this
      have hnp : e.lab q ≠ .pop := by
        intro hl
        obtain ⟨j', b', hb, _⟩ := (step_cpc (e.next q)).2.1 hl
        rw [p1] at hb; simp at hb
      refine ⟨?_, step_deque_ne (e.next q) (hc.2.2 q) k (fun hl => absurd hl hnp)
        (deque_started (exec_reach e q) p2).1 p2, fun hFF => step_flag (e.next q) hnb (p3 hFF)⟩
      rw [← p1]; exact (step_cpc (e.next q)).1 hnb hnp hnt)
    (fun hall => hf.rearm n (fun m hm => ⟨j, b, (hall m hm).1⟩))
  obtain ⟨j', b', c1, c2, c3, c4, c5⟩ := (step_cpc (e.next m)).2.2.1 ht
  rw [hp1] at c1
  simp only [CPc.popped.injEq] at c1
  obtain ⟨rfl, rfl⟩ := c1
  refine ⟨m, hm, c2, by rw [c3]; exact hp2, ?_⟩
  rintro (hFF | hb)
  · exact c4 (hp3 hFF)
  · exact c5 (exec_quiet e hc m).1 hb

/-- one source further: the pop of `j` (which delivers when `j = k`), its re-arm, then source `j+1` -/
theorem goal_at_step (hc : e.Continues) (hf : e.Fair) (k j n : Nat) (hjk : j ≤ k)
    (ih : j < k → ∀ n', (e.σ n').cpc = .at (j + 1) → ((e.σ n').src k).deque ≠ [] → Goal e k n')
    (h1 : (e.σ n).cpc = .at j) (h3 : ((e.σ n).src k).deque ≠ []) : Goal e k n := by
  obtain ⟨m, hm, ht, hp1, hp2, _⟩ := run_to_pop e hc hf k j n False h1 h3 (fun h => h.elim)
  have hnext := e.next m
  rw [ht] at hnext
  by_cases hj : j = k
  · subst hj
    have := step_pop_delivers hnext hp1 hp2
    have := exec_dcount_mono e j hm
    exact ⟨m + 1, by omega, by omega⟩
  · have hlt : j < k := by omega
    obtain ⟨j', b, c1, c2, _, c4⟩ := (step_cpc hnext).2.1 rfl
    rw [hp1] at c1
    simp only [CPc.at.injEq] at c1
    subst c1
    have hd : ((e.σ (m + 1)).src k).deque ≠ [] := by rw [c4 k (by omega)]; exact hp2
    obtain ⟨m2, hm2, d1, d2, _⟩ := run_to_rearm e hc hf k j b (m + 1) False c2 hd (fun h => h.elim)
    have hkn := (deque_started (exec_reach e (m2 + 1)) d2).2
    have hpc : (e.σ (m2 + 1)).cpc = .at (j + 1) := by
      rw [d1]; simp [nextPc, show j + 1 < sys.n by omega]
    exact goal_of_later e (by omega) (ih hlt (m2 + 1) hpc d2)

/-- the push phase has not passed source `k` yet and `k` has values pending: it gets there and delivers -/
theorem goal_at (hc : e.Continues) (hf : e.Fair) (k : Nat) :
    ∀ d j n, k - j = d → j ≤ k → (e.σ n).cpc = .at j → ((e.σ n).src k).deque ≠ [] → Goal e k n := by
  intro d
  induction d with
  | zero =>
    intro j n hd hjk h1 h3
    exact goal_at_step e hc hf k j n hjk (fun hlt => by omega) h1 h3
  | succ d ih =>
    intro j n hd hjk h1 h3
    exact goal_at_step e hc hf k j n hjk (fun hlt n' h1' h3' => ih (j + 1) n' (by omega) (by omega) h1' h3') h1 h3

/-- idle with the flag set and values pending on `k`: a cycle begins at source 0, then `goal_at` -/
theorem goal_idle_flag (hc : e.Continues) (hf : e.Fair) (k n : Nat) (h1 : (e.σ n).cpc = .idle)
    (h2 : (e.σ n).flag = true) (h3 : ((e.σ n).src k).deque ≠ []) : Goal e k n := by
  obtain ⟨m, hm, ⟨dt, ht⟩, hp1, hp2, hp3⟩ := stays_until
    (P := fun q => (e.σ q).cpc = .idle ∧ (e.σ q).flag = true ∧ ((e.σ q).src k).deque ≠ [])
    (T := fun q => ∃ dt, e.lab q = .beginCycle dt) n ⟨h1, h2, h3⟩
    (by
      intro q _ ⟨p1, p2, p3⟩ hnt
      have hnb : ∀ dt, e.lab q ≠ .beginCycle dt := fun dt hl => hnt ⟨dt, hl⟩
      have hnp : e.lab q ≠ .pop := by
        intro hl
        obtain ⟨j', b', hb, _⟩ := (step_cpc (e.next q)).2.1 hl
        rw [p1] at hb; simp at hb
      have hnr : e.lab q ≠ .rearm := by
        intro hl
        obtain ⟨j', b, hb, _⟩ := (step_cpc (e.next q)).2.2.1 hl
        rw [p1] at hb; simp at hb
      refine ⟨?_, step_flag (e.next q) hnb p2,
        step_deque_ne (e.next q) (hc.2.2 q) k (fun hl => absurd hl hnp) (deque_started (exec_reach e q) p3).1 p3⟩
      rw [← p1]; exact (step_cpc (e.next q)).1 hnb hnp hnr)
    (fun hall => by
      obtain ⟨m, dt, hm, hl⟩ := hf.cycle n (fun m hm => ⟨(hall m hm).1, (hall m hm).2.1⟩)
      exact ⟨m, hm, dt, hl⟩)
  obtain ⟨_, c2, c3⟩ := (step_cpc (e.next m)).2.2.2 ⟨dt, ht⟩
  have hkn := (deque_started (exec_reach e m) hp3).2
  have hg := goal_at e hc hf k k 0 (m + 1) (by omega) (by omega) (c3 (by omega) hp2) (by rw [c2]; exact hp3)
  exact goal_of_later e (by omega) hg

/-- how far the evaluation thread is from the end of its push phase -/
def cmeasure (sys : Sys) : CPc → Nat
  | .idle => 0
  | .at j => 2 * (sys.n - j)
  | .popped j _ => 2 * (sys.n - j) - 1

/-- the flag is set (or the re-arm that sets it is owed) and source `k` has values pending: wherever
    the evaluation thread is — even past source `k` in the current cycle — it delivers from `k`:
    the rest of the cycle cannot clear the flag, so a further cycle follows -/
theorem goal_flag (hc : e.Continues) (hf : e.Fair) (k : Nat) :
    ∀ μ n, cmeasure sys (e.σ n).cpc ≤ μ → ((e.σ n).flag = true ∨ Owes (e.σ n).cpc) →
      ((e.σ n).src k).deque ≠ [] → Goal e k n := by
  intro μ
  induction μ with
  | zero =>
    intro n hμ hfl hd
    have hb := (inv_reach (exec_reach e n)).bound
    cases hcpc : (e.σ n).cpc with
    | idle =>
      rcases hfl with hfl | ⟨j, hfl⟩
      · exact goal_idle_flag e hc hf k n hcpc hfl hd
      · rw [hcpc] at hfl; simp at hfl
    | «at» j =>
      have := hb.2.1 j hcpc
      rw [hcpc] at hμ; simp only [cmeasure] at hμ; omega
    | popped j b =>
      have := hb.2.2 j b hcpc
      rw [hcpc] at hμ; simp only [cmeasure] at hμ; omega
  | succ μ ih =>
    intro n hμ hfl hd
    have hb := (inv_reach (exec_reach e n)).bound
    cases hcpc : (e.σ n).cpc with
    | idle =>
      rcases hfl with hfl | ⟨j, hfl⟩
      · exact goal_idle_flag e hc hf k n hcpc hfl hd
      · rw [hcpc] at hfl; simp at hfl
    | «at» j =>
      have hjn := hb.2.1 j hcpc
      by_cases hjk : j ≤ k
      · exact goal_at e hc hf k (k - j) j n rfl hjk hcpc hd
      · have hflag : (e.σ n).flag = true := by
          rcases hfl with hfl | ⟨j', hfl⟩
          · exact hfl
          · rw [hcpc] at hfl; simp at hfl
        obtain ⟨m, hm, ht, hp1, hp2, hp3⟩ := run_to_pop e hc hf k j n True hcpc hd (fun _ => hflag)
        have hnext := e.next m
        rw [ht] at hnext
        obtain ⟨j', b, c1, c2, c3, c4⟩ := (step_cpc hnext).2.1 rfl
        rw [hp1] at c1
        simp only [CPc.at.injEq] at c1
        subst c1
        have hd' : ((e.σ (m + 1)).src k).deque ≠ [] := by rw [c4 k (by omega)]; exact hp2
        have hg := ih (m + 1) (by rw [c2]; rw [hcpc] at hμ; simp only [cmeasure] at hμ ⊢; omega)
          (Or.inl (by rw [c3]; exact hp3 trivial)) hd'
        exact goal_of_later e (by omega) hg
    | popped j b =>
      have hjn := hb.2.2 j b hcpc
      obtain ⟨m, hm, d1, d2, d3⟩ := run_to_rearm e hc hf k j b n ((e.σ n).flag = true) hcpc hd id
      have hflag : (e.σ (m + 1)).flag = true := by
        apply d3
        rcases hfl with hfl | ⟨j', hfl⟩
        · exact Or.inl hfl
        · rw [hcpc] at hfl
          simp only [CPc.popped.injEq] at hfl
          exact Or.inr hfl.2
      have hg := ih (m + 1)
        (by
          rw [d1]; rw [hcpc] at hμ
          simp only [cmeasure] at hμ
          simp only [nextPc]
          split <;> simp only [cmeasure] <;> omega)
        (Or.inl hflag) d2
      exact goal_of_later e (by omega) hg

/-- if nothing of source `k` was delivered in between, its queue is still non-empty -/
theorem deque_ne_of_no_delivery (hc : e.Continues) (k : Nat) {n m : Nat} (h : n ≤ m)
    (hd : ((e.σ n).src k).deque ≠ [])
    (heq : dcount ((e.σ m).src k) = dcount ((e.σ n).src k)) : ((e.σ m).src k).deque ≠ [] := by
  induction m with
  | zero => have : n = 0 := by omega
            subst this; exact hd
  | succ m ih =>
    by_cases hm : n ≤ m
    · have hmono1 := exec_dcount_mono e k hm
      have hmono2 := step_dcount (e.next m) k
      have heqm : dcount ((e.σ m).src k) = dcount ((e.σ n).src k) := by omega
      have hdm := ih hm heqm
      apply step_deque_ne (e.next m) (hc.2.2 m) k ?_ (deque_started (exec_reach e m) hdm).1 hdm
      intro hl hcp
      have hnext := e.next m
      rw [hl] at hnext
      have := step_pop_delivers hnext hcp hdm
      omega
    · have : n = m + 1 := by omega
      subst this; exact hd

/-- **progress**: whenever source `k` holds pending values, strictly more of ITS values are
    eventually handed to the graph — whatever the other sources and their producers do -/
theorem progress_n (hc : e.Continues) (hf : e.Fair) (k n : Nat) (hd : ((e.σ n).src k).deque ≠ []) :
    Goal e k n := by
  rcases no_lost_wakeup_n (exec_reach e n) k hd with h | ⟨k', i, kd, v, h⟩ | ⟨j, h, hjk⟩ | ⟨j, b, h, hb⟩ | h
  · exact goal_flag e hc hf k _ n (Nat.le_refl _) (Or.inl h) hd
  · -- a producer (of any source) owes its mark: it is eventually performed and sets the shared flag
    obtain ⟨m, hm, ht, hp⟩ := stays_until (P := fun q => ((e.σ q).src k').pcs i = .admitted kd v true)
      (T := fun q => e.lab q = .src k' (.mark i)) n h
      (fun q _ p hnt => step_pcs_admitted (e.next q) k' i kd v true hnt p)
      (fun hall => hf.mark k' i n (fun m hm => ⟨kd, v, true, hall m hm⟩))
    have hnext := e.next m
    rw [ht] at hnext
    have c1 := step_mark hnext hp (exec_quiet e hc m).1
    have hmono := exec_dcount_mono e k (show n ≤ m + 1 by omega)
    by_cases heq : dcount ((e.σ (m + 1)).src k) = dcount ((e.σ n).src k)
    · have hdm := deque_ne_of_no_delivery e hc k (show n ≤ m + 1 by omega) hd heq
      exact goal_of_later e (by omega) (goal_flag e hc hf k _ (m + 1) (Nat.le_refl _) (Or.inl c1) hdm)
    · exact ⟨m + 1, by omega, by omega⟩
  · exact goal_at e hc hf k (k - j) j n rfl hjk h hd
  · rcases hb with hb | hb
    · subst hb
      exact goal_flag e hc hf k _ n (Nat.le_refl _) (Or.inr ⟨j, h⟩) hd
    · obtain ⟨m, hm, d1, d2, _⟩ := run_to_rearm e hc hf k j b n False h hd (fun x => x.elim)
      have hkn := (deque_started (exec_reach e (m + 1)) d2).2
      have hpc : (e.σ (m + 1)).cpc = .at (j + 1) := by
        rw [d1]; simp [nextPc, show j + 1 < sys.n by omega]
      exact goal_of_later e (by omega) (goal_at e hc hf k (k - (j + 1)) (j + 1) (m + 1) rfl (by omega) hpc d2)
  · rw [(exec_quiet e hc n).1] at h; simp at h

/-- **C16 (multi-source, ceiling).** Every accepted value of EVERY source is delivered if the run
    continues long enough: in every infinite execution without a stop request or a stop of a push
    source, under weak fairness of the threads' steps, for every source `k` and every position `j`
    of its accepted sequence at time `n` there is a later time at which at least `j+1` values of
    source `k` have been handed to the graph — and the `j`-th of them is exactly the `j`-th value
    source `k` accepted. -/
theorem eventually_delivered_n (k : Nat) (hp : (sys.cfg k).policy ≠ .conflating) (hc : e.Continues) (hf : e.Fair)
    (n j : Nat) (hj : j < ((e.σ n).src k).accepted.length) :
    ∃ m, n ≤ m ∧ j < (flat ((e.σ m).src k).delivered).length ∧
      (flat ((e.σ m).src k).delivered)[j]? = ((e.σ n).src k).accepted[j]? := by
  have key : ∀ q n, j + 1 - dcount ((e.σ n).src k) ≤ q → j < ((e.σ n).src k).accepted.length →
      ∃ m, n ≤ m ∧ j < dcount ((e.σ m).src k) := by
    intro q
    induction q with
    | zero => intro n hq _; exact ⟨n, Nat.le_refl _, by omega⟩
    | succ q ih =>
      intro n hq hj
      by_cases hdone : j < dcount ((e.σ n).src k)
      · exact ⟨n, Nat.le_refl _, hdone⟩
      · have hr := exec_reach e n
        have hst : ((e.σ n).src k).started = true := by
          cases hs : ((e.σ n).src k).started with
          | true => rfl
          | false =>
            have := (((inv_reach hr).src k).life.2.2 hs).2.1
            rw [this] at hj; simp at hj
        have hacc := running_accepting hr k hst ((exec_quiet e hc n).2 k)
        have hne : ((e.σ n).src k).deque ≠ [] :=
          undelivered_pending hr k hp hacc (by simp only [dcount] at hdone; omega)
        obtain ⟨m, hm, hlt⟩ := progress_n e hc hf k n hne
        obtain ⟨t, ht⟩ := exec_accepted_mono e k (show n ≤ m by omega)
        obtain ⟨m', hm', hres⟩ := ih m (by omega) (by rw [ht]; simp; omega)
        exact ⟨m', by omega, hres⟩
  obtain ⟨m, hm, hlt⟩ := key (j + 1) n (by omega) hj
  refine ⟨m, hm, hlt, ?_⟩
  obtain ⟨t, ht⟩ := delivered_prefix_of_accepted_n (exec_reach e m) k hp
  obtain ⟨u, hu⟩ := exec_accepted_mono e k hm
  have h1 : ((e.σ m).src k).accepted[j]? = (flat ((e.σ m).src k).delivered)[j]? := by
    rw [← ht]; exact List.getElem?_append_left hlt
  have h2 : ((e.σ m).src k).accepted[j]? = ((e.σ n).src k).accepted[j]? := by
    rw [hu]; exact List.getElem?_append_left hj
  rw [← h1, h2]

end Live

/-! ### conflating with a COLLECTION output: the accumulator of deltas -/

/-- the collection-conflating invariant holds for every `isDict` source in every reachable state -/
theorem dinv_reach {sys : Sys} {s : St} (h : Reach sys s) (k : Nat) (hd : isDict (sys.cfg k) = true) :
    DInv (s.src k) := by
  induction h with
  | init => exact dinv_init
  | step l hr hs ih =>
    cases l with
    | src j l =>
      obtain ⟨x, m, hl, _, _, e1, e2, _⟩ := step_src hs
      by_cases hk : k = j
      · subst hk; rw [e1]; exact lstep_dinv hd ((inv_reach hr).src k) ih hl
      · rw [e2 k hk]; exact ih
    | beginCycle dt =>
      obtain ⟨_, h2, _⟩ := (step_cpc hs).2.2.2 ⟨dt, rfl⟩
      rw [h2]; exact ih
    | pop =>
      simp only [step] at hs
      split at hs
      · rename_i j hc
        simp only [Option.some.injEq] at hs; subst hs
        by_cases hk : k = j
        · subst hk; simp only [setSrc_same]; exact popL_dinv _ hd ih
        · simp only [setSrc_other _ _ _ _ hk]; exact ih
      · simp at hs
    | rearm =>
      obtain ⟨j, b, _, _, h2, _⟩ := (step_cpc hs).2.2.1 rfl
      rw [h2]; exact ih
    | reqStop => simp only [step, Option.some.injEq] at hs; subst hs; exact ih

/-- **C16 (conflating collection) — the lemma seed s51 falsifies.**  An accepted send never clears
    `pending`: whatever its delta (in particular a delta WITHOUT effect on the accumulator — a lenient
    removal of an absent key, an empty delta on a valid accumulator), a source that is pending stays
    pending with the same marker, and a delta without effect leaves the accumulator untouched.  For
    EVERY source state `x` (reachable or not). -/
theorem noop_send_keeps_pending (x : Src) (i : Nat) (k : SendKind) (hp : x.deque ≠ []) :
    (x.acceptD i k).deque = x.deque ∧ (x.acceptD i k).deque ≠ [] ∧
    ((applyDelta x.acc (x.pay i)).2 = false → (x.acceptD i k).acc = x.acc) := by
  have he : x.deque.isEmpty = false := by
    cases hx : x.deque with
    | nil => exact absurd hx hp
    | cons _ _ => rfl
  refine ⟨by simp [Src.acceptD, he], by simp [Src.acceptD, he, hp], ?_⟩
  intro hno
  simp only [Src.acceptD, applyDelta] at hno ⊢
  split at hno
  · simp at hno
  · rename_i hne; simp [hne]

/-- … as a statement about the atomic admission step of a collection-conflating source: no `admitQ`
    (accepted or refused) takes a pending source out of `pending` -/
theorem admission_keeps_pending {cfg : Cfg} (hd : isDict cfg = true) {sr : Bool} {x x' : Src} {m : Bool} {i : Nat}
    (hs : lstep cfg sr x (.admitQ i) = some (x', m)) (hp : x.deque ≠ []) : x'.deque = x.deque := by
  lstep_cases hs <;> first
    | rfl
    | exact (noop_send_keeps_pending x i _ hp).1
    | (exfalso; simp_all)

/-- **C16 (conflating collection).** `pending` (⇔ `pending_items = 1`) holds exactly when some delta
    accepted since the last take had effect: an accepted effective send that has not been delivered is
    always counted as pending, and a window of no-ops is not. -/
theorem conflating_pending_iff_effective {sys : Sys} {s : St} (h : Reach sys s) (k : Nat)
    (hd : isDict (sys.cfg k) = true) :
    (s.src k).deque ≠ [] ↔ (foldWindow (s.src k).window).2 = true :=
  (dinv_reach h k hd).pend

/-- **C16 (conflating collection).** Every value handed to the graph is the merged state of its
    window: the fold (`foldWindow`, from a fresh accumulator, no-ops skipped, removals before sets) of
    exactly the deltas accepted in that window, in admission order; the accumulator in between is the
    fold of the current window; and a delivery only happens for a window with an effective delta. -/
theorem conflating_delivered_is_window_fold {sys : Sys} {s : St} (h : Reach sys s) (k : Nat)
    (hd : isDict (sys.cfg k) = true) :
    (∀ e ∈ (s.src k).cdelivered, e.2.2 = (foldWindow e.2.1).1.getD [] ∧ (foldWindow e.2.1).2 = true) ∧
    (s.src k).acc = (foldWindow (s.src k).window).1 :=
  ⟨(dinv_reach h k hd).hist, (dinv_reach h k hd).acc⟩

/-- **C16 (conflating collection).** Nothing accepted is lost or duplicated: the accepted deltas are,
    in admission order, exactly the deltas of the delivered windows followed by those of the current
    window (followed by what a stop dropped; nothing while the source is accepting). -/
theorem conflating_accepted_conserved {sys : Sys} {s : St} (h : Reach sys s) (k : Nat)
    (hd : isDict (sys.cfg k) = true) :
    ∃ dropped, (s.src k).caccepted.map (·.2) =
        ((s.src k).cdelivered.map (·.2.1)).flatten ++ (s.src k).window ++ dropped ∧
      ((s.src k).accepting = true → dropped = []) :=
  (dinv_reach h k hd).cons

/-- **C16 (conflating collection): no lost wake-up.**  While an accepted effective delta of a
    collection-conflating source is undelivered, one of the wake-up reasons of `no_lost_wakeup_n` holds. -/
theorem no_lost_wakeup_dict {sys : Sys} {s : St} (h : Reach sys s) (k : Nat) (hd : isDict (sys.cfg k) = true)
    (heff : (foldWindow (s.src k).window).2 = true) :
    s.flag = true ∨ (∃ k' i kd v, (s.src k').pcs i = .admitted kd v true) ∨
    (∃ j, s.cpc = .at j ∧ j ≤ k) ∨ (∃ j m, s.cpc = .popped j m ∧ (m = true ∨ j < k)) ∨
    s.stopReq = true :=
  no_lost_wakeup_n h k ((dinv_reach h k hd).pend.mpr heff)

/-- **C16 (conflating collection): an accepted EFFECTIVE send is reflected in the next delivery —
    safety part.**  When the evaluation thread takes from a collection-conflating source `k` whose
    current window holds an effective delta, it hands over, stamped with the cycle time, exactly the
    fold of that whole window (which contains the effective delta and everything accepted after it),
    and a fresh window begins. -/
theorem take_delivers_window {sys : Sys} {s s' : St} (h : Reach sys s) (k : Nat) (hd : isDict (sys.cfg k) = true)
    (hc : s.cpc = .at k) (hs : step sys s .pop = some s')
    (heff : (foldWindow (s.src k).window).2 = true) :
    (s'.src k).cdelivered = (s.src k).cdelivered ++
      [(s.time, (s.src k).window, (foldWindow (s.src k).window).1.getD [])] ∧
    (s'.src k).window = [] ∧ (s'.src k).deque = [] := by
  have hdi := dinv_reach h k hd
  simp only [step, hc, Option.some.injEq] at hs
  subst hs
  simp only [setSrc_same]
  obtain ⟨h1, h2, h3, _⟩ := popL_dict_delivers s.time hd hdi (hdi.pend.mpr heff)
  exact ⟨h1, h2, h3⟩

/-! #### … and the liveness part -/

theorem lstep_cwindow {cfg : Cfg} {sr : Bool} {x x' : Src} {m : Bool} {l : SLabel}
    (hs : lstep cfg sr x l = some (x', m)) (hl : isStopSLabel l = false) (hst : x.started = true) :
    x'.cdelivered = x.cdelivered ∧ ∃ t, x'.window = x.window ++ t := by
  cases l <;> simp [isStopSLabel] at hl <;> lstep_cases hs <;>
    (try (exfalso; simp_all; done)) <;>
    (first
      | exact ⟨rfl, _, rfl⟩
      | (refine ⟨rfl, [], ?_⟩; simp [Src.refuse, Src.accept]))

/-- what a step does to the window and the delivered history of a collection-conflating source -/
theorem step_cwindow {sys : Sys} {s s' : St} {l : Label} (hs : step sys s l = some s') (hl : isStopLabel l = false)
    (k : Nat) (hd : isDict (sys.cfg k) = true) (hdi : DInv (s.src k)) (hst : (s.src k).started = true) :
    ((s'.src k).cdelivered = (s.src k).cdelivered ∧ ∃ t, (s'.src k).window = (s.src k).window ++ t) ∨
    ((s'.src k).cdelivered = (s.src k).cdelivered ++
      [(s.time, (s.src k).window, (foldWindow (s.src k).window).1.getD [])]) := by
  cases l with
  | src j l =>
    obtain ⟨x, m, hls, _, _, e1, e2, _⟩ := step_src hs
    simp only [isStopLabel] at hl
    left
    by_cases hk : k = j
    · subst hk; rw [e1]; exact lstep_cwindow hls hl hst
    · rw [e2 k hk]; exact ⟨rfl, [], by simp⟩
  | beginCycle dt =>
    obtain ⟨_, h2, _⟩ := (step_cpc hs).2.2.2 ⟨dt, rfl⟩
    rw [h2]; exact Or.inl ⟨rfl, [], by simp⟩
  | pop =>
    simp only [step] at hs
    split at hs
    · rename_i j hc
      simp only [Option.some.injEq] at hs; subst hs
      by_cases hk : k = j
      · subst hk
        simp only [setSrc_same]
        by_cases hp : (s.src k).deque = []
        · rw [popL_dict_idle _ hp]; exact Or.inl ⟨rfl, [], by simp⟩
        · exact Or.inr (popL_dict_delivers s.time hd hdi hp).1
      · simp only [setSrc_other _ _ _ _ hk]; exact Or.inl ⟨trivial, [], by simp⟩
    · simp at hs
  | rearm =>
    obtain ⟨j, b, _, _, h2, _⟩ := (step_cpc hs).2.2.1 rfl
    rw [h2]; exact Or.inl ⟨rfl, [], by simp⟩
  | reqStop => simp [isStopLabel] at hl

section LiveDict
variable {sys : Sys} (e : Exec sys)

theorem exec_started (hc : e.Continues) (k : Nat) {n m : Nat} (h : n ≤ m)
    (hst : ((e.σ n).src k).started = true) : ((e.σ m).src k).started = true := by
  induction m with
  | zero => have : n = 0 := by omega
            subst this; exact hst
  | succ m ih =>
    by_cases hm : n ≤ m
    · exact (step_keeps_stop (e.next m) (hc.2.2 m)).2.2.1 k (ih hm)
    · have : n = m + 1 := by omega
      subst this; exact hst

theorem exec_delivered_mono (k : Nat) {n m : Nat} (h : n ≤ m) :
    ∃ t, ((e.σ m).src k).delivered = ((e.σ n).src k).delivered ++ t := by
  induction m with
  | zero => have : n = 0 := by omega
            subst this; exact ⟨[], by simp⟩
  | succ m ih =>
    by_cases hm : n ≤ m
    · obtain ⟨t, ht⟩ := ih hm
      rcases step_delivered (e.next m) k with h1 | ⟨_, _, vs, _, h2, _⟩
      · exact ⟨t, by rw [h1, ht]⟩
      · exact ⟨t ++ [((e.σ m).time, vs)], by rw [h2, ht]; simp⟩
    · have : n = m + 1 := by omega
      subst this; exact ⟨[], by simp⟩

/-- the window of source `k` at step `n` is carried, as a prefix, either by the current window (no
    take yet) or by the window of the FIRST entry delivered after `n` -/
theorem exec_window_link (hc : e.Continues) (k : Nat) (hd : isDict (sys.cfg k) = true) (n : Nat)
    (hst : ((e.σ n).src k).started = true) (m : Nat) (h : n ≤ m) :
    (((e.σ m).src k).cdelivered.length = ((e.σ n).src k).cdelivered.length ∧
      ((e.σ n).src k).window <+: ((e.σ m).src k).window) ∨
    (∃ en, ((e.σ m).src k).cdelivered[((e.σ n).src k).cdelivered.length]? = some en ∧
      ((e.σ n).src k).window <+: en.2.1) := by
  induction m with
  | zero => have : n = 0 := by omega
            subst this; exact Or.inl ⟨rfl, List.prefix_refl _⟩
  | succ m ih =>
    by_cases hm : n ≤ m
    · have hdi := dinv_reach (exec_reach e m) k hd
      have hstm := exec_started e hc k hm hst
      rcases step_cwindow (e.next m) (hc.2.2 m) k hd hdi hstm with ⟨c1, t, c2⟩ | c1
      · rcases ih hm with ⟨i1, i2⟩ | ⟨en, i1, i2⟩
        · left; rw [c1, c2]; exact ⟨i1, List.IsPrefix.trans i2 (List.prefix_append _ _)⟩
        · right; rw [c1]; exact ⟨en, i1, i2⟩
      · rcases ih hm with ⟨i1, i2⟩ | ⟨en, i1, i2⟩
        · right
          rw [c1]
          refine ⟨((e.σ m).time, ((e.σ m).src k).window, (foldWindow ((e.σ m).src k).window).1.getD []), ?_, i2⟩
          rw [← i1]; simp
        · right
          rw [c1]
          refine ⟨en, ?_, i2⟩
          have hlt : ((e.σ n).src k).cdelivered.length < ((e.σ m).src k).cdelivered.length := by
            apply Classical.byContradiction
            intro hge
            rw [List.getElem?_eq_none (by omega)] at i1
            simp at i1
          rw [List.getElem?_append_left hlt]; exact i1
    · have : n = m + 1 := by omega
      subst this; exact Or.inl ⟨rfl, List.prefix_refl _⟩

/-- **C16 (conflating collection): an accepted EFFECTIVE send is reflected in the next delivery.**
    In every infinite execution without stop, under weak fairness: if at step `n` the current window of
    the collection-conflating source `k` holds a delta that had effect (i.e. an accepted effective send
    is undelivered), then later a further entry is delivered by source `k` — the NEXT one after those
    delivered at `n` — whose window starts with the window at `n` (so it contains that delta and all
    accepted before it since the last take) and whose value is the fold of that window. -/
theorem conflating_accepted_effective_delivered (k : Nat) (hd : isDict (sys.cfg k) = true)
    (hc : e.Continues) (hf : e.Fair) (n : Nat)
    (heff : (foldWindow ((e.σ n).src k).window).2 = true) :
    ∃ m, n < m ∧ ∃ en, ((e.σ m).src k).cdelivered[((e.σ n).src k).cdelivered.length]? = some en ∧
      ((e.σ n).src k).window <+: en.2.1 ∧ en.2.2 = (foldWindow en.2.1).1.getD [] := by
  have hdn := dinv_reach (exec_reach e n) k hd
  have hp : ((e.σ n).src k).deque ≠ [] := hdn.pend.mpr heff
  have hst := (deque_started (exec_reach e n) hp).1
  obtain ⟨m, hm, hlt⟩ := progress_n e hc hf k n hp
  have hdm := dinv_reach (exec_reach e m) k hd
  have hlen : ((e.σ n).src k).cdelivered.length < ((e.σ m).src k).cdelivered.length := by
    rw [← hdn.count, ← hdm.count]
    obtain ⟨t, ht⟩ := exec_delivered_mono e k (show n ≤ m by omega)
    rw [ht]
    simp only [dcount, ht, flat_append, List.length_append] at hlt ⊢
    have : t ≠ [] := by
      intro h0; subst h0; simp [flat] at hlt
    have : t.length ≠ 0 := by
      intro h0; exact this (List.eq_nil_of_length_eq_zero h0)
    omega
  rcases exec_window_link e hc k hd n hst m (by omega) with ⟨i1, _⟩ | ⟨en, i1, i2⟩
  · omega
  · refine ⟨m, hm, en, i1, i2, ?_⟩
    exact (hdm.hist en (List.mem_of_getElem? i1)).1

end LiveDict

/-! ### the seeded variant: sampling the flag per source loses a wake-up -/

theorem reach_runLabels (sys : Sys) (s : St) (h : Reach sys s) (ls : List Label) : Reach sys (runLabels sys s ls) := by
  induction ls generalizing s with
  | nil => exact h
  | cons l ls ih =>
    simp only [runLabels]
    cases hs : step sys s l with
    | none => exact ih s h
    | some s' => exact ih s' (.step l h hs)

theorem reachPerSource_run (sys : Sys) (s : St) (h : ReachPerSource sys s) (ls : List Label) :
    ReachPerSource sys (runPerSource sys s ls) := by
  induction ls generalizing s with
  | nil => exact h
  | cons l ls ih =>
    simp only [runPerSource]
    cases hs : stepPerSource sys s l with
    | none => exact ih s h
    | some s' => exact ih s' (.step l h hs)

/-- two unbounded queue sources -/
def sys2 : Sys := { n := 2, cfg := fun _ => {} }

/-- a whole `try_send` of value `v` to source `k` by its producer `i` -/
def sendL (k i v : Nat) : List Label :=
  [.src k (.enter i .try_ v), .src k (.check i), .src k (.admitQ i), .src k (.mark i)]

/-- the seeded scenario: both sources started; 1 and 2 are sent to source 0, 10 to source 1 (all sends
    return); then ONE evaluation cycle: source 0 pops 1 and re-arms (2 is still pending), source 1 pops 10 -/
def lostLabels : List Label :=
  [.src 0 .start, .src 1 .start] ++ sendL 0 0 1 ++ sendL 0 0 2 ++ sendL 1 0 10 ++
  [.beginCycle 0, .pop, .rearm, .pop, .rearm]

/-- … under per-source sampling of the flag (the seeded code) -/
def lostSt : St := runPerSource sys2 {} lostLabels
/-- … and under the real code (one reset per cycle) -/
def keptSt : St := runLabels sys2 {} lostLabels

theorem lostLabels_enters (k i : Nat) (h : ¬(i = 0 ∧ (k = 0 ∨ k = 1))) :
    ∀ l ∈ lostLabels, l.entersBy k i = false := by
  simp [lostLabels, sendL, Label.entersBy, SLabel.entersBy]
  omega

theorem lostSt_quiet : ∀ k i, (lostSt.src k).pcs i = .idle := by
  intro k i
  by_cases h : i = 0 ∧ (k = 0 ∨ k = 1)
  · obtain ⟨rfl, rfl | rfl⟩ := h <;> decide
  · exact runPerSource_pcs_idle sys2 k i lostLabels (lostLabels_enters k i h) {} rfl

/-- the steps of the evaluation thread -/
def isConsumerLabel : Label → Bool
  | .beginCycle _ | .pop | .rearm => true
  | _ => false

/-- with the flag down and the loop idle, the evaluation thread on its own changes no source -/
theorem asleep_stays (sys : Sys) (ls : List Label) (hl : ∀ l ∈ ls, isConsumerLabel l = true) (s : St)
    (hf : s.flag = false) (hc : s.cpc = .idle) : (runPerSource sys s ls).src = s.src := by
  induction ls generalizing s with
  | nil => rfl
  | cons l ls ih =>
    have hl' : ∀ l' ∈ ls, isConsumerLabel l' = true := fun l' h => hl l' (List.mem_cons_of_mem _ h)
    have hl0 := hl l (List.mem_cons_self ..)
    simp only [runPerSource]
    cases hs : stepPerSource sys s l with
    | none => exact ih hl' s hf hc
    | some s' =>
      have key : s'.flag = false ∧ s'.cpc = .idle ∧ s'.src = s.src := by
        cases l with
        | src k l => simp [isConsumerLabel] at hl0
        | reqStop => simp [isConsumerLabel] at hl0
        | pop => simp [stepPerSource, hc] at hs
        | rearm => simp [stepPerSource, step, hc] at hs
        | beginCycle dt =>
          simp only [stepPerSource, step, hc, hf] at hs
          split at hs
          · simp at hs
          · split at hs
            · simp only [Option.some.injEq] at hs; subst hs; exact ⟨by simp, by simp, rfl⟩
            · simp only [Option.some.injEq] at hs; subst hs; exact ⟨rfl, by simp, rfl⟩
      rw [ih hl' s' key.1 key.2.1, key.2.2]

/-- **Counter-lemma (seeded defect s36).**  If the wake flag is sampled and reset once PER SOURCE
    inside the push phase instead of once before it, a wake-up is lost: there is a reachable state
    (two unbounded queue sources, the schedule `lostLabels`) in which source 0 has accepted `[1, 2]`
    and delivered `[1]` — value 2 is pending, the source is running — while the flag is down, the
    evaluation thread is idle, no stop was requested and EVERY producer of every source has returned:
    every disjunct of `no_lost_wakeup_n` is false.  The evaluation thread alone never delivers the
    value, however many cycles it starts. -/
theorem per_source_sampling_loses_wakeup :
    ∃ (sys : Sys) (s : St), ReachPerSource sys s ∧
      (s.src 0).accepted = [(0, 1), (0, 2)] ∧ flat (s.src 0).delivered = [(0, 1)] ∧
      (s.src 0).deque = [(0, 2)] ∧ (s.src 0).accepting = true ∧
      s.flag = false ∧ s.cpc = .idle ∧ s.stopReq = false ∧ (∀ k i, (s.src k).pcs i = .idle) ∧
      (∀ ls : List Label, (∀ l ∈ ls, isConsumerLabel l = true) →
        flat ((runPerSource sys s ls).src 0).delivered = [(0, 1)]) := by
  refine ⟨sys2, lostSt, reachPerSource_run _ _ .init _, by decide, by decide, by decide, by decide, by decide,
    by decide, by decide, lostSt_quiet, ?_⟩
  intro ls hl
  rw [asleep_stays sys2 ls hl lostSt (by decide) (by decide)]
  decide

/-- the same schedule under the real code (`step`: one reset per cycle): source 0's re-arm survives
    the evaluation of source 1, the cycle ends with the flag SET, and the next cycle delivers 2 -/
theorem one_reset_per_cycle_keeps_wakeup :
    Reach sys2 keptSt ∧ (keptSt.src 0).deque = [(0, 2)] ∧ keptSt.flag = true ∧ keptSt.cpc = .idle ∧
    flat ((runLabels sys2 keptSt [.beginCycle 0, .pop, .rearm, .pop, .rearm]).src 0).delivered = [(0, 1), (0, 2)] :=
  ⟨reach_runLabels _ _ .init _, by decide, by decide, by decide, by decide⟩

/-! ### the seeded variant s51: the conflating `pending` flag assigned instead of OR-ed -/

theorem reachS51_run (sys : Sys) (s : St) (h : ReachS51 sys s) (ls : List Label) : ReachS51 sys (runS51 sys s ls) := by
  induction ls generalizing s with
  | nil => exact h
  | cons l ls ih =>
    simp only [runS51]
    cases hs : stepS51 sys s l with
    | none => exact ih s h
    | some s' => exact ih s' (.step l h hs)

/-- with the flag down and the loop idle, the evaluation thread on its own changes no source -/
theorem asleep_stays_step (sys : Sys) (ls : List Label) (hl : ∀ l ∈ ls, isConsumerLabel l = true) (s : St)
    (hf : s.flag = false) (hc : s.cpc = .idle) : (runLabels sys s ls).src = s.src := by
  induction ls generalizing s with
  | nil => rfl
  | cons l ls ih =>
    have hl' : ∀ l' ∈ ls, isConsumerLabel l' = true := fun l' h => hl l' (List.mem_cons_of_mem _ h)
    have hl0 := hl l (List.mem_cons_self ..)
    simp only [runLabels]
    cases hs : step sys s l with
    | none => exact ih hl' s hf hc
    | some s' =>
      have key : s'.flag = false ∧ s'.cpc = .idle ∧ s'.src = s.src := by
        cases l with
        | src k l => simp [isConsumerLabel] at hl0
        | reqStop => simp [isConsumerLabel] at hl0
        | pop => simp [step, hc] at hs
        | rearm => simp [step, hc] at hs
        | beginCycle dt =>
          simp only [step, hc, hf] at hs
          split at hs
          · simp at hs
          · split at hs
            · simp only [Option.some.injEq] at hs; subst hs; exact ⟨by simp, by simp, rfl⟩
            · simp only [Option.some.injEq] at hs; subst hs; exact ⟨rfl, by simp, rfl⟩
      rw [ih hl' s' key.1 key.2.1, key.2.2]

/-- one conflating source with a `TSD` output -/
def sysD : Sys := { n := 1, cfg := fun _ => { policy := .conflating, dict := true } }

/-- a whole `try_send` of the collection delta `d` to source `k` by its producer `i` -/
def sendD (k i : Nat) (d : Delta) : List Label :=
  [.src k (.enterD i .try_ d), .src k (.check i), .src k (.admitQ i), .src k (.mark i)]

/-- `{1: 5}` -/
def dSet15 : Delta := { sets := [(1, 5)] }
/-- remove key 9 (lenient; the fresh accumulator does not hold it) -/
def dRem9 : Delta := { removes := [9] }

/-- the seeded scenario: the source starts; `{1:5}` is sent (accepted, effective, wakes the loop),
    then `remove 9` (accepted, NO effect); then one evaluation cycle -/
def s51Labels : List Label :=
  [.src 0 .start] ++ sendD 0 0 dSet15 ++ sendD 0 0 dRem9 ++ [.beginCycle 0, .pop, .rearm]

/-- … under `pending = modified` (the seeded code) -/
def s51St : St := runS51 sysD {} s51Labels
/-- … and under `pending = pending || modified` (the real code) -/
def oredSt : St := runLabels sysD {} s51Labels

theorem s51Labels_enters (k i : Nat) (h : ¬(i = 0 ∧ k = 0)) : ∀ l ∈ s51Labels, l.entersBy k i = false := by
  simp [s51Labels, sendD, Label.entersBy, SLabel.entersBy]
  omega

theorem s51St_quiet : ∀ k i, (s51St.src k).pcs i = .idle := by
  intro k i
  by_cases h : i = 0 ∧ k = 0
  · obtain ⟨rfl, rfl⟩ := h; decide
  · exact runS51_pcs_idle sysD k i s51Labels (s51Labels_enters k i h) {} rfl

/-- **Counter-lemma (seeded defect s51).**  If `try_send` ASSIGNS the conflating `pending` flag from
    "this delta modified the accumulator" instead of OR-ing it in, an accepted effective delta is
    lost: there is a reachable state (one collection-conflating source, the schedule `s51Labels`) in
    which the source has accepted `[{1:5}, remove 9]`, the first of which had effect, a full evaluation
    cycle has run, and nothing was delivered; the source is running and reports nothing pending although
    its accumulator still holds `{1:5}`; the flag is down, the loop idle, no stop requested, every
    producer has returned — and the evaluation thread alone never delivers the value, however many
    cycles it starts.  (`noop_send_keeps_pending` fails for `acceptDSeeded`.) -/
theorem assigning_pending_loses_accepted_delta :
    ∃ (sys : Sys) (s : St), ReachS51 sys s ∧ isDict (sys.cfg 0) = true ∧
      (s.src 0).caccepted.map (·.2) = [dSet15, dRem9] ∧ (applyDelta none dSet15).2 = true ∧
      (foldWindow (s.src 0).window).2 = true ∧
      (s.src 0).cdelivered = [] ∧ (s.src 0).deque = [] ∧ (s.src 0).acc = some [(1, 5)] ∧
      (s.src 0).accepting = true ∧ s.time = 1 ∧
      s.flag = false ∧ s.cpc = .idle ∧ s.stopReq = false ∧ (∀ k i, (s.src k).pcs i = .idle) ∧
      (∀ ls : List Label, (∀ l ∈ ls, isConsumerLabel l = true) → ((runLabels sys s ls).src 0).cdelivered = []) := by
  refine ⟨sysD, s51St, reachS51_run _ _ .init _, by decide, by decide, by decide, by decide, by decide, by decide,
    by decide, by decide, by decide, by decide, by decide, by decide, s51St_quiet, ?_⟩
  intro ls hl
  rw [asleep_stays_step sysD ls hl s51St (by decide) (by decide)]
  decide

/-- the same schedule under the real code (`acceptD`: `pending || modified`): the no-op keeps the
    pending flag, and the cycle delivers the fold of the whole window, `{1:5}` -/
theorem oring_pending_delivers_accepted_delta :
    Reach sysD oredSt ∧ (oredSt.src 0).cdelivered = [(1, [dSet15, dRem9], [(1, 5)])] ∧
    (oredSt.src 0).deque = [] ∧ (oredSt.src 0).window = [] ∧ oredSt.flag = false :=
  ⟨reach_runLabels _ _ .init _, by decide, by decide, by decide, by decide⟩

/-- the seeded admission really violates `noop_send_keeps_pending`: pending source, delta without
    effect, and the marker is gone -/
example : ((runS51 sysD {} (s51Labels.take 7)).src 0).deque ≠ [] ∧
    (applyDelta ((runS51 sysD {} (s51Labels.take 7)).src 0).acc dRem9).2 = false ∧
    ((runS51 sysD {} (s51Labels.take 8)).src 0).deque = [] ∧
    ((runLabels sysD {} (s51Labels.take 8)).src 0).deque ≠ [] := by decide

/-- collection deltas: removals before sets, the empty delta validates only a fresh accumulator, a
    removal of an absent key has no effect; a window of mixed deltas and its fold -/
example : foldWindow [{ sets := [(4, 4), (5, 5)] }, { removes := [4], sets := [(6, 6)] }, {}] = (some [(5, 5), (6, 6)], true) ∧
    foldWindow [{}] = (some [], true) ∧ foldWindow [{ removes := [7] }] = (none, false) ∧
    foldWindow [{ sets := [(3, 1)] }, { removes := [3] }] = (some [], true) ∧
    foldWindow [{ removes := [1], sets := [(1, 1)] }] = (some [(1, 1)], true) := by decide

/-! ### non-vacuity -/

/-- source 0: capacity 1, source 1: burst with capacity 2 -/
def sysEx : Sys := { n := 2, cfg := fun k => if k = 0 then { cap := 1 } else { cap := 2, policy := .burst } }

/-- source 0 gets 10 (admitted, marked) and a blocking 20 (parks: full); source 1 gets 30, 31; the
    cycle resets the flag once and pops source 0; the parked sender wakes up and is admitted (mark
    due) while the evaluation thread is between source 0's pop and its re-arm -/
def exLabels : List Label :=
  [.src 0 .start, .src 1 .start,
   .src 0 (.enter 1 .try_ 10), .src 0 (.check 1), .src 0 (.admitQ 1), .src 0 (.mark 1),
   .src 0 (.enter 2 .blocking 20), .src 0 (.check 2), .src 0 (.admitQ 2)] ++ sendL 1 7 30 ++ sendL 1 7 31 ++
  [.beginCycle 0, .pop, .src 0 (.wake 2)]

def exSt : St := runLabels sysEx {} exLabels

example : Reach sysEx exSt := reach_runLabels _ _ .init _
/-- a state in which the wake-up of source 1 rests on the THIRD disjunct of `no_lost_wakeup_n` (the
    cycle in progress has not evaluated source 1 yet) and that of source 0 on the second (mark due) -/
example : exSt.flag = false ∧ exSt.cpc = .popped 0 false ∧ (exSt.src 1).deque = [(7, 30), (7, 31)] ∧
    (exSt.src 0).deque = [(2, 20)] ∧ (exSt.src 0).pcs 2 = .admitted .blocking 20 true ∧
    flat (exSt.src 0).delivered = [(1, 10)] ∧ (exSt.src 0).accepted = [(1, 10), (2, 20)] := by decide
/-- a parked sender on a full bounded source, the other source unaffected -/
example : ((runLabels sysEx {} (exLabels.take 9)).src 0).pcs 2 = .blocked 20 ∧
    ((runLabels sysEx {} (exLabels.take 9)).src 0).full (sysEx.cfg 0) = true ∧
    ((runLabels sysEx {} (exLabels.take 9)).src 1).full (sysEx.cfg 1) = false := by decide
/-- the burst source hands both values over as one tuple, in the same cycle as source 0's delivery -/
example : ((runLabels sysEx exSt [.rearm, .pop, .rearm]).src 1).delivered = [(1, [(7, 30), (7, 31)])] ∧
    ((runLabels sysEx exSt [.rearm, .pop, .rearm]).src 0).delivered = [(1, [(1, 10)])] ∧
    (runLabels sysEx exSt [.rearm, .pop, .rearm]).cpc = .idle := by decide
/-- one source stopped, the other still running (hypotheses of `nothing_accepted_after_stop_n`) -/
example : ((runLabels sys2 {} [.src 0 .start, .src 1 .start, .src 0 .closeBegin, .src 0 .queueStop]).src 0).started = true ∧
    ((runLabels sys2 {} [.src 0 .start, .src 1 .start, .src 0 .closeBegin, .src 0 .queueStop]).src 0).accepting = false ∧
    ((runLabels sys2 {} [.src 0 .start, .src 1 .start, .src 0 .closeBegin, .src 0 .queueStop]).src 1).accepting = true := by
  decide

/-! a concrete infinite execution that continues and is fair: two sources; one value is sent to
    source 1, delivered by one evaluation cycle (which evaluates source 0, then source 1), and the
    evaluation thread keeps running (empty) cycles for ever -/

def xLabs : List Label := sendL 1 0 5 ++ [.beginCycle 0, .pop, .rearm, .pop, .rearm]
def xS0 : St := runLabels sys2 {} [.src 0 .start, .src 1 .start]
def xEnd : St := runLabels sys2 xS0 xLabs
def xσ (n : Nat) : St := if n ≤ 9 then runLabels sys2 xS0 (xLabs.take n) else { xEnd with time := xEnd.time + (n - 9) }
def xLab (n : Nat) : Label := xLabs.getD n (.beginCycle 0)

theorem xLabs_enters (k i : Nat) (h : ¬(i = 0 ∧ k = 1)) :
    ∀ l ∈ ([.src 0 .start, .src 1 .start] ++ xLabs : List Label), l.entersBy k i = false := by
  simp [xLabs, sendL, Label.entersBy, SLabel.entersBy]
  omega

theorem xEnd_eq : xEnd = runLabels sys2 {} ([.src 0 .start, .src 1 .start] ++ xLabs) := rfl

theorem xEnd_quiet : ∀ k i, (xEnd.src k).pcs i = .idle := by
  intro k i
  by_cases h : i = 0 ∧ k = 1
  · obtain ⟨rfl, rfl⟩ := h; decide
  · rw [xEnd_eq]; exact run_pcs_idle sys2 k i _ (xLabs_enters k i h) {} rfl

/-- a run without stop labels closes no source -/
theorem run_closing (sys : Sys) (ls : List Label) (hl : ∀ l ∈ ls, isStopLabel l = false) (s : St) (k : Nat) :
    ((runLabels sys s ls).src k).closing = (s.src k).closing := by
  induction ls generalizing s with
  | nil => rfl
  | cons l ls ih =>
    have hl' : ∀ l' ∈ ls, isStopLabel l' = false := fun l' h => hl l' (List.mem_cons_of_mem _ h)
    simp only [runLabels]
    cases hs : step sys s l with
    | none => exact ih hl' s
    | some s' => rw [ih hl' s', (step_keeps_stop hs (hl l (List.mem_cons_self ..))).2.1 k]

theorem xEnd_fields : xEnd.flag = false ∧ xEnd.cpc = .idle ∧ xEnd.stopReq = false ∧
    allRunning sys2 xEnd = true := ⟨by decide, by decide, by decide, by decide⟩

theorem xnext (n : Nat) : step sys2 (xσ n) (xLab n) = some (xσ (n + 1)) := by
  by_cases h : n < 9
  · have : n = 0 ∨ n = 1 ∨ n = 2 ∨ n = 3 ∨ n = 4 ∨ n = 5 ∨ n = 6 ∨ n = 7 ∨ n = 8 := by omega
    rcases this with rfl | rfl | rfl | rfl | rfl | rfl | rfl | rfl | rfl <;> rfl
  · have h9 : 9 ≤ n := by omega
    obtain ⟨f1, f2, _, f4⟩ := xEnd_fields
    have hl : xLab n = .beginCycle 0 := by
      unfold xLab xLabs sendL
      simp [List.getD, h9]
    have hs : xσ n = { xEnd with time := xEnd.time + (n - 9) } := by
      unfold xσ
      by_cases h8 : n = 9
      · subst h8; rfl
      · simp [show ¬ n ≤ 9 by omega]
    have hs' : xσ (n + 1) = { xEnd with time := xEnd.time + (n + 1 - 9) } := by
      unfold xσ; simp [show ¬ n + 1 ≤ 9 by omega]
    rw [hl, hs, hs']
    simp only [step, f1, f2]
    simp [sys2]
    exact ⟨f4, by omega⟩

def xExec : Exec sys2 := { σ := xσ, lab := xLab, init := reach_runLabels _ _ .init _, next := xnext }

theorem xσ_tail (n : Nat) (h : 9 ≤ n) : (xσ n).cpc = .idle ∧ (xσ n).flag = false ∧ ∀ k i, ((xσ n).src k).pcs i = .idle := by
  obtain ⟨f1, f2, _⟩ := xEnd_fields
  by_cases h8 : n = 9
  · subst h8; exact ⟨f2, f1, xEnd_quiet⟩
  · unfold xσ; simp only [show ¬ n ≤ 9 by omega, if_false]; exact ⟨f2, f1, xEnd_quiet⟩

example : xExec.Continues := by
  refine ⟨by decide, ?_, ?_⟩
  · intro k
    show (xS0.src k).closing = false
    exact run_closing sys2 _ (by decide) {} k
  · intro n
    show isStopLabel (xLab n) = false
    unfold xLab xLabs sendL
    by_cases h : n < 9
    · have : n = 0 ∨ n = 1 ∨ n = 2 ∨ n = 3 ∨ n = 4 ∨ n = 5 ∨ n = 6 ∨ n = 7 ∨ n = 8 := by omega
      rcases this with rfl | rfl | rfl | rfl | rfl | rfl | rfl | rfl | rfl <;> rfl
    · simp [List.getD, show 9 ≤ n by omega, isStopLabel]

/-- the execution is fair: every helpful step that stays enabled is taken (here: none stays enabled
    for ever, because each one IS taken within the first nine steps) -/
example : xExec.Fair := by
  refine ⟨?_, ?_, ?_, ?_⟩
  · intro k i n hall
    obtain ⟨kd, v, w, h⟩ := hall (n + 9) (by omega)
    have := (xσ_tail (n + 9) (by omega)).2.2 k i
    rw [show xExec.σ (n + 9) = xσ (n + 9) from rfl, this] at h; simp at h
  · intro n hall
    obtain ⟨j, h⟩ := hall (n + 9) (by omega)
    rw [show xExec.σ (n + 9) = xσ (n + 9) from rfl, (xσ_tail (n + 9) (by omega)).1] at h; simp at h
  · intro n hall
    obtain ⟨j, b, h⟩ := hall (n + 9) (by omega)
    rw [show xExec.σ (n + 9) = xσ (n + 9) from rfl, (xσ_tail (n + 9) (by omega)).1] at h; simp at h
  · intro n hall
    have h := (hall (n + 9) (by omega)).2
    rw [show xExec.σ (n + 9) = xσ (n + 9) from rfl, (xσ_tail (n + 9) (by omega)).2.1] at h; simp at h

/-- … and the value accepted by source 1 (position 0, accepted by step 3) has been delivered by step 8 -/
example : ((xσ 3).src 1).accepted = [(0, 5)] ∧ flat ((xσ 8).src 1).delivered = [(0, 5)] := by decide

end HgVerif.PushQueueN
