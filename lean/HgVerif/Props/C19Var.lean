import HgVerif.Props.C19
import HgVerif.Lemmas.DispatchVar
/-!
# C19, variadic candidates — "the unique most specific match, consistently" for overload families that mix
fixed-arity candidates with VARIADIC ones (`impl.variadic`: the last parameter is the tail pattern)

Model: `Model/DispatchVar.lean` (wraps `Model/Dispatch.lean`; nothing of `Props/C19.lean` changes, and a family
without a variadic candidate resolves exactly as before: `resolveCallV_lift`).  All theorems quantify over ALL
overload lists (variadic and fixed-arity candidates mixed), ALL argument tuples (ports and plain values) and - where
it says `tr` - every tail ranker, `tailRank` (= the code's `param_pattern_rank`) in particular.

* `resolve_perm_invariant_var` : every permutation of the overload list gives the same winner (candidate, bindings,
                                 rank, output) / the same error class (tied sets up to order).
* `winner_unique_min_var`      : a winner is a registered candidate that matches, and its rank is STRICTLY below
                                 every other survivor's; no survivor ⇒ no-match; a shared minimum ⇒ ambiguity
                                 listing exactly the tied candidates.  (`resolveV_noMatch_iff`, `resolveV_winner_iff`,
                                 `resolveV_ambiguous_iff`, `resolveV_total`: an exact characterisation.)
* `variadic_match_sound`       : a variadic survivor has at least as many arguments as fixed parameters; ONE map makes
                                 every fixed parameter accept its argument (so every variable of the fixed part has one
                                 binding across all fixed positions) and produces the output; and EACH tail port is an
                                 instance of the tail pattern under SOME bindings that extend that map and bind every
                                 variable of the tail pattern - separately per tail argument (heterogeneous tails are
                                 fine); each promoted plain value is accepted in an extension of that map as well.
* `tail_bindings_do_not_leak`  : the survivor's map (hence the resolved output) is the map of the FIXED arguments
                                 alone: two calls that agree on the fixed arguments give the same map whatever the tails
                                 are, `variadic_survives_without_tail`: it is the map of the call without any tail
                                 argument, and `tail_only_variable_unbound`: a variable that only the tail pattern
                                 mentions is not bound in it (stated for the empty fixed part, where the map is empty).
* `variadic_rank_formula`      : rank of a variadic survivor = `operator_rank(fixed parameters)`        [tail excluded]
                                 `+ tailRank(tail pattern) * #tail arguments + 1`  [per consumed argument + the penalty]
                                 `+ kwargs adjustment + coercions in the fixed part`
                                 `+ Σ adaptation rank of the tail ports + 1 per promoted plain value`.
  `tailRank_eq_param_rank`     : `tailRank p` IS the rank the same pattern has as the only fixed parameter (one scale).
* `fixed_arity_beats_variadic_at_equal_specificity` : `f(fixed…, p, …, p)` (k copies) strictly beats
                                 `f(fixed…, *p)` on every call both accept - for every `fixed`, `p`, `k`, labels, outputs.
* `variadic_shared_variable_charged_per_tail_argument` (concrete witness, as coded): a variable shared by the fixed part
                                 and the tail is NOT de-duplicated: `f(~T, *~T)` loses against the more general
                                 `f(~P, ~Q)` and ties with `f(~T, *~U)` (the monitor's `[C19-varspec]`).
* `tsPatternRank_tail_prefers_less_specific` (counter-lemma; concrete witness): ranking the TAIL with the un-decayed
                                 structural ranker `tsPatternRank` (what `try_match` uses for a `**kwargs` pack) makes the
                                 variadic `f(*TSL[~E,~N])` LOSE against the bare `f(~S)` on a `TSL` argument although
                                 `TSL[~E,~N]` is a strict instance of `~S` and the SAME pattern as a fixed parameter
                                 wins; with `tailRank` the variadic candidate wins.
-/
namespace HgVerif.Dispatch

theorem Outcome.sameV_iff (a b : Outcome) : a.SameV b ↔ a.Same b := by
  cases a <;> cases b <;> simp [Outcome.SameV, Outcome.Same]

/-! ## a family without variadic candidates resolves as in `Props/C19.lean` -/

theorem tryMatchVG_fixed (tr : TP → Nat) (o : Overload) (args : List Arg) :
    tryMatchVG tr (VOverload.fixed o) args = tryMatch o args := rfl

theorem survivorOfVG_fixed (tr : TP → Nat) (o : Overload) (args : List Arg) :
    survivorOfVG tr args (VOverload.fixed o) = survivorOf args o := rfl

/-- **conservative extension**: registering fixed-arity candidates only, `resolveCallV` IS `resolveCall` -/
theorem resolveCallV_lift (tr : TP → Nat) (os : List Overload) (args : List Arg) :
    resolveCallVG tr (os.map VOverload.fixed) args = resolveCall os args := by
  have : survivorsVG tr (os.map VOverload.fixed) args = survivors os args := by
    simp only [survivorsVG, survivors, List.filterMap_map]
    rfl
  simp only [resolveCallVG, resolveCall, this]

/-! ## registration order does not matter -/

theorem mem_survivorsVG {tr : TP → Nat} {vos : List VOverload} {args : List Arg} {s : Survivor} :
    s ∈ survivorsVG tr vos args ↔ ∃ vo ∈ vos, survivorOfVG tr args vo = some s := by
  simp [survivorsVG, List.mem_filterMap]

/-- **resolve_perm_invariant_var.** -/
theorem resolve_perm_invariant_var (tr : TP → Nat) {vos vos' : List VOverload} (hp : vos.Perm vos')
    (args : List Arg) : (resolveCallVG tr vos args).Same (resolveCallVG tr vos' args) :=
  (Outcome.sameV_iff _ _).mp (resolveL_perm (hp.filterMap _))

/-- the model-side monitor: one family, several registration orders, one argument tuple -/
def P_C19V (vos : List VOverload) (orders : List (List VOverload)) (args : List Arg) : Bool :=
  orders.all fun vos' => (resolveCallV vos args).sameB (resolveCallV vos' args)

theorem P_C19V_holds (vos : List VOverload) (orders : List (List VOverload)) (args : List Arg)
    (h : ∀ vos' ∈ orders, vos.Perm vos') : P_C19V vos orders args = true := by
  simp only [P_C19V, List.all_eq_true]
  intro vos' hmem
  exact (Outcome.sameB_iff _ _).mpr (resolve_perm_invariant_var tailRank (h vos' hmem) args)

/-! ## the winner is the unique strict minimum -/

theorem resolveV_noMatch_iff (tr : TP → Nat) (vos : List VOverload) (args : List Arg) :
    resolveCallVG tr vos args = .noMatch ↔ survivorsVG tr vos args = [] :=
  resolveL_noMatch_iff _

theorem resolveV_winner_iff (tr : TP → Nat) (vos : List VOverload) (args : List Arg) (s : Survivor)
    (o : Option CT) :
    resolveCallVG tr vos args = .winner s o ↔ o = outputOf s ∧ UniqueMin (survivorsVG tr vos args) s :=
  resolveL_winner_iff _ s o

theorem resolveV_ambiguous_iff (tr : TP → Nat) (vos : List VOverload) (args : List Arg) :
    (∃ tied, resolveCallVG tr vos args = .ambiguous tied) ↔ ∃ r, SharedMin (survivorsVG tr vos args) r :=
  resolveL_ambiguous_iff _

theorem resolveV_total (tr : TP → Nat) (vos : List VOverload) (args : List Arg) :
    (resolveCallVG tr vos args = .noMatch ∧ survivorsVG tr vos args = []) ∨
    (∃ s, resolveCallVG tr vos args = .winner s (outputOf s) ∧ UniqueMin (survivorsVG tr vos args) s) ∨
    (∃ tied r, resolveCallVG tr vos args = .ambiguous tied ∧ SharedMin (survivorsVG tr vos args) r) :=
  resolveL_total _

/-- **winner_unique_min_var.**
    (1) a winner is the survivor entry of a registered candidate, and every other survivor has a strictly larger
        rank (what "matches" means for a variadic candidate: `variadic_match_sound`; for a fixed one: `survivor_sound`);
    (2) no survivor ⇒ the resolution error;
    (3) the least rank shared by two survivors ⇒ the ambiguity error, listing exactly the tied ones. -/
theorem winner_unique_min_var (tr : TP → Nat) (vos : List VOverload) (args : List Arg) :
    (∀ s o, resolveCallVG tr vos args = .winner s o →
        (∃ vo ∈ vos, survivorOfVG tr args vo = some s) ∧ o = outputOf s ∧
        ∃ l1 l2, survivorsVG tr vos args = l1 ++ s :: l2 ∧ ∀ t ∈ l1 ++ l2, s.rank < t.rank) ∧
    (survivorsVG tr vos args = [] → resolveCallVG tr vos args = .noMatch) ∧
    (∀ r, (∀ t ∈ survivorsVG tr vos args, r ≤ t.rank) →
        2 ≤ ((survivorsVG tr vos args).filter (fun t => decide (t.rank = r))).length →
        ∃ tied, resolveCallVG tr vos args = .ambiguous tied ∧
          tied.Perm ((survivorsVG tr vos args).filter (fun t => decide (t.rank = r)))) := by
  refine ⟨?_, (resolveV_noMatch_iff tr vos args).mpr, ?_⟩
  · intro s o h
    have hw := resolveL_winner_spec h
    exact ⟨mem_survivorsVG.mp (uniqueMin_mem hw.2), hw.1, hw.2⟩
  · intro r hmin hlen
    have hr : SharedMin (survivorsVG tr vos args) r := ⟨hmin, hlen⟩
    obtain ⟨tied, ht⟩ := (resolveV_ambiguous_iff tr vos args).mpr ⟨r, hr⟩
    obtain ⟨r', hr', hp⟩ := resolveL_ambiguous_spec ht
    rw [sharedMin_unique hr' hr] at hp
    exact ⟨tied, ht, hp⟩

/-! ## what a variadic survivor is -/

/-- unfolding of `survivorOfVG` for a variadic candidate -/
theorem survivorOfVG_spec {tr : TP → Nat} {vo : VOverload} {tp : TP} (ht : vo.tail = some tp) {args : List Arg}
    {s : Survivor} (h : survivorOfVG tr args vo = some s) :
    vo.ov.params.length ≤ args.length ∧ s.ov = vo.ov ∧
    ∃ adj1 adj2,
      matchArgs vo.ov.params (args.take vo.ov.params.length) RMap.empty
        (tr tp * (args.length - vo.ov.params.length) + 1 + kwAdjust vo.ov.kw) = (some s.map, adj1) ∧
      matchTail tp (args.drop vo.ov.params.length) s.map adj1 = (true, adj2) ∧
      outResolvable vo.ov.out s.map = true ∧ s.rank = baseRank vo + adj2 := by
  unfold survivorOfVG at h
  split at h
  · rename_i m adj htm
    cases h
    unfold tryMatchVG at htm
    rw [ht] at htm
    dsimp only at htm
    split at htm
    · cases htm
    · rename_i hlen
      split at htm
      · rename_i m1 adj1 hma
        split at htm
        · rename_i adj2 hmt
          split at htm
          · rename_i hres
            simp only [Prod.mk.injEq, Option.some.injEq] at htm
            obtain ⟨rfl, rfl⟩ := htm
            exact ⟨by omega, rfl, adj1, adj2, hma, hmt, hres, rfl⟩
          · cases htm
        · cases htm
      · cases htm
  · cases h

/-- **variadic_match_sound.** -/
theorem variadic_match_sound {tr : TP → Nat} {vo : VOverload} {tp : TP} (ht : vo.tail = some tp)
    {args : List Arg} {s : Survivor} (h : survivorOfVG tr args vo = some s) :
    vo.ov.params.length ≤ args.length ∧ s.ov = vo.ov ∧
    instArgs vo.ov.params (args.take vo.ov.params.length) s.map = true ∧
    outResolvable vo.ov.out s.map = true ∧
    (∀ c, Arg.ts c ∈ args.drop vo.ov.params.length →
        ∃ ma, inMatch tp c s.map = some ma ∧ MapLe s.map ma ∧ bound tp ma = true ∧ inst tp ma c = true) ∧
    (∀ v, Arg.sc v ∈ args.drop vo.ov.params.length →
        ∃ ma, scPromote tp v s.map = some ma ∧ MapLe s.map ma) := by
  obtain ⟨hlen, hov, adj1, adj2, hma, hmt, hres, _⟩ := survivorOfVG_spec ht h
  obtain ⟨_, hts, hsc⟩ := matchTail_true hmt
  refine ⟨hlen, hov, (matchArgs_sound hma).2, hres, ?_, ?_⟩
  · intro c hc
    obtain ⟨ma, hm⟩ := hts c hc
    have hs := match_sound hm
    exact ⟨ma, hm, hs.1, hs.2.1, hs.2.2⟩
  · intro v hv
    obtain ⟨ma, hm⟩ := hsc v hv
    exact ⟨ma, hm, scPromote_mapLe _ _ _ _ hm⟩

/-! ## tail bindings do not leak -/

/-- the map the argument loop returns does not depend on the rank adjustment it starts with -/
theorem matchArgs_map_indep (ps : List Param) (as : List Arg) (m : RMap) (a : Nat) :
    (matchArgs ps as m a).1 = (matchArgs ps as m 0).1 := by
  have := matchArgs_adj_shift a ps as m 0
  rw [Nat.zero_add] at this
  rw [this]

/-- **tail_bindings_do_not_leak.**  The bindings of a variadic survivor are those of the FIXED arguments: they
    are what the argument loop over the fixed parameters returns, and two calls with the same fixed arguments give
    the same bindings (and the same output) whatever their tails are. -/
theorem tail_bindings_do_not_leak {tr : TP → Nat} {vo : VOverload} {tp : TP} (ht : vo.tail = some tp)
    {fixedArgs tail1 tail2 : List Arg} {s1 s2 : Survivor} (hlen : fixedArgs.length = vo.ov.params.length)
    (h1 : survivorOfVG tr (fixedArgs ++ tail1) vo = some s1)
    (h2 : survivorOfVG tr (fixedArgs ++ tail2) vo = some s2) :
    (matchArgs vo.ov.params fixedArgs RMap.empty 0).1 = some s1.map ∧ s1.map = s2.map ∧
      outputOf s1 = outputOf s2 := by
  obtain ⟨_, hov1, a1, _, hm1, _⟩ := survivorOfVG_spec ht h1
  obtain ⟨_, hov2, a2, _, hm2, _⟩ := survivorOfVG_spec ht h2
  rw [← hlen, List.take_left'  rfl] at hm1 hm2
  have e1 := matchArgs_map_indep vo.ov.params fixedArgs RMap.empty
    (tr tp * ((fixedArgs ++ tail1).length - fixedArgs.length) + 1 + kwAdjust vo.ov.kw)
  have e2 := matchArgs_map_indep vo.ov.params fixedArgs RMap.empty
    (tr tp * ((fixedArgs ++ tail2).length - fixedArgs.length) + 1 + kwAdjust vo.ov.kw)
  rw [hm1] at e1
  rw [hm2] at e2
  simp only at e1 e2
  have hmap : s1.map = s2.map := by
    have : some s1.map = some s2.map := by rw [e1, e2]
    exact Option.some.inj this
  refine ⟨e1.symm, hmap, ?_⟩
  simp only [outputOf, hov1, hov2, hmap]

/-- … in particular they are the bindings (and the output) of the call WITHOUT any tail argument, which the
    candidate accepts as well -/
theorem variadic_survives_without_tail {tr : TP → Nat} {vo : VOverload} {tp : TP} (ht : vo.tail = some tp)
    {fixedArgs tail : List Arg} {s : Survivor} (hlen : fixedArgs.length = vo.ov.params.length)
    (h : survivorOfVG tr (fixedArgs ++ tail) vo = some s) :
    ∃ s0, survivorOfVG tr fixedArgs vo = some s0 ∧ s0.map = s.map ∧ outputOf s0 = outputOf s := by
  obtain ⟨_, hov, a1, _, hm, _, hres, _⟩ := survivorOfVG_spec ht h
  rw [← hlen, List.take_left' rfl] at hm
  have hsh := matchArgs_adj_shift (tr tp * (fixedArgs.length - fixedArgs.length) + 1 + kwAdjust vo.ov.kw)
    vo.ov.params fixedArgs RMap.empty 0
  have hi := matchArgs_map_indep vo.ov.params fixedArgs RMap.empty
    (tr tp * ((fixedArgs ++ tail).length - fixedArgs.length) + 1 + kwAdjust vo.ov.kw)
  rw [hm] at hi
  rw [Nat.zero_add, ← hi] at hsh
  refine ⟨⟨vo.ov, s.map, baseRank vo + ((matchArgs vo.ov.params fixedArgs RMap.empty 0).2 +
      (tr tp * (fixedArgs.length - fixedArgs.length) + 1 + kwAdjust vo.ov.kw))⟩, ?_, rfl, ?_⟩
  · simp only [survivorOfVG, tryMatchVG, ht, ← hlen, Nat.lt_irrefl, if_false, List.take_length,
      List.drop_length, hsh, matchTail, hres, if_true]
  · simp only [outputOf, hov]

/-- the sharpest form for a candidate with no fixed parameter: NO variable is bound, whatever the tail
    arguments are - so an output that mentions a type variable can never be produced from a matched tail -/
theorem tail_only_variable_unbound {tr : TP → Nat} {vo : VOverload} {tp : TP} (ht : vo.tail = some tp)
    (hfix : vo.ov.params = []) {args : List Arg} {s : Survivor} (h : survivorOfVG tr args vo = some s) :
    s.map = RMap.empty := by
  obtain ⟨_, _, a1, _, hm, _⟩ := survivorOfVG_spec ht h
  simp only [hfix, List.length_nil, List.take_zero, matchArgs, Prod.mk.injEq, Option.some.injEq] at hm
  exact hm.1.symm

/-! ## the rank of a variadic survivor -/

/-- **variadic_rank_formula.** -/
theorem variadic_rank_formula {vo : VOverload} {tp : TP} (ht : vo.tail = some tp) {args : List Arg}
    {s : Survivor} (h : survivorOfV args vo = some s) :
    s.rank = operatorRank vo.ov.params
              + (tailRank tp * (args.length - vo.ov.params.length) + 1)
              + kwAdjust vo.ov.kw
              + (matchArgs vo.ov.params (args.take vo.ov.params.length) RMap.empty 0).2
              + tailAdj tp (args.drop vo.ov.params.length) := by
  obtain ⟨_, _, adj1, adj2, hma, hmt, _, hr⟩ := survivorOfVG_spec ht h
  obtain ⟨h2, _, _⟩ := matchTail_true hmt
  have hsh := matchArgs_adj_shift (tailRank tp * (args.length - vo.ov.params.length) + 1 + kwAdjust vo.ov.kw)
    vo.ov.params (args.take vo.ov.params.length) RMap.empty 0
  rw [Nat.zero_add, hma] at hsh
  have : adj1 = (matchArgs vo.ov.params (args.take vo.ov.params.length) RMap.empty 0).2 +
      (tailRank tp * (args.length - vo.ov.params.length) + 1 + kwAdjust vo.ov.kw) := by
    have := congrArg Prod.snd hsh
    simpa using this
  rw [hr, h2, this]
  simp only [baseRank]
  omega

/-- the promoted-value / adaptation part of the formula, on the modelled schemas: one point per plain value -/
theorem tailAdj_eq_count (p : TP) : ∀ as : List Arg,
    tailAdj p as = (as.filter (fun a => match a with | .sc _ => true | .ts _ => false)).length
  | [] => rfl
  | .ts c :: as => by simp [tailAdj, inputAdaptationRank, tailAdj_eq_count p as]
  | .sc v :: as => by simp [tailAdj, tailAdj_eq_count p as]; omega

/-! ## exact fixed arity beats variadic at equal specificity -/

/-- **fixed_arity_beats_variadic_at_equal_specificity.**  `F = f(fixed…, p, …, p)` with `k` copies of `p` and
    `V = f(fixed…, *p)` (same fixed parameters, same kwargs collector; any labels and outputs): on every call that
    both accept, `F` ranks STRICTLY below `V` - so `V` is never selected while `F` is registered and matches. -/
theorem fixed_arity_beats_variadic_at_equal_specificity (fx : List Param) (tp : TP) (k : Nat)
    (lF lV : Name) (outF outV : Option TP) (kw : Option (Option TP)) (args : List Arg) {sF sV : Survivor}
    (hF : survivorOf args ⟨lF, fx ++ List.replicate k (.input tp), outF, kw⟩ = some sF)
    (hV : survivorOfV args ⟨⟨lV, fx, outV, kw⟩, some tp⟩ = some sV) :
    sF.rank < sV.rank := by
  -- the variadic side
  obtain ⟨hlenV, _, adj1, adj2, hma, hmt, _, hrV⟩ := survivorOfVG_spec (vo := ⟨⟨lV, fx, outV, kw⟩, some tp⟩) rfl hV
  have hmono := matchTail_mono hmt
  simp only [baseRank] at hrV hma hlenV
  have hshV := matchArgs_adj_shift (tailRank tp * (args.length - fx.length) + 1) fx (args.take fx.length)
    RMap.empty (kwAdjust kw)
  rw [show kwAdjust kw + (tailRank tp * (args.length - fx.length) + 1)
        = tailRank tp * (args.length - fx.length) + 1 + kwAdjust kw by omega, hma] at hshV
  have hadj1 : adj1 = (matchArgs fx (args.take fx.length) RMap.empty (kwAdjust kw)).2 +
      (tailRank tp * (args.length - fx.length) + 1) := by
    have := congrArg Prod.snd hshV
    simpa using this
  have hfst : (matchArgs fx (args.take fx.length) RMap.empty (kwAdjust kw)).1 = some sV.map := by
    have := congrArg Prod.fst hshV
    simpa using this.symm
  -- the fixed-arity side
  unfold survivorOf at hF
  split at hF
  · rename_i m adj htm
    cases hF
    unfold tryMatch at htm
    dsimp only at htm
    split at htm
    · cases htm
    · rename_i hlenF
      have hlen : args.length = fx.length + k := by
        have := Decidable.not_not.mp hlenF
        simpa using this.symm
      split at htm
      · rename_i m1 adjF hmaF
        have happ := matchArgs_append (List.replicate k (.input tp)) (args.drop fx.length) fx
          (args.take fx.length) RMap.empty (kwAdjust kw) (by simp [List.length_take]; omega)
        rw [List.take_append_drop, hmaF] at happ
        cases hfx : matchArgs fx (args.take fx.length) RMap.empty (kwAdjust kw) with
        | mk r a1 =>
          rw [hfx] at happ hadj1 hfst
          simp only at hfst
          subst hfst
          simp only at happ
          have hadjF := matchArgs_inputs_adj tp k _ _ _ _ _ happ.symm
          have hrank := operatorRank_append_le fx (List.replicate k (.input tp))
          have hrep := operatorRank_replicate_le tp k
          split at htm
          · simp only [Prod.mk.injEq, Option.some.injEq] at htm
            obtain ⟨_, rfl⟩ := htm
            simp only at hadj1
            have hk : args.length - fx.length = k := by omega
            rw [hk] at hadj1
            rw [hrV]
            simp only
            have : k * tailRank tp = tailRank tp * k := Nat.mul_comm _ _
            omega
          · cases htm
      · cases htm
  · cases hF

/-- … hence, in any family that contains both, the variadic one is never the winner of a call the fixed one accepts -/
theorem variadic_never_beats_its_fixed_expansion (fx : List Param) (tp : TP) (k : Nat)
    (lF lV : Name) (outF outV : Option TP) (kw : Option (Option TP)) (vos : List VOverload) (args : List Arg)
    (hmem : VOverload.fixed ⟨lF, fx ++ List.replicate k (.input tp), outF, kw⟩ ∈ vos) {sF : Survivor}
    (hF : survivorOf args ⟨lF, fx ++ List.replicate k (.input tp), outF, kw⟩ = some sF)
    {sV : Survivor} (hV : survivorOfV args ⟨⟨lV, fx, outV, kw⟩, some tp⟩ = some sV) (o : Option CT) :
    resolveCallV vos args ≠ .winner sV o := by
  intro hw
  obtain ⟨l1, l2, hL, hlt⟩ := (resolveL_winner_spec hw).2
  have hlt' := fixed_arity_beats_variadic_at_equal_specificity fx tp k lF lV outF outV kw args hF hV
  have hFmem : sF ∈ survivorsVG tailRank vos args := mem_survivorsVG.mpr ⟨_, hmem, by rw [survivorOfVG_fixed]; exact hF⟩
  rw [hL] at hFmem
  rcases List.mem_append.mp hFmem with h1 | h2
  · have := hlt sF (List.mem_append.mpr (Or.inl h1)); omega
  · rcases List.mem_cons.mp h2 with heq | h3
    · rw [heq] at hlt'; omega
    · have := hlt sF (List.mem_append.mpr (Or.inr h3)); omega

/-! ## counter-lemma: the tail must be ranked on the scale of the fixed parameters -/

section witness
/-- `TSL[~E,~N]` -/
def pTslEN : TP := .tsl (.var 0 []) (.var 1 [])
/-- `f(*TSL[~E,~N])`, label 10 -/
def vTsl : VOverload := ⟨⟨10, [], none, none⟩, some pTslEN⟩
/-- `f(~S) -> ~S`, label 11 -/
def gBare : VOverload := .fixed ⟨11, [.input (.var 2 [])], some (.var 2 []), none⟩
/-- `f(TSL[~E,~N])`: the same pattern as a FIXED parameter, label 12 -/
def fTsl : VOverload := .fixed ⟨12, [.input pTslEN], none, none⟩
/-- the argument `TSL[TS[int],2]` -/
def aTsl : CT := .tsl (.ts 1) 2

/-- the two rankers on this pattern: 1 + 10000/2 against 1 + 10000 + 5 -/
example : tailRank pTslEN = 5001 ∧ tsPatternRank pTslEN = 10006 ∧ operatorRank [.input pTslEN] = 5001 := by decide

/-- **tsPatternRank_tail_prefers_less_specific.**  `TSL[~E,~N]` accepts strictly fewer schemas than `~S` (it is
    `~S` with `S := TSL[~E,~N]`), both candidates accept `TSL[TS[int],2]`, and as a FIXED parameter the pattern beats
    the bare variable (5001 < 10000).  With the tail ranked by `param_pattern_rank` (`tailRank`: the code) the
    variadic candidate wins as well (5002), in both registration orders; with the tail ranked by `ts_pattern_rank`
    (`tsPatternRank`: no decay under structure, size surcharge) it is given 10007 and LOSES against the less
    specific `f(~S)` - silently, in both registration orders. -/
theorem tsPatternRank_tail_prefers_less_specific :
    -- the more specific candidate matches, the pattern is an instance of the bare variable
    inst pTslEN { ts := [(0, .ts 1)], sz := [(1, 2)] } aTsl = true ∧
    inst (.var 2 []) { ts := [(2, aTsl)] } aTsl = true ∧
    subst pTslEN { ts := [(0, .ts 1)], sz := [(1, 2)] } = some aTsl ∧
    -- as a fixed parameter it wins
    resolveCallV [fTsl, gBare] [.ts aTsl] = .winner ⟨fTsl.ov, { ts := [(0, .ts 1)], sz := [(1, 2)] }, 5001⟩ none ∧
    -- the code: the variadic candidate wins, whatever the order
    resolveCallV [vTsl, gBare] [.ts aTsl] = .winner ⟨vTsl.ov, RMap.empty, 5002⟩ none ∧
    resolveCallV [gBare, vTsl] [.ts aTsl] = .winner ⟨vTsl.ov, RMap.empty, 5002⟩ none ∧
    -- the tail ranked with `ts_pattern_rank`: the bare variable wins, whatever the order
    resolveCallVG tsPatternRank [vTsl, gBare] [.ts aTsl] = .winner ⟨gBare.ov, { ts := [(2, aTsl)] }, 10000⟩ (some aTsl) ∧
    resolveCallVG tsPatternRank [gBare, vTsl] [.ts aTsl] = .winner ⟨gBare.ov, { ts := [(2, aTsl)] }, 10000⟩ (some aTsl) ∧
    survivorOfVG tsPatternRank [.ts aTsl] vTsl = some ⟨vTsl.ov, RMap.empty, 10007⟩ := by
  decide

/-- the two rankers agree on the flat tails (`~S`, `TS[~T]`, `TS[int]`), which is why only NESTED generic tails
    tell them apart -/
example : tailRank (.var 0 []) = tsPatternRank (.var 0 []) ∧
    tailRank (.ts (.var 0 [])) = tsPatternRank (.ts (.var 0 [])) ∧
    tailRank (.ts (.conc 1)) = tsPatternRank (.ts (.conc 1)) := by decide

/-- … and differ on a `TSD` value, bundle fields and a repeated variable (de-duplication) -/
example : tailRank (.tsd (.var 0 []) (.var 1 [])) = 5101 ∧ tsPatternRank (.tsd (.var 0 []) (.var 1 [])) = 10101 ∧
    tailRank (.tsb none (.cons 0 (.var 1 []) (.cons 2 (.var 1 []) .nil))) = 5001 ∧
    tsPatternRank (.tsb none (.cons 0 (.var 1 []) (.cons 2 (.var 1 []) .nil))) = 20001 := by decide
end witness

/-! ## satisfiability: the hypotheses above have non-trivial instances -/

section examples
/-- `f(~T, *~T)`: the fixed part binds `T`, every tail port must be that type -/
def vSame : VOverload := ⟨⟨20, [.input (.var 0 [])], some (.var 0 []), none⟩, some (.var 0 [])⟩
/-- `f(~T, *~U)`: an independent tail variable - heterogeneous tails -/
def vAny : VOverload := ⟨⟨21, [.input (.var 0 [])], some (.var 0 []), none⟩, some (.var 1 [])⟩
/-- `f(~T, *~U) -> ~U`: the output needs a TAIL variable -/
def vOutTail : VOverload := ⟨⟨22, [.input (.var 0 [])], some (.var 1 []), none⟩, some (.var 1 [])⟩
/-- `f(~T, ~U, ~U2)` -/
def f3 : Overload := ⟨23, [.input (.var 0 []), .input (.var 1 []), .input (.var 1 [])], none, none⟩

-- three arguments, heterogeneous tail: `vAny` accepts (U is bound per argument and dropped), `vSame` does not;
-- the bindings are those of the fixed argument only
example : survivorOfV [.ts (.ts 1), .ts (.ts 2), .ts (.tss 3)] vAny
            = some ⟨vAny.ov, { ts := [(0, .ts 1)] }, 10000 + (10000 * 2 + 1)⟩ ∧
          survivorOfV [.ts (.ts 1), .ts (.ts 2), .ts (.tss 3)] vSame = none ∧
          survivorOfV [.ts (.ts 1), .ts (.ts 1), .ts (.ref (.ts 1))] vSame
            = some ⟨vSame.ov, { ts := [(0, .ts 1)] }, 30001⟩ := by decide
-- zero tail arguments: base rank + the penalty
example : survivorOfV [.ts (.ts 1)] vSame = some ⟨vSame.ov, { ts := [(0, .ts 1)] }, 10001⟩ ∧
          survivorOfV [] vSame = none ∧ rejectedOfV [] vSame = some (20, 10000) := by decide
-- a tail variable never reaches the output: the candidate is rejected although every argument matches
example : survivorOfV [.ts (.ts 1), .ts (.ts 2)] vOutTail = none ∧
          rejectedOfV [.ts (.ts 1), .ts (.ts 2)] vOutTail = some (22, 20001) := by decide
-- a plain value in the tail: promoted (one more point); its type must fit the binding of the fixed part
example : survivorOfV [.ts (.ts 1), .sc 1] vSame = some ⟨vSame.ov, { ts := [(0, .ts 1)] }, 20002⟩ ∧
          survivorOfV [.ts (.ts 1), .sc 2] vSame = none ∧
          rejectedOfV [.ts (.ts 1), .sc 2] vSame = some (20, 20002) := by decide
-- `fixed_arity_beats_variadic_at_equal_specificity` is not vacuous: both accept, 10000 (de-duplicated) < 30001
example : survivorOf [.ts (.ts 1), .ts (.ts 1), .ts (.ts 1)]
              ⟨24, [.input (.var 0 [])] ++ List.replicate 2 (.input (.var 0 [])), none, none⟩
            = some ⟨⟨24, [.input (.var 0 []), .input (.var 0 []), .input (.var 0 [])], none, none⟩,
                    { ts := [(0, .ts 1)] }, 10000⟩ ∧
          (survivorOfV [.ts (.ts 1), .ts (.ts 1), .ts (.ts 1)] vSame).isSome = true := by decide
-- order independence on a mixed family, an ambiguity (`f(*~U)` twice) and a no-match
example : resolveCallV [vSame, vAny, .fixed f3] [.ts (.ts 1), .ts (.ts 2), .ts (.ts 2)]
            = resolveCallV [.fixed f3, vAny, vSame] [.ts (.ts 1), .ts (.ts 2), .ts (.ts 2)] ∧
          (∃ s o, resolveCallV [vSame, vAny, .fixed f3] [.ts (.ts 1), .ts (.ts 2), .ts (.ts 2)] = .winner s o ∧
            s.ov = f3 ∧ s.rank = 20000) := by
  refine ⟨by decide, ⟨f3, { ts := [(1, .ts 2), (0, .ts 1)] }, 20000⟩, none, by decide, rfl, rfl⟩
/-- **what the variadic rank does NOT give** (as coded; the monitor's `[C19-varspec]`).  The tail pattern is ranked in
    an accumulator of its own, so a variable it SHARES with the fixed part is charged again for every tail argument,
    and the candidate pays the variadic point on top: on `(TS[int], TS[int])` the candidate `f(~T, *~T)` gets
    10000 + 10000 + 1 and LOSES against the strictly more general `f(~P, ~Q)` (20000), although the same signature
    written with fixed arity, `f(~T, ~T)`, ranks 10000 and wins; and it TIES with the more general `f(~T, *~U)`.
    This is the rank-does-not-respect-instantiation phenomenon of `rank_respects_instantiation_refuted`, here caused by
    the per-argument tail formula rather than by structure. -/
theorem variadic_shared_variable_charged_per_tail_argument :
    survivorOfV [.ts (.ts 1), .ts (.ts 1)] vSame = some ⟨vSame.ov, { ts := [(0, .ts 1)] }, 20001⟩ ∧
    operatorRank [.input (.var 0 []), .input (.var 0 [])] = 10000 ∧
    resolveCallV [vSame, .fixed ⟨30, [.input (.var 1 []), .input (.var 2 [])], none, none⟩] [.ts (.ts 1), .ts (.ts 1)]
      = .winner ⟨⟨30, [.input (.var 1 []), .input (.var 2 [])], none, none⟩, { ts := [(2, .ts 1), (1, .ts 1)] }, 20000⟩ none ∧
    resolveCallV [.fixed ⟨31, [.input (.var 0 []), .input (.var 0 [])], none, none⟩,
                  .fixed ⟨30, [.input (.var 1 []), .input (.var 2 [])], none, none⟩] [.ts (.ts 1), .ts (.ts 1)]
      = .winner ⟨⟨31, [.input (.var 0 []), .input (.var 0 [])], none, none⟩, { ts := [(0, .ts 1)] }, 10000⟩ none ∧
    (match resolveCallV [vSame, vAny] [.ts (.ts 1), .ts (.ts 1)] with
     | .ambiguous tied => tied.map (fun s => (s.ov.label, s.rank)) == [(20, 20001), (21, 20001)]
     | _ => false) = true := by decide

example : (match resolveCallV [vAny, ⟨⟨25, [.input (.var 0 [])], none, none⟩, some (.var 1 [])⟩]
              [.ts (.ts 1), .ts (.ts 2)] with
           | .ambiguous tied => tied.map (fun s => (s.ov.label, s.rank)) == [(21, 20001), (25, 20001)]
           | _ => false) = true ∧
          resolveCallV [vSame] [.ts (.ts 1), .ts (.ts 2)] = .noMatch := by decide
end examples

end HgVerif.Dispatch
