import HgVerif.Lemmas.Activity
/-!
# C03 (structured inputs, run-time activity) — user code runs exactly when a leaf under an ACTIVE position
ticked and the readiness gate holds

Model: `Model/Activity.lean` (the activity trie `TSInputActiveTarget` of `ts_input.cpp` with its prune loop,
the `locally_active` flags of the target links, the dispatch of `base_view.cpp`, the start / readiness / run
code of `node.cpp`).  Specification: a SET of active positions (`Spec.act`), `make_active p` adds `p`,
`make_passive p` removes `p`, nothing else.

Property theorems (all for ALL input trees `cfg`, ALL start-hook commands, ALL tick histories and ALL command
histories):

* `model_refines_spec`             : the sequence of "user code ran" flags of the model is the specification's.
* `active_tracks_commands`         : what `active()` reports for every position, after any history, is membership
                                     in the specification's set.
* `runs_iff_active_tick_and_ready` : in the cycle after any history the user code runs IFF some declared position
                                     that is in the set has a ticking source leaf under it AND the gate holds on
                                     the leaves that have ticked so far (this cycle included).
* `gate_iff`, `validAt_iff`, `spec_vals` : what the gate and the "ticked so far" list are.
* `make_passive_local` / `make_passive_self`, `make_active_local` / `make_active_self` : on the trie as coded
  (prune loop included), for every well-formed trie: only the flag of THAT position changes - not its siblings,
  not its ancestors, not its descendants.  (`make_passive_local` is what the seeded variant `makePassiveBuggy`
  falsifies: see the last example.)  `cmd_local`: the same for the probe (trie or link position).
* `parent_unaffected_by_child`, `child_unaffected_by_parent` : `active()` is the position's OWN flag.
* `make_active_passive_inverse`, `make_passive_active_inverse`.
* `make_passive_idempotent` (structural), `make_active_idempotent` (structural).
* `wf_reachable` : the tree invariant holds in every reachable state (the hypothesis of the lemmas above).
-/
namespace HgVerif.Activity

/-! ## the trie operations are local -/

/-- `make_passive` on one position leaves the flag of every OTHER position (sibling, ancestor, descendant,
position of another input) as it was - the prune loop included -/
theorem make_passive_local {t : Trie} (h : WF t) {p q : Path} (hne : q ≠ p) :
    isActive (makePassive t p) q = isActive t q := by
  rw [isActive_makePassive h]; simp [hne]

theorem make_passive_self {t : Trie} (h : WF t) (p : Path) : isActive (makePassive t p) p = false := by
  rw [isActive_makePassive h]; simp

theorem make_active_local (t : Trie) {p q : Path} (hne : q ≠ p) :
    isActive (makeActive t p) q = isActive t q := by
  rw [isActive_makeActive]; simp [hne]

theorem make_active_self (t : Trie) (p : Path) : isActive (makeActive t p) p = true := by
  rw [isActive_makeActive]; simp

/-- what `active()` reports for a parent does not depend on what was done to a child -/
theorem parent_unaffected_by_child {t : Trie} (h : WF t) (p : Path) (i : Nat) :
    isActive (makeActive t (p ++ [i])) p = isActive t p ∧
    isActive (makePassive t (p ++ [i])) p = isActive t p := by
  have hne : p ≠ p ++ [i] := by
    intro e
    have := congrArg List.length e
    simp at this
  exact ⟨make_active_local t hne, make_passive_local h hne⟩

/-- making a parent active / passive does not change what `active()` reports for a child -/
theorem child_unaffected_by_parent {t : Trie} (h : WF t) (p : Path) (i : Nat) :
    isActive (makeActive t p) (p ++ [i]) = isActive t (p ++ [i]) ∧
    isActive (makePassive t p) (p ++ [i]) = isActive t (p ++ [i]) := by
  have hne : p ++ [i] ≠ p := by
    intro e
    have := congrArg List.length e
    simp at this
  exact ⟨make_active_local t hne, make_passive_local h hne⟩

/-- `make_passive` undoes `make_active` (on the activity of every position) when the position was passive -/
theorem make_active_passive_inverse {t : Trie} (h : WF t) {p : Path} (hp : isActive t p = false) (q : Path) :
    isActive (makePassive (makeActive t p) p) q = isActive t q := by
  rw [isActive_makePassive (wf_makeActive h p), isActive_makeActive]
  by_cases e : q = p
  · subst e; simp [hp]
  · have h1 : (q == p) = false := beq_eq_false_iff_ne.mpr e
    have h2 : (q != p) = true := bne_iff_ne.mpr e
    rw [h1, h2]; simp

/-- `make_active` undoes `make_passive` when the position was active -/
theorem make_passive_active_inverse {t : Trie} (h : WF t) {p : Path} (hp : isActive t p = true) (q : Path) :
    isActive (makeActive (makePassive t p) p) q = isActive t q := by
  rw [isActive_makeActive, isActive_makePassive h]
  by_cases e : q = p
  · subst e; simp [hp]
  · have h1 : (q == p) = false := beq_eq_false_iff_ne.mpr e
    have h2 : (q != p) = true := bne_iff_ne.mpr e
    rw [h1, h2]; simp

/-- a second `make_passive` is the early return: the trie is not touched -/
theorem make_passive_idempotent {t : Trie} (h : WF t) (p : Path) :
    makePassive (makePassive t p) p = makePassive t p := by
  have hf := make_passive_self h p
  generalize makePassive t p = u at hf
  unfold makePassive
  simp [hf]

theorem foldl_ensure_of_hasNode (ps : List Path) (t : Trie) (h : ∀ q ∈ ps, hasNode t q = true) :
    ps.foldl ensure t = t := by
  induction ps with
  | nil => rfl
  | cons x xs ih =>
    simp only [List.foldl_cons]
    have : ensure t x = t := by unfold ensure; simp [h x List.mem_cons_self]
    rw [this]
    exact ih fun q hq => h q (List.mem_cons_of_mem _ hq)

theorem setFlag_setFlag (t : Trie) (p : Path) (b c : Bool) : setFlag (setFlag t p b) p c = setFlag t p c := by
  unfold setFlag
  simp [List.filter_filter]

/-- a second `make_active` changes nothing (no node is created, the flag is already set) -/
theorem make_active_idempotent (t : Trie) (p : Path) : makeActive (makeActive t p) p = makeActive t p := by
  have hn : ∀ q ∈ prefixes p, hasNode (makeActive t p) q = true := fun q hq =>
    hasNode_setFlag_mono (hasNode_foldl_ensure_mem _ _ hq)
  show setFlag (ensurePath (makeActive t p) p) p true = makeActive t p
  unfold ensurePath
  rw [foldl_ensure_of_hasNode _ _ hn]
  unfold makeActive
  exact setFlag_setFlag _ _ _ _

/-! ## the probe: every command is local, the invariant is reachable-closed -/

theorem wf_reachable (cfg : Cfg) (init : List Cmd) (hist : List Cycle) :
    WF (run cfg (start cfg init) hist).1.trie :=
  (rel_run hist (rel_start cfg init)).1.1.1

/-- one command changes what `active()` reports for its own position only (trie position or link position) -/
theorem cmd_local (cfg : Cfg) (st : St) (h : WF st.trie) (c : Cmd) {q : Path} (hne : q ≠ c.path) :
    active cfg (applyCmd cfg st c) q = active cfg st q := by
  have := (abs_applyCmd (cfg := cfg) (st := st) (a := active cfg st) ⟨h, fun _ => rfl⟩ c).2 q
  rw [this]
  unfold specCmd
  cases c.act <;> simp [hne]

theorem cmd_self (cfg : Cfg) (st : St) (h : WF st.trie) (c : Cmd) :
    active cfg (applyCmd cfg st c) c.path = c.act := by
  have := (abs_applyCmd (cfg := cfg) (st := st) (a := active cfg st) ⟨h, fun _ => rfl⟩ c).2 c.path
  rw [this]
  unfold specCmd
  cases c.act <;> simp

/-! ## the headline -/

/-- the model's run flags are the specification's, for every input tree, every start hook, every history -/
theorem model_refines_spec (cfg : Cfg) (init : List Cmd) (hist : List Cycle) :
    (run cfg (start cfg init) hist).2 = (specRun cfg (specStart cfg init) hist).2 :=
  (rel_run hist (rel_start cfg init)).2

/-- `active()` of every position, after any history, is membership in the specification's set -/
theorem active_tracks_commands (cfg : Cfg) (init : List Cmd) (hist : List Cycle) (p : Path) :
    active cfg (run cfg (start cfg init) hist).1 p = (specRun cfg (specStart cfg init) hist).1.act p :=
  (rel_run hist (rel_start cfg init)).1.1.2 p

theorem tickedUnder_iff (ticks : List (Path × Int)) (p : Path) :
    tickedUnder ticks p = true ↔ ∃ tk ∈ ticks, p <+: tk.1 := by
  simp [tickedUnder, List.any_eq_true, List.isPrefixOf_iff_prefix]

/-- the ticks seen so far, latest cycle first -/
theorem spec_vals (cfg : Cfg) (hist : List Cycle) (s : Spec) :
    (specRun cfg s hist).1.vals = hist.foldl (fun acc c => c.ticks ++ acc) s.vals := by
  induction hist generalizing s with
  | nil => rfl
  | cons c cs ih =>
    simp only [specRun, List.foldl_cons]
    rw [ih]
    congr 1
    unfold specStep
    simp only
    split <;> rfl

/-- `valid()` of a position: a declared leaf under it has ticked -/
theorem validAt_iff (cfg : Cfg) (vals : List (Path × Int)) (p : Path) :
    validAt cfg vals p = true ↔ ∃ q ∈ cfg.pos, q.arity = 0 ∧ p <+: q.path ∧ ∃ v, (q.path, v) ∈ vals := by
  simp only [validAt, List.any_eq_true, Bool.and_eq_true, beq_iff_eq, List.isPrefixOf_iff_prefix]
  constructor
  · rintro ⟨q, hq, ⟨h0, hp⟩, ⟨v, hv, e⟩⟩
    exact ⟨q, hq, h0, hp, v.2, by rw [← e]; exact hv⟩
  · rintro ⟨q, hq, h0, hp, v, hv⟩
    exact ⟨q, hq, ⟨h0, hp⟩, (q.path, v), hv, rfl⟩

/-- the readiness gate: every slot's selector holds -/
theorem gate_iff (cfg : Cfg) (vals : List (Path × Int)) :
    gateOk cfg vals = true ↔
      ∀ kg ∈ List.zip (List.range cfg.gates.length) cfg.gates, gateSlot cfg vals kg.1 kg.2 = true := by
  simp [gateOk, List.all_eq_true]

/-- THE PROPERTY.  After any history, in the next cycle `c` the user code runs iff
(1) some declared position that is ACTIVE - by the declared initial activity, the start hook and the commands
    the user code has executed so far - has a source leaf under it that ticks in `c`, and
(2) the readiness gate holds on the leaves that have ticked up to and including `c`. -/
theorem runs_iff_active_tick_and_ready (cfg : Cfg) (init : List Cmd) (hist : List Cycle) (c : Cycle) :
    (step cfg (run cfg (start cfg init) hist).1 c).2 = true ↔
      (∃ q ∈ cfg.pos, (specRun cfg (specStart cfg init) hist).1.act q.path = true ∧
          ∃ tk ∈ c.ticks, q.path <+: tk.1) ∧
      gateOk cfg (c.ticks ++ (specRun cfg (specStart cfg init) hist).1.vals) = true := by
  have hr := (rel_run hist (rel_start cfg init)).1
  rw [(rel_step hr c).2]
  unfold specStep
  simp only
  split
  · rename_i h
    simp only [Bool.and_eq_true] at h
    refine ⟨fun _ => ⟨?_, h.2⟩, fun _ => rfl⟩
    obtain ⟨q, hq, hqa⟩ := List.any_eq_true.mp h.1
    simp only [Bool.and_eq_true] at hqa
    exact ⟨q, hq, hqa.1, (tickedUnder_iff _ _).mp hqa.2⟩
  · rename_i h
    refine ⟨fun hf => by simp at hf, fun ⟨⟨q, hq, ha, ht⟩, hg⟩ => ?_⟩
    exfalso
    apply h
    simp only [Bool.and_eq_true]
    refine ⟨List.any_eq_true.mpr ⟨q, hq, ?_⟩, hg⟩
    simp only [Bool.and_eq_true]
    exact ⟨ha, (tickedUnder_iff _ _).mpr ht⟩

/-- the flag of cycle `c` in the trace of `hist ++ [c]` is that step -/
theorem run_snoc (cfg : Cfg) (st : St) (hist : List Cycle) (c : Cycle) :
    (run cfg st (hist ++ [c])).2 = (run cfg st hist).2 ++ [(step cfg (run cfg st hist).1 c).2] := by
  induction hist generalizing st with
  | nil => simp [run]
  | cons x xs ih => simp only [List.cons_append, run]; rw [ih]

/-- commands of a cycle in which the user code does not run are carried over, in order -/
theorem not_run_carries (cfg : Cfg) (st : St) (c : Cycle) (h : (step cfg st c).2 = false) :
    (step cfg st c).1.pending = st.pending ++ c.cmds ∧ (step cfg st c).1.trie = st.trie ∧
    (step cfg st c).1.link = st.link := by
  unfold step at h ⊢
  simp only at h ⊢
  split
  · rename_i hc; simp [hc] at h
  · exact ⟨rfl, rfl, rfl⟩

/-- when the user code runs it executes everything that was waiting, then this cycle's commands -/
theorem run_executes_pending (cfg : Cfg) (st : St) (c : Cycle) (h : (step cfg st c).2 = true) :
    (step cfg st c).1.pending = [] ∧
    ∀ p, active cfg (step cfg st c).1 p =
      active cfg ((st.pending ++ c.cmds).foldl (applyCmd cfg) st) p := by
  unfold step at h ⊢
  simp only at h ⊢
  split
  · refine ⟨by rw [foldl_pending], fun p => ?_⟩
    generalize st.pending ++ c.cmds = cs
    have gen : ∀ (cs : List Cmd) (a b : St), a.trie = b.trie → a.link = b.link →
        active cfg (cs.foldl (applyCmd cfg) a) p = active cfg (cs.foldl (applyCmd cfg) b) p := by
      intro cs
      induction cs with
      | nil => intro a b h1 h2; simp [active, h1, h2]
      | cons x xs ih =>
        intro a b h1 h2
        simp only [List.foldl_cons]
        apply ih
        · unfold applyCmd; split <;> simp [h1]
        · unfold applyCmd; split <;> simp [h2]
    exact gen cs _ _ rfl rfl
  · rename_i hc; simp [hc] at h

/-! ## non-vacuity -/

/-- inputs `a : tsl2n` (slot 0), `b : tsl2n` (slot 1), `c : ts` (slot 2), all active, all unchecked -/
def exCfg : Cfg :=
  { pos := [⟨[0], true, 2⟩, ⟨[0, 0], false, 0⟩, ⟨[0, 1], false, 0⟩,
            ⟨[1], true, 2⟩, ⟨[1, 0], false, 0⟩, ⟨[1, 1], false, 0⟩, ⟨[2], false, 0⟩],
    gates := [.unchecked, .unchecked, .unchecked], initActive := [true, true, true] }

/-- `b` made passive by the run of cycle 0; afterwards `a` still runs the node, `b` does not, until `act:b` -/
def exHist : List Cycle :=
  [⟨[([2], 1)], [⟨false, [1]⟩]⟩, ⟨[([0, 0], 5)], []⟩, ⟨[([1, 0], 6)], []⟩, ⟨[([2], 2)], [⟨true, [1]⟩]⟩,
   ⟨[([1, 1], 7)], []⟩]

example : (run exCfg (start exCfg []) exHist).2 = [true, true, false, true, true] := by decide

/-- a required input that is not valid yet keeps the gate closed; the command waits for the first run -/
def exCfgV : Cfg := { exCfg with gates := [.allValid, .unchecked, .valid] }

example : (run exCfgV (start exCfgV []) [⟨[([0, 0], 1)], [⟨false, [0]⟩]⟩, ⟨[([2], 1)], []⟩, ⟨[([0, 1], 1)], []⟩,
    ⟨[([0, 1], 2)], []⟩]).2 = [false, false, true, false] := by decide

example : (step exCfgV (start exCfgV []) ⟨[([0, 0], 1)], [⟨false, [0]⟩]⟩).1.pending.length = 1 := by decide

/-- a well-formed trie with two active siblings: the hypotheses of the locality lemmas are satisfiable -/
def exTrie : Trie := makeActive (makeActive [] [0]) [1]

example : WF exTrie := wf_makeActive (wf_makeActive wf_nil _) _
example : isActive exTrie [0] = true ∧ isActive exTrie [1] = true := by decide
example : isActive (makePassive exTrie [1]) [0] = true ∧ isActive (makePassive exTrie [1]) [1] = false := by decide
/-- the prune loop really runs: after the last active position goes the trie is dropped -/
example : makePassive (makePassive exTrie [1]) [0] = [] := by decide
/-- a parent with mixed children: `active()` of the parent is its own flag -/
example : isActive (makeActive (makeActive (makePassive (makeActive [] [0]) [0]) [0, 0]) [0, 1]) [0] = false := by decide

/-- the seeded variant (the prune loop erases the entry keyed by the PARENT's slot) is NOT local: making the
input in slot 1 passive silences the input in slot 0 - `make_passive_local` fails for it -/
example : isActive (makePassiveBuggy exTrie [1]) [0] = false ∧ isActive exTrie [0] = true := by decide

/-- ... and for a position in slot 0 it is accidentally right (the root's slot is 0) -/
example : isActive (makePassiveBuggy exTrie [0]) [1] = true := by decide

end HgVerif.Activity
