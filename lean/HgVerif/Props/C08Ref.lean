import HgVerif.Lemmas.FeedbackRef
/-!
# C08 × C13 — a feedback whose producer port is a REF-selected collection

About `Model/FeedbackRef.lean`: the producer port of the feedback is `if_then_else(cond, A, B)` (or a `switch_` that
forwards one of two arguments) over two independently written collections `A`, `B` of shape `TSS` / `TSD` / `TSL` /
`TSB`.  What the port "writes" in a cycle is what its consumers see (property C13): the selected target's own delta
while the selection is unchanged, the OLD-vs-NEW DIFFERENCE in the cycle in which the selection flips.

For **every** history of writes to `A`, writes to `B` and ticks of `cond` (any number of flips, flips in consecutive
cycles, flips in the cycle in which the old and / or the new target is written, first selection with one valid target,
selection before anything is valid), at consecutive smallest steps from any start time:

* `reader_delta_eq_port_delta_shifted`      : the stream of deltas the feedback source hands to `apply_delta` is the
                                              producer port's tick stream shifted by one smallest step - nothing lost
                                              (removals included), nothing invented, nothing in the cycle of the write.
* `reader_tick_is_port_tick`                : what the reader then observes is exactly that delta, except that an EMPTY
                                              port tick (a flip between targets with equal contents) does not re-tick
                                              an already valid collection.
* `reader_value_eq_selected_value_shifted`  : the reader's value after the cycle at `t + 1` is the producer port's value
                                              (= the selected target's value) after the cycle at `t`.
* `reader_value_is_fold`                    : the reader's value is the fold of the delivered deltas (no hypothesis).
* `first_cycle_silent`                      : nothing is delivered in the first cycle (no declared initial value here).

Hypotheses (`Ok`, per cycle; `GoodRun` along the run):
  `faithful` - the sink stores the port's tick; `selValid` - a flip selects a valid target (a port that loses its value
  cannot say so through a delta); `covers` (`TSB` / `TSL` only) - the newly selected target has every child valid that
  the old one had (there is no "child became invalid" delta); `carries` (`TSB` / `TSL` only) - a tick carries a child.
`faithful` is a THEOREM for the link-aware sink (`difference_faithful`: no hypothesis - `ref_feedback_exact_difference`),
and for the sink as built when no flip coincides with a tick of the newly selected target and the port is not a `TSB`
(`asBuilt_faithful`, `NoCoincidence` - `ref_feedback_exact_asBuilt`).

Counter-witnesses (concrete runs, evaluated by the kernel):
* `current_value_capture_keeps_stale` : seeded change s117 (`capture_current_delta` on a sampled re-bind): the removal is
                                        lost and the reader keeps the stale element for the rest of the run.
* `copy_path_loses_difference`        : the sink AS BUILT (finding C08-ref-A): a flip in the cycle in which the new target
                                        ticks delivers only that target's own delta.
* `bundle_copy_loses_flip`            : the sink AS BUILT on a `TSB` port (finding C08-ref-B): a flip delivers nothing.
-/
namespace HgVerif.FeedbackRef

open HgVerif.FeedbackShape

/-! ## hypotheses -/

/-- what a cycle must satisfy for the port's tick to be deliverable as a delta -/
structure Ok (c : Cfg) (s : St) (i : In) : Prop where
  faithful : storedOf c s i = portTick c.kind s i
  selValid : flips s i = true → (newTarget c.kind s i).valid = true
  covers : c.kind = .fix → flips s i = true →
    ∀ p ∈ keysOf (portVal s).items, hasKey p (newTarget c.kind s i).items = true
  carries : c.kind = .fix → ∀ d ∈ portTick c.kind s i, d.mods ≠ []

def GoodRun (c : Cfg) : Nat → St → List In → Prop
  | _, _, [] => True
  | t, s, i :: rest => Ok c s i ∧ GoodRun c (t + 1) (step c t s i).1 rest

/-- the sink as built stores the port's tick unless a flip coincides with a tick of the newly selected target
    (`if_then_else`; harmless only when that target's own delta happens to BE the difference, e.g. the first selection
    of a target in the cycle of its first write), resp. unless the port is a `TSB` -/
def NoCoincidence (c : Cfg) (s : St) (i : In) : Prop :=
  (c.kind = .fix → c.bundle = false) ∧
  (c.kind ≠ .fix → c.sw = false → flips s i = true →
    ∀ d, ownTick c.kind s i = some d → d = diff c.kind (portVal s) (newTarget c.kind s i))

theorem difference_faithful (c : Cfg) (h : c.cap = .difference) (s : St) (i : In) :
    storedOf c s i = portTick c.kind s i := by
  simp only [storedOf, sinkCapture, h]
  cases portTick c.kind s i <;> rfl

theorem asBuilt_faithful (c : Cfg) (h : c.cap = .asBuilt) (s : St) (i : In) (hn : NoCoincidence c s i) :
    storedOf c s i = portTick c.kind s i := by
  obtain ⟨hb, hf⟩ := hn
  simp only [storedOf, sinkCapture, h]
  cases hp : portTick c.kind s i with
  | none => rfl
  | some p =>
    simp only [Option.map_some]
    by_cases hk : c.kind = .fix
    · simp [hk, hb hk]
    · have hk' : (c.kind == Kind.fix) = false := by simpa using hk
      simp only [hk', Bool.false_eq_true, if_false]
      cases ho : ownTick c.kind s i with
      | none => rfl
      | some d =>
        by_cases hfl : flips s i = true
        · by_cases hsw : c.sw = true
          · simp [hfl, hsw]
          · have hd := hf hk (by simpa using hsw) hfl d ho
            have hsw' : c.sw = false := by simpa using hsw
            simp only [hfl, hsw', Bool.and_false, Bool.false_eq_true, if_false]
            simp only [portTick, hfl, if_true] at hp
            split at hp
            · cases hp
            · injection hp with hp; rw [hd, hp]
        · have hfl' : flips s i = false := by simpa using hfl
          simp only [hfl', Bool.false_and, Bool.false_eq_true, if_false]
          -- selection unchanged: the port's tick IS the bound target's own delta
          simp only [portTick, hfl', Bool.false_eq_true, if_false, ho] at hp
          split at hp
          · cases hp
          · injection hp with hp; rw [hp]

/-! ## one cycle -/

/-- the source's turn: the reader's new value and what it observes -/
def deliver (k : Kind) (t : Nat) (s : St) : Val × Option Delta :=
  match (sourceStep t s.fb).2 with
  | some d => applyDelta k s.rv d
  | none => (s.rv, none)

theorem step_dl (c : Cfg) (t : Nat) (s : St) (i : In) : (step c t s i).2.dl = pendOf t s := by
  simp only [step, sourceStep, pendOf]
  split <;> rfl

theorem step_w (c : Cfg) (t : Nat) (s : St) (i : In) : (step c t s i).2.w = portTick c.kind s i := rfl
theorem step_pv (c : Cfg) (t : Nat) (s : St) (i : In) : (step c t s i).2.pv = newTarget c.kind s i := rfl
theorem step_portVal (c : Cfg) (t : Nat) (s : St) (i : In) : portVal (step c t s i).1 = newTarget c.kind s i := rfl
theorem step_rv (c : Cfg) (t : Nat) (s : St) (i : In) : (step c t s i).2.rv = (deliver c.kind t s).1 := rfl
theorem step_rv' (c : Cfg) (t : Nat) (s : St) (i : In) : (step c t s i).1.rv = (deliver c.kind t s).1 := rfl
theorem step_r (c : Cfg) (t : Nat) (s : St) (i : In) : (step c t s i).2.r = (deliver c.kind t s).2 := rfl
theorem step_fb (c : Cfg) (t : Nat) (s : St) (i : In) :
    (step c t s i).1.fb = sinkStep t (storedOf c s i) (sourceStep t s.fb).1 := rfl
theorem step_a (c : Cfg) (t : Nat) (s : St) (i : In) : (step c t s i).1.a = (tickT c.kind s.a i.a).1 := rfl
theorem step_b (c : Cfg) (t : Nat) (s : St) (i : In) : (step c t s i).1.b = (tickT c.kind s.b i.b).1 := rfl

/-- the delta due in the cycle at `t`, fully effective on the reader's value, turns it into the port's value;
    nothing due: the reader already shows the port's value -/
def Pend (k : Kind) (t : Nat) (s : St) : Prop :=
  (s.fb.sched = t ∧ ∃ d, s.fb.state = some d ∧ (applyCore k s.rv d).2 = d ∧ (k = .fix → d.mods ≠ []) ∧
      LEq k (applyCore k s.rv d).1.items (portVal s).items ∧ (portVal s).valid = true)
  ∨ (s.fb.sched < t ∧ Equiv k s.rv (portVal s))

structure Inv (c : Cfg) (t : Nat) (s : St) : Prop where
  sa : Sorted s.a.items
  sb : Sorted s.b.items
  pend : Pend c.kind t s

theorem pendOf_of_lt {t : Nat} {s : St} (h : s.fb.sched < t) : pendOf t s = none := by
  simp only [pendOf]; rw [if_neg (by omega)]

/-- an empty delta -/
def Delta.isEmpty (d : Delta) : Prop := d.mods = [] ∧ d.rems = []

/-- the source's turn under `Pend`: the reader ends up with the port's value; it observes the due delta, or nothing when
    that delta is empty -/
theorem deliver_spec (k : Kind) (t : Nat) (s : St) (h : Pend k t s) :
    Equiv k (deliver k t s).1 (portVal s) ∧
    (match pendOf t s with
     | some d => (deliver k t s).2 = some d ∨ ((deliver k t s).2 = none ∧ Delta.isEmpty d)
     | none => (deliver k t s).2 = none ∧ (deliver k t s).1 = s.rv) := by
  rcases h with ⟨hs, d, hst, heff, hfix, hle, hv⟩ | ⟨hs, he⟩
  · have hsrc : (sourceStep t s.fb).2 = some d := by simp [sourceStep, hs, hst]
    have hp : pendOf t s = some d := by simp [pendOf, hs, hst]
    simp only [deliver, hsrc, hp]
    by_cases hE : hasEffect k s.rv d = true
    · simp only [applyDelta, hE, if_true]
      exact ⟨⟨by rw [applyCore_valid, hv], hle⟩, Or.inl (by rw [heff])⟩
    · have hE' : hasEffect k s.rv d = false := by simpa using hE
      simp only [applyDelta, hE', Bool.false_eq_true, if_false]
      -- no effect: the delta is empty and the reader is valid already
      have hemp : d.mods = [] ∧ d.rems = [] ∧ s.rv.valid = true := by
        cases k
        · simp only [hasEffect] at hE'
          exact absurd (by simpa using hE') (hfix rfl)
        · simp only [hasEffect] at hE'
          have : (d.mods = [] ∧ d.rems = []) ∧ s.rv.valid = true := by simpa [List.isEmpty_iff] using hE'
          exact ⟨this.1.1, this.1.2, this.2⟩
        · simp only [hasEffect] at hE'
          have hm : d.mods = [] := by
            cases hmm : d.mods with
            | nil => rfl
            | cons a r => simp [hmm] at hE'
          have hr : d.rems = [] := by
            cases hrr : d.rems with
            | nil => rfl
            | cons a r =>
              exfalso
              have hfil : d.rems.filter (fun p => hasKey p s.rv.items) = d.rems := by
                have := congrArg Delta.rems heff
                simpa [applyCore] using this
              have ha : hasKey a s.rv.items = true := by
                have : a ∈ d.rems.filter (fun p => hasKey p s.rv.items) := by rw [hfil, hrr]; simp
                exact (List.mem_filter.mp this).2
              simp [hm, hrr, ha] at hE'
          simp [hm, hr] at hE'
          exact ⟨hm, hr, hE'⟩
      obtain ⟨hm, hr, hval⟩ := hemp
      refine ⟨⟨by rw [hval, hv], ?_⟩, Or.inr ⟨by simp, hm, hr⟩⟩
      have hsame : (applyCore k s.rv d).1.items = s.rv.items := by
        cases k <;> simp [applyCore, hm, hr]
      rw [← hsame]; exact hle
  · have hne : ¬ s.fb.sched = t := by omega
    have hsrc : (sourceStep t s.fb).2 = none := by simp [sourceStep, hne]
    simp only [deliver, hsrc, pendOf_of_lt hs]
    exact ⟨he, by simp⟩

theorem tickT_sorted (k : Kind) (v : Val) (o : Option Delta) (h : Sorted v.items) : Sorted (tickT k v o).1.items := by
  cases o with
  | none => exact h
  | some ops => exact applyCore_sorted k v ops h

theorem pick_sorted (c : Option Bool) (a b : Val) (ha : Sorted a.items) (hb : Sorted b.items) :
    Sorted (pick c a b).items := by
  cases c with
  | none => exact List.Pairwise.nil
  | some x => cases x <;> simp [pick, ha, hb]

theorem newCond_of_not_flips {s : St} {i : In} (h : flips s i = false) : newCond s i = s.cond := by
  simp [newCond, h]

/-- selection unchanged and the bound target silent: the port shows what it showed -/
theorem newTarget_unchanged (k : Kind) (s : St) (i : In) (hf : flips s i = false) (ho : ownTick k s i = none) :
    newTarget k s i = portVal s := by
  simp only [newTarget, ownTick, newCond_of_not_flips hf, portVal] at *
  cases hc : s.cond with
  | none => rfl
  | some x =>
    cases x
    · simp only [hc] at ho
      cases hb : i.b with
      | none => simp [pick, tickT]
      | some ops => simp [hb, tickT] at ho
    · simp only [hc] at ho
      cases ha : i.a with
      | none => simp [pick, tickT]
      | some ops => simp [ha, tickT] at ho

/-- selection unchanged and the bound target ticks: the port's tick is that output's report, its value that output -/
theorem newTarget_own (k : Kind) (s : St) (i : In) (hf : flips s i = false) (d : Delta) (ho : ownTick k s i = some d) :
    ∃ ops, d = (applyCore k (portVal s) ops).2 ∧ newTarget k s i = (applyCore k (portVal s) ops).1 := by
  simp only [newTarget, ownTick, newCond_of_not_flips hf, portVal] at *
  cases hc : s.cond with
  | none => simp [hc] at ho
  | some x =>
    cases x
    · simp only [hc] at ho
      cases hb : i.b with
      | none => simp [hb, tickT] at ho
      | some ops =>
        simp only [hb, tickT, producerStep, Option.some.injEq] at ho
        exact ⟨ops, ho.symm, by simp [pick, tickT, producerStep]⟩
    · simp only [hc] at ho
      cases ha : i.a with
      | none => simp [ha, tickT] at ho
      | some ops =>
        simp only [ha, tickT, producerStep, Option.some.injEq] at ho
        exact ⟨ops, ho.symm, by simp [pick, tickT, producerStep]⟩

/-- **one cycle keeps the lock-step**: after the cycle at `t` the source is due at `t + 1` with exactly the port's tick
    of this cycle (idle if the port did not tick), and that delta turns the reader's value into the port's -/
theorem step_inv (c : Cfg) (t : Nat) (s : St) (i : In) (hinv : Inv c t s) (hok : Ok c s i) :
    Inv c (t + 1) (step c t s i).1 ∧ pendOf (t + 1) (step c t s i).1 = portTick c.kind s i := by
  have hsa' : Sorted (tickT c.kind s.a i.a).1.items := tickT_sorted _ _ _ hinv.sa
  have hsb' : Sorted (tickT c.kind s.b i.b).1.items := tickT_sorted _ _ _ hinv.sb
  have hR : Equiv c.kind (deliver c.kind t s).1 (portVal s) := (deliver_spec c.kind t s hinv.pend).1
  -- the source's slot after its own turn is not in the future
  have hsched : (sourceStep t s.fb).1.sched ≤ t := by
    simp only [sourceStep]
    rcases hinv.pend with ⟨hs, _⟩ | ⟨hs, _⟩
    · simp [hs]
    · have : ¬ s.fb.sched = t := by omega
      simp [this]; omega
  have hsn : Sorted (newTarget c.kind s i).items := pick_sorted _ _ _ hsa' hsb'
  suffices hp : Pend c.kind (t + 1) (step c t s i).1 ∧ pendOf (t + 1) (step c t s i).1 = portTick c.kind s i from
    ⟨⟨hsa', hsb', hp.1⟩, hp.2⟩
  cases hpt : portTick c.kind s i with
  | none =>
    have hst : storedOf c s i = none := by rw [hok.faithful, hpt]
    have hfb : (step c t s i).1.fb = (sourceStep t s.fb).1 := by rw [step_fb, hst]; rfl
    have hlt : (step c t s i).1.fb.sched < t + 1 := by rw [hfb]; omega
    refine ⟨Or.inr ⟨hlt, ?_⟩, pendOf_of_lt hlt⟩
    rw [step_rv', step_portVal]
    -- the port did not tick: it shows what it showed
    have hsame : newTarget c.kind s i = portVal s := by
      by_cases hfl : flips s i = true
      · have hv := hok.selValid hfl
        simp [portTick, hv, hfl] at hpt
      · have hfl' : flips s i = false := by simpa using hfl
        by_cases hv : (newTarget c.kind s i).valid = true
        · simp only [portTick, hv, hfl', Bool.not_true, Bool.false_eq_true, if_false] at hpt
          exact newTarget_unchanged _ _ _ hfl' hpt
        · cases ho : ownTick c.kind s i with
          | none => exact newTarget_unchanged _ _ _ hfl' ho
          | some d =>
            obtain ⟨ops, _, hn⟩ := newTarget_own _ _ _ hfl' d ho
            rw [hn, applyCore_valid] at hv
            exact absurd rfl hv
    rw [hsame]; exact hR
  | some d =>
    have hst : storedOf c s i = some d := by rw [hok.faithful, hpt]
    have hfb : (step c t s i).1.fb = { state := some d, sched := t + 1 } := by
      rw [step_fb, hst]
      simp only [sinkStep, scheduleNode_stale hsched]
    have hpend : pendOf (t + 1) (step c t s i).1 = some d := by simp [pendOf, hfb]
    refine ⟨Or.inl ⟨by rw [hfb], d, by rw [hfb], ?_⟩, hpend⟩
    rw [step_rv', step_portVal]
    have hv : (newTarget c.kind s i).valid = true := by
      by_cases hv : (newTarget c.kind s i).valid = true
      · exact hv
      · simp [portTick, hv] at hpt
    -- `d` replayed on the OLD port value gives the new one; the reader cannot be told apart from the old port value
    have key : (applyCore c.kind (portVal s) d).2 = d ∧
        LEq c.kind (applyCore c.kind (portVal s) d).1.items (newTarget c.kind s i).items := by
      by_cases hfl : flips s i = true
      · simp only [portTick, hv, hfl, Bool.not_true, Bool.false_eq_true, if_false, if_true, Option.some.injEq] at hpt
        rw [← hpt]
        exact diff_replay c.kind (portVal s) (newTarget c.kind s i) hsn (fun hk p hp => hok.covers hk hfl p (mem_keys_of_hasKey hp))
      · have hfl' : flips s i = false := by simpa using hfl
        simp only [portTick, hv, hfl', Bool.not_true, Bool.false_eq_true, if_false] at hpt
        obtain ⟨ops, hd, hn⟩ := newTarget_own _ _ _ hfl' d hpt
        rw [hn, hd]
        exact applyCore_replay c.kind (portVal s) ops
    have hc := applyCore_congr c.kind hR.2 d
    exact ⟨by rw [hc.1, key.1], fun hk => hok.carries hk d (by rw [hpt]; rfl), hc.2.trans key.2, hv⟩

/-! ## the run -/

theorem runFrom_cons (c : Cfg) (t : Nat) (s : St) (i : In) (rest : List In) :
    runFrom c t s (i :: rest) = (step c t s i).2 :: runFrom c (t + 1) (step c t s i).1 rest := rfl

/-- **no loss, duplication, reordering or same-cycle delivery**: the deltas handed to `apply_delta` are the producer
    port's ticks, each one smallest step later -/
theorem delivered_shifted (c : Cfg) (ins : List In) :
    ∀ (t : Nat) (s : St), Inv c t s → GoodRun c t s ins →
      (runFrom c t s ins).map (·.dl) = (pendOf t s :: (runFrom c t s ins).map (·.w)).dropLast := by
  induction ins with
  | nil => intro t s _ _; simp [runFrom]
  | cons i rest ih =>
    intro t s hinv hgood
    obtain ⟨hok, hrest⟩ := hgood
    obtain ⟨hinv', hpend⟩ := step_inv c t s i hinv hok
    rw [runFrom_cons]
    simp only [List.map_cons, step_dl, step_w]
    rw [ih (t + 1) _ hinv' hrest, hpend]
    cases hr : (runFrom c (t + 1) (step c t s i).1 rest).map (·.w) with
    | nil => simp
    | cons x xs => simp

/-- two value streams a consumer cannot tell apart, position by position -/
def StreamEquiv (k : Kind) : List Val → List Val → Prop
  | [], [] => True
  | x :: xs, y :: ys => Equiv k x y ∧ StreamEquiv k xs ys
  | _, _ => False

theorem values_shifted (c : Cfg) (ins : List In) :
    ∀ (t : Nat) (s : St), Inv c t s → GoodRun c t s ins →
      StreamEquiv c.kind ((runFrom c t s ins).map (·.rv)) (portVal s :: (runFrom c t s ins).map (·.pv)).dropLast := by
  induction ins with
  | nil => intro t s _ _; simp [runFrom, StreamEquiv]
  | cons i rest ih =>
    intro t s hinv hgood
    obtain ⟨hok, hrest⟩ := hgood
    obtain ⟨hinv', _⟩ := step_inv c t s i hinv hok
    have hR : Equiv c.kind (deliver c.kind t s).1 (portVal s) := (deliver_spec c.kind t s hinv.pend).1
    have := ih (t + 1) _ hinv' hrest
    rw [step_portVal] at this
    rw [runFrom_cons]
    simp only [List.map_cons, step_rv, step_pv]
    cases hr : (runFrom c (t + 1) (step c t s i).1 rest).map (·.pv) with
    | nil =>
      have hl : (runFrom c (t + 1) (step c t s i).1 rest).map (·.rv) = [] := by
        have h1 := congrArg List.length hr
        simp only [List.length_map, List.length_nil] at h1
        exact List.eq_nil_of_length_eq_zero (by simpa using h1)
      simp [hl, StreamEquiv, hR]
    | cons x xs =>
      rw [hr] at this
      simp only [List.dropLast_cons_cons]
      exact ⟨hR, this⟩

/-- what the reader observes in each cycle: the due delta, or nothing when that delta is empty / nothing is due -/
def TickOk : Option Delta → Option Delta → Prop
  | some d, r => r = some d ∨ (r = none ∧ Delta.isEmpty d)
  | none, r => r = none

def TicksOk : List (Option Delta) → List (Option Delta) → Prop
  | [], [] => True
  | d :: ds, r :: rs => TickOk d r ∧ TicksOk ds rs
  | _, _ => False

theorem observed_ok (c : Cfg) (ins : List In) :
    ∀ (t : Nat) (s : St), Inv c t s → GoodRun c t s ins →
      TicksOk ((runFrom c t s ins).map (·.dl)) ((runFrom c t s ins).map (·.r)) := by
  induction ins with
  | nil => intro t s _ _; simp [runFrom, TicksOk]
  | cons i rest ih =>
    intro t s hinv hgood
    obtain ⟨hok, hrest⟩ := hgood
    obtain ⟨hinv', _⟩ := step_inv c t s i hinv hok
    rw [runFrom_cons]
    simp only [List.map_cons, step_dl, step_r]
    refine ⟨?_, ih (t + 1) _ hinv' hrest⟩
    have h2 := (deliver_spec c.kind t s hinv.pend).2
    cases hp : pendOf t s with
    | none => rw [hp] at h2; exact h2.1
    | some d => rw [hp] at h2; exact h2

/-! ## from the start of a run -/

/-- the state of a graph that has just started: nothing written, nothing selected, the pair idle -/
def start : St := {}

theorem inv_start (c : Cfg) (t : Nat) (ht : 0 < t) : Inv c t start :=
  ⟨List.Pairwise.nil, List.Pairwise.nil, Or.inr ⟨ht, Equiv.refl _ _⟩⟩

theorem pendOf_start (t : Nat) (ht : 0 < t) : pendOf t start = none := pendOf_of_lt ht

/-- **the reader's delta stream is the producer port's delta stream, one smallest step later** (every history, any start
    time): entry `j + 1` of the delivered stream is entry `j` of the port's tick stream - removals included -, and the
    first cycle delivers nothing -/
theorem reader_delta_eq_port_delta_shifted (c : Cfg) (t : Nat) (ht : 0 < t) (ins : List In)
    (h : GoodRun c t start ins) :
    (runFrom c t start ins).map (·.dl) = (none :: (runFrom c t start ins).map (·.w)).dropLast := by
  rw [delivered_shifted c ins t start (inv_start c t ht) h, pendOf_start t ht]

/-- … and the reader observes exactly the delivered delta; an EMPTY delta does not re-tick a valid collection -/
theorem reader_tick_is_port_tick (c : Cfg) (t : Nat) (ht : 0 < t) (ins : List In) (h : GoodRun c t start ins) :
    TicksOk ((none :: (runFrom c t start ins).map (·.w)).dropLast) ((runFrom c t start ins).map (·.r)) := by
  rw [← reader_delta_eq_port_delta_shifted c t ht ins h]
  exact observed_ok c ins t start (inv_start c t ht) h

/-- **the reader's value after the cycle at `t + 1` is the selected target's value after the cycle at `t`** (a consumer
    cannot tell them apart: same validity, same members / items), for every history -/
theorem reader_value_eq_selected_value_shifted (c : Cfg) (t : Nat) (ht : 0 < t) (ins : List In)
    (h : GoodRun c t start ins) :
    StreamEquiv c.kind ((runFrom c t start ins).map (·.rv))
      (({} : Val) :: (runFrom c t start ins).map (·.pv)).dropLast :=
  values_shifted c ins t start (inv_start c t ht) h

/-- nothing reaches the reader in the first cycle: whatever is written or selected there is delivered later -/
theorem first_cycle_silent (c : Cfg) (t : Nat) (ht : 0 < t) (i : In) :
    (step c t start i).2.dl = none ∧ (step c t start i).2.r = none ∧ (step c t start i).2.rv = {} := by
  have hne : ¬ (0 : Nat) = t := by omega
  simp [step, start, sourceStep, hne]

/-- **the reader's value is the fold of the delivered deltas** (no hypothesis: whatever the sink stored) -/
theorem reader_value_is_fold (c : Cfg) (ins : List In) :
    ∀ (t : Nat) (s : St),
      (finalSt c t s ins).rv = ((runFrom c t s ins).filterMap (·.dl)).foldl (applyVal c.kind) s.rv := by
  induction ins with
  | nil => intro t s; rfl
  | cons i rest ih =>
    intro t s
    simp only [finalSt, runFrom_cons, ih]
    have hrv : (step c t s i).1.rv = (deliver c.kind t s).1 := rfl
    have hdl : (step c t s i).2.dl = (sourceStep t s.fb).2 := rfl
    rw [hrv]
    simp only [List.filterMap_cons, hdl, deliver]
    cases (sourceStep t s.fb).2 with
    | none => rfl
    | some d => simp [applyVal]

/-! ## the two sinks -/

/-- hypotheses left for the link-aware sink: only what a delta cannot express -/
structure OkValues (c : Cfg) (s : St) (i : In) : Prop where
  selValid : flips s i = true → (newTarget c.kind s i).valid = true
  covers : c.kind = .fix → flips s i = true →
    ∀ p ∈ keysOf (portVal s).items, hasKey p (newTarget c.kind s i).items = true
  carries : c.kind = .fix → ∀ d ∈ portTick c.kind s i, d.mods ≠ []

def GoodValues (c : Cfg) : Nat → St → List In → Prop
  | _, _, [] => True
  | t, s, i :: rest => OkValues c s i ∧ GoodValues c (t + 1) (step c t s i).1 rest

def NoCoincidenceRun (c : Cfg) : Nat → St → List In → Prop
  | _, _, [] => True
  | t, s, i :: rest => NoCoincidence c s i ∧ NoCoincidenceRun c (t + 1) (step c t s i).1 rest

theorem goodRun_difference (c : Cfg) (hc : c.cap = .difference) (ins : List In) :
    ∀ (t : Nat) (s : St), GoodValues c t s ins → GoodRun c t s ins := by
  induction ins with
  | nil => intro t s _; trivial
  | cons i rest ih =>
    intro t s h
    exact ⟨⟨difference_faithful c hc s i, h.1.selValid, h.1.covers, h.1.carries⟩, ih _ _ h.2⟩

theorem goodRun_asBuilt (c : Cfg) (hc : c.cap = .asBuilt) (ins : List In) :
    ∀ (t : Nat) (s : St), GoodValues c t s ins → NoCoincidenceRun c t s ins → GoodRun c t s ins := by
  induction ins with
  | nil => intro t s _ _; trivial
  | cons i rest ih =>
    intro t s h hn
    exact ⟨⟨asBuilt_faithful c hc s i hn.1, h.1.selValid, h.1.covers, h.1.carries⟩, ih _ _ h.2 hn.2⟩

/-- **the link-aware sink** (`capture_delta` whenever `delta_value()` is not link-aware - fix `c08_ref_feedback`): for
    every history of A-writes, B-writes and flips - flips in the cycle in which the new target ticks included - the
    delivered stream is the port's tick stream shifted by one step, the reader observes it, and the reader's value is
    the selected target's value one step earlier -/
theorem ref_feedback_exact_difference (c : Cfg) (hc : c.cap = .difference) (t : Nat) (ht : 0 < t) (ins : List In)
    (h : GoodValues c t start ins) :
    (runFrom c t start ins).map (·.dl) = (none :: (runFrom c t start ins).map (·.w)).dropLast ∧
    TicksOk ((none :: (runFrom c t start ins).map (·.w)).dropLast) ((runFrom c t start ins).map (·.r)) ∧
    StreamEquiv c.kind ((runFrom c t start ins).map (·.rv)) (({} : Val) :: (runFrom c t start ins).map (·.pv)).dropLast :=
  have hg := goodRun_difference c hc ins t start h
  ⟨reader_delta_eq_port_delta_shifted c t ht ins hg, reader_tick_is_port_tick c t ht ins hg,
   reader_value_eq_selected_value_shifted c t ht ins hg⟩

/-- **the sink as built**: the same, for the histories in which no flip coincides with a tick of the newly selected
    target (`if_then_else` over `TSS` / `TSD`; any history under `switch_` and for a `TSL`; never for a `TSB`) -/
theorem ref_feedback_exact_asBuilt (c : Cfg) (hc : c.cap = .asBuilt) (t : Nat) (ht : 0 < t) (ins : List In)
    (h : GoodValues c t start ins) (hn : NoCoincidenceRun c t start ins) :
    (runFrom c t start ins).map (·.dl) = (none :: (runFrom c t start ins).map (·.w)).dropLast ∧
    TicksOk ((none :: (runFrom c t start ins).map (·.w)).dropLast) ((runFrom c t start ins).map (·.r)) ∧
    StreamEquiv c.kind ((runFrom c t start ins).map (·.rv)) (({} : Val) :: (runFrom c t start ins).map (·.pv)).dropLast :=
  have hg := goodRun_asBuilt c hc ins t start h hn
  ⟨reader_delta_eq_port_delta_shifted c t ht ins hg, reader_tick_is_port_tick c t ht ins hg,
   reader_value_eq_selected_value_shifted c t ht ins hg⟩

/-! ## counter-witnesses and non-vacuity -/

/-- `TSS`: A = {1,2}, B = {2,3} written in the start cycle with A selected; an idle step; the selection flips to B while
    B is silent; two idle steps -/
def exFlip : List In :=
  [{ sel := some true, a := some { mods := [(1, 0), (2, 0)] }, b := some { mods := [(2, 0), (3, 0)] } }, {},
   { sel := some false }, {}, {}]

/-- the flip with B ticking in the same cycle (adds 7) -/
def exFlipTick : List In :=
  [{ sel := some true, a := some { mods := [(1, 0), (2, 0)] }, b := some { mods := [(2, 0), (3, 0)] } }, {},
   { sel := some false, b := some { mods := [(7, 0)] } }, {}, {}]

def cfgSet (cap : Capture) : Cfg := { kind := .set, cap := cap }

/-- the port ticks `{+3, -1}` in the flip cycle and holds `{2,3}` -/
example : ((runFrom (cfgSet .difference) 1 start exFlip).map (·.w))[2]? = some (some { mods := [(3, 0)], rems := [1] }) := by
  decide

/-- the hypotheses of the exact theorems are satisfiable: this history is a good run of the link-aware sink … -/
example : GoodValues (cfgSet .difference) 1 start exFlipTick := by
  refine ⟨⟨?_, ?_, ?_⟩, ⟨?_, ?_, ?_⟩, ⟨?_, ?_, ?_⟩, ⟨?_, ?_, ?_⟩, ⟨?_, ?_, ?_⟩, trivial⟩ <;>
    first
      | decide
      | (intro h; cases h)

/-- … and `exFlip` (no coincidence) is a good run of the sink as built -/
example : GoodValues (cfgSet .asBuilt) 1 start exFlip ∧ NoCoincidenceRun (cfgSet .asBuilt) 1 start exFlip := by
  refine ⟨⟨⟨?_, ?_, ?_⟩, ⟨?_, ?_, ?_⟩, ⟨?_, ?_, ?_⟩, ⟨?_, ?_, ?_⟩, ⟨?_, ?_, ?_⟩, trivial⟩,
          ⟨⟨?_, ?_⟩, ⟨?_, ?_⟩, ⟨?_, ?_⟩, ⟨?_, ?_⟩, ⟨?_, ?_⟩, trivial⟩⟩ <;>
    first
      | decide
      | (intro h; cases h)

/-- the link-aware sink on the flip+tick history: the reader ends with exactly B = {2,3,7} -/
example : (finalSt (cfgSet .difference) 1 start exFlipTick).rv.items = [(2, 0), (3, 0), (7, 0)] := by decide

/-- **seeded change s117**: a sampled re-bind stores the new target's CURRENT VALUE instead of the difference - the
    delivered delta has no removal (`{+2, +3}` instead of `{+3, -1}`), the reader keeps the stale element 1 for the rest
    of the run although the port holds `{2, 3}` -/
theorem current_value_capture_keeps_stale :
    ((runFrom (cfgSet .currentValue) 1 start exFlip).map (·.w))[2]? = some (some { mods := [(3, 0)], rems := [1] }) ∧
    ((runFrom (cfgSet .currentValue) 1 start exFlip).map (·.dl))[3]? = some (some { mods := [(2, 0), (3, 0)] }) ∧
    hasKey 1 (finalSt (cfgSet .currentValue) 1 start exFlip).rv.items = true ∧
    hasKey 1 (portVal (finalSt (cfgSet .currentValue) 1 start exFlip)).items = false ∧
    (finalSt (cfgSet .difference) 1 start exFlip).rv = portVal (finalSt (cfgSet .difference) 1 start exFlip) := by
  decide

/-- **finding C08-ref-A (the sink as built)**: the selection flips in the cycle in which the newly selected target ticks:
    `delta_value()` is that target's own delta `{+7}`, it is copied in place, the difference `{+3, +7, -1}` the port
    ticked with is lost: the reader ends with `{1, 2, 7}`, the port holds `{2, 3, 7}` -/
theorem copy_path_loses_difference :
    ((runFrom (cfgSet .asBuilt) 1 start exFlipTick).map (·.w))[2]? =
      some (some { mods := [(3, 0), (7, 0)], rems := [1] }) ∧
    ((runFrom (cfgSet .asBuilt) 1 start exFlipTick).map (·.dl))[3]? = some (some { mods := [(7, 0)] }) ∧
    (finalSt (cfgSet .asBuilt) 1 start exFlipTick).rv.items = [(1, 0), (2, 0), (7, 0)] ∧
    (portVal (finalSt (cfgSet .asBuilt) 1 start exFlipTick)).items = [(2, 0), (3, 0), (7, 0)] ∧
    ¬ NoCoincidenceRun (cfgSet .asBuilt) 1 start exFlipTick := by
  refine ⟨by decide, by decide, by decide, by decide, ?_⟩
  intro h
  have := h.2.2.1.2 (by decide) rfl (by decide) { mods := [(7, 0)] } (by decide)
  revert this
  decide

/-- `TSD`: A = {1 ↦ 10, 2 ↦ 20}, B = {2 ↦ 21, 3 ↦ 31}; A selected, then B (silent), B updates key 3 and erases key 2, back
    to A in the cycle in which A sets key 4 -/
def exDict : List In :=
  [{ a := some { mods := [(1, 10), (2, 20)] }, b := some { mods := [(2, 21), (3, 31)] } }, { sel := some true },
   { sel := some false }, { b := some { mods := [(3, 32)], rems := [2] } },
   { sel := some true, a := some { mods := [(4, 40)] } }, {}]

example : GoodValues { kind := .dict, cap := .difference } 1 start exDict := by
  refine ⟨⟨?_, ?_, ?_⟩, ⟨?_, ?_, ?_⟩, ⟨?_, ?_, ?_⟩, ⟨?_, ?_, ?_⟩, ⟨?_, ?_, ?_⟩, ⟨?_, ?_, ?_⟩, trivial⟩ <;>
    first
      | decide
      | (intro h; cases h)

/-- the port's ticks: first selection = everything, flip = every item of B and the removal of key 1, B's own delta, flip
    back in the cycle of A's write = every item of A (4 included) and the removal of key 3 -/
example : (runFrom { kind := .dict, cap := .difference } 1 start exDict).map (·.w) =
    [none, some { mods := [(1, 10), (2, 20)] }, some { mods := [(2, 21), (3, 31)], rems := [1] },
     some { mods := [(3, 32)], rems := [2] }, some { mods := [(1, 10), (2, 20), (4, 40)], rems := [3] }, none] := by
  decide

/-- … and the reader's values: the port's, one step later -/
example : ((runFrom { kind := .dict, cap := .difference } 1 start exDict).map (·.rv)).map (·.items) =
    [[], [], [(1, 10), (2, 20)], [(2, 21), (3, 31)], [(3, 32)], [(1, 10), (2, 20), (4, 40)]] := by
  decide

/-- `TSL`: the hypotheses `covers` / `carries` are satisfiable with a real flip (both targets have both children valid) -/
example : GoodValues { kind := .fix, cap := .asBuilt } 1 start
      [{ sel := some true, a := some { mods := [(0, 1), (1, 2)] }, b := some { mods := [(0, 10), (1, 20)] } }, {},
       { sel := some false }, { sel := some true, a := some { mods := [(1, 3)] } }, {}] ∧
    NoCoincidenceRun { kind := .fix, cap := .asBuilt } 1 start
      [{ sel := some true, a := some { mods := [(0, 1), (1, 2)] }, b := some { mods := [(0, 10), (1, 20)] } }, {},
       { sel := some false }, { sel := some true, a := some { mods := [(1, 3)] } }, {}] := by
  refine ⟨⟨⟨?_, ?_, ?_⟩, ⟨?_, ?_, ?_⟩, ⟨?_, ?_, ?_⟩, ⟨?_, ?_, ?_⟩, ⟨?_, ?_, ?_⟩, trivial⟩,
          ⟨⟨?_, ?_⟩, ⟨?_, ?_⟩, ⟨?_, ?_⟩, ⟨?_, ?_⟩, ⟨?_, ?_⟩, trivial⟩⟩ <;>
    first
      | decide
      | (intro h; exact absurd rfl h)

/-- `TSB{a,b}`: A = (1,2), B = (10,20), A selected; the selection flips to B while B is silent -/
def exBundle : List In :=
  [{ sel := some true, a := some { mods := [(0, 1), (1, 2)] }, b := some { mods := [(0, 10), (1, 20)] } }, {},
   { sel := some false }, {}, {}]

/-- **finding C08-ref-B (the sink as built, `TSB` port)**: the port ticks with both children of B, `delta_value()` of the
    bundle carries no child (none ticked by itself), the empty bundle delta is stored: the source runs and delivers
    NOTHING, the reader keeps A's values; the link-aware sink delivers the tick -/
theorem bundle_copy_loses_flip :
    ((runFrom { kind := .fix, bundle := true, cap := .asBuilt } 1 start exBundle).map (·.w))[2]? =
      some (some { mods := [(0, 10), (1, 20)] }) ∧
    ((runFrom { kind := .fix, bundle := true, cap := .asBuilt } 1 start exBundle).map (·.dl))[3]? = some (some ({} : Delta)) ∧
    ((runFrom { kind := .fix, bundle := true, cap := .asBuilt } 1 start exBundle).map (·.r))[3]? = some none ∧
    (finalSt { kind := .fix, bundle := true, cap := .asBuilt } 1 start exBundle).rv.items = [(0, 1), (1, 2)] ∧
    (finalSt { kind := .fix, bundle := true, cap := .difference } 1 start exBundle).rv.items = [(0, 10), (1, 20)] := by
  decide

end HgVerif.FeedbackRef
