import HgVerif.Lemmas.DeltaRecover
import HgVerif.Props.C20
/-!
# C20, recover / as-of stream — the state of a recording AS OF a time is the value the recorded series held then

Model: `Model/Recover.lean` — `sparseRecordEval` (the sparse `:memory:` record node), `recoverFrom` / `recover` /
`resolve` (`record_replay::recorded_seed_resolver`, the read a recovering component performs: entries in buffer
order, `break` at the first entry later than the start time, every entry applied through an output view AT ITS
OWN TIME), `sparseReplay` (the sparse branch of the replay node), `runSparse` (the graph the driver runs).
Specification side (`Lemmas/DeltaRecover.lean`): `sparseRecordHist` / `sparseEntries` (what the record node writes
for a history), `probeHist` (what a value probe sees), `tickedStates`.

`GoodHist` is the predicate of the replay theorems of `Props/C20.lean`: a history of replayable ticks with
arbitrary gaps, i.e. outside the known asymmetries A (empty tick of a valid TSS/TSD), B (bundle default that
validates a field) and C (dictionary child that never became valid).

Property theorems (every well-formed schema `s`, every good history, EVERY cycle `c` - before, at, between and
after the recorded events):

* `recover_eq_value_at`    the scratch output after the as-of fold holds the value the series held at `c`.
* `resolve_eq_value_at`    what the resolver returns (`valid ? value : nothing`) is that value, or nothing exactly
                            when the series was not yet valid at `c`.
* `asof_eq_live`           … which is what a value probe on the live stream last saw at or before `c`
                            (the equality the monitor of `tools/props/c20.py` checks on the implementation).
* `recover_eq_spec`        for time-sorted recordings the code's `break` is the specification's
                            "fold `apply` over the entries with time ≤ c"; `record_times_increasing`: recordings
                            written by the record node are strictly sorted.
* `recover_prefix_monotone` entries later than `c` never matter; `recover_all` from the last entry on the as-of
                            state is the fold of the whole recording.
* `recordSparse_graph`     the graph-level model the driver runs is the list-level one the theorems speak about;
                            `asof_graph_eq_live`: end to end for a good history used as the replay seed.
* `replaySparse_id`        the ordinary sparse replay of the recording re-records the same entries and shows the
                            same values.
* `oneView_readd_wrong`, `oneView_window_throws`, `oneView_unsound`   folding all entries through ONE output view
                            (one mutation time) is wrong: a dictionary key with a collection child that is removed
                            and added again in a later cycle comes back merged with its pre-removal content, and a
                            window with two entries throws.  The per-entry view is necessary.
-/
namespace HgVerif.Delta

/-- the value (state without per-cycle marks) the series held at the end of cycle `c`: the state of the last
    cycle `≤ c` of the history, a never-ticked endpoint before the first -/
def valueAt (s : Shape) (hist : List (St s)) (c : Nat) : St s :=
  clear s (lastD (hist.take (c + 1)) (fresh s))

theorem valueAt_get (s : Shape) (hist : List (St s)) (c : Nat) (h : c < hist.length) :
    valueAt s hist c = clear s hist[c] := by
  simp only [valueAt, lastD_take_get hist c (fresh s) h]

theorem valueAt_after (s : Shape) (hist : List (St s)) (c : Nat) (h : hist.length ≤ c + 1) :
    valueAt s hist c = clear s (lastD hist (fresh s)) := by
  simp only [valueAt, lastD_take_all hist c (fresh s) h]

/-- the specification of the as-of read: fold `apply` over the entries with time `≤ c`, in order, each in a
    cycle of its own -/
def recoverSpec {s : Shape} (rec : Recording s) (c : Nat) : St s :=
  (rec.filter fun e => decide (e.1 ≤ c)).foldl (fun st e => apply s st e.2) (fresh s)

/-! ## the as-of read -/

/-- **The state of the recording as of cycle `c` is the value the recorded series held at `c`** - for every
    schema, every good history and every cycle. -/
theorem recover_eq_value_at (s : Shape) (hs : isSchema s) (hist : List (St s)) (h : GoodHist s (fresh s) hist)
    (c : Nat) : clear s (recover (sparseRecordHist hist 0 []) c) = valueAt s hist c := by
  rw [sparseRecordHist_eq, List.nil_append]
  exact recoverFrom_hist hs.1 hs.2 c hist (fresh s) (fresh s) 0 h rfl

/-- What the resolver hands to the recovering component: the value at `c` when the series was valid by then,
    nothing otherwise. -/
theorem resolve_eq_value_at (s : Shape) (hs : isSchema s) (hist : List (St s)) (h : GoodHist s (fresh s) hist)
    (c : Nat) : resolve (sparseRecordHist hist 0 []) c =
      if valid s (valueAt s hist c) then some (valueAt s hist c) else none := by
  have hv := recover_eq_value_at s hs hist h c
  simp only [resolve]
  rw [← valid_clear s (recover (sparseRecordHist hist 0 []) c), hv]

/-- The as-of read agrees, at every cycle, with what a value probe on the live stream last saw at or before
    that cycle (nothing = the probe has not seen a valid tick yet). -/
theorem asof_eq_live (s : Shape) (hs : isSchema s) (hist : List (St s)) (h : GoodHist s (fresh s) hist) (c : Nat) :
    resolve (sparseRecordHist hist 0 []) c = liveAt (probeHist s hist 0) c := by
  rw [resolve_eq_value_at s hs hist h c]
  have hp := probe_hist c hist (fresh s) 0 none h (by simp [optVal, valid_fresh])
  simp only [liveAt, hp, Nat.sub_zero]
  simp only [valueAt, optVal, valid_clear]

/-! ## structure of the fold -/

theorem recoverFrom_eq_fold (s : Shape) (c : Nat) : ∀ (rec : Recording s) (st : St s),
    rec.Pairwise (fun a b => a.1 ≤ b.1) →
    recoverFrom s c st rec = (rec.filter fun e => decide (e.1 ≤ c)).foldl (fun st e => apply s st e.2) st
  | [], _, _ => rfl
  | e :: es, st, h => by
      rw [List.pairwise_cons] at h
      by_cases hc : c < e.1
      · have hnil : (e :: es).filter (fun x => decide (x.1 ≤ c)) = [] := by
          rw [List.filter_eq_nil_iff]
          intro x hx
          simp only [List.mem_cons] at hx
          rcases hx with rfl | hx
          · simp; omega
          · have := h.1 x hx
            simp; omega
        simp [recoverFrom, hc, hnil]
      · have hle : e.1 ≤ c := Nat.le_of_not_lt hc
        simp only [recoverFrom, hc, ↓reduceIte, List.filter_cons, hle, decide_true, List.foldl_cons]
        exact recoverFrom_eq_fold s c es _ h.2

/-- For a time-sorted recording the resolver's loop (`break` at the first later entry) computes the
    specification: the fold of `apply` over the entries with time `≤ c`. -/
theorem recover_eq_spec {s : Shape} (rec : Recording s) (c : Nat) (h : rec.Pairwise (fun a b => a.1 ≤ b.1)) :
    recover rec c = recoverSpec rec c :=
  recoverFrom_eq_fold s c rec (fresh s) h

/-- The record node writes one entry per ticking cycle, in strictly increasing time order (so every entry gets
    a cycle of its own when it is applied at its own time). -/
theorem record_times_increasing {s : Shape} (hist : List (St s)) :
    (sparseRecordHist hist 0 []).Pairwise (fun a b => a.1 < b.1) := by
  rw [sparseRecordHist_eq, List.nil_append]
  exact sparseEntries_increasing s hist 0

theorem recoverFrom_append_later (s : Shape) (c : Nat) (later : Recording s) (hl : ∀ e ∈ later, c < e.1) :
    ∀ (rec : Recording s) (st : St s), recoverFrom s c st (rec ++ later) = recoverFrom s c st rec
  | [], st => by simpa [recoverFrom] using recoverFrom_later s c st later hl
  | e :: es, st => by
      simp only [List.cons_append, recoverFrom]
      split
      · rfl
      · exact recoverFrom_append_later s c later hl es _

/-- The as-of state at `c` depends only on the part of the recording up to `c`: entries appended later
    (a recording that keeps growing, a later run appending to it) never change it. -/
theorem recover_prefix_monotone {s : Shape} (rec later : Recording s) (c : Nat) (hl : ∀ e ∈ later, c < e.1) :
    recover (rec ++ later) c = recover rec c :=
  recoverFrom_append_later s c later hl rec (fresh s)

/-- From the last entry on, the as-of state is the fold of the whole recording. -/
theorem recover_all {s : Shape} (rec : Recording s) (c : Nat) (h : ∀ e ∈ rec, e.1 ≤ c) :
    recover rec c = rec.foldl (fun st e => apply s st e.2) (fresh s) := by
  have key : ∀ (rec : Recording s) (st : St s), (∀ e ∈ rec, e.1 ≤ c) →
      recoverFrom s c st rec = rec.foldl (fun st e => apply s st e.2) st := by
    intro rec
    induction rec with
    | nil => intro st _; rfl
    | cons e es ih =>
      intro st h
      have he := h e List.mem_cons_self
      simp only [recoverFrom, show ¬ c < e.1 from by omega, ↓reduceIte, List.foldl_cons]
      exact ih _ (fun x hx => h x (List.mem_cons_of_mem _ hx))
  exact key rec (fresh s) h

/-! ## the graphs the driver runs -/

/-- The graph `replay(seed) → sparse record + probe` (node-level model, as the engine schedules it) writes the
    list-level recording of the replay source's per-cycle states, and the probe sees their values. -/
theorem recordSparse_graph {s : Shape} (inp : Buffer s) (h : inp ≠ []) :
    recordSparse inp = (sparseRecordHist (replayStates s (fresh s) inp) 0 [],
                        probeHist s (replayStates s (fresh s) inp) 0) := by
  have hl : 0 < inp.length := List.length_pos_iff.mpr h
  have := runSparse_spec inp (inp.length + 1) 0 (fresh s) [] [] hl (by omega)
  simpa [recordSparse, sparseRecordHist_eq] using this

/-- End to end for the first graph of the driver: a good history fed in as the (dense) replay seed, recorded
    sparsely and probed.  At every cycle the as-of read of the recording is what the probe last saw. -/
theorem asof_graph_eq_live (s : Shape) (hs : isSchema s) (hist : List (St s)) (h : GoodHist s (fresh s) hist)
    (hne : recordHist hist 0 [] ≠ []) (c : Nat) :
    resolve (recordSparse (recordHist hist 0 [])).1 c = liveAt (recordSparse (recordHist hist 0 [])).2 c := by
  rw [recordSparse_graph _ hne, replay_states s hs hist h]
  exact asof_eq_live s hs _ (goodHist_take hist (fresh s) _ h) c

/-- The ordinary (sparse) replay of the recording of a good history, recorded again, gives the same recording,
    and the replayed stream shows the same values in the same cycles. -/
theorem replaySparse_id (s : Shape) (hs : isSchema s) (hist : List (St s)) (h : GoodHist s (fresh s) hist) :
    replaySparse (sparseRecordHist hist 0 []) = (sparseRecordHist hist 0 [], probeHist s hist 0) := by
  rw [sparseRecordHist_eq, List.nil_append]
  simp only [replaySparse]
  rw [sparseReplay_hist hs.1 hs.2 hist (fresh s) (fresh s) 0 0 h rfl (Nat.le_refl _)]
  rw [record_ticked _ [] (tickedStates_modified s hist 0), List.nil_append, ← sparseEntries_eq_map,
    ← probeHist_eq_filterMap]

/-! ## the per-entry view is necessary: folding everything through ONE view is wrong -/

namespace Witness
/-- `TSD<Int, TSS<Int>>` over keys {0,1}, elements {0,1,2} -/
def sR : Shape := .tsd false 2 (.tss false 3)
def cA : SetSt :=
  { valid := true, mod := true, elems := [true, false, false], added := [true, false, false], removed := [false, false, false] }
def cB : SetSt :=
  { valid := true, mod := true, elems := [false, true, false], added := [false, true, false], removed := [false, false, false] }
/-- cycle 0: key 0 appears with child {0} -/
def hR0 : DictSt SetSt := { valid := true, mod := true, slots := [some cA, none], removed := [false, false] }
/-- cycle 1: key 0 is removed -/
def hR1 : DictSt SetSt := { valid := true, mod := true, slots := [none, none], removed := [true, false] }
/-- cycle 2: key 0 is added again, with child {1} -/
def hR2 : DictSt SetSt := { valid := true, mod := true, slots := [some cB, none], removed := [false, false] }
def histR : List (St sR) := [hR0, hR1, hR2]
def recR : Recording sR := sparseRecordHist histR 0 []

/-- `TSW<Int, 3>`: two ticks -/
def sWin : Shape := .tsw false 3
def hW0 : Leaf (List Nat) := { val := [1], mod := true }
def hW1 : Leaf (List Nat) := { val := [1, 2], mod := true }
def histW : List (St sWin) := [hW0, hW1]
def recW : Recording sWin := sparseRecordHist histW 0 []

/-- `V1 sR` / `V1 sWin` spelled out (so that equality on them is decidable by instance search) -/
abbrev VR := Bool × List (Slot (Bool × List Bool))
def viewR (x : V1 sR) : VR := x
def viewRo (x : Option (V1 sR)) : Option VR := x
def viewWo (x : Option (V1 sWin)) : Option (List Nat × Bool) := x

theorem goodR : GoodHist sR (fresh sR) histR := by
  refine ⟨?_, ?_, ?_, trivial⟩
  · right
    refine ⟨rfl, rfl, ⟨⟨rfl, ?_, rfl⟩, rfl, trivial⟩, Or.inr (Or.inl (by decide))⟩
    exact Or.inr ⟨rfl, rfl, ⟨rfl, rfl, rfl, rfl, rfl, rfl, trivial⟩, Or.inl (by decide)⟩
  · right
    exact ⟨rfl, rfl, ⟨⟨rfl, rfl⟩, rfl, trivial⟩, Or.inl (by decide)⟩
  · right
    refine ⟨rfl, rfl, ⟨⟨rfl, ?_, rfl⟩, rfl, trivial⟩, Or.inr (Or.inl (by decide))⟩
    exact Or.inr ⟨rfl, rfl, ⟨rfl, rfl, rfl, rfl, rfl, rfl, trivial⟩, Or.inl (by decide)⟩

theorem goodW : GoodHist sWin (fresh sWin) histW :=
  ⟨Or.inl ⟨rfl, by decide, 1, rfl⟩, Or.inl ⟨rfl, by decide, 2, rfl⟩, trivial⟩
end Witness

open Witness in
/-- A dictionary of sets: key 0 appears with {0}, is removed in the next cycle and added again with {1} one cycle
    later (a good history).  Read as of cycle 2 with every entry at its own time the recording gives
    `{0: {1}}` - the value the series held.  The same entries folded through ONE output view give `{0: {0, 1}}`:
    the slot erased "a moment ago" is revived with its old child. -/
theorem oneView_readd_wrong :
    isSchema sR ∧ GoodHist sR (fresh sR) histR ∧
    viewR (toV1 sR (recover recR 2)) = (true, [Slot.live (true, [false, true, false]), Slot.absent]) ∧
    viewR (toV1 sR (valueAt sR histR 2)) = (true, [Slot.live (true, [false, true, false]), Slot.absent]) ∧
    viewRo (recoverOneView recR 2) = some (true, [Slot.live (true, [true, true, false]), Slot.absent]) :=
  ⟨⟨rfl, rfl⟩, goodR, by decide, by decide, by decide⟩

open Witness in
/-- A window with two recorded ticks: each entry at its own time gives `[1, 2]`; through one view the second
    push throws (`push allows only one window tick per evaluation time`). -/
theorem oneView_window_throws :
    isSchema sWin ∧ GoodHist sWin (fresh sWin) histW ∧
    (recover recW 1 : Leaf (List Nat)).val = [1, 2] ∧
    viewWo (recoverOneView recW 1) = none :=
  ⟨⟨rfl, rfl⟩, goodW, by decide, by decide⟩

open Witness in
/-- Hence "fold all entries up to `c` through one view" does NOT compute the value at `c` for all good
    histories - the statement `recover_eq_value_at` is false for it. -/
theorem oneView_unsound :
    ¬ (∀ (s : Shape) (hist : List (St s)) (c : Nat), isSchema s → GoodHist s (fresh s) hist →
        recoverOneView (sparseRecordHist hist 0 []) c = some (toV1 s (valueAt s hist c))) := by
  intro hall
  have h := hall sR histR 2 ⟨rfl, rfl⟩ goodR
  have h1 := oneView_readd_wrong.2.2.2.2
  have h2 := oneView_readd_wrong.2.2.2.1
  have h3 : viewRo (recoverOneView recR 2) = some (viewR (toV1 sR (valueAt sR histR 2))) := h
  rw [h1, h2] at h3
  exact absurd h3 (by decide)

/-! ## non-vacuity -/

section Examples
open Witness

/-- the as-of read of the witness recording at every cycle 0 … 4 (`none` would be "no value") -/
example : (List.range 5).map (fun c => (resolve recR c).map fun st => viewR (toV1 sR st)) =
    [some (true, [Slot.live (true, [true, false, false]), Slot.absent]),
     some (true, [Slot.absent, Slot.absent]),
     some (true, [Slot.live (true, [false, true, false]), Slot.absent]),
     some (true, [Slot.live (true, [false, true, false]), Slot.absent]),
     some (true, [Slot.live (true, [false, true, false]), Slot.absent])] := by decide

/-- a history with a leading gap: nothing to recover before the first tick -/
example : GoodHist sWin (fresh sWin) [clear sWin (fresh sWin), hW0] ∧
    (resolve (sparseRecordHist (s := sWin) [clear sWin (fresh sWin), hW0] 0 []) 0).isNone = true ∧
    (resolve (sparseRecordHist (s := sWin) [clear sWin (fresh sWin), hW0] 0 []) 1).isSome = true :=
  ⟨⟨Or.inr rfl, Or.inl ⟨rfl, by decide, 1, rfl⟩, trivial⟩, by decide, by decide⟩

end Examples

end HgVerif.Delta
