import HgVerif.Model.RefLinkChain
import HgVerif.Props.C13
/-!
# C13 — chained references: a selection tree is one reference to the resolved target

Model: `Model/RefLinkChain.lean` (one `nodeStep` = one evaluation of `if_then_else_impl::eval` /
`if_cmp_impl::eval` per node and cycle, bottom-up; the root's publication is the selector of the flat
model `Model/RefLink.lean`).  Everything is for ALL trees, ALL selector / tick histories.

* `chain_out_spec` : the event-driven publication (guard on `condition.modified() || selected.modified()`,
  early return on an unset branch, same-reference de-duplication) computes, for every node of every tree
  in every cycle, the STATE-BASED reading `specChain`: a node designates what its selected branch
  designates; a node whose selector is unset or whose selected branch designates nothing keeps what it
  designated before.  The tick flag is exact (`ticked ↔ the designation changed`).  This is the statement
  the seeded defect s16 (`if (!condition.modified()) return;`) breaks.
* `chain_inv` : the invariant behind it (`ChainInv`: a node with a valid selector whose selected branch
  designates `r` designates `r`; root designation = REF value of the flat model; `Inv` of the flat model)
  holds in every reachable state of the composed system.
* `chain_out_resolved` : whenever following the current selections from the root reaches a target
  (`resolve = some t`), the root designates exactly that target.
* `chain_equals_resolved` : a cycle of the composed system IS a cycle of the single-reference model whose
  selector input is the root's designation (re-published every cycle - `select` de-duplicates); when the
  selections resolve, it is the cycle of a single reference to the resolved target.  All per-cycle theorems
  of `Props/C13.lean` therefore apply to chains; the three named in the property are instantiated:
  `chain_retarget_samples`, `chain_unchanged_silent`, `chain_reads_designated`.
* `staleExample` : the designation is NOT `resolve` when the selections do not resolve - the old
  reference stays (as in the code and in hgraph's Python `if_then_else`).
-/
namespace HgVerif.RefLink

/-! ## one node -/

/-- the state-based reading of one node: what it designates after the cycle, from the designations of its
branches after the cycle -/
def specNode (n : SelNode) (ctick : Option Nat) (kids : List (Option Nat)) : Option Nat :=
  match newCond n ctick with
  | none => n.out
  | some b =>
    match pick b kids with
    | some (some r) => some r
    | _ => n.out

/-- a node with a valid selector whose selected branch designates `r` designates `r` -/
def NodeInv (n : SelNode) (kids : List (Option Nat)) : Prop :=
  ∀ b r, n.cond = some b → pick b kids = some (some r) → n.out = some r

theorem pick_map {α β : Type} (f : α → β) (b : Nat) (l : List α) : pick b (l.map f) = (pick b l).map f := by
  simp [pick]

/-- **one evaluation of the operator is the state-based reading**, provided the node was consistent with
its branches before (`NodeInv` on the old designations) and a branch whose REF did not tick designates what
it did (`hacc`). -/
theorem nodeStep_spec (n : SelNode) (ctick : Option Nat) (kids : List (Option Nat × Bool))
    (old : List (Option Nat))
    (hacc : ∀ b o, pick b kids = some (o, false) → pick b old = some o)
    (hinv : NodeInv n old) :
    (nodeStep n ctick kids).1.out = specNode n ctick (kids.map (·.1)) ∧
    (nodeStep n ctick kids).1.cond = newCond n ctick ∧
    ((nodeStep n ctick kids).2 = true ↔ (nodeStep n ctick kids).1.out ≠ n.out) ∧
    NodeInv (nodeStep n ctick kids).1 (kids.map (·.1)) := by
  cases hc : newCond n ctick with
  | none =>
    have hcn : n.cond = none := by
      cases ctick <;> simp_all [newCond]
    have hns : nodeStep n ctick kids = (n, false) := by simp only [nodeStep, hc]
    rw [hns]
    refine ⟨?_, hcn, by simp, ?_⟩
    · simp only [specNode, hc]
    · intro b r hb
      rw [hcn] at hb
      cases hb
  | some b =>
    cases hp : pick b kids with
    | none =>
      have hns : nodeStep n ctick kids = ({ cond := some b, out := n.out }, false) := by
        simp only [nodeStep, hc, hp]
      rw [hns]
      refine ⟨?_, rfl, by simp, ?_⟩
      · simp only [specNode, hc, pick_map, hp, Option.map_none]
      · intro b' r' hb' hr'
        cases hb'
        rw [pick_map, hp] at hr'
        simp at hr'
    | some x =>
      obtain ⟨ref, tk⟩ := x
      have hspec : specNode n ctick (kids.map (·.1)) = match ref with
          | some r => some r
          | none => n.out := by
        simp only [specNode, hc, pick_map, hp, Option.map_some]
        cases ref <;> rfl
      have hinv' : ∀ o : Option Nat, (∀ r, ref = some r → o = some r) →
          NodeInv { cond := some b, out := o } (kids.map (·.1)) := by
        intro o ho b' r' hb' hr'
        cases hb'
        rw [pick_map, hp] at hr'
        exact ho r' (by simpa using hr')
      rw [hspec]
      by_cases hg : (ctick.isSome || tk) = true
      · cases ref with
        | none =>
          have hns : nodeStep n ctick kids = ({ cond := some b, out := n.out }, false) := by
            simp only [nodeStep, hc, hp, hg, Bool.not_true, Bool.false_eq_true, if_false]
          rw [hns]
          exact ⟨rfl, rfl, by simp, hinv' _ (by intro r hr; cases hr)⟩
        | some r =>
          by_cases he : n.out = some r
          · have hns : nodeStep n ctick kids = ({ cond := some b, out := n.out }, false) := by
              simp only [nodeStep, hc, hp, hg, Bool.not_true, Bool.false_eq_true, if_false, he, if_true]
            rw [hns]
            exact ⟨he, rfl, by simp, hinv' _ (by intro r' hr; cases hr; exact he)⟩
          · have hns : nodeStep n ctick kids = ({ cond := some b, out := some r }, true) := by
              simp only [nodeStep, hc, hp, hg, Bool.not_true, Bool.false_eq_true, if_false, he]
            rw [hns]
            exact ⟨rfl, rfl, by simp only [true_iff]; exact fun e => he e.symm,
              hinv' _ (by intro r' hr; cases hr; rfl)⟩
      · have hg' : (ctick.isSome || tk) = false := by simpa using hg
        have hns : nodeStep n ctick kids = ({ cond := some b, out := n.out }, false) := by
          simp only [nodeStep, hc, hp, hg', Bool.not_false, if_true]
        rw [hns]
        have hct : ctick = none := by
          cases ctick <;> simp_all
        have htk : tk = false := by
          cases tk <;> simp_all
        subst hct htk
        have hcn : n.cond = some b := by simpa [newCond] using hc
        have hold := hacc b ref hp
        have hout : ∀ r, ref = some r → n.out = some r := by
          intro r hr
          subst hr
          exact hinv b r hcn hold
        refine ⟨?_, rfl, by simp, hinv' _ hout⟩
        cases ref with
        | none => rfl
        | some r => exact hout r rfl

/-- a publication always carries a reference -/
theorem nodeStep_tick_some (n : SelNode) (ctick : Option Nat) (kids : List (Option Nat × Bool))
    (h : (nodeStep n ctick kids).2 = true) : ∃ r, (nodeStep n ctick kids).1.out = some r := by
  unfold nodeStep at h ⊢
  repeat' split
  all_goals simp_all

/-! ## the tree -/

/-- every selection node is consistent with the designations of its branches -/
def ChainInv : Chain → Prop
  | .leaf _ => True
  | .ite _ st l r => NodeInv st [l.out, r.out] ∧ ChainInv l ∧ ChainInv r
  | .cmp _ st a b c => NodeInv st [a.out, b.out, c.out] ∧ ChainInv a ∧ ChainInv b ∧ ChainInv c
  | .pass k => ChainInv k

/-- the state-based reading of a tree: the designation of its root after the cycle -/
def specChain (cin : Nat → Option Nat) : Chain → Option Nat
  | .leaf t => some t
  | .ite id st l r => specNode st (cin id) [specChain cin l, specChain cin r]
  | .cmp id st a b c => specNode st (cin id) [specChain cin a, specChain cin b, specChain cin c]
  | .pass k => specChain cin k

/-- following the current selections from the root (`none` when a selector on the way is unset) -/
def resolve : Chain → Option Nat
  | .leaf t => some t
  | .ite _ st l r =>
    match st.cond with
    | some 0 => resolve l
    | some 1 => resolve r
    | _ => none
  | .cmp _ st a b c =>
    match st.cond with
    | some 0 => resolve a
    | some 1 => resolve b
    | some 2 => resolve c
    | _ => none
  | .pass k => resolve k

/-- all nodes in their initial state -/
def Chain.Fresh : Chain → Prop
  | .leaf _ => True
  | .ite _ st l r => st = {} ∧ l.Fresh ∧ r.Fresh
  | .cmp _ st a b c => st = {} ∧ a.Fresh ∧ b.Fresh ∧ c.Fresh
  | .pass k => k.Fresh

theorem chainInv_fresh {c : Chain} (h : c.Fresh) : ChainInv c := by
  induction c with
  | leaf t => trivial
  | ite id st l r ihl ihr =>
    obtain ⟨hs, hl, hr⟩ := h
    subst hs
    exact ⟨(by intro b r hb; cases hb), ihl hl, ihr hr⟩
  | cmp id st a b c iha ihb ihc =>
    obtain ⟨hs, ha, hb, hc⟩ := h
    subst hs
    exact ⟨(by intro b' r hb'; cases hb'), iha ha, ihb hb, ihc hc⟩
  | pass k ih => exact ih h

/-- the accuracy of the tick flags of the stepped branches, in the form `nodeStep_spec` wants -/
theorem acc2 {o1 o2 p1 p2 : Option Nat} {t1 t2 : Bool} (h1 : t1 = false → o1 = p1) (h2 : t2 = false → o2 = p2) :
    ∀ b o, pick b [(o1, t1), (o2, t2)] = some (o, false) → pick b [p1, p2] = some o := by
  intro b o hb
  match b with
  | 0 =>
    simp only [pick, List.getElem?_cons_zero, Option.some.injEq, Prod.mk.injEq] at hb ⊢
    rw [← hb.1]; exact (h1 hb.2).symm
  | 1 =>
    simp only [pick, List.getElem?_cons_succ, List.getElem?_cons_zero, Option.some.injEq, Prod.mk.injEq] at hb ⊢
    rw [← hb.1]; exact (h2 hb.2).symm
  | n + 2 => simp [pick] at hb

theorem acc3 {o1 o2 o3 p1 p2 p3 : Option Nat} {t1 t2 t3 : Bool} (h1 : t1 = false → o1 = p1)
    (h2 : t2 = false → o2 = p2) (h3 : t3 = false → o3 = p3) :
    ∀ b o, pick b [(o1, t1), (o2, t2), (o3, t3)] = some (o, false) → pick b [p1, p2, p3] = some o := by
  intro b o hb
  match b with
  | 0 =>
    simp only [pick, List.getElem?_cons_zero, Option.some.injEq, Prod.mk.injEq] at hb ⊢
    rw [← hb.1]; exact (h1 hb.2).symm
  | 1 =>
    simp only [pick, List.getElem?_cons_succ, List.getElem?_cons_zero, Option.some.injEq, Prod.mk.injEq] at hb ⊢
    rw [← hb.1]; exact (h2 hb.2).symm
  | 2 =>
    simp only [pick, List.getElem?_cons_succ, List.getElem?_cons_zero, Option.some.injEq, Prod.mk.injEq] at hb ⊢
    rw [← hb.1]; exact (h3 hb.2).symm
  | n + 3 => simp [pick] at hb

/-- a tick flag that is `false` although it is exact: the designation did not change -/
theorem unchanged_of_flag {b : Bool} {o p : Option Nat} (h : b = true ↔ o ≠ p) (hb : b = false) : o = p := by
  apply Decidable.of_not_not
  intro hne
  rw [h.mpr hne] at hb
  cases hb

/-- **chain_out_spec**: in every cycle, for every tree whose nodes are consistent (`ChainInv`, which holds
in every reachable state - `chain_inv`), the event-driven evaluation of the operators publishes exactly the
state-based reading `specChain`; the root's tick flag says exactly whether its designation changed; the
tree stays consistent. -/
theorem chain_out_spec (cin : Nat → Option Nat) (c : Chain) (h : ChainInv c) :
    (stepChain cin c).1.out = specChain cin c ∧
    ((stepChain cin c).2 = true ↔ (stepChain cin c).1.out ≠ c.out) ∧
    ChainInv (stepChain cin c).1 := by
  induction c with
  | leaf t => simp [stepChain, specChain, Chain.out, ChainInv]
  | ite id st l r ihl ihr =>
    obtain ⟨hn, hl, hr⟩ := h
    obtain ⟨l1, l2, l3⟩ := ihl hl
    obtain ⟨r1, r2, r3⟩ := ihr hr
    have hacc := acc2 (unchanged_of_flag l2) (unchanged_of_flag r2)
    obtain ⟨s1, _, s3, s4⟩ := nodeStep_spec st (cin id) _ _ hacc hn
    refine ⟨?_, ?_, ?_, l3, r3⟩
    · simp only [stepChain, Chain.out, specChain]
      rw [s1]; simp [l1, r1]
    · simp only [stepChain, Chain.out]; exact s3
    · simpa [stepChain, Chain.out] using s4
  | cmp id st a b c iha ihb ihc =>
    obtain ⟨hn, ha, hb, hc⟩ := h
    obtain ⟨a1, a2, a3⟩ := iha ha
    obtain ⟨b1, b2, b3⟩ := ihb hb
    obtain ⟨c1, c2, c3⟩ := ihc hc
    have hacc := acc3 (unchanged_of_flag a2) (unchanged_of_flag b2) (unchanged_of_flag c2)
    obtain ⟨s1, _, s3, s4⟩ := nodeStep_spec st (cin id) _ _ hacc hn
    refine ⟨?_, ?_, ?_, a3, b3, c3⟩
    · simp only [stepChain, Chain.out, specChain]
      rw [s1]; simp [a1, b1, c1]
    · simp only [stepChain, Chain.out]; exact s3
    · simpa [stepChain, Chain.out] using s4
  | pass k ih =>
    obtain ⟨k1, k2, k3⟩ := ih h
    exact ⟨by simpa [stepChain, Chain.out, specChain] using k1, by simpa [stepChain, Chain.out] using k2,
      by simpa [stepChain, ChainInv] using k3⟩

theorem stepChain_tick_some (cin : Nat → Option Nat) (c : Chain) (h : (stepChain cin c).2 = true) :
    ∃ r, (stepChain cin c).1.out = some r := by
  induction c with
  | leaf t => simp [stepChain] at h
  | ite id st l r _ _ => exact nodeStep_tick_some _ _ _ h
  | cmp id st a b c _ _ _ => exact nodeStep_tick_some _ _ _ h
  | pass k ih => exact ih h

/-- **chain_out_resolved**: when following the current selections reaches a target, the root designates
exactly that target (in every consistent, hence every reachable, tree). -/
theorem chain_out_resolved {c : Chain} (h : ChainInv c) {t : Nat} (hr : resolve c = some t) : c.out = some t := by
  induction c with
  | leaf u => simpa [resolve, Chain.out] using hr
  | ite id st l r ihl ihr =>
    obtain ⟨hn, hl, hr'⟩ := h
    simp only [resolve] at hr
    split at hr
    · rename_i hc
      exact hn 0 t hc (by simp [pick, ihl hl hr])
    · rename_i hc
      exact hn 1 t hc (by simp [pick, ihr hr' hr])
    · cases hr
  | cmp id st a b c iha ihb ihc =>
    obtain ⟨hn, ha, hb, hc'⟩ := h
    simp only [resolve] at hr
    split at hr
    · rename_i hc
      exact hn 0 t hc (by simp [pick, iha ha hr])
    · rename_i hc
      exact hn 1 t hc (by simp [pick, ihb hb hr])
    · rename_i hc
      exact hn 2 t hc (by simp [pick, ihc hc' hr])
    · cases hr
  | pass k ih => exact ih h hr

/-! ## the composed system -/

/-- invariant of the composed system: consistent tree, root designation = REF value below it, `Inv` of the
flat model -/
structure CInv (x : CSys) : Prop where
  chain : ChainInv x.chain
  ref : x.s.ref = x.chain.out
  flat : Inv x.s

inductive CReach (cfg : Cfg) (c0 : Chain) : CSys → Prop
  | init : CReach cfg c0 { chain := c0, s := init cfg }
  | step {x : CSys} (inp : CIn) : CReach cfg c0 x → CReach cfg c0 (cycleC x inp).1

/-- the REF value after a cycle of the flat model -/
theorem cycle_ref (s : State) (inp : CycleIn) :
    (cycle s inp).1.ref = match inp.sel with
      | some i => some i
      | none => s.ref := by
  have f := afterTicks_frame s inp
  show (cycleMid s inp).ref = _
  rw [cycleMid_eq]
  rcases select_cases (afterTicks s inp) inp.sel with ⟨e, hs⟩ | ⟨i, hsel, _, e⟩
  · rw [e, f.2.2.2.2.1]
    rcases hs with hs | hs
    · rw [hs]
    · rw [hs, f.2.2.2.2.1]
      cases s.ref <;> rfl
  · rw [e, hsel]
    have g := retargetAll_frame i (List.range (afterTicks s inp).nC)
      { afterTicks s inp with ref := some i, refLmt := (afterTicks s inp).now,
                               sched := (afterTicks s inp).sched ++ (afterTicks s inp).resample }
    rw [g.2.2.2.2.1]

/-- re-publishing the current reference is the same cycle as publishing nothing -/
theorem cycle_sel_ref (s : State) (ticks : Nat → Option Delta) :
    cycle s { sel := s.ref, ticks := ticks } = cycle s { sel := none, ticks := ticks } := by
  have hm : cycleMid s { sel := s.ref, ticks := ticks } = cycleMid s { sel := none, ticks := ticks } := by
    rw [cycleMid_eq, cycleMid_eq]
    show select (afterTicks s { sel := s.ref, ticks := ticks }) s.ref =
      select (afterTicks s { sel := none, ticks := ticks }) none
    have ha : afterTicks s { sel := s.ref, ticks := ticks } = afterTicks s { sel := none, ticks := ticks } := rfl
    rw [← ha]
    cases hr : s.ref with
    | none => rfl
    | some i =>
      have f := afterTicks_frame s { sel := some i, ticks := ticks }
      rw [ref_same_no_tick _ i (by rw [f.2.2.2.2.1, hr])]
      rfl
  simp only [cycle, hm]

/-- what the root hands down is, as far as the flat model can tell, its designation -/
theorem cycleC_eq {x : CSys} (h : CInv x) (inp : CIn) :
    cycle x.s { sel := rootSel (stepChain inp.conds x.chain), ticks := inp.ticks } =
    cycle x.s { sel := (stepChain inp.conds x.chain).1.out, ticks := inp.ticks } := by
  obtain ⟨_, h2, _⟩ := chain_out_spec inp.conds x.chain h.chain
  unfold rootSel
  cases ht : (stepChain inp.conds x.chain).2
  · have : (stepChain inp.conds x.chain).1.out = x.chain.out := unchanged_of_flag h2 ht
    rw [this, ← h.ref, cycle_sel_ref]
    rfl
  · rfl

theorem cinv_cycleC {x : CSys} (h : CInv x) (inp : CIn) : CInv (cycleC x inp).1 := by
  obtain ⟨_, h2, h3⟩ := chain_out_spec inp.conds x.chain h.chain
  refine ⟨h3, ?_, inv_cycle h.flat _⟩
  show (cycle x.s { sel := rootSel (stepChain inp.conds x.chain), ticks := inp.ticks }).1.ref =
    (stepChain inp.conds x.chain).1.out
  rw [cycle_ref]
  unfold rootSel
  cases ht : (stepChain inp.conds x.chain).2
  · have : (stepChain inp.conds x.chain).1.out = x.chain.out := unchanged_of_flag h2 ht
    simp [this, h.ref]
  · simp only [if_true]
    obtain ⟨r, hr⟩ := stepChain_tick_some inp.conds x.chain ht
    rw [hr]

/-- **chain_inv**: the invariant holds in every reachable state of the composed system, for every tree
that starts with all nodes in their initial state and a selection operator (or a pass-through of one) at
its root. -/
theorem chain_inv {cfg : Cfg} {c0 : Chain} (hf : c0.Fresh) (h0 : c0.out = none) {x : CSys}
    (h : CReach cfg c0 x) : CInv x := by
  induction h with
  | init => exact ⟨chainInv_fresh hf, by simp [init, h0], inv_init cfg⟩
  | step inp _ ih => exact cinv_cycleC ih inp

/-- **chain_equals_resolved**: a cycle of a selection tree above a dereference is the cycle of ONE reference
whose selector input is what the root designates after the cycle - same next state of the dereference, same
evaluations, same views; when following the selections reaches a target `t`, it is the cycle of a single
reference (re-)selecting `t`.  For every tree, every reachable state, every cycle input. -/
theorem chain_equals_resolved {x : CSys} (h : CInv x) (inp : CIn) :
    (cycleC x inp).2 = (cycle x.s { sel := (cycleC x inp).1.chain.out, ticks := inp.ticks }).2 ∧
    (cycleC x inp).1.s = (cycle x.s { sel := (cycleC x inp).1.chain.out, ticks := inp.ticks }).1 ∧
    ∀ t, resolve (cycleC x inp).1.chain = some t →
      (cycleC x inp).2 = (cycle x.s { sel := some t, ticks := inp.ticks }).2 ∧
      (cycleC x inp).1.s = (cycle x.s { sel := some t, ticks := inp.ticks }).1 := by
  have e := cycleC_eq h inp
  have e1 : (cycleC x inp).2 = (cycle x.s { sel := (cycleC x inp).1.chain.out, ticks := inp.ticks }).2 :=
    congrArg Prod.snd e
  have e2 : (cycleC x inp).1.s = (cycle x.s { sel := (cycleC x inp).1.chain.out, ticks := inp.ticks }).1 :=
    congrArg Prod.fst e
  refine ⟨e1, e2, fun t ht => ?_⟩
  have ho := chain_out_resolved (cinv_cycleC h inp).chain ht
  rw [ho] at e1 e2
  exact ⟨e1, e2⟩

/-- **chain_retarget_samples**: when the designation of the root changes to a target that is valid (the
change may come from ANY selector of the tree, the root's own selector may be silent), every consumer
below the tree is evaluated in that same cycle, sees `modified`, and reads the new target's value. -/
theorem chain_retarget_samples {x : CSys} (h : CInv x) (inp : CIn) {t : Nat}
    (hnew : (cycleC x inp).1.chain.out = some t) (hne : x.chain.out ≠ some t)
    (hv : ((cycleC x inp).1.s.targets t).valid = true) {c : Nat} (hc : c < x.s.nC) :
    ∃ v, (c, v) ∈ (cycleC x inp).2 ∧ v.valid = true ∧ v.modified = true ∧
      v.items = ((cycleC x inp).1.s.targets t).items := by
  obtain ⟨e1, e2, _⟩ := chain_equals_resolved h inp
  rw [hnew] at e1 e2
  rw [e2] at hv ⊢
  obtain ⟨v, hs⟩ := ref_retarget_samples h.flat { sel := some t, ticks := inp.ticks } rfl
    (by rw [h.ref]; exact hne) hv hc
  exact ⟨v, by rw [e1]; exact hs.evaluated, hs.valid, hs.modified, hs.value⟩

/-- **chain_unchanged_silent**: a cycle in which the root designates what it designated before - whatever
selectors ticked, on or off the current path, including a change of path that ends at the same target -
and in which that target gets no tick evaluates no consumer. -/
theorem chain_unchanged_silent {x : CSys} (h : CInv x) (hs : x.s.sched = []) (inp : CIn)
    (hsame : (cycleC x inp).1.chain.out = x.chain.out)
    (hq : ∀ t, x.chain.out = some t → inp.ticks t = none) : (cycleC x inp).2 = [] := by
  obtain ⟨e1, _, _⟩ := chain_equals_resolved h inp
  rw [e1, hsame]
  exact ref_unselected_silent h.flat hs _ (Or.inr h.ref.symm) (fun t ht => hq t (by rw [← h.ref]; exact ht))

/-- **chain_reads_designated**: whatever a consumer below the tree reads is the value of the target the
root designates at that moment. -/
theorem chain_reads_designated {x : CSys} (h : CInv x) (inp : CIn) {c : Nat} {v : View}
    (hcv : (c, v) ∈ (cycleC x inp).2) :
    match (cycleC x inp).1.chain.out with
    | some t => v.valid = ((cycleC x inp).1.s.targets t).valid ∧ v.items = ((cycleC x inp).1.s.targets t).items
    | none => v.valid = false := by
  have hr := (cinv_cycleC h inp).ref
  rw [← hr]
  exact ref_reads_target h.flat _ hcv

/-! ## non-vacuity and the stale reference -/

/-- `if_then_else(s0, if_then_else(s1, a, b), if_then_else(s2, c, d))` -/
def tree2 : Chain := .ite 0 {} (.ite 1 {} (.leaf 0) (.leaf 1)) (.ite 2 {} (.leaf 2) (.leaf 3))

def condsOf (l : List (Nat × Nat)) : Nat → Option Nat := fun n => (l.find? (·.1 == n)).map (·.2)

/-- **the designation is not `resolve` when the selections do not resolve**: after `s0 = true, s1 = true`
the tree designates `a`; `s0 = false` then selects the right inner node, whose selector never ticked:
following the selections reaches nothing, but the root keeps designating `a` (`if (!selected.valid())
return;`). -/
def staleExample : Chain := (stepChain (condsOf [(0, 1)]) (stepChain (condsOf [(0, 0), (1, 0)]) tree2).1).1

example : resolve staleExample = none ∧ staleExample.out = some 0 := by decide

def cfgTs4 : Cfg := { shape := .ts, nC := 2, nT := 4 }

/-- both inner nodes selected, the root on the left one, `a = 1`, `b = 10` -/
def stC : CSys :=
  (cycleC { chain := tree2, s := init cfgTs4 }
    { conds := condsOf [(0, 0), (1, 0), (2, 0)],
      ticks := fun u => if u = 0 then some { sets := [(0, 1)] } else if u = 1 then some { sets := [(0, 10)] } else none }).1

theorem stC_reach : CReach cfgTs4 tree2 stC := CReach.step _ CReach.init

/-- the hypotheses of `chain_retarget_samples` are met by the scenario of the seeded defect s16: only the
INNER selector ticks (the root's selector is silent), the designation moves from `a` to `b`, which ticked in
an earlier cycle, and both consumers are evaluated -/
example : ∃ inp : CIn, inp.conds 0 = none ∧ (cycleC stC inp).1.chain.out = some 1 ∧ stC.chain.out ≠ some 1 ∧
    ((cycleC stC inp).1.s.targets 1).valid = true ∧ (∀ t, inp.ticks t = none) ∧ (cycleC stC inp).2.length = 2 :=
  ⟨{ conds := condsOf [(1, 1)] }, by decide, by decide, by decide, by decide, fun _ => rfl, by decide⟩

/-- the hypotheses of `chain_unchanged_silent` are met by a cycle in which an inner selector OFF the current
path ticks and an unselected target ticks -/
example : ∃ inp : CIn, inp.conds 2 = some 1 ∧ stC.s.sched = [] ∧ (cycleC stC inp).1.chain.out = stC.chain.out ∧
    (∀ t, stC.chain.out = some t → inp.ticks t = none) ∧ inp.ticks 1 ≠ none :=
  ⟨{ conds := condsOf [(2, 1)], ticks := fun u => if u = 1 then some { sets := [(0, 11)] } else none },
    by decide, rfl, by decide, by
      intro t ht
      have h0 : stC.chain.out = some 0 := by decide
      rw [h0] at ht; cases ht; rfl, by decide⟩

end HgVerif.RefLink
